/-
  Adapter/ThriftShared.lean — C14, second component: the line-protocol face of
  Model/ThriftShared.lean and the executable specification over histories in which several
  calls of one client are open at once.  Import-free.

  A case is one Thrift interface (`Cfg` = the shapes of the result classes of its methods)
  behind one `ThriftSerializerSink` above several serial connections.  Operations (`k` is the
  identity of a call, chosen by the script):

    call k m c <args>   the client calls method number `m`; the call travels on connection `c`;
                        observed: the bytes that reached the server's end of that connection and
                        what the Thrift library's generated Processor decoded from them
    answer k <reply>    the server's handler answers call `k`; observed: the reply frame the
                        library's Processor wrote (it is not delivered yet)
    chunk k n           the next `n` bytes of that frame are delivered to the client's socket of
                        the call's connection; observed: what the caller of call `k` has got
                        (`pending`: nothing yet)
    close k             the server closes the connection of call `k`; observed: as for `chunk`

  Operations of different calls interleave freely.
-/
import ScalesModel.Core.Run
import ScalesModel.Model.ThriftShared
import ScalesModel.Adapter.ThriftCodec
namespace Scales.ThriftShared
open Scales.ThriftCodec

/-- the interface: the result-class shape of every method -/
abbrev Cfg := List Sig

inductive Op where
  | call (k m c : Nat) (args : TFields)
  | answer (k : Nat) (r : Reply)
  | chunk (k n : Nat)
  | close (k : Nat)
  deriving DecidableEq

/-- the call an operation belongs to -/
def Op.id : Op → Nat
  | .call k _ _ _ => k
  | .answer k _ => k
  | .chunk k _ => k
  | .close k => k

inductive Obs where
  | call (sent : Bytes) (decoded : Option (Bytes × Nat × TFields))
  | frame (fr : Bytes)
  /-- `none`: the call is still pending -/
  | out (o : Option Outcome)
  /-- the model's answer to an operation that makes no sense (unknown call, …); excluded by `wf` -/
  | skip
  deriving DecidableEq

/-- one record per call; nothing else -/
abbrev St := Nat → Option Call

def St.init : St := fun _ => none

def St.set (s : St) (k : Nat) (v : Option Call) : St := fun j => if j = k then v else s j

/-- what is observed at an operation of a call, given the record of *that call* -/
def obsOf (cfg : Cfg) (cur : Option Call) : Op → Obs
  | .call _ m _ args =>
    match cur, cfg[m]? with
    | none, some sig =>
      let bytes := callBytes sig.name args
      -- the server side: strip the frame, decode with the library's protocol
      let dec := match decMsg (bytes.drop 4) with
        | some msg => some (msg.name, msg.mtype, msg.body)
        | none => none
      .call bytes dec
    | _, _ => .skip
  | .answer _ r =>
    match cur with
    | some cl =>
      (match cl.reply, cfg[cl.m]? with
       | none, some sig => .frame (replyBytes sig.name r)
       | _, _ => .skip)
    | none => .skip
  | .chunk _ n =>
    match cur with
    | some cl => .out ((cl.feed n).outcome cfg)
    | none => .skip
  | .close _ =>
    match cur with
    | some cl => .out (cl.close.outcome cfg)
    | none => .skip

/-- the bookkeeping of a call: which method, which reply (and how long its frame was *observed*
    to be), how many bytes were handed over, closed or not.  Shared by the model and by the
    specification (which runs it on the implementation's observations). -/
def book (cur : Option Call) : Op → Obs → Option Call
  | .call _ m c _, _ =>
    match cur with
    | none => some ⟨m, c, none, 0, [], false⟩
    | some cl => some cl
  | .answer _ r, .frame fr =>
    match cur with
    | some cl => if cl.reply = none then some { cl with reply := some r, flen := fr.length } else some cl
    | none => none
  | .answer _ _, _ => cur
  | .chunk _ n, _ => cur.map (·.feed n)
  | .close _, _ => cur.map (·.close)

def step (cfg : Cfg) (s : St) (op : Op) : St × Obs :=
  let o := obsOf cfg (s op.id) op
  (s.set op.id (book (s op.id) op o), o)

/-! ### codecs -/

def decSig : V → Option Sig
  | .l [name, nonvoid, declared] => do
    pure ⟨← V.bytes? name, ← V.bool? nonvoid, ← V.natList? declared⟩
  | _ => none

def decCfg (vs : List V) : Option Cfg := vs.mapM decSig

def decOp : List V → Option Op
  | [.a "call", k, m, c, args] => do
    pure (.call (← V.nat? k) (← V.nat? m) (← V.nat? c) (← decFieldsV args))
  | [.a "answer", k, r] => do pure (.answer (← V.nat? k) (← decReply r))
  | [.a "chunk", k, n] => do pure (.chunk (← V.nat? k) (← V.nat? n))
  | [.a "close", k] => do pure (.close (← V.nat? k))
  | _ => none

def encObs : Obs → V
  | .call sent (some (name, mt, args)) =>
    .l [.a "call", V.ofBytes sent, V.ofBytes name, V.ofNat mt, .l (encTFields args)]
  | .call sent none => .l [.a "call", V.ofBytes sent, .a "none"]
  | .frame fr => .l [.a "frame", V.ofBytes fr]
  | .out none => .l [.a "out", .a "pending"]
  | .out (some o) => .l [.a "out", encOutcome o]
  | .skip => .a "skip"

def decObs : V → Option Obs
  | .l [.a "call", sent, .a "none"] => do pure (.call (← V.bytes? sent) none)
  | .l [.a "call", sent, name, mt, args] => do
    pure (.call (← V.bytes? sent) (some (← V.bytes? name, ← V.nat? mt, ← decFieldsV args)))
  | .l [.a "frame", fr] => do pure (.frame (← V.bytes? fr))
  | .l [.a "out", .a "pending"] => some (.out none)
  | .l [.a "out", o] => do pure (.out (some (← decOutcome o)))
  | .a "skip" => some .skip
  | _ => none

/-! ### specification over a history

  Every (operation, observation) pair is judged with the bookkeeping of its own call (method,
  reply, observed frame length, bytes handed over so far).  Nothing here mentions the model's
  encoder, decoder or read loop.

  * call: as in the one-call component — the bytes sent on the call's connection are a 4-byte
    big-endian length followed by exactly that many bytes, and the Thrift library's Processor
    decoded them to a CALL of this method with these arguments.
  * chunk / close of call k, once the whole reply frame of call k has been handed to the socket
    of its connection: the caller of call k has got `expected` for the method and the reply of
    call k — the return value for a normal reply, the library's error carrying the declared /
    application exception, `None` for a void result, MISSING_RESULT as an error — whatever
    other calls are open, were made or were answered in between, and however the bytes were
    cut.  Nothing is demanded before that point, nor when the server closes early. -/

def encOut : Option Outcome → V
  | none => .a "pending"
  | some o => encOutcome o

def specOut (cfg : Cfg) (idx : Nat) (cl : Call) (o : Option Outcome) : Verdict :=
  match cl.reply, cfg[cl.m]? with
  | some r, some sig =>
    if listSum cl.sizes < cl.flen then .ok
    else if o = some (expected sig r) then .ok
    else .fail (replyClause sig r) [V.ofNat idx, encOut o, encOutcome (expected sig r)]
  | _, _ => .ok

def specObs (cfg : Cfg) (cur : Option Call) (idx : Nat) : Op → Obs → Verdict
  | .call _ m _ args, .call sent dec =>
    (match cfg[m]? with
     | some sig => specCall sig idx args sent dec
     | none => .ok)
  | .answer _ _, .frame _ => .ok
  | .chunk _ n, .out o =>
    (match cur with
     | some cl => specOut cfg idx (cl.feed n) o
     | none => .ok)
  | .close _, .out o =>
    (match cur with
     | some cl => specOut cfg idx cl.close o
     | none => .ok)
  | _, _ => .fail "obs-kind" [V.ofNat idx]

def specGo (cfg : Cfg) (s : St) (idx : Nat) : List (Op × Obs) → Verdict
  | [] => .ok
  | (op, o) :: rest =>
    (specObs cfg (s op.id) idx op o).and
      (fun _ => specGo cfg (s.set op.id (book (s op.id) op o)) (idx + 1) rest)

def spec (cfg : Cfg) (h : List (Op × Obs)) : Verdict := specGo cfg St.init 0 h

/-! ### hypotheses -/

/-- no two methods of an interface have the same name -/
def distinctNames : List Sig → Bool
  | [] => true
  | s :: rest => rest.all (fun t => decide (t.name ≠ s.name)) && distinctNames rest

def cfgOk (cfg : Cfg) : Bool :=
  cfg.all (fun s => decide (s.name.length < 2147483648)) && distinctNames cfg

/-- an operation makes sense for the record of its call: the call is new and its method
    exists; it is answered once, with a reply the generated Processor can produce for its
    method; bytes are delivered after the answer and before the server closes; values are in
    range and messages fit a frame -/
def opOk (cfg : Cfg) (cur : Option Call) : Op → Bool
  | .call _ m _ args =>
    cur.isNone &&
    (match cfg[m]? with
     | some sig => TFields.wf args && decide ((callPayload sig.name args).length < 2147483648)
     | none => false)
  | .answer _ r =>
    (match cur with
     | some cl =>
       cl.reply.isNone && !cl.closed &&
       (match cfg[cl.m]? with
        | some sig => replyOk sig r && decide ((encMsg (replyMsg sig.name r)).length < 2147483648)
        | none => false)
     | none => false)
  | .chunk _ _ =>
    (match cur with
     | some cl => cl.reply.isSome && !cl.closed
     | none => false)
  | .close _ =>
    (match cur with
     | some cl => !cl.closed
     | none => false)

def opsOk (cfg : Cfg) : St → List Op → Bool
  | _, [] => true
  | s, op :: ops => opOk cfg (s op.id) op && opsOk cfg (step cfg s op).1 ops

/-! A serial connection carries one transaction at a time (the pool above it guarantees that;
    C08): a call is sent on a connection on which no earlier call is still pending and which the
    server has not closed, and the server closes the connection of a call only while that call is
    the last one sent on it.  Read off the model's own history.  No proof uses this part of `wf`
    (the model does not look at connections: a call's reply travels on the call's connection);
    it states the domain on which the harness drives the code. -/

structure Conns where
  owner : List (Nat × Nat) := []      -- (connection, the last call sent on it), newest first
  busy : List Nat := []               -- calls still pending
  dead : List Nat := []               -- connections the server closed
  callConn : List (Nat × Nat) := []   -- (call, its connection)

def connScan : Conns → List (Op × Obs) → Bool
  | _, [] => true
  | cs, (.call k _ c _, _) :: rest =>
    let free := match cs.owner.lookup c with
      | some j => !cs.busy.contains j
      | none => true
    free && !cs.dead.contains c &&
      connScan { cs with owner := (c, k) :: cs.owner, busy := k :: cs.busy, callConn := (k, c) :: cs.callConn } rest
  | cs, (.answer _ _, _) :: rest => connScan cs rest
  | cs, (.chunk k _, o) :: rest =>
    (match o with
     | .out (some _) => connScan { cs with busy := cs.busy.filter (· ≠ k) } rest
     | _ => connScan cs rest)
  | cs, (.close k, _) :: rest =>
    (match cs.callConn.lookup k with
     | some c =>
       (cs.owner.lookup c == some k) &&
         connScan { cs with busy := cs.busy.filter (· ≠ k), dead := c :: cs.dead } rest
     | none => false)

/-- the model's history (the same as `comp.modelTrace`: `comp_trace_eq`) -/
def run (cfg : Cfg) : St → List Op → List (Op × Obs)
  | _, [] => []
  | s, op :: ops => (op, (step cfg s op).2) :: run cfg (step cfg s op).1 ops

def wf (cfg : Cfg) (ops : List Op) : Bool :=
  cfgOk cfg && opsOk cfg St.init ops && connScan {} (run cfg St.init ops)

def comp : TComp Cfg St Op Obs where
  decCfg := decCfg
  init := fun _ => St.init
  decOp := decOp
  step := step
  encObs := encObs
  decObs := decObs
  spec := spec
  wf := wf

end Scales.ThriftShared
