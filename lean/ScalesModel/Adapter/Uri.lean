/-
  Adapter/Uri.lean — C20 (component `uri`): line-protocol face of Model/Uri.lean and the
  executable specification.  Import-free.  URIs and hosts travel as hex byte strings.
-/
import ScalesModel.Core.Run
import ScalesModel.Model.Uri
namespace Scales.Uri

inductive Op where
  | parse (uri : Str)
  deriving Repr, DecidableEq

abbrev Obs := Result

def step (_ : Unit) (_ : Unit) (op : Op) : Unit × Obs :=
  match op with
  | .parse s => ((), parseUri s)

def decStr (v : V) : Option Str := do
  let bs ← v.bytes?
  pure (bs.map Char.ofNat)

def encStr (s : Str) : V := V.ofBytes (s.map Char.toNat)

def decCfg : List V → Option Unit
  | [] => some ()
  | _ => none

def decOp : List V → Option Op
  | [.a "parse", s] => do pure (.parse (← decStr s))
  | _ => none

def encObs : Obs → V
  | .tcp eps => .l [.a "tcp", .l (eps.map (fun ep => .l [encStr ep.1, V.ofNat ep.2]))]
  | .zk h p e => .l [.a "zk", encStr h, encStr p, match e with | some f => encStr f | none => .a "none"]
  | .err .value => .l [.a "err", .a "value"]
  | .err .nohandler => .l [.a "err", .a "nohandler"]

def decEp : V → Option (Str × Nat)
  | .l [h, p] => do pure (← decStr h, ← p.nat?)
  | _ => none

def decObs : V → Option Obs
  | .l [.a "tcp", .l eps] => do pure (.tcp (← eps.mapM decEp))
  | .l [.a "zk", h, p, .a "none"] => do pure (.zk (← decStr h) (← decStr p) none)
  | .l [.a "zk", h, p, f] => do pure (.zk (← decStr h) (← decStr p) (some (← decStr f)))
  | .l [.a "err", .a "value"] => some (.err .value)
  | .l [.a "err", .a "nohandler"] => some (.err .nohandler)
  | _ => none

/-! ### specification

  `parseUri` is the reference reading of a URI ("the listed host:port endpoints", "the given
  hosts, path and optional endpoint name"); Props/C20.lean proves that it returns exactly
  what a rendered URI lists.  The property demands nothing for a tcp URI whose endpoint list
  is malformed. -/

def Result.isErr : Result → Bool
  | .err _ => true
  | _ => false

def specObs (idx : Nat) (op : Op) (o : Obs) : Verdict :=
  match op with
  | .parse s =>
    if schemeOf s ≠ tcpScheme && schemeOf s ≠ zkScheme then
      if o.isErr then .ok else .fail "scheme-not-rejected" [V.ofNat idx, encStr s, encObs o]
    else
      match parseUri s with
      | .tcp eps =>
        if o = .tcp eps then .ok else .fail "tcp-endpoints" [V.ofNat idx, encStr s, encObs o, encObs (.tcp eps)]
      | .zk h p e =>
        if o = .zk h p e then .ok else .fail "zk-fields" [V.ofNat idx, encStr s, encObs o, encObs (.zk h p e)]
      | .err _ => .ok

def specGo (idx : Nat) : List (Op × Obs) → Verdict
  | [] => .ok
  | (op, o) :: rest => (specObs idx op o).and (fun _ => specGo (idx + 1) rest)

def spec (_ : Unit) (hist : List (Op × Obs)) : Verdict := specGo 0 hist

def isPrintable (c : Char) : Bool := decide (0x21 ≤ c.toNat) && decide (c.toNat ≤ 0x7e)

def opOk : Op → Bool
  | .parse s => s.all isPrintable

def comp : TComp Unit Unit Op Obs where
  decCfg := decCfg
  init := fun _ => ()
  decOp := decOp
  step := step
  encObs := encObs
  decObs := decObs
  spec := spec
  wf := fun _ ops => ops.all opOk

end Scales.Uri
