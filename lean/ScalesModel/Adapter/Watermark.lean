/-
  Adapter/Watermark.lean — C07: line-protocol face of Model/Watermark.lean and the
  executable specification over histories.  Import-free.

  The specification only looks at observations: the events the harness saw on the real
  sinks / provider / callers (`Obs.evs`), and the pool's `_current_size`, `_cache`,
  `_waiters`, deferred `_ProcessQueue` greenlets and `_state` after each operation.
-/
import ScalesModel.Core.Run
import ScalesModel.Model.Watermark
namespace Scales.Watermark

/-! ### codecs -/

def decCfg : List V → Option Cfg
  | [a, b, c] => do pure ⟨← a.nat?, ← b.nat?, ← c.nat?⟩
  | _ => none

def decOp : List V → Option Op
  | [.a "request", b, l] => do pure (.request (← b.bool?) (← l.bool?))
  | [.a "opened", s, b] => do pure (.opened (← s.nat?) (← b.bool?))
  | [.a "respond", c] => do pure (.respond (← c.nat?))
  | [.a "timeout", c] => do pure (.timeout (← c.nat?))
  | [.a "die", s] => do pure (.die (← s.nat?))
  | [.a "run"] => some .run
  | [.a "close"] => some .close
  | [.a "open", b] => do pure (.openPool (← b.bool?))
  | _ => none

def encOutcome : Outcome → V
  | .reply => .a "reply"
  | .timeout => .a "Timeout"
  | .maxWaiters => .a "MaxWaiters"
  | .serviceClosed => .a "ServiceClosed"
  | .other => .a "Other"

def decOutcome : V → Option Outcome
  | .a "reply" => some .reply
  | .a "Timeout" => some .timeout
  | .a "MaxWaiters" => some .maxWaiters
  | .a "ServiceClosed" => some .serviceClosed
  | .a "Other" => some .other
  | _ => none

def encEv : Ev → V
  | .created sid ok => .l [.a "created", V.ofNat sid, V.ofBool ok]
  | .closed sid => .l [.a "closed", V.ofNat sid]
  | .sent sid c => .l [.a "sent", V.ofNat sid, V.ofNat c]
  | .connecting sid c => .l [.a "connecting", V.ofNat sid, V.ofNat c]
  | .queued c => .l [.a "queued", V.ofNat c]
  | .rel sid => .l [.a "rel", V.ofNat sid]
  | .done c out => .l [.a "done", V.ofNat c, encOutcome out]
  | .raised w => .l [.a "raised", .a w]

def decEv : V → Option Ev
  | .l [.a "created", sid, ok] => do pure (.created (← sid.nat?) (← ok.bool?))
  | .l [.a "closed", sid] => do pure (.closed (← sid.nat?))
  | .l [.a "sent", sid, c] => do pure (.sent (← sid.nat?) (← c.nat?))
  | .l [.a "connecting", sid, c] => do pure (.connecting (← sid.nat?) (← c.nat?))
  | .l [.a "queued", c] => do pure (.queued (← c.nat?))
  | .l [.a "rel", sid] => do pure (.rel (← sid.nat?))
  | .l [.a "done", c, out] => do pure (.done (← c.nat?) (← decOutcome out))
  | .l [.a "raised", .a w] => some (.raised w)
  | _ => none

def encObs (o : Obs) : V :=
  .l [.l (o.evs.map encEv), V.ofNat o.size, V.ofNats o.cache, V.ofNats o.waiters,
      V.ofNats o.tasks, V.ofNat o.pstate]

def decObs : V → Option Obs
  | .l [.l evs, size, cache, waiters, tasks, pstate] => do
    pure ⟨← evs.mapM decEv, ← size.nat?, ← cache.natList?, ← waiters.natList?, ← tasks.natList?,
          ← pstate.nat?⟩
  | _ => none

/-! ### what the specification computes from a view -/

def isPending (v : View) (c : Nat) : Bool := v.calls[c]? == some .pending
def pendingIds (v : View) : List Nat := (List.range v.calls.length).filter (isPending v)
def oldestPending (v : View) : Option Nat := (pendingIds v).head?

def isAlive (v : View) (sid : Nat) : Bool :=
  match v.sinks[sid]? with
  | some k => k.alive
  | none => false
def aliveIds (v : View) : List Nat := (List.range v.sinks.length).filter (isAlive v)

def isLent (v : View) (sid : Nat) : Bool :=
  match v.sinks[sid]? with
  | some k => k.lent.isSome
  | none => false
def lentIds (v : View) : List Nat := (List.range v.sinks.length).filter (isLent v)

def isOpening (v : View) (sid : Nat) : Bool :=
  match v.sinks[sid]? with
  | some k => k.opening && k.lent.isSome
  | none => false
/-- connections whose `Open()` is still pending (a call's greenlet is blocked on it) -/
def openingIds (v : View) : List Nat := (List.range v.sinks.length).filter (isOpening v)

/-- connections that are alive and not lent to any call -/
def idleIds (v : View) : List Nat :=
  (List.range v.sinks.length).filter (fun i => isAlive v i && !isLent v i)

def allDone (v : View) : Bool := v.calls.all (· == .done)

/-- a request was actually handed to this connection (`sent`) and its release (`rel`) has not
    happened: the connection is lent in the implementation's sense -/
def isBusy (v : View) (sid : Nat) : Bool :=
  match v.sinks[sid]? with
  | some k => k.lent.isSome && !k.opening
  | none => false
def busyIds (v : View) : List Nat := (List.range v.sinks.length).filter (isBusy v)

/-! ### connects in flight (implementation's sense)

  A connection is *being opened* from the `connecting` event (a caller's greenlet blocks in
  `Open().wait()` of the connection it has just created and counted) until the operation
  `opened sid ok` (that `Open()` completes; the greenlet resumes inside `_Get`).  This is a fact
  about the environment, not about the pool: the specification keeps the list itself instead of
  believing the picture of calls (in which a call whose caller has been answered still "holds"
  the connection it was connecting). -/

def rmConn (conn : List Nat) : Op → List Nat
  | .opened sid _ => conn.filter (· != sid)
  | _ => conn

def addConn (conn : List Nat) : Ev → List Nat
  | .connecting sid _ => conn ++ [sid]
  | _ => conn

/-- the connects still in flight after operation `op` emitted `evs` -/
def connAfter (conn : List Nat) (op : Op) (evs : List Ev) : List Nat := evs.foldl addConn (rmConn conn op)

/-- may call `c` be given a connection: it is arriving or waiting in the queue -/
def startable (v : View) (c : Nat) : Bool :=
  v.calls[c]? == some .arriving || v.calls[c]? == some .pending

/-! ### per-event clauses

  `handoff` — the event happens inside a deferred `_ProcessQueue`;
  `fifoGate` — the pool has never been observed Closed (queue-jumping by a fresh request is
  only excluded for a pool that was never closed). -/

def evCheck (cfg : Cfg) (handoff fifoGate : Bool) (v : View) : Ev → Verdict
  | .created sid ok =>
    if sid ≠ v.sinks.length then .fail "ids" [.a "created", V.ofNat sid]
    else if cfg.max < (aliveIds (v.apply (.created sid ok))).length then
      .fail "bounded" [V.ofNat (aliveIds (v.apply (.created sid ok))).length, V.ofNat cfg.max]
    else .ok
  | .sent sid c =>
    match v.sinks[sid]? with
    | none => .fail "ids" [.a "sent", V.ofNat sid]
    | some k =>
      match k.lent with
      | some c' =>
        -- the connection was being opened for this very call: its connect has ended
        if k.opening && c' == c then .ok
        else .fail "exclusive" [V.ofNat sid, V.ofNat c, V.ofNat c']
      | none =>
        if !startable v c then .fail "started-nonwaiting" [V.ofNat sid, V.ofNat c]
        else if handoff && oldestPending v != some c then
          .fail "fifo" [V.ofNat c, .l ((pendingIds v).map V.ofNat)]
        else if !handoff && fifoGate && !(pendingIds v).isEmpty then
          .fail "fifo-overtake" [V.ofNat c, .l ((pendingIds v).map V.ofNat)]
        else .ok
  | .connecting sid c =>
    match v.sinks[sid]? with
    | none => .fail "ids" [.a "connecting", V.ofNat sid]
    | some k =>
      match k.lent with
      | some c' => .fail "exclusive" [V.ofNat sid, V.ofNat c, V.ofNat c']
      | none =>
        if v.calls[c]? != some .arriving then .fail "started-nonwaiting" [V.ofNat sid, V.ofNat c]
        else if !handoff && fifoGate && !(pendingIds v).isEmpty then
          .fail "fifo-overtake" [V.ofNat c, .l ((pendingIds v).map V.ofNat)]
        else .ok
  | .queued c =>
    if v.calls[c]? == some .arriving then .ok else .fail "ids" [.a "queued", V.ofNat c]
  | .done c _ =>
    match v.calls[c]? with
    | none => .fail "ids" [.a "done", V.ofNat c]
    | some .done => .fail "once" [V.ofNat c]
    | some (.orphan _) => .fail "once" [V.ofNat c]
    | some (.zombie _) => .fail "once" [V.ofNat c]
    | some _ => .ok
  | .rel _ => .ok
  | .closed _ => .ok
  | .raised _ => .ok

def evsCheck (cfg : Cfg) (handoff fifoGate : Bool) : View → List Ev → Verdict
  | _, [] => .ok
  | v, ev :: rest =>
    (evCheck cfg handoff fifoGate v ev).and (fun _ => evsCheck cfg handoff fifoGate (v.apply ev) rest)

/-! ### the monitor -/

structure Mon where
  view : View := ⟨[], []⟩
  pstate : Nat := 1
  tasks : List Nat := []
  closedSeen : Bool := false
  connects : List Nat := []   -- connections whose `Open()` is pending (see `connAfter`)
  deriving Repr

def isRun : Op → Bool
  | .run => true
  | _ => false

/-- did this operation release a connection that was dead, on a pool that was not closed?
    (`_Release` is the first thing a response / time-out / hand-off fall-through does) -/
def deadRelease (m : Mon) (v0 : View) (op : Op) (o : Obs) : Bool :=
  (match op with
   | .respond _ => true
   | .timeout _ => true
   | .run => true
   | _ => false) &&
  (match o.evs with
   | .rel sid :: _ => !isAlive v0 sid
   | _ => false) &&
  m.pstate != 4

def doneWith (evs : List Ev) (c : Nat) (out : Outcome) : Bool := evs.contains (.done c out)

/-! clauses evaluated after the events of one operation; `v0` is the view before the pool's
    code ran, `v1` the view after the events -/

/-- surplus requests fail at once with MaxWaiters -/
def clSurplus (cfg : Cfg) (m : Mon) (op : Op) (o : Obs) : Verdict :=
  match op with
  | .request _ _ =>
    if cfg.maxq ≤ (pendingIds m.view).length
        && !(o.evs.any (fun e => match e with
                                 | .sent _ c' => c' == m.view.calls.length
                                 | .connecting _ c' => c' == m.view.calls.length
                                 | _ => false))
        && !doneWith o.evs m.view.calls.length .maxWaiters then
      .fail "surplus-not-failed" [V.ofNat m.view.calls.length]
    else .ok
  | _ => .ok

def clQueueBound (cfg : Cfg) (v1 : View) : Verdict :=
  if cfg.maxq < (pendingIds v1).length then
    .fail "queue-bound" [V.ofNat (pendingIds v1).length, V.ofNat cfg.maxq]
  else .ok

/-- every counted slot is a connection that is lent, cached or being handed off -/
def clSize (v1 : View) (o : Obs) : Verdict :=
  if o.size ≠ (lentIds v1).length + o.cache.length + o.tasks.length then
    .fail "size-accounting"
      [V.ofNat o.size, V.ofNat (lentIds v1).length, V.ofNat o.cache.length, V.ofNat o.tasks.length]
  else .ok

/-- a hand-off with somebody waiting starts the oldest waiting request on that connection -/
def clHandoff (m : Mon) (v0 : View) (op : Op) (o : Obs) : Verdict :=
  match op, m.tasks, oldestPending v0 with
  | .run, sid :: _, some c =>
    if o.evs.contains (.sent sid c) then .ok else .fail "handoff" [V.ofNat sid, V.ofNat c]
  | _, _, _ => .ok

/-- dead connection found on release / Close(): pool closed, every waiter gets ServiceClosed -/
def clClose (m : Mon) (v0 : View) (op : Op) (o : Obs) : Verdict :=
  if deadRelease m v0 op o || op == .close then
    if o.pstate ≠ 4 then .fail "not-closed" [V.ofNat o.pstate]
    else match (pendingIds v0).find? (fun c => !doneWith o.evs c .serviceClosed) with
      | some c => .fail "waiter-not-failed" [V.ofNat c]
      | none => .ok
  else .ok

/-- no hand-off in flight: nobody waits while a live connection sits idle -/
def clWork (v1 : View) (o : Obs) : Verdict :=
  if o.tasks.isEmpty && !(pendingIds v1).isEmpty && !(idleIds v1).isEmpty then
    .fail "work-conserving" [.l ((pendingIds v1).map V.ofNat), .l ((idleIds v1).map V.ofNat)]
  else .ok

/-- traffic stopped: at most min_watermark connections retained -/
def clIdle (cfg : Cfg) (v1 : View) (o : Obs) : Verdict :=
  if o.tasks.isEmpty && allDone v1 && decide (cfg.min < (aliveIds v1).length) then
    .fail "idle-retains" [V.ofNat (aliveIds v1).length, V.ofNat cfg.min]
  else .ok

/-- capacity is never leaked, connections are never lost.

  (a) `capacity-leaked`: a connection that the picture still shows as being opened for a call
      although its `Open()` is no longer pending: when the connect ended the pool neither handed
      it the request (`sent`) nor returned it through `_Release` (`rel`) — it occupies a counted
      slot, but is neither lent (in the implementation's sense: a request was handed to it and not
      yet released), nor being opened, nor cached, nor in a deferred hand-off.
  (b) `connection-lost`: a live connection that is neither lent nor being opened, nor cached, nor
      in a deferred hand-off (the pool has dropped it without closing it).

  `conn`: the connects in flight after this operation. -/
def clLeak (v1 : View) (conn : List Nat) (o : Obs) : Verdict :=
  match (openingIds v1).filter (fun sid => !conn.contains sid) with
  | sid :: rest =>
    .fail "capacity-leaked"
      [.l ((sid :: rest).map V.ofNat), V.ofNat o.size, .l ((busyIds v1).map V.ofNat), .l (conn.map V.ofNat),
       V.ofNats o.cache, V.ofNats o.tasks]
  | [] =>
    match (aliveIds v1).filter
        (fun sid => !(isLent v1 sid || o.cache.contains sid || o.tasks.contains sid)) with
    | sid :: rest =>
      .fail "connection-lost" [.l ((sid :: rest).map V.ofNat), V.ofNats o.cache, V.ofNats o.tasks]
    | [] => .ok

/-- a call holds its connection until the server answers (also a zombie call, whose caller was
    answered by the timer while the pool was still connecting): when the answer is posted into the
    call's stack, the connection goes back through `_Release` (`capacity is never leaked`) -/
def clAnswer (v0 : View) (op : Op) (o : Obs) : Verdict :=
  match op with
  | .respond c =>
    match v0.calls[c]? with
    | some (.started sid) =>
      if o.evs.contains (.rel sid) then .ok else .fail "answer-not-released" [V.ofNat sid, V.ofNat c]
    | some (.zombie sid) =>
      if o.evs.contains (.rel sid) then .ok else .fail "answer-not-released" [V.ofNat sid, V.ofNat c]
    | _ => .ok
  | _ => .ok

def isRaised : Ev → Bool
  | .raised _ => true
  | _ => false

def isOpenPool : Op → Bool
  | .openPool _ => true
  | _ => false

/-- no exception escapes from the pool, except that `Open()` of a pool that is Closed (it was
    already, or it shut itself down on a connection that failed to open) fails with
    ServiceClosedError -/
def clRaise (op : Op) (o : Obs) : Verdict :=
  match o.evs.filter isRaised with
  | [] => .ok
  | l =>
    if isOpenPool op && o.pstate == 4 && l == [.raised "ServiceClosedError"] then .ok
    else .fail "raised" (l.map (fun e => match e with | .raised w => V.a w | _ => V.a "?"))

def postCheck (cfg : Cfg) (m : Mon) (v0 v1 : View) (op : Op) (o : Obs) : Verdict :=
  Verdict.all [clSurplus cfg m op o, clQueueBound cfg v1, clHandoff m v0 op o, clClose m v0 op o,
    clSize v1 o, clLeak v1 (connAfter m.connects op o.evs) o, clAnswer v0 op o, clWork v1 o, clIdle cfg v1 o,
    clRaise op o]

def Mon.check (cfg : Cfg) (m : Mon) (op : Op) (o : Obs) : Verdict :=
  let v0 := preOp m.view op
  (evsCheck cfg (isRun op) (!m.closedSeen) v0 o.evs).and fun _ =>
  postCheck cfg m v0 (o.evs.foldl View.apply v0) op o

def Mon.next (m : Mon) (op : Op) (o : Obs) : Mon :=
  { view := o.evs.foldl View.apply (preOp m.view op),
    pstate := o.pstate,
    tasks := o.tasks,
    closedSeen := m.closedSeen || o.pstate == 4,
    connects := connAfter m.connects op o.evs }

def specGo (cfg : Cfg) : Mon → List (Op × Obs) → Verdict
  | _, [] => .ok
  | m, (op, o) :: rest => (m.check cfg op o).and (fun _ => specGo cfg (m.next op o) rest)

def spec (cfg : Cfg) (h : List (Op × Obs)) : Verdict := specGo cfg {} h

/-- the monitor after a history (what the specification knows at that point) -/
def monRun (m : Mon) (h : List (Op × Obs)) : Mon := h.foldl (fun m p => m.next p.1 p.2) m

/-- hypotheses of the theorems: none is left (a failing first `Open()` of the pool is handled by
    the code since the repair of F5: the pool stays Closed and the open fails) -/
def opOk : Op → Bool := fun _ => true

def wf (_cfg : Cfg) (ops : List Op) : Bool := ops.all opOk

def comp : TComp Cfg St Op Obs where
  decCfg := decCfg
  init := fun _ => St.init
  decOp := decOp
  step := step
  encObs := encObs
  decObs := decObs
  spec := spec
  wf := wf

end Scales.Watermark
