/-
  Adapter/ThriftCodec.lean — C14: line-protocol face of Model/ThriftCodec.lean and the
  executable specification over histories.  Import-free.

  A case is one method of a Thrift interface (`Cfg` = the shape of its result class) on one
  connection.  Operations:

    call <args>              the client calls the method; observed: the bytes that reached
                             the server's end of the socket, and the method name / arguments
                             the Thrift library's generated Processor decoded from them
    reply <reply> <sizes>    the server's handler answers; the Processor's reply frame is
                             delivered to the client's socket cut into pieces of the given
                             sizes (what is not covered by the sizes never arrives: the
                             server closes); observed: the reply frame the library wrote,
                             and what the caller of the proxy got
-/
import ScalesModel.Core.Run
import ScalesModel.Model.ThriftCodec
namespace Scales.ThriftCodec

abbrev Cfg := Sig

inductive Op where
  | call (args : TFields)
  | reply (r : Reply) (sizes : List Nat)
  deriving DecidableEq

inductive Obs where
  /-- `decoded`: method name, message type and arguments the library's Processor made of the
      bytes (`none`: it could not read them) -/
  | call (sent : Bytes) (decoded : Option (Bytes × Nat × TFields))
  | reply (frame : Bytes) (out : Outcome)
  deriving DecidableEq

/-- the codec is a function: the only state is the number of transactions so far -/
abbrev St := Nat

def step (cfg : Cfg) (st : St) (op : Op) : St × Obs :=
  match op with
  | .call args =>
    let bytes := callBytes cfg.name args
    -- the server side: strip the frame, decode with the library's protocol
    let dec := match decMsg (bytes.drop 4) with
      | some m => some (m.name, m.mtype, m.body)
      | none => none
    (st + 1, .call bytes dec)
  | .reply r sizes =>
    let bytes := replyBytes cfg.name r
    (st, .reply bytes (clientOutcome cfg (splitBy sizes bytes)))

/-! ### codecs -/

def encOptBytes : Option Bytes → V
  | some b => V.ofBytes b
  | none => .a "none"

def decOptBytes : V → Option (Option Bytes)
  | .a "none" => some none
  | v => (V.bytes? v).map some

mutual
  def encTVal : TVal → V
    | .bool b => .l [.a "b", V.ofBool b]
    | .i32 n => .l [.a "i32", .n n]
    | .i64 n => .l [.a "i64", .n n]
    | .str bs => .l [.a "s", V.ofBytes bs]
    | .struct fs => .l [.a "st", .l (encTFields fs)]
  def encTFields : TFields → List V
    | .nil => []
    | .cons f v r => .l [V.ofNat f, encTVal v] :: encTFields r
end

mutual
  def decTVal : V → Option TVal
    | .l [.a tag, x] =>
      if tag = "b" then (V.bool? x).map .bool
      else if tag = "i32" then (V.int? x).map .i32
      else if tag = "i64" then (V.int? x).map .i64
      else if tag = "s" then (V.bytes? x).map .str
      else if tag = "st" then
        match x with
        | .l fs => (decTFields fs).map .struct
        | _ => none
      else none
    | _ => none
  def decTFields : List V → Option TFields
    | [] => some .nil
    | .l [f, v] :: rest =>
      match V.nat? f, decTVal v, decTFields rest with
      | some f, some v, some r => some (.cons f v r)
      | _, _, _ => none
    | _ :: _ => none
end

def decFieldsV : V → Option TFields
  | .l fs => decTFields fs
  | _ => none

def decCfg : List V → Option Cfg
  | [name, nonvoid, declared] => do
    pure ⟨← V.bytes? name, ← V.bool? nonvoid, ← V.natList? declared⟩
  | _ => none

def decReply : V → Option Reply
  | .l [.a "app", ty, msg] => do pure (.app (← V.int? ty) (← decOptBytes msg))
  | .l [.a "result", fs] => do pure (.result (← decFieldsV fs))
  | _ => none

def decOp : List V → Option Op
  | [.a "call", args] => do pure (.call (← decFieldsV args))
  | [.a "reply", r, sizes] => do pure (.reply (← decReply r) (← V.natList? sizes))
  | _ => none

def encErr : Err → V
  | .declared fid v => .l [.a "declared", V.ofNat fid, encTVal v]
  | .app ty msg => .l [.a "app", .n ty, encOptBytes msg]
  | .eof => .a "eof"
  | .decode => .a "decode"
  | .other k => .l [.a "other", .a k]

def decErr : V → Option Err
  | .l [.a "declared", fid, v] => do pure (.declared (← V.nat? fid) (← decTVal v))
  | .l [.a "app", ty, msg] => do pure (.app (← V.int? ty) (← decOptBytes msg))
  | .a "eof" => some .eof
  | .a "decode" => some .decode
  | .l [.a "other", .a k] => some (.other k)
  | _ => none

def encOutcome : Outcome → V
  | .none_ => .a "none"
  | .val v => .l [.a "val", encTVal v]
  | .valApp ty msg => .l [.a "valapp", .n ty, encOptBytes msg]
  | .err w e => .l [.a "err", V.ofBool w, encErr e]

def decOutcome : V → Option Outcome
  | .a "none" => some .none_
  | .l [.a "val", v] => do pure (.val (← decTVal v))
  | .l [.a "valapp", ty, msg] => do pure (.valApp (← V.int? ty) (← decOptBytes msg))
  | .l [.a "err", w, e] => do pure (.err (← V.bool? w) (← decErr e))
  | _ => none

def encObs : Obs → V
  | .call sent (some (name, mt, args)) =>
    .l [.a "call", V.ofBytes sent, V.ofBytes name, V.ofNat mt, .l (encTFields args)]
  | .call sent none => .l [.a "call", V.ofBytes sent, .a "none"]
  | .reply fr out => .l [.a "reply", V.ofBytes fr, encOutcome out]

def decObs : V → Option Obs
  | .l [.a "call", sent, .a "none"] => do pure (.call (← V.bytes? sent) none)
  | .l [.a "call", sent, name, mt, args] => do
    pure (.call (← V.bytes? sent) (some (← V.bytes? name, ← V.nat? mt, ← decFieldsV args)))
  | .l [.a "reply", fr, out] => do pure (.reply (← V.bytes? fr) (← decOutcome out))
  | _ => none

/-! ### specification over a history

  Every (operation, observation) pair is judged on its own; nothing here mentions the
  model's encoder, decoder or read loop.

  * call: the bytes sent are a 4-byte big-endian length followed by exactly that many
    bytes, and the Thrift library's Processor decoded them to a CALL of this method with
    these arguments.
  * reply, when the whole reply frame was delivered (the piece sizes cover it): the caller
    gets the return value for a normal reply; the library's error (ScalesError) carrying
    the declared / application exception as inner exception; `None` for a void result; and
    — as the Thrift library's own generated client does — the MISSING_RESULT application
    exception as an *error* when a non-void method's result has nothing set.  The outcome
    therefore cannot depend on the sizes.  Nothing is demanded when the server closes
    before the frame is complete. -/

def listSum : List Nat → Nat
  | [] => 0
  | n :: ns => n + listSum ns

def specCall (cfg : Cfg) (idx : Nat) (args : TFields) (sent : Bytes)
    (decoded : Option (Bytes × Nat × TFields)) : Verdict :=
  if ¬ (4 ≤ sent.length ∧ toSigned 4 (fromBE (sent.take 4)) = ((sent.length - 4 : Nat) : Int)) then
    .fail "frame-prefix" [V.ofNat idx, V.ofBytes (sent.take 4), V.ofNat (sent.length - 4)]
  else match decoded with
    | none => .fail "call-undecodable" [V.ofNat idx]
    | some (name, mt, dargs) =>
      if name ≠ cfg.name then .fail "call-method" [V.ofNat idx, V.ofBytes name]
      else if mt ≠ mtCall then .fail "call-type" [V.ofNat idx, V.ofNat mt]
      else if dargs ≠ args then .fail "call-args" [V.ofNat idx, .l (encTFields dargs)]
      else .ok

/-- the clause a wrong reply outcome is reported under -/
def replyClause (cfg : Cfg) : Reply → String
  | .app _ _ => "reply-app-exception"
  | .result fs =>
    match (if cfg.nonvoid then fs.lookup 0 else none) with
    | some _ => "reply-value"
    | none =>
      match firstDeclared fs cfg.declared with
      | some _ => "reply-declared-exception"
      | none => if cfg.nonvoid then "reply-missing-result" else "reply-void"

def specReply (cfg : Cfg) (idx : Nat) (r : Reply) (sizes : List Nat) (fr : Bytes)
    (out : Outcome) : Verdict :=
  if listSum sizes < fr.length then .ok
  else if out = expected cfg r then .ok
  else .fail (replyClause cfg r) [V.ofNat idx, encOutcome out, encOutcome (expected cfg r)]

def specObs (cfg : Cfg) (idx : Nat) : Op → Obs → Verdict
  | .call args, .call sent dec => specCall cfg idx args sent dec
  | .reply r sizes, .reply fr out => specReply cfg idx r sizes fr out
  | _, _ => .fail "obs-kind" [V.ofNat idx]

def specGo (cfg : Cfg) (idx : Nat) : List (Op × Obs) → Verdict
  | [] => .ok
  | (op, o) :: rest => (specObs cfg idx op o).and (fun _ => specGo cfg (idx + 1) rest)

def spec (cfg : Cfg) (h : List (Op × Obs)) : Verdict := specGo cfg 0 h

/-! ### hypotheses -/

def msgOk : Option Bytes → Bool
  | some m => decide (m.length < 2147483648)
  | none => true

/-- the body of a reply message is encodable: integers, lengths and field ids in range -/
def replyWf : Reply → Bool
  | .app ty msg => fitsInt 4 ty && msgOk msg
  | .result fs => fs.wf

/-- the replies a generated Processor can produce for this method: an application
    exception, or a result with nothing set, the success field (non-void only), or one
    declared exception (a struct) -/
def replyShape (cfg : Cfg) : Reply → Bool
  | .app _ _ => true
  | .result .nil => true
  | .result (.cons fid v .nil) =>
    (cfg.nonvoid && decide (fid = 0)) ||
    (decide (fid ≠ 0) && cfg.declared.contains fid && (match v with | .struct _ => true | _ => false))
  | .result _ => false

def replyOk (cfg : Cfg) (r : Reply) : Bool := replyWf r && replyShape cfg r

/-- values in range, and the message fits a frame (`pack('!i', len)`) -/
def opOk (cfg : Cfg) : Op → Bool
  | .call args => TFields.wf args && decide ((callPayload cfg.name args).length < 2147483648)
  | .reply r _ => replyOk cfg r && decide ((encMsg (replyMsg cfg.name r)).length < 2147483648)

def cfgOk (cfg : Cfg) : Bool := decide (cfg.name.length < 2147483648)

def wf (cfg : Cfg) (ops : List Op) : Bool := cfgOk cfg && ops.all (opOk cfg)

def comp : TComp Cfg St Op Obs where
  decCfg := decCfg
  init := fun _ => 0
  decOp := decOp
  step := step
  encObs := encObs
  decObs := decObs
  spec := spec
  wf := wf

end Scales.ThriftCodec
