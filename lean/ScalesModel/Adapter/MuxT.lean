/-
  Adapter/MuxT.lean — C08, component `muxt`: line-protocol face of Model/MuxT.lean and the
  executable specification over histories.  `comp` is the transport by itself (`St`, `Op`);
  `pcomp`, what the driver runs as `muxt`, is the transport together with the callers blocked on
  its open result (`PSt`, `POp`).  Import-free.
-/
import ScalesModel.Core.Run
import ScalesModel.Model.MuxT
namespace Scales.MuxT
open Scales.Transport

inductive Op where
  | openT (r : Conn)              -- Open() ; drain
  | openBurst (rs : List (IOOut × Frame))
                                  -- Open(), the connect succeeds, and the outcomes `rs` of the receive
                                  -- loop's first reads are already there when it starts; drain
  | req (id : Nat) (tag : Nat)    -- AsyncProcessRequest ; drain.  `tag`: what the pool handed out
  | wr (o : IOOut)                -- the send loop's pending write returns with `o`
  | rd (o : IOOut) (f : Frame)    -- the receive loop's pending read returns with `o`
                                  -- (`f`: the frame completed by a successful body read)
  | burst (rs : List (IOOut × Frame))
                                  -- the receive loop's pending read and the reads that follow it
                                  -- return without a yield in between (a frame and the end of
                                  -- stream / error right behind it arrive together); then drain
  | race (rs : List (IOOut × Frame)) (pos : Pos) (h : Hit)
                                  -- the reads `rs` as in `burst`, and in the same drain the event `h`
                                  -- (failing next read / failing write / Close()) at position `pos`:
                                  -- before the reads, before the `_ProcessReply` greenlets of their
                                  -- frames, or after those and before the greenlets they woke resume
  | pingDue                       -- the ping loop's sleep ends
  | pingSilence                   -- 5 s after a ping was queued, no Rping arrived
  | close                         -- Close()
  | look
  deriving Repr, DecidableEq

structure Obs where
  state : CS
  openRes : ORes
  faults : Nat
  dels : List (Nat × Resp)
  sent : List Item              -- frames that reached the peer during this operation
  inflight : List Nat           -- request ids in `_tag_map`, in insertion order
  conns : Nat
  parked : List Nat := []       -- request ids of the callers blocked on the open result, oldest first
  deriving Repr, DecidableEq

def stepOut (s : St) : Op → St × Out
  | .openT r => s.openT r
  | .openBurst rs => s.openBurst rs
  | .req id tag => s.request id tag
  | .wr o => s.wr o
  | .rd o f => s.rd o f
  | .burst rs => s.burst rs
  | .race rs pos h => s.race rs pos h
  | .pingDue => s.pingDue
  | .pingSilence => s.pingSilence
  | .close => s.close
  | .look => (s, {})

def obsOf (s : St) (o : Out) : Obs :=
  ⟨s.cstate, s.openRes, o.eff.faults, o.eff.dels, o.sent, s.tagMap.map (·.2), o.eff.conns, []⟩

def step (_ : Unit) (s : St) (op : Op) : St × Obs :=
  let (s', o) := stepOut s op
  (s', obsOf s' o)

/-! ### codecs -/

def decFrame : V → Option Frame
  | .a "rping" => some .rping
  | .l [.a "reply", t] => do pure (.reply (← t.nat?))
  | .a "junk" => some .junk
  | _ => none

def decRead : V → Option (IOOut × Frame)
  | .l [o, f] => do pure (← decIO o, ← decFrame f)
  | _ => none

def decPos : V → Option Pos
  | .a "first" => some .first
  | .a "pre" => some .pre
  | .a "mid" => some .mid
  | _ => none

def decHit : V → Option Hit
  | .a "rdraise" => some .rdRaise
  | .a "rdeof" => some .rdEof
  | .a "wr" => some .wr
  | .a "close" => some .close
  | _ => none

def decOp : List V → Option Op
  | [.a "open", r] => do pure (.openT (← decConn r))
  | [.a "openburst", .l rs] => do pure (.openBurst (← rs.mapM decRead))
  | [.a "req", id, tag] => do pure (.req (← id.nat?) (← tag.nat?))
  | [.a "wr", o] => do pure (.wr (← decIO o))
  | [.a "rd", o, f] => do pure (.rd (← decIO o) (← decFrame f))
  | [.a "burst", .l rs] => do pure (.burst (← rs.mapM decRead))
  | [.a "race", .l rs, pos, h] => do pure (.race (← rs.mapM decRead) (← decPos pos) (← decHit h))
  | [.a "pingdue"] => some .pingDue
  | [.a "pingsilence"] => some .pingSilence
  | [.a "close"] => some .close
  | [.a "look"] => some .look
  | _ => none

def encItem : Item → V
  | .ping => .a "ping"
  | .req tag id => .l [V.ofNat tag, V.ofNat id]

def decItem : V → Option Item
  | .a "ping" => some .ping
  | .l [t, i] => do pure (.req (← t.nat?) (← i.nat?))
  | _ => none

def encORes : ORes → V
  | .none => .a "none"
  | .pending => .a "pending"
  | .ok => .a "ok"
  | .failed => .a "failed"

def decORes : V → Option ORes
  | .a "none" => some .none
  | .a "pending" => some .pending
  | .a "ok" => some .ok
  | .a "failed" => some .failed
  | _ => none

def encObs (o : Obs) : V :=
  .l [encCS o.state, encORes o.openRes, V.ofNat o.faults, .l (o.dels.map encDel),
      .l (o.sent.map encItem), V.ofNats o.inflight, V.ofNat o.conns, V.ofNats o.parked]

def decObs : V → Option Obs
  | .l [st, r, f, .l ds, .l sent, infl, c, pk] => do
      pure ⟨← decCS st, ← decORes r, ← f.nat?, ← ds.mapM decDel, ← sent.mapM decItem,
            ← infl.natList?, ← c.nat?, ← pk.natList?⟩
  | _ => none

/-! ### specification over a history

  What C08 demands of the multiplexed transport, over observations only:

  * once        — a response is only ever handed to a request that is owed one;
  * a *connection failure* (a refused connect; a connection that is accepted and reset / ended
    at once, `openBurst`; a write or read call of a loop that raised or
    met end-of-stream — also one that follows other reads without a yield, `burst`, or that
    lands in the middle of the drain those reads cause, `race`; five
    seconds of ping silence) must, within the same operation, fail every
    request in flight with an error, leave the transport reporting `closed`, and raise the
    fault signal if it was not reporting `closed` before;
  * carries     — a request issued while the transport reports `open` is not rejected, and
                  every successful write call of the send loop puts a ping or the frame of an
                  accepted, not yet transmitted request on the wire (so an accepted request is
                  on the wire after at most as many successful writes as frames were accepted
                  before it — unless the peer answered it before its turn came, in which case the
                  repaired send loop drops its frame, C11/F6b); a transport whose connection
                  was closed on purpose cannot carry anything, so it does not report `open`
                  after a `Close()` — wherever in a drain that `Close()` lands.

  A request handed to the transport while its open is pending (`park`: the caller blocks on the
  open result) is a request the transport has accepted: from then on it is owed exactly one
  response like a request in the tag map.  If the open then fails — refused connect, a fault of a
  read or a write or ping silence during the handshake, wherever in a drain — that is a connection
  failure with this request in flight: it must be handed an error in that very operation.  If the
  open succeeds it is in flight like any other request (its frame is written by a later
  successful write).

  Nothing is demanded for requests in flight at a deliberate `Close()`. -/

structure Acc where
  owed : List Nat := []
  abandoned : List Nat := []
  prev : CS := .idle
  unsent : List Nat := []       -- issued and not answered on the spot, frame not yet seen on the wire
  idx : Nat := 0
  deriving Repr

def isReq : Op → Option Nat
  | .req id _ => some id
  | _ => none

/-- a deliberate `Close()`, alone or in the middle of a drain -/
def isClose : Op → Bool
  | .close => true
  | .race _ _ .close => true
  | _ => false

/-- does a `race` contain a connection failure: its event is one (a failing read or write), or
    one of its reads fails — unless the `Close()` came before the reads, which then never happen -/
def raceFails (rs : List (IOOut × Frame)) (pos : Pos) (h : Hit) : Bool :=
  match h with
  | .close => decide (pos ≠ .first) && rs.any (fun r => r.1 ≠ .ok)
  | _ => true

def isFailure (op : Op) (o : Obs) : Bool :=
  match op with
  | .openT .refuse => decide (1 ≤ o.conns)
  | .openBurst rs => rs.any (fun r => r.1 ≠ .ok)
  | .wr .raise => true
  | .wr .eof => true
  | .rd .raise _ => true
  | .rd .eof _ => true
  | .burst rs => rs.any (fun r => r.1 ≠ .ok)
  | .race rs pos h => raceFails rs pos h
  | .pingSilence => true
  | _ => false

def itemId : Item → Option Nat
  | .ping => none
  | .req _ id => some id

/-- a successful write makes progress: a ping, or the frame of an accepted unsent request -/
def progress (unsent : List Nat) (sent : List Item) : Bool :=
  sent.any (fun it => match it with
    | .ping => true
    | .req _ id => unsent.contains id)

def owedWith (a : Acc) (op : Op) : List Nat :=
  match isReq op with
  | some id => a.owed ++ [id]
  | none => a.owed

/-- the first request in flight that a connection failure leaves unattended.  Every request in
    flight must be handed an error.  In a `burst` or a `race` frames precede the failure: a request
    whose reply was dispatched before the failure was noticed is no longer in flight, so there a
    request counts as attended if it was handed its reply *or* an error in this operation
    (never both: `settle`).  In a `burst` the code under verification always hands out the error;
    in a `race` at position `mid` the replies are really delivered first. -/
def firstUnfailed (op : Op) (owed : List Nat) (dels : List (Nat × Resp)) : Option Nat :=
  match op with
  | .burst _ => owed.find? (fun id => !(dels.any (fun d => d.1 == id)))
  | .race _ _ _ => owed.find? (fun id => !(dels.any (fun d => d.1 == id)))
  | _ => firstNotFailed owed dels

/-- the clauses on a connection failure -/
def vFail (a : Acc) (op : Op) (o : Obs) : Verdict :=
  if isFailure op o then
    match firstUnfailed op (owedWith a op) o.dels with
    | some id => .fail "inflight-not-failed" [V.ofNat a.idx, V.ofNat id]
    | none =>
      if o.state ≠ .closed then .fail "not-closed-after-failure" [V.ofNat a.idx, encCS o.state]
      else if a.prev ≠ .closed ∧ o.faults = 0 then .fail "no-fault-signal" [V.ofNat a.idx]
      else .ok
  else .ok

/-- the clause "an open transport carries the next request" -/
def vCarry (a : Acc) (op : Op) (o : Obs) : Verdict :=
  match op with
  | .req id _ =>
    if a.prev = .opened && o.dels.any (fun d => d.1 == id) then
      .fail "rejected-while-open" [V.ofNat a.idx, V.ofNat id] else .ok
  | .wr .ok =>
    if progress a.unsent o.sent then .ok else .fail "write-carried-nothing" [V.ofNat a.idx]
  | .close => if o.state = .opened then .fail "open-after-close" [V.ofNat a.idx] else .ok
  | .race _ _ .close => if o.state = .opened then .fail "open-after-close" [V.ofNat a.idx] else .ok
  | _ => .ok

def nextUnsent (a : Acc) (op : Op) (o : Obs) : List Nat :=
  let unsent1 : List Nat :=
    match op with
    | .req id _ => if o.dels.any (fun d => d.1 == id) then a.unsent else a.unsent ++ [id]
    | _ => a.unsent
  unsent1.filter (fun id => !(o.sent.any (fun it => itemId it == some id)))

def nextAcc (a : Acc) (op : Op) (o : Obs) (owed2 ab2 : List Nat) : Acc :=
  { owed := if isClose op then [] else owed2
    abandoned := if isClose op then ab2 ++ owed2 else ab2
    prev := o.state
    unsent := nextUnsent a op o
    idx := a.idx + 1 }

def specStep (a : Acc) (op : Op) (o : Obs) : Verdict × Acc :=
  match settle (owedWith a op) a.abandoned o.dels with
  | .error id => (.fail "response-not-owed" [V.ofNat a.idx, V.ofNat id], a)
  | .ok (owed2, ab2) => ((vFail a op o).and (fun _ => vCarry a op o), nextAcc a op o owed2 ab2)

def specGo (a : Acc) : List (Op × Obs) → Verdict
  | [] => .ok
  | (op, o) :: rest =>
    let (v, a') := specStep a op o
    v.and (fun _ => specGo a' rest)

def spec (_ : Unit) (h : List (Op × Obs)) : Verdict := specGo {} h

/-! ### hypotheses on operation lists

  `wr`, `rd`, `burst`, `race`, `pingDue`, `pingSilence` stand for something that happens to a blocked
  greenlet and are only meaningful when that greenlet exists (a `burst` may list reads behind a
  failing one: they do not happen; the event of a `race` needs its greenlet too: a failing write
  needs a pending write, a failing next read a receive loop that is still reading — all reads of
  the race succeeded — and comes after them).  `Open()` is called once ("This method
  may only be called once"), before anything else; requests are not issued while the open is
  still waiting for the initial ping (the caller would block); request ids are fresh and the
  tag handed out by the pool is not the tag of a request in flight, nor 0 or 1 (C11). -/

def hitOk (s : St) (rs : List (IOOut × Frame)) (pos : Pos) : Hit → Bool
  | .rdRaise => decide (pos ≠ .first) && rs.all (fun r => r.1 = .ok)
  | .rdEof => decide (pos ≠ .first) && rs.all (fun r => r.1 = .ok)
  | .wr => (match s.sl with | .writing _ => true | _ => false)
  | .close => true

def enabled (s : St) (seen : List Nat) : Op → Bool
  | .openT _ => s.cstate = .idle && !s.hasOpenResult
  | .openBurst _ => s.cstate = .idle && !s.hasOpenResult
  | .req id tag =>
    !seen.contains id && !s.opening &&
      (s.cstate ≠ .opened || (decide (2 ≤ tag) && !(s.tagMap.any (fun p => p.1 == tag))))
  | .wr o => (match s.sl with | .writing _ => true | _ => false) && o ≠ .eof
  | .rd _ _ => s.rl ≠ .dead
  | .burst _ => s.rl ≠ .dead
  | .race rs pos h => s.rl ≠ .dead && hitOk s rs pos h
  | .pingDue => s.pingLoop && !s.pingWait
  | .pingSilence => s.pingWait
  | .close => s.cstate ≠ .idle || s.hasOpenResult
  | .look => true

def opsOk (s : St) (seen : List Nat) : List Op → Bool
  | [] => true
  | op :: ops =>
    enabled s seen op &&
      opsOk (stepOut s op).1 (match isReq op with | some id => id :: seen | none => seen) ops

/-! ### vocabulary of the property theorems -/

/-- state after an operation list -/
def runOps (s : St) (ops : List Op) : St := ops.foldl (fun s op => (stepOut s op).1) s

/-- the operation meets a connection failure in state `s` before any `_ProcessReply` greenlet of
    the same drain has run: the connect is refused, the pending
    write of the send loop raises, the pending read of the receive loop raises or meets
    end-of-stream (alone, behind other reads, or — `race` at `first` / `pre` — together with a
    failing write or read noticed before the frames are dispatched), or an outstanding ping stays
    unanswered for five seconds.  (A `race` at `mid` whose reads succeed dispatches its frames
    first and fails what is left: `C08_mux_race_inflight_answered_exactly_once`.) -/
def connFailure (s : St) : Op → Bool
  | .openT .refuse => s.cstate = .idle && !s.hasOpenResult
  | .openBurst rs => s.cstate = .idle && !s.hasOpenResult && rs.any (fun r => r.1 ≠ .ok)
  | .wr .raise => match s.sl with | .writing _ => true | _ => false
  | .rd .raise _ => s.rl ≠ .dead
  | .rd .eof _ => s.rl ≠ .dead
  | .burst rs => s.rl ≠ .dead && rs.any (fun r => r.1 ≠ .ok)
  | .race rs pos h =>
    s.rl ≠ .dead && hitOk s rs pos h &&
      (match pos with
       | .first => h.isFault
       | .pre => rs.any (fun r => r.1 ≠ .ok) || h.isFault
       | .mid => rs.any (fun r => r.1 ≠ .ok))
  | .pingSilence => s.pingWait
  | _ => false

/-- number of responses request `id` was handed in a history -/
def responsesTo (id : Nat) (h : List (Op × Obs)) : Nat :=
  (h.map (fun p => p.2.dels.countP (fun d => d.1 == id))).sum

/-- number of times request `id` was issued -/
def issued (id : Nat) (h : List (Op × Obs)) : Nat :=
  h.countP (fun p => isReq p.1 == some id)

def comp : TComp Unit St Op Obs where
  decCfg := fun _ => some ()
  init := fun _ => St.init
  decOp := decOp
  step := step
  encObs := encObs
  decObs := decObs
  spec := spec
  wf := fun _ ops => opsOk St.init [] ops

/-! ### the transport with the callers blocked on its open result (component `muxt`)

  The operations of the transport itself (`tr`), `Open()` in two steps — the connect is in
  progress (`openStart`), the connect concludes (`connected`) —, and a request handed to the
  transport while its open is pending (`park`).  Every operation ends with the end of its drain
  (`PSt.finish`): if the open result was set, the blocked callers go on.

  The specification sees these operations through `POp.view`: a parked request is a request
  (owed one response from the moment it is issued; not answered on the spot, so its frame may be
  written later), a connect that concludes is the `Open()` with that outcome — a refused connect
  or a connection that is reset / ended at once is a connection failure —, the beginning of a
  connect is nothing. -/

inductive POp where
  | tr (op : Op)                  -- an operation of the transport itself
  | openStart                     -- Open(); `_OpenImpl` blocks in the connect; drain
  | connected (r : Conn) (rs : List (IOOut × Frame))
                                  -- the connect in progress concludes with `r`; if it is accepted the
                                  -- outcomes `rs` of the receive loop's first reads are already there
                                  -- (`[]`: nothing is); drain
  | park (id : Nat) (tag : Nat)   -- AsyncProcessRequest while the open is pending: the caller blocks on
                                  -- the open result.  `tag`: what the pool hands it if it goes on
  deriving Repr, DecidableEq

def stepOutP (ps : PSt) : POp → PSt × Out
  | .tr op => ps.finish (stepOut ps.t op).1 ps.connecting (stepOut ps.t op).2
  | .openStart => ps.openStart
  | .connected r rs => ps.connected r rs
  | .park id tag => ps.park id tag

def obsOfP (ps : PSt) (o : Out) : Obs :=
  { obsOf ps.t o with parked := ps.parked.map (·.1) }

def stepP (_ : Unit) (ps : PSt) (op : POp) : PSt × Obs :=
  ((stepOutP ps op).1, obsOfP (stepOutP ps op).1 (stepOutP ps op).2)

def decPOp : List V → Option POp
  | [.a "openstart"] => some .openStart
  | [.a "connected", r, .l rs] => do pure (.connected (← decConn r) (← rs.mapM decRead))
  | [.a "park", id, tag] => do pure (.park (← id.nat?) (← tag.nat?))
  | vs => (decOp vs).map .tr

/-- the operation as the specification sees it -/
def POp.view : POp → Op
  | .tr op => op
  | .openStart => .look
  | .connected .refuse _ => .openT .refuse
  | .connected .ok rs => .openBurst rs
  | .park id tag => .req id tag

def viewH (h : List (POp × Obs)) : List (Op × Obs) := h.map (fun p => (p.1.view, p.2))

def specP (_ : Unit) (h : List (POp × Obs)) : Verdict := spec () (viewH h)

/-! hypotheses: as for the transport's own operations; a request is not issued as `req` while the
    open is pending (the caller blocks: that is `park`, and only then); `Open()` is called once,
    either way; `connected` needs a connect in progress; ids are fresh; the tags the pool hands
    to the blocked callers are distinct and not 0 or 1 (C11). -/

def enabledP (ps : PSt) (seen : List Nat) : POp → Bool
  | .tr op => enabled ps.t seen op && ((isReq op).isNone || !ps.waiting)
  | .openStart => ps.t.cstate = .idle && !ps.t.hasOpenResult && !ps.connecting
  | .connected _ _ => ps.connecting
  | .park id tag =>
    !seen.contains id && ps.waiting && decide (2 ≤ tag) && !(ps.parked.any (fun p => p.2 == tag))

def opsOkP (ps : PSt) (seen : List Nat) : List POp → Bool
  | [] => true
  | op :: ops =>
    enabledP ps seen op &&
      opsOkP (stepOutP ps op).1 (match isReq op.view with | some id => id :: seen | none => seen) ops

/-- state after an operation list -/
def runOpsP (ps : PSt) (ops : List POp) : PSt := ops.foldl (fun s op => (stepOutP s op).1) ps

/-- the operation meets a connection failure (`connFailure`) — of the transport itself, or the
    connect in progress is refused, or it is accepted and one of the first reads, already there,
    fails — unless a `Close()` has shut the transport down while the connect was in progress -/
def connFailureP (ps : PSt) : POp → Bool
  | .tr op => connFailure ps.t op
  | .connected .refuse _ => ps.connecting && ps.t.cstate ≠ .closed
  | .connected .ok rs => ps.connecting && ps.t.cstate ≠ .closed && rs.any (fun r => r.1 ≠ .ok)
  | _ => false

/-- the requests the transport has accepted and not answered: those in the tag map and those
    blocked on the open result -/
def PSt.inflight (ps : PSt) : List Nat := ps.t.tagMap.map (·.2) ++ ps.parked.map (·.1)

/-- number of responses request `id` was handed in a history -/
def responsesToP (id : Nat) (h : List (POp × Obs)) : Nat :=
  (h.map (fun p => p.2.dels.countP (fun d => d.1 == id))).sum

def pcomp : TComp Unit PSt POp Obs where
  decCfg := fun _ => some ()
  init := fun _ => PSt.init
  decOp := decPOp
  step := stepP
  encObs := encObs
  decObs := decObs
  spec := specP
  wf := fun _ ops => opsOkP PSt.init [] ops

end Scales.MuxT
