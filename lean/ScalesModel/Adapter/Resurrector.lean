/-
  Adapter/Resurrector.lean — C09, component `resurrector`: line-protocol face of
  Model/Resurrector.lean and the executable specification over histories.  Import-free.

  cfg:  <init µs> <max µs> ( w0 w1 w2 … )      the waits computed by the real code; they define
                                                the back-off function  f(w_i) = w_{i+1}
  ops:  open | req | fault s | done s T/F | turn | reach up/down/hang | tick d | close
  obs:  ( next down state res subs events resp ups busy )
-/
import ScalesModel.Core.Run
import ScalesModel.Model.Resurrector
namespace Scales.Res

structure Cfg where
  init : Nat
  maxW : Nat
  table : List Nat
  deriving Repr, DecidableEq

/-- `f w` = the entry following the first occurrence of `w` in the table (`dflt` if there is none) -/
def tableNext (dflt : Nat) : List Nat → Nat → Nat
  | a :: b :: rest, w => if a = w then b else tableNext dflt (b :: rest) w
  | _, _ => dflt

/-- the waits computed by the shipped defaults (5 s, 60 s, exponent 1.2), in µs -/
def defaultCfg : Cfg :=
  ⟨5000000, 60000000, [5000000, 6898648, 10151186, 16136902, 28143895, 54860662, 60000000, 60000000]⟩

def Cfg.par (c : Cfg) : Par := ⟨c.init, c.maxW, tableNext c.maxW c.table⟩

inductive Op where
  | opn
  | req
  | fault (sid : Nat)
  | done (sid : Nat) (ok : Bool)
  | turn
  | reach (r : Reach)
  | tick (d : Nat)
  | close
  deriving Repr, DecidableEq

inductive ResView where
  | none | start | sleep (w : Nat) | opening (sid : Nat)
  deriving Repr, DecidableEq

structure Obs where
  next : Option Nat
  down : Bool
  state : ChSt
  res : ResView
  subs : List Nat
  ev : List Ev
  resp : Resp
  ups : Nat
  busy : Bool
  deriving Repr, DecidableEq

def resView : Res → ResView
  | .none => .none
  | .start => .start
  | .sleep _ w => .sleep w
  | .opening sid _ _ => .opening sid

/-- ascending list of the subscribed sinks -/
def subsOf (s : St) : List Nat :=
  (List.range s.sinks.length).filter (fun i => s.subs.contains i)

def obsOf (s : St) (r : Resp) : Obs :=
  ⟨s.next, s.down, stateOf s, resView s.res, subsOf s, s.ev, r, s.ups, !s.tasks.isEmpty⟩

def stepSt (p : Par) (s : St) : Op → St × Resp
  | .opn => (doOpen s, .none)
  | .req => doReq p s
  | .fault sid => (doFault s sid, .none)
  | .done sid ok => (doDone s sid ok, .none)
  | .turn => (runTurn p s, .none)
  | .reach r => ({ s with reach := r }, .none)
  | .tick d => (doTick p s d, .none)
  | .close => (doClose s, .none)

def step (c : Cfg) (s : St) (op : Op) : St × Obs :=
  let (s', r) := stepSt c.par (clearEv s) op
  (s', obsOf s' r)

/-! ### codecs -/

def decReach : V → Option Reach
  | .a "up" => some .up
  | .a "down" => some .down
  | .a "hang" => some .hang
  | _ => none

def encReach : Reach → V
  | .up => .a "up"
  | .down => .a "down"
  | .hang => .a "hang"

def decCfg : List V → Option Cfg
  | [i, m, t] => do pure ⟨← i.nat?, ← m.nat?, ← t.natList?⟩
  | _ => none

def decOp : List V → Option Op
  | [.a "open"] => some .opn
  | [.a "req"] => some .req
  | [.a "fault", s] => do pure (.fault (← s.nat?))
  | [.a "done", s, b] => do pure (.done (← s.nat?) (← b.bool?))
  | [.a "turn"] => some .turn
  | [.a "reach", r] => do pure (.reach (← decReach r))
  | [.a "tick", d] => do pure (.tick (← d.nat?))
  | [.a "close"] => some .close
  | _ => none

def encOptNat : Option Nat → V
  | some v => V.ofNat v
  | none => .a "none"

def decOptNat : V → Option (Option Nat)
  | .a "none" => some none
  | v => do pure (some (← v.nat?))

def encChSt : ChSt → V
  | .idle => .a "idle"
  | .opened => .a "open"
  | .closed => .a "closed"

def decChSt : V → Option ChSt
  | .a "idle" => some .idle
  | .a "open" => some .opened
  | .a "closed" => some .closed
  | _ => none

def encRes : ResView → V
  | .none => .a "none"
  | .start => .a "start"
  | .sleep w => .l [.a "sleep", V.ofNat w]
  | .opening s => .l [.a "opening", V.ofNat s]

def decRes : V → Option ResView
  | .a "none" => some .none
  | .a "start" => some .start
  | .l [.a "sleep", w] => do pure (.sleep (← w.nat?))
  | .l [.a "opening", s] => do pure (.opening (← s.nat?))
  | _ => none

def encEv : Ev → V
  | .create s => .l [.a "create", V.ofNat s]
  | .opn s r => .l [.a "open", V.ofNat s, encReach r]
  | .close s => .l [.a "close", V.ofNat s]
  | .fwd s => .l [.a "fwd", V.ofNat s]
  | .raised => .l [.a "raised", .a "AttributeError"]

def decEv : V → Option Ev
  | .l [.a "create", s] => do pure (.create (← s.nat?))
  | .l [.a "open", s, r] => do pure (.opn (← s.nat?) (← decReach r))
  | .l [.a "close", s] => do pure (.close (← s.nat?))
  | .l [.a "fwd", s] => do pure (.fwd (← s.nat?))
  | .l [.a "raised", _] => some .raised
  | _ => none

def encResp : Resp → V
  | .none => .a "none"
  | .ff => .a "ff"
  | .fwd s => .l [.a "fwd", V.ofNat s]

def decResp : V → Option Resp
  | .a "none" => some .none
  | .a "ff" => some .ff
  | .l [.a "fwd", s] => do pure (.fwd (← s.nat?))
  | _ => none

def encObs (o : Obs) : V :=
  .l [encOptNat o.next, V.ofBool o.down, encChSt o.state, encRes o.res, V.ofNats o.subs,
      .l (o.ev.map encEv), encResp o.resp, V.ofNat o.ups, V.ofBool o.busy]

def decObs : V → Option Obs
  | .l [n, d, st, r, subs, .l ev, resp, ups, busy] => do
    pure ⟨← decOptNat n, ← d.bool?, ← decChSt st, ← decRes r, ← subs.natList?, ← ev.mapM decEv,
          ← decResp resp, ← ups.nat?, ← busy.bool?⟩
  | _ => none


/-! ### specification over a history

  What the property demands, judged from the operations (the environment's inputs: reachability,
  fault signals, resolved connects, clock, traffic, close) and the observations (channel events and
  the answer to each request) only:

  * `failfast`       a request issued while the endpoint is known to be down (its fault signal was
                     raised on the sink in use and the callback list has run since) is answered
                     FailedFast and reaches no sink;
  * `backoff-…`      while down, the delay before each reconnection attempt is at most the maximum
                     and larger than the delay before the previous one (equal once at the maximum);
  * `not-recovered`  a request is still failed fast although the endpoint has been reachable, and
                     no connect has been left pending, for a full maximum interval;
  * `not-resumed`    after a successful reconnection requests go to the new sink;
  * `connect-after-close`  no connect attempt after `Close()`.
-/

structure SS where
  now : Nat := 0
  reach : Reach := .up
  reachSince : Nat := 0
  closed : Bool := false
  inst : Option Nat := none      -- sink in use, as far as the environment can tell
  instOk : Bool := false         -- … its connect succeeded
  raised : Bool := false         -- its fault signal was raised
  known : Bool := false          -- … and the callback list has run since: down period
  pend : Option Nat := none      -- reconnection attempt whose connect is pending
  pendOk : Option Nat := none    -- … resolved successfully (takes effect at the next turn)
  lastEnd : Nat := 0             -- begin of the down period / end of the last failed attempt
  lastDelay : Option Nat := none
  deriving Repr, DecidableEq

def SS.recovered (a : SS) (s : Nat) : SS :=
  { a with known := false, raised := false, inst := some s, instOk := true, pend := none,
           pendOk := none, lastDelay := none }

/-- the fault signal has arrived: the down period begins -/
def SS.learn (a : SS) : SS :=
  { a with known := true, raised := false, inst := none, instOk := false, lastEnd := a.now, lastDelay := none }

def SS.settle (a : SS) : SS :=
  match a.pendOk with
  | some s => a.recovered s
  | none => a

def isFwd : Ev → Bool
  | .fwd _ => true
  | _ => false

def firstCreate : List Ev → Option Nat
  | [] => none
  | .create s :: _ => some s
  | _ :: r => firstCreate r

/-- judge one (operation, observation) and advance; `idx` is only reported -/
def specStep (c : Cfg) (a : SS) (idx : Nat) (op : Op) (o : Obs) : Verdict × SS :=
  if a.closed then
    match firstCreate o.ev with
    | some s => (.fail "connect-after-close" [V.ofNat idx, V.ofNat s], a)
    | none => (.ok, a)
  else
  match op with
  | .opn =>
    match firstCreate o.ev with
    | some s => (.ok, { a with inst := some s, instOk := decide (a.reach = .up) })
    | none => (.ok, a)
  | .fault k =>
    if a.pendOk = some k then (.ok, { a.recovered k with raised := true })
    else if a.inst = some k ∧ a.known = false then (.ok, { a with raised := true }) else (.ok, a)
  | .done k ok =>
    if a.pend = some k then
      if ok then (.ok, { a with pend := none, pendOk := some k })
      else (.ok, { a with pend := none, lastEnd := a.now })
    else if a.inst = some k ∧ ok = true then (.ok, { a with instOk := true })
    else (.ok, a)
  | .turn =>
    let a := a.settle
    if a.raised ∧ a.known = false then (.ok, a.learn) else (.ok, a)
  | .req =>
    if a.known then
      match a.pendOk with
      | some s =>
        if o.resp = .fwd s then (.ok, a.recovered s)
        else if o.resp = .ff then (.ok, a)
        else (.fail "failfast" [V.ofNat idx, encResp o.resp], a)
      | none =>
        if o.resp ≠ .ff ∨ o.ev.any isFwd then (.fail "failfast" [V.ofNat idx, encResp o.resp], a)
        else if a.reach = .up ∧ a.pend = none ∧ max a.reachSince a.lastEnd + c.maxW ≤ a.now then
          (.fail "not-recovered" [V.ofNat idx, V.ofNat a.now, V.ofNat (max a.reachSince a.lastEnd)], a)
        else (.ok, a)
    else if a.raised then
      -- the signal is on its way; a FailedFast answer shows that it has arrived
      if o.resp = .ff then (.ok, a.learn) else (.ok, a)
    else
      match a.inst with
      | some s =>
        if a.instOk ∧ o.resp ≠ .fwd s then
          (.fail "not-resumed" [V.ofNat idx, encResp o.resp, V.ofNat s], a)
        else (.ok, a)
      | none => (.ok, a)
  | .tick d =>
    let a := { a.settle with now := a.now + d }
    match firstCreate o.ev with
    | none => (.ok, a)
    | some s =>
      if a.known = false then (.ok, a)
      else
        let delay := a.now - a.lastEnd
        if c.maxW < delay then (.fail "backoff-above-max" [V.ofNat idx, V.ofNat delay], a)
        else if (match a.lastDelay with
                 | some p => decide (delay < p) || (decide (delay = p) && decide (p < c.maxW))
                 | none => false) then
          (.fail "backoff-not-growing" [V.ofNat idx, V.ofNat delay], a)
        else
          let a := { a with lastDelay := some delay }
          match a.reach with
          | .up => (.ok, a.recovered s)
          | .down => (.ok, { a with lastEnd := a.now })
          | .hang => (.ok, { a with pend := some s })
  | .reach r => (.ok, { a with reach := r, reachSince := a.now })
  | .close => (.ok, { a with closed := true })

def specGo (c : Cfg) (a : SS) (idx : Nat) : List (Op × Obs) → Verdict
  | [] => .ok
  | (op, o) :: rest =>
    match specStep c a idx op o with
    | (.ok, a') => specGo c a' (idx + 1) rest
    | (f, _) => f

def spec (c : Cfg) (h : List (Op × Obs)) : Verdict := specGo c {} 0 h

/-! ### hypotheses -/

/-- consecutive waits grow until the maximum is reached -/
def tableGrows (maxW : Nat) : List Nat → Bool
  | a :: b :: rest => decide (a ≤ b) && (decide (a < b) || decide (maxW ≤ a)) && tableGrows maxW (b :: rest)
  | _ => true

def cfgWF (c : Cfg) : Bool :=
  decide (0 < c.init) && decide (c.init ≤ c.maxW) && tableGrows c.maxW c.table

/-- is `op` admissible in model state `s`: the clock only moves when the callback list is empty
    and never past the retry greenlet's wake instant (the harness splits ticks there); a channel
    is opened once and not after `Close()`; `fault`/`done` name existing sinks; a sink whose
    `Open()` is still pending does not raise its fault signal (it fails the `Open()` instead) -/
def opOk (s : St) (opened closed : Bool) : Op → Bool
  | .opn => !opened && !closed
  | .close => !closed
  | .fault k =>
    decide (k < s.sinks.length) && decide ((s.sinks.getD k default).ar ≠ .pending) &&
    (match s.res with
     | .opening k' _ .pending => decide (k' ≠ k)
     | _ => true)
  | .done k _ =>
    decide ((s.sinks.getD k default).ar = .pending) && decide (k < s.sinks.length) &&
    (match s.res with
     | .opening k' _ r => decide (k' ≠ k) || decide (r = .pending)
     | _ => true)
  | .tick d =>
    decide (0 < d) && s.tasks.isEmpty &&
    (match s.res with
     | .sleep wakeAt _ => decide (s.now + d ≤ wakeAt)
     | .start => false
     | _ => true)
  | _ => true

def isOpn : Op → Bool
  | .opn => true
  | _ => false

def isClose : Op → Bool
  | .close => true
  | _ => false

def wfGo (p : Par) (s : St) (opened closed : Bool) : List Op → Bool
  | [] => true
  | op :: ops =>
    opOk s opened closed op &&
    wfGo p (stepSt p (clearEv s) op).1 (opened || isOpn op) (closed || isClose op) ops

def comp : TComp Cfg St Op Obs where
  decCfg := decCfg
  init := fun _ => {}
  decOp := decOp
  step := step
  encObs := encObs
  decObs := decObs
  spec := spec
  wf := fun c ops => cfgWF c && wfGo c.par {} false false ops

end Scales.Res
