/-
  Adapter/Serial.lean — C08, component `serial`: line-protocol face of Model/Serial.lean and
  the executable specification over histories.  Import-free.
-/
import ScalesModel.Core.Run
import ScalesModel.Model.Serial
namespace Scales.Serial
open Scales.Transport

inductive Op where
  | openT (r : Conn)            -- Open() ; drain.  `r`: what a connect attempt meets
  | req (id : Nat) (dl : DL)    -- AsyncProcessRequest with a fresh sink stack ; drain
  | io (o : IOOut)              -- the blocking I/O call of the transaction returns with `o`
  | timeoutHere (r : Conn)      -- the transaction's deadline passes while it is blocked in an I/O
                                -- call; the re-connect concludes at once with `r`
  | timeoutBlock                -- the same, and the re-connect takes time: the greenlet blocks in it
  | reconn (r : Conn)           -- the re-connect in progress concludes
  | close                       -- Close()
  | look
  deriving Repr, DecidableEq

structure Obs where
  state : CS                    -- sink.state
  busy : Bool                   -- sink._processing is not None
  faults : Nat                  -- on_faulted notifications during this operation
  dels : List (Nat × Resp)      -- responses handed to sink stacks during this operation
  sent : List Nat               -- request frames that reached the peer during this operation
  conns : Nat                   -- connect attempts that concluded during this operation
  sock : Bool                   -- the socket handle is connected (`ScalesSocket.isOpen()`)
  deriving Repr, DecidableEq

def stepOut (s : St) : Op → St × Out
  | .openT r => let (s', e) := s.openT r; (s', { eff := e })
  | .req id dl => s.request id dl
  | .io o => s.io o
  | .timeoutHere r => s.timeoutHere r
  | .timeoutBlock => s.timeoutBlock
  | .reconn r => s.reconnDone r
  | .close => (s.close, {})
  | .look => (s, {})

def obsOf (s : St) (o : Out) : Obs :=
  ⟨s.state, s.processing.isSome, o.eff.faults, o.eff.dels, o.sent, o.eff.conns, s.sockOpen⟩

def step (_ : Unit) (s : St) (op : Op) : St × Obs :=
  let (s', o) := stepOut s op
  (s', obsOf s' o)

/-! ### codecs -/

def decDL : V → Option DL
  | .a "none" => some .none
  | .a "future" => some .future
  | .l [.a "past", .a "block"] => some .pastBlock
  | .l [.a "past", r] => do pure (.past (← decConn r))
  | _ => none

def decOp : List V → Option Op
  | [.a "open", r] => do pure (.openT (← decConn r))
  | [.a "req", id, dl] => do pure (.req (← id.nat?) (← decDL dl))
  | [.a "io", o] => do pure (.io (← decIO o))
  | [.a "timeout", .a "block"] => some .timeoutBlock
  | [.a "timeout", r] => do pure (.timeoutHere (← decConn r))
  | [.a "reconn", r] => do pure (.reconn (← decConn r))
  | [.a "close"] => some .close
  | [.a "look"] => some .look
  | _ => none

def encObs (o : Obs) : V :=
  .l [encCS o.state, V.ofBool o.busy, V.ofNat o.faults, .l (o.dels.map encDel), V.ofNats o.sent,
      V.ofNat o.conns, V.ofBool o.sock]

def decObs : V → Option Obs
  | .l [st, b, f, .l ds, sent, c, k] => do
      pure ⟨← decCS st, ← b.bool?, ← f.nat?, ← ds.mapM decDel, ← sent.natList?, ← c.nat?, ← k.bool?⟩
  | _ => none

/-! ### specification over a history

  What C08 demands of the serial transport, over observations only:

  * once        — a response is only ever handed to a request that is owed one (issued, not yet
                  answered): no request is answered twice;
  * a *connection failure* (a connect or re-connect that was attempted and refused; an I/O call
    of the transaction in flight that raised or met end-of-stream) must, within the same
    operation, (failed) fail every request in flight with an error, (closed) leave the
    transport reporting `closed`, and (signalled) raise the fault signal if the transport was
    not reporting `closed` before;
  * silence     — when the deadline of the transaction in flight passes while it is blocked in an
                  I/O call (write, header read or body read: the peer is silent), the request is
                  failed: in that very operation if the re-connect concludes in it
                  (`timeoutHere r`); if the re-connect takes time (`timeoutBlock`) at the latest in
                  the operation in which it concludes (`reconn r`) — nothing is demanded for a
                  request whose re-connect is cut short by a deliberate `Close()`.  If the
                  re-connect succeeds the transport is `open` with nothing owed, so the next
                  clauses apply;
  * carries     — a request issued while the transport reports `open` and no request is owed a
                  response is not rejected, and when its write call succeeds its frame has
                  reached the peer.  The clause is judged wherever such a request is issued — also
                  between the two halves of a re-connect that takes time;
  * able        — at *every* observation (also those taken while a re-connect is in progress): a
                  transport that reports `open` while no request is owed a response has a connected
                  socket — without one it cannot carry the next request, whenever that comes.

  Nothing is demanded for requests in flight at a deliberate `Close()`. -/

structure Acc where
  owed : List Nat := []
  abandoned : List Nat := []
  prev : CS := .idle              -- state reported after the previous operation
  wr : Option Nat := none         -- request accepted on an open idle transport; its write is next
  rc : Option (List Nat) := none  -- a re-connect after a time-out is in progress (it was started and has
                                  -- neither concluded nor been cut short by `Close()`); the requests
                                  -- whose time-out handler is waiting for it
  idx : Nat := 0
  deriving Repr

def isReq : Op → Option Nat
  | .req id _ => some id
  | _ => none

/-- did this operation meet a connection failure? (`a.owed` = requests in flight before it; a
    re-connect that concludes refused is one if it is the re-connect this transport is waiting
    for — not a connect left over from before a `Close()`) -/
def isFailure (a : Acc) (op : Op) (o : Obs) : Bool :=
  match op with
  | .openT .refuse => decide (1 ≤ o.conns)
  | .req _ (.past .refuse) => decide (1 ≤ o.conns)
  | .timeoutHere .refuse => decide (1 ≤ o.conns)
  | .reconn .refuse => a.rc.isSome && decide (1 ≤ o.conns)
  | .io .raise => !a.owed.isEmpty
  | .io .eof => !a.owed.isEmpty
  | _ => false

/-- requests owed a response once `op` has been issued -/
def owedWith (a : Acc) (op : Op) : List Nat :=
  match isReq op with
  | some id => a.owed ++ [id]
  | none => a.owed

/-- the clauses on a connection failure -/
def vFail (a : Acc) (op : Op) (o : Obs) : Verdict :=
  if isFailure a op o then
    match firstNotFailed (owedWith a op) o.dels with
    | some id => .fail "inflight-not-failed" [V.ofNat a.idx, V.ofNat id]
    | none =>
      if o.state ≠ .closed then .fail "not-closed-after-failure" [V.ofNat a.idx, encCS o.state]
      else if a.prev ≠ .closed ∧ o.faults = 0 then .fail "no-fault-signal" [V.ofNat a.idx]
      else .ok
  else .ok

/-- the clause on silence: the operation `timeoutHere r` says that the deadline of the
    transaction in flight passed while it was blocked in an I/O call (the write, the read of
    the header or the read of the body).  For a request with a deadline silence ends there: in
    that very operation the request in flight must be failed (handed an error; `settle` has
    already made sure it is handed nothing twice). -/
def vSilence (a : Acc) (op : Op) (o : Obs) : Verdict :=
  match op with
  | .timeoutHere _ =>
    match firstNotFailed a.owed o.dels with
    | some id => .fail "deadline-silence-not-failed" [V.ofNat a.idx, V.ofNat id]
    | none => .ok
  | .reconn _ =>
    -- the re-connect that the time-out handler was blocked in has concluded: a request that
    -- was waiting for it and is still owed its response must be failed now (one that was
    -- answered earlier is not owed)
    match a.rc with
    | some l =>
      match firstNotFailed (l.filter (fun id => a.owed.contains id)) o.dels with
      | some id => .fail "deadline-silence-not-failed" [V.ofNat a.idx, V.ofNat id]
      | none => .ok
    | none => .ok
  | _ => .ok

/-- the transport reported `open` and no request is owed a response -/
def idleOpen (a : Acc) : Bool := a.prev = .opened ∧ a.owed = []

/-- the clause "an open idle transport carries the next request" -/
def vCarry (a : Acc) (op : Op) (o : Obs) : Verdict :=
  match op with
  | .req id .none =>
    if idleOpen a && o.dels.any (fun d => d.1 == id) then
      .fail "rejected-while-open-idle" [V.ofNat a.idx, V.ofNat id] else .ok
  | .req id .future =>
    if idleOpen a && o.dels.any (fun d => d.1 == id) then
      .fail "rejected-while-open-idle" [V.ofNat a.idx, V.ofNat id] else .ok
  | .io .ok =>
    match a.wr with
    | some id => if o.sent = [id] then .ok else .fail "not-carried" [V.ofNat a.idx, V.ofNat id]
    | none => .ok
  | _ => .ok

def nextWr (a : Acc) (op : Op) : Option Nat :=
  match op with
  | .req id .none => if idleOpen a then some id else none
  | .req id .future => if idleOpen a then some id else none
  | .look => a.wr
  | _ => none

/-- is a re-connect in progress after this operation, and who waits for it (`owed2` = requests
    still owed a response after the operation) -/
def nextRc (a : Acc) (op : Op) (owed2 : List Nat) : Option (List Nat) :=
  match op with
  | .timeoutBlock => some owed2
  | .req id .pastBlock => if owed2.contains id && a.rc.isNone then some [id] else a.rc
  | .reconn _ => none
  | .close => none
  | _ => a.rc

/-- the accumulator after an operation whose responses settled to `(owed2, ab2)` -/
def nextAcc (a : Acc) (op : Op) (o : Obs) (owed2 ab2 : List Nat) : Acc :=
  { owed := if op = .close then [] else owed2
    abandoned := if op = .close then ab2 ++ owed2 else ab2
    prev := o.state
    wr := nextWr a op
    rc := nextRc a op owed2
    idx := a.idx + 1 }

/-- the clause "a transport that reports `open` and idle is able to carry", judged on every
    observation: `a'` is the accumulator *after* the operation — the state just reported and the
    requests still owed a response, exactly what `idleOpen` will look at when the next request
    comes.  An open idle transport without a connected socket cannot carry that request. -/
def vAble (idx : Nat) (a' : Acc) (o : Obs) : Verdict :=
  if idleOpen a' && !o.sock then .fail "open-idle-not-connected" [V.ofNat idx] else .ok

def specStep (a : Acc) (op : Op) (o : Obs) : Verdict × Acc :=
  match settle (owedWith a op) a.abandoned o.dels with
  | .error id => (.fail "response-not-owed" [V.ofNat a.idx, V.ofNat id], a)
  | .ok (owed2, ab2) =>
    ((vFail a op o).and (fun _ => (vSilence a op o).and (fun _ =>
        (vCarry a op o).and (fun _ => vAble a.idx (nextAcc a op o owed2 ab2) o))),
     nextAcc a op o owed2 ab2)

def specGo (a : Acc) : List (Op × Obs) → Verdict
  | [] => .ok
  | (op, o) :: rest =>
    let (v, a') := specStep a op o
    v.and (fun _ => specGo a' rest)

def spec (_ : Unit) (h : List (Op × Obs)) : Verdict := specGo {} h

/-! ### hypotheses on operation lists

  `io`, `timeoutHere` and `timeoutBlock` stand for something that happens *to a transaction
  blocked in an I/O call*; they are only meaningful when there is one (and, for the timeout, when
  it carries a deadline; end-of-stream only exists on reads); `reconn` concludes a re-connect and
  needs one in progress.  Request ids are fresh. -/

def enabled (s : St) (seen : List Nat) : Op → Bool
  | .req id _ => !seen.contains id
  | .io o =>
    match s.processing with
    | some t => !(o = .eof && t.phase = .write) && t.phase != .reconn
    | none => false
  | .timeoutHere _ =>
    match s.processing with
    | some t => t.hasDl && t.phase != .reconn
    | none => false
  | .timeoutBlock =>
    match s.processing with
    | some t => t.hasDl && t.phase != .reconn
    | none => false
  | .reconn _ =>
    match s.processing with
    | some t => t.phase == .reconn
    | none => false
  | _ => true

def opsOk (s : St) (seen : List Nat) : List Op → Bool
  | [] => true
  | op :: ops =>
    enabled s seen op &&
      opsOk (stepOut s op).1 (match isReq op with | some id => id :: seen | none => seen) ops

/-! ### vocabulary of the property theorems -/

/-- state after an operation list -/
def runOps (s : St) (ops : List Op) : St := ops.foldl (fun s op => (stepOut s op).1) s

/-- the operation meets a connection failure in state `s`: a connect or re-connect that is
    attempted is refused (also one that had been in progress), or the blocking I/O call of the transaction in flight raises / meets
    end-of-stream -/
def connFailure (s : St) : Op → Bool
  | .openT .refuse => !s.openRes
  | .req _ (.past .refuse) => s.processing.isNone && s.sockOpen
  | .timeoutHere .refuse =>
    match s.processing with
    | some t => t.hasDl && t.phase != .reconn && s.sockOpen
    | none => false
  | .reconn .refuse =>
    match s.processing with
    | some t => t.phase == .reconn
    | none => false
  | .io .raise =>
    match s.processing with
    | some t => t.phase != .reconn
    | none => false
  | .io .eof =>
    match s.processing with
    | some t => t.phase != .reconn
    | none => false
  | _ => false

/-- number of responses request `id` was handed in a history -/
def responsesTo (id : Nat) (h : List (Op × Obs)) : Nat :=
  (h.map (fun p => p.2.dels.countP (fun d => d.1 == id))).sum

/-- number of times request `id` was issued -/
def issued (id : Nat) (h : List (Op × Obs)) : Nat :=
  h.countP (fun p => isReq p.1 == some id)

def comp : TComp Unit St Op Obs where
  decCfg := fun _ => some ()
  init := fun _ => St.init
  decOp := decOp
  step := step
  encObs := encObs
  decObs := decObs
  spec := spec
  wf := fun _ ops => opsOk St.init [] ops

end Scales.Serial
