/-
  Adapter/KafkaCodec.lean — C15: line-protocol face of Model/KafkaCodec.lean and the executable
  specification over histories.  Import-free.

  One case = one Kafka connection (KafkaSerializerSink → KafkaTransportSink over a fake
  socket).  Operations: a caller issues a produce (`put`) or metadata (`mdreq`) request; the
  broker answers with a produce response (`presp`), a metadata response (`mresp`) or arbitrary
  bytes (`raw`) under some correlation id.  The tag the transport's pool hands to a request is
  observed from the real run and is a parameter of the operation (the theorems hold for every
  tag that is not in flight).  Observation of every operation: the bytes the client wrote, the
  bytes the broker fed, and what was delivered to which caller.
-/
import ScalesModel.Core.Run
import ScalesModel.Model.KafkaCodec
namespace Scales.Kafka

structure Cfg where
  clientId : Bytes          -- KafkaTransportSink.CLIENT_ID as the harness found it
  deriving Repr, DecidableEq

inductive Op where
  | put (id : Nat) (tag : Int) (acks : Int) (topic : Bytes) (partition : Int) (payloads : List Bytes)
  | mdreq (id : Nat) (tag : Int)
  | presp (corr : Int) (r : List PRTopic)
  | mresp (corr : Int) (m : MResp)
  | raw (corr : Int) (body : Bytes)
  | crc (bs : Bytes)
  deriving Repr, DecidableEq

inductive Obs where
  /-- bytes written by the client, bytes fed by the broker, deliveries to callers -/
  | io (written : Bytes) (fed : Bytes) (delivered : List (Nat × Result))
  /-- an exception escaped to the caller of `AsyncProcessRequest` -/
  | raised
  | crc (v : Nat)
  deriving Repr, DecidableEq

structure St where
  inflight : List InFlight
  deriving Repr, DecidableEq

/-- `_tag_map[tag] = …` -/
def setTag (fl : List InFlight) (e : InFlight) : List InFlight :=
  match fl with
  | [] => [e]
  | x :: xs => if x.tag = e.tag then e :: xs else x :: setTag xs e

/-- a request that got past the serializer: the transport registers the tag, then builds the
    header (an exception there escapes to the caller, the registration stays) -/
def sendStep (cfg : Cfg) (st : St) (id : Nat) (tag : Int) (k : Kind) (body : Bytes) : St × Obs :=
  let st' : St := ⟨setTag st.inflight ⟨tag, id, k⟩⟩
  match wireRequest cfg.clientId tag k.apiKey body with
  | some w => (st', .io w [] [])
  | none => (st', .raised)

def replyStep (st : St) (fr : Bytes) : St × Obs :=
  let (fl, dl) := routeReply st.inflight fr
  (⟨fl⟩, .io [] fr dl)

def step (cfg : Cfg) (st : St) (op : Op) : St × Obs :=
  match op with
  | .put id tag acks topic partition payloads =>
    match produceBody acks topic partition payloads with
    | none => (st, .io [] [] [(id, .error)])      -- KafkaSerializerSink catches, error reply
    | some body => sendStep cfg st id tag .produce body
  | .mdreq id tag => sendStep cfg st id tag .metadata metadataBody
  | .presp corr r => replyStep st (replyFrame corr (encProduceResp r))
  | .mresp corr m => replyStep st (replyFrame corr (encMetadataResp m))
  | .raw corr body => replyStep st (replyFrame corr body)
  | .crc bs => (st, .crc (crc32 bs))

/-! ### codecs -/

/-- hex atom → bytes, tail recursive (payloads of 64 KiB travel on one line) -/
def hexGo : List Char → List Nat → Option (List Nat)
  | [], acc => some acc.reverse
  | [_], _ => none
  | hi :: lo :: rest, acc =>
    match V.hexVal? hi, V.hexVal? lo with
    | some a, some b => hexGo rest ((a * 16 + b) :: acc)
    | _, _ => none

def decBytes : V → Option Bytes
  | .a s =>
    match s.toList with
    | 'x' :: cs => hexGo cs []
    | _ => none
  | _ => none

def decPRPart : V → Option PRPart
  | .l [.n p, .n e, .n o] => some ⟨p, e, o⟩
  | _ => none

def decPRTopic : V → Option PRTopic
  | .l [t, .l ps] => do pure ⟨← decBytes t, ← ps.mapM decPRPart⟩
  | _ => none

def decMBroker : V → Option MBroker
  | .l [.n n, h, .n p] => do pure ⟨n, ← decBytes h, p⟩
  | _ => none

def decMPart : V → Option MPart
  | .l [.n e, .n pid, .n leader, reps, isr] => do pure ⟨e, pid, leader, ← reps.intList?, ← isr.intList?⟩
  | _ => none

def decMTopic : V → Option MTopic
  | .l [.n e, name, .l ps] => do pure ⟨e, ← decBytes name, ← ps.mapM decMPart⟩
  | _ => none

def decCfg : List V → Option Cfg
  | [cid] => do pure ⟨← decBytes cid⟩
  | _ => none

def decOp : List V → Option Op
  | [.a "put", id, .n tag, .n acks, topic, .n part, .l ps] => do
      pure (.put (← id.nat?) tag acks (← decBytes topic) part (← ps.mapM decBytes))
  | [.a "mdreq", id, .n tag] => do pure (.mdreq (← id.nat?) tag)
  | [.a "presp", .n corr, .l ts] => do pure (.presp corr (← ts.mapM decPRTopic))
  | [.a "mresp", .n corr, .l bs, .l ts] => do
      pure (.mresp corr ⟨← bs.mapM decMBroker, ← ts.mapM decMTopic⟩)
  | [.a "raw", .n corr, body] => do pure (.raw corr (← decBytes body))
  | [.a "crc", bs] => do pure (.crc (← decBytes bs))
  | _ => none

def encProdResult (r : ProdResult) : V :=
  .l [V.ofBytes r.topic, .n r.partition, .n r.error, .n r.offset]

def decProdResult : V → Option ProdResult
  | .l [t, .n p, .n e, .n o] => do pure ⟨← decBytes t, p, e, o⟩
  | _ => none

def encBrokerEntry (e : Int × MBroker) : V :=
  .l [.n e.1, .n e.2.nodeId, V.ofBytes e.2.host, .n e.2.port]

def decBrokerEntry : V → Option (Int × MBroker)
  | .l [.n k, .n n, h, .n p] => do pure (k, ⟨n, ← decBytes h, p⟩)
  | _ => none

def encPartEntry (e : Int × PartMeta) : V :=
  .l [.n e.1, V.ofBytes e.2.topic, .n e.2.partition, .n e.2.leader, V.ofInts e.2.replicas,
      V.ofInts e.2.isr]

def decPartEntry : V → Option (Int × PartMeta)
  | .l [.n k, t, .n pid, .n leader, reps, isr] => do
      pure (k, ⟨← decBytes t, pid, leader, ← reps.intList?, ← isr.intList?⟩)
  | _ => none

def encTopicEntry (e : Bytes × List (Int × PartMeta)) : V :=
  .l [V.ofBytes e.1, .l (e.2.map encPartEntry)]

def decTopicEntry : V → Option (Bytes × List (Int × PartMeta))
  | .l [t, .l ps] => do pure (← decBytes t, ← ps.mapM decPartEntry)
  | _ => none

def encResult : Result → V
  | .produce rs => .l [.a "produce", .l (rs.map encProdResult)]
  | .metadata m => .l [.a "metadata", .l (m.brokers.map encBrokerEntry), .l (m.topics.map encTopicEntry)]
  | .error => .a "error"

def decResult : V → Option Result
  | .l [.a "produce", .l rs] => do pure (.produce (← rs.mapM decProdResult))
  | .l [.a "metadata", .l bs, .l ts] => do
      pure (.metadata ⟨← bs.mapM decBrokerEntry, ← ts.mapM decTopicEntry⟩)
  | .a "error" => some .error
  | _ => none

def encDelivery (d : Nat × Result) : V := .l [V.ofNat d.1, encResult d.2]

def decDelivery : V → Option (Nat × Result)
  | .l [i, r] => do pure (← i.nat?, ← decResult r)
  | _ => none

def encObs : Obs → V
  | .io w f dl => .l [.a "io", V.ofBytes w, V.ofBytes f, .l (dl.map encDelivery)]
  | .raised => .l [.a "raised", .a "model"]
  | .crc v => .l [.a "crc", V.ofNat v]

def decObs : V → Option Obs
  | .l [.a "io", w, f, .l dl] => do pure (.io (← decBytes w) (← decBytes f) (← dl.mapM decDelivery))
  | .l [.a "raised", _] => some .raised
  | .l [.a "crc", v] => do pure (.crc (← v.nat?))
  | _ => none

/-! ### specification over a history

  What the property demands, in terms of observations only.

  * request: whatever a `put` writes must be a valid Kafka v0 ProduceRequest for its inputs
    (judged by the independent parser `parseRequest`, which checks every size against the
    bytes present): API key 0, version 0, the client id, one topic, one partition, one message
    per payload in order, each message with magic 0, attributes 0, the payload as value and a
    Crc field equal to the CRC-32 of the bytes it covers; and an encodable input (`putDomain`)
    must be written (not rejected, no exception).  Nothing is demanded of the timeout, the
    offsets or the keys, nor of how an unencodable input is refused.
  * correlation: the correlation id a request carries on the wire is the one under which the
    reply finds it: a reply is delivered to exactly one caller, a request that is in flight
    under the reply's correlation id; to nobody when there is none.
  * response: an encodable produce (metadata) response delivered to a produce (metadata)
    request decodes to exactly the data encoded. -/

/-- 34 + client id + topic + message set: the value of the size field -/
def requestSize (cfg : Cfg) (topic : Bytes) (payloads : List Bytes) : Nat :=
  34 + cfg.clientId.length + topic.length + msgSetLen payloads

/-- inputs for which a Kafka v0 produce request exists at all -/
def putDomain (cfg : Cfg) (acks : Int) (topic : Bytes) (partition : Int) (payloads : List Bytes) : Bool :=
  inI16 acks && decide (topic.length ≤ 32767) && inI32 partition &&
  decide (cfg.clientId.length ≤ 32767) && decide (requestSize cfg topic payloads ≤ 2147483647)

def msgOk (m : PMsg) : Bool := m.crc == m.crcCalc && m.magic == 0 && m.attrs == 0

/-- the bytes `w` are a valid produce request for these inputs; returns its correlation id -/
def validProduce (cfg : Cfg) (acks : Int) (topic : Bytes) (partition : Int) (payloads : List Bytes)
    (w : Bytes) : Option Int :=
  match parseRequest w with
  | none => none
  | some q =>
    match q.body with
    | .produce a _ [⟨name, [⟨part, msgs⟩]⟩] =>
      if q.apiKey = 0 ∧ q.apiVersion = 0 ∧ q.clientId = cfg.clientId ∧ a = acks ∧ name = topic ∧
          part = partition ∧ msgs.map (·.value) = payloads.map some ∧ msgs.all msgOk = true
      then some q.corr else none
    | _ => none

def allI32 (xs : List Int) : Bool := xs.all inI32

def distinct {α : Type} [DecidableEq α] : List α → Bool
  | [] => true
  | x :: xs => !xs.contains x && distinct xs

def lenOk (n : Nat) : Bool := decide (n ≤ 2147483647)

def prPartWF (p : PRPart) : Bool := inI32 p.partition && inI16 p.error && inI64 p.offset
def prTopicWF (t : PRTopic) : Bool :=
  decide (t.topic.length ≤ 32767) && lenOk t.parts.length && t.parts.all prPartWF
/-- encodable produce responses -/
def prWF (r : List PRTopic) : Bool := lenOk r.length && r.all prTopicWF

def mBrokerWF (b : MBroker) : Bool :=
  inI32 b.nodeId && decide (b.host.length ≤ 32767) && inI32 b.port
def mPartWF (p : MPart) : Bool :=
  inI16 p.error && inI32 p.partition && inI32 p.leader && lenOk p.replicas.length &&
  allI32 p.replicas && lenOk p.isr.length && allI32 p.isr
def mTopicWF (t : MTopic) : Bool :=
  inI16 t.error && decide (t.name.length ≤ 32767) && lenOk t.parts.length && t.parts.all mPartWF &&
  distinct (t.parts.map (·.partition))
/-- encodable metadata responses whose node ids, topic names and partition ids (per topic)
    are distinct, so that "the data encoded" is a well-defined dictionary -/
def mWF (m : MResp) : Bool :=
  lenOk m.brokers.length && m.brokers.all mBrokerWF && distinct (m.brokers.map (·.nodeId)) &&
  lenOk m.topics.length && m.topics.all mTopicWF && distinct (m.topics.map (·.name))

/-- the dictionaries a metadata response stands for (keys distinct) -/
def metaPlain (m : MResp) : MetaResult :=
  ⟨m.brokers.map (fun b => (b.nodeId, b)),
   m.topics.map (fun t => (t.name,
     t.parts.map (fun p => (p.partition, (⟨t.name, p.partition, p.leader, p.replicas, p.isr⟩ : PartMeta)))))⟩

def hasEntry (tag : Int) (id : Nat) (fl : List InFlight) : Option InFlight :=
  fl.find? (fun e => e.tag = tag ∧ e.id = id)

def removeEntry (tag : Int) (id : Nat) : List InFlight → List InFlight
  | [] => []
  | e :: es => if e.tag = tag ∧ e.id = id then es else e :: removeEntry tag id es

/-- what a reply operation says the broker sent, for the response clause -/
def expectedResult (op : Op) (k : Kind) : Option Result :=
  match op, k with
  | .presp _ r, .produce => if prWF r then some (.produce (flattenPR r)) else none
  | .mresp _ m, .metadata => if mWF m then some (.metadata (metaPlain m)) else none
  | _, _ => none

/-- the correlation clause and the response clause for a reply under correlation id `c`;
    `expected k` is the result a request of kind `k` must receive, if the property says so -/
def specReply (fl : List InFlight) (idx : Nat) (c : Int) (expected : Kind → Option Result) (o : Obs) :
    Verdict × List InFlight :=
  match o with
  | .io _ _ dl =>
    match dl with
    | [] =>
      if fl.any (fun e => e.tag = c) then (.fail "reply-lost" [V.ofNat idx, .n c], fl) else (.ok, fl)
    | [(id, res)] =>
      match hasEntry c id fl with
      | none => (.fail "reply-misrouted" [V.ofNat idx, .n c, V.ofNat id], fl)
      | some e =>
        let fl' := removeEntry c id fl
        match expected e.kind with
        | none => (.ok, fl')
        | some want =>
          if res = want then (.ok, fl') else (.fail "response-decoded-wrong" [V.ofNat idx, .n c], fl')
    | _ => (.fail "reply-misrouted" [V.ofNat idx, .n c], fl)
  | _ => (.fail "bad-observation" [V.ofNat idx], fl)

/-- one step of the specification: the requests in flight by *wire* correlation id, the index
    of the operation, the operation and its observation ↦ verdict and the new in-flight list -/
def specStep (cfg : Cfg) (fl : List InFlight) (idx : Nat) (op : Op) (o : Obs) :
    Verdict × List InFlight :=
  match op with
  | .put id _ acks topic partition payloads =>
    match o with
    | .io [] _ _ =>
      if putDomain cfg acks topic partition payloads then (.fail "request-not-written" [V.ofNat idx], fl)
      else (.ok, fl)
    | .io w _ _ =>
      match validProduce cfg acks topic partition payloads w with
      | some corr => (.ok, fl ++ [⟨corr, id, .produce⟩])
      | none => (.fail "request-malformed" [V.ofNat idx], fl)
    | .raised =>
      if putDomain cfg acks topic partition payloads then (.fail "request-raised" [V.ofNat idx], fl)
      else (.ok, fl)
    | .crc _ => (.fail "bad-observation" [V.ofNat idx], fl)
  | .mdreq id _ =>
    match o with
    | .io w _ _ =>
      match parseRequest w with
      | some q => if q.apiKey = 3 then (.ok, fl ++ [⟨q.corr, id, .metadata⟩]) else (.ok, fl)
      | none => (.ok, fl)
    | _ => (.ok, fl)
  | .crc _ =>
    match o with
    | .crc _ => (.ok, fl)
    | _ => (.fail "bad-observation" [V.ofNat idx], fl)
  | .presp c r => specReply fl idx c (expectedResult (.presp c r)) o
  | .mresp c m => specReply fl idx c (expectedResult (.mresp c m)) o
  | .raw c _ => specReply fl idx c (fun _ => none) o

def specGo (cfg : Cfg) (fl : List InFlight) (idx : Nat) : List (Op × Obs) → Verdict
  | [] => .ok
  | (op, o) :: rest =>
    let (v, fl') := specStep cfg fl idx op o
    v.and (fun _ => specGo cfg fl' (idx + 1) rest)

def spec (cfg : Cfg) (h : List (Op × Obs)) : Verdict := specGo cfg [] 0 h

/-! ### hypotheses of the theorems: the tag handed to a request that reaches the transport is an
    int32 not in flight (C11's guarantee for the tag pool), a request that the serializer
    accepts fits a frame, and so does a reply (its size and correlation id are int32) -/

def opOk (cfg : Cfg) (st : St) : Op → Bool
  | .put _ tag acks topic partition payloads =>
    match produceBody acks topic partition payloads with
    | none => true
    | some _ =>
      inI32 tag && (lookupTag tag st.inflight).isNone && putDomain cfg acks topic partition payloads
  | .mdreq _ tag =>
    inI32 tag && (lookupTag tag st.inflight).isNone && decide (cfg.clientId.length ≤ 32767)
  | .presp corr r => inI32 corr && lenOk (4 + (encProduceResp r).length)
  | .mresp corr m => inI32 corr && lenOk (4 + (encMetadataResp m).length)
  | .raw corr body => inI32 corr && lenOk (4 + body.length)
  | .crc _ => true

def opsOk (cfg : Cfg) (st : St) : List Op → Bool
  | [] => true
  | op :: ops => opOk cfg st op && opsOk cfg (step cfg st op).1 ops

/-- the state after a list of operations -/
def run (cfg : Cfg) (st : St) (ops : List Op) : St := ops.foldl (fun s op => (step cfg s op).1) st

def comp : TComp Cfg St Op Obs where
  decCfg := decCfg
  init := fun _ => ⟨[]⟩
  decOp := decOp
  step := step
  encObs := encObs
  decObs := decObs
  spec := spec
  wf := fun cfg ops => opsOk cfg ⟨[]⟩ ops

end Scales.Kafka
