/-
  Adapter/HeapC09.lean — C09 at the balancer hop: component `heap9`.

  Same model (Model/Heap.lean), operations, observations and abstract state `A0` as heap3/heap4
  (Adapter/Heap.lean); only the executable specification differs.  C09 says: "Once the endpoint is
  reachable again the client resumes sending it traffic … without any change to the server set".
  Below the balancer the ResurrectorSink reconnects and its `state` turns Open again; at the
  balancer the member takes part in the choice again only when `__Get`'s walk over the down list
  takes the penalty off it.  The clause demanded here:

    right after every dispatch that went to a member, no current member whose channel reports
    Open is still marked down (carries the penalty, i.e. a load ≥ 0).

  Channel states and membership are rebuilt from the operations alone (`A0`), the marking is read
  from the observation of the implementation.  Nothing is demanded about *which* member is chosen
  (that is C03) nor about the order of the down list.  Import-free.
-/
import ScalesModel.Adapter.Heap
namespace Scales.Heap

/-- current members whose channel is Open although observation `o` shows them marked down -/
def stillDown (a : A0) (o : Obs) : List Nat :=
  (a.members.map (·.1)).filter (fun id => a.chanOf id == chOpen && penalisedIn o id)

/-- C09 verdict for a `get` in abstract state `a` (membership and channel states at the dispatch) -/
def c09Get (a : A0) (idx : Nat) (o : Obs) : Verdict :=
  match o.res with
  | some (.node _ _ _) =>
    (match stillDown a o with
     | [] => .ok
     | id :: _ => .fail "open-member-still-marked-down" [V.ofNat idx, V.ofNat id])
  | _ => .ok

def specGo9 (a : A0) (idx : Nat) : List (Op × Obs) → Verdict
  | [] => .ok
  | (op, o) :: rest =>
    let here : Verdict := match op with
      | .get => c09Get a idx o
      | _ => .ok
    here.and (fun _ => specGo9 (a.after op o) (idx + 1) rest)

def specC09 (_ : Unit) (h : List (Op × Obs)) : Verdict := specGo9 {} 0 h

/-- component `heap9`: heap3/heap4 with the C09 specification -/
def comp9 : TComp Unit HS Op Obs where
  decCfg := fun _ => some ()
  init := fun _ => HS.init
  decOp := decOp
  step := step
  encObs := encObs
  decObs := decObs
  spec := specC09
  wf := fun _ ops => wfOps ops

end Scales.Heap
