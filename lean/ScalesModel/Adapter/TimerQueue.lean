/-
  Adapter/TimerQueue.lean — C10: line-protocol face of Model/TimerQueue.lean, and the
  executable specification over histories.  Import-free.
-/
import ScalesModel.Core.Run
import ScalesModel.Model.TimerQueue
namespace Scales.TimerQ

/-- configuration: resolution and initial clock (both in the model's time unit) -/
structure Cfg where
  res : Nat
  now0 : Nat
  deriving Repr, DecidableEq

abbrev Op := Label

/-- what is visible of the queue after a transition -/
structure ObsSt where
  now : Nat
  queue : List Item        -- sorted by (deadline, seq)
  ev : Bool
  pc : Pc
  ran : List Nat           -- seqs whose action was spawned during this transition, in order
  deriving Repr, DecidableEq

inductive Obs where
  | st (o : ObsSt)
  | bad                    -- the label was not enabled in the model
  deriving Repr, DecidableEq

def obsOf (s : St) : ObsSt := ⟨s.now, s.queue, s.ev, s.pc, s.out.reverse⟩

def stepT (_ : Cfg) (s : St) (op : Op) : St × Obs :=
  match step s op with
  | some s' => (s', .st (obsOf s'))
  | none => (s, .bad)

def initSt (c : Cfg) : St := init c.res c.now0

/-! ### codecs -/

def decCfg : List V → Option Cfg
  | [r, n] => do pure ⟨← r.nat?, ← n.nat?⟩
  | _ => none

def decOp : List V → Option Op
  | [.a "schedule", d] => do pure (.schedule (← d.nat?))
  | [.a "cancel", k] => do pure (.cancel (← k.nat?))
  | [.a "tick", dt] => do pure (.tick (← dt.nat?))
  | [.a "start"] => some .start
  | [.a "resumeSet"] => some .resumeSet
  | [.a "resumeTimeout"] => some .resumeTimeout
  | [.a "resumeSleep"] => some .resumeSleep
  | [.a "idle"] => some .idle
  | _ => none

def encItem (i : Item) : V := .l [V.ofNat i.deadline, V.ofNat i.seq, V.ofBool i.cancelled]
def decItem : V → Option Item
  | .l [d, s, c] => do pure ⟨← d.nat?, ← s.nat?, ← c.bool?⟩
  | _ => none

def encPc : Pc → V
  | .top => .a "top"
  | .sleeping0 => .a "sleeping0"
  | .waiting dl pk => .l [.a "waiting", V.ofNat dl, V.ofNat pk]
  | .blockedEmpty => .a "blockedEmpty"
  | .crashed => .a "crashed"
def decPc : V → Option Pc
  | .a "top" => some .top
  | .a "sleeping0" => some .sleeping0
  | .l [.a "waiting", dl, pk] => do pure (.waiting (← dl.nat?) (← pk.nat?))
  | .a "blockedEmpty" => some .blockedEmpty
  | .a "crashed" => some .crashed
  | _ => none

def encObs : Obs → V
  | .bad => .a "bad"
  | .st o => .l [V.ofNat o.now, .l (o.queue.map encItem), V.ofBool o.ev, encPc o.pc, V.ofNats o.ran]
def decObs : V → Option Obs
  | .a "bad" => some .bad
  | .l [n, .l q, e, p, r] => do
      pure (.st ⟨← n.nat?, ← q.mapM decItem, ← e.bool?, ← decPc p, ← r.natList?⟩)
  | _ => none

/-! ### specification over a history

  The monitor below reads only the labels and the `ran` component of the observations (which
  actions were spawned during which transition).  It keeps the clock (initial clock plus the
  `tick`s), the Schedule calls (numbered in call order, as `_seq` does), the cancel calls and
  the runs so far, and judges every run, every cancel and every `idle` point:

  * `once`            — an action runs at most once, and only if it was scheduled;
  * `not-early`       — it runs at a clock ≥ its deadline `d`;
  * `lost-wakeup`     — at every quiescent point (`idle`) every action that was not cancelled
                        and whose rounded deadline `⌈d⌉` the clock has reached has run
                        (together with `once`: exactly once, with no further scheduling);
  * `order`           — when an action runs, no other pending (scheduled, not yet run, not
                        cancelled) action has a smaller `(⌈d⌉, seq)`;
  * `cancel-effective`— an action for which a cancel call happened at a clock `< ⌈d⌉` does not
                        run (neither after nor before that call).
  "Cancelling never affects any other action" is not a clause of its own: the clauses above
  are demanded of every action whatever is cancelled around it. -/

structure Acc where
  clock : Nat
  n : Nat
  recs : List Rec
  cancels : List (Nat × Nat)
  ran : List (Nat × Nat)
  deriving Repr, DecidableEq

def Acc.init (c : Cfg) : Acc := ⟨c.now0, 0, [], [], []⟩

def Acc.hasRun (a : Acc) (k : Nat) : Bool := (a.ran.map (·.1)).contains k
def Acc.isCancelled (a : Acc) (k : Nat) : Bool := (a.cancels.map (·.1)).contains k
def Acc.recOf (a : Acc) (k : Nat) : Option Rec := a.recs.find? (fun r => r.seq == k)

/-- `(⌈d⌉, seq)` order -/
def Rec.keyLt (a b : Rec) : Bool := decide (a.rd < b.rd) || (a.rd == b.rd && decide (a.seq < b.seq))

/-- scheduled, not yet run, not cancelled -/
def Acc.pending (a : Acc) (r : Rec) : Bool := !a.hasRun r.seq && !a.isCancelled r.seq

/-- the effect of the label itself on the monitor -/
def Acc.apply (res : Nat) (a : Acc) : Label → Acc
  | .schedule d => { a with n := a.n + 1, recs := ⟨a.n + 1, d, ceilTo res d⟩ :: a.recs }
  | .cancel k => { a with cancels := (k, a.clock) :: a.cancels }
  | .tick dt => { a with clock := a.clock + dt }
  | _ => a

/-- judged when action `k` is seen to run -/
def Acc.checkRun (a : Acc) (k : Nat) : Verdict :=
  match a.recOf k with
  | none => .fail "once" [V.ofNat k, .a "never-scheduled"]
  | some r =>
    if a.hasRun k then .fail "once" [V.ofNat k, .a "ran-twice"]
    else if a.clock < r.d then .fail "not-early" [V.ofNat k, V.ofNat r.d, V.ofNat a.clock]
    else if a.cancels.any (fun c => c.1 == k && decide (c.2 < r.rd)) then
      .fail "cancel-effective" [V.ofNat k, V.ofNat r.rd, V.ofNat a.clock]
    else
      match a.recs.find? (fun r' => r'.seq != k && a.pending r' && r'.keyLt r) with
      | some r' => .fail "order" [V.ofNat k, V.ofNat r.rd, V.ofNat r'.seq, V.ofNat r'.rd]
      | none => .ok

def Acc.runs (a : Acc) : List Nat → Verdict × Acc
  | [] => (.ok, a)
  | k :: ks =>
    match a.checkRun k with
    | .ok => Acc.runs { a with ran := (k, a.clock) :: a.ran } ks
    | f => (f, a)

/-- judged at a cancel call (after it was recorded): cancelled before `⌈d⌉` ⇒ has not run -/
def Acc.checkCancel (a : Acc) (k : Nat) : Verdict :=
  match a.recOf k with
  | some r =>
    if decide (a.clock < r.rd) && a.hasRun k then
      .fail "cancel-effective" [V.ofNat k, V.ofNat r.rd, V.ofNat a.clock]
    else .ok
  | none => .ok

/-- judged at a quiescent point -/
def Acc.checkIdle (a : Acc) : Verdict :=
  match a.recs.find? (fun r => !a.isCancelled r.seq && decide (r.rd ≤ a.clock) && !a.hasRun r.seq) with
  | some r => .fail "lost-wakeup" [V.ofNat r.seq, V.ofNat r.rd, V.ofNat a.clock]
  | none => .ok

def obsRan : Obs → List Nat
  | .st o => o.ran
  | .bad => []

/-- judged before / after the runs of a transition -/
def Acc.preCheck (a : Acc) : Label → Verdict
  | .cancel k => a.checkCancel k
  | _ => .ok

def Acc.postCheck (a : Acc) : Label → Verdict
  | .idle => a.checkIdle
  | _ => .ok

def specStep (res : Nat) (a : Acc) (op : Label) (o : Obs) : Verdict × Acc :=
  let a1 := a.apply res op
  match a1.preCheck op with
  | .ok =>
    match a1.runs (obsRan o) with
    | (.ok, a2) => (a2.postCheck op, a2)
    | (f, a2) => (f, a2)
  | f => (f, a1)

def specGo (res : Nat) (a : Acc) : List (Label × Obs) → Verdict
  | [] => .ok
  | (op, o) :: rest =>
    match specStep res a op o with
    | (.ok, a') => specGo res a' rest
    | (f, _) => f

def spec (c : Cfg) (h : List (Op × Obs)) : Verdict := specGo c.res (Acc.init c) h

/-- hypothesis of the theorems: every label is enabled when it is taken -/
def wf (c : Cfg) (ops : List Op) : Bool := (runLabels (initSt c) ops).isSome

def comp : TComp Cfg St Op Obs where
  decCfg := decCfg
  init := initSt
  decOp := decOp
  step := stepT
  encObs := encObs
  decObs := decObs
  spec := spec
  wf := wf

end Scales.TimerQ
