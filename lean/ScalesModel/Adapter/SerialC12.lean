/-
  Adapter/SerialC12.lean — C12 on the serial transport (component `serial12`): same model,
  operations and observations as component `serial`, judged by the C12 clause: once a request
  has been answered with TimeoutError (its deadline had already passed at the pre-write check,
  or the transaction's time-out fired), no frame of it is written afterwards — in particular a
  request that is already expired when it reaches the transport is never written.  Import-free.
-/
import ScalesModel.Adapter.Serial
namespace Scales.SerialC12
open Scales.Serial Scales.Transport

structure Acc where
  timedOut : List Nat := []     -- requests that were handed TimeoutError, or reached the transport
                                -- with their deadline already passed (the caller has its TimeoutError)
  idx : Nat := 0
  deriving Repr

def timeoutsIn (dels : List (Nat × Resp)) : List Nat :=
  (dels.filter (fun d => d.2 == Resp.timeout)).map (·.1)

def expiredOf : Op → List Nat
  | .req id (.past _) => [id]
  | .req id .pastBlock => [id]
  | _ => []

def Acc.after (a : Acc) (op : Op) (o : Obs) : Acc :=
  { timedOut := a.timedOut ++ expiredOf op ++ timeoutsIn o.dels, idx := a.idx + 1 }

/-- a frame written in this operation belongs to a request already handed TimeoutError, or to
    one that is handed TimeoutError in this very operation before anything could be written
    (expired at the pre-write check) -/
def specObs (a : Acc) (op : Op) (o : Obs) : Verdict :=
  match o.sent.find? (fun id => a.timedOut.contains id) with
  | some id => .fail "write-after-timeout" [V.ofNat a.idx, V.ofNat id]
  | none =>
    match op with
    | .req id (.past _) =>
      if o.sent.contains id then .fail "expired-request-written" [V.ofNat a.idx, V.ofNat id] else .ok
    | .req id .pastBlock =>
      if o.sent.contains id then .fail "expired-request-written" [V.ofNat a.idx, V.ofNat id] else .ok
    | _ => .ok

def specGo (a : Acc) : List (Op × Obs) → Verdict
  | [] => .ok
  | (op, o) :: rest => (specObs a op o).and (fun _ => specGo (a.after op o) rest)

def spec (_ : Unit) (h : List (Op × Obs)) : Verdict := specGo {} h

def comp : TComp Unit St Op Obs where
  decCfg := fun _ => some ()
  init := fun _ => St.init
  decOp := Serial.decOp
  step := Serial.step
  encObs := Serial.encObs
  decObs := Serial.decObs
  spec := spec
  wf := fun _ ops => Serial.comp.wf () ops

end Scales.SerialC12
