/-
  Adapter/FrontEnd.lean — C01: line-protocol face of Model/FrontEnd.lean and the executable
  specification over histories.  Every operation carries the (virtual) clock value at which
  it happened, in microseconds.  Import-free.
-/
import ScalesModel.Core.Run
import ScalesModel.Model.FrontEnd
namespace Scales.FrontEnd

inductive Op where
  | issue (T : Nat) (at_ : Nat)
  | openDone (ok : Bool) (at_ : Nat)
  | lower (c : Nat) (o : Outcome) (at_ : Nat)
  | fire (cs : List Nat) (at_ : Nat)     -- timer actions that ran at this instant, in order
  | tick (at_ : Nat)
  deriving Repr, DecidableEq

def Op.time : Op → Nat
  | .issue _ t => t
  | .openDone _ t => t
  | .lower _ _ t => t
  | .fire _ t => t
  | .tick t => t

def Op.isTick : Op → Bool
  | .tick _ => true
  | _ => false

inductive Res where
  | pending
  | done (o : Outcome)
  deriving Repr, DecidableEq

/-- what is visible of one call: the caller's result, how often it was set, stack depth,
    timer state (0 none, 1 armed, 2 cancelled, 3 fired), whether the request went below the
    timeout sink, whether the deadline event was raised -/
structure CallView where
  res : Res
  nsets : Nat
  depth : Nat
  timer : Nat
  lowerGot : Bool
  evtSet : Bool
  deriving Repr, DecidableEq

abbrev Obs := List CallView

def viewOf (c : Call) : CallView :=
  { res := match c.sets.getLast? with
      | some (_, o) => .done o
      | none => .pending
    nsets := c.sets.length
    depth := match c.phase with
      | .waitOpen _ => 1 | .live none => 1 | .live (some _) => 2 | .over _ => 0
    timer := match c.phase with
      | .waitOpen (some _) => 1 | .live (some _) => 1 | .over (.cancelled _ _) => 2 | .over .fired => 3 | _ => 0
    lowerGot := c.lowerGot
    evtSet := c.evtSet }

def stepSt (s : FE) : Op → FE
  | .issue T t => s.issue T t
  | .openDone ok t => s.openDone ok t
  | .lower c o t => s.lower c o t
  | .fire cs t => s.fire cs t
  | .tick t => s.tick t

def step (_ : Unit) (s : FE) (op : Op) : FE × Obs :=
  let s' := stepSt s op
  (s', s'.calls.map viewOf)

/-! ### codecs -/

def decOutcome : V → Option Outcome
  | .l [.a "ok", v] => do pure (.ok (← v.nat?))
  | .l [.a "err", e] => do pure (.err (← e.nat?))
  | .a "timeout" => some .timeout
  | _ => none

def encOutcome : Outcome → V
  | .ok v => .l [.a "ok", V.ofNat v]
  | .err e => .l [.a "err", V.ofNat e]
  | .timeout => .a "timeout"

def decOp : List V → Option Op
  | [.a "issue", T, t] => do pure (.issue (← T.nat?) (← t.nat?))
  | [.a "openDone", ok, t] => do pure (.openDone (← ok.bool?) (← t.nat?))
  | [.a "lower", c, o, t] => do pure (.lower (← c.nat?) (← decOutcome o) (← t.nat?))
  | [.a "fire", cs, t] => do pure (.fire (← cs.natList?) (← t.nat?))
  | [.a "tick", t] => do pure (.tick (← t.nat?))
  | _ => none

def encRes : Res → V
  | .pending => .a "pending"
  | .done o => encOutcome o

def decRes : V → Option Res
  | .a "pending" => some .pending
  | v => do pure (.done (← decOutcome v))

def encView (v : CallView) : V :=
  .l [encRes v.res, V.ofNat v.nsets, V.ofNat v.depth, V.ofNat v.timer, V.ofBool v.lowerGot, V.ofBool v.evtSet]

def decView : V → Option CallView
  | .l [r, n, d, t, lg, ev] => do
      pure ⟨← decRes r, ← n.nat?, ← d.nat?, ← t.nat?, ← lg.bool?, ← ev.bool?⟩
  | _ => none

def encObs (o : Obs) : V := .l (o.map encView)
def decObs : V → Option Obs
  | .l vs => vs.mapM decView
  | _ => none

/-! ### the specification

  Rebuilt from the operations alone: per call its issue time and timeout, whether it was
  issued before the client finished opening, what the environment posted into its stack, and
  whether its timer action ran.  The clauses are those of the property text. -/

structure CallInfo where
  cid : Nat
  issueT : Nat
  T : Nat
  preOpen : Bool
  posts : List Outcome := []
  fired : Bool := false
  first : Option Outcome := none     -- outcome seen at the first observation that showed it complete
  deriving Repr

structure Acc where
  infos : List CallInfo := []
  openAt : Option Nat := none
  deriving Repr

def Acc.after (a : Acc) : Op → Acc
  | .issue T t => { a with infos := a.infos ++ [{ cid := a.infos.length, issueT := t, T := T, preOpen := a.openAt.isNone }] }
  | .openDone _ t => if a.openAt.isNone then { a with openAt := some t } else a
  | .lower c o _ =>
    { a with infos := a.infos.map (fun i => if i.cid = c then { i with posts := i.posts ++ [o] } else i) }
  | .fire cs _ =>
    { a with infos := a.infos.map (fun i => if cs.contains i.cid then { i with fired := true } else i) }
  | .tick _ => a

/-- did the client finish opening too late for call `i` (K1: no timer exists until then)? -/
def openLate (a : Acc) (i : CallInfo) : Bool :=
  i.preOpen && (match a.openAt with
    | some t => decide (i.issueT + i.T < t)
    | none => true)

/-- verdict for call number `c` as shown by `v`, for an operation `op` -/
def specCall (a : Acc) (idx : Nat) (op : Op) (c : Nat) (i : CallInfo) (v : CallView) : Verdict :=
  let now := op.time
  let due := roundUp (i.issueT + i.T)
  if v.nsets > 1 then .fail "completed-twice" [V.ofNat idx, V.ofNat c]
  else
    match v.res with
    | .pending =>
      match i.first with
      | some _ => .fail "completion-undone" [V.ofNat idx, V.ofNat c]
      | none =>
        if i.T > 0 && (decide (now > due) || (decide (now = due) && op.isTick)) then
          .fail "deadline-bound" [V.ofNat idx, V.ofNat c, .a (if openLate a i then "open-late" else "open-in-time")]
        else .ok
    | .done o =>
      match i.first with
      | some o' => if o = o' then .ok else .fail "outcome-changed" [V.ofNat idx, V.ofNat c]
      | none =>
        -- first time seen complete: where does the outcome come from, and when
        let src : Verdict :=
          match o with
          | .ok _ => if i.posts.contains o then .ok else .fail "reply-from-nowhere" [V.ofNat idx, V.ofNat c]
          | .err _ => if i.posts.contains o then .ok else .fail "error-from-nowhere" [V.ofNat idx, V.ofNat c]
          | .timeout =>
            if i.posts.contains .timeout then .ok
            else if i.T = 0 then .fail "timeout-without-deadline" [V.ofNat idx, V.ofNat c]
            else if now < i.issueT + i.T then .fail "timeout-early" [V.ofNat idx, V.ofNat c, V.ofNat now]
            else .ok
        src.and (fun _ =>
          if i.T > 0 && decide (now > due) then
            -- complete, but only after the bound
            .fail "deadline-bound" [V.ofNat idx, V.ofNat c, .a (if openLate a i then "open-late" else "open-in-time")]
          else .ok)

def specCalls (a : Acc) (idx : Nat) (op : Op) : Nat → List CallInfo → List CallView → Verdict
  | _, [], [] => .ok
  | c, i :: is, v :: vs => (specCall a idx op c i v).and (fun _ => specCalls a idx op (c + 1) is vs)
  | _, _, _ => .fail "call-count" [V.ofNat idx]

/-- remember the first completed outcome of a call -/
def note1 (i : CallInfo) (v : CallView) : CallInfo :=
  match i.first, v.res with
  | none, .done o => { i with first := some o }
  | _, _ => i

def noteFirst : List CallInfo → List CallView → List CallInfo
  | i :: is, v :: vs => note1 i v :: noteFirst is vs
  | is, _ => is

def specGo (a : Acc) (idx : Nat) : List (Op × Obs) → Verdict
  | [] => .ok
  | (op, o) :: rest =>
    let a' := a.after op
    (specCalls a' idx op 0 a'.infos o).and
      (fun _ => specGo { a' with infos := noteFirst a'.infos o } (idx + 1) rest)

def spec (_ : Unit) (h : List (Op × Obs)) : Verdict := specGo {} 0 h

/-- the known finding K1: the bound is missed by a call issued before the client finished
    opening, when opening took longer than the call's timeout -/
def isOpenLate : Verdict → Bool
  | .fail "deadline-bound" [_, _, .a "open-late"] => true
  | _ => false

/-! ### legal operation lists (hypotheses of the theorems) -/

def armedBefore (s : FE) (t : Nat) : Bool :=
  s.calls.any (fun c => match c.armedDue with | some due => decide (due < t) | none => false)

def armedAtOrBefore (s : FE) (t : Nat) : Bool :=
  s.calls.any (fun c => match c.armedDue with | some due => decide (due ≤ t) | none => false)

/-- time is monotone; the timer queue is punctual (C10: no armed timer is overdue when
    anything else happens); a timer action runs only when enabled; the environment answers
    only requests it was given and does not forge time-outs before the deadline -/
def opOk (s : FE) (op : Op) : Bool :=
  decide (s.clock ≤ op.time) && !armedBefore s op.time &&
  (match op with
   | .issue T _ => true && decide (T = 0 ∨ T ≥ 1)
   | .openDone _ _ => true
   | .lower c o t =>
     s.calls.any (fun cl => cl.cid == c) &&
     s.calls.all (fun cl => cl.cid != c ||
       (cl.lowerGot && (o != .timeout || decide (cl.T > 0 ∧ cl.issueT + cl.T ≤ t))))
   | .fire cs t =>
     cs.all (fun c => s.calls.any (fun cl => cl.cid == c)) &&
     s.calls.all (fun cl => !cs.contains cl.cid || cl.fireEnabled t)
   | .tick t => !armedAtOrBefore s t)

def opsOk (s : FE) : List Op → Bool
  | [] => true
  | op :: ops => opOk s op && opsOk (stepSt s op) ops

def comp : TComp Unit FE Op Obs where
  decCfg := fun _ => some ()
  init := fun _ => FE.init
  decOp := decOp
  step := step
  encObs := encObs
  decObs := decObs
  spec := spec
  wf := fun _ ops => opsOk FE.init ops

end Scales.FrontEnd
