/-
  Adapter/ServerSet.lean — C19: line-protocol face of Model/ServerSet.lean, the executable
  specification over histories, and the hypotheses of the property theorems.  Import-free.
-/
import ScalesModel.Core.Run
import ScalesModel.Model.ServerSet
namespace Scales.ServerSet

/-- what is recorded after every operation -/
structure Obs where
  bad : Bool               -- the operation was not enabled / its label not a legal choice
  notes : List Note        -- on_join / on_leave calls made during this operation, in order
  mkeys : List Nat         -- the Member handed to each of these calls (its key: what `Member.__eq__`
                           -- compares), same order
  errs : Nat               -- how many of them raised
  quiet : Bool             -- nothing on its way (no fired event, empty queue, idle worker)
  -- internal state, compared for the correspondence only (the specification ignores it)
  nodes : List Nat         -- `_nodes`, sorted
  members : List Nat       -- keys of `_members`, dict order
  qlen : Nat
  watching : Bool
  pending : List Bool      -- fired events, oldest first: true = for the DataWatch
  dw : Bool
  cw : Nat
  reading : Option Rd
  raised : Nat             -- exceptions that escaped into the hub during this operation (never, in the model)
  -- listings by the consumer (compared for the correspondence; the specification ignores them:
  -- the property text speaks of the notification stream only)
  lcount : Nat             -- `_cb_blocker._count`
  gate : Bool              -- `_cb_blocker.event` is set
  lreads : List (Nat × Rd) -- listings in progress: id and the member read in flight, in start order
  done : List (Nat × List Nat)  -- listings that have returned so far: id and the members returned
  deriving Repr, DecidableEq

def insertSorted (x : Nat) : List Nat → List Nat
  | [] => [x]
  | y :: ys => if x ≤ y then x :: y :: ys else y :: insertSorted x ys

def sortNats (xs : List Nat) : List Nat := xs.foldr insertSorted []

def obsOf (cfg : Cfg) (bad : Bool) (ns : List Note) (s : St) : Obs :=
  { bad := bad, notes := ns, mkeys := ns.map (fun e => cfg.keyOf e.2), errs := (ns.filter (raises cfg)).length, quiet := s.quiet,
    nodes := sortNats s.nodes, members := s.members,
    -- an update the worker has taken and is held back on is no longer in `_notification_queue`
    qlen := if s.job.isNone then s.queue.length - 1 else s.queue.length,
    watching := s.watched.isSome, pending := s.pending.map (fun e => e == Ev.data), dw := s.dw,
    cw := s.cw.length,
    reading := s.job.map (·.cur), raised := 0,
    lcount := s.lists.length, gate := s.lists.isEmpty, lreads := s.lists.map (fun l => (l.id, l.cur)),
    done := s.done }

def step (cfg : Cfg) (s : St) (op : Op) : St × Obs :=
  match next cfg s op with
  | some (s', ns) => (s', obsOf cfg false ns s')
  | none => (s, obsOf cfg true [] s)

/-! ### codecs -/

def decOptNat : V → Option (Option Nat)
  | .a "none" => some none
  | v => do pure (some (← v.nat?))

def encOptNat : Option Nat → V
  | some v => V.ofNat v
  | none => .a "none"

def decCfg : List V → Option Cfg
  | [lim, rj, rl] => do pure ⟨← lim.nat?, ← rj.natList?, ← rl.natList?, []⟩
  | [lim, rj, rl, keys] => do pure ⟨← lim.nat?, ← rj.natList?, ← rl.natList?, ← keys.natList?⟩
  | _ => none

def decOp : List V → Option Op
  | [.a "cp"] => some (.tree .createParent)
  | [.a "dp"] => some (.tree .deleteParent)
  | [.a "cc", n] => do pure (.tree (.createChild (← n.nat?)))
  | [.a "dc", n] => do pure (.tree (.deleteChild (← n.nat?)))
  | [.a "start", x] => do pure (.start (← decOptNat x))
  | [.a "deliver", x] => do pure (.deliver (← decOptNat x))
  | [.a "serve"] => some .serve
  | [.a "ret", x] => do pure (.ret (← decOptNat x))
  | [.a "list", x] => do pure (.list (← decOptNat x))
  | [.a "lserve", i] => do pure (.lserve (← i.nat?))
  | [.a "lret", i, x] => do pure (.lret (← i.nat?) (← decOptNat x))
  | _ => none

def encNote (e : Note) : V := .l [.a (if e.1 then "j" else "l"), V.ofNat e.2]
def decNote : V → Option Note
  | .l [.a "j", n] => do pure (true, ← n.nat?)
  | .l [.a "l", n] => do pure (false, ← n.nat?)
  | _ => none

def encEv (b : Bool) : V := .a (if b then "d" else "c")
def decEv : V → Option Bool
  | .a "d" => some true
  | .a "c" => some false
  | _ => none

def encRd : Option Rd → V
  | none => .a "none"
  | some (.requested n) => .l [.a "req", V.ofNat n]
  | some (.served n f) => .l [.a "srv", V.ofNat n, V.ofBool f]
def decRd : V → Option (Option Rd)
  | .a "none" => some none
  | .l [.a "req", n] => do pure (some (.requested (← n.nat?)))
  | .l [.a "srv", n, f] => do pure (some (.served (← n.nat?) (← f.bool?)))
  | _ => none

def encLRead (p : Nat × Rd) : V := .l [V.ofNat p.1, encRd (some p.2)]
def decLRead : V → Option (Nat × Rd)
  | .l [i, r] => do
    match ← decRd r with
    | some rd => pure (← i.nat?, rd)
    | none => none
  | _ => none

def encDone (p : Nat × List Nat) : V := .l [V.ofNat p.1, V.ofNats p.2]
def decDone : V → Option (Nat × List Nat)
  | .l [i, ms] => do pure (← i.nat?, ← ms.natList?)
  | _ => none

def encObs (o : Obs) : V :=
  .l [V.ofBool o.bad, .l (o.notes.map encNote), V.ofNats o.mkeys, V.ofNat o.errs, V.ofBool o.quiet,
      V.ofNats o.nodes, V.ofNats o.members, V.ofNat o.qlen, V.ofBool o.watching,
      .l (o.pending.map encEv), V.ofBool o.dw, V.ofNat o.cw, encRd o.reading, V.ofNat o.raised,
      V.ofNat o.lcount, V.ofBool o.gate, .l (o.lreads.map encLRead), .l (o.done.map encDone)]

def decObs : V → Option Obs
  | .l [bad, .l notes, mkeys, errs, quiet, nodes, members, qlen, watching, .l pending, dw, cw, reading, raised,
        lcount, gate, .l lreads, .l done] => do
    pure { bad := ← bad.bool?, notes := ← notes.mapM decNote, mkeys := ← mkeys.natList?, errs := ← errs.nat?,
           quiet := ← quiet.bool?, nodes := ← nodes.natList?, members := ← members.natList?,
           qlen := ← qlen.nat?, watching := ← watching.bool?, pending := ← pending.mapM decEv,
           dw := ← dw.bool?, cw := ← cw.nat?, reading := ← decRd reading, raised := ← raised.nat?,
           lcount := ← lcount.nat?, gate := ← gate.bool?, lreads := ← lreads.mapM decLRead,
           done := ← done.mapM decDone }
  | _ => none

/-! ### specification over a history

  The specification follows the znode tree from the tree operations of the history, folds the
  delivered notifications into the consumer's view, and demands (property text):
    * `join-twice` / `leave-unknown`: no member is reported as joining while the consumer
      holds it, or as leaving while the consumer does not hold it;
    * `missing` / `stale`: whenever nothing is on its way, the consumer holds every member
      present, and nothing else.
  "An error in one callback does not stop later notifications" is the `missing`/`stale`
  clause on histories whose callbacks raise.

  The same two demands are made of the membership as a consumer sees it that identifies members
  by `Member.__eq__` (endpoints, status, shard — not the znode name), as `LoadBalancerSink`
  does: a server that re-registers under a new znode is, to such a consumer, the same member.
    * `member-join-twice` / `member-leave-unknown`: no join of a Member equal to one the consumer
      holds, no leave of a Member equal to none it holds;
    * `member-missing` / `member-stale`: whenever nothing is on its way, the Members the
      consumer holds are those of the znodes present.
  These are judged on the Members actually handed to the callbacks (`Obs.mkeys`), and only
  as long as the history never had two member znodes with equal Members *at the same time*:
  there the text does not say what such a consumer should hold (one member or two?), so nothing
  is demanded from then on (`dist`). -/

def specTree (t : Tree) : Op → Tree
  | .tree o => if t.legal o then t.apply o else t
  | _ => t

/-- first offending notification, if any: (is-join, name) -/
def firstBad : List Nat → List Note → Option Note
  | _, [] => none
  | view, e :: es =>
    if (if e.1 then !view.contains e.2 else view.contains e.2) then firstBad (applyNote view e) es
    else some e

/-- first element of `a` that is not in `b` -/
def firstNotIn (a b : List Nat) : Option Nat := a.find? (fun x => !b.contains x)

/-- the consumer's view against the members present, at a quiet point -/
def viewVerdict (idx : Nat) (view present : List Nat) : Verdict :=
  match firstNotIn present view with
  | some n => .fail "missing" [V.ofNat idx, V.ofNat n]
  | none =>
    match firstNotIn view present with
    | some n => .fail "stale" [V.ofNat idx, V.ofNat n]
    | none => .ok

/-- the same, for the Members a consumer holds that goes by `Member.__eq__` -/
def viewVerdictK (idx : Nat) (kview present : List Nat) : Verdict :=
  match firstNotIn present kview with
  | some k => .fail "member-missing" [V.ofNat idx, V.ofNat k]
  | none =>
    match firstNotIn kview present with
    | some k => .fail "member-stale" [V.ofNat idx, V.ofNat k]
    | none => .ok

def distinctB : List Nat → Bool
  | [] => true
  | x :: xs => !xs.contains x && distinctB xs

/-- no two member znodes of the tree carry equal Members -/
def keyDistinct (cfg : Cfg) (t : Tree) : Bool :=
  distinctB ((t.kids.filter cfg.memberOk).map cfg.keyOf)

/-- the notifications of one operation with the Members that were handed over -/
def keyedNotes (o : Obs) : List Note := List.zipWith (fun e k => (e.1, k)) o.notes o.mkeys

/-- `view`: znode names held by a consumer that goes by name; `kview`: Members (keys) held by a
    consumer that goes by `Member.__eq__`; `dist`: no two member znodes with equal Members
    have existed at the same time so far -/
def specGo (cfg : Cfg) (t : Tree) (view kview : List Nat) (dist : Bool) (idx : Nat) :
    List (Op × Obs) → Verdict
  | [] => .ok
  | (op, o) :: rest =>
    let t' := specTree t op
    let dist' := dist && keyDistinct cfg t'
    match firstBad view o.notes with
    | some e => .fail (if e.1 then "join-twice" else "leave-unknown") [V.ofNat idx, V.ofNat e.2]
    | none =>
      let view' := viewOf view o.notes
      match (if dist' then firstBad kview (keyedNotes o) else none) with
      | some e =>
        .fail (if e.1 then "member-join-twice" else "member-leave-unknown") [V.ofNat idx, V.ofNat e.2]
      | none =>
        let kview' := viewOf kview (keyedNotes o)
        match (if o.quiet then viewVerdict idx view' (t'.present cfg.lim) else .ok) with
        | .ok =>
          match (if o.quiet && dist' then
                   viewVerdictK idx kview' ((t'.present cfg.lim).map cfg.keyOf) else .ok) with
          | .ok => specGo cfg t' view' kview' dist' (idx + 1) rest
          | f => f
        | f => f

def spec (cfg : Cfg) (h : List (Op × Obs)) : Verdict := specGo cfg Tree.init [] [] true 0 h

/-! ### hypotheses

  Every operation is enabled when it is issued, and its label (which new node the worker — or a
  listing — reads next) is a legal choice.  Nothing else: tree operations, deliveries, reads and
  listings by the consumer (any number, overlapping each other and anything else) may
  interleave in any way. -/

def wfGo (cfg : Cfg) : St → List Op → Bool
  | _, [] => true
  | s, op :: ops =>
    match next cfg s op with
    | some (s', _) => wfGo cfg s' ops
    | none => false

def wf (cfg : Cfg) (ops : List Op) : Bool := wfGo cfg St.init ops

/-- hypothesis of the Member-equality theorems (the specification computes it along the history
    as `dist`): after none of the operations do two member znodes carry equal Members -/
def distinctAlong (cfg : Cfg) : Tree → List Op → Bool
  | _, [] => true
  | t, op :: ops => keyDistinct cfg (specTree t op) && distinctAlong cfg (specTree t op) ops

def comp : TComp Cfg St Op Obs where
  decCfg := decCfg
  init := fun _ => St.init
  decOp := decOp
  step := step
  encObs := encObs
  decObs := decObs
  spec := spec
  wf := wf

/-! ### witness traces used by Props/C19.lean (and replayed on the implementation from corpus/C19) -/

/-- the path is re-created before the DataWatch was told of its deletion (F13 (6)) -/
def recreateUnobservedOps : List Op :=
  [.tree .createParent, .tree (.createChild 0), .start (some 0), .serve, .ret none,
   .tree (.deleteChild 0), .tree .deleteParent, .deliver none, .tree .createParent,
   .tree (.createChild 1), .deliver (some 1), .serve, .ret none]

/-- a server restarts: its znode 0 goes, it re-registers as znode 1 with an equal Member, and
    the client learns of both in one children update (with `keys := [0, 0]`) -/
def restartOps : List Op :=
  [.tree .createParent, .tree (.createChild 0), .start (some 0), .serve, .ret none,
   .tree (.deleteChild 0), .tree (.createChild 1), .deliver (some 1), .serve, .ret none]

/-- three members, the path torn down while a read is in flight, re-created with an old name -/
def demoOps : List Op :=
  [.tree .createParent, .tree (.createChild 0), .tree (.createChild 1), .tree (.createChild 7),
   .start (some 1), .serve, .tree (.deleteChild 0), .ret (some 0), .serve, .ret none,
   .deliver none, .tree (.deleteChild 1), .tree (.deleteChild 7), .tree .deleteParent,
   .deliver none, .deliver none, .tree .createParent, .tree (.createChild 1),
   .deliver (some 1), .serve, .ret none]

/-- what every client does: it lists the members right after constructing the ServerSet
    (`LoadBalancerSink` → `GetServers()`), while the worker is still reading the first update.
    That update goes on and is delivered; a member (1) appears meanwhile, the worker takes the
    new update but is held back by the listing; a second listing overlaps the first; the first
    returns ([0]: what it listed), the worker is still held back; the second (which listed 0
    and 1; 0 vanishes before it is read) returns [1] — now the worker goes on with the two updates
    that were waiting: [0, 1] (it reads 1: join 1), then [1] (leave 0), and the consumer ends up
    holding exactly [1]. -/
def listDemoOps : List Op :=
  [.tree .createParent, .tree (.createChild 0), .start (some 0), .list (some 0), .serve, .ret none,
   .tree (.createChild 1), .deliver none, .list (some 0), .lserve 0, .lret 0 none,
   .tree (.deleteChild 0), .deliver none, .lserve 1, .lret 1 (some 1), .lserve 1, .lret 1 (some 1),
   .serve, .ret none]

end Scales.ServerSet
