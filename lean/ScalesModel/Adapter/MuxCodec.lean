/-
  Adapter/MuxCodec.lean — C13: line-protocol face of Model/MuxCodec.lean, the INDEPENDENT
  decoder of mux frames (written from the frame description

      frame      = size:4 type:1 tag:3 body          size = 4 + |body|, big-endian, type signed
      Tdispatch  = nctx:2 (key~2 value~2){nctx} dst~2 ndtab:2 (from~2 to~2){ndtab} payload:*
      Tdiscarded = which:3 why:*
      x~2        = a 2-byte big-endian length followed by that many bytes

  and never mentioning the encoder), and the executable specification.  Import-free.
-/
import ScalesModel.Core.Run
import ScalesModel.Model.MuxCodec
namespace Scales.MuxCodec

/-! ### the independent decoder -/

structure Frame where
  ty : Int
  tag : Nat
  body : Bytes
  deriving Repr, DecidableEq

/-- signed value of a type byte -/
def sgn8 (b : Nat) : Int := if b < 128 then (b : Int) else (b : Int) - 256

def u16? : Bytes → Option (Nat × Bytes)
  | a :: b :: r => some (a * 256 + b, r)
  | _ => none

def take? (n : Nat) (bs : Bytes) : Option (Bytes × Bytes) :=
  if n ≤ bs.length then some (bs.take n, bs.drop n) else none

/-- `x~2` -/
def sized16? (bs : Bytes) : Option (Bytes × Bytes) :=
  match u16? bs with
  | some (n, r) => take? n r
  | none => none

/-- `(key~2 value~2){n}` -/
def pairs? : Nat → Bytes → Option (List (Bytes × Bytes) × Bytes)
  | 0, bs => some ([], bs)
  | n + 1, bs =>
    match sized16? bs with
    | none => none
    | some (k, r1) =>
      match sized16? r1 with
      | none => none
      | some (v, r2) =>
        match pairs? n r2 with
        | none => none
        | some (ps, r3) => some ((k, v) :: ps, r3)

/-- a whole frame: the length prefix must count exactly the bytes that follow -/
def parseFrame : Bytes → Option Frame
  | l0 :: l1 :: l2 :: l3 :: t :: a :: b :: c :: body =>
    if l0 * 16777216 + l1 * 65536 + l2 * 256 + l3 = 4 + body.length then
      some ⟨sgn8 t, a * 65536 + b * 256 + c, body⟩
    else none
  | _ => none

structure Tdispatch where
  ctxs : List (Bytes × Bytes)
  dst : Bytes
  dtab : List (Bytes × Bytes)
  payload : Bytes
  deriving Repr, DecidableEq

def parseTdispatch (bs : Bytes) : Option Tdispatch :=
  match u16? bs with
  | none => none
  | some (n, r) =>
    match pairs? n r with
    | none => none
    | some (ctxs, r) =>
      match sized16? r with
      | none => none
      | some (dst, r) =>
        match u16? r with
        | none => none
        | some (nd, r) =>
          match pairs? nd r with
          | none => none
          | some (dtab, payload) => some ⟨ctxs, dst, dtab, payload⟩

def parseTdiscarded : Bytes → Option (Nat × Bytes)
  | a :: b :: c :: why => some (a * 65536 + b * 256 + c, why)
  | _ => none

/-- an 8-byte header alone: (size, type, tag) -/
def parseHeader : Bytes → Option (Nat × Int × Nat)
  | [l0, l1, l2, l3, t, a, b, c] =>
    some (l0 * 16777216 + l1 * 65536 + l2 * 256 + l3, sgn8 t, a * 65536 + b * 256 + c)
  | _ => none

/-- the four bytes `type:1 tag:3` a reply starts with -/
def parseHead : Bytes → Option (Int × Nat)
  | t :: a :: b :: c :: _ => some (sgn8 t, a * 65536 + b * 256 + c)
  | _ => none

/-- what a frame written by the client means -/
inductive Decoded where
  | dispatch (tag : Nat) (ctxs : List (Bytes × Bytes)) (dst : Bytes) (dtab : List (Bytes × Bytes))
      (payload : Bytes)
  | discarded (tag : Nat) (which : Nat) (why : Bytes)
  | ping (tag : Nat)
  | other (ty : Int) (tag : Nat) (body : Bytes)
  deriving Repr, DecidableEq

/-- the whole independent decoder: bytes on the connection → message -/
def decodeWire (bs : Bytes) : Option Decoded :=
  match parseFrame bs with
  | none => none
  | some f =>
    if f.ty = 2 then
      match parseTdispatch f.body with
      | some d => some (.dispatch f.tag d.ctxs d.dst d.dtab d.payload)
      | none => none
    else if f.ty = 66 then
      match parseTdiscarded f.body with
      | some (w, why) => some (.discarded f.tag w why)
      | none => none
    else if f.ty = 65 ∧ f.body = [] then some (.ping f.tag)
    else some (.other f.ty f.tag f.body)

/-! ### the byte stream of a connection

      stream = frame*          every frame: size:4, then exactly `size` bytes (type:1 tag:3 body)

  The stream is split by the length prefixes alone; nothing else delimits frames. -/

/-- the 4-byte big-endian length prefix at the front of a stream -/
def u32? : Bytes → Option Nat
  | a :: b :: c :: d :: _ => some (a * 16777216 + b * 65536 + c * 256 + d)
  | _ => none

/-- split a stream into the byte strings of its frames (prefix included).  `fuel` frames at
    most; every frame consumes at least its 4 prefix bytes, so `bs.length` is enough -/
def splitStreamFuel : Nat → Bytes → Option (List Bytes)
  | 0, bs => if bs.isEmpty then some [] else none
  | fuel + 1, bs =>
    if bs.isEmpty then some []
    else
      match u32? bs with
      | none => none                        -- 1 to 3 stray bytes
      | some n =>
        if n < 4 then none                  -- no room for type and tag
        else
          match take? (4 + n) bs with
          | none => none                    -- the prefix announces more bytes than the stream holds
          | some (chunk, rest) =>
            match splitStreamFuel fuel rest with
            | none => none
            | some cs => some (chunk :: cs)

def splitStream (bs : Bytes) : Option (List Bytes) := splitStreamFuel bs.length bs

def parseFrames : List Bytes → Option (List Frame)
  | [] => some []
  | c :: cs =>
    match parseFrame c, parseFrames cs with
    | some f, some fs => some (f :: fs)
    | _, _ => none

/-- the whole stream as the list of frames it consists of; `none` if it is not a sequence of
    length-prefixed frames -/
def parseStream (bs : Bytes) : Option (List Frame) :=
  match splitStream bs with
  | none => none
  | some cs => parseFrames cs

/-- how far a stream is framed: (whole frames, bytes they take) — for the failure report -/
def framedPrefixFuel : Nat → Bytes → Nat × Nat
  | 0, _ => (0, 0)
  | fuel + 1, bs =>
    match u32? bs with
    | none => (0, 0)
    | some n =>
      if n < 4 then (0, 0)
      else
        match take? (4 + n) bs with
        | none => (0, 0)
        | some (_, rest) =>
          let r := framedPrefixFuel fuel rest
          (r.1 + 1, r.2 + 4 + n)

/-- signed 64-bit big-endian -/
def i64? : Bytes → Option Int
  | [a, b, c, d, e, f, g, h] =>
    let u := ((((((a * 256 + b) * 256 + c) * 256 + d) * 256 + e) * 256 + f) * 256 + g) * 256 + h
    some (if u < 9223372036854775808 then (u : Int) else (u : Int) - 18446744073709551616)
  | _ => none

/-! ### what was supplied -/

/-- the value last assigned to `k` in a sequence of assignments -/
def lastAssign : List (Text × CtxVal) → Text → Option CtxVal
  | [], _ => none
  | (k', v) :: rest, k =>
    match lastAssign rest k with
    | some w => some w
    | none => if k' = k then some v else none

/-- the context dictionary a dispatch must carry, as a lookup: a header (client id, deadline
    set by the sinks) wins over a caller property; private (`__…`) properties are not carried -/
def want (props hdrs : List (Text × CtxVal)) (k : Text) : Option CtxVal :=
  match lastAssign hdrs k with
  | some v => some v
  | none => if isPrivate k then none else lastAssign props k

/-! as the byte strings a context entry must carry -/

def rawVal : CtxVal → Option Bytes
  | .text s => utf8 s
  | .deadline ts timeout =>
    some (be64 (toU 18446744073709551616 ts) ++ be64 (toU 18446744073709551616 timeout))
  | .other => none

def rawEntry (kv : Text × CtxVal) : Bytes × Bytes :=
  ((utf8 kv.1).getD [], (rawVal kv.2).getD [])

def inI64 (x : Int) : Bool := decide (-9223372036854775808 ≤ x) && decide (x ≤ 9223372036854775807)

/-- text whose UTF-8 form exists and fits a 2-byte signed length -/
def textOk (s : Text) : Bool :=
  match utf8 s with
  | some b => decide (b.length < 32768)
  | none => false

def valOk : CtxVal → Bool
  | .text s => textOk s
  | .deadline ts timeout => inI64 ts && inI64 timeout
  | .other => false

def entryOk (kv : Text × CtxVal) : Bool := textOk kv.1 && valOk kv.2

def dictOk (d : Dict) : Bool := decide (d.length < 32768) && d.all entryOk

def entrySize (kv : Text × CtxVal) : Nat := 4 + (rawEntry kv).1.length + (rawEntry kv).2.length

/-- number of body bytes the supplied message needs -/
def bodySize : Msg → Nat
  | .call props hdrs payload => 2 + ((dispatchCtx props hdrs).map entrySize).sum + 4 + payload.length
  | .discard _ reason => 3 + ((utf8 reason).getD []).length
  | .ping => 0

/-- the domain the property quantifies over: text keys and values (valid Unicode, encodable
    lengths), deadlines in int64, a 24-bit discarded tag, a frame that fits the 4-byte size -/
def Msg.inDomain (m : Msg) : Bool :=
  decide (4 + bodySize m < 2147483648) &&
  match m with
  | .call props hdrs _ => dictOk (dispatchCtx props hdrs)
  | .discard which reason => decide (which < 16777216) && (utf8 reason).isSome
  | .ping => true

def inI8 (x : Int) : Bool := decide (-128 ≤ x) && decide (x ≤ 127)

/-! ### operations, observations -/

inductive Op where
  | utf8 (s : Text)                        -- the model's encoder against Python's
  | utf8d (b : Bytes)                      -- the model's strict decoder against Python's
  | hdr (tag : Nat) (ty : Int) (len : Nat) -- `_BuildHeader(tag, ty, len)`
  | rdhdr (b : Bytes)                      -- `ReadHeader(stream)`
  | marshal (m : Msg)                      -- `MessageSerializer.Marshal`
  | wire (tag : Nat) (m : Msg)             -- serializer sink → transport sink → connection
  | unmarshal (ty : Int) (b : Bytes)       -- `MessageSerializer.Unmarshal`
  | reply (b : Bytes)                      -- `ThriftMuxMessageSerializerSink.AsyncProcessResponse`
  /-- messages put on the transport's send queue, in queue order (calls through the sink chain,
      keep-alive pings, the transport's own Tdiscarded), while the connection takes the bytes
      in pieces; observed: the reassembled byte stream of the connection -/
  | stream (items : List (Nat × Msg))
  deriving Repr, DecidableEq

inductive Obs where
  | bytes (b : Bytes)
  | text (s : Text)
  | body (ty : Int) (b : Bytes)
  | head (ty : Int) (tag : Nat)
  | headNeg (ty : Int) (tag : Int)        -- implementation-only: a negative tag (the model never produces it)
  | reply (r : Reply)
  | err (e : Err)
  deriving Repr, DecidableEq

abbrev Cfg := Unit
abbrev St := Unit

def obsBytes : Except Err Bytes → Obs
  | .ok b => .bytes b
  | .error e => .err e

def obsReply : Except Err Reply → Obs
  | .ok r => .reply r
  | .error e => .err e

/-- the send loop is the only writer: the stream is the whole frames, in send-queue order (a
    message whose serialization raises is never queued) -/
def streamOf : List (Nat × Msg) → Bytes
  | [] => []
  | (tag, m) :: rest =>
    (match wire tag m with
     | .ok b => b
     | .error _ => []) ++ streamOf rest

def run : Op → Obs
  | .utf8 s => obsBytes (utf8E s)
  | .utf8d b => match utf8Decode b with | some s => .text s | none => .err .unicode
  | .hdr tag ty len => obsBytes (buildHeader tag ty len)
  | .rdhdr b => match readHeader b with | .ok (ty, tag) => .head ty tag | .error e => .err e
  | .marshal m => match marshal m with | .ok (ty, b) => .body ty b | .error e => .err e
  | .wire tag m => obsBytes (wire tag m)
  | .unmarshal ty b => obsReply (unmarshal ty b)
  | .reply b => obsReply (processReply b)
  | .stream items => .bytes (streamOf items)

def step (_ : Cfg) (_ : St) (op : Op) : St × Obs := ((), run op)

/-! ### specification -/

def vErr : Err → V
  | .struct => .a "struct"
  | .unicode => .a "unicode"
  | .notimpl => .a "notimpl"
  | .key => .a "key"
  | .nowrite => .a "nowrite"

/-- the entries of the supplied dictionary, as byte strings -/
def expectedCtx (props hdrs : List (Text × CtxVal)) : List (Bytes × Bytes) :=
  (dispatchCtx props hdrs).map rawEntry

/-- what the decoder must recover for message `m` sent under `tag` (contexts in dictionary order) -/
def expectedOf (tag : Nat) : Msg → Decoded
  | .call props hdrs payload => .dispatch tag (expectedCtx props hdrs) [] [] payload
  | .discard which reason => .discarded tag which ((utf8 reason).getD [])
  | .ping => .ping tag

/-- verdict on a body claimed to carry message `m` with type byte `ty` -/
def checkBody (idx : Nat) (m : Msg) (ty : Int) (body : Bytes) : Verdict :=
  match m with
  | .call props hdrs payload =>
    if ty ≠ tDispatch then .fail "type" [V.ofNat idx, .n ty]
    else match parseTdispatch body with
      | none => .fail "dispatch-parse" [V.ofNat idx]
      | some d =>
        if !(d.ctxs.isPerm (expectedCtx props hdrs)) then
          .fail "context" [V.ofNat idx, V.ofNat d.ctxs.length, V.ofNat (expectedCtx props hdrs).length]
        else if !(d.dst.isEmpty && d.dtab.isEmpty) then .fail "dst-dtab" [V.ofNat idx]
        else if d.payload ≠ payload then .fail "payload" [V.ofNat idx]
        else .ok
  | .discard which reason =>
    if ty ≠ tDiscarded then .fail "type" [V.ofNat idx, .n ty]
    else match parseTdiscarded body with
      | none => .fail "discard-parse" [V.ofNat idx]
      | some (w, why) =>
        if w = which ∧ some why = utf8 reason then .ok
        else .fail "discard" [V.ofNat idx, V.ofNat w]
  | .ping =>
    if ty = tPing ∧ body = [] then .ok else .fail "ping" [V.ofNat idx, .n ty]

def checkHdr (idx : Nat) (tag : Nat) (ty : Int) (len : Nat) : Obs → Verdict
  | .bytes b =>
    if parseHeader b = some (4 + len, ty, tag) then .ok
    else .fail "header" [V.ofNat idx, V.ofBytes b]
  | .err e => .fail "no-frame" [V.ofNat idx, vErr e]
  | _ => .fail "bad-obs" [V.ofNat idx]

def checkRdhdr (idx : Nat) (ty : Int) (tag : Nat) : Obs → Verdict
  | .head ty' tag' =>
    if ty' = ty ∧ tag' = tag then .ok
    else .fail "readHeader" [V.ofNat idx, .n ty, V.ofNat tag, .n ty', V.ofNat tag']
  | .headNeg ty' tag' => .fail "readHeader" [V.ofNat idx, .n ty, V.ofNat tag, .n ty', .n tag']
  | .err e => .fail "readHeader" [V.ofNat idx, .n ty, V.ofNat tag, vErr e]
  | _ => .fail "bad-obs" [V.ofNat idx]

def checkMarshal (idx : Nat) (m : Msg) : Obs → Verdict
  | .body ty b => checkBody idx m ty b
  | .err e => .fail "no-frame" [V.ofNat idx, vErr e]
  | _ => .fail "bad-obs" [V.ofNat idx]

/-- a whole frame: exact length prefix, the tag, then the body -/
def checkFrame (idx : Nat) (tag : Nat) (m : Msg) (b : Bytes) : Verdict :=
  match parseFrame b with
  | none => .fail "frame-length" [V.ofNat idx, V.ofNat b.length]
  | some f =>
    if f.tag ≠ tag then .fail "tag" [V.ofNat idx, V.ofNat tag, V.ofNat f.tag]
    else checkBody idx m f.ty f.body

def checkWire (idx : Nat) (tag : Nat) (m : Msg) : Obs → Verdict
  | .bytes b => checkFrame idx tag m b
  | .err e => .fail "no-frame" [V.ofNat idx, vErr e]
  | _ => .fail "bad-obs" [V.ofNat idx]

/-- the first supplied message, not yet accounted for, that frame `f` is an exact encoding of
    is struck off; `none` if there is no such message -/
def takeMatch (idx : Nat) (f : Frame) : List (Nat × Msg) → Option (List (Nat × Msg))
  | [] => none
  | (t, m) :: rest =>
    if f.tag = t ∧ (checkBody idx m f.ty f.body).isOk = true then some rest
    else
      match takeMatch idx f rest with
      | some rest' => some ((t, m) :: rest')
      | none => none

/-- every frame of the stream is one of the supplied messages (under its tag), every supplied
    message has its frame; no order is demanded -/
def matchFrames (idx : Nat) : List Frame → List (Nat × Msg) → Verdict
  | [], [] => .ok
  | [], (t, _) :: rest => .fail "stream-frame-missing" [V.ofNat idx, V.ofNat t, V.ofNat (rest.length + 1)]
  | f :: fs, items =>
    match takeMatch idx f items with
    | none => .fail "stream-frame-not-supplied" [V.ofNat idx, V.ofNat f.tag, .n f.ty, V.ofNat f.body.length]
    | some items' => matchFrames idx fs items'

/-- the byte stream of the connection must split, by its length prefixes, into frames -/
def checkStream (idx : Nat) (items : List (Nat × Msg)) : Obs → Verdict
  | .bytes b =>
    match parseStream b with
    | none =>
      .fail "stream-not-framed" [V.ofNat idx, V.ofNat b.length, V.ofNat (framedPrefixFuel b.length b).1,
        V.ofNat (framedPrefixFuel b.length b).2]
    | some frames => matchFrames idx frames items
  | .err e => .fail "no-frame" [V.ofNat idx, vErr e]
  | _ => .fail "bad-obs" [V.ofNat idx]

def itemOk (it : Nat × Msg) : Bool := it.2.inDomain && decide (it.1 < 16777216)

/-- verdict for one (operation, observation).  The guards are the domain the property
    quantifies over; outside it nothing is demanded. -/
def specObs (idx : Nat) (op : Op) (o : Obs) : Verdict :=
  match op with
  | .hdr tag ty len =>
    if inI8 ty && decide (tag < 16777216) && decide (4 + len < 2147483648) then checkHdr idx tag ty len o
    else .ok
  | .rdhdr b =>
    match parseHead b with
    | some (ty, tag) => if b.all (· < 256) then checkRdhdr idx ty tag o else .ok
    | none => .ok
  | .marshal m => if m.inDomain && m != .ping then checkMarshal idx m o else .ok
  | .wire tag m => if m.inDomain && decide (tag < 16777216) then checkWire idx tag m o else .ok
  | .stream items => if items.all itemOk then checkStream idx items o else .ok
  -- the property demands nothing of these; the model still predicts them exactly
  | .utf8 _ => .ok
  | .utf8d _ => .ok
  | .unmarshal _ _ => .ok
  | .reply _ => .ok

def specGo (idx : Nat) : List (Op × Obs) → Verdict
  | [] => .ok
  | (op, o) :: rest => (specObs idx op o).and (fun _ => specGo (idx + 1) rest)

def spec (_ : Cfg) (h : List (Op × Obs)) : Verdict := specGo 0 h

/-! ### codecs -/

def decVal : V → Option CtxVal
  | .l [.a "t", s] => do pure (.text (← s.natList?))
  | .l [.a "d", .n ts, .n timeout] => some (.deadline ts timeout)
  | .a "o" => some .other
  | _ => none

def decEntry : V → Option (Text × CtxVal)
  | .l [k, v] => do pure (← k.natList?, ← decVal v)
  | _ => none

def decMsg : V → Option Msg
  | .l [.a "call", .l props, .l hdrs, payload] => do
      pure (.call (← props.mapM decEntry) (← hdrs.mapM decEntry) (← payload.bytes?))
  | .l [.a "discard", which, reason] => do pure (.discard (← which.nat?) (← reason.natList?))
  | .a "ping" => some .ping
  | _ => none

def decItem : V → Option (Nat × Msg)
  | .l [tag, m] => do pure (← tag.nat?, ← decMsg m)
  | _ => none

def decOp : List V → Option Op
  | [.a "utf8", s] => do pure (.utf8 (← s.natList?))
  | [.a "utf8d", b] => do pure (.utf8d (← b.bytes?))
  | [.a "hdr", tag, .n ty, len] => do pure (.hdr (← tag.nat?) ty (← len.nat?))
  | [.a "rdhdr", b] => do pure (.rdhdr (← b.bytes?))
  | [.a "marshal", m] => do pure (.marshal (← decMsg m))
  | [.a "wire", tag, m] => do pure (.wire (← tag.nat?) (← decMsg m))
  | [.a "unmarshal", .n ty, b] => do pure (.unmarshal ty (← b.bytes?))
  | [.a "reply", b] => do pure (.reply (← b.bytes?))
  | [.a "stream", .l items] => do pure (.stream (← items.mapM decItem))
  | _ => none

def decErr : V → Option Err
  | .a "struct" => some .struct
  | .a "unicode" => some .unicode
  | .a "notimpl" => some .notimpl
  | .a "key" => some .key
  | .a "nowrite" => some .nowrite
  | _ => none

def encObs : Obs → V
  | .bytes b => V.ofBytes b
  | .text s => .l [.a "text", V.ofNats s]
  | .body ty b => .l [.a "body", .n ty, V.ofBytes b]
  | .head ty tag => .l [.a "head", .n ty, V.ofNat tag]
  | .headNeg ty tag => .l [.a "head", .n ty, .n tag]
  | .reply (.ret p) => .l [.a "ret", V.ofBytes p]
  | .reply (.srvErr m) => .l [.a "srverr", V.ofBytes m]
  | .err e => .l [.a "err", vErr e]

def decObs : V → Option Obs
  | .l [.a "text", s] => do pure (.text (← s.natList?))
  | .l [.a "body", .n ty, b] => do pure (.body ty (← b.bytes?))
  | .l [.a "head", .n ty, .n tag] => if tag < 0 then some (.headNeg ty tag) else some (.head ty tag.toNat)
  | .l [.a "ret", p] => do pure (.reply (.ret (← p.bytes?)))
  | .l [.a "srverr", m] => do pure (.reply (.srvErr (← m.bytes?)))
  | .l [.a "err", e] => do pure (.err (← decErr e))
  | v => do pure (.bytes (← v.bytes?))

def decCfg : List V → Option Cfg
  | [] => some ()
  | _ => none

/-- no hypotheses on the operation list: the domain the property quantifies over is a guard
    inside `specObs` (`Msg.inDomain`, tag < 2^24, type in int8), so out-of-domain inputs can
    be compared too (the model predicts the error the code raises) -/
def wf (_ : Cfg) (_ : List Op) : Bool := true

def comp : TComp Cfg St Op Obs where
  decCfg := decCfg
  init := fun _ => ()
  decOp := decOp
  step := step
  encObs := encObs
  decObs := decObs
  spec := spec
  wf := wf

end Scales.MuxCodec
