/-
  Adapter/Varz.lean — C18: line-protocol face of Model/Varz.lean and the executable
  specification over histories.  Import-free.

  Histories inside the specification are kept newest-first (`h : List Op`, head = the
  operation just performed); `replay cfg h` is the model state after that history.
-/
import ScalesModel.Core.Run
import ScalesModel.Model.Varz
namespace Scales.Varz

structure Cfg where
  /-- registered metrics (VARZ_METRICS): metric id, type -/
  metrics : List (Nat × VType)
  /-- VarzReceiver._MAX_PERCENTILE_SIZE -/
  cap : Nat
  /-- VarzReceiver.VARZ_PERCENTILES as fractions p/q -/
  pcts : List (Nat × Nat)
  deriving Repr

inductive Op where
  /-- VarzReceiver.IncrementVarz(Source(..), metric, amount) with a freshly built Source -/
  | inc (m : Nat) (s : Source) (a : Int)
  /-- VarzReceiver.SetVarz -/
  | set (m : Nat) (s : Source) (v : Int)
  /-- VarzReceiver.RecordPercentileSample at LOW_RESOLUTION_TIME_SOURCE.now = `now` (whole
      seconds); `keep` = the reservoir's random draw fell below p -/
  | sample (m : Nat) (s : Source) (v : Int) (keep : Bool) (now : Nat)
  /-- read VARZ_DATA[m].get(Source(..)) with a freshly built Source -/
  | get (m : Nat) (s : Source)
  /-- VarzAggregator.Aggregate(VARZ_DATA, {the registered metrics among ms}) at time `now` -/
  | agg (ms : List Nat) (now : Nat)
  deriving Repr, DecidableEq

inductive Entry where
  /-- key, total, count -/
  | num (k : Key) (total : Int) (count : Nat)
  /-- key, number of reservoirs merged, their retained samples (sorted), the reported
      percentiles as numerators over the denominators of `cfg.pcts` -/
  | pct (k : Key) (count : Nat) (retained : List Int) (vals : List Int)
  deriving Repr, DecidableEq

def Entry.key : Entry → Key
  | .num k _ _ => k
  | .pct k _ _ _ => k

inductive Obs where
  /-- len(VARZ_DATA[m]) after a recording operation -/
  | n (k : Nat)
  | val (v : Option Int)
  | agg (out : List (Nat × List Entry))
  | bad
  deriving Repr, DecidableEq

abbrev St := Store

def typeOf (cfg : Cfg) (m : Nat) : Option VType :=
  match cfg.metrics.find? (fun e => e.1 = m) with
  | some e => some e.2
  | none => none

/-- is the operation applied (metric registered, entry point matches the metric's type) -/
def accepts (cfg : Cfg) : Op → Bool
  | .inc m _ _ => match typeOf cfg m with | some t => t.isCounterLike | none => false
  | .set m _ _ => match typeOf cfg m with | some t => decide (t = .gauge) | none => false
  | .sample m _ _ _ _ => match typeOf cfg m with | some t => t.isPct | none => false
  | .get m _ => (typeOf cfg m).isSome
  | .agg _ _ => true

def stepSt (cfg : Cfg) (st : St) (op : Op) : St :=
  if accepts cfg op then
    match op with
    | .inc m s a => upd (m, s) (incCell a) st
    | .set m s v => upd (m, s) (setCell v) st
    | .sample m s v keep now => upd (m, s) (sampleCell cfg.cap keep v now) st
    | _ => st
  else st

def entriesOf (cfg : Cfg) (now : Nat) (t : VType) (ser : List (Source × Cell)) : List Entry :=
  (aggKeys ser).map (fun K =>
    if t.isPct then .pct K (pctCount now K ser) (isort (mergedData K ser)) (aggPcts cfg.pcts now K ser)
    else .num K (aggTotal K ser) (aggCount K ser))

def aggOut (cfg : Cfg) (ms : List Nat) (now : Nat) (st : St) : List (Nat × List Entry) :=
  (metricsOf st).filterMap (fun m =>
    if ms.contains m then
      match typeOf cfg m with
      | some t => some (m, entriesOf cfg now t (seriesOf m st))
      | none => none
    else none)

def obsOf (cfg : Cfg) (st : St) (op : Op) : Obs :=
  if accepts cfg op then
    match op with
    | .inc m _ _ => .n (nSeries m st)
    | .set m _ _ => .n (nSeries m st)
    | .sample m _ _ _ _ => .n (nSeries m st)
    | .get m s =>
      match lookup (m, s) st with
      | none => .val none
      | some (.num v) => .val (some v)
      | some (.res _ _ _) => .bad
    | .agg ms now => .agg (aggOut cfg ms now st)
  else .bad

def step (cfg : Cfg) (st : St) (op : Op) : St × Obs :=
  let st' := stepSt cfg st op
  (st', obsOf cfg st' op)

/-- model state after a newest-first history -/
def replay (cfg : Cfg) : List Op → St
  | [] => []
  | op :: h => stepSt cfg (replay cfg h) op

/-- model state after an operation list in the order performed -/
def run (cfg : Cfg) (ops : List Op) : St := replay cfg ops.reverse

/-! ### codecs -/

def decOptNat : V → Option (Option Nat)
  | .a "none" => some none
  | v => do pure (some (← v.nat?))

def encOptNat : Option Nat → V
  | some v => V.ofNat v
  | none => .a "none"

def decSource : V → Option Source
  | .l [a, b, c, d] => do pure ⟨← decOptNat a, ← decOptNat b, ← decOptNat c, ← decOptNat d⟩
  | _ => none

def decVType : V → Option VType
  | .a "gauge" => some .gauge
  | .a "rate" => some .rate
  | .a "aggTimer" => some .aggTimer
  | .a "counter" => some .counter
  | .a "avgTimer" => some .avgTimer
  | .a "avgRate" => some .avgRate
  | _ => none

def decMetric : V → Option (Nat × VType)
  | .l [m, t] => do pure (← m.nat?, ← decVType t)
  | _ => none

def decPair : V → Option (Nat × Nat)
  | .l [p, q] => do pure (← p.nat?, ← q.nat?)
  | _ => none

def decCfg : List V → Option Cfg
  | [.l ms, cap, .l ps] => do pure ⟨← ms.mapM decMetric, ← cap.nat?, ← ps.mapM decPair⟩
  | _ => none

def decOp : List V → Option Op
  | [.a "inc", m, s, a] => do pure (.inc (← m.nat?) (← decSource s) (← a.int?))
  | [.a "set", m, s, v] => do pure (.set (← m.nat?) (← decSource s) (← v.int?))
  | [.a "sample", m, s, v, k, now] => do
      pure (.sample (← m.nat?) (← decSource s) (← v.int?) (← k.bool?) (← now.nat?))
  | [.a "get", m, s] => do pure (.get (← m.nat?) (← decSource s))
  | [.a "agg", ms, now] => do pure (.agg (← ms.natList?) (← now.nat?))
  | _ => none

def encKey (k : Key) : List V := [encOptNat k.1, encOptNat k.2]

def decKey (a b : V) : Option Key := do pure (← decOptNat a, ← decOptNat b)

def encEntry : Entry → V
  | .num k t c => .l (encKey k ++ [.n t, V.ofNat c])
  | .pct k c r vs => .l (.a "pct" :: encKey k ++ [V.ofNat c, V.ofInts r, V.ofInts vs])

def decEntry : V → Option Entry
  | .l [.a "pct", a, b, c, r, vs] => do
      pure (.pct (← decKey a b) (← c.nat?) (← r.intList?) (← vs.intList?))
  | .l [a, b, t, c] => do pure (.num (← decKey a b) (← t.int?) (← c.nat?))
  | _ => none

def encObs : Obs → V
  | .n k => .l [.a "n", V.ofNat k]
  | .val none => .l [.a "val", .a "none"]
  | .val (some v) => .l [.a "val", .n v]
  | .agg out => .l (.a "agg" :: out.map (fun me => .l [V.ofNat me.1, .l (me.2.map encEntry)]))
  | .bad => .a "bad"

def decMetricOut : V → Option (Nat × List Entry)
  | .l [m, .l es] => do pure (← m.nat?, ← es.mapM decEntry)
  | _ => none

def decObs : V → Option Obs
  | .l [.a "n", k] => do pure (.n (← k.nat?))
  | .l [.a "val", .a "none"] => some (.val none)
  | .l [.a "val", v] => do pure (.val (some (← v.int?)))
  | .l (.a "agg" :: out) => do pure (.agg (← out.mapM decMetricOut))
  | .a "bad" => some .bad
  | _ => none

/-! ### what the specification reads off a (newest-first) history -/

/-- sum of all increments recorded for metric `m` by sources rolling up to key `K` -/
def incSum (m : Nat) (K : Key) : List Op → Int
  | [] => 0
  | .inc m' s a :: h => (if m' = m ∧ s.key = K then a else 0) + incSum m K h
  | _ :: h => incSum m K h

/-- the last value set for metric `m` by a source equal to `s` -/
def lastSet (m : Nat) (s : Source) : List Op → Option Int
  | [] => none
  | .set m' s' v :: h => if m' = m ∧ s' = s then some v else lastSet m s h
  | _ :: h => lastSet m s h

/-- the sources recorded against for metric `m` (with repetitions), newest first -/
def srcs (m : Nat) : List Op → List Source
  | [] => []
  | .inc m' s _ :: h => if m' = m then s :: srcs m h else srcs m h
  | .set m' s _ :: h => if m' = m then s :: srcs m h else srcs m h
  | .sample m' s _ _ _ :: h => if m' = m then s :: srcs m h else srcs m h
  | _ :: h => srcs m h

/-- number of samples recorded for metric `m` by a source equal to `s` -/
def sampleCount (m : Nat) (s : Source) : List Op → Nat
  | [] => 0
  | .sample m' s' _ _ _ :: h => (if m' = m ∧ s' = s then 1 else 0) + sampleCount m s h
  | _ :: h => sampleCount m s h

/-- the time at which the reservoir of (`m`, `s`) last retained a sample: a sample is retained
    when fewer than `cap` were recorded before it, or when the reservoir's draw said so -/
def lastRetain (cap : Nat) (m : Nat) (s : Source) : List Op → Option Nat
  | [] => none
  | .sample m' s' _ keep now :: h =>
    if m' = m ∧ s' = s then
      (if sampleCount m s h < cap ∨ keep = true then some now else lastRetain cap m s h)
    else lastRetain cap m s h
  | _ :: h => lastRetain cap m s h

/-- did the source retain a sample within the last MAX_AGG_AGE seconds before `now` -/
def retainedRecently (cap : Nat) (m : Nat) (s : Source) (now : Nat) (h : List Op) : Bool :=
  match lastRetain cap m s h with
  | some t => decide (now - t < maxAggAge)
  | none => false

/-- the distinct sources recorded against for metric `m`, in order of first appearance -/
def distinctSrcs (m : Nat) (h : List Op) : List Source := firstOcc (srcs m h).reverse

def pctValid (pq : Nat × Nat) : Bool := decide (0 < pq.2) && decide (pq.1 ≤ pq.2)

/-- percentile clause for the list reported for one single-source key:
    every value lies between some retained sample and some retained sample, and a higher
    percentile never reports a lower value -/
def pctsOk (pcts : List (Nat × Nat)) (retained vals : List Int) : Bool :=
  retained.isEmpty ||
  (decide (vals.length = pcts.length) &&
   (pcts.zip vals).all (fun pv =>
      retained.any (fun x => decide (x * (pv.1.2 : Int) ≤ pv.2)) &&
      retained.any (fun x => decide (pv.2 ≤ x * (pv.1.2 : Int)))) &&
   (pcts.zip vals).all (fun a => (pcts.zip vals).all (fun b =>
      !decide (a.1.1 * b.1.2 ≤ b.1.1 * a.1.2) ||
        decide (a.2 * (b.1.2 : Int) ≤ b.2 * (a.1.2 : Int)))))

/-- what the property demands of one entry of metric `m` aggregated at time `now` -/
def entryOk (cfg : Cfg) (h : List Op) (now : Nat) (m : Nat) (t : VType) : Entry → Bool
  | .num K total _ =>
    match t with
    | .rate | .counter => decide (total = incSum m K h)
    | .gauge =>
      -- "a gauge reports the last value set": demanded where the key has one source
      match (distinctSrcs m h).filter (fun s => s.key = K) with
      | [s] => decide (some total = lastSet m s h)
      | _ => true
    | _ => true
  | .pct K _ retained vals =>
    -- "percentiles reported for a single source": demanded where the key has one source and
    -- that source retained a sample within the last MAX_AGG_AGE seconds (an idle source may
    -- be dropped from the aggregate)
    if t.isPct then
      match (distinctSrcs m h).filter (fun s => s.key = K) with
      | [s] => if retainedRecently cfg.cap m s now h then pctsOk cfg.pcts retained vals else true
      | _ => true
    else true

def findEntries (out : List (Nat × List Entry)) (m : Nat) : List Entry :=
  match out.find? (fun me => me.1 = m) with
  | some me => me.2
  | none => []

/-- every (metric, key) that received increments is reported ("not lost") -/
def covered (cfg : Cfg) (h : List Op) (ms : List Nat) (out : List (Nat × List Entry)) : Bool :=
  ms.all (fun m =>
    match typeOf cfg m with
    | some .rate | some .counter =>
      (distinctSrcs m h).all (fun s => (findEntries out m).any (fun e => e.key = s.key))
    | _ => true)

def firstBadEntry (cfg : Cfg) (h : List Op) (now : Nat) : List (Nat × List Entry) → Option (Nat × Entry)
  | [] => none
  | (m, es) :: rest =>
    match typeOf cfg m with
    | none => firstBadEntry cfg h now rest
    | some t =>
      match es.find? (fun e => !entryOk cfg h now m t e) with
      | some e => some (m, e)
      | none => firstBadEntry cfg h now rest

def metricOf : Op → Nat
  | .inc m _ _ => m
  | .set m _ _ => m
  | .sample m _ _ _ _ => m
  | .get m _ => m
  | .agg _ _ => 0

def clauseOf (cfg : Cfg) (m : Nat) : Entry → String
  | .num _ _ _ => if typeOf cfg m = some .gauge then "gauge-last" else "aggregate-sum"
  | .pct _ _ _ _ => "percentile"

/-- verdict for one observation; `h` already includes the operation just performed -/
def specObs (cfg : Cfg) (h : List Op) (idx : Nat) (op : Op) (o : Obs) : Verdict :=
  match op, o with
  | .get m s, o =>
    if typeOf cfg m = some .gauge then
      match o with
      | .val v =>
        if v = lastSet m s h then .ok
        else .fail "gauge-last" [V.ofNat idx, V.ofNat m, encObs (.val v), encObs (.val (lastSet m s h))]
      | _ => .fail "shape" [V.ofNat idx]
    else .ok
  | .agg ms now, .agg out =>
    match firstBadEntry cfg h now out with
    | some (m, e) =>
      .fail (clauseOf cfg m e) [V.ofNat idx, V.ofNat m, encEntry e]
    | none =>
      if covered cfg h ms out then .ok else .fail "aggregate-lost" [V.ofNat idx]
  | .agg _ _, _ => .fail "shape" [V.ofNat idx]
  | op, .n k =>
    let bound := (distinctSrcs (metricOf op) h).length
    if k ≤ bound then .ok
    else .fail "series-split" [V.ofNat idx, V.ofNat (metricOf op), V.ofNat k, V.ofNat bound]
  | _, _ => .fail "shape" [V.ofNat idx]

def specGo (cfg : Cfg) (h : List Op) (idx : Nat) : List (Op × Obs) → Verdict
  | [] => .ok
  | (op, o) :: rest =>
    (specObs cfg (op :: h) idx op o).and (fun _ => specGo cfg (op :: h) (idx + 1) rest)

def spec (cfg : Cfg) (hist : List (Op × Obs)) : Verdict := specGo cfg [] 0 hist

/-! ### hypotheses -/

def cfgWF (cfg : Cfg) : Bool := cfg.pcts.all pctValid

def opsOk (cfg : Cfg) (ops : List Op) : Bool := ops.all (accepts cfg)

def comp : TComp Cfg St Op Obs where
  decCfg := decCfg
  init := fun _ => []
  decOp := decOp
  step := step
  encObs := encObs
  decObs := decObs
  spec := spec
  wf := fun cfg ops => cfgWF cfg && opsOk cfg ops

end Scales.Varz
