/-
  Adapter/LB.lean — C05/C06: line-protocol face of Model/LBBase.lean over Model/Aperture.lean
  (components `lbheap`, `lbaperture`, `aperture`), the executable specifications `specC05`,
  `specC06` and the hypothesis predicate `wf`.  Import-free.
-/
import ScalesModel.Core.Run
import ScalesModel.Model.LBBase
import ScalesModel.Model.Aperture
namespace Scales.LB
open Scales.Heap Scales.Aperture Scales.LBBase

/-- environment inputs of one operation (see Model/Aperture.lean) -/
structure Env where
  choices : List Nat
  adj : List AdjIn
  deriving Repr

inductive Op where
  | opn
  | loaded (l : List Nat) (e : Env)
  | join (ep : Nat) (e : Env)
  | leave (ep : Nat) (e : Env)
  | get (e : Env)
  /-- a request that carries a deadline event (`Deadline.EVENT_KEY`), not set yet -/
  | getd (e : Env)
  /-- the deadline event of the `k`-th queued request is set -/
  | expire (k : Nat)
  | put (r j : Nat) (e : Env)
  | chan (nid st : Nat)
  | opened (nid : Nat) (ok : Bool) (e : Env)
  | jitter (e : Env)
  deriving Repr

/-- the subclass interface of Model/LBBase.lean instantiated with the (heap or aperture) balancer -/
def sub (cfg : Cfg) : Sub AS GetRes where
  servers := fun a => a.hs.servers
  setServers := fun a l => { a with hs := { a.hs with servers := l } }
  onAdd := fun a ep => a.addSink cfg ep
  onRemove := fun a ep => a.removeSink cfg ep
  openInitial := fun a => a.openInitial cfg
  openReady := fun a => a.openAr
  request := fun a => a.get cfg
  settle := fun a => a.settle cfg

abbrev St := LB AS

def init (_ : Cfg) : St := { sub := AS.init }

/-- one dispatch result as observed -/
inductive ResV where
  | queued
  /-- a queued request whose deadline event was set: not forwarded when the open result completed -/
  | dropped
  | noMembers
  | node (id ep r : Nat)
  deriving Repr, DecidableEq

def ResV.ofGet : GetRes → ResV
  | .noMembers => .noMembers
  | .node id ep r => .node id ep r

/-- what became of a queued request when the open result completed -/
def ResV.ofFlush : Option GetRes → ResV
  | some g => .ofGet g
  | none => .dropped

structure NV where
  id : Nat
  ep : Nat
  load : Int
  index : Int
  closed : Nat
  ost : Nat
  deriving Repr, DecidableEq

structure Obs where
  res : List ResV
  heap : List NV
  down : List Nat
  off : List NV
  servers : List Nat
  idle : List Nat
  pending : List Nat
  initDone : Bool
  blocked : Nat
  openAr : Bool
  queued : Nat
  jitter : Bool
  total : Int
  adj : List AdjRec
  gActive : Nat
  gIdle : Nat
  deriving Repr

def sortNat (l : List Nat) : List Nat := l.mergeSort (fun a b => decide (a ≤ b))

def viewOf (a : AS) (id : Nat) : NV :=
  let n := a.hs.node id
  ⟨id, n.ep, n.load, n.index, n.closed, (a.onOf id).ost⟩

def obsOf (lb : St) (res : List ResV) : Obs :=
  let a := lb.sub
  { res := res
    heap := a.hs.heap.map (viewOf a)
    down := a.hs.down
    off := ((List.range a.hs.nodes.length).filter (fun id => !a.hs.heap.contains id)).map (viewOf a)
    servers := sortNat a.hs.servers
    idle := sortNat a.idle
    pending := sortNat a.pending
    initDone := lb.initDone
    blocked := lb.blocked.length
    openAr := a.openAr
    queued := lb.queued.length
    jitter := a.jitterWait.isSome
    total := a.total
    adj := a.adjLog
    gActive := a.gActive
    gIdle := a.gIdle }

/-- put the recorded environment inputs on the tapes -/
def feed (lb : St) (e : Env) : St :=
  { lb with sub := { lb.sub with choices := e.choices, adjIn := e.adj, adjLog := [] } }

/-- the operation proper, before the hub runs dry -/
def act (cfg : Cfg) (lb : St) : Op → St × List ResV
  -- `Open()`; on a balancer that is already opening or open it returns the same open result: the
  -- state stays as it is (`LB.start`)
  | .opn => let lb1 := feed lb ⟨[], []⟩; (lb1.start, [])
  | .loaded l e => ((feed lb e).load (sub cfg) l, [])
  | .join ep e => ((feed lb e).notify (sub cfg) (.join ep), [])
  | .leave ep e => ((feed lb e).notify (sub cfg) (.leave ep), [])
  | .get e =>
    let r := (feed lb e).request (sub cfg) none
    (r.1, match r.2 with | some g => [ResV.ofGet g] | none => [.queued])
  | .getd e =>
    let r := (feed lb e).request (sub cfg) (some false)
    (r.1, match r.2 with | some g => [ResV.ofGet g] | none => [.queued])
  | .expire k =>
    let lb1 := feed lb ⟨[], []⟩
    (match lb1.expire k with
     | some lb2 => lb2
     | none => { lb1 with sub := { lb1.sub with bad := true } }, [])
  | .put r j e => let lb1 := feed lb e; ({ lb1 with sub := lb1.sub.put cfg r j }, [])
  | .chan nid st => let lb1 := feed lb ⟨[], []⟩; ({ lb1 with sub := lb1.sub.setChan nid st }, [])
  | .opened nid ok e => let lb1 := feed lb e; ({ lb1 with sub := lb1.sub.opened cfg nid ok }, [])
  | .jitter e => let lb1 := feed lb e; ({ lb1 with sub := lb1.sub.jitterStart cfg }, [])

/-- unread tape entries mean the implementation did something the model did not -/
def tapesRead (lb : St) : St :=
  if lb.sub.choices.isEmpty && lb.sub.adjIn.isEmpty then lb
  else { lb with sub := { lb.sub with bad := true, choices := [], adjIn := [] } }

def stepSt (cfg : Cfg) (lb : St) (op : Op) : St × List ResV :=
  let r := act cfg lb op
  let f := r.1.finish (sub cfg)
  -- a request that was served at once is reported before those flushed from the queue
  let res := (r.2.filter (· ≠ .queued)) ++ f.2.map ResV.ofFlush ++ (r.2.filter (· = .queued))
  (tapesRead f.1, res)

def step (cfg : Cfg) (lb : St) (op : Op) : St × Obs :=
  let r := stepSt cfg lb op
  (r.1, obsOf r.1 r.2)

/-! ### codecs -/

def decRat : V → Option Rat
  | .l [.n n, .n d] => if d > 0 then some (mkRat n d.toNat) else none
  | _ => none

def encRat (q : Rat) : V := .l [.n q.num, V.ofNat q.den]

def decCfg : List V → Option Cfg
  | [ap, mn, mx, lo, hi, slow, ini] => do
      let ap ← ap.nat?
      pure ⟨ap != 0, ← mn.nat?, ← mx.nat?, ← decRat lo, ← decRat hi, ← slow.bool?, ← ini.natList?⟩
  | _ => none

def decAdjIn : V → Option AdjIn
  | .l [.n wn, .n wd, .n an, .n ad, .n tn, .n td] =>
      if wd > 0 ∧ ad > 0 ∧ td > 0 then some ⟨mkRat wn wd.toNat, mkRat an ad.toNat, mkRat tn td.toNat⟩ else none
  | _ => none

def decEnv (c a : V) : Option Env := do
  let cs ← c.natList?
  let as ← (← a.list?).mapM decAdjIn
  pure ⟨cs, as⟩

def decOp : List V → Option Op
  | [.a "open"] => some .opn
  | [.a "loaded", l, c, a] => do pure (.loaded (← l.natList?) (← decEnv c a))
  | [.a "join", ep, c, a] => do pure (.join (← ep.nat?) (← decEnv c a))
  | [.a "leave", ep, c, a] => do pure (.leave (← ep.nat?) (← decEnv c a))
  | [.a "get", c, a] => do pure (.get (← decEnv c a))
  | [.a "getd", c, a] => do pure (.getd (← decEnv c a))
  | [.a "expire", k] => do pure (.expire (← k.nat?))
  | [.a "put", r, j, c, a] => do pure (.put (← r.nat?) (← j.nat?) (← decEnv c a))
  | [.a "chan", n, st] => do pure (.chan (← n.nat?) (← st.nat?))
  | [.a "opened", n, ok, c, a] => do pure (.opened (← n.nat?) (← ok.bool?) (← decEnv c a))
  | [.a "jitter", c, a] => do pure (.jitter (← decEnv c a))
  | _ => none

def encNV (v : NV) : V :=
  .l [V.ofNat v.id, V.ofNat v.ep, .n v.load, .n v.index, V.ofNat v.closed, V.ofNat v.ost]

def decNV : V → Option NV
  | .l [id, ep, .n load, .n index, closed, ost] => do
      pure ⟨← id.nat?, ← ep.nat?, load, index, ← closed.nat?, ← ost.nat?⟩
  | _ => none

def encRes : ResV → V
  | .queued => .a "queued"
  | .dropped => .a "dropped"
  | .noMembers => .a "nomembers"
  | .node id ep r => .l [.a "node", V.ofNat id, V.ofNat ep, V.ofNat r]

def decRes : V → Option ResV
  | .a "queued" => some .queued
  | .a "dropped" => some .dropped
  | .a "nomembers" => some .noMembers
  | .l [.a "node", id, ep, r] => do pure (.node (← id.nat?) (← ep.nat?) (← r.nat?))
  | _ => none

def encOptRat : Option Rat → V
  | none => .a "none"
  | some q => encRat q

def decOptRat : V → Option (Option Rat)
  | .a "none" => some none
  | v => (decRat v).map some

def encAdj (r : AdjRec) : V :=
  .l [V.ofNat r.size, V.ofNat r.idle, V.ofNat r.pend, V.ofNat r.healthy, encRat r.avg,
      V.ofNat r.size', V.ofNat r.idle', V.ofBool r.emaOk, encRat r.dt, encRat r.w, encOptRat r.prev, .n r.sample]

def decAdj : V → Option AdjRec
  | .l [s, i, p, h, avg, s', i', ok, dt, w, prev, .n sample] => do
      pure ⟨← s.nat?, ← i.nat?, ← p.nat?, ← h.nat?, ← decRat avg, ← s'.nat?, ← i'.nat?, ← ok.bool?,
            ← decRat dt, ← decRat w, ← decOptRat prev, sample⟩
  | _ => none

def encObs (o : Obs) : V :=
  .l [.l (o.res.map encRes), .l (o.heap.map encNV), V.ofNats o.down, .l (o.off.map encNV),
      V.ofNats o.servers, V.ofNats o.idle, V.ofNats o.pending,
      .l [V.ofBool o.initDone, V.ofNat o.blocked, V.ofBool o.openAr, V.ofNat o.queued, V.ofBool o.jitter],
      .n o.total, .l (o.adj.map encAdj), .l [V.ofNat o.gActive, V.ofNat o.gIdle]]

def decObs : V → Option Obs
  | .l [.l res, .l heap, down, .l off, servers, idle, pending, .l [ini, bl, oa, qu, ji], .n total, .l adj,
        .l [ga, gi]] => do
      pure { res := ← res.mapM decRes, heap := ← heap.mapM decNV, down := ← down.natList?,
             off := ← off.mapM decNV, servers := ← servers.natList?, idle := ← idle.natList?,
             pending := ← pending.natList?, initDone := ← ini.bool?, blocked := ← bl.nat?,
             openAr := ← oa.bool?, queued := ← qu.nat?, jitter := ← ji.bool?, total := total,
             adj := ← adj.mapM decAdj, gActive := ← ga.nat?, gIdle := ← gi.nat? }
  | _ => none

/-! ### the reference server set

  The server set starts as `cfg.initial`; every join/leave callback is the server set telling the
  balancer about a change it has already made, whether or not the balancer is ready to listen. -/

def refAfter (ref : List Nat) : Op → List Nat
  | .join ep _ => if ep ∈ ref then ref else ref ++ [ep]
  | .leave ep _ => ref.filter (· ≠ ep)
  | _ => ref

/-- endpoints the balancer can dispatch to: heap nodes (active) and, for the aperture, idle ones -/
def Obs.eligible (o : Obs) : List Nat := o.heap.map (·.ep) ++ o.idle

def nodupB : List Nat → Bool
  | [] => true
  | x :: xs => !xs.contains x && nodupB xs

def resEps (rs : List ResV) : List Nat :=
  rs.filterMap (fun r => match r with | .node _ ep _ => some ep | _ => none)

/-! ### C05: membership equals the server set -/

/-- the clauses of C05 at one observation, `ref` the server set after the operation.  They bind at
    quiescent points: initial load complete, no callback waiting. -/
def c05At (idx : Nat) (ref : List Nat) (o : Obs) : Verdict :=
  if o.initDone && o.blocked == 0 then
    let el := o.eligible
    if !nodupB el then .fail "member-listed-twice" [V.ofNat idx]
    else match ref.find? (fun x => !el.contains x) with
      | some x => .fail "member-not-eligible" [V.ofNat idx, V.ofNat x]
      | none =>
        match el.find? (fun x => !ref.contains x) with
        | some x => .fail "departed-member-eligible" [V.ofNat idx, V.ofNat x]
        | none =>
          match (resEps o.res).find? (fun x => !ref.contains x) with
          | some x => .fail "dispatch-to-departed-member" [V.ofNat idx, V.ofNat x]
          | none => .ok
  else .ok

def specC05Go (idx : Nat) (ref : List Nat) : List (Op × Obs) → Verdict
  | [] => .ok
  | (op, o) :: rest =>
    let ref' := refAfter ref op
    (c05At idx ref' o).and (fun _ => specC05Go (idx + 1) ref' rest)

def specC05 (cfg : Cfg) (h : List (Op × Obs)) : Verdict := specC05Go 0 cfg.initial h

/-! ### C06: partitioned, bounded, load-tracking active subset -/

/-- what the property says `_AdjustAperture` does when it sees `r` -/
def tableExpand (cfg : Cfg) (r : AdjRec) : Bool :=
  decide (cfg.maxLoad ≤ apLoad cfg r.size r.avg) && decide (0 < r.idle) && decide (r.size < cfg.maxSize)

def tableContract (cfg : Cfg) (r : AdjRec) : Bool :=
  !tableExpand cfg r && decide (apLoad cfg r.size r.avg ≤ cfg.minLoad) && decide (cfg.minSize < r.size)
    && decide (r.pend = 0) && decide (cfg.minSize < r.healthy)

def c06Adj (cfg : Cfg) (idx : Nat) (r : AdjRec) : Verdict :=
  if r.size' = r.size + 1 ∧ cfg.maxSize < r.size' then .fail "grown-beyond-max-size" [V.ofNat idx, V.ofNat r.size']
  else if tableExpand cfg r then
    (if r.size' = r.size + 1 then .ok else .fail "no-growth-under-load" [V.ofNat idx, V.ofNat r.size])
  else if tableContract cfg r then
    (if r.size' + 1 = r.size then .ok else .fail "no-shrink-when-underloaded" [V.ofNat idx, V.ofNat r.size])
  else if r.size' = r.size then .ok
  else .fail "size-change-against-table" [V.ofNat idx, V.ofNat r.size, V.ofNat r.size']

/-! "the smoothed number of outstanding requests": what one `Ema.Update` of one `_AdjustAperture` call did,
    judged on the record of the call alone.  The time the sample was taken at is not earlier than the time
    of the sample before it (`MonoClock`: the wall clock may step backwards, the sampled time may not); the
    decay weight (none is used for the first sample) is a weight (in [0, 1]); the new smoothed value lies between the previous smoothed value and
    the sample (the first sample is taken as it is) — up to the relative rounding slack `emaTol` of the float
    arithmetic.  A value outside that interval is an extrapolation, not a smoothing: the aperture then grows
    or shrinks although the load per member has not crossed the band. -/

def ratMin (a b : Rat) : Rat := if a ≤ b then a else b
def ratMax (a b : Rat) : Rat := if a ≤ b then b else a

/-- the smoothed value of the call lies between the previous value and the sample -/
def emaBetween (r : AdjRec) : Bool :=
  let s : Rat := (r.sample : Rat)
  let p : Rat := r.prev.getD s
  let slack : Rat := emaTol * (1 + ratMax (ratAbs p) (ratAbs s))
  decide (ratMin p s - slack ≤ r.avg) && decide (r.avg ≤ ratMax p s + slack)

def c06Ema (idx : Nat) (r : AdjRec) : Verdict :=
  if r.dt < 0 then .fail "sampled-time-decreased" [V.ofNat idx, encRat r.dt]
  else if r.prev.isSome ∧ (r.w < 0 ∨ 1 < r.w) then .fail "decay-weight-outside-unit-interval" [V.ofNat idx, encRat r.w]
  else if emaBetween r then .ok
  else .fail "smoothed-load-not-between-previous-and-sample" [V.ofNat idx, encRat r.avg, .n r.sample]

def c06At (cfg : Cfg) (idx : Nat) (o : Obs) : Verdict :=
  let el := o.eligible
  if !nodupB el then .fail "member-in-both-sets" [V.ofNat idx]
  else match o.servers.find? (fun x => !el.contains x) with
    | some x => .fail "member-in-neither-set" [V.ofNat idx, V.ofNat x]
    | none =>
      match el.find? (fun x => !o.servers.contains x) with
      | some x => .fail "non-member-in-aperture" [V.ofNat idx, V.ofNat x]
      | none =>
        if o.heap.length < min cfg.minSize o.servers.length then
          .fail "below-min-size" [V.ofNat idx, V.ofNat o.heap.length]
        else (Verdict.all (o.adj.map (c06Ema idx))).and (fun _ => Verdict.all (o.adj.map (c06Adj cfg idx)))

/-! "load-tracking": `_total` is the number of requests dispatched and not yet completed.  The
    history alone tells which dispatches are open: a result `node _ _ d` opens dispatch `d` (dispatches
    are numbered in order of appearance), the operation `put d` closes it (a second `put d` changes
    nothing).  The plain heap balancer keeps no total. -/

def nodeFlags (rs : List ResV) : List Bool :=
  rs.filterMap (fun r => match r with | .node _ _ _ => some false | _ => none)

/-- `put d` closes dispatch `d` -/
def flagsPut (fl : List Bool) : Op → List Bool
  | .put r _ _ => fl.set r true
  | _ => fl

/-- per dispatch number: has it completed? -/
def flagsAfter (fl : List Bool) (op : Op) (o : Obs) : List Bool := flagsPut fl op ++ nodeFlags o.res

def expectedTotal (cfg : Cfg) (fl : List Bool) : Int := if cfg.aperture then (fl.count false : Nat) else 0

def c06Total (cfg : Cfg) (idx : Nat) (fl : List Bool) (o : Obs) : Verdict :=
  if o.total = expectedTotal cfg fl then .ok
  else .fail "total-is-sum" [V.ofNat idx, .n o.total, .n (expectedTotal cfg fl)]

/-! "the smoothed number of outstanding requests" is THIS balancer's: nothing but the balancer's own samples
    moves its smoothed load.  Judged on the `_AdjustAperture` records of the history alone, in the order of the
    calls: the value the Ema held before the update of a record (`prev`; `none`: it held no sample yet) is the
    value the update of the balancer's previous record left (`avg` of that record; before the first record:
    nothing).  An Ema that something else has updated in between — another balancer of the process sampling
    into the same object — breaks the chain: the balancer then grows, or is kept from shrinking, on a load
    that is not its own. -/

/-- the chain over the records of one operation, `held` what the balancer's previous record left -/
def c06Own (idx : Nat) : Option Rat → List AdjRec → Verdict
  | _, [] => .ok
  | held, r :: rs =>
    if r.prev = held then c06Own idx (some r.avg) rs
    else .fail "smoothed-load-not-continued" [V.ofNat idx, encOptRat r.prev, encOptRat held]

/-- what the last of the records left (`held` if there is none) -/
def heldAfter : Option Rat → List AdjRec → Option Rat
  | held, [] => held
  | _, r :: rs => heldAfter (some r.avg) rs

def specC06Go (cfg : Cfg) (idx : Nat) (fl : List Bool) (held : Option Rat) : List (Op × Obs) → Verdict
  | [] => .ok
  | (op, o) :: rest =>
    let fl' := flagsAfter fl op o
    (c06At cfg idx o).and (fun _ => (c06Own idx held o.adj).and (fun _ => (c06Total cfg idx fl' o).and
      (fun _ => specC06Go cfg (idx + 1) fl' (heldAfter held o.adj) rest)))

def specC06 (cfg : Cfg) (h : List (Op × Obs)) : Verdict := specC06Go cfg 0 [] none h

/-! ### C12, balancer hop: the gate in front of the open result

  A request that arrives before the open result is complete waits for it.  The queue is rebuilt from
  the operations (and from whether the request was reported `queued`): `none` a request without a
  deadline event, `some false` one whose event is not set, `some true` one whose event has been set
  (`expire k`: the timeout sink's timer fired for the `k`-th waiting request, its caller has its
  TimeoutError).  An observation that reports nothing waiting any more is the one in which the open
  result completed: its results, in order, are what became of the waiting requests. -/

def gateArriveB (q : List (Option Bool)) (op : Op) (wasQueued : Bool) : List (Option Bool) :=
  match op with
  | .get _ => if wasQueued then q ++ [none] else q
  | .getd _ => if wasQueued then q ++ [some false] else q
  | .expire k =>
    (match q[k]? with
     | some (some _) => q.set k (some true)
     | _ => q)
  | _ => q

def gateArrive (q : List (Option Bool)) (op : Op) (o : Obs) : List (Option Bool) :=
  gateArriveB q op (o.res.contains .queued)

/-- what became of the waiting requests, oldest first -/
def Obs.flushed (o : Obs) : List ResV := o.res.filter (· ≠ .queued)

/-- no request whose deadline event is set is forwarded to a member (or anywhere) -/
def dropOk : List (Option Bool) → List ResV → Bool
  | e :: q, r :: rs => (live e || decide (r = .dropped)) && dropOk q rs
  | _, _ => true

/-- every other waiting request is forwarded, once: one result per waiting request, and a live
    request's result is a dispatch (to a member, or to the no-members sink), not a drop -/
def liveOk : List (Option Bool) → List ResV → Bool
  | [], [] => true
  | e :: q, r :: rs => (!live e || (decide (r ≠ .dropped) && decide (r ≠ .queued))) && liveOk q rs
  | _, _ => false

def dispatchIds (rs : List ResV) : List Nat :=
  rs.filterMap (fun r => match r with | .node _ _ d => some d | _ => none)

/-- dispatch numbers grow along the list: the requests were forwarded in arrival order -/
def increasing : List Nat → Bool
  | a :: b :: rest => decide (a < b) && increasing (b :: rest)
  | _ => true

/-- `which`: 1 the drop clause only, 2 the forwarding clauses only, anything else both -/
def gateAt (which idx : Nat) (q : List (Option Bool)) (o : Obs) : Verdict :=
  if o.queued == 0 && !q.isEmpty then
    if which ≠ 2 ∧ dropOk q o.flushed = false then .fail "timed-out-request-forwarded" [V.ofNat idx]
    else if which ≠ 1 ∧ liveOk q o.flushed = false then .fail "waiting-request-not-forwarded-once" [V.ofNat idx]
    else if which ≠ 1 ∧ increasing (dispatchIds o.flushed) = false then
      .fail "forwarded-out-of-arrival-order" [V.ofNat idx]
    else .ok
  else .ok

def gateNext (q : List (Option Bool)) (o : Obs) : List (Option Bool) := if o.queued == 0 then [] else q

def specGateGo (which idx : Nat) (q : List (Option Bool)) : List (Op × Obs) → Verdict
  | [] => .ok
  | (op, o) :: rest =>
    let q' := gateArrive q op o
    (gateAt which idx q' o).and (fun _ => specGateGo which (idx + 1) (gateNext q' o) rest)

def specGate (_ : Cfg) (h : List (Op × Obs)) : Verdict := specGateGo 0 0 [] h
def specGateDrop (_ : Cfg) (h : List (Op × Obs)) : Verdict := specGateGo 1 0 [] h
def specGateLive (_ : Cfg) (h : List (Op × Obs)) : Verdict := specGateGo 2 0 [] h

/-! ### hypotheses -/

def sameSet (a b : List Nat) : Bool := a.all (fun x => b.contains x) && b.all (fun x => a.contains x)

/-- protocol state of `wf`: 0 before `Open()`, 1 while the initial list is loading, 2 afterwards;
    the server set; the server sets seen since `Open()` (what `GetServers` may have returned) -/
structure Proto where
  phase : Nat := 0
  ref : List Nat
  cands : List (List Nat) := []

def protoStep (p : Proto) : Op → Option Proto
  -- the first `Open()` starts `_OpenImpl`; any further `Open()` finds the balancer opening or open
  | .opn => if p.phase = 0 then some { p with phase := 1, cands := [p.ref] } else some p
  | .loaded l _ => if p.phase = 1 ∧ p.cands.any (sameSet l) then some { p with phase := 2, cands := [] } else none
  | .join ep e =>
    let r := refAfter p.ref (.join ep e)
    if p.phase = 1 then some { p with ref := r, cands := p.cands ++ [r] }
    else if p.phase = 2 then some { p with ref := r } else none
  | .leave ep e =>
    let r := refAfter p.ref (.leave ep e)
    if p.phase = 1 then some { p with ref := r, cands := p.cands ++ [r] }
    else if p.phase = 2 then some { p with ref := r } else none
  | _ => if p.phase = 0 then none else some p

def protoOk (p : Proto) : List Op → Bool
  | [] => true
  | op :: ops =>
    match protoStep p op with
    | none => false
    | some p' => protoOk p' ops

def runSt (cfg : Cfg) (lb : St) : List Op → St
  | [] => lb
  | op :: ops => runSt cfg (stepSt cfg lb op).1 ops

/-- hypotheses of the C05/C06 theorems: the operations come in an order the implementation admits
    (`Open()` first — any number of further `Open()` calls anywhere afterwards —, one initial load whose
    list is a server set seen since the first `Open()`, callbacks and requests only after `Open()`), and
    every recorded choice was a legal one (`bad` never set) -/
def wf (cfg : Cfg) (ops : List Op) : Bool :=
  protoOk { ref := cfg.initial } ops && !(runSt cfg (init cfg) ops).sub.bad

def comp5 : TComp Cfg St Op Obs where
  decCfg := decCfg
  init := init
  decOp := decOp
  step := step
  encObs := encObs
  decObs := decObs
  spec := specC05
  wf := wf

/-- one `_AdjustAperture` record is consistent with what is not modelled: the value the real (float)
    `Ema.Update` returned agrees, within `emaTol`, with one exact EMA step from the previous value with the
    recorded weight, and the recorded weight is one `exp(-dt / window)` can take for the time delta `dt` of
    the record -/
def recLegal (r : AdjRec) : Bool :=
  let e := Ema.update r.prev r.w (r.sample : Rat)
  decide (ratAbs (e - r.avg) ≤ emaTol * (1 + ratAbs e)) && (r.prev.isNone || Ema.weightLegal r.dt r.w)

/-- every record of every operation of the run from `lb` is `recLegal` -/
def logsLegal (cfg : Cfg) : St → List Op → Bool
  | _, [] => true
  | lb, op :: ops => (stepSt cfg lb op).1.sub.adjLog.all recLegal && logsLegal cfg (stepSt cfg lb op).1 ops

/-- hypotheses of the C06 theorems that speak of the smoothing: `wf`, and the recorded results of the float
    arithmetic (`math.exp`, one multiply-add) are what exact arithmetic allows (`recLegal`) -/
def wf6 (cfg : Cfg) (ops : List Op) : Bool := wf cfg ops && logsLegal cfg (init cfg) ops

def comp6 : TComp Cfg St Op Obs := { comp5 with spec := specC06, wf := wf6 }

/-- component `lbgate` (C12, balancer hop) -/
def compGate : TComp Cfg St Op Obs := { comp5 with spec := specGate }

end Scales.LB
