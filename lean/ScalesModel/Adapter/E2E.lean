/-
  Adapter/E2E.lean — monitors for the assembled client stacks (runtime verification).

  The harness runs the Thrift / ThriftMux clients built by the public builders over a fake
  network and logs events; the monitors below judge the log against the clauses of C01, C02
  and C12 that concern the whole stack.  There is no model step here: the "model" of the
  environment is the log itself; the proofs for these properties live in the component
  models (FrontEnd, Mux/TagPool, Serial, Watermark).  Import-free.

  What a verdict means about the log is proved in Props/E2EMonitor.lean (`C01_monitor_*`, `C02_monitor_*`,
  `C09_monitor_*`, `C12_monitor_*`; lemmas in Proofs/E2EMonitorLemmas.lean): `ok` ⇔ no clause is violated at
  any position, `fail cl (j …)` ⇒ clause `cl` is violated at position `j`, the first violated position.  For
  those proofs the step is split into `stStep` (state; the same for every property) and `verdictAt` (verdict in
  the state before the event); `monGo` = check before the event (`preV`), check of the event, …, `finalV`.
-/
import ScalesModel.Core.Run
namespace Scales.E2E

def resolution : Nat := 10000
def roundUp (d : Nat) : Nat := ((d + resolution - 1) / resolution) * resolution

inductive Outcome where
  | own                 -- the server's reply to this very call
  | other (k : Int)     -- a reply produced for another call (k = that call, −1 unknown)
  | err
  | timeout
  deriving Repr, DecidableEq

inductive Ev where
  | issue (c T at_ : Nat) (pre : Bool)
  | opened (at_ : Nat)
  | done (c : Nat) (o : Outcome) (at_ : Nat)
  | wrote (c : Int) (conn : Nat) (discard : Bool) (tag : Nat) (at_ : Nat)
  | srvgot (c : Int) (conn : Nat) (argsOk : Bool) (at_ : Nat)
  | connclosed (conn : Nat) (at_ : Nat)
  | tick (at_ : Nat)
  | clientclosed (at_ : Nat)              -- `DispatcherClose()` has returned
  | connect (ep : Nat) (at_ : Nat)        -- a connection attempt (accepted or refused) reaches endpoint `ep`
  | reach (ep : Nat) (up : Bool) (at_ : Nat) (maxWait : Nat)
      -- endpoint `ep` starts refusing / accepting connections; `maxWait`: the configured maximum retry interval (µs)
  deriving Repr

structure CallSt where
  issueT : Nat
  T : Nat
  pre : Bool
  done : Option (Outcome × Nat) := none
  reqs : List (Nat × Nat × Nat) := []      -- (conn, tag, at) of request frames written
  discards : List (Nat × Nat) := []        -- (conn, tag) of discard frames naming this call
  deriving Repr

structure St where
  calls : List CallSt := []
  openedAt : Option Nat := none
  closed : List (Nat × Nat) := []          -- (conn, at)
  clientClosedAt : Option Nat := none
  down : List (Nat × Nat) := []            -- (ep, since): endpoints refusing connections
  upSince : List (Nat × Nat × Nat) := []   -- (ep, since, maxWait): endpoints accepting again after having refused
  owed : List (Nat × Nat) := []            -- (ep, at): a connection attempt was refused at `at`, none has succeeded since
  deriving Repr

def St.upd (s : St) (c : Nat) (f : CallSt → CallSt) : St :=
  match s.calls[c]? with
  | some cl => { s with calls := s.calls.set c (f cl) }
  | none => s

def openLate (s : St) (cl : CallSt) : Bool :=
  cl.pre && (match s.openedAt with
    | some t => decide (cl.issueT + cl.T < t)
    | none => true)

/-- does call `cl`, still incomplete, miss its deadline at time `now`?  (C01 deadline clause at ticks) -/
def callOverdue (cl : CallSt) (now : Nat) : Bool :=
  cl.done.isNone && decide (cl.T > 0) && decide (now > roundUp (cl.issueT + cl.T))

def openTag (s : St) (cl : CallSt) : V := .a (if openLate s cl then "open-late" else "open-in-time")

def overdueGo (s : St) (idx now : Nat) (c : Nat) : List CallSt → Verdict
  | [] => .ok
  | cl :: rest =>
    if callOverdue cl now then .fail "deadline-bound" [V.ofNat idx, V.ofNat c, openTag s cl]
    else overdueGo s idx now (c + 1) rest

/-- overdue calls at time `now` (C01 deadline clause) -/
def overdue (s : St) (idx now : Nat) : Verdict := overdueGo s idx now 0 s.calls

/-- a multiplexed connection is "still open" at `t` if it was not closed at or before `t` -/
def connOpenAt (s : St) (conn t : Nat) : Bool := !s.closed.any (fun p => p.1 == conn && decide (p.2 ≤ t))

/-- a timed-out call whose request was on a still-open multiplexed connection and has no discard naming its tag -/
def discardBad (s : St) (mux : Bool) (cl : CallSt) : Bool :=
  match cl.done with
  | some (.timeout, t) =>
    mux && cl.reqs.any (fun r => decide (r.2.2 ≤ t) && connOpenAt s r.1 t &&
      !cl.discards.any (fun d => d.1 == r.1 && d.2 == r.2.1))
  | _ => false

def discardsGo (s : St) (idx : Nat) (mux : Bool) (c : Nat) : List CallSt → Verdict
  | [] => .ok
  | cl :: rest =>
    if discardBad s mux cl then .fail "discard-missing" [V.ofNat idx, V.ofNat c] else discardsGo s idx mux (c + 1) rest

/-- at the end of the log: every timed-out call whose request was on a still-open multiplexed
    connection has a discard naming its tag (C12, second clause) -/
def discardsOk (s : St) (idx : Nat) (mux : Bool) : Verdict := discardsGo s idx mux 0 s.calls

def evTime : Ev → Nat
  | .issue _ _ t _ => t | .opened t => t | .done _ _ t => t | .wrote _ _ _ _ t => t
  | .srvgot _ _ _ t => t | .connclosed _ t => t | .tick t => t | .clientclosed t => t | .connect _ t => t
  | .reach _ _ t _ => t

/-- C09, "once the endpoint is reachable again the client resumes … within one maximum retry interval": an endpoint
    that refused a connection attempt of this client, has been accepting connections again since `tr`, and has seen
    no attempt since although more than the maximum retry interval (plus one second of slack) has passed — while the
    client is not closed.  Only evaluated on logs that carry `reach` events (single-endpoint scripts: with several
    endpoints the aperture may legitimately retire a failed member). -/
def retrySlack : Nat := 1000000

/-- the retry owed to endpoint `o.1` since `o.2` is overdue at `now` -/
def owedOverdue (s : St) (now : Nat) (o : Nat × Nat) : Bool :=
  match s.upSince.find? (fun u => u.1 == o.1) with
  | some u => decide (Nat.max u.2.1 o.2 + u.2.2 + retrySlack < now)
  | none => false

def retryOverdue (s : St) (idx now : Nat) : Verdict :=
  if s.clientClosedAt.isSome then .ok else
  match s.owed.find? (owedOverdue s now) with
  | some o => .fail "no-reconnect-within-max-interval" [V.ofNat idx, V.ofNat o.1]
  | none => .ok

/-- the monitor's state after an event (the same for every property) -/
def stStep (s : St) : Ev → St
  | .issue _ T t pre => { s with calls := s.calls ++ [{ issueT := t, T := T, pre := pre }] }
  | .opened t => { s with openedAt := some t }
  | .done c o t => s.upd c (fun cl => if cl.done.isSome then cl else { cl with done := some (o, t) })
  | .wrote c conn discard tag t =>
    if c < 0 then s
    else if discard then s.upd c.toNat (fun cl => { cl with discards := cl.discards ++ [(conn, tag)] })
    else s.upd c.toNat (fun cl => { cl with reqs := cl.reqs ++ [(conn, tag, t)] })
  | .srvgot _ _ _ _ => s
  | .connclosed conn t => { s with closed := s.closed ++ [(conn, t)] }
  | .tick _ => s
  | .clientclosed t => { s with clientClosedAt := some t }
  | .connect ep t =>
    if s.down.any (fun d => d.1 == ep) then
      { s with owed := (ep, t) :: s.owed.filter (fun o => o.1 != ep) }      -- refused: a retry is owed
    else { s with owed := s.owed.filter (fun o => o.1 != ep) }              -- accepted
  | .reach ep up t mw =>
    if up then { s with down := s.down.filter (fun d => d.1 != ep),
                        upSince := (ep, t, mw) :: s.upSince.filter (fun u => u.1 != ep) }
    else { s with down := (ep, t) :: s.down.filter (fun d => d.1 != ep),
                  upSince := s.upSince.filter (fun u => u.1 != ep) }

def Outcome.isOther : Outcome → Bool
  | .other _ => true
  | _ => false

/-- C01 on a completion event of the known call `cl` (number `c`) -/
def doneV1 (s : St) (cl : CallSt) (idx c : Nat) (o : Outcome) (t : Nat) : Verdict :=
  if o.isOther then
    -- C01: "with the server's reply to that call"
    .fail "foreign-reply" [V.ofNat idx, V.ofNat c]
  else if cl.done.isSome then .fail "completed-twice" [V.ofNat idx, V.ofNat c]
  else if o = .timeout && decide (t < cl.issueT + cl.T) then .fail "timeout-early" [V.ofNat idx, V.ofNat c]
  else if decide (cl.T > 0) && decide (t > roundUp (cl.issueT + cl.T)) then
    .fail "deadline-bound" [V.ofNat idx, V.ofNat c, openTag s cl]
  else .ok

/-- C02 on a completion event -/
def doneV2 (idx c : Nat) (o : Outcome) : Verdict :=
  match o with
  | .other k => .fail "cross-talk" [V.ofNat idx, V.ofNat c, .n k]
  | _ => .ok

/-- C12 on a request frame of the known call `cl` (number `c`) written at `t` -/
def wroteV12 (cl : CallSt) (idx c t : Nat) : Verdict :=
  match cl.done with
  | some (.timeout, td) => if td ≤ t then .fail "write-after-timeout" [V.ofNat idx, V.ofNat c] else .ok
  | _ => .ok

/-- the monitor's verdict on an event in state `s` (the state before the event).  `which` selects the property. -/
def verdictAt (which : Nat) (s : St) (idx : Nat) : Ev → Verdict
  | .done c o t =>
    match s.calls[c]? with
    | none => .fail "unknown-call" [V.ofNat idx]
    | some cl =>
      if which = 1 then doneV1 s cl idx c o t
      else if which = 2 then doneV2 idx c o
      else .ok
  | .wrote c _ discard _ t =>
    if c < 0 then .ok
    else
      match s.calls[c.toNat]? with
      | none => .ok
      | some cl => if discard then .ok else if which = 12 then wroteV12 cl idx c.toNat t else .ok
  | .srvgot c _ argsOk _ =>
    if which = 2 && (!argsOk || decide (c < 0)) then .fail "args-mangled" [V.ofNat idx] else .ok
  | .tick t => if which = 1 then overdue s idx t else .ok
  | .connect ep _ =>
    -- C09: "after the client is closed no further reconnection attempts are made"
    if which = 9 && s.clientClosedAt.isSome then .fail "connect-after-close" [V.ofNat idx, V.ofNat ep] else .ok
  | _ => .ok

/-- monitor step: new state and verdict for this event.  `which` selects the property. -/
def monStep (which : Nat) (_mux : Bool) (s : St) (idx : Nat) (e : Ev) : St × Verdict :=
  (stStep s e, verdictAt which s idx e)

/-- C09: the check made before every event, at the event's time -/
def preV (which : Nat) (s : St) (idx : Nat) (e : Ev) : Verdict :=
  if which = 9 then retryOverdue s idx (evTime e) else .ok

/-- the check made at the end of the log -/
def finalV (which : Nat) (mux : Bool) (s : St) (idx : Nat) : Verdict :=
  if which = 12 then discardsOk s idx mux else .ok

def monGo (which : Nat) (mux : Bool) (s : St) (idx : Nat) : List Ev → Verdict
  | [] => finalV which mux s idx
  | e :: rest =>
    (preV which s idx e).and (fun _ =>
      (verdictAt which s idx e).and (fun _ => monGo which mux (stStep s e) (idx + 1) rest))

/-! ### line-protocol face: the operations are the events, the observation is a constant -/

def decOutcome : V → Option Outcome
  | .a "own" => some .own
  | .l [.a "other", .n k] => some (.other k)
  | .l [.a "err", _] => some .err
  | .a "timeout" => some .timeout
  | _ => none

def decEv : List V → Option Ev
  | [.a "issue", c, T, t, pre] => do pure (.issue (← c.nat?) (← T.nat?) (← t.nat?) (← pre.bool?))
  | [.a "opened", t] => do pure (.opened (← t.nat?))
  | [.a "done", c, o, t] => do pure (.done (← c.nat?) (← decOutcome o) (← t.nat?))
  | [.a "wrote", .n c, conn, .a kind, tag, t] => do
      pure (.wrote c (← conn.nat?) (kind == "discard") (← tag.nat?) (← t.nat?))
  | [.a "srvgot", .n c, conn, ok, t] => do pure (.srvgot c (← conn.nat?) (← ok.bool?) (← t.nat?))
  | [.a "connclosed", conn, t] => do pure (.connclosed (← conn.nat?) (← t.nat?))
  | [.a "tick", t] => do pure (.tick (← t.nat?))
  | [.a "clientclosed", t] => do pure (.clientclosed (← t.nat?))
  | [.a "connect", ep, t] => do pure (.connect (← ep.nat?) (← t.nat?))
  | [.a "reach", ep, up, t, mw] => do pure (.reach (← ep.nat?) (← up.bool?) (← t.nat?) (← mw.nat?))
  | _ => none

def decCfg : List V → Option Bool
  | [.a "mux"] => some true
  | [.a "thrift"] => some false
  | _ => none

def comp (which : Nat) : TComp Bool Unit Ev Unit where
  decCfg := decCfg
  init := fun _ => ()
  decOp := decEv
  step := fun _ _ _ => ((), ())
  encObs := fun _ => .a "ok"
  decObs := fun v => match v with | .a "ok" => some () | _ => none
  spec := fun mux h => monGo which mux {} 0 (h.map (·.1))
  wf := fun _ _ => true

end Scales.E2E
