/-
  Adapter/TagPool.lean — C11: line-protocol face of Model/Mux.lean + Model/TagPool.lean and the
  executable specification over histories.  Import-free.
-/
import ScalesModel.Core.Run
import ScalesModel.Model.Mux
namespace Scales.TagPool

/-- configuration: `max_tag` given to the TagPool (the transports use 2^24 − 1), which transport
    sink is meant, and the *age* of the connection: the state of its tag pool when the script
    starts — high-water mark `next` and the released tags `free`.  A fresh connection has
    `next = 1`, `free = []` (`TagPool.__init__`); on an aged one earlier traffic has pushed `next`
    up (past 2^8, past 2^16: tags that need the second and the third tag byte), some of those tags
    have come back (`free`), the others are still awaiting their answer (`Cfg.held` of them). -/
structure Cfg where
  max : Nat
  fl : Flavour
  next : Nat := 1
  free : List Nat := []
  deriving Repr, DecidableEq

/-- the pool the connection starts with -/
def Cfg.pool (cfg : Cfg) : Pool := ⟨cfg.free, cfg.next⟩

/-- tags handed out before the script starts and not released: they are awaiting an answer from
    the peer that does not come within the script (requests in flight, timed-out requests whose
    Tdiscarded the peer has not answered) -/
def Cfg.held (cfg : Cfg) : Nat := cfg.next - 1 - cfg.free.length

/-- the transport sink at the start of a script: open, nothing queued, no request of the script in
    flight yet, the pool as the configuration says -/
def initSt (cfg : Cfg) : St := St.initWith cfg.pool

/-- observation after a step: the step's own outputs, then the canonical state
    (`_tag_map` keys and the free set sorted, `_next`) -/
structure Obs where
  res : Res
  assigned : Nat
  wrote : List Frame
  delivered : List Nat
  tagmap : List Nat
  free : List Nat
  next : Nat
  qlen : Nat          -- `_send_queue.qsize()`
  deriving Repr, DecidableEq

/-- insertion sort (structural, so that concrete histories evaluate inside the kernel) -/
def insNat (x : Nat) : List Nat → List Nat
  | [] => [x]
  | y :: ys => if x ≤ y then x :: y :: ys else y :: insNat x ys

def sortNat : List Nat → List Nat
  | [] => []
  | x :: xs => insNat x (sortNat xs)

def obsOf (s : St) (o : Out) : Obs :=
  ⟨o.res, o.assigned, o.wrote, o.delivered, sortNat (tmKeys s.tagmap), sortNat s.pool.free, s.pool.next,
   s.sendq.length⟩

def step (cfg : Cfg) (s : St) (op : Op) : St × Obs :=
  let r := stepOp cfg.fl cfg.max s op
  (r.1, obsOf r.1 r.2)

/-- history produced by a variant of the transport (used for the unrepaired code) -/
def traceWith (f : Nat → St → Op → St × Out) (cfg : Cfg) : St → List Op → List (Op × Obs)
  | _, [] => []
  | s, op :: ops =>
    let r := f cfg.max s op
    (op, obsOf r.1 r.2) :: traceWith f cfg r.1 ops

/-! ### codecs -/

def decFl : V → Option Flavour
  | .a "thriftmux" => some .thriftmux
  | .a "kafka" => some .kafka
  | _ => none

/-- `<max>` | `<max> <flavour>` (fresh connection) | `<max> <flavour> <next> <free…>` (aged connection) -/
def decCfg : List V → Option Cfg
  | [m] => do pure { max := ← m.nat?, fl := .thriftmux }
  | [m, f] => do pure { max := ← m.nat?, fl := ← decFl f }
  | m :: f :: n :: fr => do pure { max := ← m.nat?, fl := ← decFl f, next := ← n.nat?, free := ← fr.mapM (·.nat?) }
  | _ => none

def decEv : V → Option EvKind
  | .a "noev" => some .noev
  | .a "ev" => some .ev
  | .a "pre" => some .pre
  | _ => none

def decOp : List V → Option Op
  | [.a "req", e, p] => do pure (.req (← decEv e) (← p.nat?))
  | [.a "fire", r] => do pure (.fire (← r.nat?))
  | [.a "send"] => some .send
  | [.a "notify", r] => do pure (.notify (← r.nat?))
  | [.a "process", m, t] => do pure (.process (← m.int?) (← t.nat?))
  | [.a "ping"] => some .ping
  | [.a "reopen"] => some .reopen
  | [.a "wbegin"] => some .wbegin
  | [.a "wend"] => some .wend
  | [.a "quiet"] => some .quiet
  | _ => none

def encRes : Res → V
  | .ok => .a "ok"
  | .exhausted => .a "exhausted"
  | .badop => .a "bad-op"
  | .raised => .a "raised"

def decRes : V → Option Res
  | .a "ok" => some .ok
  | .a "exhausted" => some .exhausted
  | .a "bad-op" => some .badop
  | .a "raised" => some .raised
  | _ => none

def encKind : FrameKind → V
  | .req => .a "req"
  | .discard => .a "discard"
  | .ping => .a "ping"
  | .other => .a "other"

def decKind : V → Option FrameKind
  | .a "req" => some .req
  | .a "discard" => some .discard
  | .a "ping" => some .ping
  | .a "other" => some .other
  | _ => none

def encFrame (f : Frame) : V := .l [encKind f.kind, V.ofNat f.tag, V.ofNat f.arg]

def decFrame : V → Option Frame
  | .l [k, t, a] => do pure ⟨← decKind k, ← t.nat?, ← a.nat?⟩
  | _ => none

def encObs (o : Obs) : V :=
  .l [encRes o.res, V.ofNat o.assigned, .l (o.wrote.map encFrame), V.ofNats o.delivered,
      V.ofNats o.tagmap, V.ofNats o.free, V.ofNat o.next, V.ofNat o.qlen]

def decObs : V → Option Obs
  | .l [r, a, .l fs, d, tm, fr, nx, ql] => do
      pure ⟨← decRes r, ← a.nat?, ← fs.mapM decFrame, ← d.natList?, ← tm.natList?, ← fr.natList?, ← nx.nat?,
            ← ql.nat?⟩
  | _ => none

/-! ### specification over a history

  What the property texts demand of the observations, nothing else.

  C11 (tags):
  * `reserved` / `range` — a tag given to a request, and the tag of every request frame
    written, lies in `[2, max − 1]` (= `[2, 2^24 − 2]` for the transport's pool);
  * `unique` — a request frame is never written with a tag that an earlier written request
    frame on this connection carries and the peer has not answered since;
  * `release` — a tag enters the free set only in a step that processes a peer frame for that
    tag, or while no written-and-unanswered request carries it (its request was never written);
  * `reuse` — a request takes a released tag whenever there is one;
  * `highwater` — `next − 1` never exceeds the peak number of tags awaiting an answer
    (requests in flight plus timed-out requests whose discard the peer has not answered).  On an
    aged connection the tags awaiting an answer are those of the tag map plus the `Cfg.held` ones
    handed out before the script started and never answered, and the peak so far is `next − 1`
    (the least the clause itself allows for the connection's past).

  C02, multiplexed hop:
  * `own-reply` — when a frame of the peer on tag `t` is delivered to a request and a written,
    unanswered request frame carries `t`, the delivery goes to the request of that frame.  (No
    assumption on the peer: it may answer twice, answer unknown tags, answer early.)

  C12, multiplexed hop (`spec12` = all of the above and):
  * `write-after-timeout` — no request frame of a request whose deadline event has fired is written;
  * `discard-unexpected` — a Tdiscarded is written only for a tag that is due: the time-out
    callback ran for a request whose frame was written with that tag and not answered since;
    each written Tdiscarded settles one due entry;
  * `discard-missing` — when the send queue is empty, no Tdiscarded is due any more;
  * `timeout-not-discarded` — stated on what the caller and the peer see, not on the callback:
    when the deadline event of a request fires (its caller is handed TimeoutError) while a frame
    of it has been written and not answered, a Tdiscarded naming that frame's tag must follow.
    "Written" is counted from the moment the `write` call was issued (`wrote` of a `wbegin` step
    is the frame whose write is in progress from then on), so a deadline that expires *while
    the write is blocked* is covered.  The obligation lapses if the peer answers the tag in the
    meantime.  It is judged at `quiet` points (nothing runnable) at which the send queue is empty
    and no write is in progress — the only moments at which "has been sent" is decided. -/

structure Acc where
  unans : List (Nat × Nat) := []   -- (tag, request id) of written request frames the peer has not answered since
  peak : Nat := 0                  -- peak size of the tag map on this connection
  pfree : List Nat := []           -- free set in the previous observation
  nreq : Nat := 0                  -- requests issued on this connection (= the next request id)
  fired : List Nat := []           -- requests whose deadline event has fired
  owed : List Nat := []            -- tags for which a Tdiscarded is due and not yet written
  must : List Nat := []            -- tags of written, unanswered frames whose request timed out: Tdiscarded not yet seen
  inprog : Bool := false           -- a `write` call is in progress (`wbegin` without its `wend`)
  held : Nat := 0                  -- tags of this connection awaiting an answer since before the script (0 after a re-open)
  deriving Repr

/-- tags of the written, unanswered request frames -/
def Acc.tags (a : Acc) : List Nat := a.unans.map (·.1)

def reqTags (fs : List Frame) : List Nat :=
  (fs.filter (fun f => f.kind == .req)).map (·.tag)

/-- (tag, request id) of the request frames among `fs` -/
def reqPairs (fs : List Frame) : List (Nat × Nat) :=
  (fs.filter (fun f => f.kind == .req)).map (fun f => (f.tag, f.arg))

/-- tags named by the Tdiscarded frames among `fs` -/
def discTags (fs : List Frame) : List Nat :=
  (fs.filter (fun f => f.kind == .discard)).map (·.arg)

def eraseAll (l : List Nat) : List Nat → List Nat
  | [] => l
  | t :: ts => eraseAll (l.erase t) ts

/-- the tags request `rid` is known to have on the wire, unanswered -/
def tagsOf (unans : List (Nat × Nat)) (rid : Nat) : List Nat :=
  (unans.filter (fun p => p.2 == rid)).map (·.1)

/-- remove the tags named by written Tdiscarded frames -/
def dropDiscarded (l : List Nat) (fs : List Frame) : List Nat :=
  l.filter (fun t => !(discTags fs).contains t)

/-- `must` after a step: the firing of a deadline event adds the tags of the request's written,
    unanswered frames; a peer frame on a tag cancels it; a written Tdiscarded settles it -/
def mustAfter (a : Acc) (op : Op) (o : Obs) : List Nat :=
  match op with
  | .reopen => []
  | .fire rid => dropDiscarded (a.must ++ tagsOf a.unans rid) o.wrote
  | .process _ t => dropDiscarded (a.must.filter (fun x => x != t)) o.wrote
  | _ => dropDiscarded a.must o.wrote

def inprogAfter (a : Acc) (op : Op) : Bool :=
  match op with
  | .reopen => false
  | .wbegin => true
  | .wend => false
  | _ => a.inprog

/-- the accumulator after a step -/
def Acc.after (a : Acc) (op : Op) (o : Obs) : Acc :=
  match op with
  | .reopen => { unans := [], peak := o.tagmap.length, pfree := o.free, nreq := 0, fired := [], owed := [],
                 must := [], inprog := false }
  | .process m t =>
    { a with unans := a.unans.filter (fun p => p.1 != t) ++ reqPairs o.wrote,
             peak := Nat.max a.peak (o.tagmap.length + a.held), pfree := o.free,
             owed := eraseAll a.owed (discTags o.wrote),
             must := mustAfter a (.process m t) o, inprog := inprogAfter a (.process m t) }
  | .req e p =>
    { a with unans := a.unans ++ reqPairs o.wrote, peak := Nat.max a.peak (o.tagmap.length + a.held), pfree := o.free,
             nreq := a.nreq + 1, fired := if e = .pre then a.nreq :: a.fired else a.fired,
             owed := eraseAll a.owed (discTags o.wrote),
             must := mustAfter a (.req e p) o, inprog := inprogAfter a (.req e p) }
  | .fire rid =>
    { a with unans := a.unans ++ reqPairs o.wrote, peak := Nat.max a.peak (o.tagmap.length + a.held), pfree := o.free,
             fired := rid :: a.fired, owed := eraseAll a.owed (discTags o.wrote),
             must := mustAfter a (.fire rid) o, inprog := inprogAfter a (.fire rid) }
  | .notify rid =>
    { a with unans := a.unans ++ reqPairs o.wrote, peak := Nat.max a.peak (o.tagmap.length + a.held), pfree := o.free,
             owed := eraseAll (a.owed ++ tagsOf a.unans rid) (discTags o.wrote),
             must := mustAfter a (.notify rid) o, inprog := inprogAfter a (.notify rid) }
  | .send =>
    { a with unans := a.unans ++ reqPairs o.wrote, peak := Nat.max a.peak (o.tagmap.length + a.held), pfree := o.free,
             owed := eraseAll a.owed (discTags o.wrote),
             must := mustAfter a .send o, inprog := inprogAfter a .send }
  | .ping =>
    { a with unans := a.unans ++ reqPairs o.wrote, peak := Nat.max a.peak (o.tagmap.length + a.held), pfree := o.free,
             owed := eraseAll a.owed (discTags o.wrote),
             must := mustAfter a .ping o, inprog := inprogAfter a .ping }
  | .wbegin =>
    { a with unans := a.unans ++ reqPairs o.wrote, peak := Nat.max a.peak (o.tagmap.length + a.held), pfree := o.free,
             owed := eraseAll a.owed (discTags o.wrote),
             must := mustAfter a .wbegin o, inprog := inprogAfter a .wbegin }
  | .wend =>
    { a with unans := a.unans ++ reqPairs o.wrote, peak := Nat.max a.peak (o.tagmap.length + a.held), pfree := o.free,
             owed := eraseAll a.owed (discTags o.wrote),
             must := mustAfter a .wend o, inprog := inprogAfter a .wend }
  | .quiet =>
    { a with unans := a.unans ++ reqPairs o.wrote, peak := Nat.max a.peak (o.tagmap.length + a.held), pfree := o.free,
             owed := eraseAll a.owed (discTags o.wrote),
             must := mustAfter a .quiet o, inprog := inprogAfter a .quiet }

def isReqOk (op : Op) (o : Obs) : Bool :=
  match op with
  | .req _ _ => o.res == .ok
  | _ => false

def answers (op : Op) (t : Nat) : Bool :=
  match op with
  | .process _ t' => t' == t
  | _ => false

/-- uniqueness among the frames of one step, then against the unanswered ones -/
def uniqueOk (unans : List Nat) : List Nat → Bool
  | [] => true
  | t :: ts => !unans.contains t && !ts.contains t && uniqueOk unans ts

/-- C02: deliveries of a `process _ t` step go to the request of the written, unanswered frame
    with tag `t`, if there is one; `none` if the step is fine, else the offending pair -/
def ownReplyBad (a : Acc) (op : Op) (o : Obs) : Option (Nat × Nat) :=
  match op with
  | .process _ t => (a.unans.filter (fun p => p.1 == t)).find? (fun p => o.delivered.any (· != p.2))
  | _ => none

/-- the C11 clauses for one step; `a` is the accumulator *before* the step -/
def specObsTags (cfg : Cfg) (a : Acc) (idx : Nat) (op : Op) (o : Obs) : Verdict :=
  let given := (if isReqOk op o then [o.assigned] else []) ++ reqTags o.wrote
  match given.find? (fun t => decide (t < 2)) with
  | some t => .fail "reserved" [V.ofNat idx, V.ofNat t]
  | none =>
  match given.find? (fun t => decide (cfg.max ≤ t)) with
  | some t => .fail "range" [V.ofNat idx, V.ofNat t]
  | none =>
  if !uniqueOk a.tags (reqTags o.wrote) then .fail "unique" [V.ofNat idx, V.ofNats (reqTags o.wrote)]
  else
  match o.free.find? (fun t => !a.pfree.contains t && !answers op t && a.tags.contains t) with
  | some t => .fail "release" [V.ofNat idx, V.ofNat t]
  | none =>
  if isReqOk op o && !a.pfree.isEmpty && !a.pfree.contains o.assigned then
    .fail "reuse" [V.ofNat idx, V.ofNat o.assigned]
  else if op != .reopen && decide (Nat.max a.peak (o.tagmap.length + a.held) + 1 < o.next) then
    .fail "highwater" [V.ofNat idx, V.ofNat o.next, V.ofNat (Nat.max a.peak (o.tagmap.length + a.held))]
  else .ok

/-- verdict for one step: the C02 clause (a reply handed to another call's request is reported as
    such, although the same step then also releases a tag the peer has not answered), then the
    C11 clauses -/
def specObs (cfg : Cfg) (a : Acc) (idx : Nat) (op : Op) (o : Obs) : Verdict :=
  match ownReplyBad a op o with
  | some p => .fail "own-reply" [V.ofNat idx, V.ofNat p.1, V.ofNat p.2, V.ofNats o.delivered]
  | none => specObsTags cfg a idx op o

def specGo (cfg : Cfg) (a : Acc) (idx : Nat) : List (Op × Obs) → Verdict
  | [] => .ok
  | (op, o) :: rest =>
    (specObs cfg a idx op o).and (fun _ => specGo cfg (a.after op o) (idx + 1) rest)

/-- the accumulator at the start of a script: nothing written yet; the free set, the peak and
    the tags still out are those of the connection's starting pool (all empty / 0 on a fresh one) -/
def Acc.init (cfg : Cfg) : Acc := { peak := cfg.next - 1, pfree := sortNat cfg.free, held := cfg.held }

/-- C11 + C02 (multiplexed hop) -/
def spec (cfg : Cfg) (h : List (Op × Obs)) : Verdict := specGo cfg (Acc.init cfg) 0 h

/-- every written Tdiscarded is due; each settles one due entry -/
def discOk : List Nat → List Nat → Bool
  | _, [] => true
  | owed, t :: ts => owed.contains t && discOk (owed.erase t) ts

/-- what is due when the frames of this step are written (a time-out callback makes its
    request's unanswered tag due) -/
def dueNow (a : Acc) (op : Op) : List Nat :=
  match op with
  | .notify rid => a.owed ++ tagsOf a.unans rid
  | _ => a.owed

/-- the C12 clauses for one step; the two Tdiscarded clauses concern the ThriftMux transport
    only (Kafka has no discard message: a timed-out request keeps its tag until the broker answers,
    which is what the C11 `release` clause demands) -/
def specObs12 (cfg : Cfg) (a : Acc) (idx : Nat) (op : Op) (o : Obs) : Verdict :=
  match (reqPairs o.wrote).find? (fun p => a.fired.contains p.2) with
  | some p => .fail "write-after-timeout" [V.ofNat idx, V.ofNat p.2, V.ofNat p.1]
  | none =>
  if cfg.fl == .thriftmux && !discOk (dueNow a op) (discTags o.wrote) then
    .fail "discard-unexpected" [V.ofNat idx, V.ofNats (discTags o.wrote), V.ofNats (dueNow a op)]
  else if cfg.fl == .thriftmux && o.qlen == 0 && !(a.after op o).owed.isEmpty then
    .fail "discard-missing" [V.ofNat idx, V.ofNats (a.after op o).owed]
  else .ok

/-- the clause `timeout-not-discarded` (ThriftMux only): at a quiet point with an empty send queue
    and no write in progress, no timed-out request has a written, unanswered frame without its
    Tdiscarded -/
def specObsM (cfg : Cfg) (a : Acc) (idx : Nat) (op : Op) (o : Obs) : Verdict :=
  if op == .quiet && cfg.fl == .thriftmux && o.qlen == 0 && !a.inprog && !a.must.isEmpty then
    .fail "timeout-not-discarded" [V.ofNat idx, V.ofNats a.must]
  else .ok

def specGo12 (cfg : Cfg) (a : Acc) (idx : Nat) : List (Op × Obs) → Verdict
  | [] => .ok
  | (op, o) :: rest =>
    (((specObs cfg a idx op o).and (fun _ => specObs12 cfg a idx op o)).and
        (fun _ => specObsM cfg a idx op o)).and
      (fun _ => specGo12 cfg (a.after op o) (idx + 1) rest)

/-- C11 + C02 + C12 (multiplexed hop): what the component evaluates -/
def spec12 (cfg : Cfg) (h : List (Op × Obs)) : Verdict := specGo12 cfg (Acc.init cfg) 0 h

/-! ### hypotheses: the connection starts with a pool in a state the pool can be in (`Pool.wf`:
    released tags distinct and in `[2, next]`, `1 ≤ next < max` — so the pool is at least as large
    as the reserved range), and every label is one the code can actually take in the state it is
    taken in (the harness only reports labels the real run took) -/

def opEnabled (cfg : Cfg) (s : St) (op : Op) : Bool :=
  (stepOp cfg.fl cfg.max s op).2.res != .badop

def opsOk (cfg : Cfg) (s : St) : List Op → Bool
  | [] => true
  | op :: ops => opEnabled cfg s op && opsOk cfg (stepOp cfg.fl cfg.max s op).1 ops

def cfgWF (cfg : Cfg) : Bool := cfg.pool.wf cfg.max

def comp : TComp Cfg St Op Obs where
  decCfg := decCfg
  init := initSt
  decOp := decOp
  step := step
  encObs := encObs
  decObs := decObs
  spec := spec12
  wf := fun cfg ops => cfgWF cfg && opsOk cfg (initSt cfg) ops

end Scales.TagPool
