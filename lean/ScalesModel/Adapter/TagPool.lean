/-
  Adapter/TagPool.lean — C11: line-protocol face of Model/Mux.lean + Model/TagPool.lean and the
  executable specification over histories.  Import-free.
-/
import ScalesModel.Core.Run
import ScalesModel.Model.Mux
namespace Scales.TagPool

/-- configuration: `max_tag` given to the TagPool (the transport uses 2^24 − 1) -/
structure Cfg where
  max : Nat
  deriving Repr, DecidableEq

/-- observation after a step: the step's own outputs, then the canonical state
    (`_tag_map` keys and the free set sorted, `_next`) -/
structure Obs where
  res : Res
  assigned : Nat
  wrote : List Frame
  delivered : List Nat
  tagmap : List Nat
  free : List Nat
  next : Nat
  deriving Repr, DecidableEq

/-- insertion sort (structural, so that concrete histories evaluate inside the kernel) -/
def insNat (x : Nat) : List Nat → List Nat
  | [] => [x]
  | y :: ys => if x ≤ y then x :: y :: ys else y :: insNat x ys

def sortNat : List Nat → List Nat
  | [] => []
  | x :: xs => insNat x (sortNat xs)

def obsOf (s : St) (o : Out) : Obs :=
  ⟨o.res, o.assigned, o.wrote, o.delivered, sortNat (tmKeys s.tagmap), sortNat s.pool.free, s.pool.next⟩

def step (cfg : Cfg) (s : St) (op : Op) : St × Obs :=
  let r := stepOp cfg.max s op
  (r.1, obsOf r.1 r.2)

/-- history produced by a variant of the transport (used for the unrepaired code) -/
def traceWith (f : Nat → St → Op → St × Out) (cfg : Cfg) : St → List Op → List (Op × Obs)
  | _, [] => []
  | s, op :: ops =>
    let r := f cfg.max s op
    (op, obsOf r.1 r.2) :: traceWith f cfg r.1 ops

/-! ### codecs -/

def decCfg : List V → Option Cfg
  | [m] => do pure ⟨← m.nat?⟩
  | _ => none

def decEv : V → Option EvKind
  | .a "noev" => some .noev
  | .a "ev" => some .ev
  | .a "pre" => some .pre
  | _ => none

def decOp : List V → Option Op
  | [.a "req", e, p] => do pure (.req (← decEv e) (← p.nat?))
  | [.a "fire", r] => do pure (.fire (← r.nat?))
  | [.a "send"] => some .send
  | [.a "notify", r] => do pure (.notify (← r.nat?))
  | [.a "process", m, t] => do pure (.process (← m.int?) (← t.nat?))
  | [.a "ping"] => some .ping
  | [.a "reopen"] => some .reopen
  | _ => none

def encRes : Res → V
  | .ok => .a "ok"
  | .exhausted => .a "exhausted"
  | .badop => .a "bad-op"
  | .raised => .a "raised"

def decRes : V → Option Res
  | .a "ok" => some .ok
  | .a "exhausted" => some .exhausted
  | .a "bad-op" => some .badop
  | .a "raised" => some .raised
  | _ => none

def encKind : FrameKind → V
  | .req => .a "req"
  | .discard => .a "discard"
  | .ping => .a "ping"
  | .other => .a "other"

def decKind : V → Option FrameKind
  | .a "req" => some .req
  | .a "discard" => some .discard
  | .a "ping" => some .ping
  | .a "other" => some .other
  | _ => none

def encFrame (f : Frame) : V := .l [encKind f.kind, V.ofNat f.tag, V.ofNat f.arg]

def decFrame : V → Option Frame
  | .l [k, t, a] => do pure ⟨← decKind k, ← t.nat?, ← a.nat?⟩
  | _ => none

def encObs (o : Obs) : V :=
  .l [encRes o.res, V.ofNat o.assigned, .l (o.wrote.map encFrame), V.ofNats o.delivered,
      V.ofNats o.tagmap, V.ofNats o.free, V.ofNat o.next]

def decObs : V → Option Obs
  | .l [r, a, .l fs, d, tm, fr, nx] => do
      pure ⟨← decRes r, ← a.nat?, ← fs.mapM decFrame, ← d.natList?, ← tm.natList?, ← fr.natList?, ← nx.nat?⟩
  | _ => none

/-! ### specification over a history

  What the property text demands of the observations, nothing else:

  * `reserved` / `range` — a tag given to a request, and the tag of every request frame
    written, lies in `[2, max − 1]` (= `[2, 2^24 − 2]` for the transport's pool);
  * `unique` — a request frame is never written with a tag that an earlier written request
    frame on this connection carries and the peer has not answered since;
  * `release` — a tag enters the free set only in a step that processes a peer frame for that
    tag, or while no written-and-unanswered request carries it (its request was never written);
  * `reuse` — a request takes a released tag whenever there is one;
  * `highwater` — `next − 1` never exceeds the peak number of tags awaiting an answer
    (requests in flight plus timed-out requests whose discard the peer has not answered). -/

structure Acc where
  unans : List Nat := []     -- tags of written request frames the peer has not answered since
  peak : Nat := 0            -- peak size of the tag map on this connection
  pfree : List Nat := []     -- free set in the previous observation
  deriving Repr

def reqTags (fs : List Frame) : List Nat :=
  (fs.filter (fun f => f.kind == .req)).map (·.tag)

/-- the accumulator after a step -/
def Acc.after (a : Acc) (op : Op) (o : Obs) : Acc :=
  match op with
  | .reopen => { unans := [], peak := o.tagmap.length, pfree := o.free }
  | .process _ t =>
    { unans := a.unans.filter (· != t) ++ reqTags o.wrote, peak := Nat.max a.peak o.tagmap.length, pfree := o.free }
  | _ => { unans := a.unans ++ reqTags o.wrote, peak := Nat.max a.peak o.tagmap.length, pfree := o.free }

def isReqOk (op : Op) (o : Obs) : Bool :=
  match op with
  | .req _ _ => o.res == .ok
  | _ => false

def answers (op : Op) (t : Nat) : Bool :=
  match op with
  | .process _ t' => t' == t
  | _ => false

/-- uniqueness among the frames of one step, then against the unanswered ones -/
def uniqueOk (unans : List Nat) : List Nat → Bool
  | [] => true
  | t :: ts => !unans.contains t && !ts.contains t && uniqueOk unans ts

/-- verdict for one step; `a` is the accumulator *before* the step -/
def specObs (cfg : Cfg) (a : Acc) (idx : Nat) (op : Op) (o : Obs) : Verdict :=
  let given := (if isReqOk op o then [o.assigned] else []) ++ reqTags o.wrote
  match given.find? (fun t => decide (t < 2)) with
  | some t => .fail "reserved" [V.ofNat idx, V.ofNat t]
  | none =>
  match given.find? (fun t => decide (cfg.max ≤ t)) with
  | some t => .fail "range" [V.ofNat idx, V.ofNat t]
  | none =>
  if !uniqueOk a.unans (reqTags o.wrote) then .fail "unique" [V.ofNat idx, V.ofNats (reqTags o.wrote)]
  else
  match o.free.find? (fun t => !a.pfree.contains t && !answers op t && a.unans.contains t) with
  | some t => .fail "release" [V.ofNat idx, V.ofNat t]
  | none =>
  if isReqOk op o && !a.pfree.isEmpty && !a.pfree.contains o.assigned then
    .fail "reuse" [V.ofNat idx, V.ofNat o.assigned]
  else if op != .reopen && decide (Nat.max a.peak o.tagmap.length + 1 < o.next) then
    .fail "highwater" [V.ofNat idx, V.ofNat o.next, V.ofNat (Nat.max a.peak o.tagmap.length)]
  else .ok

def specGo (cfg : Cfg) (a : Acc) (idx : Nat) : List (Op × Obs) → Verdict
  | [] => .ok
  | (op, o) :: rest =>
    (specObs cfg a idx op o).and (fun _ => specGo cfg (a.after op o) (idx + 1) rest)

def spec (cfg : Cfg) (h : List (Op × Obs)) : Verdict := specGo cfg {} 0 h

/-! ### hypotheses: the pool is at least as large as the reserved range, and every label is
    one the code can actually take in the state it is taken in (the harness only reports
    labels the real run took) -/

def opEnabled (cfg : Cfg) (s : St) (op : Op) : Bool :=
  (stepOp cfg.max s op).2.res != .badop

def opsOk (cfg : Cfg) (s : St) : List Op → Bool
  | [] => true
  | op :: ops => opEnabled cfg s op && opsOk cfg (stepOp cfg.max s op).1 ops

def cfgWF (cfg : Cfg) : Bool := decide (2 ≤ cfg.max)

def comp : TComp Cfg St Op Obs where
  decCfg := decCfg
  init := fun _ => St.init
  decOp := decOp
  step := step
  encObs := encObs
  decObs := decObs
  spec := spec
  wf := fun cfg ops => cfgWF cfg && opsOk cfg St.init ops

end Scales.TagPool
