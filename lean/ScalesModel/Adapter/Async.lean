/-
  Adapter/Async.lean — C17: line-protocol face of Model/Async.lean, and the executable
  specification over histories.  Import-free.
-/
import ScalesModel.Core.Run
import ScalesModel.Model.Async
namespace Scales.Async

inductive Cfg where
  | whenAll (outs : List Out)
  | whenAny (outs : List Out) (pre : List Bool)
  | unwrap (chain : List Lvl) (pre : List Bool)
  | cw (f : FnRes)
  | map (o : Out) (f : FnRes)
  deriving Repr

inductive Op where
  | look            -- observe without doing anything (used right after creation)
  | deliver (i : Nat)
  | set (k : Nat)
  | drain
  deriving Repr, DecidableEq

/-- observation: the combined result as the caller sees it, and a counter (times the
    target was set / continuation ran / fn was applied) -/
structure Obs where
  res : Res
  cnt : Nat
  deriving Repr, DecidableEq

inductive St where
  | wa (s : WA) (ds : List Nat)
  | wany (s : AnyRet) (ds : List Nat)
  | uw (s : UW)
  | cw (s : CW)
  | mp (calls : Nat) (r : Res)
  deriving Repr

def initSt : Cfg → St
  | .whenAll outs => .wa (WA.init outs.length) []
  | .whenAny outs pre => .wany (WAny.init outs pre) []
  | .unwrap chain pre => .uw (UW.init chain pre)
  | .cw _ => .cw CW.init
  | .map _ _ => .mp 0 .pending

def obsOf (cfg : Cfg) : St → Obs
  | .wa s _ => ⟨s.ret, 0⟩
  | .wany s ds =>
    match cfg with
    | .whenAny outs pre => ⟨WAny.view outs pre ds s, 0⟩
    | _ => ⟨.pending, 0⟩
  | .uw s => ⟨s.target, s.sets⟩
  | .cw s => ⟨s.cw, s.ran⟩
  | .mp c r => ⟨r, c⟩

def stepSt (cfg : Cfg) (st : St) (op : Op) : St :=
  match cfg, st, op with
  | .whenAll outs, .wa s ds, .deliver i =>
    match outs[i]? with
    | some o => .wa (s.complete i o) (ds ++ [i])
    | none => st
  | .whenAny outs _, .wany s ds, .deliver i =>
    match outs[i]? with
    | some o => .wany (WAny.complete s o) (ds ++ [i])
    | none => st
  | .unwrap _ _, .uw s, .set k => .uw (s.setLevel k)
  | .unwrap _ _, .uw s, .drain => .uw s.deliver
  | .cw f, .cw s, .deliver _ => .cw (s.deliver f)
  | .map o f, .mp _ _, .deliver _ => let (c, r) := mapDeliver o f; .mp c r
  | _, st, _ => st

def step (cfg : Cfg) (st : St) (op : Op) : St × Obs :=
  let st' := stepSt cfg st op
  (st', obsOf cfg st')

/-! ### codecs -/

def decOut : V → Option Out
  | .l [.a "ok", .n v] => if v ≥ 0 then some (.ok v.toNat) else none
  | .l [.a "err", .n e] => if e ≥ 0 then some (.err e.toNat) else none
  | _ => none

def decLvl : V → Option Lvl
  | .a "inner" => some .inner
  | .l [.a "plain", .n v] => if v ≥ 0 then some (.plain v.toNat) else none
  | .l [.a "fail", .n e] => if e ≥ 0 then some (.fail e.toNat) else none
  | _ => none

def decFn : V → Option FnRes
  | .l [.a "ret", .n v] => if v ≥ 0 then some (.ret v.toNat) else none
  | .l [.a "raise", .n e] => if e ≥ 0 then some (.raise e.toNat) else none
  | _ => none

def decBools : V → Option (List Bool)
  | .l xs => xs.mapM V.bool?
  | _ => none

def decCfg : List V → Option Cfg
  | [.a "whenAll", .l outs] => do pure (.whenAll (← outs.mapM decOut))
  | [.a "whenAny", .l outs, pre] => do pure (.whenAny (← outs.mapM decOut) (← decBools pre))
  | [.a "unwrap", .l chain, pre] => do pure (.unwrap (← chain.mapM decLvl) (← decBools pre))
  | [.a "cw", f] => do pure (.cw (← decFn f))
  | [.a "map", o, f] => do pure (.map (← decOut o) (← decFn f))
  | _ => none

def decOp : List V → Option Op
  | [.a "look"] => some .look
  | [.a "deliver", i] => do pure (.deliver (← i.nat?))
  | [.a "set", k] => do pure (.set (← k.nat?))
  | [.a "drain"] => some .drain
  | _ => none

def encOptNat : Option Nat → V
  | some v => V.ofNat v
  | none => .a "none"

def decOptNat : V → Option (Option Nat)
  | .a "none" => some none
  | v => do pure (some (← v.nat?))

def encRes : Res → V
  | .pending => .a "pending"
  | .val v => .l [.a "val", V.ofNat v]
  | .vals vs => .l [.a "vals", .l (vs.map encOptNat)]
  | .err e => .l [.a "err", V.ofNat e]

def decRes : V → Option Res
  | .a "pending" => some .pending
  | .l [.a "val", v] => do pure (.val (← v.nat?))
  | .l [.a "vals", .l vs] => do pure (.vals (← vs.mapM decOptNat))
  | .l [.a "err", e] => do pure (.err (← e.nat?))
  | _ => none

def encObs (o : Obs) : V := .l [encRes o.res, V.ofNat o.cnt]
def decObs : V → Option Obs
  | .l [r, c] => do pure ⟨← decRes r, ← c.nat?⟩
  | _ => none

/-! ### specification over a history

  The acceptance predicates below say what the property demands of an observation, given
  which inputs have been delivered so far (`ds`) and which were complete at call time
  (`pre`).  They deliberately accept more than the model does where the property leaves
  freedom (which failure WhenAll reports; acting on pre-completed inputs at call time). -/

def preUndelivered (pre : List Bool) (n : Nat) (ds : List Nat) : List Nat :=
  (List.range n).filter (fun i => pre.getD i false && !ds.contains i)

/-- WhenAll, knowing completions `ds` -/
def accAll (outs : List Out) (ds : List Nat) (r : Res) : Bool :=
  match failsIn outs ds with
  | [] => if ds.length = outs.length then r == .vals (outs.map valOf) else r == .pending
  | fs => match r with
    | .err e => fs.any (fun d => errAt outs d == e)
    | _ => false

/-- WhenAny -/
def accAny (outs : List Out) (pre : List Bool) (ds : List Nat) (r : Res) : Bool :=
  match r with
  | .val v =>
      (match ds.find? (isOkAt outs) with
       | some d => valAt outs d == v
       | none => false) ||
      (List.range outs.length).any (fun i => pre.getD i false && isOkAt outs i && valAt outs i == v)
  | .err e =>
      (List.range outs.length).all (fun i => isErrAt outs i && (pre.getD i false || ds.contains i)) &&
      -- "the last failure": the last delivered input, unless that one was already complete at
      -- call time (then all were, and their relative completion order is unknown)
      (match ds.getLast? with
       | some d =>
         if ds.length = outs.length && !pre.getD d false then errAt outs d == e
         else (List.range outs.length).any (fun i => errAt outs i == e)
       | none => (List.range outs.length).any (fun i => errAt outs i == e))
  | .pending => (ds.find? (isOkAt outs)).isNone && decide (ds.length ≠ outs.length)
  | .vals _ => false

/-- what the spec remembers of the history so far -/
structure Acc where
  ds : List Nat := []      -- deliveries, in order
  sets : List Nat := []    -- unwrap levels completed by `set`
  deriving Repr

def Acc.after (a : Acc) : Op → Acc
  | .deliver i => { a with ds := a.ds ++ [i] }
  | .set k => { a with sets := a.sets ++ [k] }
  | _ => a

def readyOf (pre : List Bool) (n : Nat) (sets : List Nat) : List Bool :=
  (List.range n).map (fun k => pre.getD k false || sets.contains k)

def allReadyUpTo (ready : List Bool) (t : Nat) : Bool :=
  (List.range (t + 1)).all (fun j => ready.getD j false)

def fnRes : FnRes → Res
  | .ret v => .val v
  | .raise e => .err e

/-- Map: fn applied iff the source succeeded; failure of the source passes through -/
def mapSpec (src : Out) (f : FnRes) : Nat × Res :=
  match src with
  | .err e => (0, .err e)
  | .ok _ => (1, fnRes f)

/-- verdict for one observation, `a` already includes the operation just performed -/
def specObs (cfg : Cfg) (a : Acc) (idx : Nat) (op : Op) (o : Obs) : Verdict :=
  match cfg with
  | .whenAll outs =>
    if accAll outs a.ds o.res then .ok
    else .fail "whenAll" [V.ofNat idx, encRes o.res, encRes (allExpected outs a.ds)]
  | .whenAny outs pre =>
    if accAny outs pre a.ds o.res then .ok
    else .fail "whenAny" [V.ofNat idx, encRes o.res, encRes (anyExpectedView outs pre a.ds)]
  | .unwrap chain pre =>
    let ready := readyOf pre chain.length a.sets
    if o.res != .pending && o.res != chainOutcome chain then
      .fail "unwrap-wrong" [V.ofNat idx, encRes o.res, encRes (chainOutcome chain)]
    else if o.res != .pending && !allReadyUpTo ready (termIdx chain) then
      .fail "unwrap-early" [V.ofNat idx, encRes o.res]
    else if op == .drain && allReadyUpTo ready (termIdx chain) && o.res == .pending then
      .fail "unwrap-stuck" [V.ofNat idx]
    else .ok
  | .cw f =>
    let want : Res := if a.ds.length = 0 then .pending else fnRes f
    if o.cnt = a.ds.length ∧ o.res = want then .ok
    else .fail "continueWith" [V.ofNat idx, V.ofNat o.cnt, encRes o.res]
  | .map src f =>
    let want := if a.ds.length = 0 then ((0 : Nat), Res.pending) else mapSpec src f
    if o.cnt = want.1 ∧ o.res = want.2 then .ok
    else .fail "map" [V.ofNat idx, V.ofNat o.cnt, encRes o.res]

def specGo (cfg : Cfg) (a : Acc) (idx : Nat) : List (Op × Obs) → Verdict
  | [] => .ok
  | (op, o) :: rest =>
    let a' := a.after op
    (specObs cfg a' idx op o).and (fun _ => specGo cfg a' (idx + 1) rest)

def spec (cfg : Cfg) (h : List (Op × Obs)) : Verdict := specGo cfg {} 0 h

/-- is `op` a legal next operation (gevent delivers each link once, for an existing input;
    cw/map have a single source) -/
def opOk (cfg : Cfg) (a : Acc) : Op → Bool
  | .look => true
  | .deliver i =>
    match cfg with
    | .whenAll outs => decide (i < outs.length) && !a.ds.contains i
    | .whenAny outs _ => decide (i < outs.length) && !a.ds.contains i
    | .cw _ => a.ds.isEmpty
    | .map _ _ => a.ds.isEmpty
    | .unwrap _ _ => false
  | .set _ => match cfg with | .unwrap _ _ => true | _ => false
  | .drain => match cfg with | .unwrap _ _ => true | _ => false

def opsOk (cfg : Cfg) (a : Acc) : List Op → Bool
  | [] => true
  | op :: ops => opOk cfg a op && opsOk cfg (a.after op) ops

def cfgWF : Cfg → Bool
  | .whenAll outs => decide (1 ≤ outs.length)
  | .whenAny outs _ => decide (1 ≤ outs.length)
  | .unwrap chain _ => chainWF chain
  | _ => true

def comp : TComp Cfg St Op Obs where
  decCfg := decCfg
  init := initSt
  decOp := decOp
  step := step
  encObs := encObs
  decObs := decObs
  spec := spec
  wf := fun cfg ops => cfgWF cfg && opsOk cfg {} ops

end Scales.Async
