/-
  Adapter/Proxy.lean — C20 (component `proxy`): line-protocol face of Model/Proxy.lean and the
  executable specification.  Import-free.
-/
import ScalesModel.Core.Run
import ScalesModel.Model.Proxy
namespace Scales.Proxy

/-- the interface: its classes in method-resolution order, each with its function names -/
structure Cfg where
  classes : List (List Name)
  deriving Repr

inductive Op where
  /-- number of generated attributes in the proxy class dictionary -/
  | count
  /-- call `getattr(proxy, attr)(*args, **kwargs)` over a stub dispatcher whose result
      completes with `out`, before the call returns control (`late = false`) or only after the
      call was made (`late = true`) -/
  | call (attr : Name) (args : List Int) (kwargs : List (Name × Int)) (late : Bool) (out : Outcome)
  deriving Repr, DecidableEq

inductive Obs where
  | count (n : Nat)
  /-- `attr` is not a generated attribute -/
  | notgen
  | fwd (f : Fwd)
  deriving Repr, DecidableEq

def step (cfg : Cfg) (_ : Unit) (op : Op) : Unit × Obs :=
  let t := table (userMethods cfg.classes)
  match op with
  | .count => ((), .count t.length)
  | .call attr args kwargs late out =>
    match dget attr t with
    | none => ((), .notgen)
    | some g => ((), .fwd (callGen g args kwargs late out))

/-! ### codecs: names travel as atoms with a leading `.` -/

def decName : V → Option Name
  | .a s => match s.toList with
    | '.' :: cs => some cs
    | _ => none
  | _ => none

def encName (n : Name) : V := .a (String.ofList ('.' :: n))

def decClass : V → Option (List Name)
  | .l ns => ns.mapM decName
  | _ => none

def decCfg : List V → Option Cfg
  | [.l cs] => do pure ⟨← cs.mapM decClass⟩
  | _ => none

def decKw : V → Option (Name × Int)
  | .l [k, v] => do pure (← decName k, ← v.int?)
  | _ => none

def decOutcome : V → Option Outcome
  | .l [.a "ok", v] => do pure (.ok (← v.int?))
  | .l [.a "err", e] => do pure (.err (← e.int?))
  | _ => none

def decOp : List V → Option Op
  | [.a "count"] => some .count
  | [.a "call", attr, args, .l kws, late, out] => do
      pure (.call (← decName attr) (← args.intList?) (← kws.mapM decKw) (← late.bool?) (← decOutcome out))
  | _ => none

def encRet : Ret → V
  | .pending => .a "ar"
  | .value v => .l [.a "ok", .n v]
  | .raised e => .l [.a "err", .n e]

def decRet : V → Option Ret
  | .a "ar" => some .pending
  | .l [.a "ok", v] => do pure (.value (← v.int?))
  | .l [.a "err", e] => do pure (.raised (← e.int?))
  | _ => none

def encObs : Obs → V
  | .count n => .l [.a "count", V.ofNat n]
  | .notgen => .a "notgen"
  | .fwd f => .l [.a "fwd", encName f.method, V.ofInts f.args,
      .l (f.kwargs.map (fun kv => .l [encName kv.1, .n kv.2])), V.ofBool f.blocked, encRet f.ret]

def decObs : V → Option Obs
  | .l [.a "count", n] => do pure (.count (← n.nat?))
  | .a "notgen" => some .notgen
  | .l [.a "fwd", m, args, .l kws, b, r] => do
      pure (.fwd ⟨← decName m, ← args.intList?, ← kws.mapM decKw, ← b.bool?, ← decRet r⟩)
  | _ => none

/-! ### specification -/

/-- the blocking form of method `m`: name and arguments reach the dispatcher unchanged, the
    caller waits for the result and gets its value or its error -/
def isBlockingForm (m : Name) (args : List Int) (kwargs : List (Name × Int)) (late : Bool)
    (out : Outcome) (o : Obs) : Bool :=
  o == .fwd ⟨m, args, kwargs, late, out.ret⟩

/-- the `_async` form of method `m`: same hand-over, the caller gets the pending result at once -/
def isAsyncForm (m : Name) (args : List Int) (kwargs : List (Name × Int)) (o : Obs) : Bool :=
  o == .fwd ⟨m, args, kwargs, false, .pending⟩

/-- the user method `m` with `attr = m ++ "_async"`, if any -/
def asyncBase (us : List Name) (attr : Name) : Option Name :=
  us.find? (fun m => m ++ asyncSuffix = attr)

def specObs (cfg : Cfg) (idx : Nat) (op : Op) (o : Obs) : Verdict :=
  match op with
  | .count => .ok
  | .call attr args kwargs late out =>
    let us := userMethods cfg.classes
    if us.contains attr then
      if isBlockingForm attr args kwargs late out o then .ok
      else
        match asyncBase us attr with
        | some m => .fail "async-name-collision" [V.ofNat idx, encName attr, encName m, encObs o]
        | none => .fail "blocking-form" [V.ofNat idx, encName attr, encObs o]
    else
      match asyncBase us attr with
      | some m =>
        if isAsyncForm m args kwargs o then .ok
        else .fail "async-form" [V.ofNat idx, encName attr, encName m, encObs o]
      | none => .ok

def specGo (cfg : Cfg) (idx : Nat) : List (Op × Obs) → Verdict
  | [] => .ok
  | (op, o) :: rest => (specObs cfg idx op o).and (fun _ => specGo cfg (idx + 1) rest)

def spec (cfg : Cfg) (hist : List (Op × Obs)) : Verdict := specGo cfg 0 hist

/-! ### hypotheses -/

/-- no user method is named `m ++ "_async"` for a user method `m` (K2) -/
def noCollision (us : List Name) : Bool :=
  us.all (fun m => !us.contains (m ++ asyncSuffix))

def reserved : List Name :=
  ["DispatcherOpen".toList, "DispatcherClose".toList, "_dispatcher".toList]

/-- no user method shadows an attribute of `_ProxyBase` (out of domain, DESIGN §4) -/
def noReserved (us : List Name) : Bool := us.all (fun m => !reserved.contains m)

/-- the operation does not call an attribute that is both a user method and the `_async`
    name of another user method (K2) -/
def opOk (us : List Name) : Op → Bool
  | .count => true
  | .call attr _ _ _ _ => !(us.contains attr && (asyncBase us attr).isSome)

def wf (cfg : Cfg) (ops : List Op) : Bool :=
  noReserved (userMethods cfg.classes) && ops.all (opOk (userMethods cfg.classes))

def comp : TComp Cfg Unit Op Obs where
  decCfg := decCfg
  init := fun _ => ()
  decOp := decOp
  step := step
  encObs := encObs
  decObs := decObs
  spec := spec
  wf := wf

end Scales.Proxy
