/-
  Adapter/SerialC02.lean — C02 on the serial transport (component `serial2`): same model,
  operations and observations as component `serial` (Adapter/Serial.lean), judged by the C02
  clause: a connection on which a transaction was abandoned (it ended without consuming its
  reply: time-out, fault) must not carry a later request — the peer may still answer the
  abandoned frame (or is in the middle of reading a partially written one), and on a serial
  connection that answer would be taken for the reply to the later request.  Import-free.
-/
import ScalesModel.Adapter.Serial
namespace Scales.SerialC02
open Scales.Serial Scales.Transport

structure Acc where
  inflight : Option Nat := none   -- request accepted by the transport, not yet handed a response
  dirty : Bool := false           -- the connection in use saw an abandoned transaction
  idx : Nat := 0
  deriving Repr

/-- the connection was replaced or dropped during this operation -/
def replaced (o : Obs) : Bool := decide (o.conns > 0) || o.state != .opened

def respOf (id : Nat) (dels : List (Nat × Resp)) : Option Resp := (dels.find? (fun d => d.1 == id)).map (·.2)

def Acc.after (a : Acc) (op : Op) (o : Obs) : Acc :=
  match op with
  | .req id _ =>
    -- a new request never ends the transaction in flight (it is rejected at once); on an idle
    -- transport it is accepted unless it is answered on the spot (expired deadline, not
    -- connected), in which case nothing of it was written
    { inflight := match a.inflight with
        | some i => some i
        | none => if (respOf id o.dels).isNone then some id else none,
      dirty := if replaced o then false else a.dirty,
      idx := a.idx + 1 }
  | .close => { inflight := none, dirty := false, idx := a.idx + 1 }
  | _ =>
    let ended := match a.inflight with
      | some id => respOf id o.dels
      | none => none
    { inflight := if ended.isSome then none else a.inflight,
      dirty := if replaced o then false
               else a.dirty || (match ended with | some r => r != .stream | none => false),
      idx := a.idx + 1 }

def specObs (a : Acc) (o : Obs) : Verdict :=
  if a.dirty && !o.sent.isEmpty then .fail "stale-connection-reused" [V.ofNat a.idx, V.ofNats o.sent]
  else .ok

def specGo (a : Acc) : List (Op × Obs) → Verdict
  | [] => .ok
  | (op, o) :: rest => (specObs a o).and (fun _ => specGo (a.after op o) rest)

def spec (_ : Unit) (h : List (Op × Obs)) : Verdict := specGo {} h

def comp : TComp Unit St Op Obs where
  decCfg := fun _ => some ()
  init := fun _ => St.init
  decOp := Serial.decOp
  step := Serial.step
  encObs := Serial.encObs
  decObs := Serial.decObs
  spec := spec
  wf := fun _ ops => Serial.comp.wf () ops

end Scales.SerialC02
