/-
  Adapter/Heap.lean — C03/C04: line-protocol face of Model/Heap.lean and the executable
  specifications (abstract per-member outstanding counts, L0).  Import-free.
-/
import ScalesModel.Core.Run
import ScalesModel.Model.Heap
namespace Scales.Heap

inductive Op where
  | join (ep : Nat)
  | leave (ep : Nat)
  | get
  | put (r : Nat) (j : Nat)
  | chan (nid : Nat) (st : Nat)
  deriving Repr, DecidableEq

/-- per-node view: id, endpoint, load, index, number of Close() calls -/
structure NodeView where
  id : Nat
  ep : Nat
  load : Int
  index : Int
  closed : Nat
  deriving Repr, DecidableEq

structure Obs where
  res : Option GetRes        -- result of a `get`
  heap : List NodeView       -- in heap order
  down : List Nat            -- down list, head first
  off : List NodeView        -- nodes no longer in the heap, by id
  deriving Repr, DecidableEq

def viewOf (s : HS) (id : Nat) : NodeView :=
  let n := s.node id
  ⟨id, n.ep, n.load, n.index, n.closed⟩

def obsOf (s : HS) (res : Option GetRes) : Obs :=
  { res := res
    heap := s.heap.map (viewOf s)
    down := s.down
    off := ((List.range s.nodes.length).filter (fun id => !s.heap.contains id)).map (viewOf s) }

def noHook : DownHook := fun s _ => s

def step (_ : Unit) (s : HS) : Op → HS × Obs
  | .join ep => let s' := s.join ep; (s', obsOf s' none)
  | .leave ep => let s' := s.leave ep; (s', obsOf s' none)
  | .get => let (s', r) := s.get noHook; (s', obsOf s' (some r))
  | .put r j => let s' := s.put r j; (s', obsOf s' none)
  | .chan nid st => let s' := s.setChan nid st; (s', obsOf s' none)

/-! ### codecs -/

def decOp : List V → Option Op
  | [.a "join", ep] => do pure (.join (← ep.nat?))
  | [.a "leave", ep] => do pure (.leave (← ep.nat?))
  | [.a "get"] => some .get
  | [.a "put", r, j] => do pure (.put (← r.nat?) (← j.nat?))
  | [.a "chan", n, st] => do pure (.chan (← n.nat?) (← st.nat?))
  | _ => none

def encView (v : NodeView) : V := .l [V.ofNat v.id, V.ofNat v.ep, .n v.load, .n v.index, V.ofNat v.closed]
def decView : V → Option NodeView
  | .l [id, ep, .n load, .n index, closed] => do pure ⟨← id.nat?, ← ep.nat?, load, index, ← closed.nat?⟩
  | _ => none

def encRes : Option GetRes → V
  | none => .a "none"
  | some .noMembers => .a "nomembers"
  | some (.node id ep r) => .l [.a "node", V.ofNat id, V.ofNat ep, V.ofNat r]

def decRes : V → Option (Option GetRes)
  | .a "none" => some none
  | .a "nomembers" => some (some .noMembers)
  | .l [.a "node", id, ep, r] => do pure (some (.node (← id.nat?) (← ep.nat?) (← r.nat?)))
  | _ => none

def encObs (o : Obs) : V :=
  .l [encRes o.res, .l (o.heap.map encView), V.ofNats o.down, .l (o.off.map encView)]

def decObs : V → Option Obs
  | .l [res, .l heap, down, .l off] => do
      pure ⟨← decRes res, ← heap.mapM decView, ← down.natList?, ← off.mapM decView⟩
  | _ => none

/-! ### L0: what the property talks about

  The abstract state is rebuilt from the operations and the `get` results alone: the current
  members (node id, endpoint), per-node outstanding dispatches, channel states. -/

structure A0 where
  members : List (Nat × Nat) := []     -- (node id, endpoint) of current members
  nextId : Nat := 0
  out : List Nat := []                 -- outstanding per node id
  chan : List Nat := []                -- channel state per node id
  reqs : List (Nat × Bool) := []       -- dispatch ↦ (node id, completed)
  wantClosed : List Nat := []          -- expected number of Close() calls per node id
  prev : Option Obs := none            -- previous observation (to know who was marked down)
  deriving Repr

def A0.outOf (a : A0) (id : Nat) : Nat := a.out.getD id 0
def A0.chanOf (a : A0) (id : Nat) : Nat := a.chan.getD id 4
def A0.isMember (a : A0) (id : Nat) : Bool := a.members.any (·.1 == id)
def A0.openMembers (a : A0) : List Nat := (a.members.map (·.1)).filter (fun id => a.chanOf id == chOpen)

/-- was node `id` marked down (penalised) in observation `o`? -/
def penalisedIn (o : Obs) (id : Nat) : Bool :=
  (o.heap ++ o.off).any (fun v => v.id == id && decide (v.load ≥ 0))

/-- load the balancer attributes to a node: distance from its base (Idle, or 0 when penalised) -/
def relLoad (v : NodeView) : Int := if v.load ≥ 0 then v.load else v.load - Idle

/-- C03 verdict for a `get` in abstract state `a` (before the dispatch is counted) -/
def c03Get (a : A0) (idx : Nat) (res : Option GetRes) : Verdict :=
  match res with
  | some .noMembers =>
    if a.members.isEmpty then .ok else .fail "nomembers-with-members" [V.ofNat idx]
  | some (.node id _ _) =>
    if a.members.isEmpty then .fail "dispatch-without-members" [V.ofNat idx]
    else if !a.isMember id then .fail "dispatch-to-non-member" [V.ofNat idx, V.ofNat id]
    else
      let opens := a.openMembers
      if opens.isEmpty then .ok
      else if a.chanOf id != chOpen then .fail "not-open-chosen" [V.ofNat idx, V.ofNat id]
      else if opens.all (fun m => decide (a.outOf id ≤ a.outOf m)) then .ok
      else .fail "not-least-loaded" [V.ofNat idx, V.ofNat id, V.ofNat (a.outOf id)]
  | none => .fail "get-without-result" [V.ofNat idx]

/-- C04 verdict for an observation in abstract state `a` (after the operation) -/
def c04Obs (a : A0) (idx : Nat) (o : Obs) : Verdict :=
  let views := o.heap ++ o.off
  let loadOk := views.all (fun v => decide (relLoad v = (a.outOf v.id : Int)) && decide (v.load ≥ Idle))
  let closeOk := views.all (fun v => v.closed == a.wantClosed.getD v.id 0)
  if !loadOk then .fail "load-not-conserved" [V.ofNat idx]
  else if !closeOk then .fail "close-discipline" [V.ofNat idx]
  else .ok

def bump (l : List Nat) (i : Nat) (f : Nat → Nat) : List Nat := l.set i (f (l.getD i 0))

/-- abstract transition for an operation whose observation was `o` -/
def A0.after (a : A0) (op : Op) (o : Obs) : A0 :=
  let a' : A0 :=
    match op with
    | .join ep =>
      if a.members.any (·.2 == ep) then a
      else { a with members := a.members ++ [(a.nextId, ep)], nextId := a.nextId + 1,
                    out := a.out ++ [0], chan := a.chan ++ [1], wantClosed := a.wantClosed ++ [0] }
    | .leave ep =>
      match a.members.find? (·.2 == ep) with
      | none => a
      | some (id, _) =>
        let down := match a.prev with
          | some p => penalisedIn p id
          | none => false
        let now := a.outOf id == 0 || down
        { a with members := a.members.filter (·.2 != ep),
                 wantClosed := if now then bump a.wantClosed id (· + 1) else a.wantClosed }
    | .get =>
      match o.res with
      | some (.node id _ _) => { a with out := bump a.out id (· + 1), reqs := a.reqs ++ [(id, false)] }
      | _ => a
    | .put r _ =>
      match a.reqs[r]? with
      | some (id, false) =>
        let out' := bump a.out id (· - 1)
        let drained := !a.isMember id && out'.getD id 0 == 0 && a.wantClosed.getD id 0 == 0
        { a with out := out', reqs := a.reqs.set r (id, true),
                 wantClosed := if drained then bump a.wantClosed id (· + 1) else a.wantClosed }
      | _ => a
    | .chan nid st => { a with chan := a.chan.set nid st }
  { a' with prev := some o }

def specGo (which : Nat) (a : A0) (idx : Nat) : List (Op × Obs) → Verdict
  | [] => .ok
  | (op, o) :: rest =>
    let here : Verdict :=
      if which = 3 then (match op with | .get => c03Get a idx o.res | _ => .ok)
      else .ok
    let a' := a.after op o
    let here4 : Verdict := if which = 4 then c04Obs a' idx o else .ok
    here.and (fun _ => here4.and (fun _ => specGo which a' (idx + 1) rest))

def specC03 (_ : Unit) (h : List (Op × Obs)) : Verdict := specGo 3 {} 0 h
def specC04 (_ : Unit) (h : List (Op × Obs)) : Verdict := specGo 4 {} 0 h

/-- legality of an operation list: `put` names an existing dispatch, `chan` an existing node,
    the recorded `randint` is in range when one is drawn -/
def opsOk (s : HS) : List Op → Bool
  | [] => true
  | op :: ops =>
    let ok := match op with
      | .put r j =>
        (match s.reqs[r]? with
         | some (nid, false) => if s.putDraws nid then decide (1 ≤ j ∧ j ≤ s.size) else j == 0
         | some (_, true) => true
         | none => false)
      | .chan nid st => decide (nid < s.nodes.length) && decide (1 ≤ st ∧ st ≤ 4)
      | _ => true
    ok && opsOk (step () s op).1 ops

/-- number of dispatches in an operation list -/
def getCount : List Op → Nat
  | [] => 0
  | .get :: ops => getCount ops + 1
  | _ :: ops => getCount ops

/-- hypotheses of the property theorems on an operation list: the operations are legal and
    there are fewer than 2^31−1 dispatches (a load ≥ 0 then always means "marked down") -/
def wfOps (ops : List Op) : Bool := opsOk HS.init ops && decide (getCount ops < 2147483647)

def comp (which : Nat) : TComp Unit HS Op Obs where
  decCfg := fun _ => some ()
  init := fun _ => HS.init
  decOp := decOp
  step := step
  encObs := encObs
  decObs := decObs
  spec := if which = 3 then specC03 else specC04
  wf := fun _ ops => wfOps ops

end Scales.Heap
