/-
  Adapter/ApertureHeap.lean — C03/C04 decided on the balancers that *inherit* `HeapBalancerSink.__Get` /
  `__Put` (components `aperture3`, `aperture4`): same configuration, state, operations and observations as
  the C05/C06 components (Adapter/LB.lean: Model/LBBase.lean over Model/Aperture.lean over Model/Heap.lean);
  only the executable specification differs.  Import-free.

  What the judge knows (`A3`), all of it rebuilt from the history:
  * the members the balancer is using when an operation starts: the node ids in the heap part of the
    previous observation (for the aperture balancer: its aperture);
  * every node id created so far (heap and off-heap part of the previous observation);
  * per dispatch, the node it went to and whether it has completed (results `node id _ d` open dispatch
    `d`, operation `put d` completes it): the number of requests outstanding per member.  A request that
    waited for the balancer's open result and whose deadline passed meanwhile (the history contains its
    `expire`: the timeout sink has handed its caller the TimeoutError) has completed before the open result
    did; should it be dispatched all the same, the dispatch is that of a completed request and is entered
    as completed — it is never outstanding;
  * the requests waiting for the open result, rebuilt as C12's gate clauses rebuild them (`gateArrive`,
    `gateNext`, Adapter/LB.lean);
  * the channel state of every node: Idle (1) when created, afterwards whatever the `chan` operations set.
-/
import ScalesModel.Adapter.LB
namespace Scales.LB
open Scales.Heap Scales.Aperture Scales.LBBase

structure A3 where
  heap : List Nat := []
  known : List Nat := []
  reqs : List (Nat × Bool) := []
  /-- channel state changes, newest first -/
  chans : List (Nat × Nat) := []
  /-- the requests waiting for the open result, oldest first (`none` no deadline event, `some b` a deadline
      event, `b`: the deadline has passed) -/
  q : List (Option Bool) := []
  deriving Repr

def A3.chanOf (a : A3) (id : Nat) : Nat :=
  match a.chans.find? (fun p => p.1 == id) with
  | some p => p.2
  | none => 1

/-- requests dispatched to node `id` that have not completed -/
def outCnt (reqs : List (Nat × Bool)) (id : Nat) : Nat :=
  (reqs.filter (fun r => decide (r.1 = id) && !r.2)).length

def A3.isOpen (a : A3) (id : Nat) : Bool := a.chanOf id == chOpen

/-- the members in use whose channel is open -/
def A3.opens (a : A3) : List Nat := a.heap.filter a.isOpen

/-- C03 for one dispatch result, `a` the judge's state when the request arrived.
    * a no-members answer: only when the balancer is using no member;
    * a member: it is one the balancer is using — in `a.heap`, or created while the request was being
      dispatched (a mark-down inside `__Get` makes the aperture take in another member; such a member's
      channel is not open yet);
    * if some member in use is open, the chosen one is open and no open member in use has fewer
      requests outstanding. -/
def c03Dispatch (a : A3) (idx : Nat) : ResV → Verdict
  | .noMembers => if a.heap.isEmpty then .ok else .fail "nomembers-with-members" [V.ofNat idx]
  | .node id _ _ =>
    if !a.heap.contains id && a.known.contains id then .fail "dispatch-to-non-member" [V.ofNat idx, V.ofNat id]
    else if a.opens.isEmpty then .ok
    else if !(a.heap.contains id && a.isOpen id) then .fail "not-open-chosen" [V.ofNat idx, V.ofNat id]
    else if a.opens.all (fun m => decide (outCnt a.reqs id ≤ outCnt a.reqs m)) then .ok
    else .fail "not-least-loaded" [V.ofNat idx, V.ofNat id, V.ofNat (outCnt a.reqs id)]
  | _ => .ok

/-- the dispatch C03 is decided on at this step: the request of a `get`/`getd` operation that was served at
    once (it is reported first).  Requests that waited for the open result are dispatched after the hub has
    run, in a state no observation shows; they are not judged here (C12's gate clauses cover them). -/
def judged (op : Op) (o : Obs) : Option ResV :=
  match op with
  | .get _ => if o.res.contains .queued then none else o.res.head?
  | .getd _ => if o.res.contains .queued then none else o.res.head?
  | _ => none

def c03Step (a : A3) (idx : Nat) (op : Op) (o : Obs) : Verdict :=
  match judged op o with
  | some r => c03Dispatch a idx r
  | none => .ok

def newReqs (rs : List ResV) : List (Nat × Bool) :=
  rs.filterMap (fun r => match r with | .node id _ _ => some (id, false) | _ => none)

/-- the dispatches opened by `rs`, what became of the waiting requests `q` (oldest first, paired in order)
    when the open result completed.  A request whose deadline had passed while it waited (`some true`) has
    completed — by timeout — before it was dispatched: its dispatch is entered as completed. -/
def lateReqs : List (Option Bool) → List ResV → List (Nat × Bool)
  | e :: q, r :: rs =>
    (match r with
     | .node id _ _ => [(id, !live e)]
     | _ => []) ++ lateReqs q rs
  | _, rs => newReqs rs

/-- the dispatches opened by the results of observation `o`; `q` the requests waiting for the open result
    once the operation's own request has arrived.  The observation that reports nothing waiting any more is
    the one in which the open result completed (as in `gateAt`): its results, in order, are what became of
    the waiting requests. -/
def newReqsQ (q : List (Option Bool)) (o : Obs) : List (Nat × Bool) :=
  if o.queued == 0 && !q.isEmpty then lateReqs q o.flushed else newReqs o.res

def reqsPut (reqs : List (Nat × Bool)) : Op → List (Nat × Bool)
  | .put r _ _ =>
    (match reqs[r]? with
     | some (id, false) => reqs.set r (id, true)
     | _ => reqs)
  | _ => reqs

def chansAfter (a : A3) : Op → List (Nat × Nat)
  | .chan nid st => if a.known.contains nid && decide (1 ≤ st ∧ st ≤ 4) then (nid, st) :: a.chans else a.chans
  | _ => a.chans

def A3.after (a : A3) (op : Op) (o : Obs) : A3 :=
  { heap := o.heap.map (·.id)
    known := o.heap.map (·.id) ++ o.off.map (·.id)
    reqs := reqsPut a.reqs op ++ newReqsQ (gateArrive a.q op o) o
    chans := chansAfter a op
    q := gateNext (gateArrive a.q op o) o }

def specC03AGo (a : A3) (idx : Nat) : List (Op × Obs) → Verdict
  | [] => .ok
  | (op, o) :: rest => (c03Step a idx op o).and (fun _ => specC03AGo (a.after op o) (idx + 1) rest)

def specC03A (_ : Cfg) (h : List (Op × Obs)) : Verdict := specC03AGo {} 0 h

/-! ### C04 on the same observations

  After every operation: the load the balancer attributes to a node — its distance from Idle, or from 0
  while it is marked down — is the number of requests dispatched to it that have not completed, and the
  load is never below Idle.  "However they complete (reply, error, timeout, …)": a request that timed out
  while it waited for the balancer's open result has completed; if the balancer dispatches it afterwards
  it is not outstanding (`newReqsQ`), so the member's load must not include it — the clause is named
  `load-booked-for-completed-request` when the surplus is exactly the number of such dispatches of the
  observation, `load-not-conserved` otherwise; a node the balancer is using has not been closed; a node that has left the
  heap (server-set leave or aperture contraction) has been closed exactly once if it has drained or was
  marked down when it left, and not at all while requests are outstanding on it. -/

def relLoadNV (v : NV) : Int := if v.load ≥ 0 then v.load else v.load - Idle

def c04View (reqs : List (Nat × Bool)) (inHeap : Bool) (v : NV) : Bool :=
  decide (relLoadNV v = (outCnt reqs v.id : Int)) && decide (v.load ≥ Idle) &&
    (if inHeap then v.closed == 0
     else v.closed == (if outCnt reqs v.id = 0 ∨ v.load ≥ 0 then 1 else 0))

/-- the name of the failed load clause for node `v`; `late`: the nodes that were handed a request that had
    already completed, in this observation (one entry per such dispatch) -/
def loadClause (late : List Nat) (reqs : List (Nat × Bool)) (v : NV) : String :=
  if late.contains v.id && decide (relLoadNV v = (outCnt reqs v.id : Int) + (late.count v.id : Nat)) then
    "load-booked-for-completed-request"
  else "load-not-conserved"

def c04AAt (late : List Nat) (reqs : List (Nat × Bool)) (idx : Nat) (o : Obs) : Verdict :=
  match o.heap.find? (fun v => !c04View reqs true v) with
  | some v =>
    if decide (relLoadNV v = (outCnt reqs v.id : Int)) && decide (v.load ≥ Idle) then
      .fail "member-in-use-closed" [V.ofNat idx, V.ofNat v.id]
    else .fail (loadClause late reqs v) [V.ofNat idx, V.ofNat v.id]
  | none =>
    match o.off.find? (fun v => !c04View reqs false v) with
    | some v =>
      if decide (relLoadNV v = (outCnt reqs v.id : Int)) && decide (v.load ≥ Idle) then
        .fail "close-discipline" [V.ofNat idx, V.ofNat v.id, V.ofNat v.closed]
      else .fail (loadClause late reqs v) [V.ofNat idx, V.ofNat v.id]
    | none => .ok

/-- the nodes of the dispatches that were entered as completed -/
def lateIds (new : List (Nat × Bool)) : List Nat := (new.filter (·.2)).map (·.1)

def specC04AGo (reqs : List (Nat × Bool)) (q : List (Option Bool)) (idx : Nat) : List (Op × Obs) → Verdict
  | [] => .ok
  | (op, o) :: rest =>
    let q' := gateArrive q op o
    let new := newReqsQ q' o
    let reqs' := reqsPut reqs op ++ new
    (c04AAt (lateIds new) reqs' idx o).and (fun _ => specC04AGo reqs' (gateNext q' o) (idx + 1) rest)

def specC04A (_ : Cfg) (h : List (Op × Obs)) : Verdict := specC04AGo [] [] 0 h

/-! ### hypotheses -/

/-- the hypotheses of C05/C06 (`wf`: protocol order, every recorded choice legal) and fewer than 2^31−1
    dispatches in the history (a load ≥ 0 then always means "marked down") -/
def wfH (cfg : Cfg) (ops : List Op) : Bool :=
  wf cfg ops && decide ((runSt cfg (init cfg) ops).sub.hs.reqs.length < 2147483647)

/-- component `aperture3` (C03 on the aperture / heap balancer behind base.py's gate) -/
def comp3A : TComp Cfg St Op Obs := { comp5 with spec := specC03A, wf := wfH }

/-- component `aperture4` (C04 on the same) -/
def comp4A : TComp Cfg St Op Obs := { comp5 with spec := specC04A, wf := wfH }

end Scales.LB
