/-
  Adapter/ResMux.lean — C09, component `resmux`: line-protocol face of Model/ResMux.lean (the chain
  ResurrectorSink → ThriftMux SocketTransportSink, observed at quiescence after every operation)
  and the executable specification of C09 for this chain.  Import-free.

  cfg:  <init µs> <max µs> ( w0 w1 … ) <ping period µs>
  ops:  open | req <id> | wr ok/raise | rd <o> <frame> | burst ( (<o> <frame>) … ) | race <frame> <o>
        | tick <d> | reach up/down | close
        frame: rping | junk | (reply <id>)
  obs:  ( next down state rg conns live dels sent ups made tstate inflight timer )
-/
import ScalesModel.Core.Run
import ScalesModel.Model.ResMux
import ScalesModel.Adapter.Resurrector
import ScalesModel.Adapter.MuxT
namespace Scales.ResMux
open Scales.Transport
open Scales.MuxT (Frame Item)

structure Cfg where
  init : Nat
  maxW : Nat
  table : List Nat
  period : Nat
  deriving Repr, DecidableEq

def Cfg.res (c : Cfg) : Res.Cfg := ⟨c.init, c.maxW, c.table⟩
def Cfg.par (c : Cfg) : P := ⟨c.res.par, c.period⟩

/-- the shipped defaults: 5 s, 60 s, exponent 1.2; ping every 30–40 s -/
def defaultCfg : Cfg := ⟨5000000, 60000000, Res.defaultCfg.table, 30000000⟩

/-- a frame as the script names it: replies name the request they answer -/
inductive Fr where
  | rping
  | junk
  | reply (id : Nat)
  deriving Repr, DecidableEq

def Fr.toFrame : Fr → Frame
  | .rping => .rping
  | .junk => .junk
  | .reply id => .reply (tagOf id)

inductive Op where
  | opn
  | req (id : Nat)
  | wr (o : IOOut)
  | rd (o : IOOut) (f : Fr)
  | burst (rs : List (IOOut × Fr))
  | race (f : Fr) (o : IOOut)
  | tick (d : Nat)
  | reach (up : Bool)
  | close
  deriving Repr, DecidableEq

def toReads (rs : List (IOOut × Fr)) : List (IOOut × Frame) := rs.map (fun r => (r.1, r.2.toFrame))

def stepSt (p : P) (s : St) : Op → St × Out
  | .opn => doOpen p s
  | .req id => doReq p s id
  | .wr o => doWr p s o
  | .rd o f => doBurst p s [(o, f.toFrame)]
  | .burst rs => doBurst p s (toReads rs)
  | .race f o => doRace p s f.toFrame o
  | .tick d => doTick p s d
  | .reach up => ({ s with reach := up }, {})
  | .close => doClose p s

inductive RGView where
  | none | sleep (w : Nat) | opening
  deriving Repr, DecidableEq

structure Obs where
  next : Option Nat
  down : Bool
  state : CS
  rg : RGView
  conns : Nat
  live : Nat
  dels : List (Nat × RK)
  sent : List (Option Nat)        -- `none`: a ping; `some id`: the frame of request `id`
  ups : Nat
  made : Nat
  tstate : CS
  inflight : List Nat
  timer : Option Nat
  deriving Repr, DecidableEq

def rgView : RG → RGView
  | .none => .none
  | .sleep _ w => .sleep w
  | .opening _ => .opening

def itemView : Item → Option Nat
  | .ping => none
  | .req _ id => some id

def obsOf (s : St) (o : Out) : Obs :=
  { next := if s.inst then some (s.made - 1) else none
    down := s.down
    state := stateOf s
    rg := rgView s.rg
    conns := o.conns
    live := live s.tr
    dels := o.dels
    sent := o.sent.map itemView
    ups := s.ups
    made := s.made
    tstate := s.tr.cstate
    inflight := s.tr.tagMap.map (·.2)
    timer := (nextTimer s).map (· - s.now) }

def step (c : Cfg) (s : St) (op : Op) : St × Obs :=
  let r := stepSt c.par s op
  (r.1, obsOf r.1 r.2)

/-! ### codecs -/

def decCfg : List V → Option Cfg
  | [i, m, t, q] => do pure ⟨← i.nat?, ← m.nat?, ← t.natList?, ← q.nat?⟩
  | _ => none

def decFr : V → Option Fr
  | .a "rping" => some .rping
  | .a "junk" => some .junk
  | .l [.a "reply", i] => do pure (.reply (← i.nat?))
  | _ => none

def decRead : V → Option (IOOut × Fr)
  | .l [o, f] => do pure (← decIO o, ← decFr f)
  | _ => none

def decOp : List V → Option Op
  | [.a "open"] => some .opn
  | [.a "req", i] => do pure (.req (← i.nat?))
  | [.a "wr", o] => do pure (.wr (← decIO o))
  | [.a "rd", o, f] => do pure (.rd (← decIO o) (← decFr f))
  | [.a "burst", .l rs] => do pure (.burst (← rs.mapM decRead))
  | [.a "race", f, o] => do pure (.race (← decFr f) (← decIO o))
  | [.a "tick", d] => do pure (.tick (← d.nat?))
  | [.a "reach", .a "up"] => some (.reach true)
  | [.a "reach", .a "down"] => some (.reach false)
  | [.a "close"] => some .close
  | _ => none

def encRK : RK → V
  | .ff => .a "ff"
  | .stream => .a "stream"
  | .cerr => .a "cerr"
  | .other => .a "other"

def decRK : V → Option RK
  | .a "ff" => some .ff
  | .a "stream" => some .stream
  | .a "cerr" => some .cerr
  | .a "other" => some .other
  | _ => none

def encRG : RGView → V
  | .none => .a "none"
  | .sleep w => .l [.a "sleep", V.ofNat w]
  | .opening => .a "opening"

def decRG : V → Option RGView
  | .a "none" => some .none
  | .l [.a "sleep", w] => do pure (.sleep (← w.nat?))
  | .a "opening" => some .opening
  | _ => none

def encSent : Option Nat → V
  | none => .a "ping"
  | some id => V.ofNat id

def decSent : V → Option (Option Nat)
  | .a "ping" => some none
  | v => do pure (some (← v.nat?))

def encDel (d : Nat × RK) : V := .l [V.ofNat d.1, encRK d.2]

def decDel : V → Option (Nat × RK)
  | .l [i, k] => do pure (← i.nat?, ← decRK k)
  | _ => none

/-- insertion sort by a key (the harness lists sets in ascending order) -/
def insBy {α : Type} (key : α → Nat) (x : α) : List α → List α
  | [] => [x]
  | y :: r => if key x ≤ key y then x :: y :: r else y :: insBy key x r

def sortBy {α : Type} (key : α → Nat) (l : List α) : List α := l.foldr (insBy key) []

def encObs (o : Obs) : V :=
  .l [Res.encOptNat o.next, V.ofBool o.down, encCS o.state, encRG o.rg, V.ofNat o.conns, V.ofNat o.live,
      .l ((sortBy (·.1) o.dels).map encDel), .l (o.sent.map encSent), V.ofNat o.ups, V.ofNat o.made,
      encCS o.tstate, V.ofNats (sortBy id o.inflight), Res.encOptNat o.timer]

def decObs : V → Option Obs
  | .l [n, d, st, rg, cn, lv, .l ds, .l sent, ups, made, ts, infl, tm] => do
    pure ⟨← Res.decOptNat n, ← d.bool?, ← decCS st, ← decRG rg, ← cn.nat?, ← lv.nat?, ← ds.mapM decDel,
          ← sent.mapM decSent, ← ups.nat?, ← made.nat?, ← decCS ts, ← infl.natList?, ← Res.decOptNat tm⟩
  | _ => none

/-! ### specification over a history

  What C09 demands of this chain, judged from the environment's inputs (the operations: the
  endpoint's reachability at each connect, the outcome of each write and read on the connection,
  the frames the peer sends, the clock, traffic, `Close()`) and from what can be seen of the client
  at the endpoint and by its callers (connect attempts, connections held open, the answer to each
  request) — nothing of the client's internal state.

  The connection, as the peer sees it: absent; established with the opening handshake (Tping /
  Rping) still in progress; or established and the handshake's Rping delivered.  It ends when a
  write or read on it fails or meets end-of-stream, or when the client closes it.

  * `failfast`       while the connection is down — it ended, or a connect was refused, and no
                     reconnection attempt is in progress — every request is answered FailedFast
                     within the operation that issues it and causes no connect;
  * `backoff-…`      while down, the delay before each reconnection attempt, counted from the end
                     of the previous one (refusal, or the end of its connection), is at most the
                     maximum and larger than the delay before the previous attempt (equal once at
                     the maximum); an attempt whose handshake was answered and whose connection
                     was lost in the same operation may be counted either way;
  * `not-recovered`  a request is still failed fast although the endpoint has accepted
                     connections, and no attempt has been in progress, for a full maximum interval;
  * `not-resumed`    once a (re)connection's handshake has been answered, requests are accepted:
                     none is answered with an error on the spot;
  * `connect-after-close`  no connect attempt after `Close()`.

  A history in which the client opens a second connection while it holds one is not judged
  further (`blind`): the property says nothing about it. -/

/-- the connection as the peer sees it -/
inductive CP where
  | none | hs | up
  deriving Repr, DecidableEq

structure MS where
  now : Nat := 0
  reach : Bool := true
  reachSince : Nat := 0
  closed : Bool := false
  blind : Bool := false
  conn : CP := .none
  atBody : Bool := false          -- the next read on the connection is that of a frame's body
  down : Bool := false            -- the connection ended / a connect was refused; no handshake completed since
  lastEnd : Nat := 0              -- when that happened / when the last failed attempt ended
  lastDelay : Option Nat := none  -- the delay before the last attempt of this down period
  deriving Repr, DecidableEq

/-- the reads of one operation as the peer sees them: frames delivered completely, position
    afterwards, whether one of them failed (the reads behind it do not happen) -/
def readsGo : Bool → List (IOOut × Frame) → List Frame → List Frame × Bool × Bool
  | atBody, [], acc => (acc, atBody, false)
  | atBody, (o, f) :: rest, acc =>
    if o = .ok then (if atBody then readsGo false rest (acc ++ [f]) else readsGo true rest acc)
    else (acc, atBody, true)

/-- the connection ended -/
def lost (a : MS) : MS :=
  { a with conn := .none, atBody := false, down := true, lastEnd := a.now,
           lastDelay := if a.down then a.lastDelay else none }

def readsEffect (a : MS) (rs : List (IOOut × Frame)) : MS :=
  if a.conn = .none then a
  else
    let r := readsGo a.atBody rs []
    if r.2.2 then
      -- a read failed.  If the handshake's Rping had been delivered just before, the peer has seen the
      -- reconnection succeed and then lose its connection: whether the client counts this as a failed
      -- attempt (and keeps backing off) or as a new down period (and starts over) is left to it.
      if a.conn = .hs ∧ r.1.contains .rping then { lost a with lastDelay := none } else lost a
    else if a.conn = .hs ∧ r.1.contains .rping then
      { a with atBody := r.2.1, conn := .up, down := false, lastDelay := none }
    else { a with atBody := r.2.1 }

/-- what the environment did to the connection in this operation -/
def envStep (a : MS) : Op → MS
  | .wr o => if o ≠ .ok ∧ a.conn ≠ .none then lost a else a
  | .rd o f => readsEffect a [(o, f.toFrame)]
  | .burst rs => readsEffect a (toReads rs)
  | .race f o => readsEffect a [(.ok, f.toFrame), (o, .junk)]
  | .tick d => { a with now := a.now + d }
  | _ => a

/-- the connect attempts of this operation -/
def connStep (c : Cfg) (a : MS) (idx k : Nat) : Verdict × MS :=
  if k = 0 then (.ok, a)
  else if a.conn ≠ .none then (.ok, { a with blind := true })
  else if a.down then
    let delay := a.now - a.lastEnd
    if 2 ≤ k then (.fail "backoff-not-growing" [V.ofNat idx, V.ofNat 0], a)
    else if c.maxW < delay then (.fail "backoff-above-max" [V.ofNat idx, V.ofNat delay], a)
    else if (match a.lastDelay with
             | some p => decide (delay < p) || (decide (delay = p) && decide (p < c.maxW))
             | none => false) then
      (.fail "backoff-not-growing" [V.ofNat idx, V.ofNat delay], a)
    else if a.reach then (.ok, { a with conn := .hs, atBody := false, lastDelay := some delay })
    else (.ok, { a with lastEnd := a.now, lastDelay := some delay })
  else if 2 ≤ k then (.ok, { a with blind := true })
  else if a.reach then (.ok, { a with conn := .hs, atBody := false })
  else (.ok, { a with down := true, lastEnd := a.now, lastDelay := none })

/-- the client holds no connection any more -/
def liveStep (a : MS) (live : Nat) : MS :=
  if a.conn ≠ .none ∧ live = 0 then lost a else a

/-- the request issued by this operation, judged against the state before it -/
def reqStep (c : Cfg) (a : MS) (idx id : Nat) (o : Obs) : Verdict :=
  if a.down = true ∧ a.conn = .none then
    if !(o.dels.contains (id, RK.ff)) || decide (0 < o.conns) then
      .fail "failfast" [V.ofNat idx, V.ofNat id, V.ofNat o.conns]
    else if a.reach = true ∧ max a.reachSince a.lastEnd + c.maxW ≤ a.now then
      .fail "not-recovered" [V.ofNat idx, V.ofNat a.now, V.ofNat (max a.reachSince a.lastEnd)]
    else .ok
  else if a.conn = .up then
    if o.dels.any (fun d => d.1 == id) then .fail "not-resumed" [V.ofNat idx, V.ofNat id] else .ok
  else .ok

def opReq (c : Cfg) (a : MS) (idx : Nat) (op : Op) (o : Obs) : Verdict :=
  match op with
  | .req id => reqStep c a idx id o
  | _ => .ok

def opEnd (a : MS) : Op → MS
  | .reach b => { a with reach := b, reachSince := a.now }
  | .close => { a with closed := true }
  | _ => a

def specStep (c : Cfg) (a : MS) (idx : Nat) (op : Op) (o : Obs) : Verdict × MS :=
  if a.closed then
    if 0 < o.conns then (.fail "connect-after-close" [V.ofNat idx, V.ofNat o.conns], a) else (.ok, a)
  else if a.blind then (.ok, a)
  else
    match opReq c a idx op o with
    | .ok =>
      match connStep c (envStep a op) idx o.conns with
      | (.ok, a2) => (.ok, opEnd (liveStep a2 o.live) op)
      | (f, _) => (f, a)
    | f => (f, a)

def specGo (c : Cfg) (a : MS) (idx : Nat) : List (Op × Obs) → Verdict
  | [] => .ok
  | (op, o) :: rest =>
    match specStep c a idx op o with
    | (.ok, a') => specGo c a' (idx + 1) rest
    | (f, _) => f

def spec (c : Cfg) (h : List (Op × Obs)) : Verdict := specGo c {} 0 h

/-! ### hypotheses

  `Open()` is called once, first of the balancer's calls, and not after `Close()`; `Close()` once,
  after `Open()`; request ids are fresh; `wr` / `rd` / `burst` / `race` stand for the return of a
  blocked I/O call and are only meaningful when the newest transport has a greenlet blocked there
  (`race`: in a body read, and the read behind it fails); the clock moves by a positive amount and
  never past an instant at which something of the chain is due (the harness splits ticks there). -/

def isWriting : MuxT.SL → Bool
  | .writing _ => true
  | _ => false

def opOk (s : St) (opened closed : Bool) (seen : List Nat) : Op → Bool
  | .opn => !opened && !closed
  | .close => opened && !closed
  | .req id => !seen.contains id
  | .wr o => isWriting s.tr.sl && decide (o ≠ .eof)
  | .rd _ _ => decide (s.tr.rl ≠ .dead)
  | .burst _ => decide (s.tr.rl ≠ .dead)
  | .race _ o => decide (s.tr.rl = .body) && decide (o ≠ .ok)
  | .tick d =>
    decide (0 < d) &&
    (match nextTimer s with
     | some t => decide (s.now + d ≤ t)
     | none => true)
  | .reach _ => true

def isOpn : Op → Bool
  | .opn => true
  | _ => false

def isClose : Op → Bool
  | .close => true
  | _ => false

def seenAfter (op : Op) (seen : List Nat) : List Nat :=
  match op with
  | .req id => id :: seen
  | _ => seen

def wfGo (p : P) (s : St) (opened closed : Bool) (seen : List Nat) : List Op → Bool
  | [] => true
  | op :: ops =>
    opOk s opened closed seen op &&
    wfGo p (stepSt p s op).1 (opened || isOpn op) (closed || isClose op) (seenAfter op seen) ops

def cfgWF (c : Cfg) : Bool := Res.cfgWF c.res && decide (0 < c.period)

def comp : TComp Cfg St Op Obs where
  decCfg := decCfg
  init := fun _ => {}
  decOp := decOp
  step := step
  encObs := encObs
  decObs := decObs
  spec := spec
  wf := fun c ops => cfgWF c && wfGo c.par {} false false [] ops

end Scales.ResMux
