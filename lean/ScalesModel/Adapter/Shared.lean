/-
  Adapter/Shared.lean — C16: line-protocol faces of Model/Shared.lean (components `singleton`,
  `refcount`, `sharedprov`) and the executable specifications over histories.  Import-free.

  Sink ids on the wire are 1-based (creation order); 0 stands for "no sink".
-/
import ScalesModel.Core.Run
import ScalesModel.Model.Shared
namespace Scales.Shared

/-! ## singleton -/

/-- what the provider and the sinks saw of one sink: state, Open() calls, Close() calls -/
abbrev SinkView := SSt × Nat × Nat

structure SObs where
  sinks : List SinkView        -- every sink created so far
  next : Nat                   -- id of `pool.next_sink`, 0 = None
  rc : Int                     -- `pool._ref_count`
  fwd : List (Nat × Nat)       -- requests handed over in this step: (request, sink id); id 0 =
                               -- the request left the pool without being handed to any sink
  deriving Repr, DecidableEq

def snap (p : Pool) : List SinkView := p.sinks.map (fun s => (s.st, s.opens, s.closes))

/-- sink ids on the wire: index + 1, 0 = None -/
def encTgt : Option Nat → Nat
  | some k => k + 1
  | none => 0

def sobs (p : Pool) (f : List Fwd) : SObs :=
  ⟨snap p, encTgt p.next, p.rc, f.map (fun x => (x.1, encTgt x.2))⟩

def sstep (_ : Unit) (p : Pool) (op : SOp) : Pool × SObs :=
  let r := p.step op
  (r.1, sobs r.1 r.2)

/-! ### specification of the singleton pool over a history -/

def liveN (l : List SinkView) : Nat := l.countP (fun x => x.1 != .closed)

/-- every sink other than the one at index `j` is closed -/
def othersClosed : List SinkView → Nat → Bool
  | [], _ => true
  | _ :: xs, 0 => xs.all (fun y => y.1 == .closed)
  | x :: xs, j + 1 => x.1 == .closed && othersClosed xs j

def lastOpened (l : List SinkView) : Bool :=
  match l.getLast? with
  | some x => decide (1 ≤ x.2.1)
  | none => false

def anyIdle (l : List SinkView) : Bool := l.any (fun x => x.1 == .idle)

structure SAcc where
  prev : List SinkView := []     -- the sinks as of the previous observation
  pend : List Nat := []          -- requests issued and not yet handed over
  deriving Repr

def isClose : SOp → Bool
  | .pclose => true
  | _ => false

/-- a hand-over is acceptable: the request was waiting, it went to a sink, and no other sink is
    live (it went to the one connection).  Tolerated, because the property is silent about it
    (it is a matter of C01, not of C16): a request that was waiting for the open when the pool's
    `Close()` closed the connection under it may be handed to nobody (sink id 0) — only in that
    very step, only for a request that was waiting, and only if no connection is left live. -/
def fwdOk (op : SOp) (pend : List Nat) (sinks : List SinkView) (f : Nat × Nat) : Bool :=
  pend.contains f.1 &&
  (if f.2 = 0 then isClose op && liveN sinks == 0
   else decide (f.2 ≤ sinks.length) && othersClosed sinks (f.2 - 1))

def pendAfter (a : SAcc) (op : SOp) : List Nat :=
  match op with
  | .req r => a.pend ++ [r]
  | _ => a.pend

def isReq : SOp → Bool
  | .req _ => true
  | _ => false

def specSObs (a : SAcc) (idx : Nat) (op : SOp) (o : SObs) : Verdict :=
  let pend1 := pendAfter a op
  let pend2 := pend1.filter (fun r => !(o.fwd.any (fun f => f.1 == r)))
  -- at most one underlying connection at a time
  if liveN o.sinks > 1 then .fail "one-live" [V.ofNat idx, V.ofNat (liveN o.sinks)]
  -- shares: no new connection while there is a live one
  else if a.prev.length < o.sinks.length && liveN a.prev > 0 then
    .fail "created-while-live" [V.ofNat idx, V.ofNat a.prev.length, V.ofNat o.sinks.length]
  -- replaces: a request finding no live connection creates and opens exactly one fresh sink
  else if isReq op && liveN a.prev == 0 &&
      !(o.sinks.length == a.prev.length + 1 && lastOpened o.sinks) then
    .fail "not-replaced" [V.ofNat idx, V.ofNat a.prev.length, V.ofNat o.sinks.length]
  else
    match o.fwd.find? (fun f => !fwdOk op pend1 o.sinks f) with
    | some f =>
      .fail (if f.2 == 0 then "request-dropped" else "forward-not-shared")
        [V.ofNat idx, V.ofNat f.1, V.ofNat f.2]
    | none =>
      -- shares: nobody keeps waiting once no connection is being opened any more
      if !anyIdle o.sinks && !pend2.isEmpty then .fail "request-stuck" [V.ofNat idx, V.ofNats pend2]
      else .ok

def SAcc.after (a : SAcc) (op : SOp) (o : SObs) : SAcc :=
  ⟨o.sinks, (pendAfter a op).filter (fun r => !(o.fwd.any (fun f => f.1 == r)))⟩

def specSGo (a : SAcc) (idx : Nat) : List (SOp × SObs) → Verdict
  | [] => .ok
  | (op, o) :: rest =>
    (specSObs a idx op o).and (fun _ => specSGo (a.after op o) (idx + 1) rest)

def specS (_ : Unit) (h : List (SOp × SObs)) : Verdict := specSGo {} 0 h

/-! ### codecs -/

def decSSt : V → Option SSt
  | .a "idle" => some .idle
  | .a "open" => some .opened
  | .a "closed" => some .closed
  | _ => none

def encSSt : SSt → V
  | .idle => .a "idle"
  | .opened => .a "open"
  | .closed => .a "closed"

def decId (v : V) : Option Nat :=
  match v.nat? with
  | some (k + 1) => some k
  | _ => none

def decSOp : List V → Option SOp
  | [.a "req", r] => do pure (.req (← r.nat?))
  | [.a "popen"] => some .popen
  | [.a "pclose"] => some .pclose
  | [.a "ok", k] => do pure (.ok (← decId k))
  | [.a "fail", k] => do pure (.fail (← decId k))
  | [.a "fault", k] => do pure (.fault (← decId k))
  | _ => none

def encView (x : SinkView) : V := .l [encSSt x.1, V.ofNat x.2.1, V.ofNat x.2.2]
def decView : V → Option SinkView
  | .l [s, o, c] => do pure (← decSSt s, ← o.nat?, ← c.nat?)
  | _ => none

def encPair (x : Nat × Nat) : V := .l [V.ofNat x.1, V.ofNat x.2]
def decPair : V → Option (Nat × Nat)
  | .l [a, b] => do pure (← a.nat?, ← b.nat?)
  | _ => none

def encSObs (o : SObs) : V :=
  .l [.l (o.sinks.map encView), V.ofNat o.next, .n o.rc, .l (o.fwd.map encPair)]
def decSObs : V → Option SObs
  | .l [.l ss, n, .n rc, .l fs] => do pure ⟨← ss.mapM decView, ← n.nat?, rc, ← fs.mapM decPair⟩
  | _ => none

def decUnit : List V → Option Unit
  | [] => some ()
  | _ => none

def singleton : TComp Unit Pool SOp SObs where
  decCfg := decUnit
  init := fun _ => {}
  decOp := decSOp
  step := sstep
  encObs := encSObs
  decObs := decSObs
  spec := specS
  wf := fun _ _ => true

/-! ## refcount -/

structure RObs where
  ret : Nat        -- Open: which underlying open result was returned (0 = None); else 0
  opens : Nat      -- Open() calls seen by the underlying sink so far
  closes : Nat     -- Close() calls seen by the underlying sink so far
  cnt : Int        -- `_ref_count`
  deriving Repr, DecidableEq

def rstep (_ : Bool) (s : RC) (op : ROp) : RC × RObs :=
  let r := s.step op
  (r.1, ⟨r.2, r.1.opens, r.1.closes, r.1.count⟩)

structure RAcc where
  n : Nat := 0       -- holders, by the property's reading of the history
  po : Nat := 0      -- underlying opens before this operation
  pc : Nat := 0      -- underlying closes before this operation
  deriving Repr

def RAcc.after (a : RAcc) (op : ROp) (o : RObs) : RAcc :=
  match op with
  | .ropen _ => ⟨a.n + 1, o.opens, o.closes⟩
  | .rclose _ => ⟨a.n - 1, o.opens, o.closes⟩
  | .rfault => ⟨a.n, o.opens, o.closes⟩

def specRObs (a : RAcc) (idx : Nat) (op : ROp) (o : RObs) : Verdict :=
  let ps := [V.ofNat idx, V.ofNat a.n, V.ofNat o.opens, V.ofNat o.closes]
  let v : Verdict :=
    match op with
    | .ropen _ =>
      if a.n = 0 ∧ o.opens ≠ a.po + 1 then .fail "first-open" ps
      else if a.n ≠ 0 ∧ o.opens ≠ a.po then .fail "shared-open" ps
      else if o.closes ≠ a.pc then .fail "open-closes" ps
      else if o.ret = 0 ∨ o.ret ≠ o.opens then .fail "open-result" (ps ++ [V.ofNat o.ret])
      else .ok
    | .rclose _ =>
      if o.opens ≠ a.po then .fail "close-opens" ps
      else if a.n = 0 ∧ o.closes ≠ a.pc then .fail "surplus-close" ps
      else if a.n = 1 ∧ o.closes ≠ a.pc + 1 then .fail "close-last" ps
      else if 1 < a.n ∧ o.closes ≠ a.pc then .fail "close-early" ps
      else .ok
    | .rfault =>
      if o.opens ≠ a.po ∨ o.closes ≠ a.pc then .fail "fault-touches" ps else .ok
  v.and (fun _ =>
    let n' := (a.after op o).n
    if o.opens = o.closes + (if 0 < n' then 1 else 0) then .ok else .fail "balance" ps)

def specRGo (a : RAcc) (idx : Nat) : List (ROp × RObs) → Verdict
  | [] => .ok
  | (op, o) :: rest =>
    (specRObs a idx op o).and (fun _ => specRGo (a.after op o) (idx + 1) rest)

def specR (_ : Bool) (h : List (ROp × RObs)) : Verdict := specRGo {} 0 h

def decROp : List V → Option ROp
  | [.a "ropen", h] => do pure (.ropen (← h.nat?))
  | [.a "rclose", h] => do pure (.rclose (← h.nat?))
  | [.a "rfault"] => some .rfault
  | _ => none

def encRObs (o : RObs) : V := .l [V.ofNat o.ret, V.ofNat o.opens, V.ofNat o.closes, .n o.cnt]
def decRObs : V → Option RObs
  | .l [r, o, c, .n k] => do pure ⟨← r.nat?, ← o.nat?, ← c.nat?, k⟩
  | _ => none

def decBoolCfg : List V → Option Bool
  | [b] => b.bool?
  | _ => none

def refcount : TComp Bool RC ROp RObs where
  decCfg := decBoolCfg
  init := fun _ => {}
  decOp := decROp
  step := rstep
  encObs := encRObs
  decObs := decRObs
  spec := specR
  wf := fun _ _ => true

/-! ## sharedprov -/

structure PObs where
  sink : Nat            -- id of the sink handed out (0 for drop)
  shared : Bool         -- it is a RefCountedSink wrapper
  created : Nat         -- CreateSink calls seen by the next provider so far
  keys : List Nat       -- keys of the live cache entries, in the cache's order
  deriving Repr, DecidableEq

def pstep (_ : Unit) (p : Prov) (op : POp) : Prov × PObs :=
  let r := p.step op
  (r.1, ⟨r.2, (match op with | .create _ key => key != 0 | .drop _ => false), r.1.created,
         r.1.cache.map (·.1)⟩)

/-- the spec's own book-keeping: who holds which sink, obtained under which key -/
structure PAcc where
  holds : List Hold := []
  deriving Repr

def PAcc.after (a : PAcc) (op : POp) (o : PObs) : PAcc :=
  match op with
  | .create h key => ⟨a.holds.filter (fun x => x.1 != h) ++ [(h, key, o.sink)]⟩
  | .drop h => ⟨a.holds.filter (fun x => x.1 != h)⟩

/-- the same sharing key yields the same sink for as long as any holder is alive -/
def specPObs (a : PAcc) (idx : Nat) (op : POp) (o : PObs) : Verdict :=
  match op with
  | .create _ key =>
    if key = 0 then .ok
    else match a.holds.find? (fun x => x.2.1 == key && x.2.2 != o.sink) with
      | some x => .fail "same-key" [V.ofNat idx, V.ofNat key, V.ofNat x.2.2, V.ofNat o.sink]
      | none => .ok
  | .drop _ => .ok

def specPGo (a : PAcc) (idx : Nat) : List (POp × PObs) → Verdict
  | [] => .ok
  | (op, o) :: rest =>
    (specPObs a idx op o).and (fun _ => specPGo (a.after op o) (idx + 1) rest)

def specP (_ : Unit) (h : List (POp × PObs)) : Verdict := specPGo {} 0 h

def decPOp : List V → Option POp
  | [.a "create", h, k] => do pure (.create (← h.nat?) (← k.nat?))
  | [.a "drop", h] => do pure (.drop (← h.nat?))
  | _ => none

def encPObs (o : PObs) : V := .l [V.ofNat o.sink, V.ofBool o.shared, V.ofNat o.created, V.ofNats o.keys]
def decPObs : V → Option PObs
  | .l [s, b, c, ks] => do pure ⟨← s.nat?, ← b.bool?, ← c.nat?, ← ks.natList?⟩
  | _ => none

def sharedprov : TComp Unit Prov POp PObs where
  decCfg := decUnit
  init := fun _ => {}
  decOp := decPOp
  step := pstep
  encObs := encPObs
  decObs := decPObs
  spec := specP
  wf := fun _ _ => true

end Scales.Shared
