/-
  Adapter/Shared.lean — C16: line-protocol faces of Model/Shared.lean (components `singleton`,
  `refcount`, `sharedprov`) and the executable specifications over histories.  Import-free.

  Sink ids on the wire are 1-based (creation order); 0 stands for "no sink".

  Every component is registered in its *guarded* form (`guarded`): the implementation's outcome
  of an operation is either an observation or `(raised <TypeName>)` — an exception that escaped
  the real code where the model predicts a normal outcome.  The model never raises; the
  specification judges a raised outcome as a failure (clause `raised`): an operation that ends
  in an exception did not share / open / close / hand out anything.
-/
import ScalesModel.Core.Run
import ScalesModel.Model.Shared
namespace Scales.Shared

/-! ## outcomes: an observation, or an exception that escaped the implementation -/

inductive Res (α : Type) where
  | val (x : α)
  | raised (what : String)
  deriving Repr, DecidableEq

/-- the observations before the first raised outcome -/
def valPrefix {Op Obs : Type} : List (Op × Res Obs) → List (Op × Obs)
  | (op, .val o) :: rest => (op, o) :: valPrefix rest
  | _ => []

/-- the first raised outcome: its position and the exception's type name -/
def firstRaised {Op Obs : Type} (idx : Nat) : List (Op × Res Obs) → Option (Nat × String)
  | [] => none
  | (_, .val _) :: rest => firstRaised (idx + 1) rest
  | (_, .raised w) :: _ => some (idx, w)

/-- a specification over observations, extended to outcomes: the history up to the first raised
    outcome must satisfy it, and no outcome may be an escaped exception -/
def guardSpec {Op Obs : Type} (spec : List (Op × Obs) → Verdict) (h : List (Op × Res Obs)) : Verdict :=
  (spec (valPrefix h)).and (fun _ =>
    match firstRaised 0 h with
    | some (i, w) => .fail "raised" [V.ofNat i, .a w]
    | none => .ok)

def encRes {Obs : Type} (enc : Obs → V) : Res Obs → V
  | .val o => enc o
  | .raised w => .l [.a "raised", .a w]

def decRes {Obs : Type} (dec : V → Option Obs) : V → Option (Res Obs)
  | .l [.a "raised", .a w] => some (.raised w)
  | v => (dec v).map .val

/-- the guarded form of a component: same model (it never raises), outcomes instead of
    observations on the wire and in the specification -/
def guarded {Cfg σ Op Obs : Type} (c : TComp Cfg σ Op Obs) : TComp Cfg σ Op (Res Obs) where
  decCfg := c.decCfg
  init := c.init
  decOp := c.decOp
  step := fun cfg s op => ((c.step cfg s op).1, .val (c.step cfg s op).2)
  encObs := encRes c.encObs
  decObs := decRes c.decObs
  spec := fun cfg h => guardSpec (c.spec cfg) h
  wf := c.wf

/-! ## singleton -/

/-- what the provider and the sinks saw of one sink: state, Open() calls, Close() calls -/
abbrev SinkView := SSt × Nat × Nat

structure SObs where
  sinks : List SinkView        -- every sink created so far
  next : Nat                   -- id of `pool.next_sink`, 0 = None
  rc : Int                     -- `pool._ref_count`
  fwd : List (Nat × Nat)       -- requests handed over in this step: (request, sink id); id 0 =
                               -- the request left the pool without being handed to any sink
  deriving Repr, DecidableEq

def snap (p : Pool) : List SinkView := p.sinks.map (fun s => (s.st, s.opens, s.closes))

/-- sink ids on the wire: index + 1, 0 = None -/
def encTgt : Option Nat → Nat
  | some k => k + 1
  | none => 0

def sobs (p : Pool) (f : List Fwd) : SObs :=
  ⟨snap p, encTgt p.next, p.rc, f.map (fun x => (x.1, encTgt x.2))⟩

def sstep (_ : Unit) (p : Pool) (op : SOp) : Pool × SObs :=
  let r := p.step op
  (r.1, sobs r.1 r.2)

/-! ### specification of the singleton pool over a history -/

def liveN (l : List SinkView) : Nat := l.countP (fun x => x.1 != .closed)

/-- every sink other than the one at index `j` is closed -/
def othersClosed : List SinkView → Nat → Bool
  | [], _ => true
  | _ :: xs, 0 => xs.all (fun y => y.1 == .closed)
  | x :: xs, j + 1 => x.1 == .closed && othersClosed xs j

def lastOpened (l : List SinkView) : Bool :=
  match l.getLast? with
  | some x => decide (1 ≤ x.2.1)
  | none => false

def anyIdle (l : List SinkView) : Bool := l.any (fun x => x.1 == .idle)

structure SAcc where
  prev : List SinkView := []     -- the sinks as of the previous observation
  pend : List Nat := []          -- requests issued and not yet handed over
  deriving Repr

def isClose : SOp → Bool
  | .pclose => true
  | .pcloseY => true
  | _ => false

/-- a pool `Close()` with a request arriving from inside the underlying `Close()` -/
def isReClose : SOp → Bool
  | .pcloseR _ => true
  | _ => false

/-- remove one occurrence of every id in `ids` -/
def minus : List Nat → List Nat → List Nat
  | l, [] => l
  | l, x :: xs => minus (l.erase x) xs

/-- a hand-over is acceptable: the request was waiting, it went to a sink, and no other sink is
    live (it went to the one connection).  Tolerated, because the property is silent about it
    (it is a matter of C01, not of C16): a request that was waiting for the open when the pool's
    `Close()` closed the connection under it may be handed to nobody (sink id 0) — only in that
    very step, only for a request that was waiting, and only if no connection is left live. -/
def fwdOk (op : SOp) (pend : List Nat) (sinks : List SinkView) (f : Nat × Nat) : Bool :=
  pend.contains f.1 &&
  (if f.2 = 0 then isClose op && liveN sinks == 0
   else decide (f.2 ≤ sinks.length) && othersClosed sinks (f.2 - 1))

/-- the requests issued so far and not handed over, the one issued in this operation included -/
def pendAfter (a : SAcc) (op : SOp) : List Nat :=
  match op with
  | .req r => a.pend ++ [r]
  | .pcloseR r => a.pend ++ [r]
  | .cresumeR _ r => a.pend ++ [r]
  | _ => a.pend

/-- a request enters the pool in this operation -/
def isReq : SOp → Bool
  | .req _ => true
  | .pcloseR _ => true
  | .cresumeR _ _ => true
  | _ => false

def specSObs (a : SAcc) (idx : Nat) (op : SOp) (o : SObs) : Verdict :=
  let pend1 := pendAfter a op
  let pend2 := minus pend1 (o.fwd.map (·.1))
  -- the sinks that existed before this operation, as they are after it
  let old := o.sinks.take a.prev.length
  -- at most one underlying connection at a time
  if liveN o.sinks > 1 then .fail "one-live" [V.ofNat idx, V.ofNat (liveN o.sinks)]
  -- shares: no new connection while there is a live one.  (For a request arriving from inside the
  -- pool's Close() the connection that was live before the operation may be the one that Close()
  -- has closed by the time the request arrives: then no older connection is live any more.)
  else if a.prev.length < o.sinks.length && liveN a.prev > 0 && (!isReClose op || liveN old > 0) then
    .fail "created-while-live" [V.ofNat idx, V.ofNat a.prev.length, V.ofNat o.sinks.length]
  -- replaces: a request finding no live connection creates and opens exactly one fresh sink
  -- (a request arriving from inside Close(): no older connection is live once Close() is through)
  else if isReq op && (if isReClose op then liveN old == 0 else liveN a.prev == 0) &&
      !(o.sinks.length == a.prev.length + 1 && lastOpened o.sinks) then
    .fail "not-replaced" [V.ofNat idx, V.ofNat a.prev.length, V.ofNat o.sinks.length]
  else
    match o.fwd.find? (fun f => !fwdOk op pend1 o.sinks f) with
    | some f =>
      .fail (if f.2 == 0 then "request-dropped" else "forward-not-shared")
        [V.ofNat idx, V.ofNat f.1, V.ofNat f.2]
    | none =>
      -- shares: nobody keeps waiting once no connection is being opened any more
      if !anyIdle o.sinks && !pend2.isEmpty then .fail "request-stuck" [V.ofNat idx, V.ofNats pend2]
      else .ok

def SAcc.after (a : SAcc) (op : SOp) (o : SObs) : SAcc :=
  ⟨o.sinks, minus (pendAfter a op) (o.fwd.map (·.1))⟩

def specSGo (a : SAcc) (idx : Nat) : List (SOp × SObs) → Verdict
  | [] => .ok
  | (op, o) :: rest =>
    (specSObs a idx op o).and (fun _ => specSGo (a.after op o) (idx + 1) rest)

def specS (_ : Unit) (h : List (SOp × SObs)) : Verdict := specSGo {} 0 h

/-! ### codecs -/

def decSSt : V → Option SSt
  | .a "idle" => some .idle
  | .a "open" => some .opened
  | .a "closed" => some .closed
  | _ => none

def encSSt : SSt → V
  | .idle => .a "idle"
  | .opened => .a "open"
  | .closed => .a "closed"

def decId (v : V) : Option Nat :=
  match v.nat? with
  | some (k + 1) => some k
  | _ => none

def decSOp : List V → Option SOp
  | [.a "req", r] => do pure (.req (← r.nat?))
  | [.a "popen"] => some .popen
  | [.a "pclose"] => some .pclose
  | [.a "ok", k] => do pure (.ok (← decId k))
  | [.a "fail", k] => do pure (.fail (← decId k))
  | [.a "fault", k] => do pure (.fault (← decId k))
  | [.a "pcloseY"] => some .pcloseY
  | [.a "pcloseR", r] => do pure (.pcloseR (← r.nat?))
  | [.a "cresume", k] => do pure (.cresume (← decId k))
  | [.a "cresumeR", k, r] => do pure (.cresumeR (← decId k) (← r.nat?))
  | _ => none

def encView (x : SinkView) : V := .l [encSSt x.1, V.ofNat x.2.1, V.ofNat x.2.2]
def decView : V → Option SinkView
  | .l [s, o, c] => do pure (← decSSt s, ← o.nat?, ← c.nat?)
  | _ => none

def encPair (x : Nat × Nat) : V := .l [V.ofNat x.1, V.ofNat x.2]
def decPair : V → Option (Nat × Nat)
  | .l [a, b] => do pure (← a.nat?, ← b.nat?)
  | _ => none

def encSObs (o : SObs) : V :=
  .l [.l (o.sinks.map encView), V.ofNat o.next, .n o.rc, .l (o.fwd.map encPair)]
def decSObs : V → Option SObs
  | .l [.l ss, n, .n rc, .l fs] => do pure ⟨← ss.mapM decView, ← n.nat?, rc, ← fs.mapM decPair⟩
  | _ => none

def decUnit : List V → Option Unit
  | [] => some ()
  | _ => none

def singletonCore : TComp Unit Pool SOp SObs where
  decCfg := decUnit
  init := fun _ => {}
  decOp := decSOp
  step := sstep
  encObs := encSObs
  decObs := decSObs
  spec := specS
  wf := fun _ _ => true

def singleton : TComp Unit Pool SOp (Res SObs) := guarded singletonCore

/-! ## refcount -/

structure RObs where
  ret : Nat        -- Open: which underlying open result was returned (0 = None); else 0
  opens : Nat      -- Open() calls seen by the underlying sink so far
  closes : Nat     -- Close() calls seen by the underlying sink so far
  cnt : Int        -- `_ref_count`
  deriving Repr, DecidableEq

def rstep (_ : Bool) (s : RC) (op : ROp) : RC × RObs :=
  let r := s.step op
  (r.1, ⟨r.2, r.1.opens, r.1.closes, r.1.count⟩)

structure RAcc where
  n : Nat := 0       -- holders, by the property's reading of the history
  po : Nat := 0      -- underlying opens before this operation
  pc : Nat := 0      -- underlying closes before this operation
  deriving Repr

def RAcc.after (a : RAcc) (op : ROp) (o : RObs) : RAcc :=
  match op with
  | .ropen _ => ⟨a.n + 1, o.opens, o.closes⟩
  | .rclose _ => ⟨a.n - 1, o.opens, o.closes⟩
  | .rfault => ⟨a.n, o.opens, o.closes⟩

def specRObs (a : RAcc) (idx : Nat) (op : ROp) (o : RObs) : Verdict :=
  let ps := [V.ofNat idx, V.ofNat a.n, V.ofNat o.opens, V.ofNat o.closes]
  let v : Verdict :=
    match op with
    | .ropen _ =>
      if a.n = 0 ∧ o.opens ≠ a.po + 1 then .fail "first-open" ps
      else if a.n ≠ 0 ∧ o.opens ≠ a.po then .fail "shared-open" ps
      else if o.closes ≠ a.pc then .fail "open-closes" ps
      else if o.ret = 0 ∨ o.ret ≠ o.opens then .fail "open-result" (ps ++ [V.ofNat o.ret])
      else .ok
    | .rclose _ =>
      if o.opens ≠ a.po then .fail "close-opens" ps
      else if a.n = 0 ∧ o.closes ≠ a.pc then .fail "surplus-close" ps
      else if a.n = 1 ∧ o.closes ≠ a.pc + 1 then .fail "close-last" ps
      else if 1 < a.n ∧ o.closes ≠ a.pc then .fail "close-early" ps
      else .ok
    | .rfault =>
      if o.opens ≠ a.po ∨ o.closes ≠ a.pc then .fail "fault-touches" ps else .ok
  v.and (fun _ =>
    let n' := (a.after op o).n
    if o.opens = o.closes + (if 0 < n' then 1 else 0) then .ok else .fail "balance" ps)

def specRGo (a : RAcc) (idx : Nat) : List (ROp × RObs) → Verdict
  | [] => .ok
  | (op, o) :: rest =>
    (specRObs a idx op o).and (fun _ => specRGo (a.after op o) (idx + 1) rest)

def specR (_ : Bool) (h : List (ROp × RObs)) : Verdict := specRGo {} 0 h

def decROp : List V → Option ROp
  | [.a "ropen", h] => do pure (.ropen (← h.nat?))
  | [.a "rclose", h] => do pure (.rclose (← h.nat?))
  | [.a "rfault"] => some .rfault
  | _ => none

def encRObs (o : RObs) : V := .l [V.ofNat o.ret, V.ofNat o.opens, V.ofNat o.closes, .n o.cnt]
def decRObs : V → Option RObs
  | .l [r, o, c, .n k] => do pure ⟨← r.nat?, ← o.nat?, ← c.nat?, k⟩
  | _ => none

def decBoolCfg : List V → Option Bool
  | [b] => b.bool?
  | _ => none

def refcountCore : TComp Bool RC ROp RObs where
  decCfg := decBoolCfg
  init := fun _ => {}
  decOp := decROp
  step := rstep
  encObs := encRObs
  decObs := decRObs
  spec := specR
  wf := fun _ _ => true

def refcount : TComp Bool RC ROp (Res RObs) := guarded refcountCore

/-! ## sharedprov -/

structure PObs where
  sink : Nat            -- id of the sink handed out (create) / called by the holder (hopen, hclose); else 0
  shared : Bool         -- it is a RefCountedSink wrapper
  created : Nat         -- CreateSink calls seen by the next provider so far
  keys : List Nat       -- keys of the live cache entries, in the cache's order
  fresh : Bool          -- create: the object handed out was never handed out before
  rc : Nat              -- `_ref_count` of that wrapper after the operation (0 if it is not a wrapper)
  views : List SinkView -- every underlying sink created so far: state, Open() calls, Close() calls
  deriving Repr, DecidableEq

def pview (s : PSink) : SinkView := (s.st, s.opens, s.closes)

def pstep (_ : Unit) (p : Prov) (op : POp) : Prov × PObs :=
  let r := p.step op
  (r.1, ⟨r.2, (sinkAt r.1.sinks r.2).shared, r.1.created, r.1.cache.map (·.1),
         decide (p.created < r.1.created), (sinkAt r.1.sinks r.2).rc, r.1.sinks.map pview⟩)

/-- the spec's own book-keeping: who holds which sink, obtained under which key; how many
    sinks the next provider had created; what the underlying sinks had seen; and, per shared
    sink, the number of holders that have it open by the property's own reading of the history
    (every Open adds one, every Close by somebody while that number is positive removes one,
    a surplus Close removes nothing).  `cnt` is an association list, latest entry first. -/
structure PAcc where
  holds : List Hold := []
  created : Nat := 0
  views : List SinkView := []
  cnt : List (Nat × Nat) := []
  deriving Repr

def cntAt (c : List (Nat × Nat)) (s : Nat) : Nat :=
  match c with
  | [] => 0
  | (k, n) :: rest => if k = s then n else cntAt rest s

/-- what sink `id` had seen: (Open() calls, Close() calls) -/
def seenAt (l : List SinkView) (id : Nat) : Nat × Nat :=
  match id with
  | 0 => (0, 0)
  | k + 1 => (l.getD k (.idle, 0, 0)).2

def PAcc.after (a : PAcc) (op : POp) (o : PObs) : PAcc :=
  match op with
  | .create h key =>
    { a with holds := a.holds.filter (fun x => x.1 != h) ++ [(h, key, o.sink)],
             created := o.created, views := o.views }
  | .drop h => { a with holds := a.holds.filter (fun x => x.1 != h), created := o.created, views := o.views }
  | .hopen h =>
    match heldBy a.holds h with
    | some x =>
      { a with created := o.created, views := o.views,
               cnt := if x.2.1 = 0 then a.cnt else (x.2.2, cntAt a.cnt x.2.2 + 1) :: a.cnt }
    | none => { a with created := o.created, views := o.views }
  | .hclose h =>
    match heldBy a.holds h with
    | some x =>
      { a with created := o.created, views := o.views,
               cnt := if x.2.1 = 0 then a.cnt else (x.2.2, cntAt a.cnt x.2.2 - 1) :: a.cnt }
    | none => { a with created := o.created, views := o.views }
  | .fault _ => { a with created := o.created, views := o.views }

/-- * the same sharing key yields the same sink for as long as any holder is alive: a CreateSink
      with a key under which a live holder holds a sink hands out that very sink (the same
      object, not a new wrapper), and the next provider is not asked for another underlying
      sink — whatever the state of the shared sink (`same-key`, `second-underlying`);
    * a holder's Open()/Close() on a shared sink reaches the underlying sink exactly at the
      transitions 0 → 1 and 1 → 0 of the number of holders that have it open; a surplus Close
      is ignored (`first-open`, `shared-open`, `open-closes`, `close-opens`, `surplus-close`,
      `close-last`, `close-early`). -/
def specPObs (a : PAcc) (idx : Nat) (op : POp) (o : PObs) : Verdict :=
  match op with
  | .create _ key =>
    if key = 0 then .ok
    else match a.holds.find? (fun x => x.2.1 == key && (x.2.2 != o.sink || o.fresh)) with
      | some x =>
        .fail "same-key" [V.ofNat idx, V.ofNat key, V.ofNat x.2.2, V.ofNat o.sink, V.ofBool o.fresh]
      | none =>
        if a.holds.any (fun x => x.2.1 == key) && o.created != a.created then
          .fail "second-underlying" [V.ofNat idx, V.ofNat key, V.ofNat a.created, V.ofNat o.created]
        else .ok
  | .drop _ => .ok
  | .hopen h =>
    match heldBy a.holds h with
    | some x =>
      if x.2.1 = 0 then .ok
      else
        let n := cntAt a.cnt x.2.2
        let pv := seenAt a.views x.2.2
        let nv := seenAt o.views x.2.2
        let ps := [V.ofNat idx, V.ofNat x.2.2, V.ofNat n, V.ofNat nv.1, V.ofNat nv.2]
        if n = 0 ∧ nv.1 ≠ pv.1 + 1 then .fail "first-open" ps
        else if n ≠ 0 ∧ nv.1 ≠ pv.1 then .fail "shared-open" ps
        else if nv.2 ≠ pv.2 then .fail "open-closes" ps
        else .ok
    | none => .ok
  | .hclose h =>
    match heldBy a.holds h with
    | some x =>
      if x.2.1 = 0 then .ok
      else
        let n := cntAt a.cnt x.2.2
        let pv := seenAt a.views x.2.2
        let nv := seenAt o.views x.2.2
        let ps := [V.ofNat idx, V.ofNat x.2.2, V.ofNat n, V.ofNat nv.1, V.ofNat nv.2]
        if nv.1 ≠ pv.1 then .fail "close-opens" ps
        else if n = 0 ∧ nv.2 ≠ pv.2 then .fail "surplus-close" ps
        else if n = 1 ∧ nv.2 ≠ pv.2 + 1 then .fail "close-last" ps
        else if 1 < n ∧ nv.2 ≠ pv.2 then .fail "close-early" ps
        else .ok
    | none => .ok
  | .fault _ => .ok

def specPGo (a : PAcc) (idx : Nat) : List (POp × PObs) → Verdict
  | [] => .ok
  | (op, o) :: rest =>
    (specPObs a idx op o).and (fun _ => specPGo (a.after op o) (idx + 1) rest)

def specP (_ : Unit) (h : List (POp × PObs)) : Verdict := specPGo {} 0 h

def decPOp : List V → Option POp
  | [.a "create", h, k] => do pure (.create (← h.nat?) (← k.nat?))
  | [.a "drop", h] => do pure (.drop (← h.nat?))
  | [.a "hopen", h] => do pure (.hopen (← h.nat?))
  | [.a "hclose", h] => do pure (.hclose (← h.nat?))
  | [.a "fault", s] => do pure (.fault (← s.nat?))
  | _ => none

def encPObs (o : PObs) : V :=
  .l [V.ofNat o.sink, V.ofBool o.shared, V.ofNat o.created, V.ofNats o.keys, V.ofBool o.fresh,
      V.ofNat o.rc, .l (o.views.map encView)]
def decPObs : V → Option PObs
  | .l [s, b, c, ks, f, rc, .l vs] => do
    pure ⟨← s.nat?, ← b.bool?, ← c.nat?, ← ks.natList?, ← f.bool?, ← rc.nat?, ← vs.mapM decView⟩
  | _ => none

def sharedprovCore : TComp Unit Prov POp PObs where
  decCfg := decUnit
  init := fun _ => {}
  decOp := decPOp
  step := pstep
  encObs := encPObs
  decObs := decPObs
  spec := specP
  wf := fun _ _ => true

def sharedprov : TComp Unit Prov POp (Res PObs) := guarded sharedprovCore

end Scales.Shared
