import ScalesModel.Adapter.FrontEnd
import Mathlib.Data.List.Forall2

namespace Scales.FrontEnd

theorem le_roundUp (d : Nat) : d ≤ roundUp d := by
  unfold roundUp resolution
  omega

/-- per-call invariant of the front end, together with what the specification remembers -/
structure CallInv (oa : Option Nat) (i : CallInfo) (cl : Call) : Prop where
  cid : i.cid = cl.cid
  issueT : i.issueT = cl.issueT
  T : i.T = cl.T
  setsLe : cl.sets.length ≤ 1
  overIff : (∃ t, cl.phase = .over t) ↔ cl.sets ≠ []
  waiting : ∀ g, cl.phase = .waitOpen g → oa = none ∧ i.preOpen = true ∧ cl.lowerGot = false ∧
    g = (if 0 < cl.T then some (roundUp (cl.issueT + cl.T)) else none)
  opened : ∀ t, oa = some t → ∀ g, cl.phase ≠ .waitOpen g
  liveDue : ∀ due, cl.phase = .live (some due) → due = roundUp (cl.issueT + cl.T) ∧ 0 < cl.T
  liveNone : cl.phase = .live none → cl.T = 0
  /-- TimeoutError is never set before t+T -/
  tmo : ∀ t, (t, Outcome.timeout) ∈ cl.sets → 0 < cl.T ∧ cl.issueT + cl.T ≤ t

/-- the specification's memory of the first completed outcome agrees with the call -/
def FirstOK (i : CallInfo) (cl : Call) : Prop := i.first = (cl.sets.getLast?).map (·.2)

def Acceptable (v : Verdict) : Prop := v = .ok

theorem Acceptable.and {v : Verdict} {f : Unit → Verdict} (h1 : Acceptable v) (h2 : Acceptable (f ())) :
    Acceptable (v.and f) := by
  unfold Acceptable at h1; subst h1; exact h2

/-- whichever timer of the call is queued (the dispatcher's while the client opens, the timeout
    sink's afterwards) is due at the rounded deadline -/
theorem CallInv.armed {oa : Option Nat} {i : CallInfo} {cl : Call} (h : CallInv oa i cl) (due : Nat)
    (hd : cl.armedDue = some due) : due = roundUp (cl.issueT + cl.T) ∧ 0 < cl.T := by
  unfold Call.armedDue at hd
  cases hp : cl.phase with
  | waitOpen g =>
    rw [hp] at hd; simp only at hd; subst hd
    have := (h.waiting _ hp).2.2.2
    by_cases hT : 0 < cl.T
    · rw [if_pos hT] at this; exact ⟨by injection this, hT⟩
    · rw [if_neg hT] at this; cases this
  | live d => rw [hp] at hd; simp only at hd; subst hd; exact h.liveDue due hp
  | over t => rw [hp] at hd; cases hd

theorem viewOf_nsets (cl : Call) : (viewOf cl).nsets = cl.sets.length := rfl

theorem viewOf_res_nil (cl : Call) (h : cl.sets = []) : (viewOf cl).res = .pending := by
  simp [viewOf, h]

theorem viewOf_res_one (cl : Call) (t : Nat) (o : Outcome) (h : cl.sets = [(t, o)]) :
    (viewOf cl).res = .done o := by
  simp [viewOf, h]

/-- still pending: acceptable as long as the bound has not passed -/
theorem spec_pending (a : Acc) (idx c : Nat) (op : Op) (i : CallInfo) (cl : Call)
    (hs : cl.sets = []) (hf : i.first = none)
    (hb : 0 < i.T → (op.time > roundUp (i.issueT + i.T) ∨ (op.time = roundUp (i.issueT + i.T) ∧ op.isTick = true)) →
      False) :
    Acceptable (specCall a idx op c i (viewOf cl)) := by
  unfold specCall
  simp only [viewOf_nsets, hs, List.length_nil, viewOf_res_nil cl hs, hf]
  simp only [show ¬ (0 > 1) by omega, if_false]
  by_cases hc : (decide (i.T > 0) && (decide (op.time > roundUp (i.issueT + i.T)) ||
      (decide (op.time = roundUp (i.issueT + i.T)) && op.isTick))) = true
  · have hT : 0 < i.T := by simp at hc; exact hc.1
    exfalso
    apply hb hT
    simp only [Bool.and_eq_true, Bool.or_eq_true, decide_eq_true_eq] at hc
    rcases hc.2 with h | ⟨h1, h2⟩
    · exact Or.inl h
    · exact Or.inr ⟨h1, h2⟩
  · rw [if_neg hc]; rfl

/-- complete, and the specification already knew this outcome -/
theorem spec_done_old (a : Acc) (idx c : Nat) (op : Op) (i : CallInfo) (cl : Call) (t : Nat) (o : Outcome)
    (hs : cl.sets = [(t, o)]) (hf : i.first = some o) :
    Acceptable (specCall a idx op c i (viewOf cl)) := by
  unfold specCall
  simp only [viewOf_nsets, hs, List.length_singleton, viewOf_res_one cl t o hs, hf]
  simp [Acceptable]

/-- just completed -/
theorem spec_done_new (a : Acc) (idx c : Nat) (op : Op) (i : CallInfo) (cl : Call) (t : Nat) (o : Outcome)
    (hs : cl.sets = [(t, o)]) (hf : i.first = none)
    (hsrc : (o ≠ .timeout → i.posts.contains o = true) ∧
      (o = .timeout → i.posts.contains .timeout = true ∨ (0 < i.T ∧ i.issueT + i.T ≤ op.time)))
    (hlate : 0 < i.T → op.time > roundUp (i.issueT + i.T) → False) :
    Acceptable (specCall a idx op c i (viewOf cl)) := by
  unfold specCall
  simp only [viewOf_nsets, hs, List.length_singleton, viewOf_res_one cl t o hs, hf]
  simp only [show ¬ (1 > 1) by omega, if_false]
  apply Acceptable.and
  · show _ = Verdict.ok
    cases o with
    | ok v => have := hsrc.1 (by simp); simp at this; simp [this]
    | err e => have := hsrc.1 (by simp); simp at this; simp [this]
    | timeout =>
      by_cases hp : Outcome.timeout ∈ i.posts
      · simp [hp]
      · rcases hsrc.2 rfl with h | ⟨h1, h2⟩
        · simp at h; exact absurd h hp
        · have : ¬ i.T = 0 := by omega
          have h3 : ¬ op.time < i.issueT + i.T := by omega
          simp [hp, this, h3]
  · by_cases hc : (decide (i.T > 0) && decide (op.time > roundUp (i.issueT + i.T))) = true
    · simp only [Bool.and_eq_true, decide_eq_true_eq] at hc
      exact (hlate hc.1 hc.2).elim
    · simp only [hc]; rfl


theorem sets_cases (cl : Call) (h : cl.sets.length ≤ 1) :
    cl.sets = [] ∨ ∃ t o, cl.sets = [(t, o)] := by
  match hs : cl.sets with
  | [] => exact Or.inl rfl
  | [(t, o)] => exact Or.inr ⟨t, o, rfl⟩
  | _ :: _ :: _ => rw [hs] at h; simp at h

theorem note1_first (i : CallInfo) (cl : Call) (hle : cl.sets.length ≤ 1)
    (h : i.first = none ∨ i.first = (cl.sets.getLast?).map (·.2)) : FirstOK (note1 i (viewOf cl)) cl := by
  unfold FirstOK note1
  rcases sets_cases cl hle with hs | ⟨t, o, hs⟩
  · rw [viewOf_res_nil cl hs]
    have hf : i.first = none := by
      rcases h with h | h
      · exact h
      · rw [h, hs]; rfl
    simp [hf, hs]
  · rw [viewOf_res_one cl t o hs]
    rcases h with h | h
    · simp [h, hs]
    · have hf : i.first = some o := by rw [h, hs]; rfl
      simp [hf, hs]

theorem note1_fields (i : CallInfo) (v : CallView) :
    (note1 i v).cid = i.cid ∧ (note1 i v).issueT = i.issueT ∧ (note1 i v).T = i.T ∧
    (note1 i v).preOpen = i.preOpen ∧ (note1 i v).posts = i.posts := by
  unfold note1; split <;> simp

theorem CallInv.congr {oa : Option Nat} {i i' : CallInfo} {cl : Call} (h : CallInv oa i cl)
    (hi : i'.cid = i.cid ∧ i'.issueT = i.issueT ∧ i'.T = i.T ∧ i'.preOpen = i.preOpen) : CallInv oa i' cl :=
  ⟨hi.1.trans h.cid, hi.2.1.trans h.issueT, hi.2.2.1.trans h.T, h.setsLe, h.overIff,
    fun hp => by rw [hi.2.2.2]; exact h.waiting hp, h.opened, h.liveDue, h.liveNone, h.tmo⟩

/-- (A) a call the operation does not touch -/
theorem step_same (oa oa' : Option Nat) (a' : Acc) (ha' : a'.openAt = oa') (idx c : Nat) (op : Op)
    (i i' : CallInfo) (cl : Call) (hinv : CallInv oa i cl) (hfirst : FirstOK i cl)
    (hi : i'.cid = i.cid ∧ i'.issueT = i.issueT ∧ i'.T = i.T ∧ i'.preOpen = i.preOpen ∧ i'.first = i.first)
    (hoa : oa' = oa ∨ (oa = none ∧ ∀ g, cl.phase ≠ .waitOpen g))
    (hpunct : ∀ due, cl.armedDue = some due → op.time ≤ due ∧ (op.isTick = true → op.time < due)) :
    CallInv oa' i' cl ∧ Acceptable (specCall a' idx op c i' (viewOf cl)) ∧ FirstOK (note1 i' (viewOf cl)) cl := by
  have hinv' : CallInv oa' i' cl := by
    have h0 := hinv.congr (i' := i') ⟨hi.1, hi.2.1, hi.2.2.1, hi.2.2.2.1⟩
    rcases hoa with h | ⟨h1, h2⟩
    · rw [h]; exact h0
    · exact ⟨h0.cid, h0.issueT, h0.T, h0.setsLe, h0.overIff, fun g hp => absurd hp (h2 g), fun _ _ => h2,
        h0.liveDue, h0.liveNone, h0.tmo⟩
  refine ⟨hinv', ?_, note1_first i' cl hinv.setsLe (Or.inr (by rw [hi.2.2.2.2]; exact hfirst))⟩
  rcases sets_cases cl hinv.setsLe with hs | ⟨t, o, hs⟩
  · apply spec_pending a' idx c op i' cl hs (by rw [hi.2.2.2.2, hfirst, hs]; rfl)
    intro hT hlate
    rw [hi.2.1, hi.2.2.1, hinv.issueT, hinv.T] at hlate
    rw [hi.2.2.1, hinv.T] at hT
    -- some timer of the call is queued for the rounded deadline, and the queue is punctual
    have harmed : cl.armedDue = some (roundUp (cl.issueT + cl.T)) := by
      unfold Call.armedDue
      cases hp : cl.phase with
      | waitOpen g =>
        have := (hinv.waiting g hp).2.2.2
        rw [if_pos hT] at this; simp [this]
      | live d =>
        cases d with
        | none => have := hinv.liveNone hp; omega
        | some due => obtain ⟨e, _⟩ := hinv.liveDue due hp; simp [e]
      | over t =>
        have := (hinv.overIff).mp ⟨t, hp⟩
        exact absurd hs this
    obtain ⟨p1, p2⟩ := hpunct _ harmed
    rcases hlate with h | ⟨h1, h2⟩
    · omega
    · have := p2 h2; omega
  · exact spec_done_old a' idx c op i' cl t o hs (by rw [hi.2.2.2.2, hfirst, hs]; rfl)


/-- (B) a call linked on the open result is dispatched when it completes, at `now` -/
theorem step_dispatch (a' : Acc) (now : Nat) (ha' : a'.openAt = some now) (idx c : Nat) (op : Op)
    (hnow : op.time = now) (htick : op.isTick = false)
    (i i' : CallInfo) (cl : Call) (hinv : CallInv none i cl) (hfirst : FirstOK i cl)
    (hi : i'.cid = i.cid ∧ i'.issueT = i.issueT ∧ i'.T = i.T ∧ i'.preOpen = i.preOpen ∧ i'.first = i.first)
    (g : Option Nat) (hp : cl.phase = .waitOpen g)
    (hpunct : ∀ due, cl.armedDue = some due → now ≤ due) :
    CallInv (some now) i' (cl.dispatch now) ∧
    Acceptable (specCall a' idx op c i' (viewOf (cl.dispatch now))) ∧
    FirstOK (note1 i' (viewOf (cl.dispatch now))) (cl.dispatch now) := by
  have hs0 : cl.sets = [] := by
    by_contra h
    obtain ⟨t, ht⟩ := (hinv.overIff).mpr h
    rw [hp] at ht; cases ht
  have hf0 : i'.first = none := by rw [hi.2.2.2.2, hfirst, hs0]; rfl
  obtain ⟨_, hpre, _, hg⟩ := hinv.waiting g hp
  unfold Call.dispatch
  simp only [hp]
  by_cases hT : cl.T = 0
  · -- no deadline
    rw [if_pos hT]
    have hinv' : CallInv (some now) i' { cl with phase := .live none, lowerGot := true } :=
      ⟨hi.1.trans hinv.cid, hi.2.1.trans hinv.issueT, hi.2.2.1.trans hinv.T, hinv.setsLe,
        by simp [hs0], by simp, by simp, by simp, fun _ => hT, by simp [hs0]⟩
    refine ⟨hinv', ?_, note1_first _ _ hinv.setsLe (Or.inl hf0)⟩
    apply spec_pending a' idx c op i' _ hs0 hf0
    intro h; rw [hi.2.2.1, hinv.T, hT] at h; omega
  · rw [if_neg hT]
    have hTpos : 0 < cl.T := by omega
    -- the dispatcher's own timer was queued for the rounded deadline; the queue is punctual
    have hdue : now ≤ roundUp (cl.issueT + cl.T) := by
      apply hpunct
      unfold Call.armedDue; rw [hp, hg, if_pos hTpos]
    by_cases hd : cl.issueT + cl.T < now
    · -- the deadline has already passed: immediate TimeoutError
      rw [if_pos hd]
      have hs' : (cl.sets ++ [(now, Outcome.timeout)]) = [(now, Outcome.timeout)] := by rw [hs0]; rfl
      have hinv' : CallInv (some now) i' { cl with phase := .over .none, sets := cl.sets ++ [(now, .timeout)] } :=
        ⟨hi.1.trans hinv.cid, hi.2.1.trans hinv.issueT, hi.2.2.1.trans hinv.T, by simp [hs0],
          by simp, by simp, by simp, by simp, by simp,
          by simp [hs0]; omega⟩
      refine ⟨hinv', ?_, note1_first _ _ (by simp [hs0]) (Or.inl hf0)⟩
      apply spec_done_new a' idx c op i' _ now .timeout hs' hf0
      · refine ⟨fun h => absurd rfl h, fun _ => Or.inr ⟨?_, ?_⟩⟩
        · rw [hi.2.2.1, hinv.T]; omega
        · rw [hi.2.1, hi.2.2.1, hinv.issueT, hinv.T, hnow]; omega
      · intro _ hl
        rw [hi.2.1, hi.2.2.1, hinv.issueT, hinv.T, hnow] at hl
        omega
    · rw [if_neg hd]
      have hinv' : CallInv (some now) i'
          { cl with phase := .live (some (roundUp (cl.issueT + cl.T))), lowerGot := true } :=
        ⟨hi.1.trans hinv.cid, hi.2.1.trans hinv.issueT, hi.2.2.1.trans hinv.T, hinv.setsLe,
          by simp [hs0], by simp, by simp, by simp; omega, by simp, by simp [hs0]⟩
      refine ⟨hinv', ?_, note1_first _ _ hinv.setsLe (Or.inl hf0)⟩
      apply spec_pending a' idx c op i' _ hs0 hf0
      intro _ hlate
      rw [hi.2.1, hi.2.2.1, hinv.issueT, hinv.T, hnow, htick] at hlate
      rcases hlate with h | ⟨_, h⟩
      · omega
      · cases h

/-- (C) the environment posts `o` into the call's stack -/
theorem step_respond (oa : Option Nat) (a' : Acc) (ha' : a'.openAt = oa) (idx c : Nat) (op : Op) (o : Outcome)
    (i i' : CallInfo) (cl : Call) (hinv : CallInv oa i cl) (hfirst : FirstOK i cl)
    (hi : i'.cid = i.cid ∧ i'.issueT = i.issueT ∧ i'.T = i.T ∧ i'.preOpen = i.preOpen ∧ i'.first = i.first)
    (hpost : i'.posts.contains o = true) (hl : cl.lowerGot = true)
    (henv : o = .timeout → 0 < cl.T ∧ cl.issueT + cl.T ≤ op.time)
    (hpunct : ∀ due, cl.armedDue = some due → op.time ≤ due) :
    CallInv oa i' (cl.respond op.time o) ∧
    Acceptable (specCall a' idx op c i' (viewOf (cl.respond op.time o))) ∧
    FirstOK (note1 i' (viewOf (cl.respond op.time o))) (cl.respond op.time o) := by
  have hi4 : i'.cid = i.cid ∧ i'.issueT = i.issueT ∧ i'.T = i.T ∧ i'.preOpen = i.preOpen :=
    ⟨hi.1, hi.2.1, hi.2.2.1, hi.2.2.2.1⟩
  cases hp : cl.phase with
  | waitOpen g =>
    have := (hinv.waiting g hp).2.2.1; rw [hl] at this; cases this
  | over t =>
    have he : cl.respond op.time o = cl := by unfold Call.respond; simp [hp]
    rw [he]
    exact step_same oa oa a' ha' idx c op i i' cl hinv hfirst hi (Or.inl rfl)
      (by intro due h; unfold Call.armedDue at h; rw [hp] at h; cases h)
  | live d =>
    have hs0 : cl.sets = [] := by
      by_contra h
      obtain ⟨t, ht⟩ := (hinv.overIff).mpr h
      rw [hp] at ht; cases ht
    have hf0 : i'.first = none := by rw [hi.2.2.2.2, hfirst, hs0]; rfl
    have he : cl.respond op.time o =
        { cl with phase := .over (cancelEnd d op.time), sets := cl.sets ++ [(op.time, o)] } := by
      unfold Call.respond; simp [hp]
    rw [he]
    have hs' : (cl.sets ++ [(op.time, o)]) = [(op.time, o)] := by rw [hs0]; rfl
    have hinv' : CallInv oa i'
        { cl with phase := .over (cancelEnd d op.time), sets := cl.sets ++ [(op.time, o)] } :=
      ⟨hi.1.trans hinv.cid, hi.2.1.trans hinv.issueT, hi.2.2.1.trans hinv.T, by simp [hs0],
        by simp, by simp, by simp, by simp, by simp,
        by simp [hs0]; intro ho; exact henv ho.symm⟩
    refine ⟨hinv', ?_, note1_first _ _ (by simp [hs0]) (Or.inl hf0)⟩
    apply spec_done_new a' idx c op i' _ op.time o hs' hf0
    · exact ⟨fun _ => hpost, fun h => Or.inl (h ▸ hpost)⟩
    · intro hT hlate
      rw [hi.2.1, hi.2.2.1, hinv.issueT, hinv.T] at hlate
      rw [hi.2.2.1, hinv.T] at hT
      cases d with
      | none => have := hinv.liveNone hp; omega
      | some due =>
        obtain ⟨e, _⟩ := hinv.liveDue due hp
        have := hpunct due (by unfold Call.armedDue; rw [hp])
        rw [← e] at hlate; omega

/-- (D) a timer action of the call runs: the timeout sink's, or — while the client is still
    opening — the dispatcher's own -/
theorem step_fire (oa : Option Nat) (a' : Acc) (ha' : a'.openAt = oa) (idx c : Nat) (op : Op)
    (i i' : CallInfo) (cl : Call) (hinv : CallInv oa i cl) (hfirst : FirstOK i cl)
    (hi : i'.cid = i.cid ∧ i'.issueT = i.issueT ∧ i'.T = i.T ∧ i'.preOpen = i.preOpen ∧ i'.first = i.first)
    (hen : cl.fireEnabled op.time = true)
    (hpunct : ∀ due, cl.armedDue = some due → op.time ≤ due) :
    CallInv oa i' (cl.fire op.time) ∧
    Acceptable (specCall a' idx op c i' (viewOf (cl.fire op.time))) ∧
    FirstOK (note1 i' (viewOf (cl.fire op.time))) (cl.fire op.time) := by
  cases hp : cl.phase with
  | waitOpen g =>
    cases g with
    | none => unfold Call.fireEnabled at hen; simp [hp] at hen
    | some due =>
      have hdue : due ≤ op.time := by unfold Call.fireEnabled at hen; simpa [hp] using hen
      have hs0 : cl.sets = [] := by
        by_contra h
        obtain ⟨t, ht⟩ := (hinv.overIff).mpr h
        rw [hp] at ht; cases ht
      have hf0 : i'.first = none := by rw [hi.2.2.2.2, hfirst, hs0]; rfl
      obtain ⟨e, hT⟩ := hinv.armed due (by unfold Call.armedDue; rw [hp])
      have he : cl.fire op.time =
          { cl with phase := .over .fired, sets := cl.sets ++ [(op.time, .timeout)] } := by
        unfold Call.fire; simp [hp]
      rw [he]
      have hs' : (cl.sets ++ [(op.time, Outcome.timeout)]) = [(op.time, Outcome.timeout)] := by rw [hs0]; rfl
      have hinv' : CallInv oa i'
          { cl with phase := .over .fired, sets := cl.sets ++ [(op.time, .timeout)] } :=
        ⟨hi.1.trans hinv.cid, hi.2.1.trans hinv.issueT, hi.2.2.1.trans hinv.T, by simp [hs0],
          by simp, by simp, by simp, by simp, by simp,
          by simp [hs0]
             have := le_roundUp (cl.issueT + cl.T); exact ⟨hT, by omega⟩⟩
      refine ⟨hinv', ?_, note1_first _ _ (by simp [hs0]) (Or.inl hf0)⟩
      apply spec_done_new a' idx c op i' _ op.time .timeout hs' hf0
      · refine ⟨fun h => absurd rfl h, fun _ => Or.inr ⟨?_, ?_⟩⟩
        · rw [hi.2.2.1, hinv.T]; exact hT
        · rw [hi.2.1, hi.2.2.1, hinv.issueT, hinv.T]
          have := le_roundUp (cl.issueT + cl.T); omega
      · intro _ hlate
        rw [hi.2.1, hi.2.2.1, hinv.issueT, hinv.T, ← e] at hlate
        have := hpunct due (by unfold Call.armedDue; rw [hp]); omega
  | over t =>
    cases t with
    | none => unfold Call.fireEnabled at hen; simp [hp] at hen
    | fired => unfold Call.fireEnabled at hen; simp [hp] at hen
    | cancelled due cat =>
      have he : cl.fire op.time = { cl with evtSet := true, phase := .over .fired } := by
        unfold Call.fire; simp [hp]
      rw [he]
      -- nothing the specification looks at changes except the timer code
      have hinv' : CallInv oa i' { cl with evtSet := true, phase := .over .fired } :=
        ⟨hi.1.trans hinv.cid, hi.2.1.trans hinv.issueT, hi.2.2.1.trans hinv.T, hinv.setsLe,
          by simp; exact (hinv.overIff).mp ⟨_, hp⟩, by simp, by simp, by simp, by simp, hinv.tmo⟩
      have hfirst' : FirstOK i ({ cl with evtSet := true, phase := .over .fired } : Call) := hfirst
      refine ⟨hinv', ?_, note1_first _ _ hinv.setsLe (Or.inr (by rw [hi.2.2.2.2]; exact hfirst))⟩
      have hne := (hinv.overIff).mp ⟨_, hp⟩
      rcases sets_cases cl hinv.setsLe with hs | ⟨t, o, hs⟩
      · exact absurd hs hne
      · exact spec_done_old a' idx c op i' _ t o hs (by rw [hi.2.2.2.2, hfirst, hs]; rfl)
  | live d =>
    cases d with
    | none => unfold Call.fireEnabled at hen; simp [hp] at hen
    | some due =>
      have hdue : due ≤ op.time := by unfold Call.fireEnabled at hen; simpa [hp] using hen
      have hs0 : cl.sets = [] := by
        by_contra h
        obtain ⟨t, ht⟩ := (hinv.overIff).mpr h
        rw [hp] at ht; cases ht
      have hf0 : i'.first = none := by rw [hi.2.2.2.2, hfirst, hs0]; rfl
      obtain ⟨e, hT⟩ := hinv.liveDue due hp
      have he : cl.fire op.time =
          { cl with evtSet := true, phase := .over .fired, sets := cl.sets ++ [(op.time, .timeout)] } := by
        unfold Call.fire; simp [hp]
      rw [he]
      have hs' : (cl.sets ++ [(op.time, Outcome.timeout)]) = [(op.time, Outcome.timeout)] := by rw [hs0]; rfl
      have hinv' : CallInv oa i'
          { cl with evtSet := true, phase := .over .fired, sets := cl.sets ++ [(op.time, .timeout)] } :=
        ⟨hi.1.trans hinv.cid, hi.2.1.trans hinv.issueT, hi.2.2.1.trans hinv.T, by simp [hs0],
          by simp, by simp, by simp, by simp, by simp,
          by simp [hs0]
             have := le_roundUp (cl.issueT + cl.T); exact ⟨hT, by omega⟩⟩
      refine ⟨hinv', ?_, note1_first _ _ (by simp [hs0]) (Or.inl hf0)⟩
      apply spec_done_new a' idx c op i' _ op.time .timeout hs' hf0
      · refine ⟨fun h => absurd rfl h, fun _ => Or.inr ⟨?_, ?_⟩⟩
        · rw [hi.2.2.1, hinv.T]; exact hT
        · rw [hi.2.1, hi.2.2.1, hinv.issueT, hinv.T]
          have := le_roundUp (cl.issueT + cl.T); omega
      · intro _ hlate
        rw [hi.2.1, hi.2.2.1, hinv.issueT, hinv.T, ← e] at hlate
        have := hpunct due (by unfold Call.armedDue; rw [hp]); omega

end Scales.FrontEnd
