/-
  Proofs/TagPoolLemmas.lean — C11: helper lemmas and the joint invariant of the tag pool, the
  tag map, the send queue, the per-request `Tag.KEY` entries and the specification's accumulator.
-/
import ScalesModel.Adapter.TagPool
import Mathlib.Data.List.Nodup
namespace Scales.TagPool

/-! ### sorted views -/

theorem insNat_perm (x : Nat) (l : List Nat) : (insNat x l).Perm (x :: l) := by
  induction l with
  | nil => exact List.Perm.refl _
  | cons y ys ih =>
    simp only [insNat]
    split
    · exact List.Perm.refl _
    · exact (List.Perm.cons y ih).trans (List.Perm.swap x y ys)

theorem sortNat_perm (l : List Nat) : (sortNat l).Perm l := by
  induction l with
  | nil => exact List.Perm.refl _
  | cons x xs ih =>
    simp only [sortNat]
    exact (insNat_perm x _).trans (List.Perm.cons x ih)

theorem mem_sortNat {l : List Nat} {x : Nat} : x ∈ sortNat l ↔ x ∈ l := (sortNat_perm l).mem_iff

theorem length_sortNat (l : List Nat) : (sortNat l).length = l.length := (sortNat_perm l).length_eq

theorem sortNat_nil : sortNat [] = [] := by simp [sortNat]

theorem sortNat_eq_nil {l : List Nat} : sortNat l = [] ↔ l = [] := by
  constructor
  · intro h
    have := length_sortNat l
    rw [h] at this
    exact List.length_eq_zero_iff.mp this.symm
  · intro h; subst h; exact sortNat_nil

/-! ### the tag map -/

theorem tmLookup_some_mem {t r : Nat} {m : List (Nat × Nat)} (h : tmLookup t m = some r) : (t, r) ∈ m := by
  induction m with
  | nil => simp [tmLookup] at h
  | cons p m ih =>
    obtain ⟨k, v⟩ := p
    simp only [tmLookup] at h
    split at h
    · next hk => subst hk; simp at h; subst h; simp
    · exact List.mem_cons_of_mem _ (ih h)

theorem tmLookup_some_key {t r : Nat} {m : List (Nat × Nat)} (h : tmLookup t m = some r) : t ∈ tmKeys m := by
  have := tmLookup_some_mem h
  simp only [tmKeys, List.mem_map]
  exact ⟨(t, r), this, rfl⟩

theorem tmLookup_none_iff {t : Nat} {m : List (Nat × Nat)} : tmLookup t m = none ↔ t ∉ tmKeys m := by
  induction m with
  | nil => simp [tmLookup, tmKeys]
  | cons p m ih =>
    obtain ⟨k, v⟩ := p
    simp only [tmLookup, tmKeys, List.map_cons, List.mem_cons, not_or] at ih ⊢
    split
    · next hk => subst hk; simp
    · next hk =>
      rw [ih]
      constructor
      · intro h; exact ⟨fun e => hk e.symm, h⟩
      · intro h; exact h.2

theorem tmLookup_isSome_of_key {t : Nat} {m : List (Nat × Nat)} (h : t ∈ tmKeys m) : ∃ r, tmLookup t m = some r := by
  cases hl : tmLookup t m with
  | some r => exact ⟨r, rfl⟩
  | none => exact absurd h (tmLookup_none_iff.mp hl)

theorem tmKeys_erase (t : Nat) (m : List (Nat × Nat)) : tmKeys (tmErase t m) = (tmKeys m).filter (· != t) := by
  induction m with
  | nil => rfl
  | cons p m ih =>
    obtain ⟨k, v⟩ := p
    simp only [tmErase, tmKeys, List.filter_cons, List.map_cons] at ih ⊢
    by_cases hk : k = t
    · subst hk; simp; exact ih
    · simp [hk]; exact ih

theorem mem_tmKeys_erase {t x : Nat} {m : List (Nat × Nat)} : x ∈ tmKeys (tmErase t m) ↔ x ∈ tmKeys m ∧ x ≠ t := by
  rw [tmKeys_erase]; simp

theorem tmErase_of_not_mem {t : Nat} {m : List (Nat × Nat)} (h : t ∉ tmKeys m) : tmErase t m = m := by
  simp only [tmErase, List.filter_eq_self]
  intro p hp
  simp only [tmKeys, List.mem_map, not_exists, not_and] at h
  have := h p hp
  simpa using this

theorem tmLookup_erase_ne {t t' : Nat} {m : List (Nat × Nat)} (h : t' ≠ t) :
    tmLookup t' (tmErase t m) = tmLookup t' m := by
  induction m with
  | nil => rfl
  | cons p m ih =>
    obtain ⟨k, v⟩ := p
    simp only [tmErase, List.filter_cons] at ih ⊢
    by_cases hk : k = t
    · subst hk
      simp only [bne_self_eq_false, Bool.false_eq_true, ↓reduceIte, tmLookup]
      rw [ih]
      simp [Ne.symm h]
    · simp only [bne_iff_ne, ne_eq, hk, not_false_eq_true, ↓reduceIte, tmLookup]
      rw [ih]

theorem length_filter_ne {l : List Nat} {t : Nat} (hn : l.Nodup) (ht : t ∈ l) :
    (l.filter (· != t)).length + 1 = l.length := by
  induction l with
  | nil => simp at ht
  | cons x l ih =>
    rw [List.nodup_cons] at hn
    by_cases hx : x = t
    · subst hx
      have : l.filter (· != x) = l := by
        simp only [List.filter_eq_self]
        intro y hy
        have : y ≠ x := fun e => hn.1 (e ▸ hy)
        simpa using this
      simp [this]
    · have ht' : t ∈ l := by
        simp only [List.mem_cons] at ht
        rcases ht with h | h
        · exact absurd h.symm hx
        · exact h
      have := ih hn.2 ht'
      simp [hx]; omega

/-! ### request ids in the send queue -/

def qrids : List Item → List Nat
  | [] => []
  | .req r _ :: q => r :: qrids q
  | _ :: q => qrids q

theorem mem_qrids {r : Nat} {q : List Item} : r ∈ qrids q ↔ ∃ t, Item.req r t ∈ q := by
  induction q with
  | nil => simp [qrids]
  | cons i q ih =>
    cases i with
    | req r' t' =>
      simp only [qrids, List.mem_cons, ih]
      constructor
      · rintro (h | ⟨t, h⟩)
        · subst h; exact ⟨t', Or.inl rfl⟩
        · exact ⟨t, Or.inr h⟩
      · rintro ⟨t, h | h⟩
        · injection h with h1 h2; exact Or.inl h1
        · exact Or.inr ⟨t, h⟩
    | discard w => simp [qrids, ih]
    | ping => simp [qrids, ih]

theorem qrids_append (q q' : List Item) : qrids (q ++ q') = qrids q ++ qrids q' := by
  induction q with
  | nil => rfl
  | cons i q ih => cases i <;> simp [qrids, ih]

/-! ### the specification, clause by clause -/

/-- the tags a step gives to requests: the one assigned by `req`, those of written request frames -/
def givenTags (op : Op) (o : Obs) : List Nat :=
  (if isReqOk op o then [o.assigned] else []) ++ reqTags o.wrote

/-- `specObsTags` accepts a step exactly when the five C11 clauses hold -/
theorem specObsTags_ok_iff (cfg : Cfg) (a : Acc) (idx : Nat) (op : Op) (o : Obs) :
    specObsTags cfg a idx op o = .ok ↔
      ((∀ t ∈ givenTags op o, 2 ≤ t ∧ t < cfg.max) ∧
       uniqueOk a.tags (reqTags o.wrote) = true ∧
       (∀ t ∈ o.free, t ∈ a.pfree ∨ answers op t = true ∨ t ∉ a.tags) ∧
       (isReqOk op o = true → a.pfree ≠ [] → o.assigned ∈ a.pfree) ∧
       (op ≠ .reopen → o.next ≤ Nat.max a.peak (o.tagmap.length + a.held) + 1)) := by
  unfold specObsTags givenTags
  simp only
  split
  · next t ht =>
    have hm := List.mem_of_find?_eq_some ht
    have hp := List.find?_some ht
    simp only [decide_eq_true_eq] at hp
    constructor
    · intro h; cases h
    · intro h; have := (h.1 t hm).1; omega
  · next hnone1 =>
    rw [List.find?_eq_none] at hnone1
    split
    · next t ht =>
      have hm := List.mem_of_find?_eq_some ht
      have hp := List.find?_some ht
      simp only [decide_eq_true_eq] at hp
      constructor
      · intro h; cases h
      · intro h; have := (h.1 t hm).2; omega
    · next hnone2 =>
      rw [List.find?_eq_none] at hnone2
      have hr : ∀ t ∈ (if isReqOk op o = true then [o.assigned] else []) ++ reqTags o.wrote, 2 ≤ t ∧ t < cfg.max := by
        intro t ht
        have h1 := hnone1 t ht
        have h2 := hnone2 t ht
        simp only [decide_eq_true_eq] at h1 h2
        omega
      split
      · next hu =>
        constructor
        · intro h; cases h
        · intro h; rw [h.2.1] at hu; simp at hu
      · next hu =>
        have hu' : uniqueOk a.tags (reqTags o.wrote) = true := by simpa using hu
        split
        · next t ht =>
          have hm := List.mem_of_find?_eq_some ht
          have hp := List.find?_some ht
          simp only [Bool.and_eq_true, Bool.not_eq_true', List.contains_eq_mem, decide_eq_false_iff_not,
            decide_eq_true_eq] at hp
          constructor
          · intro h; cases h
          · intro h
            rcases h.2.2.1 t hm with h' | h' | h'
            · exact absurd h' hp.1.1
            · rw [hp.1.2] at h'; cases h'
            · exact absurd hp.2 h'
        · next hnone3 =>
          rw [List.find?_eq_none] at hnone3
          have hrel : ∀ t ∈ o.free, t ∈ a.pfree ∨ answers op t = true ∨ t ∉ a.tags := by
            intro t ht
            have := hnone3 t ht
            simp only [Bool.and_eq_true, Bool.not_eq_true', List.contains_eq_mem, decide_eq_false_iff_not,
              decide_eq_true_eq, not_and] at this
            by_cases h1 : t ∈ a.pfree
            · exact Or.inl h1
            · by_cases h2 : answers op t = true
              · exact Or.inr (Or.inl h2)
              · exact Or.inr (Or.inr (this ⟨h1, by simpa using h2⟩))
          split
          · next hre =>
            simp only [Bool.and_eq_true, Bool.not_eq_true', List.isEmpty_eq_false_iff, ne_eq,
              List.contains_eq_mem, decide_eq_false_iff_not] at hre
            constructor
            · intro h; cases h
            · intro h; exact absurd (h.2.2.2.1 hre.1.1 hre.1.2) hre.2
          · next hre =>
            have hreuse : isReqOk op o = true → a.pfree ≠ [] → o.assigned ∈ a.pfree := by
              intro h1 h2
              by_contra h3
              apply hre
              simp only [Bool.and_eq_true, Bool.not_eq_true', List.isEmpty_eq_false_iff, ne_eq,
                List.contains_eq_mem, decide_eq_false_iff_not]
              exact ⟨⟨h1, h2⟩, h3⟩
            split
            · next hhw =>
              simp only [Bool.and_eq_true, bne_iff_ne, ne_eq, decide_eq_true_eq] at hhw
              constructor
              · intro h; cases h
              · intro h; have := h.2.2.2.2 hhw.1; omega
            · next hhw =>
              simp only [Bool.and_eq_true, bne_iff_ne, ne_eq, decide_eq_true_eq, not_and, Nat.not_lt] at hhw
              constructor
              · intro _; exact ⟨hr, hu', hrel, hreuse, fun h => by have := hhw h; omega⟩
              · intro _; rfl

/-- `specObs` accepts a step exactly when the five C11 clauses and the C02 clause hold -/
theorem specObs_ok_iff (cfg : Cfg) (a : Acc) (idx : Nat) (op : Op) (o : Obs) :
    specObs cfg a idx op o = .ok ↔
      ((∀ t ∈ givenTags op o, 2 ≤ t ∧ t < cfg.max) ∧
       uniqueOk a.tags (reqTags o.wrote) = true ∧
       (∀ t ∈ o.free, t ∈ a.pfree ∨ answers op t = true ∨ t ∉ a.tags) ∧
       (isReqOk op o = true → a.pfree ≠ [] → o.assigned ∈ a.pfree) ∧
       (op ≠ .reopen → o.next ≤ Nat.max a.peak (o.tagmap.length + a.held) + 1) ∧
       ownReplyBad a op o = none) := by
  unfold specObs
  cases hb : ownReplyBad a op o with
  | some p =>
    simp only
    constructor
    · intro h; cases h
    · intro h; cases h.2.2.2.2.2
  | none =>
    simp only [specObsTags_ok_iff]
    constructor
    · rintro ⟨c1, c2, c3, c4, c5⟩; exact ⟨c1, c2, c3, c4, c5, trivial⟩
    · rintro ⟨c1, c2, c3, c4, c5, _⟩; exact ⟨c1, c2, c3, c4, c5⟩

/-! ### the invariant -/

/-- L1 invariant of the pool and the tag map: every tag handed out so far (`2 … next`) is either
    free or awaiting an answer, never both, and `next` stays below `max`. -/
structure PoolInv (max held : Nat) (p : Pool) (m : List (Nat × Nat)) : Prop where
  fnd : p.free.Nodup
  knd : (tmKeys m).Nodup
  frange : ∀ t ∈ p.free, 2 ≤ t ∧ t ≤ p.next
  krange : ∀ t ∈ tmKeys m, 2 ≤ t ∧ t ≤ p.next
  disj : ∀ t ∈ p.free, t ∉ tmKeys m
  count : p.free.length + (tmKeys m).length + held + 1 = p.next
  nlt : p.next < max

/-- send queue vs. requests vs. tag map vs. the spec's set of written-and-unanswered tags -/
structure QInv (unans : List Nat) (m : List (Nat × Nat)) (q : List Item) (reqs : List Req) : Prop where
  qnd : (qrids q).Nodup
  qitem : ∀ rid t, Item.req rid t ∈ q → ∃ r, reqs[rid]? = some r ∧ r.sub = false ∧
      (r.key = .answered ∨ (r.key = .tag t ∧ tmLookup t m = some rid ∧ t ∉ unans))
  usub : ∀ t ∈ unans, t ∈ tmKeys m

structure Inv (cfg : Cfg) (a : Acc) (s : St) : Prop where
  pool : PoolInv cfg.max a.held s.pool s.tagmap
  q : QInv a.tags s.tagmap s.sendq s.reqs
  own : ∀ p ∈ a.unans, tmLookup p.1 s.tagmap = some p.2
  pfree : a.pfree = sortNat s.pool.free
  peak : s.pool.next ≤ a.peak + 1

theorem PoolInv_init {max : Nat} (h : 2 ≤ max) : PoolInv max 0 Pool.init [] := by
  refine ⟨?_, ?_, ?_, ?_, ?_, ?_, ?_⟩
  all_goals simp [Pool.init, tmKeys]
  omega

theorem QInv_init (reqs : List Req) : QInv [] [] [] reqs := by
  refine ⟨?_, ?_, ?_⟩ <;> simp [qrids]

theorem Inv_fresh (cfg : Cfg) (h : 2 ≤ cfg.max) : Inv cfg {} St.init :=
  ⟨PoolInv_init h, QInv_init _, by simp, by simp [St.init, Pool.init, sortNat_nil], by simp [St.init, Pool.init]⟩

/-! ### the starting pool of a connection of any age -/

theorem nodupB_iff : ∀ {l : List Nat}, nodupB l = true ↔ l.Nodup
  | [] => by simp [nodupB]
  | x :: xs => by
    simp only [nodupB, Bool.and_eq_true, Bool.not_eq_true', List.contains_eq_mem, decide_eq_false_iff_not,
      List.nodup_cons, nodupB_iff]

/-- `Pool.wf`, the invariant of the pool on its own, as a proposition -/
theorem Pool.wf_iff {max : Nat} {p : Pool} :
    p.wf max = true ↔ (p.free.Nodup ∧ (∀ t ∈ p.free, 2 ≤ t ∧ t ≤ p.next) ∧ 1 ≤ p.next ∧ p.next < max) := by
  simp only [Pool.wf, Bool.and_eq_true, nodupB_iff, List.all_eq_true, decide_eq_true_eq]
  constructor
  · rintro ⟨⟨⟨h1, h2⟩, h3⟩, h4⟩; exact ⟨h1, h2, h3, h4⟩
  · rintro ⟨h1, h2, h3, h4⟩; exact ⟨⟨⟨h1, h2⟩, h3⟩, h4⟩

/-- distinct tags out of `[2, n]` are at most `n − 1` -/
theorem length_le_of_range : ∀ (n : Nat) (l : List Nat), l.Nodup → (∀ t ∈ l, 2 ≤ t ∧ t ≤ n) → l.length ≤ n - 1 := by
  intro n
  induction n with
  | zero =>
    intro l _ hr
    cases l with
    | nil => simp
    | cons x xs => have := hr x (by simp); omega
  | succ n ih =>
    intro l hn hr
    have hn' : (l.erase (n + 1)).Nodup := hn.erase _
    have hr' : ∀ t ∈ l.erase (n + 1), 2 ≤ t ∧ t ≤ n := by
      intro t ht
      have := (hn.mem_erase_iff).mp ht
      have h2 := hr t this.2
      have : t ≠ n + 1 := this.1
      omega
    have hlen := ih _ hn' hr'
    by_cases hm : n + 1 ∈ l
    · have h1 := List.length_erase_of_mem hm
      have h2 := hr _ hm
      have hpos := List.length_pos_of_mem hm
      omega
    · rw [List.erase_of_not_mem hm] at hlen
      omega

theorem wf_max {cfg : Cfg} (hc : cfgWF cfg = true) : 2 ≤ cfg.max := by
  have := (Pool.wf_iff.mp hc).2.2
  simp only [Cfg.pool] at this
  omega

/-- a well-formed starting pool together with an empty tag map is in the pool invariant, the
    tags neither free nor in the tag map being the `Cfg.held` ones -/
theorem PoolInv_start {cfg : Cfg} (hc : cfgWF cfg = true) : PoolInv cfg.max cfg.held cfg.pool [] := by
  obtain ⟨h1, h2, h3, h4⟩ := Pool.wf_iff.mp hc
  have hl := length_le_of_range _ _ h1 h2
  simp only [Cfg.pool] at h1 h2 h3 h4 hl
  refine ⟨h1, by simp [tmKeys], h2, by simp [tmKeys], by simp [tmKeys], ?_, h4⟩
  simp only [Cfg.pool, Cfg.held, tmKeys, List.map_nil, List.length_nil]
  omega

/-- **the invariant holds at the start of every script**, whatever the age of the connection -/
theorem Inv_init (cfg : Cfg) (hc : cfgWF cfg = true) : Inv cfg (Acc.init cfg) (initSt cfg) := by
  refine ⟨PoolInv_start hc, QInv_init _, by simp [Acc.init], rfl, ?_⟩
  have := (Pool.wf_iff.mp hc).2.2.1
  simp only [Cfg.pool] at this
  simp only [initSt, St.initWith, Cfg.pool, Acc.init]
  omega

/-- a fresh connection is the youngest well-formed start -/
theorem initSt_fresh (max : Nat) (fl : Flavour) : initSt { max := max, fl := fl } = St.init := rfl

theorem Acc_init_fresh (max : Nat) (fl : Flavour) : Acc.init { max := max, fl := fl } = {} := rfl

/-- handing out tag `t` (popped from the free set, or fresh) and recording it in the tag map -/
theorem PoolInv_acquire_fresh {max held : Nat} {p : Pool} {m : List (Nat × Nat)} (rid : Nat)
    (h : PoolInv max held p m) (hf : p.free = []) (hne : p.next + 1 ≠ max) :
    PoolInv max held { p with next := p.next + 1 } (tmSet (p.next + 1) rid m) ∧ p.next + 1 ∉ tmKeys m := by
  have hnk : p.next + 1 ∉ tmKeys m := fun hk => by have := (h.krange _ hk).2; omega
  refine ⟨?_, hnk⟩
  have he : tmErase (p.next + 1) m = m := tmErase_of_not_mem hnk
  have hcount := h.count
  have hnlt := h.nlt
  simp only [tmSet, he]
  refine ⟨?_, ?_, ?_, ?_, ?_, ?_, ?_⟩
  · simp [hf]
  · simp only [tmKeys, List.map_cons, List.nodup_cons]; exact ⟨hnk, h.knd⟩
  · simp [hf]
  · intro t ht
    simp only [tmKeys, List.map_cons, List.mem_cons] at ht
    rcases ht with ht | ht
    · subst ht; simp only; omega
    · have := h.krange t ht; simp only; omega
  · simp [hf]
  · simp only [hf, tmKeys, List.map_cons, List.length_cons, List.length_nil] at hcount ⊢; omega
  · simp only; omega

theorem PoolInv_acquire_popped {max held : Nat} {p : Pool} {m : List (Nat × Nat)} (rid t : Nat)
    (h : PoolInv max held p m) (ht : t ∈ p.free) :
    PoolInv max held { p with free := p.free.erase t } (tmSet t rid m) ∧ t ∉ tmKeys m := by
  have hnk : t ∉ tmKeys m := h.disj t ht
  refine ⟨?_, hnk⟩
  have he : tmErase t m = m := tmErase_of_not_mem hnk
  have hcount := h.count
  simp only [tmSet, he]
  refine ⟨?_, ?_, ?_, ?_, ?_, ?_, ?_⟩
  · exact h.fnd.erase t
  · simp only [tmKeys, List.map_cons, List.nodup_cons]; exact ⟨hnk, h.knd⟩
  · intro x hx; exact h.frange x (List.mem_of_mem_erase hx)
  · intro x hx
    simp only [tmKeys, List.map_cons, List.mem_cons] at hx
    rcases hx with hx | hx
    · subst hx; exact h.frange x ht
    · exact h.krange x hx
  · intro x hx
    have hx' := (h.fnd.mem_erase_iff).mp hx
    simp only [tmKeys, List.map_cons, List.mem_cons, not_or]
    exact ⟨hx'.1, h.disj x hx'.2⟩
  · have hl := List.length_erase_of_mem ht
    have hpos := List.length_pos_of_mem ht
    simp only [tmKeys, List.map_cons, List.length_cons] at hcount ⊢
    omega
  · exact h.nlt

/-- `_ReleaseTag` of a tag that is in the tag map -/
theorem PoolInv_release {max held : Nat} {p : Pool} {m : List (Nat × Nat)} (t : Nat)
    (h : PoolInv max held p m) (ht : t ∈ tmKeys m) :
    PoolInv max held (p.release t) (tmErase t m) ∧ (p.release t).free = t :: p.free ∧ (p.release t).next = p.next := by
  have hnf : t ∉ p.free := fun hf => h.disj t hf ht
  have hrel : p.release t = { p with free := t :: p.free } := by
    simp [Pool.release, hnf]
  rw [hrel]
  refine ⟨?_, rfl, rfl⟩
  have hcount := h.count
  refine ⟨?_, ?_, ?_, ?_, ?_, ?_, ?_⟩
  · simp only [List.nodup_cons]; exact ⟨hnf, h.fnd⟩
  · rw [tmKeys_erase]; exact h.knd.filter _
  · intro x hx
    simp only [List.mem_cons] at hx
    rcases hx with hx | hx
    · subst hx; exact h.krange x ht
    · exact h.frange x hx
  · intro x hx; exact h.krange x (mem_tmKeys_erase.mp hx).1
  · intro x hx hk
    have hk' := mem_tmKeys_erase.mp hk
    simp only [List.mem_cons] at hx
    rcases hx with hx | hx
    · exact hk'.2 hx
    · exact h.disj x hx hk'.1
  · have := length_filter_ne h.knd ht
    rw [tmKeys_erase]
    simp only [List.length_cons]
    omega
  · exact h.nlt

/-! ### preservation of `QInv` under the elementary state changes -/

theorem QInv_unans_subset {u u' : List Nat} {m q reqs} (h : QInv u m q reqs) (hs : ∀ t ∈ u', t ∈ u) :
    QInv u' m q reqs := by
  refine ⟨h.qnd, ?_, fun t ht => h.usub t (hs t ht)⟩
  intro rid t hi
  obtain ⟨r, hr, hsub, hk⟩ := h.qitem rid t hi
  refine ⟨r, hr, hsub, ?_⟩
  rcases hk with hk | ⟨hk, hl, hu⟩
  · exact Or.inl hk
  · exact Or.inr ⟨hk, hl, fun hc => hu (hs t hc)⟩

theorem QInv_tail {u : List Nat} {m i q reqs} (h : QInv u m (i :: q) reqs) : QInv u m q reqs := by
  refine ⟨?_, fun rid t hi => h.qitem rid t (List.mem_cons_of_mem _ hi), h.usub⟩
  have := h.qnd
  cases i with
  | req r t => simp only [qrids, List.nodup_cons] at this; exact this.2
  | discard w => simpa [qrids] using this
  | ping => simpa [qrids] using this

theorem QInv_head_not_in_tail {u : List Nat} {m rid t q reqs} (h : QInv u m (Item.req rid t :: q) reqs) :
    ∀ t', Item.req rid t' ∉ q := by
  intro t' hc
  have := h.qnd
  simp only [qrids, List.nodup_cons] at this
  exact this.1 (mem_qrids.mpr ⟨t', hc⟩)

theorem QInv_append_other {u : List Nat} {m q reqs} (i : Item) (hi : ∀ r t, i ≠ .req r t)
    (h : QInv u m q reqs) : QInv u m (q ++ [i]) reqs := by
  have hq : qrids (q ++ [i]) = qrids q := by
    rw [qrids_append]
    cases i with
    | req r t => exact absurd rfl (hi r t)
    | discard w => simp [qrids]
    | ping => simp [qrids]
  refine ⟨by rw [hq]; exact h.qnd, ?_, h.usub⟩
  intro rid t hm
  simp only [List.mem_append, List.mem_singleton] at hm
  rcases hm with hm | hm
  · exact h.qitem rid t hm
  · exact absurd hm.symm (hi rid t)

/-- the property dict of some requests changes, but for every request still in the send queue
    `sub` is untouched and the key either stays or becomes "answered" -/
theorem QInv_reqs {u : List Nat} {m q reqs reqs'} (h : QInv u m q reqs)
    (hc : ∀ rid t, Item.req rid t ∈ q → ∀ r, reqs[rid]? = some r →
      ∃ r', reqs'[rid]? = some r' ∧ r'.sub = r.sub ∧ (r'.key = r.key ∨ r'.key = .answered)) :
    QInv u m q reqs' := by
  refine ⟨h.qnd, ?_, h.usub⟩
  intro rid t hi
  obtain ⟨r, hr, hsub, hk⟩ := h.qitem rid t hi
  obtain ⟨r', hr', hsub', hk'⟩ := hc rid t hi r hr
  refine ⟨r', hr', by rw [hsub', hsub], ?_⟩
  rcases hk' with hk' | hk'
  · rw [hk']; exact hk
  · exact Or.inl hk'

/-- removing tag `t` from the tag map; every queued live request holds another tag -/
theorem QInv_erase {u : List Nat} {m q reqs} (t : Nat) (h : QInv u m q reqs)
    (hq : ∀ rid, Item.req rid t ∈ q → ∀ r, reqs[rid]? = some r → r.key ≠ .tag t)
    (hu : t ∉ u) : QInv u (tmErase t m) q reqs := by
  refine ⟨h.qnd, ?_, ?_⟩
  · intro rid t' hi
    obtain ⟨r, hr, hsub, hk⟩ := h.qitem rid t' hi
    refine ⟨r, hr, hsub, ?_⟩
    rcases hk with hk | ⟨hk, hl, hu'⟩
    · exact Or.inl hk
    · right
      have hne : t' ≠ t := by
        intro e; subst e
        exact hq rid hi r hr hk
      exact ⟨hk, by rw [tmLookup_erase_ne hne]; exact hl, hu'⟩
  · intro x hx
    exact mem_tmKeys_erase.mpr ⟨h.usub x hx, fun e => hu (e ▸ hx)⟩

/-- two entries of a tag map with duplicate-free keys that share the key are the same entry -/
theorem tmLookup_unique {t r : Nat} {m : List (Nat × Nat)} (h1 : tmLookup t m = some r) (r' : Nat)
    (h2 : tmLookup t m = some r') : r = r' := by
  rw [h1] at h2; injection h2

/-! ### one step: verdict and invariant together -/

theorem after_pfree (a : Acc) (op : Op) (o : Obs) : (a.after op o).pfree = o.free := by
  cases op <;> rfl

theorem after_peak (a : Acc) (op : Op) (o : Obs) (h : op ≠ .reopen) :
    (a.after op o).peak = Nat.max a.peak (o.tagmap.length + a.held) := by
  cases op <;> first | rfl | exact absurd rfl h

theorem after_held (a : Acc) (op : Op) (o : Obs) (h : op ≠ .reopen) : (a.after op o).held = a.held := by
  cases op <;> first | rfl | exact absurd rfl h

theorem map_fst_reqPairs (fs : List Frame) : (reqPairs fs).map (·.1) = reqTags fs := by
  simp [reqPairs, reqTags, List.map_map, Function.comp_def]

theorem after_pairs_other (a : Acc) (op : Op) (o : Obs) (h1 : op ≠ .reopen) (h2 : ∀ m t, op ≠ .process m t) :
    (a.after op o).unans = a.unans ++ reqPairs o.wrote := by
  cases op <;> first | rfl | exact absurd rfl h1 | exact absurd rfl (h2 _ _)

theorem after_pairs_process (a : Acc) (m : Int) (t : Nat) (o : Obs) :
    (a.after (.process m t) o).unans = a.unans.filter (fun p => p.1 != t) ++ reqPairs o.wrote := rfl

theorem after_unans_other (a : Acc) (op : Op) (o : Obs) (h1 : op ≠ .reopen) (h2 : ∀ m t, op ≠ .process m t) :
    (a.after op o).tags = a.tags ++ reqTags o.wrote := by
  simp only [Acc.tags, after_pairs_other a op o h1 h2, List.map_append, map_fst_reqPairs]

/-- nothing about the tag map changes and no request frame is written: the owners stay right -/
theorem own_plain {a : Acc} {m : List (Nat × Nat)} {op : Op} {o : Obs}
    (h : ∀ p ∈ a.unans, tmLookup p.1 m = some p.2) (h1 : op ≠ .reopen) (h2 : ∀ mt t, op ≠ .process mt t)
    (hw : reqPairs o.wrote = []) : ∀ p ∈ (a.after op o).unans, tmLookup p.1 m = some p.2 := by
  rw [after_pairs_other a op o h1 h2, hw, List.append_nil]; exact h

theorem ownReplyBad_other (a : Acc) (op : Op) (o : Obs) (h2 : ∀ mt t, op ≠ .process mt t) :
    ownReplyBad a op o = none := by
  cases op <;> first | rfl | exact absurd rfl (h2 _ _)

theorem step_pack (cfg : Cfg) (a : Acc) (idx : Nat) (op : Op) (s' : St) (out : Out) (hop : op ≠ .reopen)
    (hpool : PoolInv cfg.max a.held s'.pool s'.tagmap)
    (hown : ∀ p ∈ (a.after op (obsOf s' out)).unans, tmLookup p.1 s'.tagmap = some p.2)
    (hor : ownReplyBad a op (obsOf s' out) = none)
    (hq : QInv (a.after op (obsOf s' out)).tags s'.tagmap s'.sendq s'.reqs)
    (hgiven : ∀ t ∈ givenTags op (obsOf s' out), 2 ≤ t ∧ t < cfg.max)
    (huniq : uniqueOk a.tags (reqTags out.wrote) = true)
    (hfree : ∀ t ∈ s'.pool.free, t ∈ a.pfree ∨ answers op t = true ∨ t ∉ a.tags)
    (hreuse : isReqOk op (obsOf s' out) = true → a.pfree ≠ [] → out.assigned ∈ a.pfree)
    (hpk : s'.pool.next ≤ Nat.max a.peak ((tmKeys s'.tagmap).length + a.held) + 1) :
    specObs cfg a idx op (obsOf s' out) = .ok ∧ Inv cfg (a.after op (obsOf s' out)) s' := by
  constructor
  · rw [specObs_ok_iff]
    refine ⟨hgiven, huniq, ?_, hreuse, ?_, hor⟩
    · intro t ht
      exact hfree t (mem_sortNat.mp ht)
    · intro _
      simp only [obsOf, length_sortNat]
      exact hpk
  · refine ⟨by rw [after_held _ _ _ hop]; exact hpool, hq, hown, ?_, ?_⟩
    · rw [after_pfree]; rfl
    · rw [after_peak _ _ _ hop]
      simp only [obsOf, length_sortNat]
      exact hpk

theorem peak_mono {n p l : Nat} (h : n ≤ p + 1) : n ≤ Nat.max p l + 1 := by
  have : p ≤ Nat.max p l := Nat.le_max_left p l
  omega

/-- every tag that was free before is accepted by the `release` clause -/
theorem free_old {a : Acc} {s : St} {op : Op} (hpf : a.pfree = sortNat s.pool.free) :
    ∀ t ∈ s.pool.free, t ∈ a.pfree ∨ answers op t = true ∨ t ∉ a.tags := by
  intro t ht; left; rw [hpf]; exact mem_sortNat.mpr ht

theorem uniqueOk_nil (u : List Nat) : uniqueOk u [] = true := rfl

theorem uniqueOk_single {u : List Nat} {t : Nat} (h : t ∉ u) : uniqueOk u [t] = true := by
  simp [uniqueOk, h]

/-! #### fire -/

theorem Inv_step_fire (cfg : Cfg) (a : Acc) (s : St) (rid idx : Nat) (h : Inv cfg a s)
    (hen : opEnabled cfg s (.fire rid) = true) :
    specObs cfg a idx (.fire rid) (step cfg s (.fire rid)).2 = .ok ∧
      Inv cfg (a.after (.fire rid) (step cfg s (.fire rid)).2) (step cfg s (.fire rid)).1 := by
  simp only [step, stepOp]
  simp only [opEnabled, stepOp] at hen
  unfold stepFire at hen ⊢
  cases hr : s.reqs[rid]? with
  | none => simp [hr] at hen
  | some r =>
    simp only [hr] at hen ⊢
    by_cases hev : r.ev = .unfired
    · simp only [hev, ↓reduceIte]
      refine step_pack cfg a idx (.fire rid) _ _ (by simp) h.pool (own_plain h.own (by simp) (by simp) rfl) (ownReplyBad_other _ _ _ (by simp)) ?_ ?_ ?_ ?_ ?_ ?_
      · rw [after_unans_other _ _ _ (by simp) (by simp)]
        simp only [obsOf, reqTags, List.filter_nil, List.map_nil, List.append_nil]
        apply QInv_reqs h.q
        intro rid' t hi r' hr'
        by_cases he : rid' = rid
        · subst he
          rw [hr] at hr'; injection hr' with hr'; subst hr'
          have hlt : rid' < s.reqs.length := by
            rcases Nat.lt_or_ge rid' s.reqs.length with h | h
            · exact h
            · rw [List.getElem?_eq_none h] at hr; cases hr
          refine ⟨{ r with ev := .fired }, ?_, rfl, Or.inl rfl⟩
          rw [List.getElem?_set]; simp [hlt]
        · exact ⟨r', by rw [List.getElem?_set]; simp [Ne.symm he, hr'], rfl, Or.inl rfl⟩
      · simp [givenTags, isReqOk, obsOf, reqTags]
      · exact uniqueOk_nil _
      · exact free_old h.pfree
      · simp [isReqOk]
      · exact peak_mono h.peak
    · simp [hev] at hen

theorem set_self {reqs : List Req} {rid : Nat} {r : Req} (h : reqs[rid]? = some r) (r' : Req) :
    (reqs.set rid r')[rid]? = some r' := by
  have hlt : rid < reqs.length := by
    rcases Nat.lt_or_ge rid reqs.length with h' | h'
    · exact h'
    · rw [List.getElem?_eq_none h'] at h; cases h
  rw [List.getElem?_set]; simp [hlt]

theorem set_ne {reqs : List Req} {rid rid' : Nat} (hne : rid' ≠ rid) (r' : Req) :
    (reqs.set rid r')[rid']? = reqs[rid']? := by
  rw [List.getElem?_set]; simp [Ne.symm hne]

/-! #### ping -/

theorem Inv_step_ping (cfg : Cfg) (a : Acc) (s : St) (idx : Nat) (h : Inv cfg a s) :
    specObs cfg a idx .ping (obsOf { s with sendq := s.sendq ++ [.ping] } {}) = .ok ∧
      Inv cfg (a.after .ping (obsOf { s with sendq := s.sendq ++ [.ping] } {})) { s with sendq := s.sendq ++ [.ping] } := by
  refine step_pack cfg a idx .ping _ _ (by simp) h.pool (own_plain h.own (by simp) (by simp) rfl) (ownReplyBad_other _ _ _ (by simp)) ?_ ?_ ?_ ?_ ?_ ?_
  · rw [after_unans_other _ _ _ (by simp) (by simp)]
    simp only [obsOf, reqTags, List.filter_nil, List.map_nil, List.append_nil]
    exact QInv_append_other .ping (by simp) h.q
  · simp [givenTags, isReqOk, obsOf, reqTags]
  · exact uniqueOk_nil _
  · exact free_old h.pfree
  · simp [isReqOk]
  · exact peak_mono h.peak

/-! #### notify -/

theorem Inv_step_notify (cfg : Cfg) (a : Acc) (s : St) (rid idx : Nat) (h : Inv cfg a s)
    (hen : ((stepNotify s rid).2.res != .badop) = true) :
    specObs cfg a idx (.notify rid) (obsOf (stepNotify s rid).1 (stepNotify s rid).2) = .ok ∧
      Inv cfg (a.after (.notify rid) (obsOf (stepNotify s rid).1 (stepNotify s rid).2)) (stepNotify s rid).1 := by
  unfold stepNotify at hen ⊢
  cases hr : s.reqs[rid]? with
  | none => simp [hr] at hen
  | some r =>
    simp only [hr] at hen ⊢
    by_cases hev : r.ev = .fired ∧ r.sub = true
    · rw [if_pos hev]
      -- the request is not in the send queue any more: its callback is subscribed
      have hreqs : QInv a.tags s.tagmap s.sendq (s.reqs.set rid { r with sub := false, key := .absent }) := by
        apply QInv_reqs h.q
        intro rid' t hi r' hr'
        have hne : rid' ≠ rid := by
          intro e; subst e
          obtain ⟨r2, hr2, hsub, _⟩ := h.q.qitem rid' t hi
          rw [hr] at hr2; injection hr2 with hr2; subst hr2
          rw [hev.2] at hsub; cases hsub
        exact ⟨r', by rw [set_ne hne]; exact hr', rfl, Or.inl rfl⟩
      cases hk : r.key with
      | tag t =>
        simp only
        refine step_pack cfg a idx (.notify rid) _ _ (by simp) h.pool (own_plain h.own (by simp) (by simp) rfl) (ownReplyBad_other _ _ _ (by simp)) ?_ ?_ ?_ ?_ ?_ ?_
        · rw [after_unans_other _ _ _ (by simp) (by simp)]
          simp only [obsOf, reqTags, List.filter_nil, List.map_nil, List.append_nil]
          exact QInv_append_other (.discard t) (by simp) hreqs
        · simp [givenTags, isReqOk, obsOf, reqTags]
        · exact uniqueOk_nil _
        · exact free_old h.pfree
        · simp [isReqOk]
        · exact peak_mono h.peak
      | answered =>
        simp only
        refine step_pack cfg a idx (.notify rid) _ _ (by simp) h.pool (own_plain h.own (by simp) (by simp) rfl) (ownReplyBad_other _ _ _ (by simp)) ?_ ?_ ?_ ?_ ?_ ?_
        · rw [after_unans_other _ _ _ (by simp) (by simp)]
          simp only [obsOf, reqTags, List.filter_nil, List.map_nil, List.append_nil]
          exact hreqs
        · simp [givenTags, isReqOk, obsOf, reqTags]
        · exact uniqueOk_nil _
        · exact free_old h.pfree
        · simp [isReqOk]
        · exact peak_mono h.peak
      | absent =>
        simp only
        refine step_pack cfg a idx (.notify rid) _ _ (by simp) h.pool (own_plain h.own (by simp) (by simp) rfl) (ownReplyBad_other _ _ _ (by simp)) ?_ ?_ ?_ ?_ ?_ ?_
        · rw [after_unans_other _ _ _ (by simp) (by simp)]
          simp only [obsOf, reqTags, List.filter_nil, List.map_nil, List.append_nil]
          exact hreqs
        · simp [givenTags, isReqOk, obsOf, reqTags]
        · exact uniqueOk_nil _
        · exact free_old h.pfree
        · simp [isReqOk]
        · exact peak_mono h.peak
    · simp [hev] at hen

/-! #### process -/

theorem releaseTag_some {s : St} {t rid : Nat} (h : tmLookup t s.tagmap = some rid) :
    releaseTag s t = ({ s with tagmap := tmErase t s.tagmap, pool := s.pool.release t }, some rid) := by
  simp [releaseTag, h]

theorem releaseTag_none {s : St} {t : Nat} (h : tmLookup t s.tagmap = none) : releaseTag s t = (s, none) := by
  simp [releaseTag, h]

theorem after_unans_process (a : Acc) (m : Int) (t : Nat) (o : Obs) :
    (a.after (.process m t) o).tags = a.tags.filter (· != t) ++ reqTags o.wrote := by
  simp only [Acc.tags, after_pairs_process, List.map_append, map_fst_reqPairs, List.filter_map]
  rfl

theorem Inv_process_nochange (cfg : Cfg) (a : Acc) (s : St) (mt : Int) (t idx : Nat) (h : Inv cfg a s) :
    specObs cfg a idx (.process mt t) (obsOf s {}) = .ok ∧
      Inv cfg (a.after (.process mt t) (obsOf s {})) s := by
  refine step_pack cfg a idx (.process mt t) _ _ (by simp) h.pool ?_ ?_ ?_ ?_ ?_ ?_ ?_ ?_
  · intro p hp
    rw [after_pairs_process] at hp
    simp only [obsOf, reqPairs, List.filter_nil, List.map_nil, List.append_nil] at hp
    exact h.own p (List.mem_filter.mp hp).1
  · simp [ownReplyBad, obsOf]
  · rw [after_unans_process]
    simp only [obsOf, reqTags, List.filter_nil, List.map_nil, List.append_nil]
    exact QInv_unans_subset h.q (fun x hx => (List.mem_filter.mp hx).1)
  · simp [givenTags, isReqOk, obsOf, reqTags]
  · exact uniqueOk_nil _
  · exact free_old h.pfree
  · simp [isReqOk]
  · exact peak_mono h.peak

/-- `_ProcessTaggedReply` on any tag (the whole of Kafka's `_ProcessReply`; ThriftMux's for a
    frame that is not the ping answer and not on tag 0) -/
theorem Inv_process_tagged (cfg : Cfg) (a : Acc) (s : St) (mt : Int) (t idx : Nat) (h : Inv cfg a s) :
    specObs cfg a idx (.process mt t) (obsOf (stepProcessKafka s t).1 (stepProcessKafka s t).2) = .ok ∧
      Inv cfg (a.after (.process mt t) (obsOf (stepProcessKafka s t).1 (stepProcessKafka s t).2))
        (stepProcessKafka s t).1 := by
  unfold stepProcessKafka
  cases hl : tmLookup t s.tagmap with
  | none =>
    rw [releaseTag_none hl]
    exact Inv_process_nochange cfg a s mt t idx h
  | some rid0 =>
    rw [releaseTag_some hl]
    simp only
    have hkey : t ∈ tmKeys s.tagmap := tmLookup_some_key hl
    obtain ⟨hp', hfree', hnext'⟩ := PoolInv_release t h.pool hkey
    refine step_pack cfg a idx (.process mt t) _ _ (by simp) hp' ?_ ?_ ?_ ?_ ?_ ?_ ?_ ?_
    · intro p hp
      rw [after_pairs_process] at hp
      simp only [obsOf, reqPairs, List.filter_nil, List.map_nil, List.append_nil] at hp
      obtain ⟨hp1, hp2⟩ := List.mem_filter.mp hp
      have hne : p.1 ≠ t := by simpa using hp2
      show tmLookup p.1 (tmErase t s.tagmap) = some p.2
      rw [tmLookup_erase_ne hne]; exact h.own p hp1
    · simp only [ownReplyBad, obsOf, List.find?_eq_none, List.mem_filter, beq_iff_eq, List.any_cons,
        List.any_nil, Bool.or_false, bne_iff_ne, ne_eq, Decidable.not_not, and_imp]
      intro p hp1 hp2
      have := h.own p hp1
      rw [hp2, hl] at this
      injection this
    · rw [after_unans_process]
      simp only [obsOf, reqTags, List.filter_nil, List.map_nil, List.append_nil]
      -- the answered request's key becomes "answered"
      have h1 : QInv a.tags s.tagmap s.sendq (setKey s.reqs rid0 .answered) := by
        apply QInv_reqs h.q
        intro rid' t' hi r' hr'
        unfold setKey
        by_cases he : rid' = rid0
        · subst he
          rw [hr']
          exact ⟨{ r' with key := .answered }, set_self hr' _, rfl, Or.inr rfl⟩
        · cases hr0 : s.reqs[rid0]? with
          | none => exact ⟨r', hr', rfl, Or.inl rfl⟩
          | some r0 => exact ⟨r', by simp only; rw [set_ne he]; exact hr', rfl, Or.inl rfl⟩
      have h2 := QInv_unans_subset (u' := a.tags.filter (· != t)) h1
        (fun x hx => (List.mem_filter.mp hx).1)
      apply QInv_erase t h2
      · intro rid' hi r' hr' hk
        by_cases he : rid' = rid0
        · subst he
          obtain ⟨r0, hr0, _, _⟩ := h.q.qitem rid' t hi
          unfold setKey at hr'
          rw [hr0] at hr'
          simp only at hr'
          rw [set_self hr0] at hr'
          injection hr' with hr'
          subst hr'
          cases hk
        · obtain ⟨r0, hr0, _, hk0⟩ := h.q.qitem rid' t hi
          have hsame : (setKey s.reqs rid0 .answered)[rid']? = s.reqs[rid']? := by
            unfold setKey
            cases hr00 : s.reqs[rid0]? with
            | none => rfl
            | some r00 => simp only; exact set_ne he _
          rw [hsame, hr0] at hr'
          injection hr' with hr'
          subst hr'
          rcases hk0 with hk0 | ⟨_, hl0, _⟩
          · rw [hk0] at hk; cases hk
          · rw [hl] at hl0; injection hl0 with hl0; exact he hl0.symm
      · simp
    · simp [givenTags, isReqOk, obsOf, reqTags]
    · exact uniqueOk_nil _
    · intro x hx
      simp only [hfree', List.mem_cons] at hx
      rcases hx with hx | hx
      · subst hx; right; left; simp [answers]
      · exact free_old h.pfree x hx
    · simp [isReqOk]
    · simp only [hnext']
      have hle : s.pool.next ≤ a.peak + 1 := h.peak
      exact peak_mono hle

theorem Inv_step_process (cfg : Cfg) (a : Acc) (s : St) (mt : Int) (t idx : Nat) (h : Inv cfg a s) :
    specObs cfg a idx (.process mt t) (obsOf (stepProcess s mt t).1 (stepProcess s mt t).2) = .ok ∧
      Inv cfg (a.after (.process mt t) (obsOf (stepProcess s mt t).1 (stepProcess s mt t).2)) (stepProcess s mt t).1 := by
  unfold stepProcess
  by_cases hping : t = 1 ∧ mt = -65
  · rw [if_pos hping]; exact Inv_process_nochange cfg a s mt t idx h
  · rw [if_neg hping]
    by_cases ht0 : t ≠ 0
    · rw [if_pos ht0]
      exact Inv_process_tagged cfg a s mt t idx h
    · rw [if_neg ht0]; exact Inv_process_nochange cfg a s mt t idx h

theorem Inv_step_process_kafka (cfg : Cfg) (a : Acc) (s : St) (mt : Int) (t idx : Nat) (h : Inv cfg a s) :
    specObs cfg a idx (.process mt t) (obsOf (stepProcessKafka s t).1 (stepProcessKafka s t).2) = .ok ∧
      Inv cfg (a.after (.process mt t) (obsOf (stepProcessKafka s t).1 (stepProcessKafka s t).2))
        (stepProcessKafka s t).1 := Inv_process_tagged cfg a s mt t idx h

/-- Kafka's time-out callback: the key is popped, nothing else happens -/
theorem Inv_step_notify_kafka (cfg : Cfg) (a : Acc) (s : St) (rid idx : Nat) (h : Inv cfg a s)
    (hen : ((stepNotifyKafka s rid).2.res != .badop) = true) :
    specObs cfg a idx (.notify rid) (obsOf (stepNotifyKafka s rid).1 (stepNotifyKafka s rid).2) = .ok ∧
      Inv cfg (a.after (.notify rid) (obsOf (stepNotifyKafka s rid).1 (stepNotifyKafka s rid).2))
        (stepNotifyKafka s rid).1 := by
  unfold stepNotifyKafka at hen ⊢
  cases hr : s.reqs[rid]? with
  | none => simp [hr] at hen
  | some r =>
    simp only [hr] at hen ⊢
    by_cases hev : r.ev = .fired ∧ r.sub = true
    · rw [if_pos hev]
      have hreqs : QInv a.tags s.tagmap s.sendq (s.reqs.set rid { r with sub := false, key := .absent }) := by
        apply QInv_reqs h.q
        intro rid' t hi r' hr'
        have hne : rid' ≠ rid := by
          intro e; subst e
          obtain ⟨r2, hr2, hsub, _⟩ := h.q.qitem rid' t hi
          rw [hr] at hr2; injection hr2 with hr2; subst hr2
          rw [hev.2] at hsub; cases hsub
        exact ⟨r', by rw [set_ne hne]; exact hr', rfl, Or.inl rfl⟩
      simp only
      refine step_pack cfg a idx (.notify rid) _ _ (by simp) h.pool (own_plain h.own (by simp) (by simp) rfl) (ownReplyBad_other _ _ _ (by simp)) ?_ ?_ ?_ ?_ ?_ ?_
      · rw [after_unans_other _ _ _ (by simp) (by simp)]
        simp only [obsOf, reqTags, List.filter_nil, List.map_nil, List.append_nil]
        exact hreqs
      · simp [givenTags, isReqOk, obsOf, reqTags]
      · exact uniqueOk_nil _
      · exact free_old h.pfree
      · simp [isReqOk]
      · exact peak_mono h.peak
    · simp [hev] at hen

/-! #### send -/

theorem reqTags_req (t rid : Nat) : reqTags [⟨.req, t, rid⟩] = [t] := by
  simp [reqTags]

theorem Inv_send_other (cfg : Cfg) (a : Acc) (s : St) (idx : Nat) (i : Item) (q : List Item) (f : Frame)
    (h : Inv cfg a s) (hq : s.sendq = i :: q) (hf : f.kind ≠ .req) :
    specObs cfg a idx .send (obsOf { s with sendq := q } { wrote := [f] }) = .ok ∧
      Inv cfg (a.after .send (obsOf { s with sendq := q } { wrote := [f] })) { s with sendq := q } := by
  have hrt : reqTags [f] = [] := by
    simp [reqTags, hf]
  have hrp : reqPairs [f] = [] := by
    simp [reqPairs, hf]
  refine step_pack cfg a idx .send _ _ (by simp) h.pool (own_plain h.own (by simp) (by simp) hrp) (ownReplyBad_other _ _ _ (by simp)) ?_ ?_ ?_ ?_ ?_ ?_
  · rw [after_unans_other _ _ _ (by simp) (by simp)]
    simp only [obsOf, hrt, List.append_nil]
    have := h.q
    rw [hq] at this
    exact QInv_tail this
  · simp [givenTags, isReqOk, obsOf, hrt]
  · simp only [hrt]; exact uniqueOk_nil _
  · exact free_old h.pfree
  · simp [isReqOk]
  · exact peak_mono h.peak

theorem Inv_send_skip (cfg : Cfg) (a : Acc) (s : St) (idx : Nat) (i : Item) (q : List Item)
    (h : Inv cfg a s) (hq : s.sendq = i :: q) :
    specObs cfg a idx .send (obsOf { s with sendq := q } {}) = .ok ∧
      Inv cfg (a.after .send (obsOf { s with sendq := q } {})) { s with sendq := q } := by
  refine step_pack cfg a idx .send _ _ (by simp) h.pool (own_plain h.own (by simp) (by simp) rfl) (ownReplyBad_other _ _ _ (by simp)) ?_ ?_ ?_ ?_ ?_ ?_
  · rw [after_unans_other _ _ _ (by simp) (by simp)]
    simp only [obsOf, reqTags, List.filter_nil, List.map_nil, List.append_nil]
    have := h.q
    rw [hq] at this
    exact QInv_tail this
  · simp [givenTags, isReqOk, obsOf, reqTags]
  · exact uniqueOk_nil _
  · exact free_old h.pfree
  · simp [isReqOk]
  · exact peak_mono h.peak

/-- a live request at the head of the queue is written: its tag joins the unanswered set -/
theorem Inv_send_write (cfg : Cfg) (a : Acc) (s : St) (idx rid t : Nat) (q : List Item)
    (h : Inv cfg a s) (hq : s.sendq = .req rid t :: q)
    (hl : tmLookup t s.tagmap = some rid) (hu : t ∉ a.tags)
    (reqs' : List Req) (hreqs' : ∀ rid', rid' ≠ rid → reqs'[rid']? = s.reqs[rid']?) :
    specObs cfg a idx .send (obsOf { s with sendq := q, reqs := reqs' } { wrote := [⟨.req, t, rid⟩] }) = .ok ∧
      Inv cfg (a.after .send (obsOf { s with sendq := q, reqs := reqs' } { wrote := [⟨.req, t, rid⟩] }))
        { s with sendq := q, reqs := reqs' } := by
  have hkey : t ∈ tmKeys s.tagmap := tmLookup_some_key hl
  have hrange := h.pool.krange t hkey
  have hnlt := h.pool.nlt
  have hqinv := h.q
  rw [hq] at hqinv
  have hnotin := QInv_head_not_in_tail hqinv
  refine step_pack cfg a idx .send _ _ (by simp) h.pool ?_ (ownReplyBad_other _ _ _ (by simp)) ?_ ?_ ?_ ?_ ?_ ?_
  · intro p hp
    rw [after_pairs_other _ _ _ (by simp) (by simp)] at hp
    have hrp : reqPairs [(⟨.req, t, rid⟩ : Frame)] = [(t, rid)] := by simp [reqPairs]
    simp only [obsOf, hrp, List.mem_append, List.mem_singleton] at hp
    rcases hp with hp | hp
    · exact h.own p hp
    · subst hp; exact hl
  · rw [after_unans_other _ _ _ (by simp) (by simp)]
    simp only [obsOf, reqTags_req]
    have htail := QInv_tail hqinv
    refine ⟨htail.qnd, ?_, ?_⟩
    · intro rid' t' hi
      have hne : rid' ≠ rid := fun e => hnotin t' (e ▸ hi)
      obtain ⟨r2, hr2, hsub2, hk2⟩ := htail.qitem rid' t' hi
      refine ⟨r2, by rw [hreqs' rid' hne]; exact hr2, hsub2, ?_⟩
      rcases hk2 with hk2 | ⟨hk2, hl2, hu2⟩
      · exact Or.inl hk2
      · right
        refine ⟨hk2, hl2, ?_⟩
        intro hc
        simp only [List.mem_append, List.mem_singleton] at hc
        rcases hc with hc | hc
        · exact hu2 hc
        · subst hc
          rw [hl] at hl2; injection hl2 with hl2
          exact hne hl2.symm
    · intro x hx
      simp only [List.mem_append, List.mem_singleton] at hx
      rcases hx with hx | hx
      · exact h.q.usub x hx
      · subst hx; exact hkey
  · intro x hx
    simp only [givenTags, isReqOk, obsOf, reqTags_req, Bool.false_eq_true, ↓reduceIte, List.nil_append,
      List.mem_singleton] at hx
    subst hx
    omega
  · simp only [reqTags_req]; exact uniqueOk_single hu
  · exact free_old h.pfree
  · simp [isReqOk]
  · exact peak_mono h.peak

/-- a request whose deadline passed while it was queued is dropped and its tag released -/
theorem Inv_send_drop (cfg : Cfg) (a : Acc) (s : St) (idx rid t : Nat) (q : List Item) (r : Req)
    (h : Inv cfg a s) (hq : s.sendq = .req rid t :: q)
    (hl : tmLookup t s.tagmap = some rid) (hu : t ∉ a.tags) :
    let s1 : St := { s with sendq := q, reqs := s.reqs.set rid r }
    specObs cfg a idx .send (obsOf (releaseTag s1 t).1 {}) = .ok ∧
      Inv cfg (a.after .send (obsOf (releaseTag s1 t).1 {})) (releaseTag s1 t).1 := by
  intro s1
  have hl1 : tmLookup t s1.tagmap = some rid := hl
  rw [releaseTag_some hl1]
  simp only
  have hkey : t ∈ tmKeys s.tagmap := tmLookup_some_key hl
  obtain ⟨hp', hfree', hnext'⟩ := PoolInv_release t h.pool hkey
  have hqinv := h.q
  rw [hq] at hqinv
  have hnotin := QInv_head_not_in_tail hqinv
  refine step_pack cfg a idx .send _ _ (by simp) hp' ?_ (ownReplyBad_other _ _ _ (by simp)) ?_ ?_ ?_ ?_ ?_ ?_
  · intro p hp
    rw [after_pairs_other _ _ _ (by simp) (by simp)] at hp
    simp only [obsOf, reqPairs, List.filter_nil, List.map_nil, List.append_nil] at hp
    have hne : p.1 ≠ t := by
      intro e; apply hu; rw [← e]; exact List.mem_map_of_mem hp
    show tmLookup p.1 (tmErase t s.tagmap) = some p.2
    rw [tmLookup_erase_ne hne]; exact h.own p hp
  · rw [after_unans_other _ _ _ (by simp) (by simp)]
    simp only [obsOf, reqTags, List.filter_nil, List.map_nil, List.append_nil]
    have htail := QInv_tail hqinv
    have h1 : QInv a.tags s.tagmap q (s.reqs.set rid r) := by
      apply QInv_reqs htail
      intro rid' t' hi r' hr'
      have hne : rid' ≠ rid := fun e => hnotin t' (e ▸ hi)
      exact ⟨r', by rw [set_ne hne]; exact hr', rfl, Or.inl rfl⟩
    apply QInv_erase t h1
    · intro rid' hi r' hr' hk
      have hne : rid' ≠ rid := fun e => hnotin t (e ▸ hi)
      obtain ⟨r2, hr2, _, hk2⟩ := htail.qitem rid' t hi
      rw [set_ne hne, hr2] at hr'
      injection hr' with hr'; subst hr'
      rcases hk2 with hk2 | ⟨_, hl2, _⟩
      · rw [hk2] at hk; cases hk
      · rw [hl] at hl2; injection hl2 with hl2; exact hne hl2.symm
    · exact hu
  · simp [givenTags, isReqOk, obsOf, reqTags]
  · exact uniqueOk_nil _
  · intro x hx
    have hx' : x ∈ t :: s.pool.free := by
      have : (s1.pool.release t).free = t :: s.pool.free := hfree'
      rw [← this]; exact hx
    simp only [List.mem_cons] at hx'
    rcases hx' with hx' | hx'
    · subst hx'; right; right; exact hu
    · exact free_old h.pfree x hx'
  · simp [isReqOk]
  · have : (s1.pool.release t).next = s.pool.next := hnext'
    simp only [this]
    exact peak_mono h.peak

/-- an iteration of the send loop (the loop is not parked in a write) -/
theorem Inv_send_core (cfg : Cfg) (a : Acc) (s : St) (idx : Nat) (h : Inv cfg a s)
    (hen : ((stepSend s).2.res != .badop) = true) :
    specObs cfg a idx .send (obsOf (stepSend s).1 (stepSend s).2) = .ok ∧
      Inv cfg (a.after .send (obsOf (stepSend s).1 (stepSend s).2)) (stepSend s).1 := by
  unfold stepSend at hen ⊢
  cases hq : s.sendq with
  | nil => simp [hq] at hen
  | cons i q =>
    cases i with
    | ping => exact Inv_send_other cfg a s idx .ping q ⟨.ping, 1, 0⟩ h hq (by simp)
    | discard w => exact Inv_send_other cfg a s idx (.discard w) q ⟨.discard, 0, w⟩ h hq (by simp)
    | req rid t =>
      obtain ⟨r, hr, hsub, hk⟩ := h.q.qitem rid t (by rw [hq]; simp)
      simp only [hr]
      rcases hk with hk | ⟨hk, hl, hu⟩
      · simp only [hk]
        exact Inv_send_skip cfg a s idx _ q h hq
      · simp only [hk]
        cases hev : r.ev with
        | fired =>
          simp only
          exact Inv_send_drop cfg a s idx rid t q _ h hq hl hu
        | unfired =>
          simp only
          exact Inv_send_write cfg a s idx rid t q h hq hl hu _ (fun rid' hne => set_ne hne _)
        | noev =>
          simp only
          have := Inv_send_write cfg a s idx rid t q h hq hl hu s.reqs (fun _ _ => rfl)
          exact this

theorem Inv_step_send (cfg : Cfg) (a : Acc) (s : St) (idx : Nat) (h : Inv cfg a s)
    (hen : opEnabled cfg s .send = true) :
    specObs cfg a idx .send (step cfg s .send).2 = .ok ∧
      Inv cfg (a.after .send (step cfg s .send).2) (step cfg s .send).1 := by
  simp only [step, stepOp]
  simp only [opEnabled, stepOp] at hen
  by_cases hw : s.writing = true
  · simp [hw] at hen
  · simp only [hw] at hen ⊢
    exact Inv_send_core cfg a s idx h hen

/-! #### the write as a yield point: `wbegin`, `wend`, `quiet` -/

/-- the invariant does not look at the `writing` flag of the state, nor at the time-out
    bookkeeping of the accumulator -/
theorem Inv_congr {cfg : Cfg} {a a' : Acc} {s s' : St} (h : Inv cfg a s)
    (hu : a'.unans = a.unans) (hpf : a'.pfree = a.pfree) (hpk : a'.peak = a.peak) (hh : a'.held = a.held)
    (h1 : s'.pool = s.pool) (h2 : s'.tagmap = s.tagmap) (h3 : s'.sendq = s.sendq) (h4 : s'.reqs = s.reqs) :
    Inv cfg a' s' := by
  refine ⟨?_, ?_, ?_, ?_, ?_⟩
  · rw [hh, h1, h2]; exact h.pool
  · simp only [Acc.tags, hu, h2, h3, h4]; exact h.q
  · rw [hu, h2]; exact h.own
  · rw [hpf, h1]; exact h.pfree
  · rw [hpk, h1]; exact h.peak

theorem specObs_wbegin (cfg : Cfg) (a : Acc) (idx : Nat) (o : Obs) :
    specObs cfg a idx .wbegin o = specObs cfg a idx .send o := by
  simp [specObs, specObsTags, isReqOk, answers, ownReplyBad]

theorem specObs_plain_eq (cfg : Cfg) (a : Acc) (idx : Nat) (op : Op) (o : Obs) (h : op = .wend ∨ op = .quiet) :
    specObs cfg a idx op o = specObs cfg a idx .send o := by
  rcases h with h | h <;> subst h <;> simp [specObs, specObsTags, isReqOk, answers, ownReplyBad]

theorem stepSend_res_of_wrote (s : St) (h : (stepSend s).2.wrote.isEmpty = false) : (stepSend s).2.res = .ok := by
  unfold stepSend at h ⊢
  cases hq : s.sendq with
  | nil => simp [hq] at h
  | cons i q =>
    cases i with
    | ping => rfl
    | discard w => rfl
    | req rid t =>
      simp only [hq] at h ⊢
      cases hr : s.reqs[rid]? with
      | none => simp [hr] at h
      | some r =>
        simp only [hr] at h ⊢
        cases hk : r.key <;> cases hev : r.ev <;> simp_all [releaseTag]

theorem Inv_step_wbegin (cfg : Cfg) (a : Acc) (s : St) (idx : Nat) (h : Inv cfg a s)
    (hen : opEnabled cfg s .wbegin = true) :
    specObs cfg a idx .wbegin (step cfg s .wbegin).2 = .ok ∧
      Inv cfg (a.after .wbegin (step cfg s .wbegin).2) (step cfg s .wbegin).1 := by
  simp only [step, stepOp]
  simp only [opEnabled, stepOp] at hen
  unfold stepWBegin at hen ⊢
  by_cases hw : s.writing = true
  · simp [hw] at hen
  · simp only [hw] at hen ⊢
    cases he : (stepSend s).2.wrote.isEmpty with
    | true => simp [he] at hen
    | false =>
      simp only [he, if_false, Bool.false_eq_true] at hen ⊢
      have hres := stepSend_res_of_wrote s he
      obtain ⟨hv, hinv⟩ := Inv_send_core cfg a s idx h (by rw [hres]; rfl)
      rw [specObs_wbegin]
      exact ⟨hv, Inv_congr hinv rfl rfl rfl rfl rfl rfl rfl rfl⟩

/-- a step that changes nothing the invariant looks at and writes nothing -/
theorem Inv_step_idle (cfg : Cfg) (a : Acc) (s s' : St) (idx : Nat) (op : Op) (h : Inv cfg a s)
    (hop : op = .wend ∨ op = .quiet)
    (h1 : s'.pool = s.pool) (h2 : s'.tagmap = s.tagmap) (h3 : s'.sendq = s.sendq) (h4 : s'.reqs = s.reqs) :
    specObs cfg a idx op (obsOf s' {}) = .ok ∧ Inv cfg (a.after op (obsOf s' {})) s' := by
  have hs : Inv cfg a s' := Inv_congr h rfl rfl rfl rfl h1 h2 h3 h4
  have hne : op ≠ .reopen := by rcases hop with e | e <;> subst e <;> simp
  have hnp : ∀ m t, op ≠ .process m t := by intro m t; rcases hop with e | e <;> subst e <;> simp
  have hna : ∀ t, answers op t = false := by intro t; rcases hop with e | e <;> subst e <;> rfl
  have hnr : isReqOk op (obsOf s' {}) = false := by rcases hop with e | e <;> subst e <;> rfl
  refine step_pack cfg a idx op s' {} hne hs.pool ?_ (ownReplyBad_other a op _ hnp) ?_ ?_ (uniqueOk_nil _) ?_ ?_ ?_
  · rw [after_pairs_other a op _ hne hnp]
    simp only [obsOf, reqPairs, List.filter_nil, List.map_nil, List.append_nil]
    exact hs.own
  · rw [after_unans_other a op _ hne hnp]
    simp only [obsOf, reqTags, List.filter_nil, List.map_nil, List.append_nil]
    exact hs.q
  · intro t ht
    simp only [givenTags, hnr, Bool.false_eq_true, if_false, List.nil_append] at ht
    simp [obsOf, reqTags] at ht
  · intro t ht
    left; rw [hs.pfree]; exact mem_sortNat.mpr ht
  · intro hq; rw [hnr] at hq; cases hq
  · exact peak_mono hs.peak

theorem Inv_step_wend (cfg : Cfg) (a : Acc) (s : St) (idx : Nat) (h : Inv cfg a s)
    (hen : opEnabled cfg s .wend = true) :
    specObs cfg a idx .wend (step cfg s .wend).2 = .ok ∧
      Inv cfg (a.after .wend (step cfg s .wend).2) (step cfg s .wend).1 := by
  simp only [step, stepOp]
  simp only [opEnabled, stepOp] at hen
  unfold stepWEnd at hen ⊢
  by_cases hw : s.writing = true
  · simp only [hw, if_true]
    exact Inv_step_idle cfg a s _ idx .wend h (Or.inl rfl) rfl rfl rfl rfl
  · simp [hw] at hen

theorem Inv_step_quiet (cfg : Cfg) (a : Acc) (s : St) (idx : Nat) (h : Inv cfg a s)
    (hen : opEnabled cfg s .quiet = true) :
    specObs cfg a idx .quiet (step cfg s .quiet).2 = .ok ∧
      Inv cfg (a.after .quiet (step cfg s .quiet).2) (step cfg s .quiet).1 := by
  simp only [step, stepOp]
  simp only [opEnabled, stepOp] at hen
  unfold stepQuiet at hen ⊢
  split
  · exact Inv_step_idle cfg a s _ idx .quiet h (Or.inr rfl) rfl rfl rfl rfl
  · rename_i hc; simp [hc] at hen

/-! #### req -/

theorem tmLookup_set_self (t rid : Nat) (m : List (Nat × Nat)) : tmLookup t (tmSet t rid m) = some rid := by
  simp [tmSet, tmLookup]

theorem tmLookup_set_ne {t t' : Nat} (rid : Nat) (m : List (Nat × Nat)) (h : t' ≠ t) :
    tmLookup t' (tmSet t rid m) = tmLookup t' m := by
  simp only [tmSet, tmLookup, Ne.symm h, ↓reduceIte]
  exact tmLookup_erase_ne h

theorem mem_tmKeys_set {t x rid : Nat} {m : List (Nat × Nat)} : x ∈ tmKeys (tmSet t rid m) ↔ x = t ∨ (x ∈ tmKeys m ∧ x ≠ t) := by
  have := @mem_tmKeys_erase t x m
  simp only [tmSet, tmKeys, List.map_cons, List.mem_cons] at this ⊢
  rw [this]

theorem Inv_req_tag (cfg : Cfg) (a : Acc) (s : St) (e : EvKind) (popped idx t : Nat) (p' : Pool)
    (h : Inv cfg a s)
    (hp' : PoolInv cfg.max a.held p' (tmSet t s.reqs.length s.tagmap))
    (hnk : t ∉ tmKeys s.tagmap)
    (hfree : ∀ x ∈ p'.free, x ∈ s.pool.free)
    (hreuse : s.pool.free ≠ [] → t ∈ s.pool.free)
    (hpk : p'.next ≤ Nat.max a.peak ((tmKeys (tmSet t s.reqs.length s.tagmap)).length + a.held) + 1) :
    let s' : St := { pool := p', tagmap := tmSet t s.reqs.length s.tagmap,
                     sendq := s.sendq ++ [.req s.reqs.length t],
                     reqs := s.reqs ++ [⟨.tag t, evOf e, false⟩], writing := s.writing }
    specObs cfg a idx (.req e popped) (obsOf s' { assigned := t }) = .ok ∧
      Inv cfg (a.after (.req e popped) (obsOf s' { assigned := t })) s' := by
  intro s'
  have htk : t ∈ tmKeys (tmSet t s.reqs.length s.tagmap) := mem_tmKeys_set.mpr (Or.inl rfl)
  have hrange := hp'.krange t htk
  have hnlt := hp'.nlt
  have hlen : ∀ rid t', Item.req rid t' ∈ s.sendq → rid < s.reqs.length := by
    intro rid t' hi
    obtain ⟨r, hr, _, _⟩ := h.q.qitem rid t' hi
    rcases Nat.lt_or_ge rid s.reqs.length with hlt | hge
    · exact hlt
    · rw [List.getElem?_eq_none hge] at hr; cases hr
  refine step_pack cfg a idx (.req e popped) s' _ (by simp) hp' ?_ (ownReplyBad_other _ _ _ (by simp)) ?_ ?_ ?_ ?_ ?_ hpk
  · intro p hp
    rw [after_pairs_other _ _ _ (by simp) (by simp)] at hp
    simp only [obsOf, reqPairs, List.filter_nil, List.map_nil, List.append_nil] at hp
    have hl := h.own p hp
    have hne : p.1 ≠ t := fun e => hnk (e ▸ tmLookup_some_key hl)
    show tmLookup p.1 (tmSet t s.reqs.length s.tagmap) = some p.2
    rw [tmLookup_set_ne _ _ hne]; exact hl
  · rw [after_unans_other _ _ _ (by simp) (by simp)]
    simp only [obsOf, reqTags, List.filter_nil, List.map_nil, List.append_nil]
    refine ⟨?_, ?_, ?_⟩
    · show (qrids (s.sendq ++ [Item.req s.reqs.length t])).Nodup
      rw [qrids_append]
      simp only [qrids]
      rw [List.nodup_append]
      refine ⟨h.q.qnd, by simp, ?_⟩
      intro x hx y hy
      simp only [List.mem_singleton] at hy
      subst hy
      obtain ⟨t', hi⟩ := mem_qrids.mp hx
      have := hlen x t' hi
      omega
    · intro rid t' hi
      have hi' : Item.req rid t' ∈ s.sendq ++ [Item.req s.reqs.length t] := hi
      simp only [List.mem_append, List.mem_singleton] at hi'
      rcases hi' with hi' | hi'
      · obtain ⟨r, hr, hsub, hk⟩ := h.q.qitem rid t' hi'
        have hlt := hlen rid t' hi'
        refine ⟨r, ?_, hsub, ?_⟩
        · show (s.reqs ++ [_])[rid]? = some r
          rw [List.getElem?_append_left hlt]; exact hr
        · rcases hk with hk | ⟨hk, hl, hu⟩
          · exact Or.inl hk
          · right
            have hne : t' ≠ t := fun e => hnk (e ▸ tmLookup_some_key hl)
            exact ⟨hk, by show tmLookup t' (tmSet t s.reqs.length s.tagmap) = some rid; rw [tmLookup_set_ne _ _ hne]; exact hl, hu⟩
      · injection hi' with h1 h2
        subst h1; subst h2
        refine ⟨⟨.tag t', evOf e, false⟩, ?_, rfl, Or.inr ⟨rfl, ?_, ?_⟩⟩
        · show (s.reqs ++ [_])[s.reqs.length]? = some _
          simp
        · exact tmLookup_set_self _ _ _
        · exact fun hc => hnk (h.q.usub _ hc)
    · intro x hx
      have hxk := h.q.usub x hx
      exact mem_tmKeys_set.mpr (Or.inr ⟨hxk, fun e => hnk (e ▸ hxk)⟩)
  · intro x hx
    simp only [givenTags, isReqOk, obsOf, reqTags, List.filter_nil, List.map_nil, List.append_nil] at hx
    have : x = t := by simpa using hx
    subst this
    omega
  · exact uniqueOk_nil _
  · intro x hx
    exact free_old h.pfree x (hfree x hx)
  · intro _ hne
    have hne' : s.pool.free ≠ [] := by
      intro e; apply hne; rw [h.pfree, e]; exact sortNat_nil
    show t ∈ a.pfree
    rw [h.pfree]
    exact mem_sortNat.mpr (hreuse hne')

theorem Inv_step_req (cfg : Cfg) (a : Acc) (s : St) (e : EvKind) (popped idx : Nat) (h : Inv cfg a s)
    (hen : opEnabled cfg s (.req e popped) = true) :
    specObs cfg a idx (.req e popped) (step cfg s (.req e popped)).2 = .ok ∧
      Inv cfg (a.after (.req e popped) (step cfg s (.req e popped)).2) (step cfg s (.req e popped)).1 := by
  simp only [step, stepOp]
  simp only [opEnabled, stepOp] at hen
  unfold stepReq at hen ⊢
  unfold Pool.get at hen ⊢
  cases hf : s.pool.free with
  | nil =>
    simp only [hf] at hen ⊢
    by_cases hmax : s.pool.next + 1 = cfg.max
    · -- exhausted: nothing changes but the request counter
      simp only [hmax, ↓reduceIte]
      refine step_pack cfg a idx (.req e popped) _ _ (by simp) h.pool (own_plain h.own (by simp) (by simp) rfl) (ownReplyBad_other _ _ _ (by simp)) ?_ ?_ ?_ ?_ ?_ ?_
      · rw [after_unans_other _ _ _ (by simp) (by simp)]
        simp only [obsOf, reqTags, List.filter_nil, List.map_nil, List.append_nil]
        apply QInv_reqs h.q
        intro rid t hi r hr
        have hlt : rid < s.reqs.length := by
          rcases Nat.lt_or_ge rid s.reqs.length with hlt | hge
          · exact hlt
          · rw [List.getElem?_eq_none hge] at hr; cases hr
        exact ⟨r, by rw [List.getElem?_append_left hlt]; exact hr, rfl, Or.inl rfl⟩
      · simp [givenTags, isReqOk, obsOf, reqTags]
      · exact uniqueOk_nil _
      · exact free_old h.pfree
      · simp [isReqOk, obsOf]
      · exact peak_mono h.peak
    · simp only [hmax, ↓reduceIte]
      obtain ⟨hp', hnk⟩ := PoolInv_acquire_fresh s.reqs.length h.pool hf hmax
      rw [hf] at hp'
      have hcount := hp'.count
      refine Inv_req_tag cfg a s e popped idx (s.pool.next + 1) _ h hp' hnk ?_ ?_ ?_
      · intro x hx; simp at hx
      · intro hne; exact absurd hf hne
      · simp only [List.length_nil] at hcount ⊢
        have : (tmKeys (tmSet (s.pool.next + 1) s.reqs.length s.tagmap)).length + a.held ≤
            Nat.max a.peak ((tmKeys (tmSet (s.pool.next + 1) s.reqs.length s.tagmap)).length + a.held) := Nat.le_max_right _ _
        omega
  | cons x xs =>
    simp only [hf] at hen ⊢
    by_cases hc : (x :: xs).contains popped = true
    · simp only [hc, ↓reduceIte]
      have hmem : popped ∈ s.pool.free := by
        rw [hf]; simpa using hc
      obtain ⟨hp', hnk⟩ := PoolInv_acquire_popped s.reqs.length popped h.pool hmem
      rw [hf] at hp'
      refine Inv_req_tag cfg a s e popped idx popped _ h hp' hnk ?_ ?_ ?_
      · intro y hy
        rw [hf]; exact List.mem_of_mem_erase hy
      · intro _; exact hmem
      · exact peak_mono h.peak
    · rw [if_neg hc] at hen
      simp at hen

/-! #### reopen -/

theorem Inv_step_reopen (cfg : Cfg) (a : Acc) (s : St) (idx : Nat) (hmax : 2 ≤ cfg.max) :
    specObs cfg a idx .reopen (step cfg s .reopen).2 = .ok ∧
      Inv cfg (a.after .reopen (step cfg s .reopen).2) (step cfg s .reopen).1 := by
  simp only [step, stepOp]
  constructor
  · rw [specObs_ok_iff]
    refine ⟨?_, ?_, ?_, ?_, ?_, rfl⟩
    · simp [givenTags, isReqOk, obsOf, reqTags]
    · exact uniqueOk_nil _
    · intro t ht
      simp [obsOf, St.init, Pool.init, sortNat_nil] at ht
    · simp [isReqOk]
    · intro hc; exact absurd rfl hc
  · refine ⟨PoolInv_init hmax, QInv_init _, by simp [Acc.after], ?_, ?_⟩
    · simp [Acc.after, obsOf]
    · simp [St.init, Pool.init]

/-- **one step**: from an invariant state, an enabled operation yields an observation the
    specification accepts, and the invariant holds again (for the accumulator after it). -/
theorem Inv_step (cfg : Cfg) (a : Acc) (s : St) (op : Op) (idx : Nat) (hmax : 2 ≤ cfg.max) (h : Inv cfg a s)
    (hen : opEnabled cfg s op = true) :
    specObs cfg a idx op (step cfg s op).2 = .ok ∧ Inv cfg (a.after op (step cfg s op).2) (step cfg s op).1 := by
  cases op with
  | req e popped => exact Inv_step_req cfg a s e popped idx h hen
  | fire rid => exact Inv_step_fire cfg a s rid idx h hen
  | send => exact Inv_step_send cfg a s idx h hen
  | notify rid =>
    simp only [opEnabled, stepOp] at hen
    simp only [step, stepOp]
    cases hfl : cfg.fl with
    | thriftmux => simp only [hfl] at hen; exact Inv_step_notify cfg a s rid idx h hen
    | kafka => simp only [hfl] at hen; exact Inv_step_notify_kafka cfg a s rid idx h hen
  | process mt t =>
    simp only [step, stepOp]
    cases hfl : cfg.fl with
    | thriftmux => exact Inv_step_process cfg a s mt t idx h
    | kafka => exact Inv_step_process_kafka cfg a s mt t idx h
  | ping =>
    simp only [opEnabled, stepOp] at hen
    simp only [step, stepOp]
    cases hfl : cfg.fl with
    | thriftmux => exact Inv_step_ping cfg a s idx h
    | kafka => simp [hfl] at hen
  | reopen => exact Inv_step_reopen cfg a s idx hmax
  | wbegin => exact Inv_step_wbegin cfg a s idx h hen
  | wend => exact Inv_step_wend cfg a s idx h hen
  | quiet => exact Inv_step_quiet cfg a s idx h hen

/-! ### whole histories -/

/-- the accumulator of the specification after a history -/
def accAfter (a : Acc) (h : List (Op × Obs)) : Acc := h.foldl (fun a p => a.after p.1 p.2) a

theorem Verdict_and_ok {v : Verdict} {f : Unit → Verdict} : v.and f = .ok ↔ v = .ok ∧ f () = .ok := by
  cases v with
  | ok => simp [Verdict.and]
  | fail c ps => simp [Verdict.and]

/-- a history is accepted iff each of its steps is, under the accumulator of the steps before it -/
theorem specGo_split (cfg : Cfg) (h1 : List (Op × Obs)) : ∀ (a : Acc) (idx : Nat) (op : Op) (o : Obs)
    (h2 : List (Op × Obs)), specGo cfg a idx (h1 ++ (op, o) :: h2) = .ok →
      specObs cfg (accAfter a h1) (idx + h1.length) op o = .ok := by
  induction h1 with
  | nil =>
    intro a idx op o h2 h
    simp only [List.nil_append, specGo, Verdict_and_ok] at h
    simpa [accAfter] using h.1
  | cons p h1 ih =>
    intro a idx op o h2 h
    obtain ⟨op', o'⟩ := p
    simp only [List.cons_append, specGo, Verdict_and_ok] at h
    have := ih _ _ op o h2 h.2
    simp only [accAfter, List.foldl_cons, List.length_cons] at this ⊢
    have e : idx + 1 + h1.length = idx + (h1.length + 1) := by omega
    rw [e] at this; exact this

/-- the model's history from an invariant state is accepted, and the invariant holds at its end -/
theorem spec_trace (cfg : Cfg) (hmax : 2 ≤ cfg.max) : ∀ (ops : List Op) (a : Acc) (s : St) (idx : Nat),
    Inv cfg a s → opsOk cfg s ops = true → specGo cfg a idx (comp.trace cfg s ops) = .ok := by
  intro ops
  induction ops with
  | nil => intros; rfl
  | cons op ops ih =>
    intro a s idx h hok
    simp only [opsOk, Bool.and_eq_true] at hok
    obtain ⟨hen, hrest⟩ := hok
    obtain ⟨hv, hinv⟩ := Inv_step cfg a s op idx hmax h hen
    simp only [TComp.trace, comp, specGo, Verdict_and_ok]
    exact ⟨hv, ih _ _ (idx + 1) hinv hrest⟩

/-- the state the model is in after `ops` -/
def reachFrom (cfg : Cfg) (s : St) (ops : List Op) : St := ops.foldl (fun s op => (stepOp cfg.fl cfg.max s op).1) s

def reach (cfg : Cfg) (ops : List Op) : St := reachFrom cfg (initSt cfg) ops

/-- the state reached by the model and the accumulator of its history stay in the invariant -/
theorem Inv_trace (cfg : Cfg) (hmax : 2 ≤ cfg.max) : ∀ (ops : List Op) (a : Acc) (s : St),
    Inv cfg a s → opsOk cfg s ops = true →
      Inv cfg (accAfter a (comp.trace cfg s ops)) (reachFrom cfg s ops) := by
  intro ops
  induction ops with
  | nil => intro a s h _; exact h
  | cons op ops ih =>
    intro a s h hok
    simp only [opsOk, Bool.and_eq_true] at hok
    obtain ⟨hen, hrest⟩ := hok
    obtain ⟨_, hinv⟩ := Inv_step cfg a s op 0 hmax h hen
    simp only [TComp.trace, comp, accAfter, reachFrom, List.foldl_cons]
    exact ih _ _ hinv hrest

/-! ### reading the accumulator: the abstract layer L0

  `unanswered h` is the L0 state of the property text — the set of tags carried by request
  frames written on this connection that the peer has not answered since — computed from the
  observations alone (`Acc.after`): a written request frame adds its tag, a processed peer frame
  for tag `t` removes `t`, a new connection empties it.  The accumulator starts from `Acc.init cfg`:
  on an aged connection the free set before the first step, the peak and the number of tags still
  out are those of the starting pool. -/

def unanswered (cfg : Cfg) (h : List (Op × Obs)) : List Nat := (accAfter (Acc.init cfg) h).tags

/-- the same with the request id each such frame carried -/
def unansweredPairs (cfg : Cfg) (h : List (Op × Obs)) : List (Nat × Nat) := (accAfter (Acc.init cfg) h).unans

/-- the free set shown by the last observation of `h` (before the first: the starting pool's) -/
def freeBefore (cfg : Cfg) (h : List (Op × Obs)) : List Nat := (accAfter (Acc.init cfg) h).pfree

/-- peak number of tags awaiting an answer over `h` (since the last re-open; on an aged connection
    counted from `next − 1` of the starting pool) -/
def peakInUse (cfg : Cfg) (h : List (Op × Obs)) : Nat := (accAfter (Acc.init cfg) h).peak

/-- tags of this connection handed out before the script and still awaiting their answer
    (`Cfg.held` until the connection is replaced, 0 afterwards) -/
def heldBefore (cfg : Cfg) (h : List (Op × Obs)) : Nat := (accAfter (Acc.init cfg) h).held

/-- a step never changes the number of tags held since before the script, except a re-open (→ 0) -/
theorem held_le_step (a : Acc) (op : Op) (o : Obs) : (a.after op o).held ≤ a.held := by
  cases op <;> first | exact Nat.le_refl _ | exact Nat.zero_le _

theorem held_le : ∀ (h : List (Op × Obs)) (a : Acc), (accAfter a h).held ≤ a.held := by
  intro h
  induction h with
  | nil => intro a; exact Nat.le_refl _
  | cons p h ih =>
    intro a
    simp only [accAfter, List.foldl_cons]
    exact Nat.le_trans (ih _) (held_le_step a p.1 p.2)

/-- on a fresh connection no tag is held from before -/
theorem heldBefore_fresh (cfg : Cfg) (h : List (Op × Obs)) (hn : cfg.next = 1) : heldBefore cfg h = 0 := by
  have h1 := held_le h (Acc.init cfg)
  have h2 : (Acc.init cfg).held = 0 := by simp [Acc.init, Cfg.held, hn]
  simp only [heldBefore]
  omega

theorem uniqueOk_spec {u : List Nat} : ∀ {ts : List Nat}, uniqueOk u ts = true → (∀ t ∈ ts, t ∉ u) ∧ ts.Nodup
  | [], _ => ⟨by simp, List.nodup_nil⟩
  | t :: ts, h => by
    simp only [uniqueOk, Bool.and_eq_true, Bool.not_eq_true', List.contains_eq_mem, decide_eq_false_iff_not] at h
    obtain ⟨⟨h1, h2⟩, h3⟩ := h
    obtain ⟨ih1, ih2⟩ := uniqueOk_spec h3
    refine ⟨?_, List.nodup_cons.mpr ⟨h2, ih2⟩⟩
    intro x hx
    simp only [List.mem_cons] at hx
    rcases hx with hx | hx
    · subst hx; exact h1
    · exact ih1 x hx

theorem mem_reqTags {fs : List Frame} {f : Frame} (hf : f ∈ fs) (hk : f.kind = .req) : f.tag ∈ reqTags fs := by
  simp only [reqTags, List.mem_map, List.mem_filter]
  exact ⟨f, ⟨hf, by simp [hk]⟩, rfl⟩

end Scales.TagPool
