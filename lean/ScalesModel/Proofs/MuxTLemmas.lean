/-
  Proofs/MuxTLemmas.lean — invariant of the ThriftMux transport model and the simulation
  between the model and the accumulator of its executable specification.
-/
import ScalesModel.Adapter.MuxT
import ScalesModel.Proofs.TransportLemmas
set_option linter.unusedSimpArgs false
set_option linter.unusedVariables false
namespace Scales.MuxT
open Scales.Transport

/-- a closed transport has no live loop and no ping helper; only an Open transport has
    requests in its tag map -/
def Inv0 (s : St) : Prop :=
  (s.cstate = .closed → s.sl = .dead ∧ s.rl = .dead ∧ s.pingWait = false) ∧
  (s.cstate ≠ .opened → s.tagMap = [])

theorem inv0_init : Inv0 St.init := by simp [Inv0, St.init]

theorem shutdown_eq (s : St) (b : Bool) (h : s.cstate ≠ .closed) :
    s.shutdown b =
      ({ cstate := .closed, hasOpenResult := false, opening := false,
         openRes := if s.openRes = .pending then .failed else s.openRes,
         tagMap := [], sendQ := [], sl := .dead, rl := .dead, pingLoop := false, pingWait := false,
         pending := s.pending },
       { faults := if b then 1 else 0, dels := s.tagMap.map (fun p => (p.2, Resp.cerr)) }) := by
  simp [St.shutdown, h]

theorem shutdown_closed (s : St) (b : Bool) (h : s.cstate = .closed) : s.shutdown b = (s, {}) := by
  simp [St.shutdown, h]

theorem inv0_shutdown (s : St) (b : Bool) (h : Inv0 s) : Inv0 (s.shutdown b).1 := by
  by_cases hc : s.cstate = .closed
  · rw [shutdown_closed s b hc]; exact h
  · rw [shutdown_eq s b hc]; simp [Inv0]

@[simp] theorem pump_cstate (s : St) : s.pump.cstate = s.cstate := by
  unfold St.pump; split <;> rfl
@[simp] theorem pump_tagMap (s : St) : s.pump.tagMap = s.tagMap := by
  unfold St.pump; split <;> rfl
@[simp] theorem pump_rl (s : St) : s.pump.rl = s.rl := by
  unfold St.pump; split <;> rfl
@[simp] theorem pump_pingWait (s : St) : s.pump.pingWait = s.pingWait := by
  unfold St.pump; split <;> rfl
@[simp] theorem pump_openRes (s : St) : s.pump.openRes = s.openRes := by
  unfold St.pump; split <;> rfl

theorem pump_sl_dead (s : St) (h : s.sl = .dead) : s.pump.sl = .dead := by
  unfold St.pump; split <;> simp_all

theorem inv0_pump (s : St) (h : Inv0 s) (hc : s.cstate ≠ .closed) : Inv0 s.pump := by
  simp only [Inv0, pump_cstate, pump_tagMap, pump_rl, pump_pingWait]
  exact ⟨fun e => absurd e hc, h.2⟩

/-! ### the receive loop's reads and the pending `_ProcessReply` greenlets -/

@[simp] theorem shutdown_pending (s : St) (b : Bool) : (s.shutdown b).1.pending = s.pending := by
  unfold St.shutdown; split <;> rfl

theorem rdMany_cons (s : St) (o : IOOut) (f : Frame) (rest : List (IOOut × Frame)) :
    s.rdMany ((o, f) :: rest) =
      (((s.rdRaw o f).1.rdMany rest).1,
       { faults := (s.rdRaw o f).2.faults + ((s.rdRaw o f).1.rdMany rest).2.faults,
         dels := (s.rdRaw o f).2.dels ++ ((s.rdRaw o f).1.rdMany rest).2.dels,
         conns := (s.rdRaw o f).2.conns + ((s.rdRaw o f).1.rdMany rest).2.conns }) := rfl

theorem rdRaw_dead (s : St) (o : IOOut) (f : Frame) (h : s.rl = .dead) : s.rdRaw o f = (s, {}) := by
  simp [St.rdRaw, h]

theorem rdRaw_hdr_ok (s : St) (f : Frame) (h : s.rl = .hdr) :
    s.rdRaw .ok f = ({ s with rl := .body }, {}) := by
  simp [St.rdRaw, h]

theorem rdRaw_body_ok (s : St) (f : Frame) (h : s.rl = .body) :
    s.rdRaw .ok f = ({ s with rl := .hdr, pending := s.pending ++ [f] }, {}) := by
  simp [St.rdRaw, h]

theorem rdRaw_fault (s : St) (o : IOOut) (f : Frame) (h : s.rl ≠ .dead) (ho : o ≠ .ok) :
    s.rdRaw o f = s.shutdown true := by
  cases hr : s.rl with
  | dead => exact absurd hr h
  | hdr => cases o <;> simp_all [St.rdRaw]
  | body => cases o <;> simp_all [St.rdRaw]

/-- reads on a dead receive loop do not happen -/
theorem rdMany_dead : ∀ (rs : List (IOOut × Frame)) (s : St), s.rl = .dead → s.rdMany rs = (s, {}) := by
  intro rs
  induction rs with
  | nil => intros; rfl
  | cons r rest ih =>
    intro s h
    obtain ⟨o, f⟩ := r
    rw [rdMany_cons, rdRaw_dead s o f h, ih s h]
    rfl

/-- successful reads only move the receive loop between header and body and spawn
    `_ProcessReply` greenlets -/
theorem rdMany_ok : ∀ (rs : List (IOOut × Frame)) (s : St), s.rl ≠ .dead →
    (∀ r ∈ rs, r.1 = IOOut.ok) →
    ∃ r' p', r' ≠ RL.dead ∧ s.rdMany rs = (({ s with rl := r', pending := p' } : St), ({} : Eff)) := by
  intro rs
  induction rs with
  | nil => intro s h _; exact ⟨s.rl, s.pending, h, rfl⟩
  | cons r rest ih =>
    intro s h hall
    obtain ⟨o, f⟩ := r
    have ho : o = .ok := hall (o, f) (by simp)
    subst ho
    have hrest : ∀ r ∈ rest, r.1 = IOOut.ok := fun r hr => hall r (List.mem_cons_of_mem _ hr)
    cases hr : s.rl with
    | dead => exact absurd hr h
    | hdr =>
      obtain ⟨r', p', h1, h2⟩ := ih ({ s with rl := .body } : St) (by simp) hrest
      refine ⟨r', p', h1, ?_⟩
      rw [rdMany_cons, rdRaw_hdr_ok s f hr, h2]
      rfl
    | body =>
      obtain ⟨r', p', h1, h2⟩ :=
        ih ({ s with rl := .hdr, pending := s.pending ++ [f] } : St) (by simp) hrest
      refine ⟨r', p', h1, ?_⟩
      rw [rdMany_cons, rdRaw_body_ok s f hr, h2]
      rfl

/-- a failing read among them is a `_Shutdown` of the transport as the reads before it left it;
    the reads behind it do not happen -/
theorem rdMany_fault : ∀ (rs : List (IOOut × Frame)) (s : St), s.rl ≠ .dead → s.cstate ≠ .closed →
    (∃ r ∈ rs, r.1 ≠ IOOut.ok) →
    ∃ r' p', r' ≠ RL.dead ∧ s.rdMany rs = ({ s with rl := r', pending := p' } : St).shutdown true := by
  intro rs
  induction rs with
  | nil => intro s _ _ h; obtain ⟨r, hr, _⟩ := h; simp at hr
  | cons r rest ih =>
    intro s h hc hex
    obtain ⟨o, f⟩ := r
    by_cases ho : o = .ok
    · subst ho
      have hrest : ∃ r ∈ rest, r.1 ≠ IOOut.ok := by
        obtain ⟨r, hr, hne⟩ := hex
        rcases List.mem_cons.mp hr with e | e
        · subst e; exact absurd rfl hne
        · exact ⟨r, e, hne⟩
      cases hr : s.rl with
      | dead => exact absurd hr h
      | hdr =>
        obtain ⟨r', p', h1, h2⟩ := ih ({ s with rl := .body } : St) (by simp) hc hrest
        refine ⟨r', p', h1, ?_⟩
        rw [rdMany_cons, rdRaw_hdr_ok s f hr, h2]
        cases hsd : (({ s with rl := r', pending := p' } : St).shutdown true) with
        | mk s2 e2 => cases e2; simp
      | body =>
        obtain ⟨r', p', h1, h2⟩ :=
          ih ({ s with rl := .hdr, pending := s.pending ++ [f] } : St) (by simp) hc hrest
        refine ⟨r', p', h1, ?_⟩
        rw [rdMany_cons, rdRaw_body_ok s f hr, h2]
        cases hsd : (({ s with rl := r', pending := p' } : St).shutdown true) with
        | mk s2 e2 => cases e2; simp
    · refine ⟨s.rl, s.pending, h, ?_⟩
      have hdead : (s.shutdown true).1.rl = .dead := by rw [shutdown_eq s true hc]
      rw [rdMany_cons, rdRaw_fault s o f h ho, rdMany_dead rest _ hdead]
      cases hsd : s.shutdown true with
      | mk s2 e2 => cases e2; simp

/-- a `_ProcessReply` greenlet that runs on a closed transport finds no ping to answer and an
    empty tag map: it delivers nothing and changes nothing -/
theorem process_closed (s : St) (f : Frame) (h : Inv0 s) (hc : s.cstate = .closed) :
    s.process f = (s, {}) := by
  have hpw := (h.1 hc).2.2
  have htm := h.2 (by rw [hc]; simp)
  cases f <;> simp [St.process, hpw, htm]

theorem dispatchGo_closed : ∀ (fs : List Frame) (s : St), Inv0 s → s.cstate = .closed →
    dispatchGo fs s = (s, []) := by
  intro fs
  induction fs with
  | nil => intros; rfl
  | cons f fs ih =>
    intro s h hc
    simp [dispatchGo, process_closed s f h hc, ih s h hc]

theorem process_pending (s : St) (f : Frame) : (s.process f).1.pending = s.pending := by
  cases f with
  | junk => rfl
  | rping =>
    simp only [St.process]
    split
    · split <;> rfl
    · rfl
  | reply tag => simp only [St.process]; split <;> rfl

theorem inv0_process (s : St) (f : Frame) (h : Inv0 s) : Inv0 (s.process f).1 := by
  cases f with
  | junk => exact h
  | rping =>
    simp only [St.process]
    split
    · split
      · simp [Inv0]
      · simp only [Inv0]
        exact ⟨fun e => ⟨(h.1 e).1, (h.1 e).2.1, by trivial⟩, h.2⟩
    · exact h
  | reply tag =>
    simp only [St.process]
    split
    · simp only [Inv0]
      refine ⟨h.1, fun e => ?_⟩
      rw [h.2 e]; rfl
    · exact h

theorem dispatchGo_pending : ∀ (fs : List Frame) (s : St), (dispatchGo fs s).1.pending = s.pending := by
  intro fs
  induction fs with
  | nil => intros; rfl
  | cons f fs ih =>
    intro s
    simp only [dispatchGo]
    rw [ih, process_pending]

theorem inv0_dispatchGo : ∀ (fs : List Frame) (s : St), Inv0 s → Inv0 (dispatchGo fs s).1 := by
  intro fs
  induction fs with
  | nil => intro s h; exact h
  | cons f fs ih =>
    intro s h
    simp only [dispatchGo]
    exact ih _ (inv0_process s f h)

theorem inv0_rl (s : St) (r : RL) (p : List Frame) (h : Inv0 s) (hc : s.cstate ≠ .closed) :
    Inv0 ({ s with rl := r, pending := p } : St) := by
  simp only [Inv0]
  exact ⟨fun e => absurd e hc, h.2⟩

/-- a burst without a failing read: the frames it completed, and those still pending, are
    dispatched in order -/
theorem burst_ok (s : St) (rs : List (IOOut × Frame)) (hrl : s.rl ≠ .dead)
    (hall : ∀ r ∈ rs, r.1 = IOOut.ok) :
    ∃ r' p', r' ≠ RL.dead ∧
      s.burst rs = ((dispatchGo p' ({ s with rl := r', pending := [] } : St)).1,
                    { eff := { dels := (dispatchGo p' ({ s with rl := r', pending := [] } : St)).2 } }) := by
  obtain ⟨r', p', h1, h2⟩ := rdMany_ok rs s hrl hall
  exact ⟨r', p', h1, by simp [St.burst, h2, St.dispatch]⟩

/-- a burst with a failing read is one `_Shutdown`: the `_ProcessReply` greenlets of the frames
    read before it run afterwards and are dropped -/
theorem burst_fault (s : St) (rs : List (IOOut × Frame)) (hinv : Inv0 s) (hrl : s.rl ≠ .dead)
    (hex : ∃ r ∈ rs, r.1 ≠ IOOut.ok) :
    ∃ r', r' ≠ RL.dead ∧
      s.burst rs = ((({ s with rl := r', pending := [] } : St).shutdown true).1,
                    { eff := (({ s with rl := r', pending := [] } : St).shutdown true).2 }) := by
  have hc : s.cstate ≠ .closed := fun e => hrl (hinv.1 e).2.1
  obtain ⟨r', p', h1, h2⟩ := rdMany_fault rs s hrl hc hex
  refine ⟨r', h1, ?_⟩
  have hc1 : ({ s with rl := r', pending := p' } : St).cstate ≠ .closed := hc
  have hc2 : ({ s with rl := r', pending := [] } : St).cstate ≠ .closed := hc
  simp only [St.burst, h2, St.dispatch]
  rw [shutdown_eq _ true hc1, shutdown_eq _ true hc2]
  simp only
  rw [dispatchGo_closed _ _ (by simp [Inv0]) rfl]
  simp

theorem inv0_burst (s : St) (rs : List (IOOut × Frame)) (h : Inv0 s) : Inv0 (s.burst rs).1 := by
  by_cases hrl : s.rl = .dead
  · simp only [St.burst, rdMany_dead rs s hrl, St.dispatch]
    apply inv0_dispatchGo
    simp only [Inv0]; exact h
  · have hc : s.cstate ≠ .closed := fun e => hrl (h.1 e).2.1
    by_cases hex : ∃ r ∈ rs, r.1 ≠ IOOut.ok
    · obtain ⟨r', _, h2⟩ := burst_fault s rs h hrl hex
      rw [h2]
      exact inv0_shutdown _ true (inv0_rl s r' [] h hc)
    · have hall : ∀ r ∈ rs, r.1 = IOOut.ok :=
        fun r hr => Decidable.byContradiction (fun hne => hex ⟨r, hr, hne⟩)
      obtain ⟨r', p', _, h2⟩ := burst_ok s rs hrl hall
      rw [h2]
      exact inv0_dispatchGo _ _ (inv0_rl s r' [] h hc)

theorem burst_pending (s : St) (rs : List (IOOut × Frame)) : (s.burst rs).1.pending = [] := by
  simp only [St.burst, St.dispatch]
  rw [dispatchGo_pending]


/-! ### events in the middle of a drain (`race`): structural facts -/

theorem inv0_rdRaw (s : St) (o : IOOut) (f : Frame) (h : Inv0 s) : Inv0 (s.rdRaw o f).1 := by
  by_cases hrl : s.rl = .dead
  · rw [rdRaw_dead s o f hrl]; exact h
  · have hc : s.cstate ≠ .closed := fun e => hrl (h.1 e).2.1
    by_cases ho : o = .ok
    · subst ho
      cases hr : s.rl with
      | dead => exact absurd hr hrl
      | hdr => rw [rdRaw_hdr_ok s f hr]; exact inv0_rl s .body s.pending h hc
      | body => rw [rdRaw_body_ok s f hr]; exact inv0_rl s .hdr _ h hc
    · rw [rdRaw_fault s o f hrl ho]; exact inv0_shutdown s true h

theorem inv0_rdMany : ∀ (rs : List (IOOut × Frame)) (s : St), Inv0 s → Inv0 (s.rdMany rs).1 := by
  intro rs
  induction rs with
  | nil => intro s h; exact h
  | cons r rest ih =>
    intro s h
    obtain ⟨o, f⟩ := r
    rw [rdMany_cons]
    exact ih _ (inv0_rdRaw s o f h)

theorem rdRaw_pending_closed (s : St) (o : IOOut) (f : Frame) (h : Inv0 s) (hc : s.cstate = .closed) :
    s.rdRaw o f = (s, {}) := rdRaw_dead s o f (h.1 hc).2.1

theorem inv0_hit (s : St) (x : Hit) (h : Inv0 s) : Inv0 (s.hit x).1 := by
  cases x with
  | rdRaise => simp only [St.hit]; split; exact h; exact inv0_shutdown s true h
  | rdEof => simp only [St.hit]; split; exact h; exact inv0_shutdown s true h
  | wr => simp only [St.hit]; split; exact inv0_shutdown s true h; exact h
  | close => exact inv0_shutdown s false h

@[simp] theorem hit_pending (s : St) (x : Hit) : (s.hit x).1.pending = s.pending := by
  cases x with
  | rdRaise => simp only [St.hit]; split; rfl; simp
  | rdEof => simp only [St.hit]; split; rfl; simp
  | wr => simp only [St.hit]; split; simp; rfl
  | close => simp [St.hit]

/-- an event on a closed transport finds no loop: nothing happens -/
theorem hit_closed (s : St) (x : Hit) (h : Inv0 s) (hc : s.cstate = .closed) : s.hit x = (s, {}) := by
  obtain ⟨hsl, hrl, _⟩ := h.1 hc
  cases x with
  | rdRaise => simp [St.hit, hrl]
  | rdEof => simp [St.hit, hrl]
  | wr => simp [St.hit, hsl]
  | close => exact shutdown_closed s false hc

/-- an event whose greenlet exists is a `_Shutdown`, with the fault signal unless it is a `Close()` -/
theorem hit_eq (s : St) (x : Hit) (hrl : s.rl ≠ .dead) (hw : x = .wr → ∃ it, s.sl = .writing it) :
    s.hit x = s.shutdown x.isFault := by
  cases x with
  | rdRaise => simp [St.hit, hrl, Hit.isFault]
  | rdEof => simp [St.hit, hrl, Hit.isFault]
  | wr => obtain ⟨it, hsl⟩ := hw rfl; simp [St.hit, hsl, Hit.isFault]
  | close => rfl

theorem wakes_closed (s : St) (f : Frame) (h : Inv0 s) (hc : s.cstate = .closed) : s.wakes f = false := by
  simp [St.wakes, (h.1 hc).2.2]

theorem processQ_closed (s : St) (f : Frame) (h : Inv0 s) (hc : s.cstate = .closed) :
    s.processQ f = (s, {}) := by
  simp only [St.processQ, wakes_closed s f h hc]
  exact process_closed s f h hc

theorem dispatchQGo_closed : ∀ (fs : List Frame) (s : St) (w : Bool), Inv0 s → s.cstate = .closed →
    dispatchQGo fs s w = (s, [], w) := by
  intro fs
  induction fs with
  | nil => intros; rfl
  | cons f fs ih =>
    intro s w h hc
    simp [dispatchQGo, processQ_closed s f h hc, wakes_closed s f h hc, ih s w h hc]

theorem processQ_pending (s : St) (f : Frame) : (s.processQ f).1.pending = s.pending := by
  simp only [St.processQ]
  split
  · rfl
  · exact process_pending s f

theorem inv0_processQ (s : St) (f : Frame) (h : Inv0 s) : Inv0 (s.processQ f).1 := by
  simp only [St.processQ]
  split
  · simp only [Inv0]
    exact ⟨fun e => ⟨(h.1 e).1, (h.1 e).2.1, by trivial⟩, h.2⟩
  · exact inv0_process s f h

theorem dispatchQGo_pending : ∀ (fs : List Frame) (s : St) (w : Bool),
    (dispatchQGo fs s w).1.pending = s.pending := by
  intro fs
  induction fs with
  | nil => intros; rfl
  | cons f fs ih =>
    intro s w
    simp only [dispatchQGo]
    rw [ih, processQ_pending]

theorem inv0_dispatchQGo : ∀ (fs : List Frame) (s : St) (w : Bool), Inv0 s →
    Inv0 (dispatchQGo fs s w).1 := by
  intro fs
  induction fs with
  | nil => intro s w h; exact h
  | cons f fs ih =>
    intro s w h
    simp only [dispatchQGo]
    exact ih _ _ (inv0_processQ s f h)

theorem inv0_resumeOpen (s : St) (h : Inv0 s) : Inv0 s.resumeOpen := by
  simp only [St.resumeOpen]
  split
  · exact h
  · simp [Inv0]

@[simp] theorem resumeOpen_pending (s : St) : s.resumeOpen.pending = s.pending := by
  simp only [St.resumeOpen]; split <;> rfl

@[simp] theorem resumeIf_pending (s : St) (w : Bool) : (s.resumeIf w).pending = s.pending := by
  cases w <;> simp [St.resumeIf]

theorem inv0_race (s : St) (rs : List (IOOut × Frame)) (pos : Pos) (x : Hit) (h : Inv0 s) :
    Inv0 (s.race rs pos x).1 := by
  cases pos with
  | first => exact inv0_burst _ rs (inv0_hit s x h)
  | pre =>
    simp only [St.race, St.dispatch]
    apply inv0_dispatchGo
    have := inv0_hit _ x (inv0_rdMany rs s h)
    simpa [Inv0] using this
  | mid =>
    simp only [St.race, St.dispatchQ]
    have h1 := inv0_rdMany rs s h
    have h2 : Inv0 ({ (s.rdMany rs).1 with pending := [] } : St) := by simpa [Inv0] using h1
    have h3 := inv0_hit _ x (inv0_dispatchQGo (s.rdMany rs).1.pending _ false h2)
    generalize dispatchQGo (s.rdMany rs).1.pending ({ (s.rdMany rs).1 with pending := [] } : St) false = r at h3 ⊢
    obtain ⟨s2, d2, w⟩ := r
    cases w
    · exact h3
    · exact inv0_resumeOpen _ h3

theorem race_pending (s : St) (rs : List (IOOut × Frame)) (pos : Pos) (x : Hit) :
    (s.race rs pos x).1.pending = [] := by
  cases pos with
  | first => exact burst_pending _ rs
  | pre => simp only [St.race, St.dispatch]; rw [dispatchGo_pending]
  | mid =>
    simp only [St.race, St.dispatchQ]
    have h3 := dispatchQGo_pending (s.rdMany rs).1.pending ({ (s.rdMany rs).1 with pending := [] } : St) false
    generalize dispatchQGo (s.rdMany rs).1.pending ({ (s.rdMany rs).1 with pending := [] } : St) false = r at h3 ⊢
    obtain ⟨s2, d2, w⟩ := r
    cases w
    · simpa using h3
    · simpa using h3

theorem inv0_openT (s : St) (r : Conn) (h : Inv0 s) : Inv0 (s.openT r).1 := by
  simp only [St.openT]
  split
  · exact h
  · split
    · exact h
    · rename_i h1 h2
      have hidle : s.cstate = .idle := by simpa using h2
      cases r with
      | refuse =>
        simp only
        apply inv0_shutdown
        simp only [Inv0]; rw [hidle]; simp; exact h.2 (by rw [hidle]; simp)
      | ok =>
        simp only
        apply inv0_pump
        · simp only [Inv0]; rw [hidle]; simp
        · simp [hidle]

theorem inv0_step (s : St) (op : Op) (h : Inv0 s) : Inv0 (stepOut s op).1 := by
  cases op with
  | look => exact h
  | openBurst rs => exact inv0_burst _ rs (inv0_openT s .ok h)
  | close => exact inv0_shutdown s false h
  | pingSilence =>
    simp only [stepOut, St.pingSilence]
    split
    · exact inv0_shutdown s true h
    · exact h
  | pingDue =>
    simp only [stepOut, St.pingDue]
    split
    · rename_i hc
      simp only [Bool.and_eq_true, decide_eq_true_eq] at hc
      apply inv0_pump
      · simp only [Inv0]; rw [hc.2]; simp
      · simp [hc.2]
    · exact h
  | openT r =>
    simp only [stepOut, St.openT]
    split
    · exact h
    · split
      · exact h
      · rename_i h1 h2
        have hidle : s.cstate = .idle := by simpa using h2
        cases r with
        | refuse =>
          simp only
          apply inv0_shutdown
          simp only [Inv0]; rw [hidle]; simp; exact h.2 (by rw [hidle]; simp)
        | ok =>
          simp only
          apply inv0_pump
          · simp only [Inv0]; rw [hidle]; simp
          · simp [hidle]
  | req id tag =>
    simp only [stepOut, St.request]
    split
    · exact h
    · split
      · rename_i hc
        apply inv0_pump
        · simp only [Inv0]; rw [hc]; simp
        · simp [hc]
      · exact h
  | wr o =>
    simp only [stepOut, St.wr]
    split
    · rename_i it hsl
      have hc : s.cstate ≠ .closed := by
        intro e; have := (h.1 e).1; rw [hsl] at this; cases this
      cases o with
      | ok =>
        simp only
        apply inv0_pump
        · simp only [Inv0]
          exact ⟨fun e => absurd e hc, h.2⟩
        · exact hc
      | raise => exact inv0_shutdown s true h
      | eof => exact inv0_shutdown s true h
    · exact h
  | rd o f => exact inv0_burst s _ h
  | burst rs => exact inv0_burst s rs h
  | race rs pos x => exact inv0_race s rs pos x h


/-- the invariant of the transport between two operations: a closed transport has no live loop
    and no ping helper; only an Open transport has requests in its tag map; and no
    `_ProcessReply` greenlet is pending (every operation ends with a drain) -/
def Inv (s : St) : Prop := Inv0 s ∧ s.pending = []

theorem inv_init : Inv St.init := ⟨inv0_init, rfl⟩

@[simp] theorem pump_pending (s : St) : s.pump.pending = s.pending := by
  unfold St.pump; split <;> rfl

theorem step_pending (s : St) (op : Op) (h : s.pending = []) : (stepOut s op).1.pending = [] := by
  cases op with
  | look => exact h
  | openBurst rs => exact burst_pending _ rs
  | close => simpa [stepOut, St.close] using h
  | pingSilence =>
    simp only [stepOut, St.pingSilence]
    split
    · simpa using h
    · exact h
  | pingDue =>
    simp only [stepOut, St.pingDue]
    split
    · simpa using h
    · exact h
  | openT r =>
    simp only [stepOut, St.openT]
    split
    · exact h
    · split
      · exact h
      · cases r with
        | refuse => simpa using h
        | ok => simpa using h
  | req id tag =>
    simp only [stepOut, St.request]
    split
    · exact h
    · split
      · simpa using h
      · exact h
  | wr o =>
    simp only [stepOut, St.wr]
    split
    · cases o <;> simpa using h
    · exact h
  | rd o f => exact burst_pending s _
  | burst rs => exact burst_pending s rs
  | race rs pos x => exact race_pending s rs pos x

theorem inv_step (s : St) (op : Op) (h : Inv s) : Inv (stepOut s op).1 :=
  ⟨inv0_step s op h.1, step_pending s op h.2⟩

/-! ### the simulation relation -/

/-- frames queued for transmission: the one being written, then the send queue -/
def qItems (s : St) : List Item :=
  (match s.sl with
   | .writing it => [it]
   | _ => []) ++ s.sendQ

def qIds (s : St) : List Nat := (qItems s).filterMap itemId

@[simp] theorem itemId_ping : itemId .ping = none := rfl
@[simp] theorem itemId_req (t i : Nat) : itemId (.req t i) = some i := rfl

theorem qItems_pump (s : St) : qItems s.pump = qItems s := by
  unfold St.pump
  split
  · rename_i it rest hsl hq; simp [qItems, hsl, hq]
  · rfl

theorem qIds_pump (s : St) : qIds s.pump = qIds s := by simp [qIds, qItems_pump]

structure Rel (s : St) (a : Acc) (seen : List Nat) : Prop where
  owed : a.owed = s.tagMap.map (·.2)
  prev : a.prev = s.cstate
  unsent : ∀ id ∈ qIds s, id ∈ a.unsent
  seenO : ∀ id ∈ a.owed, id ∈ seen
  seenQ : ∀ id ∈ qIds s, id ∈ seen
  qnodup : (qIds s).Nodup
  tags : (s.tagMap.map (·.1)).Nodup
  ids : (s.tagMap.map (·.2)).Nodup
  inv : Inv0 s

def seenAfter (op : Op) (seen : List Nat) : List Nat :=
  match isReq op with
  | some id => id :: seen
  | none => seen

theorem rel_init : Rel St.init {} [] := by
  refine ⟨rfl, rfl, ?_, ?_, ?_, ?_, ?_, ?_, inv0_init⟩ <;> simp [St.init, qIds, qItems]

/-- an operation that issues nothing and hands out nothing -/
theorem specStep_quiet (a : Acc) (op : Op) (o : Obs) (hreq : isReq op = none) (hd : o.dels = [])
    (hf : isFailure op o = false) (hc : vCarry a op o = .ok) :
    specStep a op o = (.ok, nextAcc a op o a.owed a.abandoned) := by
  simp [specStep, owedWith, hreq, hd, vFail, hf, hc, Verdict.and]

theorem firstUnfailed_none (op : Op) (owed : List Nat) (dels : List (Nat × Resp))
    (h : firstNotFailed owed dels = none) : firstUnfailed op owed dels = none := by
  cases op <;> try exact h
  all_goals
    simp only [firstUnfailed]
    unfold firstNotFailed at h
    rw [List.find?_eq_none] at h ⊢
    intro id hid
    have := h id hid
    simp only [Bool.not_eq_true, Bool.not_eq_false', List.any_eq_true, Bool.and_eq_true] at this ⊢
    obtain ⟨d, hd, he, _⟩ := this
    exact ⟨d, hd, he⟩

/-- a shutdown of a transport that was not closed: every request in the tag map is failed -/
theorem specStep_shutdown (s : St) (a : Acc) (seen : List Nat) (op : Op) (o : Obs) (h : Rel s a seen)
    (hc : s.cstate ≠ .closed) (hreq : isReq op = none)
    (hd : o.dels = s.tagMap.map (fun p => (p.2, Resp.cerr))) (hst : o.state = .closed)
    (hf : isFailure op o = true → o.faults = 1) (hcarry : vCarry a op o = .ok) :
    specStep a op o = (.ok, nextAcc a op o [] a.abandoned) := by
  have hmap : s.tagMap.map (fun p => (p.2, Resp.cerr)) =
      (s.tagMap.map (·.2)).map (fun i => (i, Resp.cerr)) := by simp [List.map_map]
  have hset : settle (owedWith a op) a.abandoned o.dels = .ok ([], a.abandoned) := by
    simp only [owedWith, hreq, hd, h.owed, hmap]
    exact settle_all _ _ (fun _ => Resp.cerr)
  have hnf : firstUnfailed op (owedWith a op) o.dels = none := by
    apply firstUnfailed_none
    simp only [owedWith, hreq, hd, h.owed, hmap]
    exact firstNotFailed_all _ _ rfl
  have hprev : a.prev ≠ .closed := by rw [h.prev]; exact hc
  have hv : vFail a op o = .ok := by
    unfold vFail
    by_cases hfl : isFailure op o = true
    · simp [hfl, hnf, hst, hf hfl]
    · simp [hfl]
  simp [specStep, hset, hv, hcarry, Verdict.and]


theorem rel_closed (s' : St) (a : Acc) (op : Op) (o : Obs) (seen ab : List Nat)
    (hc : s'.cstate = .closed) (ht : s'.tagMap = []) (hq : s'.sendQ = []) (hsl : s'.sl = .dead)
    (hrl : s'.rl = .dead) (hpw : s'.pingWait = false) (ho : o.state = .closed) :
    Rel s' (nextAcc a op o [] ab) seen := by
  refine ⟨?_, ?_, ?_, ?_, ?_, ?_, ?_, ?_, ?_⟩ <;>
    simp [nextAcc, ht, hc, ho, qIds, qItems, hq, hsl, Inv0, hrl, hpw]

/-- the observable part of a shutdown step -/
theorem step_shutdown_ok (s : St) (a : Acc) (seen : List Nat) (op : Op) (b : Bool) (c : Nat)
    (h : Rel s a seen) (hc : s.cstate ≠ .closed) (hreq : isReq op = none)
    (hf : ∀ o : Obs, isFailure op o = true → b = true)
    (hcarry : ∀ o : Obs, o.state = .closed → vCarry a op o = .ok) :
    let s' := (s.shutdown b).1
    let o := obsOf s' { eff := { (s.shutdown b).2 with conns := c } }
    (specStep a op o).1 = .ok ∧ Rel s' (specStep a op o).2 seen := by
  intro s' o
  have hs' : s' = (s.shutdown b).1 := rfl
  have ho : o = obsOf s' { eff := { (s.shutdown b).2 with conns := c } } := rfl
  rw [shutdown_eq s b hc] at hs' ho
  have hst : o.state = .closed := by rw [ho, hs']; rfl
  have hd : o.dels = s.tagMap.map (fun p => (p.2, Resp.cerr)) := by rw [ho]; rfl
  have hfl : isFailure op o = true → o.faults = 1 := by
    intro hfo; have := hf o hfo; subst this; rw [ho]; rfl
  rw [specStep_shutdown s a seen op o h hc hreq hd hst hfl (hcarry o hst)]
  refine ⟨rfl, ?_⟩
  apply rel_closed <;> first | (rw [hs']) | exact hst


/-- `id`'s frame was among those that reached the peer -/
def sentHas (o : Obs) (id : Nat) : Bool := o.sent.any (fun it => itemId it == some id)

/-- a step that issues nothing and hands out nothing keeps the relation -/
theorem rel_next (s s' : St) (a : Acc) (op : Op) (o : Obs) (seen : List Nat) (h : Rel s a seen)
    (hcl : isClose op = false) (hreq : isReq op = none) (htm : s'.tagMap = s.tagMap)
    (hst : o.state = s'.cstate)
    (hq : ∀ id ∈ qIds s', id ∈ qIds s ∧ sentHas o id = false) (hnd : (qIds s').Nodup)
    (hinv : Inv0 s') : Rel s' (nextAcc a op o a.owed a.abandoned) seen := by
  have hu : nextUnsent a op o = a.unsent.filter (fun id => !sentHas o id) := by
    unfold nextUnsent sentHas
    cases op <;> simp_all [isReq]
  refine ⟨?_, ?_, ?_, ?_, ?_, hnd, ?_, ?_, hinv⟩
  · simp [nextAcc, hcl, htm, h.owed]
  · simp [nextAcc, hst]
  · intro id hid
    simp only [nextAcc, hu, List.mem_filter]
    exact ⟨h.unsent id (hq id hid).1, by simp [(hq id hid).2]⟩
  · simpa [nextAcc, hcl] using h.seenO
  · intro id hid; exact h.seenQ id (hq id hid).1
  · rw [htm]; exact h.tags
  · rw [htm]; exact h.ids

theorem lookup_mem (l : List (Nat × Nat)) (tag id : Nat) (h : l.lookup tag = some id) :
    (tag, id) ∈ l := by
  induction l with
  | nil => simp at h
  | cons p rest ih =>
    obtain ⟨t0, i0⟩ := p
    by_cases e : tag = t0
    · subst e; simp [List.lookup] at h; subst h; simp
    · have : (tag == t0) = false := by simpa using e
      simp [List.lookup, this] at h
      exact List.mem_cons_of_mem _ (ih h)

/-- removing the entry of `tag` from the tag map removes exactly its request from the owed list -/
theorem erase_lookup (l : List (Nat × Nat)) (tag id : Nat) (ht : (l.map (·.1)).Nodup)
    (hi : (l.map (·.2)).Nodup) (h : l.lookup tag = some id) :
    (l.map (·.2)).erase id = (l.filter (fun p => p.1 ≠ tag)).map (·.2) := by
  induction l with
  | nil => simp at h
  | cons p rest ih =>
    obtain ⟨t0, i0⟩ := p
    simp only [List.map_cons, List.nodup_cons] at ht hi
    by_cases e : tag = t0
    · subst e
      simp [List.lookup] at h; subst h
      have hall : rest.filter (fun p => p.1 ≠ tag) = rest := by
        rw [List.filter_eq_self]
        intro p hp
        have : p.1 ≠ tag := by
          intro e; apply ht.1; rw [← e]; exact List.mem_map_of_mem hp
        simpa using this
      simp only [ne_eq, decide_not] at hall
      simp [hall]
    · have e' : (tag == t0) = false := by simpa using e
      simp [List.lookup, e'] at h
      have hmem := lookup_mem rest tag id h
      have hne : i0 ≠ id := by
        intro e2; apply hi.1; rw [e2]
        exact List.mem_map_of_mem (f := (·.2)) hmem
      have hk : (t0 ≠ tag) := fun e3 => e e3.symm
      simp [List.erase_cons, hne, hk, ih ht.2 hi.2 h]

/-! ### dispatching frames, seen from the accumulator of the specification -/

structure DispFacts (s t : St) (d : List (Nat × Resp)) : Prop where
  settle : ∀ ab, settle (s.tagMap.map (·.2)) ab d = .ok (t.tagMap.map (·.2), ab)
  tmSub : t.tagMap.Sublist s.tagMap
  qSub : (qIds t).Sublist (qIds s)

theorem process_facts (s : St) (f : Frame) (ht : (s.tagMap.map (·.1)).Nodup)
    (hi : (s.tagMap.map (·.2)).Nodup) : DispFacts s (s.process f).1 (s.process f).2.dels := by
  cases f with
  | junk => exact ⟨fun ab => by simp [St.process], List.Sublist.refl _, List.Sublist.refl _⟩
  | rping =>
    simp only [St.process]
    split
    · split
      · exact ⟨fun ab => by simp, List.Sublist.refl _, List.Sublist.refl _⟩
      · exact ⟨fun ab => by simp, List.Sublist.refl _, List.Sublist.refl _⟩
    · exact ⟨fun ab => by simp, List.Sublist.refl _, List.Sublist.refl _⟩
  | reply tag =>
    simp only [St.process]
    cases hl : s.tagMap.lookup tag with
    | none => exact ⟨fun ab => by simp, List.Sublist.refl _, List.Sublist.refl _⟩
    | some id =>
      simp only
      have hmem : id ∈ s.tagMap.map (·.2) :=
        List.mem_map_of_mem (f := (·.2)) (lookup_mem _ _ _ hl)
      have her := erase_lookup s.tagMap tag id ht hi hl
      refine ⟨fun ab => ?_, List.filter_sublist, ?_⟩
      · rw [settle_cons_owed _ _ _ _ _ hmem, her]; simp
      · simp only [qIds, qItems]
        exact List.Sublist.filterMap _ (List.Sublist.append (List.Sublist.refl _) List.filter_sublist)

theorem dispatch_facts : ∀ (fs : List Frame) (s : St), (s.tagMap.map (·.1)).Nodup →
    (s.tagMap.map (·.2)).Nodup → DispFacts s (dispatchGo fs s).1 (dispatchGo fs s).2 := by
  intro fs
  induction fs with
  | nil => intro s _ _; exact ⟨fun ab => by simp [dispatchGo], List.Sublist.refl _, List.Sublist.refl _⟩
  | cons f fs ih =>
    intro s ht hi
    have F1 := process_facts s f ht hi
    have F2 := ih (s.process f).1 (List.Nodup.sublist (List.Sublist.map _ F1.tmSub) ht)
      (List.Nodup.sublist (List.Sublist.map _ F1.tmSub) hi)
    simp only [dispatchGo]
    refine ⟨fun ab => ?_, F2.tmSub.trans F1.tmSub, F2.qSub.trans F1.qSub⟩
    rw [settle_append _ _ _ _ _ _ (F1.settle ab)]
    exact F2.settle ab

theorem rel_rl (s : St) (a : Acc) (seen : List Nat) (r : RL) (h : Rel s a seen)
    (hc : s.cstate ≠ .closed) : Rel ({ s with rl := r, pending := [] } : St) a seen := by
  obtain ⟨h1, h2, h3, h4, h5, h6, h7, h8, h9⟩ := h
  exact ⟨h1, h2, h3, h4, h5, h6, h7, h8, inv0_rl s r [] h9 hc⟩

/-- reads of the receive loop, as `rd o f` (`rs = [(o, f)]`) or as `burst rs`: the two operations
    differ only in the name the specification sees -/
theorem step_ok_reads (s : St) (a : Acc) (seen : List Nat) (op : Op) (rs : List (IOOut × Frame))
    (h : Rel s a seen) (hrl : s.rl ≠ .dead) (hreq : isReq op = none) (hcl : isClose op = false)
    (hcarry : ∀ o : Obs, vCarry a op o = .ok)
    (hfail : ∀ o : Obs, isFailure op o = rs.any (fun r => r.1 ≠ .ok))
    (hun : ∀ o : Obs, nextUnsent a op o =
      a.unsent.filter (fun id => !(o.sent.any (fun it => itemId it == some id)))) :
    (specStep a op (obsOf (s.burst rs).1 (s.burst rs).2)).1 = .ok ∧
    Rel (s.burst rs).1 (specStep a op (obsOf (s.burst rs).1 (s.burst rs).2)).2 seen := by
  have hc : s.cstate ≠ .closed := fun e => hrl (h.inv.1 e).2.1
  by_cases hex : ∃ r ∈ rs, r.1 ≠ IOOut.ok
  · -- a read fails: one `_Shutdown`; the pending `_ProcessReply` greenlets find nothing
    obtain ⟨r', _, h2⟩ := burst_fault s rs h.inv hrl hex
    rw [h2]
    have hc1 : ({ s with rl := r', pending := [] } : St).cstate ≠ .closed := hc
    have := step_shutdown_ok ({ s with rl := r', pending := [] } : St) a seen op true 0
      (rel_rl s a seen r' h hc) hc1 hreq (fun _ _ => rfl) (fun o _ => hcarry o)
    simpa [shutdown_eq _ true hc1] using this
  · have hall : ∀ r ∈ rs, r.1 = IOOut.ok :=
      fun r hr => Decidable.byContradiction (fun hne => hex ⟨r, hr, hne⟩)
    obtain ⟨r', p', _, h2⟩ := burst_ok s rs hrl hall
    rw [h2]
    have F := dispatch_facts p' ({ s with rl := r', pending := [] } : St) h.tags h.ids
    have hinv := inv0_dispatchGo p' _ (inv0_rl s r' [] h.inv hc)
    generalize dispatchGo p' ({ s with rl := r', pending := [] } : St) = dg at F hinv ⊢
    obtain ⟨t, d⟩ := dg
    simp only at F hinv ⊢
    have hnf : ∀ o : Obs, isFailure op o = false := by
      intro o
      rw [hfail o]
      simp only [List.any_eq_false]
      intro r hr; simp [hall r hr]
    have hset : settle (owedWith a op) a.abandoned d = .ok (t.tagMap.map (·.2), a.abandoned) := by
      simp only [owedWith, hreq, h.owed]; exact F.settle _
    have hspec : specStep a op (obsOf t { eff := { dels := d } }) =
        (.ok, nextAcc a op (obsOf t { eff := { dels := d } }) (t.tagMap.map (·.2)) a.abandoned) := by
      simp [specStep, obsOf, hset, vFail, hnf, hcarry, Verdict.and]
    rw [hspec]
    refine ⟨rfl, ?_⟩
    have hq : ∀ j ∈ qIds t, j ∈ qIds s := fun j hj => F.qSub.subset hj
    refine ⟨?_, ?_, ?_, ?_, ?_, ?_, ?_, ?_, hinv⟩
    · simp [nextAcc, hcl]
    · simp [nextAcc, obsOf]
    · intro j hj
      simp only [nextAcc, hun, obsOf, List.any_nil, Bool.not_false]
      simpa using h.unsent j (hq j hj)
    · intro j hj
      simp only [nextAcc, hcl, if_false] at hj
      apply h.seenO j
      rw [h.owed]
      exact (List.Sublist.map _ F.tmSub).subset hj
    · intro j hj; exact h.seenQ j (hq j hj)
    · exact List.Nodup.sublist F.qSub h.qnodup
    · exact List.Nodup.sublist (List.Sublist.map _ F.tmSub) h.tags
    · exact List.Nodup.sublist (List.Sublist.map _ F.tmSub) h.ids

end Scales.MuxT
