/-
  Proofs/ThriftCodecLemmas.lean — helper lemmas for C14 (Thrift binary protocol model).
-/
import ScalesModel.Adapter.ThriftCodec
import Mathlib.Tactic.NormNum.Basic

namespace Scales.ThriftCodec

/-! ### big-endian integers -/

theorem beNat_length (w u : Nat) : (beNat w u).length = w := by
  induction w generalizing u with
  | zero => rfl
  | succ w ih => simp [beNat, ih]

theorem fromBE_snoc (bs : Bytes) (b : Nat) : fromBE (bs ++ [b]) = fromBE bs * 256 + b := by
  simp [fromBE, List.foldl_append]

theorem fromBE_beNat (w u : Nat) : fromBE (beNat w u) = u % 256 ^ w := by
  induction w generalizing u with
  | zero => simp [beNat, fromBE, Nat.mod_one]
  | succ w ih =>
    rw [beNat, fromBE_snoc, ih, Nat.pow_succ, Nat.mul_comm (256 ^ w) 256, Nat.mod_mul]
    omega

theorem takeN_append (a rest : Bytes) (n : Nat) (h : a.length = n) :
    takeN n (a ++ rest) = some (a, rest) := by
  subst h
  simp [takeN]

theorem encInt_length (w : Nat) (n : Int) : (encInt w n).length = w := beNat_length _ _

theorem p2 : (256 : Int) ^ 2 = 65536 := by decide
theorem p4 : (256 : Int) ^ 4 = 4294967296 := by decide
theorem p8 : (256 : Int) ^ 8 = 18446744073709551616 := by decide

theorem signed2 (n : Int) (h : fitsInt 2 n = true) :
    toSigned 2 (toUnsigned 2 n % 256 ^ 2) = n := by
  simp only [fitsInt, Bool.and_eq_true, decide_eq_true_eq, p2] at h
  simp only [toSigned, toUnsigned, p2]
  norm_num
  omega

theorem signed4 (n : Int) (h : fitsInt 4 n = true) :
    toSigned 4 (toUnsigned 4 n % 256 ^ 4) = n := by
  simp only [fitsInt, Bool.and_eq_true, decide_eq_true_eq, p4] at h
  simp only [toSigned, toUnsigned, p4]
  norm_num
  omega

theorem signed8 (n : Int) (h : fitsInt 8 n = true) :
    toSigned 8 (toUnsigned 8 n % 256 ^ 8) = n := by
  simp only [fitsInt, Bool.and_eq_true, decide_eq_true_eq, p8] at h
  simp only [toSigned, toUnsigned, p8]
  norm_num
  omega

theorem decInt_enc (w : Nat) (n : Int) (rest : Bytes)
    (hs : toSigned w (toUnsigned w n % 256 ^ w) = n) :
    decInt w (encInt w n ++ rest) = some (n, rest) := by
  unfold decInt
  rw [takeN_append _ _ _ (encInt_length w n)]
  simp only [encInt, fromBE_beNat, hs]

theorem decInt2_enc (n : Int) (rest : Bytes) (h : fitsInt 2 n = true) :
    decInt 2 (encInt 2 n ++ rest) = some (n, rest) := decInt_enc 2 n rest (signed2 n h)
theorem decInt4_enc (n : Int) (rest : Bytes) (h : fitsInt 4 n = true) :
    decInt 4 (encInt 4 n ++ rest) = some (n, rest) := decInt_enc 4 n rest (signed4 n h)
theorem decInt8_enc (n : Int) (rest : Bytes) (h : fitsInt 8 n = true) :
    decInt 8 (encInt 8 n ++ rest) = some (n, rest) := decInt_enc 8 n rest (signed8 n h)

theorem fits2_of_lt (k : Nat) (h : k < 32768) : fitsInt 2 (k : Int) = true := by
  simp only [fitsInt, Bool.and_eq_true, decide_eq_true_eq, p2]; omega
theorem fits4_of_lt (k : Nat) (h : k < 2147483648) : fitsInt 4 (k : Int) = true := by
  simp only [fitsInt, Bool.and_eq_true, decide_eq_true_eq, p4]; omega

/-! ### values: decode ∘ encode = id -/

mutual
  /-- fuel that suffices to decode `encVal v` -/
  def needV : TVal → Nat
    | .struct fs => 1 + needF fs
    | _ => 1
  def needF : TFields → Nat
    | .nil => 1
    | .cons _ v rest => 1 + needV v + needF rest
end

mutual
  theorem decVal_enc : ∀ (v : TVal) (fuel : Nat) (rest : Bytes), v.wf = true → needV v ≤ fuel →
      decVal fuel (tyCode v) (encVal v ++ rest) = some (v, rest)
    | .bool b, fuel + 1, rest, _, _ => by
      cases b <;> simp [decVal, tyCode, encVal]
    | .i32 n, fuel + 1, rest, h, _ => by
      simp only [TVal.wf] at h
      simp [decVal, tyCode, encVal, decInt4_enc n rest h]
    | .i64 n, fuel + 1, rest, h, _ => by
      simp only [TVal.wf] at h
      simp [decVal, tyCode, encVal, decInt8_enc n rest h]
    | .str bs, fuel + 1, rest, h, _ => by
      simp only [TVal.wf, decide_eq_true_eq] at h
      simp only [decVal, tyCode, encVal, List.append_assoc]
      rw [decInt4_enc _ _ (fits4_of_lt _ h)]
      simp [takeN_append]
    | .struct fs, fuel + 1, rest, h, hf => by
      simp only [TVal.wf] at h
      simp only [needV] at hf
      have := decFields_enc fs fuel rest h (by omega)
      simp [decVal, tyCode, encVal, this]
    | .bool _, 0, _, _, hf => by simp [needV] at hf
    | .i32 _, 0, _, _, hf => by simp [needV] at hf
    | .i64 _, 0, _, _, hf => by simp [needV] at hf
    | .str _, 0, _, _, hf => by simp [needV] at hf
    | .struct _, 0, _, _, hf => by simp [needV] at hf
  theorem decFields_enc : ∀ (fs : TFields) (fuel : Nat) (rest : Bytes), fs.wf = true → needF fs ≤ fuel →
      decFields fuel (encFields fs ++ rest) = some (fs, rest)
    | .nil, fuel + 1, rest, _, _ => by simp [decFields, encFields]
    | .cons fid v r, fuel + 1, rest, h, hf => by
      simp only [TFields.wf, Bool.and_eq_true, decide_eq_true_eq] at h
      obtain ⟨⟨hfid, hv⟩, hr⟩ := h
      simp only [needF] at hf
      have h1 := decVal_enc v fuel (encFields r ++ rest) hv (by omega)
      have h2 := decFields_enc r fuel rest hr (by omega)
      have hty : tyCode v ≠ 0 := by cases v <;> simp [tyCode]
      simp only [encFields, List.cons_append, List.append_assoc, decFields, hty, if_false]
      rw [decInt2_enc _ _ (fits2_of_lt fid hfid)]
      simp [h1, h2]
    | .nil, 0, _, _, hf => by simp [needF] at hf
    | .cons _ _ _, 0, _, _, hf => by simp [needF] at hf
end

mutual
  theorem needV_le : ∀ v : TVal, needV v ≤ (encVal v).length + 1
    | .bool _ => by simp [needV, encVal]
    | .i32 _ => by simp [needV, encVal]
    | .i64 _ => by simp [needV, encVal]
    | .str _ => by simp [needV, encVal]
    | .struct fs => by
      have := needF_le fs
      simp only [needV, encVal]; omega
  theorem needF_le : ∀ fs : TFields, needF fs ≤ (encFields fs).length
    | .nil => by simp [needF, encFields]
    | .cons _ v r => by
      have h1 := needV_le v
      have h2 := needF_le r
      simp only [needF, encFields, List.length_cons, List.length_append, encInt_length]; omega
end

/-- the whole-struct decoder used by `decMsg` (fuel = length of the input) -/
theorem decFields_enc_self (fs : TFields) (h : fs.wf = true) :
    decFields (encFields fs).length (encFields fs) = some (fs, []) := by
  have := decFields_enc fs (encFields fs).length [] h (needF_le fs)
  simpa using this

/-! ### message envelope -/

theorem decMsg_enc (m : Msg) (hn : m.name.length < 2147483648) (hs : fitsInt 4 m.seqid = true)
    (hb : m.body.wf = true) : decMsg (encMsg m) = some m := by
  obtain ⟨name, mtype, seqid, body⟩ := m
  simp only at hn hs hb
  simp only [encMsg, decMsg, List.cons_append, List.nil_append, and_self, if_true]
  rw [decInt4_enc _ _ (fits4_of_lt _ hn)]
  simp only [Int.toNat_natCast]
  have hneg : ¬ ((name.length : Int) < 0) := by omega
  simp only [hneg, if_false]
  rw [takeN_append _ _ _ rfl]
  simp only
  rw [decInt4_enc _ _ hs]
  simp only
  rw [decFields_enc_self body hb]

/-! ### frame -/

theorem frame_prefix (p : Bytes) (h : p.length < 2147483648) :
    (frame p).take 4 = encInt 4 p.length ∧ (frame p).drop 4 = p ∧ (frame p).length = p.length + 4 ∧
    toSigned 4 (fromBE ((frame p).take 4)) = (p.length : Int) := by
  have hl := encInt_length 4 (p.length : Int)
  have ht : (frame p).take 4 = encInt 4 p.length := by
    unfold frame; rw [List.take_left' hl]
  refine ⟨ht, ?_, ?_, ?_⟩
  · unfold frame; rw [List.drop_left' hl]
  · unfold frame; simp [hl]; omega
  · rw [ht]; simp only [encInt, fromBE_beNat]
    exact signed4 _ (fits4_of_lt _ h)

/-! ### readAll over an arbitrary chunking -/

theorem readAllGo_spec : ∀ (fuel want : Nat) (acc : Bytes) (ps : List Bytes),
    (∀ p ∈ ps, p ≠ []) → acc.length ≤ want → want - acc.length ≤ fuel →
    (want - acc.length ≤ ps.flatten.length →
       ∃ rest, readAllGo fuel want acc ps = .ok (acc ++ ps.flatten.take (want - acc.length)) rest ∧
               rest.flatten = ps.flatten.drop (want - acc.length) ∧ (∀ p ∈ rest, p ≠ [])) ∧
    (ps.flatten.length < want - acc.length → readAllGo fuel want acc ps = .eof) := by
  intro fuel
  induction fuel with
  | zero =>
    intro want acc ps hne hle hf
    have hd : acc.length ≥ want := by omega
    have hk : want - acc.length = 0 := by omega
    rw [readAllGo]
    simp only [hd, if_true, hk, List.take_zero, List.append_nil, List.drop_zero]
    exact ⟨fun _ => ⟨ps, rfl, rfl, hne⟩, fun h => by omega⟩
  | succ f ih =>
    intro want acc ps hne hle hf
    by_cases hd : acc.length ≥ want
    · have hk : want - acc.length = 0 := by omega
      rw [readAllGo]
      simp only [hd, if_true, hk, List.take_zero, List.append_nil, List.drop_zero]
      exact ⟨fun _ => ⟨ps, rfl, rfl, hne⟩, fun h => by omega⟩
    · rw [readAllGo]
      simp only [hd, if_false]
      cases ps with
      | nil =>
        constructor
        · intro h; simp at h; omega
        · intro _; simp [recv]
      | cons p ps' =>
        have hp : p ≠ [] := hne p (List.mem_cons_self ..)
        have hpl : 0 < p.length := List.length_pos_iff.mpr hp
        have hne' : ∀ q ∈ ps', q ≠ [] := fun q hq => hne q (List.mem_cons_of_mem _ hq)
        by_cases hk : want - acc.length ≥ p.length
        · simp only [recv, hk, if_true]
          have hpl' : ¬ (p.length = 0) := by omega
          simp only [hpl', if_false]
          have hal : (acc ++ p).length = acc.length + p.length := by simp
          have := ih want (acc ++ p) ps' hne' (by omega) (by omega)
          obtain ⟨ih1, ih2⟩ := this
          have hsub : want - (acc ++ p).length = want - acc.length - p.length := by omega
          rw [hsub] at ih1 ih2
          constructor
          · intro hlen
            simp only [List.flatten_cons, List.length_append] at hlen
            obtain ⟨rest, h1, h2, h3⟩ := ih1 (by omega)
            refine ⟨rest, ?_, ?_, h3⟩
            · rw [h1, List.flatten_cons, List.take_append, List.take_of_length_le hk]
              simp
            · rw [h2, List.flatten_cons, List.drop_append, List.drop_of_length_le hk]
              simp
          · intro hlen
            simp only [List.flatten_cons, List.length_append] at hlen
            exact ih2 (by omega)
        · have hk' : want - acc.length < p.length := by omega
          have hk0 : 0 < want - acc.length := by omega
          simp only [recv, hk, if_false]
          have htl : (p.take (want - acc.length)).length = want - acc.length := by
            simp; omega
          have hz : ¬ ((p.take (want - acc.length)).length = 0) := by omega
          simp only [hz, if_false]
          have hdn : p.drop (want - acc.length) ≠ [] := by
            intro h
            have := congrArg List.length h
            simp at this; omega
          have hne2 : ∀ q ∈ p.drop (want - acc.length) :: ps', q ≠ [] := by
            intro q hq
            rcases List.mem_cons.mp hq with rfl | hq
            · exact hdn
            · exact hne' q hq
          have hal : (acc ++ p.take (want - acc.length)).length = want := by
            rw [List.length_append, htl]; omega
          have := ih want (acc ++ p.take (want - acc.length)) _ hne2 (by omega) (by omega)
          obtain ⟨ih1, _⟩ := this
          have hsub : want - (acc ++ p.take (want - acc.length)).length = 0 := by omega
          rw [hsub] at ih1
          constructor
          · intro _
            obtain ⟨rest, h1, h2, h3⟩ := ih1 (by omega)
            have hz0 : want - acc.length - p.length = 0 := by omega
            have e1 : List.take (want - acc.length) (p ++ ps'.flatten) = List.take (want - acc.length) p := by
              rw [List.take_append, hz0]; simp
            have e2 : List.drop (want - acc.length) (p ++ ps'.flatten)
                = List.drop (want - acc.length) p ++ ps'.flatten := by
              rw [List.drop_append, hz0]; simp
            refine ⟨rest, ?_, ?_, h3⟩
            · rw [h1]; simp only [List.flatten_cons, e1]; simp
            · rw [h2]; simp only [List.flatten_cons, e2]; simp
          · intro hlen
            simp only [List.flatten_cons, List.length_append] at hlen
            omega

/-- `readAll` never runs out of fuel, returns the first `n` bytes of the stream whatever the
    chunking, leaves the remainder of the stream, and reports EOF iff the stream is shorter. -/
theorem readAll_spec (n : Nat) (ps : List Bytes) (hne : ∀ p ∈ ps, p ≠ []) :
    (n ≤ ps.flatten.length →
       ∃ rest, readAll n ps = .ok (ps.flatten.take n) rest ∧ rest.flatten = ps.flatten.drop n ∧
               (∀ p ∈ rest, p ≠ [])) ∧
    (ps.flatten.length < n → readAll n ps = .eof) := by
  have := readAllGo_spec n n [] ps hne (by simp) (by simp)
  simpa [readAll] using this

/-! ### splitBy -/

theorem splitBy_nonempty : ∀ (ns : List Nat) (s : Bytes), ∀ p ∈ splitBy ns s, p ≠ []
  | [], s => by simp [splitBy]
  | n :: ns, s => by
    intro p hp
    rw [splitBy] at hp
    by_cases h : n = 0 ∨ s = []
    · simp only [h, if_true] at hp
      exact splitBy_nonempty ns s p hp
    · simp only [h, if_false] at hp
      rcases List.mem_cons.mp hp with rfl | hp
      · intro ht
        have := congrArg List.length ht
        simp at this
        rcases this with h1 | h1
        · exact h (Or.inl h1)
        · exact h (Or.inr h1)
      · exact splitBy_nonempty ns _ p hp

theorem splitBy_flatten : ∀ (ns : List Nat) (s : Bytes), (splitBy ns s).flatten = s.take (listSum ns)
  | [], s => by simp [splitBy, listSum]
  | n :: ns, s => by
    rw [splitBy]
    by_cases h : n = 0 ∨ s = []
    · simp only [h, if_true]
      rw [splitBy_flatten ns s]
      rcases h with h | h
      · simp [listSum, h]
      · simp [h]
    · simp only [h, if_false, List.flatten_cons]
      rw [splitBy_flatten ns _, listSum, List.take_add]

theorem splitBy_flatten_full (ns : List Nat) (s : Bytes) (h : s.length ≤ listSum ns) :
    (splitBy ns s).flatten = s := by
  rw [splitBy_flatten, List.take_of_length_le h]

/-! ### the client's read path as a function of the byte stream -/

/-- what `clientOutcome` computes, written directly on the concatenated stream -/
def streamOutcome (sig : Sig) (s : Bytes) : Outcome :=
  if s.length < 4 then .err true .eof
  else
    let sz := (toSigned 4 (fromBE (s.take 4))).toNat
    if (s.drop 4).length < sz then .err true .eof
    else match decMsg ((s.drop 4).take sz) with
      | some m => decide_ sig m
      | none => .err true .decode

theorem clientOutcome_eq_stream (sig : Sig) (ps : List Bytes) (hne : ∀ p ∈ ps, p ≠ []) :
    clientOutcome sig ps = streamOutcome sig ps.flatten := by
  obtain ⟨h1, h2⟩ := readAll_spec 4 ps hne
  by_cases hlen : ps.flatten.length < 4
  · simp only [clientOutcome, streamOutcome, h2 hlen, if_pos hlen]
  · obtain ⟨rest, hr, hflat, hne'⟩ := h1 (by omega)
    obtain ⟨g1, g2⟩ := readAll_spec (toSigned 4 (fromBE (ps.flatten.take 4))).toNat rest hne'
    rw [hflat] at g1 g2
    by_cases hl2 : (ps.flatten.drop 4).length < (toSigned 4 (fromBE (ps.flatten.take 4))).toNat
    · simp only [clientOutcome, streamOutcome, hr, g2 hl2, if_neg hlen, if_pos hl2]
    · obtain ⟨rest2, hr2, _, _⟩ := g1 (by omega)
      simp only [clientOutcome, streamOutcome, hr, hr2, if_neg hlen, if_neg hl2]
      cases decMsg (List.take (toSigned 4 (fromBE (List.take 4 ps.flatten))).toNat (List.drop 4 ps.flatten)) <;> rfl

theorem appOf_appFields (ty : Int) (msg : Option Bytes) : appOf (appFields ty msg) (0, none) = (ty, msg) := by
  cases msg <;> simp [appFields, appOf]

theorem decide_replyMsg (sig : Sig) (r : Reply) : decide_ sig (replyMsg sig.name r) = expected sig r := by
  cases r with
  | app ty msg =>
    simp [decide_, replyMsg, mtException, appOf_appFields, expected]
  | result fs =>
    simp [decide_, replyMsg, mtException, mtReply, expected]

theorem replyMsg_body_wf (name : Bytes) (r : Reply) (h : replyWf r = true) : (replyMsg name r).body.wf = true := by
  cases r with
  | app ty msg =>
    simp only [replyWf, Bool.and_eq_true] at h
    cases msg with
    | none => simp [replyMsg, appFields, TFields.wf, TVal.wf, h.1]
    | some m =>
      have := h.2
      simp only [msgOk, decide_eq_true_eq] at this
      simp [replyMsg, appFields, TFields.wf, TVal.wf, h.1, this]
  | result fs => simpa [replyMsg, replyWf] using h

theorem fits4_zero : fitsInt 4 0 = true := by decide

theorem decMsg_replyMsg (name : Bytes) (r : Reply) (hn : name.length < 2147483648) (h : replyWf r = true) :
    decMsg (encMsg (replyMsg name r)) = some (replyMsg name r) := by
  apply decMsg_enc
  · cases r <;> simpa [replyMsg] using hn
  · cases r <;> simp [replyMsg, fits4_zero]
  · exact replyMsg_body_wf name r h

/-- a complete reply frame (followed by anything) yields the expected outcome -/
theorem streamOutcome_full (sig : Sig) (r : Reply) (extra : Bytes) (hn : sig.name.length < 2147483648)
    (h : replyWf r = true) (hl : (encMsg (replyMsg sig.name r)).length < 2147483648) :
    streamOutcome sig (replyBytes sig.name r ++ extra) = expected sig r := by
  obtain ⟨ht, hd, hlen, hsz⟩ := frame_prefix _ hl
  unfold streamOutcome replyBytes
  have hlen4 : ¬ ((frame (encMsg (replyMsg sig.name r)) ++ extra).length < 4) := by
    rw [List.length_append, hlen]; omega
  have htake : (frame (encMsg (replyMsg sig.name r)) ++ extra).take 4
      = (frame (encMsg (replyMsg sig.name r))).take 4 := by
    rw [List.take_append]
    have : 4 - (frame (encMsg (replyMsg sig.name r))).length = 0 := by omega
    simp [this]
  have hdrop : (frame (encMsg (replyMsg sig.name r)) ++ extra).drop 4
      = encMsg (replyMsg sig.name r) ++ extra := by
    rw [List.drop_append, hd]
    have : 4 - (frame (encMsg (replyMsg sig.name r))).length = 0 := by omega
    simp [this]
  simp only [hlen4, if_false, htake, hsz, hdrop, Int.toNat_natCast]
  have hnl : ¬ ((encMsg (replyMsg sig.name r) ++ extra).length < (encMsg (replyMsg sig.name r)).length) := by
    simp
  simp only [hnl, if_false, List.take_left']
  rw [decMsg_replyMsg sig.name r hn h]
  exact decide_replyMsg sig r

/-- a reply frame cut short yields EOFError -/
theorem streamOutcome_trunc (sig : Sig) (payload : Bytes) (k : Nat) (hl : payload.length < 2147483648)
    (hk : k < (frame payload).length) :
    streamOutcome sig ((frame payload).take k) = .err true .eof := by
  obtain ⟨ht, hd, hlen, hsz⟩ := frame_prefix _ hl
  unfold streamOutcome
  have hkl : ((frame payload).take k).length = k := by
    rw [List.length_take]; omega
  by_cases h4 : k < 4
  · rw [if_pos (by omega)]
  · have h4' : ¬ (((frame payload).take k).length < 4) := by omega
    simp only [h4', if_false]
    have htt : ((frame payload).take k).take 4 = (frame payload).take 4 := by
      rw [List.take_take]
      have : min 4 k = 4 := by omega
      rw [this]
    rw [htt, hsz, Int.toNat_natCast]
    have hlt : (((frame payload).take k).drop 4).length < payload.length := by
      simp only [List.length_drop, hkl]; omega
    rw [if_pos hlt]

/-! ### small facts used by Props/C14 -/

theorem beNat_lt (w u : Nat) : ∀ b ∈ beNat w u, b < 256 := by
  induction w generalizing u with
  | zero => simp [beNat]
  | succ w ih =>
    intro b hb
    simp only [beNat, List.mem_append, List.mem_singleton] at hb
    rcases hb with hb | rfl
    · exact ih _ b hb
    · omega

theorem firstDeclared_nil (ds : List Nat) : firstDeclared .nil ds = none := by
  induction ds with
  | nil => rfl
  | cons d ds ih => simp [firstDeclared, TFields.lookup, ih]

theorem firstDeclared_single (fid : Nat) (v : TVal) (ds : List Nat) (h : fid ∈ ds) :
    firstDeclared (.cons fid v .nil) ds = some (fid, v) := by
  induction ds with
  | nil => cases h
  | cons d ds ih =>
    by_cases hd : fid = d
    · subst hd; simp [firstDeclared, TFields.lookup]
    · have : fid ∈ ds := by
        rcases List.mem_cons.mp h with h | h
        · exact absurd h hd
        · exact h
      simp [firstDeclared, TFields.lookup, hd, ih this]

/-! ### the model's observations satisfy the executable specification -/

theorem replyOk_wf (cfg : Cfg) (r : Reply) (h : replyOk cfg r = true) : replyWf r = true := by
  simp only [replyOk, Bool.and_eq_true] at h
  exact h.1

theorem step_spec_ok (cfg : Cfg) (hcfg : cfgOk cfg = true) (st : St) (idx : Nat) (op : Op)
    (hop : opOk cfg op = true) : specObs cfg idx op (step cfg st op).2 = .ok := by
  simp only [cfgOk, decide_eq_true_eq] at hcfg
  cases op with
  | call args =>
    simp only [opOk, Bool.and_eq_true, decide_eq_true_eq] at hop
    obtain ⟨hw, hl⟩ := hop
    obtain ⟨ht, hd, hlen, hsz⟩ := frame_prefix _ hl
    have hdec : decMsg ((callBytes cfg.name args).drop 4) = some ⟨cfg.name, mtCall, 0, args⟩ := by
      unfold callBytes; rw [hd]
      exact decMsg_enc ⟨cfg.name, mtCall, 0, args⟩ hcfg fits4_zero hw
    have hlen' : (callBytes cfg.name args).length = (callPayload cfg.name args).length + 4 := hlen
    have hsz' : toSigned 4 (fromBE ((callBytes cfg.name args).take 4))
        = ((callPayload cfg.name args).length : Int) := hsz
    simp only [step, specObs, hdec, specCall]
    have hc : 4 ≤ (callBytes cfg.name args).length ∧
        toSigned 4 (fromBE ((callBytes cfg.name args).take 4))
          = (((callBytes cfg.name args).length - 4 : Nat) : Int) := by
      refine ⟨by omega, ?_⟩
      rw [hsz', hlen']; simp
    simp [hc]
  | reply r sizes =>
    simp only [opOk, Bool.and_eq_true, decide_eq_true_eq] at hop
    obtain ⟨hr, hl⟩ := hop
    simp only [step, specObs, specReply]
    by_cases hcov : listSum sizes < (replyBytes cfg.name r).length
    · simp [hcov]
    · have hflat : (splitBy sizes (replyBytes cfg.name r)).flatten = replyBytes cfg.name r ++ [] := by
        rw [splitBy_flatten_full _ _ (by omega)]; simp
      have : clientOutcome cfg (splitBy sizes (replyBytes cfg.name r)) = expected cfg r := by
        rw [clientOutcome_eq_stream cfg _ (splitBy_nonempty _ _), hflat]
        exact streamOutcome_full cfg r [] hcfg (replyOk_wf cfg r hr) hl
      simp [hcov, this]

theorem specGo_trace (cfg : Cfg) (hcfg : cfgOk cfg = true) : ∀ (ops : List Op) (st : St) (idx : Nat),
    (∀ op ∈ ops, opOk cfg op = true) → specGo cfg idx (comp.trace cfg st ops) = .ok
  | [], _, _, _ => rfl
  | op :: ops, st, idx, h => by
    have h1 := step_spec_ok cfg hcfg st idx op (h op (List.mem_cons_self ..))
    have h2 := specGo_trace cfg hcfg ops (step cfg st op).1 (idx + 1)
      (fun o ho => h o (List.mem_cons_of_mem _ ho))
    show specGo cfg idx ((op, (step cfg st op).2) :: comp.trace cfg (step cfg st op).1 ops) = .ok
    simp only [specGo, h1, Verdict.and, h2]

/-! ### what the encoders emit are bytes -/

mutual
  /-- every string/binary payload inside the value consists of bytes -/
  def TVal.bytesOk : TVal → Bool
    | .str bs => bs.all (fun b => decide (b < 256))
    | .struct fs => TFields.bytesOk fs
    | _ => true
  def TFields.bytesOk : TFields → Bool
    | .nil => true
    | .cons _ v rest => TVal.bytesOk v && TFields.bytesOk rest
end

theorem encInt_lt (w : Nat) (n : Int) : ∀ b ∈ encInt w n, b < 256 := beNat_lt _ _

mutual
  theorem encVal_lt : ∀ (v : TVal), v.bytesOk = true → ∀ b ∈ encVal v, b < 256
    | .bool x, _, b, hb => by cases x <;> simp [encVal] at hb <;> omega
    | .i32 n, _, b, hb => encInt_lt 4 n b hb
    | .i64 n, _, b, hb => encInt_lt 8 n b hb
    | .str bs, h, b, hb => by
      simp only [encVal, List.mem_append] at hb
      rcases hb with hb | hb
      · exact encInt_lt _ _ b hb
      · simp only [TVal.bytesOk, List.all_eq_true, decide_eq_true_eq] at h
        exact h b hb
    | .struct fs, h, b, hb => encFields_lt fs (by simpa [TVal.bytesOk] using h) b hb
  theorem encFields_lt : ∀ (fs : TFields), fs.bytesOk = true → ∀ b ∈ encFields fs, b < 256
    | .nil, _, b, hb => by simp [encFields] at hb; omega
    | .cons fid v r, h, b, hb => by
      simp only [TFields.bytesOk, Bool.and_eq_true] at h
      simp only [encFields, List.mem_cons, List.mem_append] at hb
      rcases hb with rfl | hb | hb | hb
      · cases v <;> simp [tyCode]
      · exact encInt_lt _ _ b hb
      · exact encVal_lt v h.1 b hb
      · exact encFields_lt r h.2 b hb
end

theorem encMsg_lt (m : Msg) (hn : ∀ b ∈ m.name, b < 256) (ht : m.mtype < 256) (hb : m.body.bytesOk = true) :
    ∀ b ∈ encMsg m, b < 256 := by
  intro b hm
  simp only [encMsg, List.mem_append, List.mem_cons] at hm
  rcases hm with (rfl | rfl | rfl | rfl | hm) | hm | hm | hm | hm
  · omega
  · omega
  · omega
  · exact ht
  · cases hm
  · exact encInt_lt _ _ b hm
  · exact hn b hm
  · exact encInt_lt _ _ b hm
  · exact encFields_lt _ hb b hm

end Scales.ThriftCodec
