/-
  Proofs/ServerSetAlt.lean — the worker-side invariant `Inv0` and the fit of notifications with
  the consumer's view hold for *every* operation list — `exec` skips operations that are not
  enabled, so no hypothesis at all is needed (C19_alternation is unconditional).
-/
import ScalesModel.Proofs.ServerSetRuns
namespace Scales.ServerSet

theorem listChildren_shape (cfg : Cfg) (s0 : St) (g : Nat) :
    (listChildren cfg s0 g).members = s0.members ∧ (listChildren cfg s0 g).job = s0.job ∧
    (listChildren cfg s0 g).tree = s0.tree ∧
    ((listChildren cfg s0 g).queue = s0.queue ∨
      ∃ l, (listChildren cfg s0 g).queue = s0.queue ++ [l] ∧ (s0.tree.kids.Nodup → l.Nodup)) := by
  unfold listChildren
  split
  · exact ⟨rfl, rfl, rfl, Or.inr ⟨_, rfl, fun hk => hk.filter _⟩⟩
  · exact ⟨rfl, rfl, rfl, Or.inl rfl⟩

theorem dataDeliver_shape (cfg : Cfg) (s0 : St) :
    (dataDeliver cfg s0).members = s0.members ∧ (dataDeliver cfg s0).job = s0.job ∧
    (dataDeliver cfg s0).tree = s0.tree ∧
    ((dataDeliver cfg s0).queue = s0.queue ∨
      ∃ l, (dataDeliver cfg s0).queue = s0.queue ++ [l] ∧ (s0.tree.kids.Nodup → l.Nodup)) := by
  unfold dataDeliver
  simp only
  split
  · split
    · exact ⟨by trivial, by trivial, by trivial, Or.inl (by trivial)⟩
    · cases hp : s0.tree.parent with
      | none =>
        simp only [onSet, filter_nil_memberOk]
        exact ⟨by trivial, by trivial, by trivial, Or.inr ⟨[], by trivial, fun _ => List.nodup_nil⟩⟩
      | some g =>
        exact listChildren_shape cfg _ g
  · exact ⟨by trivial, by trivial, by trivial, Or.inl (by trivial)⟩

theorem childDeliver_shape (cfg : Cfg) (s0 : St) (tag : Option Nat) :
    (childDeliver cfg s0 tag).members = s0.members ∧ (childDeliver cfg s0 tag).job = s0.job ∧
    (childDeliver cfg s0 tag).tree = s0.tree ∧
    ((childDeliver cfg s0 tag).queue = s0.queue ∨
      ∃ l, (childDeliver cfg s0 tag).queue = s0.queue ++ [l] ∧ (s0.tree.kids.Nodup → l.Nodup)) := by
  cases tag with
  | none => exact ⟨rfl, rfl, rfl, Or.inl rfl⟩
  | some g =>
    simp only [childDeliver]
    split
    · exact listChildren_shape cfg s0 g
    · exact ⟨rfl, rfl, rfl, Or.inl rfl⟩

theorem after_callback0 {s s1 s2 : St} {nxt : Option Nat} {ns : List Note} (h0 : Inv0 s)
    (hm : s1.members = s.members) (hj : s1.job = s.job) (ht : s1.tree = s.tree)
    (hq : s1.queue = s.queue ∨ ∃ l, s1.queue = s.queue ++ [l] ∧ (s.tree.kids.Nodup → l.Nodup))
    (hw : wake s1 nxt = some (s2, ns)) :
    Inv0 s2 ∧ altOk s.members ns = true ∧ viewOf s.members ns = s2.members := by
  have hqnd : ∀ l ∈ s1.queue, l.Nodup := by
    rcases hq with h | ⟨l, h, hl⟩
    · rw [h]; exact h0.wok.qnd
    · rw [h]
      intro x hx
      rcases List.mem_append.mp hx with hx | hx
      · exact h0.wok.qnd x hx
      · simp only [List.mem_singleton] at hx; subst hx; exact hl h0.knd
  obtain ⟨hok, ha, hv, heq, _⟩ := wake_spec (s1 := s1) (by rw [hm]; exact h0.wok.mnd) hqnd
    (by rw [hm, hj]; exact h0.wok.jok) hw
  rw [hm] at ha hv
  exact ⟨⟨by rw [heq.tree, ht]; exact h0.knd, by rw [heq.tree, ht]; exact h0.pgen, hok⟩, ha, hv⟩

theorem serve_inv0 {s s' : St} (h0 : Inv0 s) (hn : serveStep s = some s') :
    Inv0 s' ∧ s'.members = s.members := by
  unfold serveStep at hn
  cases hjob : s.job with
  | none => rw [hjob] at hn; cases hn
  | some j =>
    rw [hjob] at hn
    simp only at hn
    cases hcur : j.cur with
    | served n f => rw [hcur] at hn; cases hn
    | requested n =>
      rw [hcur] at hn
      simp only [Option.some.injEq] at hn
      subst hn
      have hjk := h0.wok.jok j hjob
      have hname : j.cur.name = n := by rw [hcur]; rfl
      refine ⟨⟨h0.knd, h0.pgen, ⟨h0.wok.mnd, h0.wok.qnd, by simp, ?_⟩⟩, rfl⟩
      intro j' hj'
      simp only [Option.some.injEq] at hj'
      subst hj'
      exact ⟨hjk.lnd, hjk.gnd, hjk.tnd, hname ▸ hjk.cur_todo, hname ▸ hjk.cur_got, hname ▸ hjk.cur_mem,
        hname ▸ hjk.cur_lst, hjk.todo_mem, hjk.todo_got, hjk.todo_lst, hjk.got_mem, hjk.got_lst⟩

theorem ret_inv0 {s s' : St} {nxt : Option Nat} {ns : List Note} (h0 : Inv0 s)
    (hn : retStep s nxt = some (s', ns)) :
    Inv0 s' ∧ altOk s.members ns = true ∧ viewOf s.members ns = s'.members := by
  unfold retStep at hn
  cases hjob : s.job with
  | none => rw [hjob] at hn; cases hn
  | some j =>
    rw [hjob] at hn
    simp only at hn
    cases hcur : j.cur with
    | requested n => rw [hcur] at hn; cases hn
    | served n found =>
      rw [hcur] at hn
      simp only at hn
      have hjk := h0.wok.jok j hjob
      have hname : j.cur.name = n := by rw [hcur]; rfl
      obtain ⟨g1, g2, g3, g4, _, _⟩ := got_ok hjk found
      rw [hname] at g1 g2 g3 g4
      split at hn
      · obtain ⟨f1, f2, f3⟩ := finishJob_spec s.members j.listing _ h0.wok.mnd g1 g2
        cases hp : pumpB s.lists.isEmpty (finishJob s.members j.listing (if found then j.got ++ [n] else j.got)).1 s.queue nxt with
        | none => rw [hp] at hn; cases hn
        | some w =>
          rw [hp] at hn
          simp only [Option.map_some, Option.some.injEq, Prod.mk.injEq] at hn
          obtain ⟨hn1, hn2⟩ := hn
          subst hn1; subst hn2
          obtain ⟨hok, ha, hv, _, _⟩ := pumpB_spec _ s.queue _ nxt w f1 h0.wok.qnd hp
          refine ⟨⟨h0.knd, h0.pgen, hok⟩, ?_, ?_⟩
          · rw [altOk_append, f2, f3, ha]; rfl
          · rw [viewOf_append, f3, hv]
      · cases nxt with
        | none => cases hn
        | some m =>
          simp only at hn
          split at hn
          · rename_i hm
            simp only [Option.some.injEq, Prod.mk.injEq] at hn
            obtain ⟨hn1, hn2⟩ := hn
            subst hn1; subst hn2
            have hmt : m ∈ j.todo := by simpa using hm
            have hnt : n ∉ j.todo := by rw [← hname]; exact hjk.cur_todo
            refine ⟨⟨h0.knd, h0.pgen, ⟨h0.wok.mnd, h0.wok.qnd, by simp, ?_⟩⟩, by simp [altOk], by simp [viewOf]⟩
            intro j' hj'
            simp only [Option.some.injEq] at hj'
            subst hj'
            refine ⟨hjk.lnd, g1, hjk.tnd.erase _, ?_, ?_, hjk.todo_mem m hmt, hjk.todo_lst m hmt,
              ?_, ?_, ?_, g2, g3⟩
            · simp only [Rd.name]
              intro h
              exact ((List.Nodup.mem_erase_iff hjk.tnd).mp h).1 rfl
            · simp only [Rd.name]
              intro h
              rcases g4 m h with h' | h'
              · exact hjk.todo_got m hmt h'
              · exact hnt (h' ▸ hmt)
            · intro x hx; exact hjk.todo_mem x (List.mem_of_mem_erase hx)
            · intro x hx h
              have hxt := List.mem_of_mem_erase hx
              rcases g4 x h with h' | h'
              · exact hjk.todo_got x hxt h'
              · exact hnt (h' ▸ hxt)
            · intro x hx; exact hjk.todo_lst x (List.mem_of_mem_erase hx)
          · cases hn

/-- a step that touched only the listings — and did not end the last one — keeps `Inv0` -/
theorem lists_only_inv0 {s s' : St} (h0 : Inv0 s) (lo : ListsOnly s s')
    (hl : s'.lists.isEmpty = true → s.lists.isEmpty = true) : Inv0 s' := by
  refine ⟨?_, ?_, ⟨?_, ?_, ?_, ?_⟩⟩
  · rw [lo.env.tree]; exact h0.knd
  · rw [lo.env.tree]; exact h0.pgen
  · rw [lo.members]; exact h0.wok.mnd
  · rw [lo.queue]; exact h0.wok.qnd
  · intro hj hf
    rw [lo.queue]
    exact h0.wok.idle (lo.job ▸ hj) (hl hf)
  · rw [lo.members, lo.job]; exact h0.wok.jok

theorem next_inv0 {cfg : Cfg} {s s' : St} {op : Op} {ns : List Note} (h0 : Inv0 s)
    (hn : next cfg s op = some (s', ns)) :
    Inv0 s' ∧ altOk s.members ns = true ∧ viewOf s.members ns = s'.members := by
  cases op with
  | tree o =>
    simp only [next] at hn
    split at hn
    · rename_i hl
      simp only [Option.some.injEq, Prod.mk.injEq] at hn
      obtain ⟨h1, h2⟩ := hn
      subst h1; subst h2
      obtain ⟨hmem, hque, hjob, _, _, htre, _, hlis⟩ := treeStep_fields s o
      refine ⟨⟨?_, ?_, ?_⟩, by simp [altOk], by simp [viewOf, hmem]⟩
      · rw [htre]; exact tree_kids_nodup _ _ h0.knd hl
      · rw [htre]; exact tree_pgen _ _ h0.pgen
      · rw [hmem, hque, hjob, hlis]; exact h0.wok
    · cases hn
  | start nxt =>
    simp only [next] at hn
    split at hn
    · cases hn
    · obtain ⟨hm, hj, ht, hq⟩ := dataDeliver_shape cfg { s with started := true }
      exact after_callback0 h0 hm hj ht hq hn
  | deliver nxt =>
    simp only [next] at hn
    split at hn
    · split at hn
      · cases hn
      · rename_i rest _
        obtain ⟨hm, hj, ht, hq⟩ := dataDeliver_shape cfg { s with pending := rest }
        exact after_callback0 h0 hm hj ht hq hn
      · rename_i tag rest _
        obtain ⟨hm, hj, ht, hq⟩ := childDeliver_shape cfg { s with pending := rest } tag
        exact after_callback0 h0 hm hj ht hq hn
    · cases hn
  | serve =>
    simp only [next] at hn
    cases hsv : serveStep s with
    | none => rw [hsv] at hn; cases hn
    | some s1 =>
      rw [hsv] at hn
      simp only [Option.map_some, Option.some.injEq, Prod.mk.injEq] at hn
      obtain ⟨h1, h2⟩ := hn
      subst h1; subst h2
      obtain ⟨hinv, hm⟩ := serve_inv0 h0 hsv
      exact ⟨hinv, by simp [altOk], by simp [viewOf, hm]⟩
  | ret nxt =>
    simp only [next] at hn
    exact ret_inv0 h0 hn
  | list nxt =>
    simp only [next] at hn
    split at hn
    · cases hl : listStep cfg s nxt with
      | none => rw [hl] at hn; cases hn
      | some s1 =>
        rw [hl] at hn
        simp only [Option.map_some, Option.some.injEq, Prod.mk.injEq] at hn
        obtain ⟨h1, h2⟩ := hn
        subst h1; subst h2
        obtain ⟨lo, hle⟩ := listStep_shape hl
        exact ⟨lists_only_inv0 h0 lo hle, by simp [altOk], by simp [viewOf, lo.members]⟩
    · cases hn
  | lserve i =>
    simp only [next] at hn
    split at hn
    · cases hl : lserveStep s i with
      | none => rw [hl] at hn; cases hn
      | some s1 =>
        rw [hl] at hn
        simp only [Option.map_some, Option.some.injEq, Prod.mk.injEq] at hn
        obtain ⟨h1, h2⟩ := hn
        subst h1; subst h2
        obtain ⟨lo, hle⟩ := lserveStep_shape hl
        exact ⟨lists_only_inv0 h0 lo hle, by simp [altOk], by simp [viewOf, lo.members]⟩
    · cases hn
  | lret i nxt =>
    simp only [next] at hn
    split at hn
    · rcases lretStep_cases hn with ⟨lo, hle, hns⟩ | ⟨s1, lo, hw⟩
      · subst hns
        exact ⟨lists_only_inv0 h0 lo hle, by simp [altOk], by simp [viewOf, lo.members]⟩
      · exact after_callback0 h0 lo.members lo.job lo.env.tree (Or.inl lo.queue) hw
    · cases hn

theorem exec_inv0 (cfg : Cfg) (ops : List Op) : ∀ (s : St), Inv0 s →
    Inv0 (exec cfg s ops).1 ∧ altOk s.members (exec cfg s ops).2 = true ∧
    viewOf s.members (exec cfg s ops).2 = (exec cfg s ops).1.members := by
  induction ops with
  | nil => intro s h0; exact ⟨h0, by simp [exec, altOk], by simp [exec, viewOf]⟩
  | cons op ops ih =>
    intro s h0
    cases hn : next cfg s op with
    | none => simp only [exec, hn]; exact ih s h0
    | some p =>
      obtain ⟨s', ns⟩ := p
      obtain ⟨hinv, ha, hv⟩ := next_inv0 h0 hn
      obtain ⟨i1, i2, i3⟩ := ih s' hinv
      simp only [exec, hn]
      refine ⟨i1, ?_, ?_⟩
      · rw [altOk_append, ha, hv, i2]; rfl
      · rw [viewOf_append, hv, i3]

end Scales.ServerSet
