import ScalesModel.Proofs.LBInv
import ScalesModel.Adapter.Heap

/-!
  With `cfg.aperture = false` the balancer model of C05/C06 (Model/LBBase over Model/Aperture) acts on
  its heap component exactly like the heap balancer model of C03/C04 (Model/Heap.lean: `HS.join`,
  `HS.leave`, `HS.getLoop noHook`, `HS.get noHook`, `HS.put`).
-/
namespace Scales.LB
open Scales.Heap Scales.Aperture Scales.LBBase

theorem getLoop_heap (cfg : Cfg) (hk : cfg.aperture = false) (fuel : Nat) : ∀ (a : AS),
    ((a.getLoop cfg fuel).1.hs, (a.getLoop cfg fuel).2) = a.hs.getLoop noHook fuel ∧
    (a.getLoop cfg fuel).1.idle = a.idle := by
  induction fuel with
  | zero => intro a; exact ⟨rfl, rfl⟩
  | succ n ih =>
    intro a
    unfold AS.getLoop HS.getLoop
    simp only
    split
    · exact ⟨rfl, rfl⟩
    · simp only [AS.onNodeDown, hk, Bool.false_eq_true, false_and, if_false, noHook]
      exact ih _

theorem get_heap (cfg : Cfg) (hk : cfg.aperture = false) (a : AS) (hi : a.idle = []) :
    ((a.get cfg).1.hs, (a.get cfg).2) = a.hs.get noHook := by
  unfold AS.get HS.get
  split
  · rfl
  · simp only [hk, Bool.false_eq_true, if_false, hi, List.length_nil, Nat.add_zero]
    have := (getLoop_heap cfg hk (a.hs.nodes.length + 1) a).1
    rw [← this]

theorem put_heap (cfg : Cfg) (hk : cfg.aperture = false) (a : AS) (r j : Nat) (hb : (a.put cfg r j).bad = a.bad)
    (hnb : a.bad = false) : (a.put cfg r j).hs = a.hs.put r j := by
  unfold AS.put at hb ⊢
  split
  · rename_i h; simp [h, hnb] at hb
  · rename_i h; unfold HS.put; simp [h]
  · rename_i nid h
    by_cases hl : putLegal a.hs nid j = true
    · simp [hk, putDraw, hl]
    · simp [h, hk, hl, hnb] at hb

theorem join_heap (cfg : Cfg) (hk : cfg.aperture = false) (a : AS) (ep : Nat) :
    (applyNotif (sub cfg) a (.join ep)).hs = a.hs.join ep := by
  unfold applyNotif addServer HS.join
  simp only [sub_servers, sub_onAdd, sub_setServers, withServers, List.contains_iff_mem]
  by_cases h : ep ∈ a.hs.servers
  · simp [h]
  · simp [h, AS.addSink, hk, AS.heapAdd]

theorem leave_heap (cfg : Cfg) (hk : cfg.aperture = false) (a : AS) (ep : Nat) :
    (applyNotif (sub cfg) a (.leave ep)).hs = a.hs.leave ep := by
  unfold applyNotif removeServer HS.leave
  simp [sub_servers, sub_onRemove, sub_setServers, withServers, AS.removeSink, hk]

end Scales.LB
