import ScalesModel.Proofs.HeapPrim

/-! `Inv` is established by `HS.init` and preserved by `setChan`, `join`, `leave`. -/
namespace Scales.Heap

theorem Book.sameStore {s t : HS} (b : Book s) (e : SameStore s t) (hr : t.reqs = s.reqs) : Book t := by
  have ho : ∀ id, outOf t id = outOf s id := by intro id; unfold outOf; rw [hr]
  constructor
  · intro id hl; rw [e.node, ho]; exact b.acct id (by rw [← e.len]; exact hl)
  · rw [hr]; exact b.bound
  · intro r h; rw [hr] at h; rw [e.len]; exact b.reqsOk r h
  · intro id h; rw [e.node]; exact b.closedIn id ((e.inHeap id).mp h)
  · intro id hl hn
    rw [e.node, ho]
    exact b.closedOff id (by rw [← e.len]; exact hl) (fun h => hn ((e.inHeap id).mpr h))
  · intro a c ha hc he
    rw [e.node, e.node] at he
    exact b.epsInj a c ((e.inHeap a).mp ha) ((e.inHeap c).mp hc) he

theorem DownOk.sameStore {s t : HS} {d : List Nat} (b : DownOk s d) (e : SameStore s t) : DownOk t d := by
  constructor
  · intro id h; rw [e.node, e.len]; exact b.pen id h
  · intro id h hl; rw [e.node] at hl; exact b.all id ((e.inHeap id).mp h) hl
  · exact b.nodup

theorem outL_zero (reqs : List (Nat × Bool)) (id : Nat) (h : ∀ r ∈ reqs, r.1 ≠ id) : outL reqs id = 0 := by
  unfold outL
  rw [List.length_eq_zero_iff, List.filter_eq_nil_iff]
  intro r hr
  simp [h r hr]

/-! ### init -/

theorem Inv_init : Inv HS.init := by
  have hno : ∀ id, ¬ InHeap HS.init id := by
    rintro id ⟨p, h1, h2, _⟩
    have : HS.init.size = 0 := rfl
    omega
  have hlen : HS.init.nodes.length = 0 := rfl
  refine ⟨⟨?_, ?_, ?_, ?_⟩, ?_, ⟨?_, ?_, ?_, ?_, ?_, ?_⟩, ⟨?_, ?_, ?_⟩, ?_⟩
  · intro p h1 h2; have : HS.init.size = 0 := rfl; omega
  · intro p q h1 h2; have : HS.init.size = 0 := rfl; omega
  · intro p h1 h2; have : HS.init.size = 0 := rfl; omega
  · intro id hl; omega
  · intro k h1 h2; have : HS.init.size = 0 := rfl; omega
  · intro id hl; omega
  · show 0 < maxReqs; unfold maxReqs; omega
  · intro r hr; simp [HS.init] at hr
  · intro id h; exact absurd h (hno id)
  · intro id hl; omega
  · intro a b h; exact absurd h (hno a)
  · intro id h; simp [HS.init] at h
  · intro id h; exact absurd h (hno id)
  · simp [HS.init]
  · intro ep
    constructor
    · intro h; simp [HS.init] at h
    · rintro ⟨id, h, _⟩; exact absurd h (hno id)

/-! ### a channel changes state -/

theorem Inv_setChan (s : HS) (h : Inv s) (nid st : Nat) : Inv (s.setChan nid st) := by
  unfold HS.setChan
  split
  · have hf : ∀ id, ((s.setNode nid { s.node nid with chan := st }).node id).load = (s.node id).load ∧
        ((s.setNode nid { s.node nid with chan := st }).node id).ep = (s.node id).ep ∧
        ((s.setNode nid { s.node nid with chan := st }).node id).closed = (s.node id).closed := by
      intro id
      rw [node_setNode]
      split
      · rename_i e; rw [e.1]; exact ⟨rfl, rfl, rfl⟩
      · exact ⟨rfl, rfl, rfl⟩
    have fw : FrameW s (s.setNode nid { s.node nid with chan := st }) :=
      ⟨by simp, by simp, hf, by simp, by simp, by simp, by simp⟩
    apply h.frameW fw (setNode_WF s h.wf nid _ rfl)
    have : L (s.setNode nid { s.node nid with chan := st }) = L s := by
      funext p; unfold L HS.at; rw [setNode_idAt]; exact (hf _).1
    rw [this]; exact h.ord
  · exact h

/-! ### join -/

theorem push_Book (s : HS) (hw : WF s) (b : Book s) (nd : Node)
    (hep : ∀ id, InHeap s id → (s.node id).ep ≠ nd.ep) (hl : nd.load = Idle) (hc : nd.closed = 0) :
    Book (s.push nd) := by
  have hold : ∀ id, id < s.nodes.length → (s.push nd).node id = s.node id := by
    intro id h; rw [push_node]; have : ¬ id = s.nodes.length := by omega
    simp [this]
  have hnew : (s.push nd).node s.nodes.length = nd := by rw [push_node]; simp
  have ho : ∀ id, outOf (s.push nd) id = outOf s id := fun id => rfl
  constructor
  · intro id hlt
    rw [push_len] at hlt
    by_cases e : id = s.nodes.length
    · subst e
      rw [hnew, ho]
      have : outOf s s.nodes.length = 0 := by
        apply outL_zero
        intro r hr; have := b.reqsOk r hr; omega
      right; rw [this, hl]; simp
    · rw [hold id (by omega), ho]; exact b.acct id (by omega)
  · exact b.bound
  · intro r hr; rw [push_len]; have := b.reqsOk r hr; omega
  · intro id h
    rw [push_inHeap s hw] at h
    rcases h with h | h
    · rw [hold id (inHeap_lt s hw id h)]; exact b.closedIn id h
    · rw [h, hnew]; exact hc
  · intro id hlt hn
    rw [push_len] at hlt
    rw [push_inHeap s hw] at hn
    push Not at hn
    have : id < s.nodes.length := by omega
    rw [hold id this, ho]
    exact b.closedOff id this hn.1
  · intro a c ha hc' he
    rw [push_inHeap s hw] at ha hc'
    rcases ha with ha | ha <;> rcases hc' with hc' | hc'
    · rw [hold a (inHeap_lt s hw a ha), hold c (inHeap_lt s hw c hc')] at he
      exact b.epsInj a c ha hc' he
    · rw [hold a (inHeap_lt s hw a ha), hc', hnew] at he
      exact absurd he (hep a ha)
    · rw [hold c (inHeap_lt s hw c hc'), ha, hnew] at he
      exact absurd he.symm (hep c hc')
    · rw [ha, hc']

theorem push_DownOk (s : HS) (hw : WF s) (d : List Nat) (b : DownOk s d) (nd : Node) (hl : nd.load = Idle) :
    DownOk (s.push nd) d := by
  constructor
  · intro id hd
    obtain ⟨h1, h2⟩ := b.pen id hd
    rw [push_len, push_node]
    have : ¬ id = s.nodes.length := by omega
    simp only [this, if_false]
    exact ⟨by omega, h2⟩
  · intro id h hge
    rw [push_inHeap s hw] at h
    rw [push_node] at hge
    rcases h with h | h
    · have := inHeap_lt s hw id h
      have e : ¬ id = s.nodes.length := by omega
      simp only [e, if_false] at hge
      exact b.all id h hge
    · simp only [h, if_true, hl] at hge
      unfold Idle at hge; omega
  · exact b.nodup

theorem Inv_addSink (s : HS) (hw : WF s) (ho : Ord (L s) s.size) (hb : Book s) (hd : DownOk s s.down) (ep : Nat) (hnew : ∀ id, InHeap s id → (s.node id).ep ≠ ep)
    (hsrv : ∀ e, e ∈ s.servers ↔ (∃ id, InHeap s id ∧ (s.node id).ep = e) ∨ e = ep) :
    Inv (s.addSink ep) := by
  have heq : s.addSink ep = (s.push ⟨Idle, (s.size + 1 : Nat), ep, 1, 0⟩).fixUp (s.size + 1) := rfl
  rw [heq]
  obtain ⟨w, f, o⟩ := push_spec s hw ho ⟨Idle, (s.size + 1 : Nat), ep, 1, 0⟩ rfl
  have hsz : ((s.push ⟨Idle, (s.size + 1 : Nat), ep, 1, 0⟩).fixUp (s.size + 1)).size = s.size + 1 := by
    rw [f.size, push_size]
  refine ⟨w, by rw [hsz]; exact o, ?_, ?_, ?_⟩
  · exact (push_Book s hw hb _ hnew rfl rfl).frame f
  · rw [f.down]; exact (push_DownOk s hw _ hd _ rfl).frame f
  · apply SrvOk.frame _ f
    intro e
    rw [push_servers, hsrv]
    constructor
    · rintro (⟨id, h1, h2⟩ | h1)
      · refine ⟨id, (push_inHeap s hw _ id).mpr (Or.inl h1), ?_⟩
        rw [push_node]
        have := inHeap_lt s hw id h1
        have e' : ¬ id = s.nodes.length := by omega
        simp only [e', if_false]; exact h2
      · refine ⟨s.nodes.length, (push_inHeap s hw _ _).mpr (Or.inr rfl), ?_⟩
        rw [push_node]; simp [h1]
    · rintro ⟨id, h1, h2⟩
      rw [push_inHeap s hw] at h1
      rw [push_node] at h2
      rcases h1 with h1 | h1
      · have := inHeap_lt s hw id h1
        have e' : ¬ id = s.nodes.length := by omega
        simp only [e', if_false] at h2
        exact Or.inl ⟨id, h1, h2⟩
      · simp only [h1, if_true] at h2
        exact Or.inr h2.symm

theorem Inv_join (s : HS) (h : Inv s) (ep : Nat) : Inv (s.join ep) := by
  unfold HS.join
  split
  · exact h
  · rename_i hc
    have hnot : ep ∉ s.servers := by simpa using hc
    have e : SameStore s ({ s with servers := s.servers ++ [ep] } : HS) := ⟨rfl, rfl⟩
    apply Inv_addSink _ (e.wf h.wf) (by rw [e.L_eq, e.size]; exact h.ord) (h.book.sameStore e rfl)
      (h.down.sameStore e)
    · intro id hin he
      rw [e.node] at he
      exact hnot ((h.srv ep).mpr ⟨id, (e.inHeap id).mp hin, he⟩)
    · intro x
      show x ∈ s.servers ++ [ep] ↔ _
      rw [List.mem_append, h.srv x]
      simp only [List.mem_singleton, e.inHeap, e.node]

/-! ### leave -/

theorem GP_mono (f : Nat → Int) (n m x : Nat) (h : GP f n x) (hm : m ≤ n) : GP f m x :=
  fun c hc hcx hx => h c (by omega) hcx hx

/-- the core of `_RemoveSink` on a node that is in the heap -/
theorem remove_spec (s : HS) (hw : WF s) (ho : Ord (L s) s.size) (hb : Book s) (hd : DownOk s s.down)
    (nid : Nat) (hin : InHeap s nid) (c : Nat)
    (hc' : c = ((s.delAt (pos s nid)).node nid).closed +
      if ((s.delAt (pos s nid)).node nid).load = Idle ∨ ((s.delAt (pos s nid)).node nid).load ≥ 0 then 1 else 0) :
    WF ((s.delAt (pos s nid)).pop c) ∧ Ord (L ((s.delAt (pos s nid)).pop c)) ((s.delAt (pos s nid)).pop c).size ∧
    Book ((s.delAt (pos s nid)).pop c) ∧ DownOk ((s.delAt (pos s nid)).pop c) ((s.delAt (pos s nid)).pop c).down ∧
    (∀ id, InHeap ((s.delAt (pos s nid)).pop c) id ↔ InHeap s id ∧ id ≠ nid) ∧
    (∀ id, (((s.delAt (pos s nid)).pop c).node id).ep = (s.node id).ep) ∧
    ((s.delAt (pos s nid)).pop c).servers = s.servers ∧
    (s.delAt (pos s nid)).idAt (s.delAt (pos s nid)).size = nid := by
  obtain ⟨p1, p2, p3, _, hl⟩ := pos_spec s hw nid hin
  obtain ⟨wu, fu, hidu, ou⟩ := delAt_spec s hw (pos s nid) p1 p2
    (fun k a b _ _ => ho k a (by omega)) (GP_mono _ _ _ _ (Ord_to_up (L s) s.size (pos s nid) ho).2 (by omega))
  generalize s.delAt (pos s nid) = u at *
  have hc : c = if (s.node nid).load = Idle ∨ (s.node nid).load ≥ 0 then 1 else 0 := by
    rw [hc', (fu.fields nid).2.2.2, (fu.fields nid).1, hb.closedIn nid hin]; simp
  have hlast : u.idAt u.size = nid := by rw [fu.size]; exact hidu.trans p3
  have hn1 : 1 ≤ u.size := by rw [fu.size]; omega
  have hbu := hb.frame fu
  have hdu := hd.frame fu
  have hnode : ∀ id, ((u.pop c).node id).load = (u.node id).load ∧ ((u.pop c).node id).ep = (u.node id).ep ∧
      ((u.pop c).node id).closed = (if id = nid then c else (u.node id).closed) := by
    intro id
    rw [pop_node, hlast]
    have : nid < u.nodes.length := by rw [fu.len]; exact hl
    by_cases e : id = nid
    · simp [e, this]
    · simp [e]
  have hih : ∀ id, InHeap (u.pop c) id ↔ InHeap u id ∧ id ≠ nid := by
    intro id; rw [pop_inHeap u wu hn1 c id, hlast]
  have hout : ∀ id, outOf (u.pop c) id = outOf u id := fun id => rfl
  refine ⟨pop_WF u wu hn1 c, ?_, ?_, ?_, ?_, ?_, ?_, hlast⟩
  · intro k hk2 hkn
    rw [pop_size] at hkn
    rw [pop_L u wu c k (by omega) (by omega), pop_L u wu c (k / 2) (by omega) (by omega)]
    exact ou k hk2 (by rw [← fu.size]; exact hkn)
  · constructor
    · intro id hlt
      rw [(hnode id).1, hout]
      exact hbu.acct id (by simpa using hlt)
    · exact hbu.bound
    · intro r hr; rw [pop_len]; exact hbu.reqsOk r hr
    · intro id h
      rw [hih] at h
      rw [(hnode id).2.2]; simp only [h.2, if_false]
      exact hbu.closedIn id h.1
    · intro id hlt hn
      rw [pop_len] at hlt
      rw [(hnode id).2.2, (hnode id).1, hout]
      by_cases e : id = nid
      · subst e
        simp only [if_true]
        rw [hc, ← (fu.fields id).1]
        obtain ⟨a1, a2, a3, a4⟩ := hbu.pen_iff id hlt
        have := hbu.out_lt id
        have hacc := hbu.acct id hlt
        by_cases hz : outOf u id = 0
        · have : (u.node id).load = Idle ∨ (u.node id).load ≥ 0 := by
            rcases hacc with h | h
            · right; rw [h]; omega
            · left; rw [h, hz]; simp
          rw [if_pos this, if_pos (Or.inl hz)]
        · by_cases hp : (u.node id).load ≥ 0
          · rw [if_pos (Or.inr hp), if_pos (Or.inr hp)]
          · have : ¬ ((u.node id).load = Idle ∨ (u.node id).load ≥ 0) := by
              rintro (h | h)
              · have := a2.mp (by omega); omega
              · exact hp h
            rw [if_neg this, if_neg (by rintro (h | h); exact hz h; exact hp h)]
      · simp only [e, if_false]
        apply hbu.closedOff id hlt
        intro h; exact hn ((hih id).mpr ⟨h, e⟩)
    · intro a b ha hb' he
      rw [(hnode a).2.1, (hnode b).2.1] at he
      exact hbu.epsInj a b ((hih a).mp ha).1 ((hih b).mp hb').1 he
  · rw [pop_down, fu.down]
    constructor
    · intro id h
      rw [(hnode id).1, pop_len]; exact hdu.pen id h
    · intro id h hge
      rw [(hnode id).1] at hge
      exact hdu.all id ((hih id).mp h).1 hge
    · exact hd.nodup
  · intro id; rw [hih, fu.inHeap]
  · intro id; rw [(hnode id).2.1, (fu.fields id).2.1]
  · rw [pop_servers, fu.servers]

theorem removeSink_some (s : HS) (ep nid : Nat) (hfind : s.findByEp ep = some nid)
    (hneg : ¬ (s.node nid).index < 0) :
    s.removeSink ep =
      (({ s.delAt (pos s nid) with heap := (s.delAt (pos s nid)).heap.dropLast } : HS).setNode nid
        { (s.delAt (pos s nid)).node nid with
          index := -1,
          closed := ((s.delAt (pos s nid)).node nid).closed +
            if ((s.delAt (pos s nid)).node nid).load = Idle ∨ ((s.delAt (pos s nid)).node nid).load ≥ 0
            then 1 else 0 }, true) := by
  unfold HS.removeSink
  rw [hfind]
  dsimp only
  rw [if_neg hneg]
  rfl

theorem Inv_removeSink (s : HS) (hw : WF s) (ho : Ord (L s) s.size) (hb : Book s) (hd : DownOk s s.down)
    (ep : Nat) (srv : List Nat)
    (hsrv : ∀ e, e ∈ srv ↔ (∃ id, InHeap s id ∧ (s.node id).ep = e) ∧ e ≠ ep) (hs : s.servers = srv) :
    Inv (s.removeSink ep).1 := by
  cases hfind : s.findByEp ep with
  | none =>
    unfold HS.removeSink
    rw [hfind]
    refine ⟨hw, ho, hb, hd, ?_⟩
    intro e
    show e ∈ s.servers ↔ _
    rw [hs, hsrv]
    constructor
    · rintro ⟨h, _⟩; exact h
    · rintro ⟨id, h1, h2⟩
      refine ⟨⟨id, h1, h2⟩, ?_⟩
      intro he
      unfold HS.findByEp at hfind
      rw [List.find?_eq_none] at hfind
      have := hfind id ((mem_heap_iff s id).mpr h1)
      simp [h2, he] at this
  | some nid =>
    have hfind' := hfind
    unfold HS.findByEp at hfind
    have hmem := List.mem_of_find?_eq_some hfind
    have hep : (s.node nid).ep = ep := by simpa using List.find?_some hfind
    have hin : InHeap s nid := (mem_heap_iff s nid).mp hmem
    have hidx := index_of_inHeap s hw nid hin
    have hneg : ¬ (s.node nid).index < 0 := by omega
    rw [removeSink_some s ep nid hfind' hneg]
    obtain ⟨w, o, b, d, hih, heps, hsv, hlast⟩ := remove_spec s hw ho hb hd nid hin _ rfl
    have heq : ∀ (c : Nat),
        (({ s.delAt (pos s nid) with heap := (s.delAt (pos s nid)).heap.dropLast } : HS).setNode nid
          { (s.delAt (pos s nid)).node nid with index := -1, closed := c }) = (s.delAt (pos s nid)).pop c := by
      intro c; unfold HS.pop; simp only [hlast]; rfl
    dsimp only
    rw [heq]
    refine ⟨w, o, b, d, ?_⟩
    intro e
    rw [hsv, hs, hsrv]
    constructor
    · rintro ⟨⟨id, h1, h2⟩, hne⟩
      refine ⟨id, (hih id).mpr ⟨h1, ?_⟩, by rw [heps]; exact h2⟩
      intro e'; subst e'; exact hne (h2.symm.trans hep)
    · rintro ⟨id, h1, h2⟩
      rw [heps] at h2
      rw [hih] at h1
      refine ⟨⟨id, h1.1, h2⟩, ?_⟩
      intro he
      exact h1.2 (hb.epsInj id nid h1.1 hin (by rw [h2, he, hep]))

theorem Inv_leave (s : HS) (h : Inv s) (ep : Nat) : Inv (s.leave ep) := by
  unfold HS.leave
  have e : SameStore s ({ s with servers := s.servers.filter (· ≠ ep) } : HS) := ⟨rfl, rfl⟩
  apply Inv_removeSink _ (e.wf h.wf) (by rw [e.L_eq, e.size]; exact h.ord) (h.book.sameStore e rfl)
    (h.down.sameStore e) ep (s.servers.filter (· ≠ ep)) _ rfl
  intro x
  rw [List.mem_filter, h.srv x]
  constructor
  · rintro ⟨⟨id, a, b⟩, c⟩
    exact ⟨⟨id, (e.inHeap id).mpr a, by rw [e.node]; exact b⟩, by simpa using c⟩
  · rintro ⟨⟨id, a, b⟩, c⟩
    exact ⟨⟨id, (e.inHeap id).mp a, by rw [e.node] at b; exact b⟩, by simpa using c⟩

end Scales.Heap
