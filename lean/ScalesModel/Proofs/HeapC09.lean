import ScalesModel.Proofs.HeapSpec
import ScalesModel.Adapter.HeapC09

/-! C09 at the balancer hop: after every dispatch the down list holds no node whose channel is
    Open, hence (with `Inv`: a heap node is marked down exactly when it is listed) no Open member
    carries the penalty; the executable specification `specC09` answers `ok` on the model's
    history of every legal operation list. -/
namespace Scales.Heap

/-- the dispatch leaves the down list as `__Get`'s last scan left it: no listed node is Open -/
theorem get_scanned (s : HS) (h : Inv s) (hsz : ¬ s.size = 0) :
    ∀ id ∈ (s.get noHook).1.down, ((s.get noHook).1.node id).chan ≠ chOpen := by
  have gk := getLoop_ok s h (by omega)
  obtain ⟨c1, _⟩ := choice_spec s _ _ gk (by omega)
  rw [get_nonempty s hsz]
  have hin1 : InHeap (s.getLoop noHook (s.nodes.length + 1)).1 (s.getLoop noHook (s.nodes.length + 1)).2 :=
    (gk.frame.inHeap _).mpr c1
  obtain ⟨w, f, o⟩ := grow_spec _ gk.inv.wf gk.inv.ord _ hin1
    (((s.getLoop noHook (s.nodes.length + 1)).1.node (s.getLoop noHook (s.nodes.length + 1)).2).load + 1) (by omega)
  rw [setLoad_pos]
  have hsc := gk.scanned
  generalize (s.getLoop noHook (s.nodes.length + 1)).1 = s1 at *
  generalize (s.getLoop noHook (s.nodes.length + 1)).2 = nid at *
  have g : GFrame s1 ((s1.setLoad nid ((s1.node nid).load + 1)).fixDown (pos s1 nid) s1.size) :=
    (GFrame.ofSetLoad s1 nid _ hin1).trans f.toG
  have hd : ((s1.setLoad nid ((s1.node nid).load + 1)).fixDown (pos s1 nid) s1.size).down = s1.down := f.down
  intro id hmem
  have hmem' : id ∈ s1.down := by rw [← hd]; exact hmem
  have hc : (((s1.setLoad nid ((s1.node nid).load + 1)).fixDown (pos s1 nid) s1.size).node id).chan =
      (s1.node id).chan := (g.fields id).2.1
  show (((s1.setLoad nid ((s1.node nid).load + 1)).fixDown (pos s1 nid) s1.size).node id).chan ≠ chOpen
  rw [hc]
  exact hsc id hmem'

/-- **recovery at the balancer.**  Right after a dispatch, a heap node whose channel is Open is
    not marked down: its load is below 0 (no penalty) and it is not on the down list. -/
theorem get_recovered (s : HS) (h : Inv s) (hb : s.reqs.length + 1 < maxReqs) (hsz : ¬ s.size = 0)
    (id : Nat) (hin : InHeap (s.get noHook).1 id) (hop : ((s.get noHook).1.node id).chan = chOpen) :
    ((s.get noHook).1.node id).load < 0 ∧ id ∉ (s.get noHook).1.down := by
  have hi := Inv_get s h hb
  have hsc := get_scanned s h hsz
  have hnd : id ∉ (s.get noHook).1.down := fun hd => hsc id hd hop
  refine ⟨?_, hnd⟩
  by_contra hge
  exact hnd (hi.down.all id hin (by omega))

theorem stillDown_nil (a : A0) (s : HS) (h : Inv s) (hs : Sim0 a s) (hb : s.reqs.length + 1 < maxReqs)
    (hsz : ¬ s.size = 0) : stillDown a (obsOf (s.get noHook).1 (some (s.get noHook).2)) = [] := by
  unfold stillDown
  rw [List.filter_eq_nil_iff]
  intro id hm
  obtain ⟨nid, _, _, _, hlen, hinh, hfld, _⟩ := get_facts s h hsz
  simp only [List.mem_map] at hm
  obtain ⟨⟨i, e⟩, hme, rfl⟩ := hm
  have hi : InHeap s i := ((hs.mem i e).mp hme).1
  have hl : i < s.nodes.length := inHeap_lt s h.wf i hi
  have hi' : InHeap (s.get noHook).1 i := (hinh i).mpr hi
  show ¬ ((a.chanOf i == chOpen && penalisedIn (obsOf (s.get noHook).1 (some (s.get noHook).2)) i) = true)
  rw [penalisedIn_obsOf _ _ i (by rw [hlen]; exact hl)]
  unfold A0.chanOf
  rw [hs.chan i hl, ← (hfld i).2.1]
  intro hc
  simp only [Bool.and_eq_true, beq_iff_eq, decide_eq_true_eq] at hc
  have := (get_recovered s h hb hsz i hi' hc.1).1
  omega

theorem c09_ok (a : A0) (s : HS) (h : Inv s) (hs : Sim0 a s) (hb : s.reqs.length + 1 < maxReqs) (idx : Nat) :
    c09Get a idx (step () s .get).2 = .ok := by
  show c09Get a idx (obsOf (s.get noHook).1 (some (s.get noHook).2)) = .ok
  by_cases hsz : s.size = 0
  · rw [get_empty s hsz]; rfl
  · unfold c09Get
    rw [stillDown_nil a s h hs hb hsz]
    show (match (some (s.get noHook).2 : Option GetRes) with
      | some (.node _ _ _) => Verdict.ok
      | _ => Verdict.ok) = Verdict.ok
    split <;> rfl

theorem trace9_cons (s : HS) (op : Op) (ops : List Op) :
    comp9.trace () s (op :: ops) = (op, (step () s op).2) :: comp9.trace () (step () s op).1 ops := rfl

theorem spec9_ok (ops : List Op) : ∀ (s : HS) (a : A0) (idx : Nat), Inv s → Sim0 a s → PrevOk a s →
    opsOk s ops = true → s.reqs.length + getCount ops < maxReqs →
    specGo9 a idx (comp9.trace () s ops) = .ok := by
  induction ops with
  | nil => intro s a idx _ _ _ _ _; rfl
  | cons op ops ih =>
    intro s a idx h hs hp hok hb
    rw [opsOk_cons, Bool.and_eq_true] at hok
    rw [getCount_cons] at hb
    obtain ⟨i1, l1⟩ := step_spec s op h hok.1 (by omega)
    obtain ⟨s1, p1⟩ := sim_step a s op h hs hp hok.1
    rw [trace9_cons]
    unfold specGo9
    apply and_ok
    · cases op with
      | get => exact c09_ok a s h hs (by have : opGets Op.get = 1 := rfl; omega) idx
      | _ => rfl
    · exact ih _ _ (idx + 1) i1 s1 p1 hok.2 (by omega)

/-- the dispatch counter after an operation list -/
theorem run_reqs_le (ops : List Op) : ∀ (s : HS), Inv s → opsOk s ops = true →
    s.reqs.length + getCount ops < maxReqs →
    Inv (runOps s ops) ∧ (runOps s ops).reqs.length ≤ s.reqs.length + getCount ops := by
  induction ops with
  | nil => intro s h _ _; exact ⟨h, by show s.reqs.length ≤ _; omega⟩
  | cons op ops ih =>
    intro s h hok hb
    rw [opsOk_cons, Bool.and_eq_true] at hok
    rw [getCount_cons] at hb
    obtain ⟨i1, l1⟩ := step_spec s op h hok.1 (by omega)
    obtain ⟨i2, l2⟩ := ih _ i1 hok.2 (by omega)
    refine ⟨i2, ?_⟩
    show (runOps (step () s op).1 ops).reqs.length ≤ _
    rw [getCount_cons]; omega

/-- the same from the pre-state's point of view: every node that is in the heap with an Open
    channel when the dispatch starts is a heap node without penalty, off the down list, when it
    returns -/
theorem get_recovers_open (s : HS) (h : Inv s) (hb : s.reqs.length + 1 < maxReqs)
    (id : Nat) (hin : InHeap s id) (hop : (s.node id).chan = chOpen) :
    InHeap (s.get noHook).1 id ∧ ((s.get noHook).1.node id).chan = chOpen ∧
    ((s.get noHook).1.node id).load < 0 ∧ id ∉ (s.get noHook).1.down := by
  have hsz : ¬ s.size = 0 := by
    obtain ⟨p, h1, h2, _⟩ := hin
    omega
  obtain ⟨nid, _, _, _, _, hinh, hfld, _⟩ := get_facts s h hsz
  have hin' := (hinh id).mpr hin
  have hop' : ((s.get noHook).1.node id).chan = chOpen := by rw [(hfld id).2.1]; exact hop
  exact ⟨hin', hop', get_recovered s h hb hsz id hin' hop'⟩

/-- an Open member with strictly fewer outstanding requests than every other Open member is the
    one the dispatch goes to — whether or not it was marked down before -/
theorem get_uses_recovered (s : HS) (h : Inv s) (m : Nat) (hin : InHeap s m) (hop : (s.node m).chan = chOpen)
    (hleast : ∀ m', InHeap s m' → (s.node m').chan = chOpen → m' ≠ m → outOf s m < outOf s m') :
    (s.get noHook).2 = GetRes.node m (s.node m).ep s.reqs.length := by
  have hsz : ¬ s.size = 0 := by
    obtain ⟨p, h1, h2, _⟩ := hin
    omega
  obtain ⟨nid, hres, hnin, _, _, _, _, hch⟩ := get_facts s h hsz
  obtain ⟨c1, c2⟩ := hch ⟨m, hin, hop⟩
  have : nid = m := by
    by_contra hne
    have a := hleast nid hnin c1 hne
    have b := c2 m hin hop
    omega
  rw [hres, this]

end Scales.Heap
