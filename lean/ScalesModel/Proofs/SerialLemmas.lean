/-
  Proofs/SerialLemmas.lean — invariant of the serial transport model and the simulation
  between the model and the accumulator of its executable specification.
-/
import ScalesModel.Adapter.Serial
import ScalesModel.Proofs.TransportLemmas
set_option linter.unusedSimpArgs false
set_option linter.unusedVariables false
namespace Scales.Serial
open Scales.Transport

/-- at operation boundaries: a connected socket means `_state` is Open; an Open transport holds
    its open result; a transaction in flight belongs to an Open transport, and its socket is
    connected unless it is blocked in the re-connect of its time-out handler; and — the window —
    `_state` Open *without* a connected socket only occurs while such a transaction is in flight
    (`_processing` set): never on an idle transport -/
def Inv (s : St) : Prop :=
  (s.sockOpen = true → s.cstate = .opened) ∧ (s.cstate = .opened → s.openRes = true) ∧
  (∀ t, s.processing = some t → s.cstate = .opened ∧ (t.phase = .reconn ↔ s.sockOpen = false)) ∧
  (s.cstate = .opened → s.sockOpen = false → s.processing.isSome = true)

/-- requests owed a response according to the model: the transaction in flight -/
def owedOf (s : St) : List Nat :=
  match s.processing with
  | none => []
  | some t => [t.id]

/-- the re-connect in progress according to the model, and who waits for it -/
def rcOf (s : St) : Option (List Nat) :=
  match s.processing with
  | none => none
  | some t => if t.phase = .reconn then some [t.id] else none

theorem inv_init : Inv St.init := by simp [Inv, St.init]

theorem inv_step (s : St) (op : Op) (h : Inv s) : Inv (stepOut s op).1 := by
  obtain ⟨cs, so, ores, proc⟩ := s
  simp only [Inv] at h ⊢
  cases op with
  | openT r =>
    cases proc with
    | none =>
      cases r <;> cases ores <;> cases so <;> cases cs <;>
        simp_all [stepOut, St.openT, St.openImpl, St.fault, St.state, St.close]
    | some t =>
      obtain ⟨tid, tdl, ph⟩ := t
      cases r <;> cases ores <;> cases so <;> cases cs <;> cases ph <;>
        simp_all [stepOut, St.openT, St.openImpl, St.fault, St.state, St.close]
  | req id dl =>
    cases proc with
    | some t => simpa [stepOut, St.request] using h
    | none =>
      cases dl with
      | none => cases so <;> cases cs <;>
          simp_all [stepOut, St.request, St.txnFail, St.fault, St.state, St.close]
      | future => cases so <;> cases cs <;>
          simp_all [stepOut, St.request, St.txnFail, St.fault, St.state, St.close]
      | past r => cases r <;> cases so <;> cases cs <;>
          simp_all [stepOut, St.request, St.txnTimeout, St.fault, St.state, St.close]
      | pastBlock => cases so <;> cases cs <;>
          simp_all [stepOut, St.request, St.txnTimeoutStart]
  | io o =>
    cases proc with
    | none => simp_all [stepOut, St.io]
    | some t =>
      obtain ⟨tid, tdl, ph⟩ := t
      cases o <;> cases ph <;> cases so <;> cases cs <;>
        simp_all [stepOut, St.io, St.txnFail, St.fault, St.state, St.close]
  | timeoutHere r =>
    cases proc with
    | none => simp_all [stepOut, St.timeoutHere]
    | some t =>
      obtain ⟨tid, tdl, ph⟩ := t
      cases tdl <;> cases r <;> cases ph <;> cases so <;> cases cs <;>
        simp_all [stepOut, St.timeoutHere, St.txnTimeout, St.fault, St.state, St.close]
  | timeoutBlock =>
    cases proc with
    | none => simp_all [stepOut, St.timeoutBlock]
    | some t =>
      obtain ⟨tid, tdl, ph⟩ := t
      cases tdl <;> cases ph <;> cases so <;> cases cs <;>
        simp_all [stepOut, St.timeoutBlock, St.txnTimeoutStart]
  | reconn r =>
    cases proc with
    | none => simp_all [stepOut, St.reconnDone]
    | some t =>
      obtain ⟨tid, tdl, ph⟩ := t
      cases r <;> cases ph <;> cases so <;> cases cs <;>
        simp_all [stepOut, St.reconnDone, St.fault, St.state, St.close]
  | close => simp [stepOut, St.close]
  | look => simpa [stepOut] using h

theorem state_eq_cstate (s : St) (h : Inv s) : s.state = s.cstate := by
  obtain ⟨cs, so, ores, proc⟩ := s
  simp only [Inv] at h
  cases so <;> simp_all [St.state]

structure Rel (s : St) (a : Acc) (seen : List Nat) : Prop where
  owed : a.owed = owedOf s
  prev : a.prev = s.state
  wr : ∀ id, a.wr = some id → ∃ t, s.processing = some t ∧ t.id = id ∧ t.phase = .write
  seenO : ∀ id ∈ a.owed, id ∈ seen
  rc : a.rc = rcOf s
  inv : Inv s

def seenAfter (op : Op) (seen : List Nat) : List Nat :=
  match isReq op with
  | some id => id :: seen
  | none => seen

theorem rel_init : Rel St.init {} [] := by
  refine ⟨rfl, rfl, ?_, ?_, rfl, inv_init⟩ <;> simp


theorem step_ok_look (s : St) (a : Acc) (seen : List Nat) (h : Rel s a seen)
    (hen : enabled s seen .look = true) :
    (specStep a .look (obsOf (stepOut s .look).1 (stepOut s .look).2)).1 = .ok ∧
    Rel (stepOut s .look).1 (specStep a .look (obsOf (stepOut s .look).1 (stepOut s .look).2)).2
      (seenAfter .look seen) := by
  have hinv' := inv_step s .look h.inv
  obtain ⟨ho, hp, hw, hs, hr, hinv⟩ := h
  have hst := state_eq_cstate s hinv
  obtain ⟨owed, ab, prev, wr, rc, idx⟩ := a
  obtain ⟨cs, so, ores, proc⟩ := s
  simp only at ho hp hw hs hst hr
  subst ho hp hr
  simp only [Inv] at hinv
  cases proc with
  | none =>
    cases so <;> cases cs <;>
    (refine ⟨?_, ⟨?_, ?_, ?_, ?_, ?_, hinv'⟩⟩ <;>
      simp_all [specStep, owedWith, vFail, vSilence, vCarry, vAble, nextAcc, nextWr, nextRc, rcOf, idleOpen, stepOut, obsOf, isReq, isFailure, Verdict.and, seenAfter, owedOf, St.close,
        St.state])
  | some t =>
    obtain ⟨tid, tdl, ph⟩ := t
    refine ⟨?_, ⟨?_, ?_, ?_, ?_, ?_, hinv'⟩⟩ <;>
      simp_all [specStep, owedWith, vFail, vSilence, vCarry, vAble, nextAcc, nextWr, nextRc, rcOf, idleOpen, stepOut, obsOf, isReq, isFailure, Verdict.and, seenAfter, owedOf, St.close,
        St.state]

theorem step_ok_close (s : St) (a : Acc) (seen : List Nat) (h : Rel s a seen)
    (hen : enabled s seen .close = true) :
    (specStep a .close (obsOf (stepOut s .close).1 (stepOut s .close).2)).1 = .ok ∧
    Rel (stepOut s .close).1 (specStep a .close (obsOf (stepOut s .close).1 (stepOut s .close).2)).2
      (seenAfter .close seen) := by
  have hinv' := inv_step s .close h.inv
  obtain ⟨ho, hp, hw, hs, hr, hinv⟩ := h
  have hst := state_eq_cstate s hinv
  obtain ⟨owed, ab, prev, wr, rc, idx⟩ := a
  obtain ⟨cs, so, ores, proc⟩ := s
  simp only at ho hp hw hs hst hr
  subst ho hp hr
  simp only [Inv] at hinv
  cases proc <;>
  (refine ⟨?_, ⟨?_, ?_, ?_, ?_, ?_, hinv'⟩⟩ <;>
    simp_all [specStep, owedWith, vFail, vSilence, vCarry, vAble, nextAcc, nextWr, nextRc, rcOf, idleOpen, stepOut, obsOf, isReq, isFailure, Verdict.and, seenAfter, owedOf, St.close,
        St.state])

theorem step_ok_openT (s : St) (a : Acc) (seen : List Nat) (r : Conn) (h : Rel s a seen)
    (hen : enabled s seen (.openT r) = true) :
    (specStep a (.openT r) (obsOf (stepOut s (.openT r)).1 (stepOut s (.openT r)).2)).1 = .ok ∧
    Rel (stepOut s (.openT r)).1 (specStep a (.openT r) (obsOf (stepOut s (.openT r)).1 (stepOut s (.openT r)).2)).2
      (seenAfter (.openT r) seen) := by
  have hinv' := inv_step s (.openT r) h.inv
  obtain ⟨ho, hp, hw, hs, hr, hinv⟩ := h
  have hst := state_eq_cstate s hinv
  obtain ⟨owed, ab, prev, wr, rc, idx⟩ := a
  obtain ⟨cs, so, ores, proc⟩ := s
  simp only at ho hp hw hs hst hr
  subst ho hp hr
  simp only [Inv] at hinv
  cases proc with
  | none =>
    cases r <;> cases ores <;> cases so <;> cases cs <;>
    (refine ⟨?_, ⟨?_, ?_, ?_, ?_, ?_, hinv'⟩⟩ <;>
      simp_all [specStep, owedWith, vFail, vSilence, vCarry, vAble, nextAcc, nextWr, nextRc, rcOf, idleOpen, stepOut, obsOf, isReq, isFailure, Verdict.and, seenAfter, owedOf, St.close,
        St.state, St.openT, St.openImpl, St.fault, firstNotFailed])
  | some t =>
    obtain ⟨tid, tdl, ph⟩ := t
    cases r <;>
    (refine ⟨?_, ⟨?_, ?_, ?_, ?_, ?_, hinv'⟩⟩ <;>
      simp_all [specStep, owedWith, vFail, vSilence, vCarry, vAble, nextAcc, nextWr, nextRc, rcOf, idleOpen, stepOut, obsOf, isReq, isFailure, Verdict.and, seenAfter, owedOf, St.close,
        St.state, St.openT, St.openImpl, St.fault, firstNotFailed])

theorem step_ok_io (s : St) (a : Acc) (seen : List Nat) (o : IOOut) (h : Rel s a seen)
    (hen : enabled s seen (.io o) = true) :
    (specStep a (.io o) (obsOf (stepOut s (.io o)).1 (stepOut s (.io o)).2)).1 = .ok ∧
    Rel (stepOut s (.io o)).1 (specStep a (.io o) (obsOf (stepOut s (.io o)).1 (stepOut s (.io o)).2)).2
      (seenAfter (.io o) seen) := by
  have hinv' := inv_step s (.io o) h.inv
  obtain ⟨ho, hp, hw, hs, hr, hinv⟩ := h
  have hst := state_eq_cstate s hinv
  obtain ⟨owed, ab, prev, wr, rc, idx⟩ := a
  obtain ⟨cs, so, ores, proc⟩ := s
  simp only at ho hp hw hs hst hr
  subst ho hp hr
  simp only [Inv] at hinv
  cases proc with
  | none => simp [enabled] at hen
  | some t =>
    obtain ⟨tid, tdl, ph⟩ := t
    cases o <;> cases ph <;> cases so <;> cases cs <;> cases wr <;>
    (refine ⟨?_, ⟨?_, ?_, ?_, ?_, ?_, hinv'⟩⟩ <;>
      simp_all [specStep, owedWith, vFail, vSilence, vCarry, vAble, nextAcc, nextWr, nextRc, rcOf, idleOpen, stepOut, obsOf, isReq, isFailure, Verdict.and, seenAfter, owedOf, St.close,
        St.state, St.io, St.txnFail, St.fault, firstNotFailed, settle, enabled, Resp.isError])

theorem step_ok_timeoutHere (s : St) (a : Acc) (seen : List Nat) (r : Conn) (h : Rel s a seen)
    (hen : enabled s seen (.timeoutHere r) = true) :
    (specStep a (.timeoutHere r) (obsOf (stepOut s (.timeoutHere r)).1 (stepOut s (.timeoutHere r)).2)).1 = .ok ∧
    Rel (stepOut s (.timeoutHere r)).1 (specStep a (.timeoutHere r) (obsOf (stepOut s (.timeoutHere r)).1 (stepOut s (.timeoutHere r)).2)).2
      (seenAfter (.timeoutHere r) seen) := by
  have hinv' := inv_step s (.timeoutHere r) h.inv
  obtain ⟨ho, hp, hw, hs, hr, hinv⟩ := h
  have hst := state_eq_cstate s hinv
  obtain ⟨owed, ab, prev, wr, rc, idx⟩ := a
  obtain ⟨cs, so, ores, proc⟩ := s
  simp only at ho hp hw hs hst hr
  subst ho hp hr
  simp only [Inv] at hinv
  cases proc with
  | none => simp [enabled] at hen
  | some t =>
    obtain ⟨tid, tdl, ph⟩ := t
    cases tdl <;> cases r <;> cases ph <;> cases so <;> cases cs <;>
    (refine ⟨?_, ⟨?_, ?_, ?_, ?_, ?_, hinv'⟩⟩ <;>
      simp_all [specStep, owedWith, vFail, vSilence, vCarry, vAble, nextAcc, nextWr, nextRc, rcOf, idleOpen, stepOut, obsOf, isReq, isFailure, Verdict.and, seenAfter, owedOf, St.close,
        St.state, St.timeoutHere, St.txnTimeout, St.fault, firstNotFailed, settle, enabled,
        Resp.isError])

theorem step_ok_timeoutBlock (s : St) (a : Acc) (seen : List Nat) (h : Rel s a seen)
    (hen : enabled s seen .timeoutBlock = true) :
    (specStep a .timeoutBlock (obsOf (stepOut s .timeoutBlock).1 (stepOut s .timeoutBlock).2)).1 = .ok ∧
    Rel (stepOut s .timeoutBlock).1 (specStep a .timeoutBlock (obsOf (stepOut s .timeoutBlock).1 (stepOut s .timeoutBlock).2)).2
      (seenAfter .timeoutBlock seen) := by
  have hinv' := inv_step s .timeoutBlock h.inv
  obtain ⟨ho, hp, hw, hs, hr, hinv⟩ := h
  have hst := state_eq_cstate s hinv
  obtain ⟨owed, ab, prev, wr, rc, idx⟩ := a
  obtain ⟨cs, so, ores, proc⟩ := s
  simp only at ho hp hw hs hst hr
  subst ho hp hr
  simp only [Inv] at hinv
  cases proc with
  | none => simp [enabled] at hen
  | some t =>
    obtain ⟨tid, tdl, ph⟩ := t
    cases tdl <;> cases ph <;> cases so <;> cases cs <;>
    (refine ⟨?_, ⟨?_, ?_, ?_, ?_, ?_, hinv'⟩⟩ <;>
      simp_all [specStep, owedWith, vFail, vSilence, vCarry, vAble, nextAcc, nextWr, nextRc, rcOf, idleOpen, stepOut, obsOf, isReq, isFailure, Verdict.and, seenAfter, owedOf, St.close,
        St.state, St.timeoutBlock, St.txnTimeoutStart, firstNotFailed, settle, enabled,
        Resp.isError])

theorem step_ok_reconn (s : St) (a : Acc) (seen : List Nat) (r : Conn) (h : Rel s a seen)
    (hen : enabled s seen (.reconn r) = true) :
    (specStep a (.reconn r) (obsOf (stepOut s (.reconn r)).1 (stepOut s (.reconn r)).2)).1 = .ok ∧
    Rel (stepOut s (.reconn r)).1 (specStep a (.reconn r) (obsOf (stepOut s (.reconn r)).1 (stepOut s (.reconn r)).2)).2
      (seenAfter (.reconn r) seen) := by
  have hinv' := inv_step s (.reconn r) h.inv
  obtain ⟨ho, hp, hw, hs, hr, hinv⟩ := h
  have hst := state_eq_cstate s hinv
  obtain ⟨owed, ab, prev, wr, rc, idx⟩ := a
  obtain ⟨cs, so, ores, proc⟩ := s
  simp only at ho hp hw hs hst hr
  subst ho hp hr
  simp only [Inv] at hinv
  cases proc with
  | none => simp [enabled] at hen
  | some t =>
    obtain ⟨tid, tdl, ph⟩ := t
    cases r <;> cases ph <;> cases so <;> cases cs <;>
    (refine ⟨?_, ⟨?_, ?_, ?_, ?_, ?_, hinv'⟩⟩ <;>
      simp_all [specStep, owedWith, vFail, vSilence, vCarry, vAble, nextAcc, nextWr, nextRc, rcOf, idleOpen, stepOut, obsOf, isReq, isFailure, Verdict.and, seenAfter, owedOf, St.close,
        St.state, St.reconnDone, St.fault, firstNotFailed, settle, enabled,
        Resp.isError])

theorem step_ok_req (s : St) (a : Acc) (seen : List Nat) (id : Nat) (dl : DL) (h : Rel s a seen)
    (hen : enabled s seen (.req id dl) = true) :
    (specStep a (.req id dl) (obsOf (stepOut s (.req id dl)).1 (stepOut s (.req id dl)).2)).1 = .ok ∧
    Rel (stepOut s (.req id dl)).1 (specStep a (.req id dl) (obsOf (stepOut s (.req id dl)).1 (stepOut s (.req id dl)).2)).2
      (seenAfter (.req id dl) seen) := by
  have hinv' := inv_step s (.req id dl) h.inv
  obtain ⟨ho, hp, hw, hs, hr, hinv⟩ := h
  have hst := state_eq_cstate s hinv
  obtain ⟨owed, ab, prev, wr, rc, idx⟩ := a
  obtain ⟨cs, so, ores, proc⟩ := s
  simp only at ho hp hw hs hst hr
  subst ho hp hr
  simp only [Inv] at hinv
  have hfresh : id ∉ seen := by simpa [enabled] using hen
  cases proc with
  | none =>
    cases dl with
    | past r =>
      cases r <;> cases so <;> cases cs <;>
      (refine ⟨?_, ⟨?_, ?_, ?_, ?_, ?_, hinv'⟩⟩ <;>
        simp_all [specStep, owedWith, vFail, vSilence, vCarry, vAble, nextAcc, nextWr, nextRc, rcOf, idleOpen, stepOut, obsOf, isReq, isFailure, Verdict.and, seenAfter, owedOf, St.close,
        St.state, St.request, St.txnTimeout, St.fault, firstNotFailed, settle, enabled,
          Resp.isError])
    | pastBlock =>
      cases so <;> cases cs <;>
      (refine ⟨?_, ⟨?_, ?_, ?_, ?_, ?_, hinv'⟩⟩ <;>
        simp_all [specStep, owedWith, vFail, vSilence, vCarry, vAble, nextAcc, nextWr, nextRc, rcOf, idleOpen, stepOut, obsOf, isReq, isFailure, Verdict.and, seenAfter, owedOf, St.close,
        St.state, St.request, St.txnTimeoutStart, firstNotFailed, settle, enabled,
          Resp.isError])
    | none =>
      cases so <;> cases cs <;>
      (refine ⟨?_, ⟨?_, ?_, ?_, ?_, ?_, hinv'⟩⟩ <;>
        simp_all [specStep, owedWith, vFail, vSilence, vCarry, vAble, nextAcc, nextWr, nextRc, rcOf, idleOpen, stepOut, obsOf, isReq, isFailure, Verdict.and, seenAfter, owedOf, St.close,
        St.state, St.request, St.txnFail, St.fault, firstNotFailed, settle, enabled,
          Resp.isError])
    | future =>
      cases so <;> cases cs <;>
      (refine ⟨?_, ⟨?_, ?_, ?_, ?_, ?_, hinv'⟩⟩ <;>
        simp_all [specStep, owedWith, vFail, vSilence, vCarry, vAble, nextAcc, nextWr, nextRc, rcOf, idleOpen, stepOut, obsOf, isReq, isFailure, Verdict.and, seenAfter, owedOf, St.close,
        St.state, St.request, St.txnFail, St.fault, firstNotFailed, settle, enabled,
          Resp.isError])
  | some t =>
    obtain ⟨tid, tdl, ph⟩ := t
    have hne : tid ≠ id := by
      intro e; apply hfresh; rw [← e]; exact hs tid (by simp [owedOf])
    have hne' : id ≠ tid := fun e => hne e.symm
    cases dl with
    | past r =>
      cases r <;>
      (refine ⟨?_, ⟨?_, ?_, ?_, ?_, ?_, hinv'⟩⟩ <;>
        simp_all [specStep, owedWith, vFail, vSilence, vCarry, vAble, nextAcc, nextWr, nextRc, rcOf, idleOpen, stepOut, obsOf, isReq, isFailure, Verdict.and, seenAfter, owedOf, St.close,
        St.state, St.request, firstNotFailed, settle, enabled, Resp.isError])
    | _ =>
      refine ⟨?_, ⟨?_, ?_, ?_, ?_, ?_, hinv'⟩⟩ <;>
        simp_all [specStep, owedWith, vFail, vSilence, vCarry, vAble, nextAcc, nextWr, nextRc, rcOf, idleOpen, stepOut, obsOf, isReq, isFailure, Verdict.and, seenAfter, owedOf, St.close,
        St.state, St.request, firstNotFailed, settle, enabled, Resp.isError]

/-- one operation: the specification accepts the model's observation, and the relation between
    model state and specification accumulator is kept -/
theorem step_ok (s : St) (a : Acc) (seen : List Nat) (op : Op) (h : Rel s a seen)
    (hen : enabled s seen op = true) :
    (specStep a op (obsOf (stepOut s op).1 (stepOut s op).2)).1 = .ok ∧
    Rel (stepOut s op).1 (specStep a op (obsOf (stepOut s op).1 (stepOut s op).2)).2
      (seenAfter op seen) := by
  cases op with
  | look => exact step_ok_look s a seen h hen
  | close => exact step_ok_close s a seen h hen
  | openT r => exact step_ok_openT s a seen r h hen
  | io o => exact step_ok_io s a seen o h hen
  | timeoutHere r => exact step_ok_timeoutHere s a seen r h hen
  | timeoutBlock => exact step_ok_timeoutBlock s a seen h hen
  | reconn r => exact step_ok_reconn s a seen r h hen
  | req id dl => exact step_ok_req s a seen id dl h hen

theorem and_eq_ok {v : Verdict} {f : Unit → Verdict} (h : v.and f = .ok) : v = .ok ∧ f () = .ok := by
  cases v with
  | ok => exact ⟨rfl, h⟩
  | fail c ps => simp [Verdict.and] at h

/-- a property of the specification alone: a history it accepts hands a request at most as many
    responses as it is owed at the start plus the number of times it is issued -/
theorem spec_count (id : Nat) : ∀ (h : List (Op × Obs)) (a : Acc), specGo a h = .ok →
    responsesTo id h ≤ a.owed.count id + a.abandoned.count id + issued id h := by
  intro h
  induction h with
  | nil => intro a _; simp [responsesTo]
  | cons p rest ih =>
    intro a hok
    obtain ⟨op, o⟩ := p
    simp only [specGo] at hok
    obtain ⟨hv, hrest⟩ := and_eq_ok hok
    have ih' := ih _ hrest
    simp only [responsesTo, issued, List.map_cons, List.sum_cons, List.countP_cons] at ih' ⊢
    unfold specStep at hv ih'
    cases hset : settle (owedWith a op) a.abandoned o.dels with
    | error e => simp [hset] at hv
    | ok pr =>
      obtain ⟨owed2, ab2⟩ := pr
      have hc := settle_count id _ _ _ _ _ hset
      simp only [hset, nextAcc] at ih'
      have hown : (owedWith a op).count id =
          a.owed.count id + (if (isReq op == some id) = true then 1 else 0) := by
        unfold owedWith
        cases hr : isReq op with
        | none => simp
        | some j =>
          by_cases e : j = id
          · subst e; simp
          · simp [e, List.count_singleton]
      rw [hown] at hc
      by_cases hcl : op = .close
      · simp only [hcl, if_true, List.count_nil, List.count_append] at ih' ⊢
        simp only [hcl, isReq] at hc
        simp at hc ⊢
        omega
      · simp only [hcl, if_false] at ih'
        omega


theorem spec_of_rel : ∀ (ops : List Op) (s : St) (a : Acc) (seen : List Nat), Rel s a seen →
    opsOk s seen ops = true → specGo a (comp.trace () s ops) = .ok := by
  intro ops
  induction ops with
  | nil => intros; rfl
  | cons op ops ih =>
    intro s a seen hrel hok
    simp only [opsOk, Bool.and_eq_true] at hok
    obtain ⟨hen, hrest⟩ := hok
    obtain ⟨hv, hrel'⟩ := step_ok s a seen op hrel hen
    simp only [TComp.trace, comp, step, specGo]
    exact and_ok hv (ih _ _ _ hrel' hrest)


theorem issued_cons (id : Nat) (s : St) (op : Op) (ops : List Op) :
    issued id (comp.trace () s (op :: ops)) =
      issued id (comp.trace () (stepOut s op).1 ops) + (if isReq op = some id then 1 else 0) := by
  simp only [TComp.trace, comp, step, issued, List.countP_cons]
  simp

theorem issued_le (id : Nat) : ∀ (ops : List Op) (s : St) (seen : List Nat),
    opsOk s seen ops = true →
    issued id (comp.trace () s ops) ≤ (if id ∈ seen then 0 else 1) := by
  intro ops
  induction ops with
  | nil => intros; simp [TComp.trace, issued]
  | cons op ops ih =>
    intro s seen hok
    simp only [opsOk, Bool.and_eq_true] at hok
    obtain ⟨hen, hrest⟩ := hok
    have ih' := ih _ _ hrest
    rw [issued_cons]
    cases hr : isReq op with
    | none => simpa [hr] using ih'
    | some i =>
      have hfresh : i ∉ seen := by
        cases op <;> simp [isReq] at hr
        subst hr; simpa [enabled] using hen
      simp only [hr] at ih'
      by_cases e : i = id
      · subst e; simp [hfresh] at ih' ⊢; exact ih'
      · have : id ∈ i :: seen ↔ id ∈ seen := by simp [Ne.symm e]
        simp only [this] at ih'
        simpa [e] using ih'


end Scales.Serial
