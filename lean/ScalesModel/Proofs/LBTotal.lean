import ScalesModel.Proofs.LBGate

/-!
  C06 "load-tracking": the aperture's `_total` is the number of requests dispatched and not yet
  completed.  `_total` moves only in `_AdjustAperture` (+1 from `_OnGet`, −1 from `_OnPut`), the
  dispatch table only in a dispatch (one entry appended) and in the first completion of a dispatch.
-/
namespace Scales.LB
open Scales.Heap Scales.Aperture Scales.LBBase

/-- neither `_total` nor the dispatch table moved -/
def Quiet (a a' : AS) : Prop := a'.total = a.total ∧ a'.hs.reqs = a.hs.reqs

theorem Quiet.refl (a : AS) : Quiet a a := ⟨rfl, rfl⟩
theorem Quiet.trans {a b c : AS} (h1 : Quiet a b) (h2 : Quiet b c) : Quiet a c :=
  ⟨h2.1.trans h1.1, h2.2.trans h1.2⟩

theorem choose_total (a : AS) : (a.choose).1.total = a.total := by
  unfold AS.choose
  split
  · rfl
  · split
    · rfl
    · split <;> rfl

theorem tryExpand_quiet (cfg : Cfg) (a : AS) (lp : Bool) : Quiet a (a.tryExpand cfg lp).1 := by
  refine ⟨?_, tryExpand_reqs cfg a lp⟩
  have hc := choose_total a
  unfold AS.tryExpand
  split
  · rename_i a0 he; rw [he] at hc; simpa [AS.updVarz] using hc
  · rename_i a0 c he; rw [he] at hc; simp only at hc
    simp only
    split <;> simpa [AS.heapAdd, AS.updVarz] using hc

theorem contract_quiet (cfg : Cfg) (a : AS) (f : Bool) : Quiet a (a.contract cfg f) := by
  refine ⟨?_, contract_reqs cfg a f⟩
  unfold AS.contract
  split
  · rfl
  · split
    · split <;> rfl
    · rfl

theorem onNodeDown_quiet (cfg : Cfg) (a : AS) (nid : Nat) : Quiet a (a.onNodeDown cfg nid).1 := by
  unfold AS.onNodeDown
  split
  · exact tryExpand_quiet cfg a false
  · exact Quiet.refl a

theorem adjust_total (cfg : Cfg) (a : AS) (amount : Int) :
    (a.adjust cfg amount).total = a.total + amount ∧ (a.adjust cfg amount).hs.reqs = a.hs.reqs := by
  refine ⟨?_, adjust_reqs cfg a amount⟩
  have key : ∀ i rest m, (a.adjustWith cfg amount i rest m).total = a.total + amount := by
    intro i rest m
    unfold AS.adjustWith
    simp only
    split
    · rw [(tryExpand_quiet cfg _ false).1]
    · rw [(contract_quiet cfg _ false).1]
    · rfl
  unfold AS.adjust
  split <;> exact key _ _ _

theorem getLoop_quiet (cfg : Cfg) (fuel : Nat) : ∀ (a : AS), Quiet a (a.getLoop cfg fuel).1 := by
  intro a
  refine ⟨?_, getLoop_reqs cfg fuel a⟩
  induction fuel generalizing a with
  | zero => rfl
  | succ n ih =>
    unfold AS.getLoop
    simp only
    split
    · rfl
    · rw [ih, (onNodeDown_quiet cfg _ _).1]

/-- the bit of a dispatch-table entry the spec rebuilds: has the dispatch completed? -/
def flagsOf (s : HS) : List Bool := s.reqs.map (·.2)

/-- a dispatch appends one open entry and, for the aperture, counts one more outstanding request;
    a no-members answer changes nothing -/
theorem get_total (cfg : Cfg) (a : AS) :
    (match (a.get cfg).2 with
     | .noMembers => Quiet a (a.get cfg).1
     | .node _ _ _ => flagsOf (a.get cfg).1.hs = flagsOf a.hs ++ [false] ∧
         (a.get cfg).1.total = a.total + (if cfg.aperture then 1 else 0)) := by
  unfold AS.get
  by_cases h0 : a.hs.size = 0
  · simp only [h0, if_true]; exact Quiet.refl a
  · simp only [h0, if_false]
    have hq := getLoop_quiet cfg (a.hs.nodes.length + a.idle.length + 1) a
    have h2 : ∀ (x : HS) (nid : Nat) (n : Node) (i j : Nat), ((x.setNode nid n).fixDown i j).reqs = x.reqs := by
      intro x nid n i j; rw [fixDown_reqs, setNode_reqs]
    by_cases hap : cfg.aperture = true
    · simp only [hap, if_true]
      obtain ⟨t1, t2⟩ := adjust_total cfg _ 1
      constructor
      · unfold flagsOf; rw [t2]; simp only [h2, hq.2, List.map_append, List.map_cons, List.map_nil]
      · rw [t1]; show (a.getLoop cfg _).1.total + 1 = _; rw [hq.1]
    · have hap' : cfg.aperture = false := by simpa using hap
      simp only [hap', Bool.false_eq_true, if_false, Int.add_zero]
      constructor
      · unfold flagsOf; simp only [h2, hq.2, List.map_append, List.map_cons, List.map_nil]
      · exact hq.1

theorem putNode_reqs (s : HS) (nid j : Nat) : (s.putNode nid j).reqs = s.reqs := by
  unfold HS.putNode
  simp only
  generalize (if (s.node nid).load - 1 < Idle then Idle else (s.node nid).load - 1) = l2
  split_ifs <;> simp [fixUp_reqs, fixDown_reqs]

/-- the first completion of a dispatch closes its entry and, for the aperture, counts one
    outstanding request less; anything else changes neither -/
theorem put_total (cfg : Cfg) (a : AS) (r j : Nat) :
    (match a.hs.reqs[r]? with
     | some (_, false) => flagsOf (a.put cfg r j).hs = (flagsOf a.hs).set r true ∧
         (a.put cfg r j).total = a.total - (if cfg.aperture then 1 else 0)
     | _ => Quiet a (a.put cfg r j)) := by
  unfold AS.put
  cases hr : a.hs.reqs[r]? with
  | none => exact ⟨rfl, rfl⟩
  | some p =>
    obtain ⟨nid, b⟩ := p
    cases b with
    | true => exact Quiet.refl a
    | false =>
      simp only
      have hput : flagsOf (a.hs.put r (putDraw a.hs nid j)) = (flagsOf a.hs).set r true := by
        unfold HS.put flagsOf
        rw [hr]
        simp only [putNode_reqs, List.map_set]
      by_cases hap : cfg.aperture = true
      · simp only [hap, if_true]
        obtain ⟨t1, t2⟩ := adjust_total cfg
          { (if putLegal a.hs nid j = true then a else { a with bad := true }) with
            hs := a.hs.put r (putDraw a.hs nid j) } (-1)
        constructor
        · unfold flagsOf at hput ⊢; rw [t2]; exact hput
        · rw [t1]; show (if putLegal a.hs nid j = true then a else { a with bad := true }).total + -1 = _
          split <;> rfl
      · have hap' : cfg.aperture = false := by simpa using hap
        simp only [hap', Bool.false_eq_true, if_false, Int.sub_zero]
        refine ⟨hput, ?_⟩
        show (if putLegal a.hs nid j = true then a else { a with bad := true }).total = _
        split <;> rfl

theorem setChan_quiet (a : AS) (nid st : Nat) : Quiet a (a.setChan nid st) := by
  unfold AS.setChan
  split
  · refine ⟨rfl, ?_⟩
    show (a.hs.setChan nid st).reqs = _
    unfold HS.setChan; split <;> rfl
  · exact ⟨rfl, rfl⟩

theorem opened_quiet (cfg : Cfg) (a : AS) (nid : Nat) (ok : Bool) : Quiet a (a.opened cfg nid ok) := by
  unfold AS.opened
  split
  · exact ⟨rfl, rfl⟩
  · split
    · exact ⟨rfl, rfl⟩
    · exact onNodeDown_quiet cfg a nid

theorem jitterEnd_quiet (cfg : Cfg) (a : AS) (nid : Nat) : Quiet a (a.jitterEnd cfg nid) := by
  unfold AS.jitterEnd
  exact contract_quiet cfg a true

theorem jitterStart_quiet (cfg : Cfg) (a : AS) : Quiet a (a.jitterStart cfg) := by
  unfold AS.jitterStart
  split
  · exact ⟨rfl, rfl⟩
  · have h1 := tryExpand_quiet cfg a true
    simp only
    split
    · exact h1
    · split
      · exact h1.trans (jitterEnd_quiet cfg _ _)
      · exact h1

theorem fire_quiet (a : AS) (nid : Nat) : Quiet a (a.fire nid) := by
  unfold AS.fire; simp only; split <;> exact ⟨rfl, rfl⟩

theorem foldl_fire_quiet (ids : List Nat) : ∀ (a : AS), Quiet a (ids.foldl AS.fire a) := by
  induction ids with
  | nil => intro a; exact Quiet.refl a
  | cons x xs ih => intro a; exact (fire_quiet a x).trans (ih _)

theorem settleRound_quiet (cfg : Cfg) (a : AS) : Quiet a (a.settleRound cfg).1 := by
  unfold AS.settleRound
  simp only
  set ids := (List.range a.on.length).filter (fun i => !(a.onOf i).done && a.arReady i) with hids
  set a1 := ids.foldl AS.fire a with ha1
  have h1 : Quiet a a1 := foldl_fire_quiet ids a
  have h2 : Quiet a1 (if (!a1.openAr && ids.any (fun i => a1.initialNodes.contains i)) = true
      then { a1 with openAr := true } else a1) := by
    split <;> exact ⟨rfl, rfl⟩
  have h3 : ∀ b : AS, Quiet b (match b.jitterWait with
      | some nid => if ids.contains nid then b.jitterEnd cfg nid else b
      | none => b) := by
    intro b
    cases b.jitterWait with
    | none => exact Quiet.refl b
    | some nid =>
      simp only
      split
      · exact jitterEnd_quiet cfg b nid
      · exact Quiet.refl b
  exact h1.trans (h2.trans (h3 _))

theorem settleN_quiet (cfg : Cfg) (fuel : Nat) : ∀ (a : AS), Quiet a (a.settleN cfg fuel) := by
  induction fuel with
  | zero => intro a; exact Quiet.refl a
  | succ n ih =>
    intro a
    unfold AS.settleN
    simp only
    split
    · exact (settleRound_quiet cfg a).trans (ih _)
    · exact settleRound_quiet cfg a

theorem settle_quiet (cfg : Cfg) (a : AS) : Quiet a (a.settle cfg) := settleN_quiet cfg _ a

theorem openInitial_quiet (cfg : Cfg) (a : AS) : Quiet a (a.openInitial cfg) := ⟨rfl, rfl⟩

theorem addSink_quiet (cfg : Cfg) (a : AS) (ep : Nat) : Quiet a (a.addSink cfg ep) := by
  unfold AS.addSink
  split
  · split
    · exact ⟨rfl, addSink_reqs _ _⟩
    · exact ⟨rfl, rfl⟩
  · exact ⟨rfl, addSink_reqs _ _⟩

theorem removeSink_quiet (cfg : Cfg) (a : AS) (ep : Nat) : Quiet a (a.removeSink cfg ep) := by
  unfold AS.removeSink
  split
  · simp only
    have h1 : Quiet a { a with hs := (a.hs.removeSink ep).1 } := ⟨rfl, removeSink_reqs _ _⟩
    split
    · exact h1.trans (tryExpand_quiet cfg _ false)
    · exact h1
  · exact ⟨rfl, removeSink_reqs _ _⟩

theorem applyNotif_quiet (cfg : Cfg) (a : AS) (n : Notif) : Quiet a (applyNotif (sub cfg) a n) := by
  cases n with
  | join ep =>
    unfold applyNotif addServer
    simp only [sub_servers, sub_onAdd, sub_setServers]
    by_cases hm : ep ∈ a.hs.servers
    · simp only [hm, if_true]; exact Quiet.refl a
    · simp only [hm, if_false]
      exact Quiet.trans (b := withServers a (a.hs.servers ++ [ep])) ⟨rfl, rfl⟩ (addSink_quiet cfg _ ep)
  | leave ep =>
    unfold applyNotif removeServer
    simp only [sub_servers, sub_onRemove, sub_setServers]
    exact Quiet.trans (b := withServers a (a.hs.servers.filter (· ≠ ep))) ⟨rfl, rfl⟩ (removeSink_quiet cfg _ ep)

theorem foldl_applyNotif_quiet (cfg : Cfg) (ns : List Notif) : ∀ (a : AS),
    Quiet a (ns.foldl (applyNotif (sub cfg)) a) := by
  induction ns with
  | nil => intro a; exact Quiet.refl a
  | cons n ns ih => intro a; exact (applyNotif_quiet cfg a n).trans (ih _)

theorem foldl_addServer_quiet (cfg : Cfg) (l : List Nat) : ∀ (a : AS),
    Quiet a (l.foldl (addServer (sub cfg)) a) := by
  induction l with
  | nil => intro a; exact Quiet.refl a
  | cons n ns ih => intro a; exact (applyNotif_quiet cfg a (.join n)).trans (ih _)

theorem load_quiet (cfg : Cfg) (lb : St) (l : List Nat) : Quiet lb.sub (lb.load (sub cfg) l).sub := by
  unfold LB.load loadInitial
  simp only [sub_setServers, sub_openInitial]
  exact Quiet.trans (b := withServers lb.sub []) ⟨rfl, rfl⟩
    ((foldl_addServer_quiet cfg l _).trans ((openInitial_quiet cfg _).trans (foldl_applyNotif_quiet cfg _ _)))

theorem notify_quiet (cfg : Cfg) (lb : St) (n : Notif) : Quiet lb.sub (lb.notify (sub cfg) n).sub := by
  unfold LB.notify
  split
  · exact applyNotif_quiet cfg _ n
  · exact Quiet.refl _


/-! ### one operation -/

/-- `_total` is the number of open dispatches (aperture), or stays 0 (plain heap balancer) -/
def TInv (cfg : Cfg) (a : AS) : Prop := a.total = expectedTotal cfg (flagsOf a.hs)

theorem TInv.quiet {cfg : Cfg} {a a' : AS} (h : TInv cfg a) (q : Quiet a a') : TInv cfg a' := by
  unfold TInv flagsOf at *; rw [q.1, q.2]; exact h

theorem nodeFlags_append (a b : List ResV) : nodeFlags (a ++ b) = nodeFlags a ++ nodeFlags b := by
  unfold nodeFlags; exact List.filterMap_append

theorem expected_append_false (cfg : Cfg) (fl : List Bool) :
    expectedTotal cfg (fl ++ [false]) = expectedTotal cfg fl + (if cfg.aperture then 1 else 0) := by
  unfold expectedTotal
  split <;> simp

/-- one request through `_AsyncProcessRequestImpl` -/
theorem get_step (cfg : Cfg) (a : AS) :
    flagsOf (a.get cfg).1.hs = flagsOf a.hs ++ nodeFlags [ResV.ofGet (a.get cfg).2] ∧
    (TInv cfg a → TInv cfg (a.get cfg).1) := by
  have h := get_total cfg a
  cases hr : (a.get cfg).2 with
  | noMembers =>
    rw [hr] at h
    refine ⟨?_, fun t => t.quiet h⟩
    unfold flagsOf; rw [h.2]; simp [nodeFlags, ResV.ofGet]
  | node nid ep r =>
    rw [hr] at h
    refine ⟨by rw [h.1]; simp [nodeFlags, ResV.ofGet], ?_⟩
    intro t
    unfold TInv at *
    rw [h.2, h.1, expected_append_false, t]

theorem flush_step (cfg : Cfg) (q : List (Option Bool)) : ∀ (a : AS),
    flagsOf (flush (sub cfg) q a).1.hs = flagsOf a.hs ++ nodeFlags ((flush (sub cfg) q a).2.map ResV.ofFlush) ∧
    (TInv cfg a → TInv cfg (flush (sub cfg) q a).1) := by
  induction q with
  | nil => intro a; exact ⟨by simp [flush, nodeFlags], fun t => t⟩
  | cons e q ih =>
    intro a
    unfold flush
    by_cases hl : live e = true
    · simp only [hl, if_true, sub_request, List.map_cons]
      obtain ⟨g1, g2⟩ := get_step cfg a
      obtain ⟨i1, i2⟩ := ih (a.get cfg).1
      refine ⟨?_, fun t => i2 (g2 t)⟩
      rw [i1, g1, List.append_assoc, ← nodeFlags_append]
      rfl
    · have hl' : live e = false := by simpa using hl
      simp only [hl', Bool.false_eq_true, if_false, List.map_cons]
      obtain ⟨i1, i2⟩ := ih a
      refine ⟨?_, i2⟩
      rw [i1]
      congr 1

theorem finish_step (cfg : Cfg) (lb : St) :
    flagsOf (lb.finish (sub cfg)).1.sub.hs =
      flagsOf lb.sub.hs ++ nodeFlags ((lb.finish (sub cfg)).2.map ResV.ofFlush) ∧
    (TInv cfg lb.sub → TInv cfg (lb.finish (sub cfg)).1.sub) := by
  unfold LB.finish
  by_cases h0 : (sub cfg).openReady lb.sub = true ∧ lb.queued ≠ []
  · simp only [if_pos h0]
    simp only [sub_settle]
    obtain ⟨f1, f2⟩ := flush_step cfg lb.queued lb.sub
    have q := settle_quiet cfg (flush (sub cfg) lb.queued lb.sub).1
    refine ⟨?_, fun t => (f2 t).quiet q⟩
    unfold flagsOf at f1 ⊢; rw [q.2]; exact f1
  · simp only [if_neg h0]
    have q1 := settle_quiet cfg lb.sub
    by_cases hc : (sub cfg).openReady ((sub cfg).settle lb.sub) = true ∧ lb.queued ≠ []
    · simp only [if_pos hc]
      simp only [sub_settle]
      obtain ⟨f1, f2⟩ := flush_step cfg lb.queued (lb.sub.settle cfg)
      have q := settle_quiet cfg (flush (sub cfg) lb.queued (lb.sub.settle cfg)).1
      refine ⟨?_, fun t => ((f2 (t.quiet q1))).quiet q⟩
      unfold flagsOf at f1 ⊢; rw [q.2, f1, q1.2]
    · simp only [if_neg hc]
      simp only [sub_settle]
      refine ⟨?_, fun t => t.quiet q1⟩
      unfold flagsOf; rw [q1.2]; simp [nodeFlags]

theorem set_true_of_not_false (fl : List Bool) (r : Nat) (h : fl[r]? ≠ some false) : fl.set r true = fl := by
  apply List.ext_getElem?
  intro i
  rw [List.getElem?_set]
  by_cases hi : r = i
  · subst hi
    by_cases hl : r < fl.length
    · simp only [hl, if_true]
      rw [List.getElem?_eq_getElem hl] at h ⊢
      cases hb : fl[r] with
      | true => rfl
      | false => rw [hb] at h; exact absurd rfl h
    · simp [hl]
  · simp [hi]

theorem feed_quiet (lb : St) (e : Env) : Quiet lb.sub (feed lb e).sub := ⟨rfl, rfl⟩

/-- the operation proper -/
theorem act_step (cfg : Cfg) (lb : St) (op : Op) :
    flagsOf (act cfg lb op).1.sub.hs =
      flagsPut (flagsOf lb.sub.hs) op ++ nodeFlags (act cfg lb op).2 ∧
    (TInv cfg lb.sub → TInv cfg (act cfg lb op).1.sub) := by
  have quiet : ∀ (lb' : St) (res : List ResV), Quiet lb.sub lb'.sub → nodeFlags res = [] →
      flagsOf lb'.sub.hs = flagsOf lb.sub.hs ++ nodeFlags res ∧ (TInv cfg lb.sub → TInv cfg lb'.sub) := by
    intro lb' res q hn
    refine ⟨?_, fun t => t.quiet q⟩
    unfold flagsOf; rw [q.2, hn, List.append_nil]
  have req : ∀ (e : Env) (evt : Option Bool),
      flagsOf ((feed lb e).request (sub cfg) evt).1.sub.hs = flagsOf lb.sub.hs ++
        nodeFlags (match ((feed lb e).request (sub cfg) evt).2 with | some g => [ResV.ofGet g] | none => [.queued]) ∧
      (TInv cfg lb.sub → TInv cfg ((feed lb e).request (sub cfg) evt).1.sub) := by
    intro e evt
    unfold LB.request
    by_cases hr : (sub cfg).openReady (feed lb e).sub = true
    · simp only [if_pos hr, sub_request]
      obtain ⟨g1, g2⟩ := get_step cfg (feed lb e).sub
      exact ⟨g1, fun t => g2 (t.quiet (feed_quiet lb e))⟩
    · simp only [if_neg hr]
      exact ⟨by simp [nodeFlags, flagsOf, feed], fun t => t.quiet (feed_quiet lb e)⟩
  cases op with
  | opn => exact quiet _ _ (Quiet.refl _) rfl
  | loaded l e => exact quiet _ _ ((feed_quiet lb e).trans (load_quiet cfg _ l)) rfl
  | join ep e => exact quiet _ _ ((feed_quiet lb e).trans (notify_quiet cfg _ _)) rfl
  | leave ep e => exact quiet _ _ ((feed_quiet lb e).trans (notify_quiet cfg _ _)) rfl
  | get e => exact req e none
  | getd e => exact req e (some false)
  | expire k =>
    simp only [act]
    cases hx : (feed lb ⟨[], []⟩).expire k with
    | none => exact quiet _ _ ⟨rfl, rfl⟩ rfl
    | some lb2 =>
      unfold LB.expire at hx
      split at hx
      · injection hx with hx; subst hx
        exact quiet _ _ ⟨rfl, rfl⟩ rfl
      · cases hx
  | chan nid s => exact quiet _ _ ((feed_quiet lb _).trans (setChan_quiet _ nid s)) rfl
  | opened nid ok e => exact quiet _ _ ((feed_quiet lb e).trans (opened_quiet cfg _ nid ok)) rfl
  | jitter e => exact quiet _ _ ((feed_quiet lb e).trans (jitterStart_quiet cfg _)) rfl
  | put r j e =>
    simp only [act, nodeFlags, List.filterMap_nil, List.append_nil, flagsPut]
    have hp := put_total cfg (feed lb e).sub r j
    have hfl : flagsOf (feed lb e).sub.hs = flagsOf lb.sub.hs := rfl
    have hget : (flagsOf lb.sub.hs)[r]? = ((feed lb e).sub.hs.reqs[r]?).map (·.2) := by
      unfold flagsOf; simp [feed]
    cases hr : (feed lb e).sub.hs.reqs[r]? with
    | none =>
      rw [hr] at hp hget; simp only at hp
      refine ⟨?_, fun t => (t.quiet (feed_quiet lb e)).quiet hp⟩
      rw [set_true_of_not_false _ _ (by rw [hget]; simp)]
      unfold flagsOf; rw [hp.2]; rfl
    | some p =>
      obtain ⟨nid, b⟩ := p
      cases b with
      | true =>
        rw [hr] at hp hget; simp only at hp
        refine ⟨?_, fun t => (t.quiet (feed_quiet lb e)).quiet hp⟩
        rw [set_true_of_not_false _ _ (by rw [hget]; simp)]
        unfold flagsOf; rw [hp.2]; rfl
      | false =>
        rw [hr] at hp hget; simp only at hp
        refine ⟨by rw [hp.1, hfl], ?_⟩
        intro t
        unfold TInv at *
        rw [hp.2, hp.1, hfl]
        have t' : lb.sub.total = expectedTotal cfg (flagsOf lb.sub.hs) := t
        show lb.sub.total - _ = _
        rw [t']
        unfold expectedTotal
        by_cases hap : cfg.aperture = true
        · simp only [hap, if_true]
          have hlt : r < (flagsOf lb.sub.hs).length := by
            by_contra hc
            rw [List.getElem?_eq_none (by omega)] at hget; simp at hget
          have hrf : (flagsOf lb.sub.hs)[r] = false := by
            rw [List.getElem?_eq_getElem hlt] at hget; simpa using hget
          rw [List.count_set hlt, hrf]
          have hpos : 0 < (flagsOf lb.sub.hs).count false :=
            List.count_pos_iff.2 (hrf ▸ List.getElem_mem hlt)
          simp
          omega
        · have hap' : cfg.aperture = false := by simpa using hap
          simp [hap']

theorem nodeFlags_filter_ne (l : List ResV) : nodeFlags (l.filter (· ≠ .queued)) = nodeFlags l := by
  induction l with
  | nil => rfl
  | cons x xs ih =>
    cases x with
    | queued => simp [nodeFlags] at ih ⊢; exact ih
    | dropped => simp [nodeFlags] at ih ⊢; exact ih
    | noMembers => simp [nodeFlags] at ih ⊢; exact ih
    | node a b c => simp [nodeFlags] at ih ⊢; exact ih

theorem nodeFlags_filter_eq (l : List ResV) : nodeFlags (l.filter (· = .queued)) = [] := by
  induction l with
  | nil => rfl
  | cons x xs ih =>
    cases x with
    | queued => simp [nodeFlags] at ih ⊢; exact ih
    | dropped => simp [nodeFlags] at ih ⊢; exact ih
    | noMembers => simp [nodeFlags] at ih ⊢; exact ih
    | node a b c => simp [nodeFlags] at ih ⊢; exact ih

theorem tapesRead_quiet (lb : St) : Quiet lb.sub (tapesRead lb).sub := by
  unfold tapesRead; split <;> exact ⟨rfl, rfl⟩

/-- one operation of the balancer: the completion flags the spec rebuilds from the history are the
    flags of the dispatch table, and `_total` stays the number of open dispatches -/
theorem total_step (cfg : Cfg) (lb : St) (op : Op) :
    flagsOf (stepSt cfg lb op).1.sub.hs =
      flagsAfter (flagsOf lb.sub.hs) op (obsOf (stepSt cfg lb op).1 (stepSt cfg lb op).2) ∧
    (TInv cfg lb.sub → TInv cfg (stepSt cfg lb op).1.sub) := by
  obtain ⟨a1, a2⟩ := act_step cfg lb op
  obtain ⟨f1, f2⟩ := finish_step cfg (act cfg lb op).1
  have q := tapesRead_quiet ((act cfg lb op).1.finish (sub cfg)).1
  unfold stepSt
  simp only
  refine ⟨?_, fun t => (f2 (a2 t)).quiet q⟩
  unfold flagsAfter
  have hres : (obsOf (tapesRead ((act cfg lb op).1.finish (sub cfg)).1)
      ((act cfg lb op).2.filter (· ≠ .queued) ++ ((act cfg lb op).1.finish (sub cfg)).2.map ResV.ofFlush ++
        (act cfg lb op).2.filter (· = .queued))).res =
      (act cfg lb op).2.filter (· ≠ .queued) ++ ((act cfg lb op).1.finish (sub cfg)).2.map ResV.ofFlush ++
        (act cfg lb op).2.filter (· = .queued) := rfl
  rw [hres, nodeFlags_append, nodeFlags_append, nodeFlags_filter_ne, nodeFlags_filter_eq, List.append_nil,
    ← List.append_assoc, ← a1, ← f1]
  unfold flagsOf; rw [q.2]

end Scales.LB
