import ScalesModel.Proofs.HeapSim

/-! The simulation is preserved by every step (`A0.after` against `step`). -/
namespace Scales.Heap

/-! ### the branches of `A0.after`, named -/

def joinA (a : A0) (ep : Nat) : A0 :=
  if a.members.any (·.2 == ep) then a
  else { a with members := a.members ++ [(a.nextId, ep)], nextId := a.nextId + 1,
                out := a.out ++ [0], chan := a.chan ++ [1], wantClosed := a.wantClosed ++ [0] }

def leaveA (a : A0) (ep : Nat) : A0 :=
  match a.members.find? (·.2 == ep) with
  | none => a
  | some (id, _) =>
    let down := match a.prev with
      | some p => penalisedIn p id
      | none => false
    let now := a.outOf id == 0 || down
    { a with members := a.members.filter (·.2 != ep),
             wantClosed := if now then bump a.wantClosed id (· + 1) else a.wantClosed }

def getA (a : A0) (res : Option GetRes) : A0 :=
  match res with
  | some (.node id _ _) => { a with out := bump a.out id (· + 1), reqs := a.reqs ++ [(id, false)] }
  | _ => a

def putA (a : A0) (r : Nat) : A0 :=
  match a.reqs[r]? with
  | some (id, false) =>
    let out' := bump a.out id (· - 1)
    let drained := !a.isMember id && out'.getD id 0 == 0 && a.wantClosed.getD id 0 == 0
    { a with out := out', reqs := a.reqs.set r (id, true),
             wantClosed := if drained then bump a.wantClosed id (· + 1) else a.wantClosed }
  | _ => a

def chanA (a : A0) (nid st : Nat) : A0 := { a with chan := a.chan.set nid st }

theorem after_join (a : A0) (ep : Nat) (o : Obs) : a.after (.join ep) o = { joinA a ep with prev := some o } := rfl
theorem after_leave (a : A0) (ep : Nat) (o : Obs) : a.after (.leave ep) o = { leaveA a ep with prev := some o } := rfl
theorem after_get (a : A0) (o : Obs) : a.after .get o = { getA a o.res with prev := some o } := rfl
theorem after_put (a : A0) (r j : Nat) (o : Obs) : a.after (.put r j) o = { putA a r with prev := some o } := rfl
theorem after_chan (a : A0) (nid st : Nat) (o : Obs) :
    a.after (.chan nid st) o = { chanA a nid st with prev := some o } := rfl

/-! ### join -/

theorem any_ep_iff {a : A0} {s : HS} (h : Inv s) (hs : Sim0 a s) (ep : Nat) :
    a.members.any (·.2 == ep) = true ↔ ep ∈ s.servers := by
  rw [List.any_eq_true, h.srv ep]
  constructor
  · rintro ⟨⟨i, e⟩, hm, he⟩
    have : e = ep := by simpa using he
    subst this
    exact ⟨i, (hs.mem i e).mp hm⟩
  · rintro ⟨id, hi, he⟩
    exact ⟨(id, ep), (hs.mem id ep).mpr ⟨hi, he⟩, by simp⟩

theorem sim_join (a : A0) (s : HS) (ep : Nat) (h : Inv s) (hs : Sim0 a s) : Sim0 (joinA a ep) (s.join ep) := by
  unfold joinA
  by_cases hin : ep ∈ s.servers
  · rw [if_pos ((any_ep_iff h hs ep).mpr hin), join_old s ep hin]
    exact hs
  · have : ¬ a.members.any (·.2 == ep) = true := fun x => hin ((any_ep_iff h hs ep).mp x)
    rw [if_neg this]
    obtain ⟨f1, f2, f3, f4⟩ := join_facts s h ep hin
    have hout : ∀ id, outOf (s.join ep) id = outOf s id := by intro id; unfold outOf; rw [f2]
    constructor
    · show a.nextId + 1 = _; rw [f1, hs.nextId]
    · show (a.out ++ [0]).length = _; rw [f1, List.length_append, hs.outLen]; rfl
    · show (a.chan ++ [1]).length = _; rw [f1, List.length_append, hs.chanLen]; rfl
    · show (a.wantClosed ++ [0]).length = _; rw [f1, List.length_append, hs.wcLen]; rfl
    · intro id e
      show (id, e) ∈ a.members ++ [(a.nextId, ep)] ↔ _
      rw [List.mem_append, hs.mem, f3, (f4 id).2.1, hs.nextId]
      simp only [List.mem_singleton, Prod.mk.injEq]
      constructor
      · rintro (⟨x1, x2⟩ | ⟨x1, x2⟩)
        · have := inHeap_lt s h.wf id x1
          have e' : ¬ id = s.nodes.length := by omega
          rw [if_neg e']; exact ⟨Or.inl x1, x2⟩
        · rw [if_pos x1]; exact ⟨Or.inr x1, x2.symm⟩
      · rintro ⟨x1 | x1, x2⟩
        · have := inHeap_lt s h.wf id x1
          have e' : ¬ id = s.nodes.length := by omega
          rw [if_neg e'] at x2; exact Or.inl ⟨x1, x2⟩
        · rw [if_pos x1] at x2; exact Or.inr ⟨x1, x2.symm⟩
    · intro id hl
      show (a.out ++ [0]).getD id 0 = _
      rw [f1] at hl
      rw [getD_append_one, hs.outLen, hout]
      by_cases e' : id < s.nodes.length
      · rw [if_pos e']; exact hs.out id e'
      · have e2 : id = s.nodes.length := by omega
        rw [if_neg e', if_pos e2]
        symm
        apply outL_zero
        intro r hr; have := h.book.reqsOk r hr; omega
    · intro id hl
      show (a.chan ++ [1]).getD id 4 = _
      rw [f1] at hl
      rw [getD_append_one, hs.chanLen, (f4 id).2.2.1]
      by_cases e' : id < s.nodes.length
      · have e2 : ¬ id = s.nodes.length := by omega
        rw [if_pos e', if_neg e2]; exact hs.chan id e'
      · have e2 : id = s.nodes.length := by omega
        rw [if_neg e', if_pos e2, if_pos e2]
    · show a.reqs = _; rw [f2]; exact hs.reqs
    · intro id hl
      show (a.wantClosed ++ [0]).getD id 0 = _
      rw [f1] at hl
      rw [getD_append_one, hs.wcLen, (f4 id).2.2.2]
      by_cases e' : id < s.nodes.length
      · have e2 : ¬ id = s.nodes.length := by omega
        rw [if_pos e', if_neg e2]; exact hs.wc id e'
      · have e2 : id = s.nodes.length := by omega
        rw [if_neg e', if_pos e2, if_pos e2]

/-! ### leave -/

theorem Sim0.sameStore {a : A0} {s t : HS} (hs : Sim0 a s) (e : SameStore s t) (hr : t.reqs = s.reqs) : Sim0 a t := by
  have ho : ∀ id, outOf t id = outOf s id := by intro id; unfold outOf; rw [hr]
  refine ⟨by rw [e.len]; exact hs.nextId, by rw [e.len]; exact hs.outLen, by rw [e.len]; exact hs.chanLen,
    by rw [e.len]; exact hs.wcLen, ?_, ?_, ?_, by rw [hr]; exact hs.reqs, ?_⟩
  · intro id ep; rw [e.inHeap, e.node]; exact hs.mem id ep
  · intro id hl; rw [ho]; exact hs.out id (by rw [← e.len]; exact hl)
  · intro id hl; rw [e.node]; exact hs.chan id (by rw [← e.len]; exact hl)
  · intro id hl; rw [e.node]; exact hs.wc id (by rw [← e.len]; exact hl)

theorem sim_leave (a : A0) (s : HS) (ep : Nat) (h : Inv s) (hs : Sim0 a s) (hp : PrevOk a s) :
    Sim0 (leaveA a ep) (s.leave ep) := by
  unfold leaveA
  cases hf : s.findByEp ep with
  | none =>
    have hno : ∀ id, InHeap s id → ¬ (s.node id).ep = ep := by
      intro id hi he
      unfold HS.findByEp at hf
      rw [List.find?_eq_none] at hf
      have := hf id ((mem_heap_iff s id).mpr hi)
      simp [he] at this
    have : a.members.find? (·.2 == ep) = none := by
      rw [List.find?_eq_none]
      rintro ⟨i, e⟩ hm he
      have : e = ep := by simpa using he
      subst this
      obtain ⟨x1, x2⟩ := (hs.mem i e).mp hm
      exact hno i x1 x2
    rw [this]
    obtain ⟨e, hr⟩ := leave_none s ep hf
    exact hs.sameStore e hr
  | some nid =>
    obtain ⟨hin, hep, f1, f2, f3, f4⟩ := leave_some s h ep nid hf
    have hl := inHeap_lt s h.wf nid hin
    have hmem : (nid, ep) ∈ a.members := (hs.mem nid ep).mpr ⟨hin, hep⟩
    have hfa : ∃ e, a.members.find? (·.2 == ep) = some (nid, e) := by
      cases hfm : a.members.find? (·.2 == ep) with
      | none =>
        rw [List.find?_eq_none] at hfm
        have := hfm _ hmem
        simp at this
      | some x =>
        obtain ⟨i, e⟩ := x
        have hm := List.mem_of_find?_eq_some hfm
        have he : e = ep := by simpa using List.find?_some hfm
        obtain ⟨x1, x2⟩ := (hs.mem i e).mp hm
        have : i = nid := h.book.epsInj i nid x1 hin (by rw [x2, he, hep])
        subst this
        exact ⟨e, rfl⟩
    obtain ⟨e0, hfa⟩ := hfa
    rw [hfa]
    dsimp only
    have hout : ∀ id, outOf (s.leave ep) id = outOf s id := by intro id; unfold outOf; rw [f2]
    -- the close decision agrees
    obtain ⟨p, hp1, hp2⟩ := hp nid hl
    have hnow : (a.outOf nid == 0 || (match a.prev with | some p => penalisedIn p nid | none => false)) =
        decide ((s.node nid).load = Idle ∨ (s.node nid).load ≥ 0) := by
      rw [hp1]
      dsimp only
      rw [hp2]
      unfold A0.outOf
      rw [hs.out nid hl]
      obtain ⟨a1, a2, a3, a4⟩ := h.book.pen_iff nid hl
      have := h.book.out_lt nid
      have hacc := h.book.acct nid hl
      rw [Bool.eq_iff_iff]
      simp only [Bool.or_eq_true, beq_iff_eq, decide_eq_true_eq]
      unfold Idle at *
      constructor
      · rintro (x | x)
        · rcases hacc with q | q <;> omega
        · exact Or.inr x
      · rintro (x | x)
        · left; rcases hacc with q | q <;> omega
        · exact Or.inr x
    rw [hnow]
    constructor
    · show a.nextId = _; rw [f1]; exact hs.nextId
    · show a.out.length = _; rw [f1]; exact hs.outLen
    · show a.chan.length = _; rw [f1]; exact hs.chanLen
    · show (if _ then _ else _ : List Nat).length = _
      rw [f1]
      split
      · rw [bump_length]; exact hs.wcLen
      · exact hs.wcLen
    · intro id e
      show (id, e) ∈ a.members.filter (·.2 != ep) ↔ _
      rw [List.mem_filter, hs.mem, f3, (f4 id).2.1]
      simp only [bne_iff_ne, ne_eq]
      constructor
      · rintro ⟨⟨x1, x2⟩, x3⟩
        refine ⟨⟨x1, ?_⟩, x2⟩
        intro e'; subst e'; exact x3 (x2.symm.trans hep)
      · rintro ⟨⟨x1, x2⟩, x3⟩
        refine ⟨⟨x1, x3⟩, ?_⟩
        intro e'
        exact x2 (h.book.epsInj id nid x1 hin (by rw [x3, e', hep]))
    · intro id hl'
      show a.out.getD id 0 = _
      rw [hout]; exact hs.out id (by rw [← f1]; exact hl')
    · intro id hl'
      show a.chan.getD id 4 = _
      rw [(f4 id).2.2.1]; exact hs.chan id (by rw [← f1]; exact hl')
    · show a.reqs = _; rw [f2]; exact hs.reqs
    · intro id hl'
      rw [f1] at hl'
      show (if _ then _ else _ : List Nat).getD id 0 = _
      rw [(f4 id).2.2.2]
      have hc0 : (s.node nid).closed = 0 := h.book.closedIn nid hin
      by_cases hc : (s.node nid).load = Idle ∨ (s.node nid).load ≥ 0
      · rw [if_pos (by simpa using hc), getD_bump, hs.wcLen]
        by_cases e' : id = nid
        · subst e'
          rw [if_pos ⟨rfl, hl⟩, if_pos rfl, if_pos hc, hs.wc id hl, hc0]
        · have : ¬ (id = nid ∧ nid < s.nodes.length) := fun x => e' x.1
          rw [if_neg this, if_neg e']; exact hs.wc id hl'
      · rw [if_neg (by simpa using hc)]
        by_cases e' : id = nid
        · subst e'
          rw [if_pos rfl, if_neg hc, hs.wc id hl, hc0]
        · rw [if_neg e']; exact hs.wc id hl'

/-! ### get -/

theorem sim_get (a : A0) (s : HS) (h : Inv s) (hs : Sim0 a s) :
    Sim0 (getA a (some (s.get noHook).2)) (s.get noHook).1 := by
  by_cases hsz : s.size = 0
  · rw [get_empty s hsz]; exact hs
  · obtain ⟨nid, hres, hin, f1, f2, f3, f4, _⟩ := get_facts s h hsz
    rw [hres]
    have hl := inHeap_lt s h.wf nid hin
    have hout : ∀ id, outOf (s.get noHook).1 id = outOf s id + (if nid = id then 1 else 0) := by
      intro id; unfold outOf; rw [f1]; exact outL_append s.reqs nid id
    unfold getA
    constructor
    · show a.nextId = _; rw [f2]; exact hs.nextId
    · show (bump a.out nid (· + 1)).length = _; rw [bump_length, f2]; exact hs.outLen
    · show a.chan.length = _; rw [f2]; exact hs.chanLen
    · show a.wantClosed.length = _; rw [f2]; exact hs.wcLen
    · intro id e
      show (id, e) ∈ a.members ↔ _
      rw [f3, (f4 id).1]; exact hs.mem id e
    · intro id hl'
      rw [f2] at hl'
      show (bump a.out nid (· + 1)).getD id 0 = _
      rw [getD_bump, hs.outLen, hout]
      by_cases e' : id = nid
      · subst e'
        rw [if_pos ⟨rfl, hl⟩, if_pos rfl, hs.out id hl]
      · have x1 : ¬ (id = nid ∧ nid < s.nodes.length) := fun x => e' x.1
        have x2 : ¬ nid = id := fun x => e' x.symm
        rw [if_neg x1, if_neg x2, hs.out id hl']; rfl
    · intro id hl'
      show a.chan.getD id 4 = _
      rw [(f4 id).2.1]; exact hs.chan id (by rw [← f2]; exact hl')
    · show a.reqs ++ [(nid, false)] = _; rw [f1, hs.reqs]
    · intro id hl'
      show a.wantClosed.getD id 0 = _
      rw [(f4 id).2.2]; exact hs.wc id (by rw [← f2]; exact hl')

/-! ### put -/

theorem sim_put (a : A0) (s : HS) (r j : Nat) (h : Inv s) (hs : Sim0 a s)
    (hj : ∀ nid, s.reqs[r]? = some (nid, false) → s.putDraws nid = true → 1 ≤ j ∧ j ≤ s.size) :
    Sim0 (putA a r) (s.put r j) := by
  unfold putA HS.put
  rw [hs.reqs]
  cases hreq : s.reqs[r]? with
  | none => exact hs
  | some x =>
    obtain ⟨nid, b⟩ := x
    cases b with
    | true => exact hs
    | false =>
      dsimp only
      obtain ⟨_, pe⟩ := putNode_spec s h r nid j hreq (hj nid hreq)
      generalize ({ s with reqs := s.reqs.set r (nid, true) } : HS).putNode nid j = s' at *
      have hmem : (nid, false) ∈ s.reqs := List.mem_of_getElem? hreq
      have hl : nid < s.nodes.length := h.book.reqsOk _ hmem
      have hout : ∀ id, outOf s' id + (if nid = id then 1 else 0) = outOf s id := by
        intro id; unfold outOf; rw [pe.reqs]; exact outL_set s.reqs r nid id hreq
      have hout1 : outOf s' nid + 1 = outOf s nid := by have := hout nid; simpa using this
      -- the drain decision agrees
      have hdr : (!a.isMember nid && (bump a.out nid (· - 1)).getD nid 0 == 0 && a.wantClosed.getD nid 0 == 0) =
          decide ((s.node nid).index < 0 ∧ (s.node nid).load - 1 = Idle) := by
        rw [getD_bump, hs.outLen, if_pos ⟨rfl, hl⟩, hs.out nid hl, hs.wc nid hl]
        obtain ⟨a1, a2, a3, a4⟩ := h.book.pen_iff nid hl
        have := h.book.out_lt nid
        have hacc := h.book.acct nid hl
        rw [Bool.eq_iff_iff]
        simp only [Bool.and_eq_true, Bool.not_eq_true', beq_iff_eq, decide_eq_true_eq]
        by_cases hi : InHeap s nid
        · have hm : a.isMember nid = true := (hs.isMember nid).mpr hi
          have := index_of_inHeap s h.wf nid hi
          rw [hm]
          constructor
          · rintro ⟨⟨x, _⟩, _⟩; exact absurd x (by simp)
          · rintro ⟨x, _⟩; omega
        · have hm : a.isMember nid = false := by
            cases hx : a.isMember nid with
            | false => rfl
            | true => exact absurd ((hs.isMember nid).mp hx) hi
          have hidx := h.wf.off nid hl hi
          have hco := h.book.closedOff nid hl hi
          rw [hm]
          unfold Idle at *
          constructor
          · rintro ⟨⟨_, x1⟩, x2⟩
            refine ⟨by omega, ?_⟩
            rw [x2] at hco
            have : ¬ (outOf s nid = 0 ∨ (s.node nid).load ≥ 0) := by
              intro hc; rw [if_pos hc] at hco; omega
            rcases hacc with q | q <;> omega
          · rintro ⟨_, x1⟩
            have hneg : ¬ (outOf s nid = 0 ∨ (s.node nid).load ≥ 0) := by omega
            rw [if_neg hneg] at hco
            refine ⟨⟨rfl, ?_⟩, hco⟩
            rcases hacc with q | q <;> omega
      rw [hdr]
      constructor
      · show a.nextId = _; rw [pe.len]; exact hs.nextId
      · show (bump a.out nid (· - 1)).length = _; rw [bump_length, pe.len]; exact hs.outLen
      · show a.chan.length = _; rw [pe.len]; exact hs.chanLen
      · show (if _ then _ else _ : List Nat).length = _
        rw [pe.len]
        split
        · rw [bump_length]; exact hs.wcLen
        · exact hs.wcLen
      · intro id e
        show (id, e) ∈ a.members ↔ _
        rw [pe.inHeap, (pe.fields id).1]; exact hs.mem id e
      · intro id hl'
        rw [pe.len] at hl'
        show (bump a.out nid (· - 1)).getD id 0 = _
        rw [getD_bump, hs.outLen]
        by_cases e' : id = nid
        · subst e'
          rw [if_pos ⟨rfl, hl⟩, hs.out id hl]
          show outOf s id - 1 = _
          omega
        · have x1 : ¬ (id = nid ∧ nid < s.nodes.length) := fun x => e' x.1
          have x2 : ¬ nid = id := fun x => e' x.symm
          have := hout id
          rw [if_neg x2] at this
          rw [if_neg x1, hs.out id hl']; omega
      · intro id hl'
        show a.chan.getD id 4 = _
        rw [(pe.fields id).2]; exact hs.chan id (by rw [← pe.len]; exact hl')
      · show s.reqs.set r (nid, true) = _; rw [pe.reqs]
      · intro id hl'
        rw [pe.len] at hl'
        show (if _ then _ else _ : List Nat).getD id 0 = _
        rw [pe.closed id]
        by_cases hc : (s.node nid).index < 0 ∧ (s.node nid).load - 1 = Idle
        · rw [if_pos (by simpa using hc), getD_bump, hs.wcLen]
          by_cases e' : id = nid
          · subst e'
            rw [if_pos ⟨rfl, hl⟩, if_pos ⟨rfl, hc⟩, hs.wc id hl]
          · have x1 : ¬ (id = nid ∧ nid < s.nodes.length) := fun x => e' x.1
            have x2 : ¬ (id = nid ∧ (s.node nid).index < 0 ∧ (s.node nid).load - 1 = Idle) := fun x => e' x.1
            rw [if_neg x1, if_neg x2, hs.wc id hl']; rfl
        · rw [if_neg (by simpa using hc)]
          have x2 : ¬ (id = nid ∧ (s.node nid).index < 0 ∧ (s.node nid).load - 1 = Idle) := fun x => hc x.2
          rw [if_neg x2, hs.wc id hl']; rfl

/-! ### chan -/

theorem sim_chan (a : A0) (s : HS) (nid st : Nat) (hs : Sim0 a s) : Sim0 (chanA a nid st) (s.setChan nid st) := by
  obtain ⟨f1, f2, f3, f4⟩ := setChan_facts s nid st
  have hout : ∀ id, outOf (s.setChan nid st) id = outOf s id := by intro id; unfold outOf; rw [f2]
  unfold chanA
  constructor
  · show a.nextId = _; rw [f1]; exact hs.nextId
  · show a.out.length = _; rw [f1]; exact hs.outLen
  · show (a.chan.set nid st).length = _; rw [List.length_set, f1]; exact hs.chanLen
  · show a.wantClosed.length = _; rw [f1]; exact hs.wcLen
  · intro id e
    show (id, e) ∈ a.members ↔ _
    rw [f3, (f4 id).2.1]; exact hs.mem id e
  · intro id hl
    show a.out.getD id 0 = _
    rw [hout]; exact hs.out id (by rw [← f1]; exact hl)
  · intro id hl
    rw [f1] at hl
    show (a.chan.set nid st).getD id 4 = _
    rw [getD_set', (f4 id).2.2.1, hs.chanLen]
    split
    · rfl
    · exact hs.chan id hl
  · show a.reqs = _; rw [f2]; exact hs.reqs
  · intro id hl
    show a.wantClosed.getD id 0 = _
    rw [(f4 id).2.2.2]; exact hs.wc id (by rw [← f1]; exact hl)

end Scales.Heap
