/-
  Proofs/KafkaCodecLemmas.lean — helper lemmas for C15 (Model/KafkaCodec.lean,
  Adapter/KafkaCodec.lean): big-endian integers, readers against encoders, CRC chaining,
  message-set and request round trips, response round trips, the tag map.
-/
import ScalesModel.Adapter.KafkaCodec
import Mathlib.Data.List.Nodup

namespace Scales.Kafka

/-! ### big-endian integers -/

theorem be_length (n v : Nat) : (be n v).length = n := by
  induction n generalizing v with
  | zero => rfl
  | succ n ih => simp [be, ih]

theorem beVal_snoc (bs : Bytes) (b : Nat) : beVal (bs ++ [b]) = beVal bs * 256 + b := by
  simp [beVal, List.foldl_append]

theorem beVal_be (n v : Nat) : beVal (be n v) = v % 256 ^ n := by
  induction n generalizing v with
  | zero => simp [be, beVal, Nat.mod_one]
  | succ n ih =>
    rw [be, beVal_snoc, ih, Nat.pow_succ, Nat.mul_comm (256 ^ n) 256, Nat.mod_mul]
    generalize v / 256 % 256 ^ n = t
    omega

@[simp] theorem i16_length (i : Int) : (i16 i).length = 2 := be_length _ _
@[simp] theorem i32_length (i : Int) : (i32 i).length = 4 := be_length _ _
@[simp] theorem i64_length (i : Int) : (i64 i).length = 8 := be_length _ _

theorem takeExact_append (n : Nat) (xs rest : Bytes) (h : xs.length = n) :
    takeExact n (xs ++ rest) = some (xs, rest) := by
  subst h
  simp [takeExact]

theorem takeExact_self (n : Nat) (xs : Bytes) (h : xs.length = n) :
    takeExact n xs = some (xs, []) := by
  have := takeExact_append n xs [] h
  simpa using this

theorem inI16_def (i : Int) : inI16 i = true ↔ (-32768 ≤ i ∧ i ≤ 32767) := by
  simp [inI16]; omega
theorem inI32_def (i : Int) : inI32 i = true ↔ (-2147483648 ≤ i ∧ i ≤ 2147483647) := by
  simp [inI32]; omega
theorem inI64_def (i : Int) :
    inI64 i = true ↔ (-9223372036854775808 ≤ i ∧ i ≤ 9223372036854775807) := by
  simp [inI64]; omega
theorem inI16_false (i : Int) : inI16 i = false ↔ ¬(-32768 ≤ i ∧ i ≤ 32767) := by
  rw [← inI16_def]; simp
theorem inI32_false (i : Int) : inI32 i = false ↔ ¬(-2147483648 ≤ i ∧ i ≤ 2147483647) := by
  rw [← inI32_def]; simp
theorem inI64_false (i : Int) :
    inI64 i = false ↔ ¬(-9223372036854775808 ≤ i ∧ i ≤ 9223372036854775807) := by
  rw [← inI64_def]; simp

theorem pk16_in (i : Int) (h : inI16 i = true) : pk16 i = some (i16 i) := by simp [pk16, h]
theorem pk16_out (i : Int) (h : inI16 i = false) : pk16 i = none := by simp [pk16, h]
theorem pk32_in (i : Int) (h : inI32 i = true) : pk32 i = some (i32 i) := by simp [pk32, h]
theorem pk32_out (i : Int) (h : inI32 i = false) : pk32 i = none := by simp [pk32, h]

theorem toS16 (i : Int) (h : inI16 i = true) : toS 65536 ((i % 65536).toNat % 65536) = i := by
  rw [inI16_def] at h
  unfold toS
  split <;> omega

theorem toS32 (i : Int) (h : inI32 i = true) :
    toS 4294967296 ((i % 4294967296).toNat % 4294967296) = i := by
  rw [inI32_def] at h
  unfold toS
  split <;> omega

theorem toS64 (i : Int) (h : inI64 i = true) :
    toS 18446744073709551616 ((i % 18446744073709551616).toNat % 18446744073709551616) = i := by
  rw [inI64_def] at h
  unfold toS
  split <;> omega

theorem rdI16_i16 (i : Int) (h : inI16 i = true) (rest : Bytes) :
    rdI16 (i16 i ++ rest) = some (i, rest) := by
  unfold rdI16
  rw [takeExact_append 2 _ _ (i16_length i)]
  simp only [i16, beVal_be]
  have := toS16 i h
  simp at this ⊢
  exact this

theorem rdI32_i32 (i : Int) (h : inI32 i = true) (rest : Bytes) :
    rdI32 (i32 i ++ rest) = some (i, rest) := by
  unfold rdI32
  rw [takeExact_append 4 _ _ (i32_length i)]
  simp only [i32, beVal_be]
  have := toS32 i h
  simp at this ⊢
  exact this

theorem rdI64_i64 (i : Int) (h : inI64 i = true) (rest : Bytes) :
    rdI64 (i64 i ++ rest) = some (i, rest) := by
  unfold rdI64
  rw [takeExact_append 8 _ _ (i64_length i)]
  simp only [i64, beVal_be]
  have := toS64 i h
  simp at this ⊢
  exact this

theorem rdU32_be (v : Nat) (h : v < 4294967296) (rest : Bytes) :
    rdU32 (be 4 v ++ rest) = some (v, rest) := by
  unfold rdU32
  rw [takeExact_append 4 _ _ (be_length 4 v)]
  simp only [beVal_be]
  have : v % 256 ^ 4 = v := by
    have : (256 : Nat) ^ 4 = 4294967296 := by decide
    rw [this]; omega
  simp [this]

/-! ### CRC chaining: `zlib.crc32(p, zlib.crc32(h))` is the CRC of `h ++ p` -/

theorem xor_cancel (x m : Nat) : (x ^^^ m) ^^^ m = x := by
  rw [Nat.xor_assoc, Nat.xor_self, Nat.xor_zero]

theorem zcrc_chain (h p : Bytes) : zcrc p (zcrc h 0) = crc32 (h ++ p) := by
  simp only [crc32, zcrc, xor_cancel, crcUpdate, List.foldl_append]

/-! ### messages and message sets -/

theorem encMessage_eq (p : Bytes) :
    encMessage p = if inI32 ((p.length : Int) + 14) then
      some (i64 0 ++ i32 ((p.length : Int) + 14) ++ be 4 (crc32 (msgCovered p) % 4294967296) ++ msgCovered p)
    else none := by
  unfold encMessage msgHeader
  have hl : ∀ l : Bytes, l.length = 4 → (([0, 0] ++ i32 (-1) ++ l).length : Int) + (p.length : Int) + 4 = (p.length : Int) + 14 := by
    intro l h; simp [h]; omega
  cases h : inI32 ((p.length : Int) + 14)
  · cases h1 : inI32 (p.length : Int)
    · simp [pk32_out _ h1]
    · simp only [pk32_in _ h1, hl _ (i32_length _), pk32_out _ h]
      simp
  · have h1 : inI32 (p.length : Int) = true := by
      rw [inI32_def] at h ⊢; omega
    simp only [pk32_in _ h1, hl _ (i32_length _), pk32_in _ h, zcrc_chain, msgCovered]
    simp

theorem pBytes_null (rest : Bytes) : pBytes (i32 (-1) ++ rest) = some (none, rest) := by
  unfold pBytes
  rw [rdI32_i32 _ (by decide)]
  simp

theorem pBytes_some (b : Bytes) (h : inI32 (b.length : Int) = true) (rest : Bytes) :
    pBytes (i32 (b.length : Int) ++ (b ++ rest)) = some (some b, rest) := by
  unfold pBytes
  rw [rdI32_i32 _ h]
  have h1 : ¬ ((b.length : Int) = -1) := by omega
  have h2 : ¬ ((b.length : Int) < 0) := by omega
  simp only [h1, h2, if_false, Int.toNat_natCast, takeExact_append _ b rest rfl]

theorem msgCovered_length (p : Bytes) : (msgCovered p).length = p.length + 10 := by
  simp [msgCovered]; omega

theorem pMessage_expected (p : Bytes) (h : inI32 (p.length : Int) = true) :
    pMessage 0 (be 4 (crc32 (msgCovered p) % 4294967296) ++ msgCovered p) = some (expectedMsg p) := by
  unfold pMessage
  rw [rdU32_be _ (Nat.mod_lt _ (by decide))]
  have hb := pBytes_some p h []
  simp only [List.append_nil] at hb
  simp only [msgCovered, List.cons_append, List.nil_append, List.append_assoc, rdU8, pBytes_null, hb]
  rfl

theorem pMsgSet_message (fuel : Nat) (p rest : Bytes) (h : inI32 ((p.length : Int) + 14) = true) :
    pMsgSet (fuel + 1) (i64 0 ++ i32 ((p.length : Int) + 14) ++
        be 4 (crc32 (msgCovered p) % 4294967296) ++ msgCovered p ++ rest) =
      match pMsgSet fuel rest with
      | some ms => some (expectedMsg p :: ms)
      | none => none := by
  have h1 : inI32 (p.length : Int) = true := by
    rw [inI32_def] at h ⊢; omega
  generalize hbs : i64 0 ++ i32 ((p.length : Int) + 14) ++
        be 4 (crc32 (msgCovered p) % 4294967296) ++ msgCovered p ++ rest = bs
  cases bs with
  | nil =>
    have := congrArg List.length hbs
    simp at this
  | cons b t =>
    rw [pMsgSet, ← hbs]
    have h2 : ¬ ((p.length : Int) + 14 < 0) := by omega
    have hlen : (be 4 (crc32 (msgCovered p) % 4294967296) ++ msgCovered p).length
        = ((p.length : Int) + 14).toNat := by
      simp [be_length, msgCovered_length]; omega
    have ht : takeExact ((p.length : Int) + 14).toNat
        (be 4 (crc32 (msgCovered p) % 4294967296) ++ (msgCovered p ++ rest)) =
        some (be 4 (crc32 (msgCovered p) % 4294967296) ++ msgCovered p, rest) := by
      rw [← List.append_assoc]; exact takeExact_append _ _ rest hlen
    simp only [List.append_assoc, rdI64_i64 _ (by decide : inI64 0 = true), rdI32_i32 _ h, h2, if_false, ht,
      pMessage_expected p h1]
    cases pMsgSet fuel rest <;> rfl

theorem encMessage_length (p m : Bytes) (h : encMessage p = some m) : m.length = p.length + 26 := by
  rw [encMessage_eq] at h
  split at h
  · injection h with h; subst h; simp [be_length, msgCovered_length]; omega
  · cases h

theorem encMessages_parse (ps : List Bytes) : ∀ (ms : Bytes), encMessages ps = some ms →
    ms.length = msgSetLen ps ∧ ∀ fuel, ps.length ≤ fuel → pMsgSet fuel ms = some (ps.map expectedMsg) := by
  induction ps with
  | nil =>
    intro ms h
    simp [encMessages] at h
    subst h
    refine ⟨rfl, ?_⟩
    intro fuel _
    cases fuel <;> rfl
  | cons p ps ih =>
    intro ms h
    rw [encMessages, encMessage_eq] at h
    cases hp : inI32 ((p.length : Int) + 14)
    · simp [hp] at h
    · cases hps : encMessages ps with
      | none => simp [hp, hps] at h
      | some ms' =>
        simp only [hp, hps, if_true] at h
        injection h with h
        obtain ⟨hl, hparse⟩ := ih ms' hps
        subst h
        refine ⟨?_, ?_⟩
        · simp [be_length, msgCovered_length, msgSetLen, hl]; omega
        · intro fuel hf
          cases fuel with
          | zero => simp at hf
          | succ fuel =>
            rw [pMsgSet_message fuel p ms' hp, hparse fuel (by simpa using hf)]
            rfl

theorem encMessages_some (ps : List Bytes) (h : msgSetLen ps ≤ 2147483647) : ∃ ms, encMessages ps = some ms := by
  induction ps with
  | nil => exact ⟨[], rfl⟩
  | cons p ps ih =>
    simp only [msgSetLen] at h
    obtain ⟨ms, hms⟩ := ih (by omega)
    have hp : inI32 ((p.length : Int) + 14) = true := by rw [inI32_def]; omega
    rw [encMessages, encMessage_eq, hms]
    simp only [hp, if_true]
    exact ⟨_, rfl⟩

theorem wireRequest_eq (cid : Bytes) (tag mt : Int) (body : Bytes) :
    wireRequest cid tag mt body =
      if (inI32 (10 + (cid.length : Int) + (body.length : Int)) && inI16 mt && inI32 tag &&
          inI16 (cid.length : Int)) = true then
        some (i32 (10 + (cid.length : Int) + (body.length : Int)) ++ i16 mt ++ i16 0 ++ i32 tag ++
          i16 (cid.length : Int) ++ cid ++ body)
      else none := by
  unfold wireRequest buildHeader
  have e : (2 + 2 + 4 + 2 + (cid.length : Int) + (body.length : Int)) =
      10 + (cid.length : Int) + (body.length : Int) := by omega
  rw [e]
  cases h1 : inI32 (10 + (cid.length : Int) + (body.length : Int)) <;>
  cases h2 : inI16 mt <;> cases h3 : inI32 tag <;> cases h4 : inI16 (cid.length : Int) <;>
  simp [pk32_in, pk32_out, pk16_in, pk16_out, h1, h2, h3, h4]
/-! ### whole requests -/

theorem wrString_eq (s : Bytes) :
    wrString s = if inI16 (s.length : Int) = true then some (i16 (s.length : Int) ++ s) else none := by
  unfold wrString
  cases h : inI16 (s.length : Int) <;> simp [pk16_in, pk16_out, h]

theorem produceBody_some (acks : Int) (topic : Bytes) (part : Int) (ps : List Bytes) (body : Bytes)
    (h : produceBody acks topic part ps = some body) :
    inI16 acks = true ∧ inI16 (topic.length : Int) = true ∧ inI32 part = true ∧
    inI32 (msgSetLen ps : Int) = true ∧
    ∃ ms, encMessages ps = some ms ∧
      body = i16 acks ++ i32 1000 ++ i32 1 ++ (i16 (topic.length : Int) ++ topic) ++ i32 1 ++ i32 part ++
        i32 (msgSetLen ps : Int) ++ ms := by
  unfold produceBody at h
  rw [wrString_eq] at h
  cases h1 : inI16 acks <;> cases h2 : inI16 (topic.length : Int) <;> cases h3 : inI32 part <;>
    cases h4 : inI32 (msgSetLen ps : Int) <;> cases h5 : encMessages ps <;>
    simp [pk32_in, pk32_out, pk16_in, pk16_out, h1, h2, h3, h4, h5] at h
  subst h
  exact ⟨rfl, rfl, rfl, rfl, _, rfl, by simp⟩

theorem produceBody_of (acks : Int) (topic : Bytes) (part : Int) (ps : List Bytes) (ms : Bytes)
    (h1 : inI16 acks = true) (h2 : inI16 (topic.length : Int) = true) (h3 : inI32 part = true)
    (h4 : inI32 (msgSetLen ps : Int) = true) (h5 : encMessages ps = some ms) :
    produceBody acks topic part ps = some (i16 acks ++ i32 1000 ++ i32 1 ++ (i16 (topic.length : Int) ++ topic) ++
      i32 1 ++ i32 part ++ i32 (msgSetLen ps : Int) ++ ms) := by
  unfold produceBody
  rw [wrString_eq]
  simp [pk32_in, pk16_in, h1, h2, h3, h4, h5]

theorem pString_str (s : Bytes) (h : inI16 (s.length : Int) = true) (rest : Bytes) :
    pString (i16 (s.length : Int) ++ (s ++ rest)) = some (s, rest) := by
  unfold pString
  rw [rdI16_i16 _ h]
  have h2 : ¬ ((s.length : Int) < 0) := by omega
  simp only [h2, if_false, Int.toNat_natCast, takeExact_append _ s rest rfl]

theorem pCount_i32 (n : Nat) (h : inI32 (n : Int) = true) (rest : Bytes) :
    pCount (i32 (n : Int) ++ rest) = some (n, rest) := by
  unfold pCount
  rw [rdI32_i32 _ h]
  have h2 : ¬ ((n : Int) < 0) := by omega
  simp only [h2, if_false, Int.toNat_natCast]

theorem pCount_one (rest : Bytes) : pCount (i32 1 ++ rest) = some (1, rest) := by
  unfold pCount
  rw [rdI32_i32 _ (by decide)]
  rfl

theorem pPart_msgs (part : Int) (ps : List Bytes) (ms : Bytes) (h3 : inI32 part = true)
    (h4 : inI32 (msgSetLen ps : Int) = true) (h5 : encMessages ps = some ms) :
    pPart (i32 part ++ (i32 (msgSetLen ps : Int) ++ ms)) = some (⟨part, ps.map expectedMsg⟩, []) := by
  obtain ⟨hl, hparse⟩ := encMessages_parse ps ms h5
  unfold pPart
  rw [rdI32_i32 _ h3]
  simp only []
  rw [rdI32_i32 _ h4]
  have h2 : ¬ ((msgSetLen ps : Int) < 0) := by omega
  have hlen : ps.length ≤ ms.length := by
    rw [hl]; clear hl hparse h5 h4
    induction ps with
    | nil => simp
    | cons p ps ih => simp [msgSetLen]; omega
  simp only [h2, if_false, Int.toNat_natCast, takeExact_self _ ms hl, hparse ms.length hlen]

theorem pTopic_one (topic : Bytes) (part : Int) (ps : List Bytes) (ms : Bytes)
    (h2 : inI16 (topic.length : Int) = true) (h3 : inI32 part = true)
    (h4 : inI32 (msgSetLen ps : Int) = true) (h5 : encMessages ps = some ms) :
    pTopic (i16 (topic.length : Int) ++ (topic ++ (i32 1 ++ (i32 part ++ (i32 (msgSetLen ps : Int) ++ ms))))) =
      some (⟨topic, [⟨part, ps.map expectedMsg⟩]⟩, []) := by
  unfold pTopic pArray
  simp only [pString_str topic h2, pCount_one, rdMany, pPart_msgs part ps ms h3 h4 h5]

theorem parse_produce (cid : Bytes) (tag acks : Int) (topic : Bytes) (part : Int) (ps : List Bytes)
    (r : Bytes) (h : produceRequest cid tag acks topic part ps = some r) :
    parseRequest r = some (expectedProduce cid tag acks topic part ps) := by
  unfold produceRequest at h
  cases hb : produceBody acks topic part ps with
  | none => simp [hb] at h
  | some body =>
    simp only [hb] at h
    obtain ⟨h1, h2, h3, h4, ms, h5, hbody⟩ := produceBody_some _ _ _ _ _ hb
    rw [wireRequest_eq] at h
    split at h
    · rename_i hc
      simp only [Bool.and_eq_true] at hc
      obtain ⟨⟨⟨c1, c2⟩, c3⟩, c4⟩ := hc
      injection h with h
      subst h
      unfold parseRequest
      simp only [List.append_assoc]
      rw [rdI32_i32 _ c1]
      have hsz : ¬ (10 + (cid.length : Int) + (body.length : Int) < 0 ∨
          (10 + (cid.length : Int) + (body.length : Int)).toNat ≠
            (i16 0 ++ (i16 0 ++ (i32 tag ++ (i16 (cid.length : Int) ++ (cid ++ body))))).length) := by
        simp; omega
      simp only [hsz, if_false]
      unfold parseUnframed
      simp only [rdI16_i16 0 (by decide), rdI32_i32 _ c3, pString_str cid c4]
      subst hbody
      unfold pProduceBody pArray
      simp only [List.append_assoc, if_true, rdI16_i16 _ h1, rdI32_i32 1000 (by decide),
        pCount_one]
      simp only [rdMany, pTopic_one topic part ps ms h2 h3 h4 h5]
      rfl
    · cases h
theorem parse_mdreq (cid : Bytes) (tag : Int) (r : Bytes)
    (h : wireRequest cid tag 3 metadataBody = some r) :
    parseRequest r = some ⟨3, 0, tag, cid, .metadata []⟩ := by
  rw [wireRequest_eq] at h
  split at h
  · rename_i hc
    simp only [Bool.and_eq_true] at hc
    obtain ⟨⟨⟨c1, c2⟩, c3⟩, c4⟩ := hc
    injection h with h
    subst h
    unfold parseRequest
    simp only [List.append_assoc]
    rw [rdI32_i32 _ c1]
    have hsz : ¬ (10 + (cid.length : Int) + (metadataBody.length : Int) < 0 ∨
        (10 + (cid.length : Int) + (metadataBody.length : Int)).toNat ≠
          (i16 3 ++ (i16 0 ++ (i32 tag ++ (i16 (cid.length : Int) ++ (cid ++ metadataBody))))).length) := by
      simp [metadataBody]; omega
    simp only [hsz, if_false]
    unfold parseUnframed
    simp only [rdI16_i16 0 (by decide), rdI16_i16 3 (by decide), rdI32_i32 _ c3, pString_str cid c4]
    have : pMetadataBody metadataBody = some (.metadata []) := by
      unfold pMetadataBody pArray metadataBody pCount
      have := rdI32_i32 0 (by decide) []
      simp only [List.append_nil] at this
      rw [this]
      rfl
    rw [this]
    rfl
  · cases h

theorem mdreq_some (cid : Bytes) (tag : Int) (h1 : inI32 tag = true) (h2 : cid.length ≤ 32767) :
    ∃ r, wireRequest cid tag 3 metadataBody = some r := by
  rw [wireRequest_eq]
  have c1 : inI32 (10 + (cid.length : Int) + (metadataBody.length : Int)) = true := by
    rw [inI32_def]; simp [metadataBody]; omega
  have c4 : inI16 (cid.length : Int) = true := by rw [inI16_def]; omega
  have c2 : inI16 3 = true := by decide
  simp only [c1, c2, h1, c4, Bool.and_self, if_true]
  exact ⟨_, rfl⟩

theorem msgSetLen_le_of_some (ps : List Bytes) (ms : Bytes) (h : encMessages ps = some ms) :
    ms.length = msgSetLen ps := (encMessages_parse ps ms h).1

/-- the serializer accepts exactly the inputs whose fields fit their formats -/
theorem produceBody_isSome_iff (acks : Int) (topic : Bytes) (part : Int) (ps : List Bytes) :
    (produceBody acks topic part ps).isSome = true ↔
      (inI16 acks = true ∧ topic.length ≤ 32767 ∧ inI32 part = true ∧ msgSetLen ps ≤ 2147483647) := by
  constructor
  · intro h
    cases hb : produceBody acks topic part ps with
    | none => simp [hb] at h
    | some body =>
      obtain ⟨h1, h2, h3, h4, _⟩ := produceBody_some _ _ _ _ _ hb
      rw [inI16_def] at h2; rw [inI32_def] at h4
      exact ⟨h1, by omega, h3, by omega⟩
  · rintro ⟨h1, h2, h3, h4⟩
    obtain ⟨ms, hms⟩ := encMessages_some ps h4
    rw [produceBody_of acks topic part ps ms h1 (by rw [inI16_def]; omega) h3 (by rw [inI32_def]; omega) hms]
    rfl

theorem produceBody_length (acks : Int) (topic : Bytes) (part : Int) (ps : List Bytes) (body : Bytes)
    (h : produceBody acks topic part ps = some body) :
    body.length = 24 + topic.length + msgSetLen ps := by
  obtain ⟨_, _, _, _, ms, h5, hb⟩ := produceBody_some _ _ _ _ _ h
  subst hb
  simp [msgSetLen_le_of_some ps ms h5]; omega

/-- a produce request is written exactly for the inputs of `putDomain` and an int32 tag -/
theorem produceRequest_isSome_iff (cid : Bytes) (tag acks : Int) (topic : Bytes) (part : Int) (ps : List Bytes) :
    (produceRequest cid tag acks topic part ps).isSome = true ↔
      (putDomain ⟨cid⟩ acks topic part ps = true ∧ inI32 tag = true) := by
  unfold produceRequest putDomain requestSize
  simp only [Bool.and_eq_true, decide_eq_true_eq]
  constructor
  · intro h
    cases hb : produceBody acks topic part ps with
    | none => simp [hb] at h
    | some body =>
      have hl := produceBody_length _ _ _ _ _ hb
      have hd := (produceBody_isSome_iff acks topic part ps).1 (by rw [hb]; rfl)
      simp only [hb] at h
      rw [wireRequest_eq] at h
      split at h
      · rename_i hc
        simp only [Bool.and_eq_true] at hc
        obtain ⟨⟨⟨c1, c2⟩, c3⟩, c4⟩ := hc
        rw [inI32_def] at c1; rw [inI16_def] at c4
        refine ⟨⟨⟨⟨⟨hd.1, hd.2.1⟩, hd.2.2.1⟩, by omega⟩, by omega⟩, c3⟩
      · simp at h
  · rintro ⟨⟨⟨⟨⟨h1, h2⟩, h3⟩, h4⟩, h5⟩, h6⟩
    have hs := (produceBody_isSome_iff acks topic part ps).2 ⟨h1, h2, h3, by omega⟩
    cases hb : produceBody acks topic part ps with
    | none => simp [hb] at hs
    | some body =>
      have hl := produceBody_length _ _ _ _ _ hb
      simp only []
      rw [wireRequest_eq]
      have c1 : inI32 (10 + (cid.length : Int) + (body.length : Int)) = true := by
        rw [inI32_def]; omega
      have c4 : inI16 (cid.length : Int) = true := by rw [inI16_def]; omega
      have c2 : inI16 0 = true := by decide
      simp [c1, c2, h6, c4]
/-! ### responses -/

theorem rdMany_enc {α : Type} (p : Rd α) (enc : α → Bytes) (encs : List α → Bytes)
    (hnil : encs [] = []) (hcons : ∀ x xs, encs (x :: xs) = enc x ++ encs xs)
    (xs : List α) (h : ∀ x ∈ xs, ∀ rest, p (enc x ++ rest) = some (x, rest)) (rest : Bytes) :
    rdMany p xs.length (encs xs ++ rest) = some (xs, rest) := by
  induction xs with
  | nil => simp [rdMany, hnil]
  | cons x xs ih =>
    have hx := h x (by simp) (encs xs ++ rest)
    have ih' := ih (fun y hy => h y (by simp [hy]))
    simp only [List.length_cons, rdMany, hcons, List.append_assoc, hx, ih']

theorem lenOk_inI32 (n : Nat) (h : lenOk n = true) : inI32 (n : Int) = true := by
  simp [lenOk] at h
  rw [inI32_def]; omega

theorem rdLoop_enc {α : Type} (p : Rd α) (enc : α → Bytes) (encs : List α → Bytes)
    (hnil : encs [] = []) (hcons : ∀ x xs, encs (x :: xs) = enc x ++ encs xs)
    (xs : List α) (hl : lenOk xs.length = true)
    (h : ∀ x ∈ xs, ∀ rest, p (enc x ++ rest) = some (x, rest)) (rest : Bytes) :
    rdLoop p (i32 (xs.length : Int) ++ (encs xs ++ rest)) = some (xs, rest) := by
  unfold rdLoop
  rw [rdI32_i32 _ (lenOk_inI32 _ hl)]
  simp only [Int.toNat_natCast]
  exact rdMany_enc p enc encs hnil hcons xs h rest

theorem rdString_str (s : Bytes) (h : s.length ≤ 32767) (rest : Bytes) :
    rdString (str s ++ rest) = some (s, rest) := by
  unfold rdString str
  rw [List.append_assoc, rdI16_i16 _ (by rw [inI16_def]; omega)]
  have h2 : ¬ ((s.length : Int) < 0) := by omega
  simp only [h2, if_false, Int.toNat_natCast, List.take_left, List.drop_left]

theorem rdPRPart_enc (p : PRPart) (h : prPartWF p = true) (rest : Bytes) :
    rdPRPart (encPRPart p ++ rest) = some (p, rest) := by
  simp only [prPartWF, Bool.and_eq_true] at h
  obtain ⟨⟨h1, h2⟩, h3⟩ := h
  unfold rdPRPart encPRPart
  simp only [List.append_assoc, rdI32_i32 _ h1, rdI16_i16 _ h2, rdI64_i64 _ h3]

theorem rdPRTopic_enc (t : PRTopic) (h : prTopicWF t = true) (rest : Bytes) :
    rdPRTopic (encPRTopic t ++ rest) = some (t, rest) := by
  simp only [prTopicWF, Bool.and_eq_true, decide_eq_true_eq, List.all_eq_true] at h
  obtain ⟨⟨h1, h2⟩, h3⟩ := h
  unfold rdPRTopic encPRTopic
  simp only [List.append_assoc, rdString_str _ h1,
    rdLoop_enc rdPRPart encPRPart encPRParts rfl (fun _ _ => rfl) t.parts h2
      (fun x hx rest => rdPRPart_enc x (h3 x hx) rest)]

theorem decProduceResp_enc (r : List PRTopic) (h : prWF r = true) (rest : Bytes) :
    decProduceResp (encProduceResp r ++ rest) = some (flattenPR r) := by
  simp only [prWF, Bool.and_eq_true, List.all_eq_true] at h
  obtain ⟨h1, h2⟩ := h
  unfold decProduceResp encProduceResp
  simp only [List.append_assoc,
    rdLoop_enc rdPRTopic encPRTopic encPRTopics rfl (fun _ _ => rfl) r h1
      (fun x hx rest => rdPRTopic_enc x (h2 x hx) rest)]

/-! metadata -/

theorem rdI32Array_enc (xs : List Int) (hl : lenOk xs.length = true) (h : allI32 xs = true) (rest : Bytes) :
    rdI32Array (encI32Array xs ++ rest) = some (xs, rest) := by
  simp only [allI32, List.all_eq_true] at h
  unfold rdI32Array encI32Array
  rw [List.append_assoc, rdI32_i32 _ (lenOk_inI32 _ hl)]
  have h2 : ¬ ((xs.length : Int) < 0) := by omega
  simp only [h2, if_false, Int.toNat_natCast]
  exact rdMany_enc rdI32 i32 encI32s rfl (fun _ _ => rfl) xs (fun x hx rest => rdI32_i32 x (h x hx) rest) rest

theorem rdMBroker_enc (b : MBroker) (h : mBrokerWF b = true) (rest : Bytes) :
    rdMBroker (encMBroker b ++ rest) = some (b, rest) := by
  simp only [mBrokerWF, Bool.and_eq_true, decide_eq_true_eq] at h
  obtain ⟨⟨h1, h2⟩, h3⟩ := h
  unfold rdMBroker encMBroker
  simp only [List.append_assoc, rdI32_i32 _ h1, rdString_str _ h2, rdI32_i32 _ h3]

theorem rdMPart_enc (p : MPart) (h : mPartWF p = true) (rest : Bytes) :
    rdMPart (encMPart p ++ rest) = some (p, rest) := by
  simp only [mPartWF, Bool.and_eq_true] at h
  obtain ⟨⟨⟨⟨⟨⟨h1, h2⟩, h3⟩, h4⟩, h5⟩, h6⟩, h7⟩ := h
  unfold rdMPart encMPart
  simp only [List.append_assoc, rdI16_i16 _ h1, rdI32_i32 _ h2, rdI32_i32 _ h3,
    rdI32Array_enc _ h4 h5, rdI32Array_enc _ h6 h7]

theorem rdMTopic_enc (t : MTopic) (h : mTopicWF t = true) (rest : Bytes) :
    rdMTopic (encMTopic t ++ rest) = some (t, rest) := by
  simp only [mTopicWF, Bool.and_eq_true, decide_eq_true_eq, List.all_eq_true] at h
  obtain ⟨⟨⟨⟨h1, h2⟩, h3⟩, h4⟩, _⟩ := h
  unfold rdMTopic encMTopic
  simp only [List.append_assoc, rdI16_i16 _ h1, rdString_str _ h2,
    rdLoop_enc rdMPart encMPart encMParts rfl (fun _ _ => rfl) t.parts h3
      (fun x hx rest => rdMPart_enc x (h4 x hx) rest)]

theorem decMetadataResp_enc (m : MResp) (h : mWF m = true) (rest : Bytes) :
    decMetadataResp (encMetadataResp m ++ rest) = some (metaView m) := by
  simp only [mWF, Bool.and_eq_true, List.all_eq_true] at h
  obtain ⟨⟨⟨⟨⟨h1, h2⟩, _⟩, h4⟩, h5⟩, _⟩ := h
  unfold decMetadataResp encMetadataResp
  simp only [List.append_assoc,
    rdLoop_enc rdMBroker encMBroker encMBrokers rfl (fun _ _ => rfl) m.brokers h1
      (fun x hx rest => rdMBroker_enc x (h2 x hx) rest),
    rdLoop_enc rdMTopic encMTopic encMTopics rfl (fun _ _ => rfl) m.topics h4
      (fun x hx rest => rdMTopic_enc x (h5 x hx) rest)]
/-! ### dictionaries -/

theorem distinct_iff_nodup {α : Type} [DecidableEq α] (l : List α) : distinct l = true ↔ l.Nodup := by
  induction l with
  | nil => simp [distinct]
  | cons x xs ih => simp [distinct, ih]

theorem assocSet_fresh {κ β : Type} [DecidableEq κ] (d : List (κ × β)) (k : κ) (v : β)
    (h : k ∉ d.map Prod.fst) : assocSet d k v = d ++ [(k, v)] := by
  induction d with
  | nil => rfl
  | cons e d ih =>
    obtain ⟨k', v'⟩ := e
    simp only [List.map_cons, List.mem_cons, not_or] at h
    have hne : ¬ (k' = k) := fun e => h.1 e.symm
    simp only [assocSet, hne, if_false, ih h.2, List.cons_append]

theorem assocOf_nodup {κ β : Type} [DecidableEq κ] (l d : List (κ × β))
    (h : ((d ++ l).map Prod.fst).Nodup) : assocOf d l = d ++ l := by
  induction l generalizing d with
  | nil => simp [assocOf]
  | cons e l ih =>
    obtain ⟨k, v⟩ := e
    have hk : k ∉ d.map Prod.fst := by
      simp only [List.map_append, List.map_cons] at h
      have := (List.nodup_cons.1 (List.nodup_middle.1 h)).1
      intro hm; exact this (by simp [hm])
    rw [assocOf, assocSet_fresh d k v hk, ih]
    · simp
    · simpa using h

theorem partDict_plain (t : MTopic) (h : mTopicWF t = true) :
    partDict t = t.parts.map (fun p => (p.partition, (⟨t.name, p.partition, p.leader, p.replicas, p.isr⟩ : PartMeta))) := by
  simp only [mTopicWF, Bool.and_eq_true] at h
  have hd := (distinct_iff_nodup _).1 h.2
  unfold partDict
  rw [assocOf_nodup]
  · simp
  · simpa [List.map_map, Function.comp_def] using hd

theorem metaView_plain (m : MResp) (h : mWF m = true) : metaView m = metaPlain m := by
  simp only [mWF, Bool.and_eq_true, List.all_eq_true] at h
  obtain ⟨⟨⟨⟨⟨_, _⟩, h3⟩, _⟩, h5⟩, h6⟩ := h
  have hb := (distinct_iff_nodup _).1 h3
  have ht := (distinct_iff_nodup _).1 h6
  unfold metaView metaPlain
  congr 1
  · rw [assocOf_nodup]
    · simp
    · simpa [List.map_map, Function.comp_def] using hb
  · rw [assocOf_nodup]
    · simp only [List.nil_append]
      apply List.map_congr_left
      intro t ht'
      rw [partDict_plain t (h5 t ht')]
    · simpa [List.map_map, Function.comp_def] using ht
/-! ### routing -/

theorem recvFrame_reply (corr : Int) (body : Bytes) (h1 : inI32 corr = true)
    (h2 : lenOk (4 + body.length) = true) :
    recvFrame (replyFrame corr body) = some (corr, i32 corr ++ body) := by
  have hs : inI32 (4 + (body.length : Int)) = true := by
    have := lenOk_inI32 _ h2
    rw [inI32_def] at this ⊢; omega
  unfold recvFrame replyFrame
  rw [List.append_assoc, rdI32_i32 _ hs]
  have hn : ¬ (4 + (body.length : Int) < 0) := by omega
  have hl : (i32 corr ++ body).length = (4 + (body.length : Int)).toNat := by simp; omega
  simp only [hn, if_false, takeExact_self _ _ hl, rdI32_i32 _ h1]

theorem decodeReply_produce (corr : Int) (r : List PRTopic) (h : prWF r = true) :
    decodeReply .produce (i32 corr ++ encProduceResp r) = .produce (flattenPR r) := by
  unfold decodeReply
  have hd : (i32 corr ++ encProduceResp r).drop 4 = encProduceResp r := by
    rw [List.drop_left' (i32_length corr)]
  have := decProduceResp_enc r h []
  simp only [List.append_nil] at this
  simp only [hd, this]

theorem decodeReply_metadata (corr : Int) (m : MResp) (h : mWF m = true) :
    decodeReply .metadata (i32 corr ++ encMetadataResp m) = .metadata (metaPlain m) := by
  unfold decodeReply
  have hd : (i32 corr ++ encMetadataResp m).drop 4 = encMetadataResp m := by
    rw [List.drop_left' (i32_length corr)]
  have := decMetadataResp_enc m h []
  simp only [List.append_nil] at this
  simp only [hd, this, metaView_plain m h]

theorem lookupTag_none_any (c : Int) (fl : List InFlight) (h : lookupTag c fl = none) :
    fl.any (fun e => decide (e.tag = c)) = false := by
  induction fl with
  | nil => rfl
  | cons e es ih =>
    unfold lookupTag at h
    split at h
    · cases h
    · rename_i hne
      simp [hne, ih h]

theorem lookupTag_some_entry (c : Int) (fl : List InFlight) (e : InFlight) (h : lookupTag c fl = some e) :
    e.tag = c ∧ hasEntry c e.id fl = some e ∧ removeEntry c e.id fl = removeTag c fl := by
  induction fl with
  | nil => cases h
  | cons x xs ih =>
    unfold lookupTag at h
    split at h
    · rename_i hx
      injection h with h
      subst h
      simp [hasEntry, removeEntry, removeTag, hx]
    · rename_i hne
      obtain ⟨h1, h2, h3⟩ := ih h
      refine ⟨h1, ?_, ?_⟩
      · unfold hasEntry at h2 ⊢
        rw [List.find?_cons_of_neg]
        · exact h2
        · simp [hne]
      · simp [removeEntry, removeTag, hne, h3]

theorem setTag_fresh (fl : List InFlight) (e : InFlight) (h : lookupTag e.tag fl = none) :
    setTag fl e = fl ++ [e] := by
  induction fl with
  | nil => rfl
  | cons x xs ih =>
    unfold lookupTag at h
    split at h
    · cases h
    · rename_i hne
      simp [setTag, hne, ih h]

theorem specReply_model (st : St) (idx : Nat) (corr : Int) (body : Bytes) (exp : Kind → Option Result)
    (h1 : inI32 corr = true) (h2 : lenOk (4 + body.length) = true)
    (hexp : ∀ k want, exp k = some want → decodeReply k (i32 corr ++ body) = want) :
    specReply st.inflight idx corr exp (replyStep st (replyFrame corr body)).2 =
      (.ok, (replyStep st (replyFrame corr body)).1.inflight) := by
  unfold replyStep routeReply
  rw [recvFrame_reply corr body h1 h2]
  cases hl : lookupTag corr st.inflight with
  | none =>
    simp only [hl, specReply, lookupTag_none_any corr _ hl]
    rfl
  | some e =>
    obtain ⟨_, he, hr⟩ := lookupTag_some_entry corr _ e hl
    simp only [hl, specReply, he, hr]
    cases hx : exp e.kind with
    | none => rfl
    | some want =>
      simp only [hexp _ _ hx, if_true]
/-! ### the model against the specification -/

theorem expectedMsgs_values (ps : List Bytes) : (ps.map expectedMsg).map (·.value) = ps.map some := by
  simp [List.map_map, Function.comp_def, expectedMsg]

theorem expectedMsgs_ok (ps : List Bytes) : (ps.map expectedMsg).all msgOk = true := by
  simp [List.all_eq_true, expectedMsg, msgOk]

theorem validProduce_model (cfg : Cfg) (tag acks : Int) (topic : Bytes) (part : Int) (ps : List Bytes)
    (w : Bytes) (h : produceRequest cfg.clientId tag acks topic part ps = some w) :
    validProduce cfg acks topic part ps w = some tag := by
  unfold validProduce
  rw [parse_produce _ _ _ _ _ _ _ h]
  simp only [expectedProduce, expectedMsgs_values, expectedMsgs_ok, and_self, if_true]

theorem wire_nonempty (cid : Bytes) (tag mt : Int) (body w : Bytes)
    (h : wireRequest cid tag mt body = some w) : ∃ b t, w = b :: t := by
  rw [wireRequest_eq] at h
  split at h
  · injection h with h
    have hl : 4 ≤ w.length := by rw [← h]; simp
    cases w with
    | nil => simp at hl
    | cons b t => exact ⟨b, t, rfl⟩
  · cases h

theorem putDomain_body (cfg : Cfg) (acks : Int) (topic : Bytes) (part : Int) (ps : List Bytes)
    (h : produceBody acks topic part ps = none) : putDomain cfg acks topic part ps = false := by
  cases hd : putDomain cfg acks topic part ps with
  | false => rfl
  | true =>
    exfalso
    unfold putDomain requestSize at hd
    simp only [Bool.and_eq_true, decide_eq_true_eq] at hd
    obtain ⟨⟨⟨⟨h1, h2⟩, h3⟩, _⟩, h5⟩ := hd
    have := (produceBody_isSome_iff acks topic part ps).2 ⟨h1, h2, h3, by omega⟩
    rw [h] at this
    cases this

theorem specStep_model (cfg : Cfg) (st : St) (idx : Nat) (op : Op) (h : opOk cfg st op = true) :
    specStep cfg st.inflight idx op (step cfg st op).2 = (.ok, (step cfg st op).1.inflight) := by
  cases op with
  | put id tag acks topic part ps =>
    unfold opOk at h
    unfold step
    cases hb : produceBody acks topic part ps with
    | none =>
      simp only [hb, specStep, putDomain_body cfg acks topic part ps hb]
      rfl
    | some body =>
      simp only [hb, Bool.and_eq_true, Option.isNone_iff_eq_none] at h
      obtain ⟨⟨h1, h2⟩, h3⟩ := h
      have hs := (produceRequest_isSome_iff cfg.clientId tag acks topic part ps).2 ⟨h3, h1⟩
      cases hw : produceRequest cfg.clientId tag acks topic part ps with
      | none => rw [hw] at hs; cases hs
      | some w =>
        have hv := validProduce_model cfg tag acks topic part ps w hw
        unfold produceRequest at hw
        simp only [hb] at hw
        obtain ⟨b, t, hbt⟩ := wire_nonempty _ _ _ _ _ hw
        subst hbt
        simp only [hb, sendStep, Kind.apiKey, hw, specStep, hv, setTag_fresh _ ⟨tag, id, .produce⟩ h2]
  | mdreq id tag =>
    unfold opOk at h
    simp only [Bool.and_eq_true, Option.isNone_iff_eq_none, decide_eq_true_eq] at h
    obtain ⟨⟨h1, h2⟩, h3⟩ := h
    obtain ⟨w, hw⟩ := mdreq_some cfg.clientId tag h1 h3
    have hp := parse_mdreq _ _ _ hw
    simp only [step, sendStep, Kind.apiKey, hw, specStep, hp, if_true,
      setTag_fresh _ ⟨tag, id, .metadata⟩ h2]
  | presp corr r =>
    unfold opOk at h
    simp only [Bool.and_eq_true] at h
    simp only [step, specStep]
    apply specReply_model st idx corr _ _ h.1 h.2
    intro k want hk
    unfold expectedResult at hk
    cases k with
    | produce =>
      simp only at hk
      split at hk
      · rename_i hwf
        injection hk with hk
        rw [← hk]
        exact decodeReply_produce corr r hwf
      · cases hk
    | metadata => simp at hk
  | mresp corr m =>
    unfold opOk at h
    simp only [Bool.and_eq_true] at h
    simp only [step, specStep]
    apply specReply_model st idx corr _ _ h.1 h.2
    intro k want hk
    unfold expectedResult at hk
    cases k with
    | produce => simp at hk
    | metadata =>
      simp only at hk
      split at hk
      · rename_i hwf
        injection hk with hk
        rw [← hk]
        exact decodeReply_metadata corr m hwf
      · cases hk
  | raw corr body =>
    unfold opOk at h
    simp only [Bool.and_eq_true] at h
    simp only [step, specStep]
    apply specReply_model st idx corr _ _ h.1 h.2
    intro k want hk
    cases hk
  | crc bs => rfl

theorem Verdict_and_ok' (v : Verdict) (f : Unit → Verdict) (h1 : v = .ok) (h2 : f () = .ok) :
    v.and f = .ok := by
  subst h1; exact h2

theorem spec_trace (cfg : Cfg) : ∀ (ops : List Op) (st : St) (idx : Nat), opsOk cfg st ops = true →
    specGo cfg st.inflight idx (comp.trace cfg st ops) = .ok := by
  intro ops
  induction ops with
  | nil => intros; rfl
  | cons op ops ih =>
    intro st idx h
    simp only [opsOk, Bool.and_eq_true] at h
    obtain ⟨h1, h2⟩ := h
    have hs := specStep_model cfg st idx op h1
    simp only [TComp.trace, comp, specGo]
    rw [hs]
    exact ih _ (idx + 1) h2
theorem produceRequest_shape (cid : Bytes) (tag acks : Int) (topic : Bytes) (part : Int) (ps : List Bytes)
    (r : Bytes) (h : produceRequest cid tag acks topic part ps = some r) :
    ∃ body, produceBody acks topic part ps = some body ∧
      inI32 (10 + (cid.length : Int) + (body.length : Int)) = true ∧ inI32 tag = true ∧
      inI16 (cid.length : Int) = true ∧
      r = i32 (10 + (cid.length : Int) + (body.length : Int)) ++ i16 0 ++ i16 0 ++ i32 tag ++
        i16 (cid.length : Int) ++ cid ++ body := by
  unfold produceRequest at h
  cases hb : produceBody acks topic part ps with
  | none => simp [hb] at h
  | some body =>
    simp only [hb] at h
    rw [wireRequest_eq] at h
    split at h
    · rename_i hc
      simp only [Bool.and_eq_true] at hc
      obtain ⟨⟨⟨c1, _⟩, c3⟩, c4⟩ := hc
      injection h with h
      exact ⟨body, rfl, c1, c3, c4, h.symm⟩
    · cases h

theorem lookupTag_of_mem_nodup (fl : List InFlight) (e : InFlight) (hn : (fl.map (·.tag)).Nodup)
    (he : e ∈ fl) : lookupTag e.tag fl = some e := by
  induction fl with
  | nil => cases he
  | cons x xs ih =>
    simp only [List.map_cons, List.nodup_cons] at hn
    unfold lookupTag
    rcases List.mem_cons.1 he with rfl | hm
    · simp
    · have hne : ¬ (x.tag = e.tag) := by
        intro heq
        apply hn.1
        rw [heq]
        exact List.mem_map_of_mem hm
      simp only [hne, if_false]
      exact ih hn.2 hm

theorem removeTag_keeps (fl : List InFlight) (c : Int) (x : InFlight) (hx : x ∈ fl) (hne : x.tag ≠ c) :
    x ∈ removeTag c fl := by
  induction fl with
  | nil => cases hx
  | cons y ys ih =>
    unfold removeTag
    split
    · rename_i hy
      rcases List.mem_cons.1 hx with rfl | hm
      · exact absurd hy hne
      · exact hm
    · rcases List.mem_cons.1 hx with rfl | hm
      · simp
      · exact List.mem_cons_of_mem _ (ih hm)
/-! ### the in-flight map keeps distinct tags -/

theorem lookupTag_none_not_mem (c : Int) (fl : List InFlight) (h : lookupTag c fl = none) :
    c ∉ fl.map (·.tag) := by
  induction fl with
  | nil => simp
  | cons x xs ih =>
    unfold lookupTag at h
    split at h
    · cases h
    · rename_i hne
      simp only [List.map_cons, List.mem_cons, not_or]
      exact ⟨fun e => hne e.symm, ih h⟩

theorem removeTag_sublist (c : Int) (fl : List InFlight) : (removeTag c fl).Sublist fl := by
  induction fl with
  | nil => exact List.Sublist.slnil
  | cons x xs ih =>
    unfold removeTag
    split
    · exact List.sublist_cons_self x xs
    · exact List.Sublist.cons_cons x ih

theorem sendStep_nodup (cfg : Cfg) (st : St) (id : Nat) (tag : Int) (k : Kind) (body : Bytes)
    (hn : (st.inflight.map (·.tag)).Nodup) (h : lookupTag tag st.inflight = none) :
    ((sendStep cfg st id tag k body).1.inflight.map (·.tag)).Nodup := by
  have hs : (sendStep cfg st id tag k body).1.inflight = st.inflight ++ [⟨tag, id, k⟩] := by
    unfold sendStep
    rw [setTag_fresh _ ⟨tag, id, k⟩ h]
    split <;> rfl
  rw [hs]
  simp only [List.map_append, List.map_cons, List.map_nil]
  rw [List.nodup_append]
  refine ⟨hn, by simp, ?_⟩
  intro a ha b hb
  simp at hb
  subst hb
  intro e
  subst e
  exact lookupTag_none_not_mem _ _ h ha

theorem replyStep_inflight (st : St) (fr : Bytes) :
    (replyStep st fr).1.inflight = (routeReply st.inflight fr).1 := by
  unfold replyStep
  cases routeReply st.inflight fr
  rfl

theorem replyStep_nodup (st : St) (fr : Bytes) (hn : (st.inflight.map (·.tag)).Nodup) :
    ((replyStep st fr).1.inflight.map (·.tag)).Nodup := by
  rw [replyStep_inflight]
  unfold routeReply
  split
  · exact hn
  · split
    · exact hn
    · exact List.Nodup.sublist ((removeTag_sublist _ _).map _) hn

theorem step_nodup (cfg : Cfg) (st : St) (op : Op) (hn : (st.inflight.map (·.tag)).Nodup)
    (h : opOk cfg st op = true) : ((step cfg st op).1.inflight.map (·.tag)).Nodup := by
  cases op with
  | put id tag acks topic part ps =>
    unfold opOk at h
    unfold step
    cases hb : produceBody acks topic part ps with
    | none => simpa [hb] using hn
    | some body =>
      simp only [hb, Bool.and_eq_true, Option.isNone_iff_eq_none] at h
      simp only [hb]
      exact sendStep_nodup cfg st id tag .produce body hn h.1.2
  | mdreq id tag =>
    unfold opOk at h
    simp only [Bool.and_eq_true, Option.isNone_iff_eq_none] at h
    exact sendStep_nodup cfg st id tag .metadata metadataBody hn h.1.2
  | presp corr r => exact replyStep_nodup st _ hn
  | mresp corr m => exact replyStep_nodup st _ hn
  | raw corr body => exact replyStep_nodup st _ hn
  | crc bs => exact hn

theorem run_nodup (cfg : Cfg) : ∀ (ops : List Op) (st : St), (st.inflight.map (·.tag)).Nodup →
    opsOk cfg st ops = true → ((run cfg st ops).inflight.map (·.tag)).Nodup := by
  intro ops
  induction ops with
  | nil => intro st hn _; exact hn
  | cons op ops ih =>
    intro st hn h
    simp only [opsOk, Bool.and_eq_true] at h
    exact ih _ (step_nodup cfg st op hn h.1) h.2
/-! ### the CRC is a 32-bit value on byte strings -/

theorem crcBit_lt (c : Nat) (h : c < 4294967296) : crcBit c < 4294967296 := by
  unfold crcBit
  split
  · exact Nat.xor_lt_two_pow (n := 32) (by omega) (by decide)
  · omega

theorem crcByte_lt (c b : Nat) (h : c < 4294967296) (hb : b < 256) : crcByte c b < 4294967296 := by
  unfold crcByte
  have h0 : c ^^^ b < 4294967296 := Nat.xor_lt_two_pow (n := 32) h (by omega)
  exact crcBit_lt _ (crcBit_lt _ (crcBit_lt _ (crcBit_lt _ (crcBit_lt _ (crcBit_lt _ (crcBit_lt _ (crcBit_lt _ h0)))))))

theorem crcUpdate_lt (bs : Bytes) : ∀ (c : Nat), c < 4294967296 → (∀ b ∈ bs, b < 256) →
    crcUpdate c bs < 4294967296 := by
  induction bs with
  | nil => intro c h _; exact h
  | cons b bs ih =>
    intro c h hb
    unfold crcUpdate
    rw [List.foldl_cons]
    exact ih _ (crcByte_lt c b h (hb b (by simp))) (fun x hx => hb x (by simp [hx]))

theorem crc32_lt (bs : Bytes) (h : ∀ b ∈ bs, b < 256) : crc32 bs < 4294967296 := by
  unfold crc32 zcrc
  exact Nat.xor_lt_two_pow (n := 32) (crcUpdate_lt bs _ (by decide) h) (by decide)
end Scales.Kafka
