import ScalesModel.Proofs.HeapMember
import ScalesModel.Adapter.LB
import ScalesModel.Proofs.EmaLemmas

/-!
  Invariants of the aperture model (Model/Aperture.lean) that C05 and C06 rest on:
  * `PInv`: H1 of the heap, and the eligible endpoints `E a` (heap nodes, then idle) are pairwise
    distinct — the two halves of the partition are disjoint and duplicate-free;
  * `LBd`: the active set is at least `min_size` large unless no idle endpoint is left;
  * `LogOk`: every `_AdjustAperture` call logged in the current operation followed the decision table.
  `Stable cfg a a'` says `a'` keeps all of this, has the same eligible endpoints as `a` and the same
  `_servers`; it holds for every function of the model that is not a join or a leave.
-/
namespace Scales.Aperture
open Scales.Heap

/-- the endpoints the balancer can dispatch to -/
def E (a : AS) : List Nat := heapEps a.hs ++ a.idle

structure PInv (cfg : Cfg) (a : AS) : Prop where
  wf : WF a.hs
  nodup : (E a).Nodup
  /-- the plain heap balancer has no idle endpoints and no jitter -/
  kind : cfg.aperture = false → a.idle = [] ∧ a.jitterWait = none

/-- plain heap balancer: nothing is ever idle; aperture: `min_size` active unless nothing is idle -/
def LBd (cfg : Cfg) (a : AS) : Prop := cfg.minSize ≤ a.hs.size ∨ a.idle = []

/-- the decision table of `_AdjustAperture`, as a predicate on what one call saw and did -/
def adjGood (cfg : Cfg) (r : AdjRec) : Prop :=
  (r.size' = r.size + 1 → r.size' ≤ cfg.maxSize) ∧
  (LB.tableExpand cfg r = true → r.size' = r.size + 1) ∧
  (LB.tableExpand cfg r = false → LB.tableContract cfg r = true → r.size' + 1 = r.size) ∧
  (LB.tableExpand cfg r = false → LB.tableContract cfg r = false → r.size' = r.size) ∧
  -- the sample was not taken at an earlier time than the one before it
  0 ≤ r.dt

def LogOk (cfg : Cfg) (a : AS) : Prop := ∀ r ∈ a.adjLog, adjGood cfg r

structure Stable (cfg : Cfg) (a a' : AS) : Prop where
  inv : PInv cfg a'
  mem : ∀ x, x ∈ E a' ↔ x ∈ E a
  servers : a'.hs.servers = a.hs.servers
  lbd : LBd cfg a → LBd cfg a'
  log : LogOk cfg a → LogOk cfg a'

theorem Stable.refl {cfg : Cfg} {a : AS} (h : PInv cfg a) : Stable cfg a a :=
  ⟨h, fun _ => Iff.rfl, rfl, id, id⟩

theorem Stable.trans {cfg : Cfg} {a b c : AS} (h1 : Stable cfg a b) (h2 : Stable cfg b c) : Stable cfg a c :=
  ⟨h2.inv, fun x => (h2.mem x).trans (h1.mem x), h2.servers.trans h1.servers, fun h => h2.lbd (h1.lbd h),
   fun h => h2.log (h1.log h)⟩

/-- only the heap moved, by a rearrangement -/
theorem Stable.of_hframe {cfg : Cfg} {a a' : AS} (inv : PInv cfg a) (h : HFrame a.hs a'.hs) (hi : a'.idle = a.idle)
    (hl : a'.adjLog = a.adjLog) (hj : a'.jitterWait = a.jitterWait) : Stable cfg a a' := by
  have hp : (E a').Perm (E a) := by unfold E; rw [hi]; exact h.eps.append_right _
  refine ⟨⟨h.wf, hp.nodup_iff.2 inv.nodup, by rw [hi, hj]; exact inv.kind⟩, fun x => hp.mem_iff, h.servers, ?_, ?_⟩
  · intro hl; unfold LBd at *; rw [hi, h.size]; exact hl
  · intro h0; unfold LogOk at *; rw [hl]; exact h0

/-- nothing the invariants look at moved -/
theorem Stable.of_same {cfg : Cfg} {a a' : AS} (inv : PInv cfg a) (h : a'.hs = a.hs) (hi : a'.idle = a.idle)
    (hl : a'.adjLog = a.adjLog) (hj : a'.jitterWait = a.jitterWait) : Stable cfg a a' :=
  Stable.of_hframe inv (by rw [h]; exact HFrame.refl inv.wf) hi hl hj

/-! ### `_TryExpandAperture` -/

theorem choose_spec (a : AS) :
    (a.choose).1.hs = a.hs ∧ (a.choose).1.idle = a.idle ∧ (a.choose).1.adjLog = a.adjLog ∧
    (a.choose).1.jitterWait = a.jitterWait ∧
    (match (a.choose).2 with | none => a.idle = [] | some c => c ∈ a.idle) := by
  unfold AS.choose
  split
  · rename_i h; exact ⟨rfl, rfl, rfl, rfl, h⟩
  · rename_i i0 rest h
    split
    · exact ⟨rfl, rfl, rfl, rfl, by rw [h]; exact List.mem_cons_self⟩
    · split
      · rename_i hc; exact ⟨rfl, rfl, rfl, rfl, hc⟩
      · exact ⟨rfl, rfl, rfl, rfl, by rw [h]; exact List.mem_cons_self⟩

@[simp] theorem updVarz_hs (a : AS) : a.updVarz.hs = a.hs := rfl
@[simp] theorem updVarz_idle (a : AS) : a.updVarz.idle = a.idle := rfl
@[simp] theorem updVarz_adjLog (a : AS) : a.updVarz.adjLog = a.adjLog := rfl
@[simp] theorem updVarz_jitterWait (a : AS) : a.updVarz.jitterWait = a.jitterWait := rfl
@[simp] theorem heapAdd_jitterWait (cfg : Cfg) (a : AS) (ep : Nat) : (a.heapAdd cfg ep).jitterWait = a.jitterWait := rfl
@[simp] theorem heapAdd_hs (cfg : Cfg) (a : AS) (ep : Nat) : (a.heapAdd cfg ep).hs = a.hs.addSink ep := rfl
@[simp] theorem heapAdd_idle (cfg : Cfg) (a : AS) (ep : Nat) : (a.heapAdd cfg ep).idle = a.idle := rfl
@[simp] theorem heapAdd_adjLog (cfg : Cfg) (a : AS) (ep : Nat) : (a.heapAdd cfg ep).adjLog = a.adjLog := rfl

theorem addSink_size {s : HS} (hw : WF s) (ep : Nat) : (s.addSink ep).size = s.size + 1 := by
  have := (addSink_spec hw ep).2.1.length_eq
  unfold HS.size; simpa using this

theorem addSink_servers {s : HS} (hw : WF s) (ep : Nat) : (s.addSink ep).servers = s.servers :=
  (addSink_spec hw ep).2.2.2.2.1

/-- moving an idle endpoint into the heap -/
theorem expand_core (cfg : Cfg) {a : AS} (inv : PInv cfg a) (c : Nat) (hc : c ∈ a.idle) (a' : AS)
    (hh : a'.hs = a.hs.addSink c) (hi : a'.idle = a.idle.filter (· ≠ c)) (hl : a'.adjLog = a.adjLog)
    (_hj : a'.jitterWait = a.jitterWait) : Stable cfg a a' := by
  have hw' : WF a'.hs := by rw [hh]; exact (addSink_spec inv.wf c).1
  have hnd := inv.nodup
  unfold E at hnd
  rw [List.nodup_append] at hnd
  obtain ⟨nd1, nd2, dj⟩ := hnd
  have hcn : c ∉ heapEps a.hs := fun h => dj c h c hc rfl
  have hp : (E a').Perm (c :: (heapEps a.hs ++ a.idle.filter (· ≠ c))) := by
    unfold E; rw [hh, hi]
    exact ((addSink_eps inv.wf c).append_right _)
  have hmem : ∀ x, x ∈ E a' ↔ x ∈ E a := by
    intro x
    rw [hp.mem_iff]
    unfold E
    simp only [List.mem_cons, List.mem_append, List.mem_filter, decide_eq_true_eq]
    constructor
    · rintro (rfl | h | ⟨h, _⟩)
      · exact Or.inr hc
      · exact Or.inl h
      · exact Or.inr h
    · rintro (h | h)
      · exact Or.inr (Or.inl h)
      · by_cases e : x = c
        · exact Or.inl e
        · exact Or.inr (Or.inr ⟨h, e⟩)
  refine ⟨⟨hw', ?_, fun hk => by have := (inv.kind hk).1; rw [this] at hc; cases hc⟩, hmem,
    by rw [hh]; exact addSink_servers inv.wf c, ?_, ?_⟩
  · rw [hp.nodup_iff, List.nodup_cons]
    refine ⟨?_, ?_⟩
    · simp only [List.mem_append, List.mem_filter, decide_eq_true_eq]
      rintro (h | ⟨_, h⟩)
      · exact hcn h
      · exact h rfl
    · rw [List.nodup_append]
      refine ⟨nd1, nd2.filter _, ?_⟩
      intro x hx y hy
      exact dj x hx y (List.mem_of_mem_filter hy)
  · intro l2
    unfold LBd at *
    rw [hh, addSink_size inv.wf]
    rcases l2 with l2 | l2
    · left; omega
    · rw [l2] at hc; cases hc
  · intro h0; unfold LogOk at *; rw [hl]; exact h0

theorem filter_ne_length {l : List Nat} (hn : l.Nodup) {c : Nat} (hc : c ∈ l) :
    (l.filter (· ≠ c)).length + 1 = l.length := by
  induction l with
  | nil => cases hc
  | cons x xs ih =>
    rw [List.nodup_cons] at hn
    by_cases e : x = c
    · subst e
      have h1 : xs.filter (· ≠ x) = xs := by
        rw [List.filter_eq_self]; intro y hy
        have : y ≠ x := by rintro rfl; exact hn.1 hy
        simpa using this
      rw [List.filter_cons_of_neg (by simp), h1]; rfl
    · have hc' : c ∈ xs := by
        rcases List.mem_cons.1 hc with h | h
        · exact absurd h.symm e
        · exact h
      have := ih hn.2 hc'
      rw [List.filter_cons_of_pos (by simpa using e)]
      simp only [List.length_cons]; omega

theorem tryExpand_spec (cfg : Cfg) {a : AS} (inv : PInv cfg a) (lp : Bool) :
    Stable cfg a (a.tryExpand cfg lp).1 ∧ (a.tryExpand cfg lp).1.adjLog = a.adjLog ∧
    (a.idle = [] → (a.tryExpand cfg lp).1.hs = a.hs ∧ (a.tryExpand cfg lp).1.idle = []) ∧
    (a.idle ≠ [] → (a.tryExpand cfg lp).1.hs.size = a.hs.size + 1 ∧
      (a.tryExpand cfg lp).1.idle.length + 1 = a.idle.length) := by
  obtain ⟨c1, c2, c3, c5, c4⟩ := choose_spec a
  unfold AS.tryExpand
  split
  · rename_i a0 he
    rw [he] at c1 c2 c3 c4 c5
    simp only at c1 c2 c3 c4 c5
    refine ⟨Stable.of_same inv (by simp [c1]) (by simp [c2]) (by simp [c3]) (by simp [c5]), by simp [c3], ?_, ?_⟩
    · intro _; exact ⟨by simp [c1], by simp [c2, c4]⟩
    · intro h; exact absurd c4 h
  · rename_i a0 c he
    rw [he] at c1 c2 c3 c4 c5
    simp only at c1 c2 c3 c4 c5
    have hnd : a.idle.Nodup := by
      have := inv.nodup; unfold E at this; exact (List.nodup_append.1 this).2.1
    have key : ∀ a' : AS, a'.hs = a.hs.addSink c → a'.idle = a.idle.filter (· ≠ c) → a'.adjLog = a.adjLog →
        a'.jitterWait = a.jitterWait →
        Stable cfg a a' ∧ a'.adjLog = a.adjLog ∧ (a.idle = [] → a'.hs = a.hs ∧ a'.idle = []) ∧
        (a.idle ≠ [] → a'.hs.size = a.hs.size + 1 ∧ a'.idle.length + 1 = a.idle.length) := by
      intro a' hh hi hl hj
      refine ⟨expand_core cfg inv c c4 a' hh hi hl hj, hl, ?_, ?_⟩
      · intro h; rw [h] at c4; cases c4
      · intro _; exact ⟨by rw [hh, addSink_size inv.wf], by rw [hi]; exact filter_ne_length hnd c4⟩
    simp only
    split
    · exact key _ (by simp [c1]) (by simp [c2]) (by simp [c3]) (by simp [c5])
    · exact key _ (by simp [c1]) (by simp [c2]) (by simp [c3]) (by simp [c5])

/-! ### `_ContractAperture` -/

theorem numHealthy_le (a : AS) : a.numHealthy ≤ a.hs.size := by
  unfold AS.numHealthy HS.size; exact List.length_filter_le _ _

theorem contractPick_mem {a : AS} {ep : Nat} (h : a.contractPick = some ep) : ep ∈ heapEps a.hs := by
  unfold AS.contractPick at h
  unfold heapEps
  split at h
  · rename_i id hf
    injection h with h; subst h
    exact List.mem_map.2 ⟨id, List.mem_of_find?_eq_some hf, rfl⟩
  · split at h
    · rename_i id hf
      injection h with h; subst h
      exact List.mem_map.2 ⟨id, List.mem_of_find?_eq_some hf, rfl⟩
    · cases h

theorem contractPick_some {a : AS} (hp : a.pending = []) (hs : 0 < a.hs.size) : a.contractPick ≠ none := by
  unfold AS.contractPick
  split
  · simp
  · split
    · simp
    · rename_i h
      rw [List.find?_eq_none] at h
      unfold HS.size at hs
      obtain ⟨x, hx⟩ := List.exists_mem_of_length_pos hs
      have := h x hx
      simp [hp] at this

theorem removeSink_size {s : HS} (hw : WF s) (ep : Nat) (h : ep ∈ heapEps s) :
    (s.removeSink ep).1.size + 1 = s.size := by
  have := (removeSink_eps hw ep (removeSink_of_mem hw ep h)).length_eq
  rw [List.length_cons, heapEps_length, heapEps_length] at this
  omega

/-- moving an active endpoint to the idle set -/
theorem shrink_core (cfg : Cfg) {a : AS} (inv : PInv cfg a) (hap : cfg.aperture = true) (ep : Nat)
    (hep : ep ∈ heapEps a.hs) (hsz : cfg.minSize < a.hs.size) (a' : AS)
    (hh : a'.hs = (a.hs.removeSink ep).1) (hi : a'.idle = setAdd a.idle ep) (hl : a'.adjLog = a.adjLog) :
    Stable cfg a a' ∧ a'.hs.size + 1 = a.hs.size ∧ a'.idle.length = a.idle.length + 1 := by
  obtain ⟨w', sv, _, _, _⟩ := removeSink_spec inv.wf ep
  have hrm := removeSink_of_mem inv.wf ep hep
  have hp := removeSink_eps inv.wf ep hrm
  have hnd := inv.nodup
  unfold E at hnd
  have hni : ep ∉ a.idle := fun h => (List.nodup_append.1 hnd).2.2 ep hep ep h rfl
  have hi' : a'.idle = a.idle ++ [ep] := by rw [hi]; unfold setAdd; simp [hni]
  have hpe : (E a).Perm (E a') := by
    unfold E; rw [hh, hi']
    refine (hp.append_right _).trans ?_
    simp only [List.cons_append]
    rw [← List.append_assoc]
    exact (List.perm_append_comm (l₁ := [ep])).trans (by simp)
  have hsize := removeSink_size inv.wf ep hep
  refine ⟨⟨⟨by rw [hh]; exact w', hpe.nodup_iff.1 inv.nodup, fun h => by rw [hap] at h; cases h⟩,
    fun x => hpe.mem_iff.symm, by rw [hh]; exact sv, ?_, ?_⟩, by rw [hh]; exact hsize, by rw [hi']; simp⟩
  · intro _
    unfold LBd
    left; rw [hh]; omega
  · intro h0; unfold LogOk at *; rw [hl]; exact h0

theorem contract_spec (cfg : Cfg) {a : AS} (inv : PInv cfg a) (hap : cfg.aperture = true) (force : Bool) :
    Stable cfg a (a.contract cfg force) ∧ (a.contract cfg force).adjLog = a.adjLog ∧
    ((a.pending = [] ∨ force = true) → cfg.minSize < a.numHealthy → a.contractPick ≠ none →
        (a.contract cfg force).hs.size + 1 = a.hs.size ∧ (a.contract cfg force).idle.length = a.idle.length + 1) ∧
    (((a.pending ≠ [] ∧ force = false) ∨ a.numHealthy ≤ cfg.minSize) →
        (a.contract cfg force).hs.size = a.hs.size ∧ (a.contract cfg force).idle = a.idle) := by
  unfold AS.contract
  split
  · rename_i h
    refine ⟨Stable.refl inv, rfl, ?_, fun _ => ⟨rfl, rfl⟩⟩
    intro h1; rcases h1 with h1 | h1
    · exact absurd h1 h.1
    · rw [h1] at h; cases h.2
  · rename_i h
    split
    · rename_i hh
      split
      · rename_i hp
        refine ⟨Stable.refl inv, rfl, fun _ _ hc => absurd hp hc, fun _ => ⟨rfl, rfl⟩⟩
      · rename_i ep hp
        have hep := contractPick_mem hp
        have hlt : cfg.minSize < a.hs.size := lt_of_lt_of_le hh (numHealthy_le a)
        obtain ⟨st, sz, si⟩ := shrink_core cfg inv hap ep hep hlt
          ({ a with idle := setAdd a.idle ep, hs := (a.hs.removeSink ep).1 } : AS).updVarz rfl rfl rfl
        refine ⟨st, rfl, fun _ _ _ => ⟨sz, si⟩, ?_⟩
        rintro (h1 | h1)
        · exact absurd h1 h
        · omega
    · exact ⟨Stable.refl inv, rfl, fun _ hc => absurd hc (by assumption), fun _ => ⟨rfl, rfl⟩⟩

/-! ### `_OnNodeDown`, `_AdjustAperture` -/

theorem onNodeDown_spec (cfg : Cfg) {a : AS} (inv : PInv cfg a) (nid : Nat) :
    Stable cfg a (a.onNodeDown cfg nid).1 ∧ (a.onNodeDown cfg nid).1.adjLog = a.adjLog ∧
    a.hs.size ≤ (a.onNodeDown cfg nid).1.hs.size := by
  unfold AS.onNodeDown
  split
  · obtain ⟨st, lg, h0, h1⟩ := tryExpand_spec cfg inv false
    refine ⟨st, lg, ?_⟩
    by_cases hi : a.idle = []
    · rw [(h0 hi).1]
    · rw [(h1 hi).1]; omega
  · exact ⟨Stable.refl inv, rfl, le_refl _⟩

theorem decision_expand_iff (cfg : Cfg) (a : AS) (avg : Rat) :
    a.decision cfg avg = .expand ↔
      (cfg.maxLoad ≤ apLoad cfg a.hs.size avg ∧ a.idle ≠ [] ∧ a.hs.size < cfg.maxSize) := by
  unfold AS.decision
  simp only
  split
  · simp_all
  · split <;> simp_all

theorem decision_contract_iff (cfg : Cfg) (a : AS) (avg : Rat) :
    a.decision cfg avg = .contract ↔
      (¬ (cfg.maxLoad ≤ apLoad cfg a.hs.size avg ∧ a.idle ≠ [] ∧ a.hs.size < cfg.maxSize) ∧
        apLoad cfg a.hs.size avg ≤ cfg.minLoad ∧ cfg.minSize < a.hs.size) := by
  unfold AS.decision
  simp only
  split
  · simp_all
  · split <;> simp_all

theorem tableExpand_iff (cfg : Cfg) (r : AdjRec) :
    LB.tableExpand cfg r = true ↔ (cfg.maxLoad ≤ apLoad cfg r.size r.avg ∧ 0 < r.idle ∧ r.size < cfg.maxSize) := by
  unfold LB.tableExpand; simp [and_assoc]

theorem tableContract_iff (cfg : Cfg) (r : AdjRec) :
    LB.tableContract cfg r = true ↔ (LB.tableExpand cfg r = false ∧ apLoad cfg r.size r.avg ≤ cfg.minLoad ∧
      cfg.minSize < r.size ∧ r.pend = 0 ∧ cfg.minSize < r.healthy) := by
  unfold LB.tableContract; simp [and_assoc]

theorem adjustWith_spec (cfg : Cfg) {a : AS} (inv : PInv cfg a) (hap : cfg.aperture = true) (amount : Int)
    (i : AdjIn) (rest : List AdjIn) (missing : Bool) : Stable cfg a (a.adjustWith cfg amount i rest missing) := by
  unfold AS.adjustWith
  simp only
  set a1 : AS := { a with total := a.total + amount,
                          ema := some i.avg, clock := MonoClock.sample a.clock i.now,
                          adjIn := rest, bad := a.bad || missing } with ha1
  have s1 : Stable cfg a a1 := Stable.of_same inv rfl rfl rfl rfl
  have hnh : a1.numHealthy = a.numHealthy := rfl
  have hdt : (0 : Rat) ≤ (if a.ema.isSome = true then MonoClock.sample a.clock i.now - a.clock else 0) := by
    split
    · exact sub_nonneg.2 (MonoClock.le_sample _ _)
    · exact le_refl _
  -- the branch taken
  have key : ∀ a2 : AS, Stable cfg a1 a2 → a2.adjLog = a1.adjLog →
      (a1.decision cfg i.avg = .expand → a2.hs.size = a.hs.size + 1) →
      (a1.decision cfg i.avg = .contract → a.pending = [] → cfg.minSize < a.numHealthy → a2.hs.size + 1 = a.hs.size) →
      (a1.decision cfg i.avg = .contract → (a.pending ≠ [] ∨ a.numHealthy ≤ cfg.minSize) → a2.hs.size = a.hs.size) →
      (a1.decision cfg i.avg = .stay → a2.hs.size = a.hs.size) →
      ∀ (ok : Bool) (dt w : Rat) (prev : Option Rat) (sample : Int), 0 ≤ dt →
        Stable cfg a { a2 with adjLog := a2.adjLog ++
        [⟨a.hs.size, a.idle.length, a.pending.length, a.numHealthy, i.avg, a2.hs.size, a2.idle.length, ok,
          dt, w, prev, sample⟩] } := by
    intro a2 s2 hl2 hE hC1 hC2 hS ok dt w prev sample hdt0
    have s12 := s1.trans s2
    refine ⟨⟨s12.inv.wf, s12.inv.nodup, s12.inv.kind⟩, s12.mem, s12.servers, s12.lbd, ?_⟩
    intro h0 r hr
    simp only [List.mem_append, List.mem_singleton] at hr
    rcases hr with hr | hr
    · exact h0 r (by rw [hl2] at hr; exact hr)
    · subst hr
      have hE' := decision_expand_iff cfg a1 i.avg
      have hC' := decision_contract_iff cfg a1 i.avg
      have hidle : a.idle ≠ [] ↔ 0 < a.idle.length := by
        rw [List.length_pos_iff]
      have hpend : a.pending = [] ↔ a.pending.length = 0 := by
        rw [List.length_eq_zero_iff]
      have e1 : a1.hs = a.hs := rfl
      have e2 : a1.idle = a.idle := rfl
      rw [e1, e2] at hE' hC'
      unfold adjGood
      simp only [tableExpand_iff, tableContract_iff, Bool.eq_false_iff, ne_eq, tableExpand_iff]
      cases hd : a1.decision cfg i.avg with
      | expand =>
        have h := hE'.1 hd
        have hsz := hE hd
        refine ⟨fun _ => by omega, fun _ => hsz, ?_, ?_, hdt0⟩
        · intro hne; exact absurd ⟨h.1, hidle.1 h.2.1, h.2.2⟩ hne
        · intro hne; exact absurd ⟨h.1, hidle.1 h.2.1, h.2.2⟩ hne
      | contract =>
        have h := hC'.1 hd
        have hne : ¬ (cfg.maxLoad ≤ apLoad cfg a.hs.size i.avg ∧ 0 < a.idle.length ∧ a.hs.size < cfg.maxSize) := by
          rintro ⟨x, y, z⟩; exact h.1 ⟨x, hidle.2 y, z⟩
        by_cases hc : a.pending = [] ∧ cfg.minSize < a.numHealthy
        · have hsz := hC1 hd hc.1 hc.2
          refine ⟨fun h' => by omega, fun h' => absurd h' hne, fun _ _ => hsz, ?_, hdt0⟩
          intro _ h'
          exact absurd ⟨hne, h.2.1, h.2.2, hpend.1 hc.1, hc.2⟩ h'
        · have hsz := hC2 hd (by
            by_cases hp : a.pending = []
            · right; exact Nat.le_of_not_lt (fun h' => hc ⟨hp, h'⟩)
            · left; exact hp)
          refine ⟨fun h' => by omega, fun h' => absurd h' hne, ?_, fun _ _ => hsz, hdt0⟩
          rintro _ ⟨_, _, _, p, q⟩
          exact absurd ⟨hpend.2 p, q⟩ hc
      | stay =>
        have hsz := hS hd
        have hnE : ¬ (cfg.maxLoad ≤ apLoad cfg a.hs.size i.avg ∧ 0 < a.idle.length ∧ a.hs.size < cfg.maxSize) := by
          rintro ⟨x, y, z⟩
          have := hE'.2 ⟨x, hidle.2 y, z⟩
          rw [hd] at this; cases this
        refine ⟨fun h' => by omega, fun h' => absurd h' hnE, ?_, fun _ _ => hsz, hdt0⟩
        rintro _ ⟨_, p, q, _, _⟩
        have := hC'.2 ⟨fun h' => hnE ⟨h'.1, hidle.1 h'.2.1, h'.2.2⟩, p, q⟩
        rw [hd] at this; cases this
  cases hd : a1.decision cfg i.avg with
  | expand =>
    obtain ⟨st, lg, _, h1⟩ := tryExpand_spec cfg s1.inv false
    have hidle : a1.idle ≠ [] := ((decision_expand_iff cfg a1 i.avg).1 hd).2.1
    exact key _ st lg (fun _ => (h1 hidle).1) (fun h => by rw [hd] at h; cases h)
      (fun h => by rw [hd] at h; cases h) (fun h => by rw [hd] at h; cases h) _ _ _ _ _ hdt
  | contract =>
    obtain ⟨st, lg, h1, h2⟩ := contract_spec cfg s1.inv hap false
    have hsz : cfg.minSize < a.hs.size := ((decision_contract_iff cfg a1 i.avg).1 hd).2.2
    refine key _ st lg (fun h => by rw [hd] at h; cases h) ?_ ?_ (fun h => by rw [hd] at h; cases h) _ _ _ _ _ hdt
    · intro _ hp hh
      exact (h1 (Or.inl hp) hh (contractPick_some hp (by show 0 < a.hs.size; omega))).1
    · rintro _ (hp | hh)
      · exact (h2 (Or.inl ⟨hp, rfl⟩)).1
      · exact (h2 (Or.inr hh)).1
  | stay =>
    exact key _ (Stable.refl s1.inv) rfl (fun h => by rw [hd] at h; cases h) (fun h => by rw [hd] at h; cases h)
      (fun h => by rw [hd] at h; cases h) (fun _ => rfl) _ _ _ _ _ hdt
theorem adjust_spec (cfg : Cfg) {a : AS} (inv : PInv cfg a) (hap : cfg.aperture = true) (amount : Int) :
    Stable cfg a (a.adjust cfg amount) := by
  unfold AS.adjust
  split
  · exact adjustWith_spec cfg inv hap amount _ _ _
  · exact adjustWith_spec cfg inv hap amount _ _ _

/-! ### `__Get`, request, completion, channel state -/

theorem withDown_HFrame {s : HS} (hw : WF s) (d : List Nat) : HFrame s { s with down := d } :=
  HFrame_of_same hw rfl rfl (fun _ => rfl) (fun _ => rfl) rfl

theorem withReqs_HFrame {s : HS} (hw : WF s) (d : List (Nat × Bool)) : HFrame s { s with reqs := d } :=
  HFrame_of_same hw rfl rfl (fun _ => rfl) (fun _ => rfl) rfl

theorem getLoop_spec (cfg : Cfg) (fuel : Nat) : ∀ {a : AS}, PInv cfg a →
    Stable cfg a (a.getLoop cfg fuel).1 ∧ (a.getLoop cfg fuel).1.adjLog = a.adjLog ∧
    a.hs.size ≤ (a.getLoop cfg fuel).1.hs.size ∧
    (1 ≤ a.hs.size → InHeap (a.getLoop cfg fuel).1.hs (a.getLoop cfg fuel).2) := by
  induction fuel with
  | zero =>
    intro a inv
    unfold AS.getLoop
    exact ⟨Stable.refl inv, rfl, le_refl _, fun h => ⟨1, le_refl _, h, rfl⟩⟩
  | succ fuel ih =>
    intro a inv
    unfold AS.getLoop
    simp only
    have f1 := scan_HFrame inv.wf a.hs.down
    have f2 := f1.trans (withDown_HFrame f1.wf (a.hs.scan a.hs.down).2)
    set s1 : HS := { (a.hs.scan a.hs.down).1 with down := (a.hs.scan a.hs.down).2 } with hs1
    split
    · refine ⟨Stable.of_hframe inv f2 rfl rfl rfl, rfl, by rw [f2.size], ?_⟩
      intro h
      exact ⟨1, le_refl _, by show 1 ≤ s1.size; rw [f2.size]; exact h, rfl⟩
    · have f3 := f2.trans (setNode_HFrame f2.wf (s1.idAt 1)
        { s1.node (s1.idAt 1) with load := (s1.node (s1.idAt 1)).load + Penalty } rfl rfl)
      set s2 := s1.setNode (s1.idAt 1) { s1.node (s1.idAt 1) with load := (s1.node (s1.idAt 1)).load + Penalty } with hs2
      have f4 := f3.trans (withDown_HFrame f3.wf (s1.idAt 1 :: s2.down))
      set s3 : HS := { s2 with down := s1.idAt 1 :: s2.down } with hs3
      have f5 := f4.trans (fixDown_HFrame f4.wf 1 s3.size (le_refl _))
      have st1 : Stable cfg a { a with hs := s3.fixDown 1 s3.size } := Stable.of_hframe inv f5 rfl rfl rfl
      obtain ⟨st2, lg2, sz2⟩ := onNodeDown_spec cfg st1.inv (s1.idAt 1)
      obtain ⟨st3, lg3, sz3, ih3⟩ := ih st2.inv
      refine ⟨(st1.trans st2).trans st3, by rw [lg3, lg2], ?_, ?_⟩
      · have : ({ a with hs := s3.fixDown 1 s3.size } : AS).hs.size = a.hs.size := f5.size
        omega
      · intro h
        apply ih3
        have : ({ a with hs := s3.fixDown 1 s3.size } : AS).hs.size = a.hs.size := f5.size
        omega

theorem get_spec (cfg : Cfg) {a : AS} (inv : PInv cfg a) :
    Stable cfg a (a.get cfg).1 ∧
    (∀ nid ep r, (a.get cfg).2 = .node nid ep r → ep ∈ E (a.get cfg).1) := by
  unfold AS.get
  split
  · exact ⟨Stable.refl inv, fun _ _ _ h => by cases h⟩
  · rename_i hsz
    simp only
    obtain ⟨st1, lg1, _, hin⟩ := getLoop_spec cfg (a.hs.nodes.length + a.idle.length + 1) inv
    set g := a.getLoop cfg (a.hs.nodes.length + a.idle.length + 1) with hg
    have f1 := setNode_HFrame st1.inv.wf g.2 { g.1.hs.node g.2 with load := (g.1.hs.node g.2).load + 1 } rfl rfl
    set s2 := g.1.hs.setNode g.2 { g.1.hs.node g.2 with load := (g.1.hs.node g.2).load + 1 } with hs2
    have f2 := f1.trans (fixDown_HFrame f1.wf (s2.node g.2).index.toNat s2.size (le_refl _))
    set s3 := s2.fixDown (s2.node g.2).index.toNat s2.size with hs3
    have f3 := f2.trans (withReqs_HFrame f2.wf (s3.reqs ++ [(g.2, false)]))
    have st2 : Stable cfg g.1 { g.1 with hs := { s3 with reqs := s3.reqs ++ [(g.2, false)] } } :=
      Stable.of_hframe st1.inv f3 rfl rfl rfl
    have hmem : (g.1.hs.node g.2).ep ∈ E g.1 := by
      have := hin (by omega)
      unfold E heapEps
      exact List.mem_append_left _ (List.mem_map.2 ⟨g.2, (mem_heap_iff _ _).2 this, rfl⟩)
    split
    · rename_i hap
      have st3 := adjust_spec cfg st2.inv hap 1
      refine ⟨(st1.trans st2).trans st3, ?_⟩
      intro nid ep r h
      injection h with _ h2 _
      rw [← h2, st3.mem, st2.mem]; exact hmem
    · refine ⟨st1.trans st2, ?_⟩
      intro nid ep r h
      injection h with _ h2 _
      rw [← h2, st2.mem]; exact hmem

theorem put_spec (cfg : Cfg) {a : AS} (inv : PInv cfg a) (r j : Nat) : Stable cfg a (a.put cfg r j) := by
  unfold AS.put
  split
  · exact Stable.of_same inv rfl rfl rfl rfl
  · exact Stable.refl inv
  · rename_i nid hr
    simp only
    have hj' : ∀ nid', a.hs.reqs[r]? = some (nid', false) → a.hs.putDraws nid' = true →
        1 ≤ putDraw a.hs nid j ∧ putDraw a.hs nid j ≤ a.hs.size := by
      intro nid' h1 h2
      rw [hr] at h1
      injection h1 with h1; injection h1 with h1 _; subst h1
      unfold putDraw
      by_cases hl : putLegal a.hs nid j = true
      · rw [if_pos hl]; unfold putLegal at hl; simpa [h2] using hl
      · rw [if_neg hl, if_pos h2]
        unfold HS.putDraws at h2
        simp only [Bool.and_eq_true, decide_eq_true_eq] at h2
        omega
    have st1 : Stable cfg a { (if putLegal a.hs nid j = true then a else { a with bad := true }) with
        hs := a.hs.put r (putDraw a.hs nid j) } := by
      apply Stable.of_hframe inv (put_HFrame inv.wf r _ hj')
      · split <;> rfl
      · split <;> rfl
      · split <;> rfl
    split
    · rename_i hap
      exact st1.trans (adjust_spec cfg st1.inv hap (-1))
    · exact st1

theorem setChan_spec (cfg : Cfg) {a : AS} (inv : PInv cfg a) (nid st : Nat) : Stable cfg a (a.setChan nid st) := by
  unfold AS.setChan
  split
  · exact Stable.of_hframe inv (setChan_HFrame inv.wf nid st) rfl rfl rfl
  · exact Stable.of_same inv rfl rfl rfl rfl

/-! ### open results, `_Jitter`, the hub running dry -/

theorem opened_spec (cfg : Cfg) {a : AS} (inv : PInv cfg a) (nid : Nat) (ok : Bool) :
    Stable cfg a (a.opened cfg nid ok) := by
  unfold AS.opened
  split
  · exact Stable.of_same inv rfl rfl rfl rfl
  · split
    · exact Stable.of_same inv rfl rfl rfl rfl
    · obtain ⟨st, _, _⟩ := onNodeDown_spec cfg inv nid
      exact st.trans (Stable.of_same st.inv rfl rfl rfl rfl)

theorem jitterEnd_spec (cfg : Cfg) {a : AS} (inv : PInv cfg a) (hap : cfg.aperture = true) (nid : Nat) :
    Stable cfg a (a.jitterEnd cfg nid) := by
  unfold AS.jitterEnd
  obtain ⟨st, _, _, _⟩ := contract_spec cfg inv hap true
  refine st.trans ?_
  refine ⟨⟨st.inv.wf, st.inv.nodup, fun h => by rw [hap] at h; cases h⟩, fun _ => Iff.rfl, rfl, id, id⟩

theorem jitterEnd_of_same (cfg : Cfg) {a : AS} (inv : PInv cfg a) (hap : cfg.aperture = true) (b : AS)
    (h1 : b.hs = a.hs) (h2 : b.idle = a.idle) (h3 : b.adjLog = a.adjLog) (h4 : b.jitterWait = a.jitterWait)
    (nid : Nat) : Stable cfg a (b.jitterEnd cfg nid) :=
  have s1 : Stable cfg a b := Stable.of_same inv h1 h2 h3 h4
  s1.trans (jitterEnd_spec cfg s1.inv hap nid)

theorem jitterStart_spec (cfg : Cfg) {a : AS} (inv : PInv cfg a) : Stable cfg a (a.jitterStart cfg) := by
  unfold AS.jitterStart
  split
  · exact Stable.of_same inv rfl rfl rfl rfl
  · rename_i h
    have hap : cfg.aperture = true := by
      cases hc : cfg.aperture
      · exact absurd (Or.inl hc) h
      · rfl
    obtain ⟨st, _, _, _⟩ := tryExpand_spec cfg inv true
    simp only
    split
    · exact st
    · split
      · refine st.trans (jitterEnd_of_same cfg st.inv hap _ ?_ ?_ ?_ ?_ _) <;> rfl
      · exact st.trans ⟨⟨st.inv.wf, st.inv.nodup, fun h => by rw [hap] at h; cases h⟩, fun _ => Iff.rfl, rfl, id, id⟩

theorem fire_spec (cfg : Cfg) {a : AS} (inv : PInv cfg a) (nid : Nat) :
    Stable cfg a (a.fire nid) ∧ (a.fire nid).jitterWait = a.jitterWait ∧ (a.fire nid).initialNodes = a.initialNodes := by
  unfold AS.fire
  simp only
  split
  · exact ⟨Stable.of_same inv rfl rfl rfl rfl, rfl, rfl⟩
  · exact ⟨Stable.of_same inv rfl rfl rfl rfl, rfl, rfl⟩

theorem foldl_fire_spec (cfg : Cfg) (ids : List Nat) : ∀ {a : AS}, PInv cfg a →
    Stable cfg a (ids.foldl AS.fire a) ∧ (ids.foldl AS.fire a).jitterWait = a.jitterWait := by
  induction ids with
  | nil => intro a inv; exact ⟨Stable.refl inv, rfl⟩
  | cons x xs ih =>
    intro a inv
    obtain ⟨s1, j1, _⟩ := fire_spec cfg inv x
    obtain ⟨s2, j2⟩ := ih s1.inv
    exact ⟨s1.trans s2, j2.trans j1⟩

theorem jitterStep_spec (cfg : Cfg) {a : AS} (inv : PInv cfg a) (ids : List Nat) :
    Stable cfg a (match a.jitterWait with
      | some nid => if ids.contains nid then a.jitterEnd cfg nid else a
      | none => a) := by
  cases hj : a.jitterWait with
  | none => exact Stable.refl inv
  | some nid =>
    simp only
    split
    · have hap : cfg.aperture = true := by
        cases hc : cfg.aperture
        · have := (inv.kind hc).2; rw [hj] at this; cases this
        · rfl
      exact jitterEnd_spec cfg inv hap nid
    · exact Stable.refl inv

theorem settleRound_spec (cfg : Cfg) {a : AS} (inv : PInv cfg a) : Stable cfg a (a.settleRound cfg).1 := by
  unfold AS.settleRound
  simp only
  obtain ⟨s1, j1⟩ := foldl_fire_spec cfg
    ((List.range a.on.length).filter (fun i => !(a.onOf i).done && a.arReady i)) inv
  set ids := (List.range a.on.length).filter (fun i => !(a.onOf i).done && a.arReady i) with hids
  set a1 := ids.foldl AS.fire a with ha1
  have s2 : Stable cfg a1 (if (!a1.openAr && ids.any (fun i => a1.initialNodes.contains i)) = true
      then { a1 with openAr := true } else a1) := by
    split
    · exact Stable.of_same s1.inv rfl rfl rfl rfl
    · exact Stable.refl s1.inv
  exact s1.trans (s2.trans (jitterStep_spec cfg s2.inv ids))

theorem settleN_spec (cfg : Cfg) (fuel : Nat) : ∀ {a : AS}, PInv cfg a → Stable cfg a (a.settleN cfg fuel) := by
  induction fuel with
  | zero => intro a inv; exact Stable.refl inv
  | succ n ih =>
    intro a inv
    unfold AS.settleN
    simp only
    have s1 := settleRound_spec cfg inv
    split
    · exact s1.trans (ih s1.inv)
    · exact s1

theorem settle_spec (cfg : Cfg) {a : AS} (inv : PInv cfg a) : Stable cfg a (a.settle cfg) :=
  settleN_spec cfg _ inv

theorem openInitial_spec (cfg : Cfg) {a : AS} (inv : PInv cfg a) : Stable cfg a (a.openInitial cfg) := by
  unfold AS.openInitial
  exact Stable.of_same inv rfl rfl rfl rfl

/-! ### joins and leaves as the subclass sees them -/

/-- a join reaches the subclass: the new endpoint becomes eligible, nothing else changes -/
theorem addSink_member (cfg : Cfg) {a : AS} (inv : PInv cfg a) (ep : Nat) (hep : ep ∉ E a) :
    PInv cfg (a.addSink cfg ep) ∧ (∀ x, x ∈ E (a.addSink cfg ep) ↔ x ∈ E a ∨ x = ep) ∧
    (a.addSink cfg ep).hs.servers = a.hs.servers ∧ (LBd cfg a → LBd cfg (a.addSink cfg ep)) ∧
    (LogOk cfg a → LogOk cfg (a.addSink cfg ep)) := by
  have hnd := inv.nodup
  have heap_case : ∀ a' : AS, a'.hs = a.hs.addSink ep → a'.idle = a.idle → a'.adjLog = a.adjLog →
      a'.jitterWait = a.jitterWait →
      PInv cfg a' ∧ (∀ x, x ∈ E a' ↔ x ∈ E a ∨ x = ep) ∧ a'.hs.servers = a.hs.servers ∧
      (LBd cfg a → LBd cfg a') ∧ (LogOk cfg a → LogOk cfg a') := by
    intro a' hh hi hl hj
    have hp : (E a').Perm (ep :: E a) := by
      unfold E; rw [hh, hi]; exact (addSink_eps inv.wf ep).append_right _
    refine ⟨⟨by rw [hh]; exact (addSink_spec inv.wf ep).1, ?_, by rw [hi, hj]; exact inv.kind⟩, ?_,
      by rw [hh]; exact addSink_servers inv.wf ep, ?_, ?_⟩
    · rw [hp.nodup_iff, List.nodup_cons]; exact ⟨hep, hnd⟩
    · intro x; rw [hp.mem_iff, List.mem_cons]; tauto
    · intro h; unfold LBd at *; rw [hh, hi, addSink_size inv.wf]
      rcases h with h | h
      · left; omega
      · right; exact h
    · intro h0; unfold LogOk at *; rw [hl]; exact h0
  unfold AS.addSink
  split
  · rename_i hap
    split
    · exact heap_case _ rfl rfl rfl rfl
    · rename_i hh
      have hni : ep ∉ a.idle := fun h => hep (by unfold E; exact List.mem_append_right _ h)
      have hi' : setAdd a.idle ep = a.idle ++ [ep] := by unfold setAdd; simp [hni]
      have hp : (E ({ a with idle := setAdd a.idle ep } : AS).updVarz).Perm (ep :: E a) := by
        unfold E
        simp only [updVarz_hs, updVarz_idle, hi']
        rw [← List.append_assoc]
        exact List.perm_append_comm (l₁ := heapEps a.hs ++ a.idle) (l₂ := [ep])
      refine ⟨⟨inv.wf, ?_, fun h => by rw [hap] at h; cases h⟩, ?_, rfl, ?_, ?_⟩
      · rw [hp.nodup_iff, List.nodup_cons]; exact ⟨hep, hnd⟩
      · intro x; rw [hp.mem_iff, List.mem_cons]; tauto
      · intro _; unfold LBd; left
        show cfg.minSize ≤ a.hs.size
        have := numHealthy_le a
        omega
      · intro h0; exact h0
  · exact heap_case _ rfl rfl rfl rfl

/-- a leave reaches the subclass: the endpoint stops being eligible, nothing else changes -/
theorem removeSink_member (cfg : Cfg) {a : AS} (inv : PInv cfg a) (ep : Nat) :
    PInv cfg (a.removeSink cfg ep) ∧ (∀ x, x ∈ E (a.removeSink cfg ep) ↔ (x ∈ E a ∧ x ≠ ep)) ∧
    (a.removeSink cfg ep).hs.servers = a.hs.servers ∧ (LBd cfg a → LBd cfg (a.removeSink cfg ep)) ∧
    (LogOk cfg a → LogOk cfg (a.removeSink cfg ep)) := by
  have hnd := inv.nodup
  obtain ⟨w', sv, _, _, _⟩ := removeSink_spec inv.wf ep
  -- the heap part, common to both balancers
  have hE1 : (E { a with hs := (a.hs.removeSink ep).1 }).Nodup ∧
      (∀ x, x ∈ heapEps (a.hs.removeSink ep).1 ↔ (x ∈ heapEps a.hs ∧ x ≠ ep)) := by
    by_cases hr : (a.hs.removeSink ep).2 = true
    · have hp := removeSink_eps inv.wf ep hr
      have hnd' : (ep :: (heapEps (a.hs.removeSink ep).1 ++ a.idle)).Nodup := by
        have : (E a).Perm (ep :: (heapEps (a.hs.removeSink ep).1 ++ a.idle)) := by
          unfold E; exact hp.append_right _
        exact this.nodup_iff.1 hnd
      rw [List.nodup_cons] at hnd'
      refine ⟨hnd'.2, ?_⟩
      intro x
      rw [hp.mem_iff, List.mem_cons]
      constructor
      · intro h
        refine ⟨Or.inr h, ?_⟩
        rintro rfl
        exact hnd'.1 (List.mem_append_left _ h)
      · rintro ⟨h | h, hne⟩
        · exact absurd h hne
        · exact h
    · obtain ⟨e, hn⟩ := removeSink_false inv.wf ep (by simpa using hr)
      rw [e]
      refine ⟨hnd, fun x => ⟨fun h => ⟨h, ?_⟩, fun h => h.1⟩⟩
      rintro rfl; exact hn h
  obtain ⟨hE1, hE2⟩ := hE1
  unfold AS.removeSink
  split
  · rename_i hap
    simp only
    set a1 : AS := { a with hs := (a.hs.removeSink ep).1 } with ha1
    have inv1 : PInv cfg a1 := ⟨w', hE1, fun h => by rw [hap] at h; cases h⟩
    have s2 : Stable cfg a1 (if (a.hs.removeSink ep).2 = true then (a1.tryExpand cfg false).1 else a1) ∧
        (LBd cfg a → LBd cfg (if (a.hs.removeSink ep).2 = true then (a1.tryExpand cfg false).1 else a1)) := by
      split
      · rename_i hr
        obtain ⟨st, _, h0, h1⟩ := tryExpand_spec cfg inv1 false
        refine ⟨st, ?_⟩
        intro hl
        unfold LBd at *
        by_cases hi : a1.idle = []
        · right; exact (h0 hi).2
        · rcases hl with hl | hl
          · left
            rw [(h1 hi).1]
            have hmem : ep ∈ heapEps a.hs := by
              by_contra hc
              have := removeSink_false inv.wf ep ?_
              · exact hc (by
                  have h2 := removeSink_eps inv.wf ep hr
                  exact h2.mem_iff.2 List.mem_cons_self)
              · by_contra hc2
                exact hc ((removeSink_eps inv.wf ep hr).mem_iff.2 List.mem_cons_self)
            have := removeSink_size inv.wf ep hmem
            show cfg.minSize ≤ (a.hs.removeSink ep).1.size + 1
            omega
          · exact absurd hl hi
      · rename_i hr
        refine ⟨Stable.refl inv1, ?_⟩
        intro hl
        unfold LBd at *
        have e := (removeSink_false inv.wf ep (by simpa using hr)).1
        show cfg.minSize ≤ (a.hs.removeSink ep).1.size ∨ a.idle = []
        rw [e]; exact hl
    obtain ⟨s2, l2⟩ := s2
    set a2 := (if (a.hs.removeSink ep).2 = true then (a1.tryExpand cfg false).1 else a1) with ha2
    have hnd2 := s2.inv.nodup
    have hsub : (E ({ a2 with idle := a2.idle.filter (· ≠ ep) } : AS).updVarz).Sublist (E a2) := by
      unfold E
      simp only [updVarz_hs, updVarz_idle]
      exact List.Sublist.append_left List.filter_sublist _
    refine ⟨⟨s2.inv.wf, hnd2.sublist hsub, fun h => by rw [hap] at h; cases h⟩, ?_, ?_, ?_, ?_⟩
    · intro x
      have hm := s2.mem x
      have hx : x ∈ E ({ a2 with idle := a2.idle.filter (· ≠ ep) } : AS).updVarz ↔ (x ∈ heapEps a2.hs ∨ (x ∈ a2.idle ∧ x ≠ ep)) := by
        unfold E; simp [List.mem_filter]
      rw [hx]
      have hE1' : ∀ y, y ∈ E a1 ↔ (y ∈ E a ∧ y ≠ ep) ∨ (y ∈ a.idle) := by
        intro y
        unfold E
        simp only [List.mem_append]
        show (y ∈ heapEps (a.hs.removeSink ep).1 ∨ y ∈ a.idle) ↔ _
        rw [hE2 y]
        constructor
        · rintro (h | h)
          · exact Or.inl ⟨Or.inl h.1, h.2⟩
          · exact Or.inr h
        · rintro (⟨h | h, hne⟩ | h)
          · exact Or.inl ⟨h, hne⟩
          · exact Or.inr h
          · exact Or.inr h
      -- `ep` itself is never in the heap afterwards
      have hepn : ep ∉ heapEps a2.hs := by
        by_cases hr : (a.hs.removeSink ep).2 = true
        · have hp := removeSink_eps inv.wf ep hr
          have hmem : ep ∈ heapEps a.hs := hp.mem_iff.2 List.mem_cons_self
          have hni : ep ∉ a.idle := fun h => (List.nodup_append.1 hnd).2.2 ep hmem ep h rfl
          have : ep ∉ E a1 := by
            rw [hE1']; rintro (⟨_, h⟩ | h)
            · exact h rfl
            · exact hni h
          intro hc
          exact this ((s2.mem ep).1 (by unfold E; exact List.mem_append_left _ hc))
        · have e : a2 = a1 := by rw [ha2]; simp [hr]
          rw [e]
          show ep ∉ heapEps (a.hs.removeSink ep).1
          intro hc; exact ((hE2 ep).1 hc).2 rfl
      have hE2' : x ∈ E a2 ↔ (x ∈ heapEps a2.hs ∨ x ∈ a2.idle) := by unfold E; simp
      constructor
      · rintro (h | ⟨h, hne⟩)
        · have hne : x ≠ ep := by rintro rfl; exact hepn h
          have := (hE1' x).1 (hm.1 (hE2'.2 (Or.inl h)))
          rcases this with h' | h'
          · exact h'
          · exact ⟨by unfold E; exact List.mem_append_right _ h', hne⟩
        · have := (hE1' x).1 (hm.1 (hE2'.2 (Or.inr h)))
          rcases this with h' | h'
          · exact h'
          · exact ⟨by unfold E; exact List.mem_append_right _ h', hne⟩
      · rintro ⟨h, hne⟩
        have := hE2'.1 (hm.2 ((hE1' x).2 (Or.inl ⟨h, hne⟩)))
        rcases this with h' | h'
        · exact Or.inl h'
        · exact Or.inr ⟨h', hne⟩
    · show a2.hs.servers = a.hs.servers
      rw [s2.servers]; exact sv
    · intro hl
      have := l2 hl
      unfold LBd at *
      rcases this with h | h
      · left; exact h
      · right; show a2.idle.filter (· ≠ ep) = []; rw [h]; rfl
    · intro h0
      have : LogOk cfg a1 := h0
      exact s2.log this
  · rename_i hap
    have hap' : cfg.aperture = false := by simpa using hap
    have hidle := (inv.kind hap').1
    refine ⟨⟨w', hE1, inv.kind⟩, ?_, sv, ?_, fun h => h⟩
    · intro x
      unfold E
      simp only [hidle, List.append_nil]
      exact hE2 x
    · intro _; unfold LBd; right; exact hidle

end Scales.Aperture
