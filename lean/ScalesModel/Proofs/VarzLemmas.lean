/-
  Proofs/VarzLemmas.lean — helper lemmas for C18 (Model/Varz.lean, Adapter/Varz.lean).
-/
import ScalesModel.Adapter.Varz
import Mathlib.Tactic.Linarith
import Mathlib.Tactic.Ring
namespace Scales.Varz

/-! ### firstOcc -/

theorem mem_firstOcc {α : Type} [DecidableEq α] (l : List α) (a : α) : a ∈ firstOcc l ↔ a ∈ l := by
  induction l with
  | nil => simp [firstOcc]
  | cons x xs ih =>
    simp only [firstOcc, List.mem_cons, List.mem_filter, ih]
    by_cases h : a = x
    · simp [h]
    · simp [h]

theorem nodup_firstOcc {α : Type} [DecidableEq α] (l : List α) : (firstOcc l).Nodup := by
  induction l with
  | nil => simp [firstOcc]
  | cons x xs ih =>
    simp only [firstOcc, List.nodup_cons, List.mem_filter]
    exact ⟨by simp, ih.filter _⟩

theorem firstOcc_snoc {α : Type} [DecidableEq α] (l : List α) (a : α) :
    firstOcc (l ++ [a]) = if a ∈ l then firstOcc l else firstOcc l ++ [a] := by
  induction l with
  | nil => simp [firstOcc]
  | cons x xs ih =>
    simp only [List.cons_append, firstOcc, ih]
    by_cases h : a = x
    · subst h
      by_cases h2 : a ∈ xs
      · simp [h2]
      · simp [h2, List.filter_append]
    · by_cases h2 : a ∈ xs
      · simp [h2]
      · simp [h, h2, List.filter_append]

/-! ### the insertion-ordered dictionary -/

theorem lookup_upd (k k' : Nat × Source) (f : Option Cell → Cell) (st : Store) :
    lookup k (upd k' f st) = if k' = k then some (f (lookup k st)) else lookup k st := by
  induction st with
  | nil => by_cases h : k' = k <;> simp [upd, lookup, h]
  | cons e rest ih =>
    obtain ⟨ke, c⟩ := e
    by_cases h1 : ke = k'
    · subst h1
      by_cases h2 : ke = k
      · subst h2; simp [upd, lookup]
      · simp [upd, lookup, h2]
    · by_cases h2 : k' = k
      · subst h2; simp [upd, lookup, h1, ih]
      · simp [upd, lookup, h1, h2, ih]

/-- the sources of metric `m` in insertion order -/
def srcKeys (m : Nat) : Store → List Source
  | [] => []
  | ((m', s), _) :: rest => if m' = m then s :: srcKeys m rest else srcKeys m rest

theorem seriesOf_cons (m : Nat) (k : Nat × Source) (c : Cell) (rest : Store) :
    seriesOf m ((k, c) :: rest) = if k.1 = m then (k.2, c) :: seriesOf m rest else seriesOf m rest := by
  by_cases h : k.1 = m <;> simp [seriesOf, List.filter_cons, h]

theorem srcKeys_eq (m : Nat) (st : Store) : (seriesOf m st).map (·.1) = srcKeys m st := by
  induction st with
  | nil => simp [seriesOf, srcKeys]
  | cons e rest ih =>
    obtain ⟨⟨me, se⟩, c⟩ := e
    rw [seriesOf_cons]
    by_cases h : me = m <;> simp [srcKeys, h, ih]

theorem nSeries_eq (m : Nat) (st : Store) : nSeries m st = (srcKeys m st).length := by
  rw [← srcKeys_eq]; simp [nSeries]

theorem upd_cons_eq (k : Nat × Source) (f : Option Cell → Cell) (c : Cell) (rest : Store) :
    upd k f ((k, c) :: rest) = (k, f (some c)) :: rest := by
  simp [upd]

theorem upd_cons_ne (k k' : Nat × Source) (f : Option Cell → Cell) (c : Cell) (rest : Store)
    (h : k' ≠ k) : upd k f ((k', c) :: rest) = (k', c) :: upd k f rest := by
  simp [upd, h]

theorem seriesOf_upd_other (m m' : Nat) (s : Source) (f : Option Cell → Cell) (st : Store)
    (h : m' ≠ m) : seriesOf m (upd (m', s) f st) = seriesOf m st := by
  induction st with
  | nil => simp [upd, seriesOf, h]
  | cons e rest ih =>
    obtain ⟨k, c⟩ := e
    by_cases h1 : k = (m', s)
    · subst h1
      rw [upd_cons_eq, seriesOf_cons, seriesOf_cons]
      simp [h]
    · rw [upd_cons_ne _ _ _ _ _ h1, seriesOf_cons, seriesOf_cons, ih]

theorem srcKeys_upd_same (m : Nat) (s : Source) (f : Option Cell → Cell) (st : Store) :
    srcKeys m (upd (m, s) f st) =
      if s ∈ srcKeys m st then srcKeys m st else srcKeys m st ++ [s] := by
  induction st with
  | nil => simp [upd, srcKeys]
  | cons e rest ih =>
    obtain ⟨⟨me, se⟩, c⟩ := e
    by_cases h1 : (me, se) = (m, s)
    · rw [h1, upd_cons_eq]
      simp [srcKeys]
    · rw [upd_cons_ne _ _ _ _ _ h1]
      by_cases h2 : me = m
      · subst h2
        have hs : s ≠ se := fun hh => h1 (by rw [hh])
        simp only [srcKeys, if_true, ih, List.mem_cons, hs, false_or]
        split <;> simp
      · simp only [srcKeys, h2, if_false, ih]

theorem srcKeys_upd (m m' : Nat) (s : Source) (f : Option Cell → Cell) (st : Store) :
    srcKeys m (upd (m', s) f st) =
      if m' = m then (if s ∈ srcKeys m st then srcKeys m st else srcKeys m st ++ [s])
      else srcKeys m st := by
  by_cases h : m' = m
  · subst h; simp [srcKeys_upd_same]
  · simp only [h, if_false]
    rw [← srcKeys_eq, ← srcKeys_eq, seriesOf_upd_other m m' s f st h]

theorem lookup_some_mem (m : Nat) (s : Source) (c : Cell) (st : Store)
    (h : lookup (m, s) st = some c) : (s, c) ∈ seriesOf m st := by
  induction st with
  | nil => simp [lookup] at h
  | cons e rest ih =>
    obtain ⟨⟨me, se⟩, ce⟩ := e
    rw [seriesOf_cons]
    by_cases h1 : (me, se) = (m, s)
    · obtain ⟨rfl, rfl⟩ := Prod.mk.inj h1
      simp [lookup] at h
      subst h
      simp
    · simp only [lookup, h1, if_false] at h
      have := ih h
      split
      · exact List.mem_cons_of_mem _ this
      · exact this

theorem mem_srcKeys_lookup (m : Nat) (s : Source) (st : Store) (h : s ∈ srcKeys m st) :
    ∃ c, lookup (m, s) st = some c := by
  induction st with
  | nil => simp [srcKeys] at h
  | cons e rest ih =>
    obtain ⟨⟨me, se⟩, ce⟩ := e
    by_cases h1 : (me, se) = (m, s)
    · exact ⟨ce, by simp [lookup, h1]⟩
    · simp only [lookup, h1, if_false]
      apply ih
      simp only [srcKeys] at h
      split at h
      · rename_i hm
        simp only [List.mem_cons] at h
        rcases h with h | h
        · exfalso; apply h1; rw [hm, h]
        · exact h
      · exact h

/-! ### sums -/

theorem withKey_cons (K : Key) (s : Source) (c : Cell) (ser : List (Source × Cell)) :
    withKey K ((s, c) :: ser) = if s.key = K then (s, c) :: withKey K ser else withKey K ser := by
  by_cases h : s.key = K <;> simp [withKey, List.filter_cons, h]

theorem sumCells_cons (e : Source × Cell) (l : List (Source × Cell)) :
    sumCells (e :: l) = cellNum e.2 + sumCells l := by
  simp [sumCells]

theorem aggTotal_cons (m : Nat) (K : Key) (k : Nat × Source) (c : Cell) (rest : Store) :
    aggTotal K (seriesOf m ((k, c) :: rest)) =
      (if k.1 = m ∧ k.2.key = K then cellNum c else 0) + aggTotal K (seriesOf m rest) := by
  rw [seriesOf_cons]
  by_cases h1 : k.1 = m
  · by_cases h2 : k.2.key = K
    · simp [aggTotal, withKey_cons, sumCells_cons, h1, h2]
    · simp [aggTotal, withKey_cons, h1, h2]
  · simp [h1]

theorem cellNum_incCell (a : Int) (c : Cell) : cellNum (incCell a (some c)) = cellNum c + a := by
  cases c <;> simp [incCell, cellNum]

theorem aggTotal_upd_inc (m : Nat) (K : Key) (s : Source) (a : Int) (st : Store) :
    aggTotal K (seriesOf m (upd (m, s) (incCell a) st)) =
      aggTotal K (seriesOf m st) + (if s.key = K then a else 0) := by
  induction st with
  | nil =>
    simp only [upd]
    rw [aggTotal_cons]
    simp [aggTotal, seriesOf, withKey, sumCells, incCell, cellNum]
  | cons e rest ih =>
    obtain ⟨k, c⟩ := e
    by_cases h1 : k = (m, s)
    · subst h1
      rw [upd_cons_eq, aggTotal_cons, aggTotal_cons, cellNum_incCell]
      by_cases h2 : s.key = K <;> simp [h2] <;> ring
    · rw [upd_cons_ne _ _ _ _ _ h1, aggTotal_cons, aggTotal_cons, ih]
      ring

/-! ### histories -/

theorem typeOf_unique (cfg : Cfg) (m : Nat) (t t' : VType) (h : typeOf cfg m = some t)
    (h' : typeOf cfg m = some t') : t = t' := by
  rw [h] at h'; exact Option.some.inj h'

/-- counter-like metric: the aggregated total of a key is the sum of the recorded increments -/
theorem aggTotal_replay (cfg : Cfg) (m : Nat) (t : VType) (K : Key) (ht : typeOf cfg m = some t)
    (hc : t.isCounterLike = true) (h : List Op) :
    aggTotal K (seriesOf m (replay cfg h)) = incSum m K h := by
  induction h with
  | nil => simp [replay, incSum, aggTotal, seriesOf, withKey, sumCells]
  | cons op h ih =>
    simp only [replay, stepSt]
    cases op with
    | inc m' s a =>
      simp only [incSum]
      by_cases hm : m' = m
      · subst hm
        simp only [accepts, ht, hc, if_true, aggTotal_upd_inc, ih, true_and]
        ring
      · split
        · rw [seriesOf_upd_other _ _ _ _ _ hm, ih]; simp [hm]
        · rw [ih]; simp [hm]
    | set m' s v =>
      simp only [incSum]
      split
      · rename_i hacc
        have hm : m' ≠ m := by
          intro hm; subst hm
          simp only [accepts, ht, decide_eq_true_eq] at hacc
          subst hacc; simp [VType.isCounterLike] at hc
        rw [seriesOf_upd_other _ _ _ _ _ hm, ih]
      · exact ih
    | sample m' s v keep now =>
      simp only [incSum]
      split
      · rename_i hacc
        have hm : m' ≠ m := by
          intro hm; subst hm
          simp only [accepts, ht] at hacc
          cases t <;> simp [VType.isCounterLike, VType.isPct] at hc hacc
        rw [seriesOf_upd_other _ _ _ _ _ hm, ih]
      · exact ih
    | get m' s => simp only [incSum]; split <;> exact ih
    | agg ms now => simp only [incSum]; split <;> exact ih

/-- gauge metric: what is stored for a source is the last value set for an equal source -/
theorem lookup_replay_gauge (cfg : Cfg) (m : Nat) (s : Source) (ht : typeOf cfg m = some .gauge)
    (h : List Op) : lookup (m, s) (replay cfg h) = (lastSet m s h).map Cell.num := by
  induction h with
  | nil => simp [replay, lookup, lastSet]
  | cons op h ih =>
    simp only [replay, stepSt]
    cases op with
    | set m' s' v =>
      simp only [lastSet]
      by_cases hk : m' = m ∧ s' = s
      · obtain ⟨rfl, rfl⟩ := hk
        simp [accepts, ht, lookup_upd, setCell]
      · have hk' : (m', s') ≠ (m, s) := by
          intro hh; apply hk; exact ⟨(Prod.mk.inj hh).1, (Prod.mk.inj hh).2⟩
        split
        · rw [lookup_upd]; simp [hk', hk, ih]
        · simp [hk, ih]
    | inc m' s' a =>
      simp only [lastSet]
      split
      · rename_i hacc
        have hm : m' ≠ m := by
          intro hm; subst hm
          simp [accepts, ht, VType.isCounterLike] at hacc
        have hk' : (m', s') ≠ (m, s) := fun hh => hm (Prod.mk.inj hh).1
        rw [lookup_upd]; simp [hk', ih]
      · exact ih
    | sample m' s' v keep now =>
      simp only [lastSet]
      split
      · rename_i hacc
        have hm : m' ≠ m := by
          intro hm; subst hm
          simp [accepts, ht, VType.isPct] at hacc
        have hk' : (m', s') ≠ (m, s) := fun hh => hm (Prod.mk.inj hh).1
        rw [lookup_upd]; simp [hk', ih]
      · exact ih
    | get m' s' => simp only [lastSet]; split <;> exact ih
    | agg ms now => simp only [lastSet]; split <;> exact ih

/-- the series of a metric are exactly the distinct sources recorded against, in order of
    first appearance (every operation accepted) -/
theorem srcKeys_replay (cfg : Cfg) (m : Nat) (h : List Op) (hacc : h.all (accepts cfg) = true) :
    srcKeys m (replay cfg h) = distinctSrcs m h := by
  induction h with
  | nil => simp [replay, srcKeys, distinctSrcs, srcs, firstOcc]
  | cons op h ih =>
    simp only [List.all_cons, Bool.and_eq_true] at hacc
    obtain ⟨ha, hrest⟩ := hacc
    have ih := ih hrest
    simp only [replay, stepSt, ha, if_true]
    have key : ∀ (m' : Nat) (s : Source) (f : Option Cell → Cell),
        srcKeys m (upd (m', s) f (replay cfg h)) =
          firstOcc (if m' = m then (srcs m h).reverse ++ [s] else (srcs m h).reverse) := by
      intro m' s f
      rw [srcKeys_upd, ih]
      by_cases hm : m' = m
      · simp only [hm, if_true, distinctSrcs, firstOcc_snoc, mem_firstOcc]
      · simp only [hm, if_false, distinctSrcs]
    cases op with
    | inc m' s a => simpa [distinctSrcs, srcs, apply_ite] using key m' s _
    | set m' s v => simpa [distinctSrcs, srcs, apply_ite] using key m' s _
    | sample m' s v keep now => simpa [distinctSrcs, srcs, apply_ite] using key m' s _
    | get m' s => simpa [distinctSrcs, srcs] using ih
    | agg ms now => simpa [distinctSrcs, srcs] using ih

/-! ### sorting -/

theorem mem_insertSorted (x y : Int) (l : List Int) : y ∈ insertSorted x l ↔ y = x ∨ y ∈ l := by
  induction l with
  | nil => simp [insertSorted]
  | cons z zs ih =>
    simp only [insertSorted]
    split
    · simp
    · simp only [List.mem_cons, ih]; tauto

theorem mem_isort (y : Int) (l : List Int) : y ∈ isort l ↔ y ∈ l := by
  induction l with
  | nil => simp [isort]
  | cons z zs ih => simp [isort, mem_insertSorted, ih]

theorem length_insertSorted (x : Int) (l : List Int) : (insertSorted x l).length = l.length + 1 := by
  induction l with
  | nil => simp [insertSorted]
  | cons z zs ih =>
    simp only [insertSorted]
    split <;> simp [ih]

theorem length_isort (l : List Int) : (isort l).length = l.length := by
  induction l with
  | nil => simp [isort]
  | cons z zs ih => simp [isort, length_insertSorted, ih]

theorem insertSorted_sorted (x : Int) (l : List Int) (h : l.Pairwise (· ≤ ·)) :
    (insertSorted x l).Pairwise (· ≤ ·) := by
  induction l with
  | nil => simp [insertSorted]
  | cons z zs ih =>
    simp only [insertSorted]
    rw [List.pairwise_cons] at h
    split
    · rename_i hxz
      rw [List.pairwise_cons]
      refine ⟨?_, List.pairwise_cons.mpr h⟩
      intro a ha
      simp only [List.mem_cons] at ha
      rcases ha with rfl | ha
      · exact hxz
      · exact le_trans hxz (h.1 a ha)
    · rename_i hxz
      rw [List.pairwise_cons]
      refine ⟨?_, ih h.2⟩
      intro a ha
      rw [mem_insertSorted] at ha
      rcases ha with rfl | ha
      · omega
      · exact h.1 a ha

theorem isort_sorted (l : List Int) : (isort l).Pairwise (· ≤ ·) := by
  induction l with
  | nil => simp [isort]
  | cons z zs ih => exact insertSorted_sorted z _ ih

theorem getD_mem (vs : List Int) (i : Nat) (h : i < vs.length) : vs.getD i 0 ∈ vs := by
  simp [List.getD, List.getElem?_eq_getElem h]

theorem sorted_getD_le (vs : List Int) (hs : vs.Pairwise (· ≤ ·)) (i j : Nat) (hij : i ≤ j)
    (hj : j < vs.length) : vs.getD i 0 ≤ vs.getD j 0 := by
  have hi : i < vs.length := by omega
  simp only [List.getD, List.getElem?_eq_getElem hi, List.getElem?_eq_getElem hj, Option.getD_some]
  rcases Nat.lt_or_eq_of_le hij with h | h
  · exact (List.pairwise_iff_getElem.mp hs) i j hi hj h
  · subst h; exact le_refl _

/-! ### percentiles -/

/-- CalculatePercentile·q in terms of the floor `f` and the remainder `r` of k = (n-1)·p/q -/
def pctCore (vs : List Int) (q f r : Nat) : Int :=
  if r = 0 then vs.getD f 0 * (q : Int)
  else vs.getD f 0 * ((q : Int) - (r : Int)) + vs.getD (f + 1) 0 * (r : Int)

theorem pctNum_eq (vs : List Int) (p q : Nat) (h : vs ≠ []) :
    pctNum vs p q = pctCore vs q ((vs.length - 1) * p / q) ((vs.length - 1) * p % q) := by
  cases vs with
  | nil => exact absurd rfl h
  | cons x xs => simp [pctNum, pctCore]

/-- index facts: with 0 < q and p ≤ q the floor is a valid index, and so is the ceiling when
    the remainder is not zero -/
theorem pct_index (n p q : Nat) (hn : 1 ≤ n) (hq : 0 < q) (hp : p ≤ q) :
    (n - 1) * p / q < n ∧ ((n - 1) * p % q ≠ 0 → (n - 1) * p / q + 1 < n) ∧ (n - 1) * p % q < q := by
  have ha : (n - 1) * p ≤ q * (n - 1) := by
    rw [Nat.mul_comm q]; exact Nat.mul_le_mul_left _ hp
  have hdm := Nat.div_add_mod ((n - 1) * p) q
  have hf : (n - 1) * p / q ≤ n - 1 := Nat.div_le_of_le_mul ha
  refine ⟨by omega, ?_, Nat.mod_lt _ hq⟩
  intro hr
  by_contra hc
  have hge : n - 1 ≤ (n - 1) * p / q := by omega
  have : q * (n - 1) ≤ q * ((n - 1) * p / q) := Nat.mul_le_mul_left _ hge
  omega

theorem pctCore_lower (vs : List Int) (hs : vs.Pairwise (· ≤ ·)) (q f r : Nat) (hf : f < vs.length)
    (hr : r ≠ 0 → f + 1 < vs.length) (hrq : r < q) :
    vs.getD f 0 * (q : Int) ≤ pctCore vs q f r := by
  unfold pctCore
  split
  · exact le_refl _
  · rename_i h0
    have h1 := sorted_getD_le vs hs f (f + 1) (by omega) (hr h0)
    have hr0 : (0 : Int) ≤ (r : Int) := Int.natCast_nonneg r
    nlinarith [mul_le_mul_of_nonneg_right h1 hr0]

theorem pctCore_upper (vs : List Int) (hs : vs.Pairwise (· ≤ ·)) (q f r : Nat)
    (hr : r ≠ 0 → f + 1 < vs.length) (hrq : r < q) :
    pctCore vs q f r ≤ vs.getD (if r = 0 then f else f + 1) 0 * (q : Int) := by
  unfold pctCore
  split
  · exact le_refl _
  · rename_i h0
    have h1 := sorted_getD_le vs hs f (f + 1) (by omega) (hr h0)
    have hr0 : (0 : Int) ≤ (q : Int) - (r : Int) := by
      have : (r : Int) < (q : Int) := by exact_mod_cast hrq
      omega
    nlinarith [mul_le_mul_of_nonneg_right h1 hr0]

theorem div_mod_order (a1 q1 a2 q2 : Nat) (hq1 : 0 < q1) (hq2 : 0 < q2) (h : a1 * q2 ≤ a2 * q1) :
    a1 / q1 < a2 / q2 ∨ (a1 / q1 = a2 / q2 ∧ (a1 % q1) * q2 ≤ (a2 % q2) * q1) := by
  have h1 := Nat.div_add_mod a1 q1
  have h2 := Nat.div_add_mod a2 q2
  have hle : a1 / q1 ≤ a2 / q2 := by
    rw [Nat.le_div_iff_mul_le hq2]
    have e1 : a1 / q1 * q1 ≤ a1 := Nat.div_mul_le_self a1 q1
    have e2 : a1 / q1 * q1 * q2 ≤ a1 * q2 := Nat.mul_le_mul_right _ e1
    have e3 : a1 / q1 * q2 * q1 ≤ a2 * q1 := by
      calc a1 / q1 * q2 * q1 = a1 / q1 * q1 * q2 := by ring
        _ ≤ a1 * q2 := e2
        _ ≤ a2 * q1 := h
    exact Nat.le_of_mul_le_mul_right e3 hq1
  rcases Nat.lt_or_eq_of_le hle with hlt | heq
  · exact Or.inl hlt
  · right
    refine ⟨heq, ?_⟩
    have e1 : a1 * q2 = q1 * (a2 / q2) * q2 + a1 % q1 * q2 := by
      conv_lhs => rw [← h1, heq]
      ring
    have e2 : a2 * q1 = q1 * (a2 / q2) * q2 + a2 % q2 * q1 := by
      conv_lhs => rw [← h2]
      ring
    omega

theorem pctCore_mono (vs : List Int) (hs : vs.Pairwise (· ≤ ·)) (q1 f1 r1 q2 f2 r2 : Nat)
    (hf2 : f2 < vs.length)
    (hr1 : r1 ≠ 0 → f1 + 1 < vs.length) (hr2 : r2 ≠ 0 → f2 + 1 < vs.length)
    (hrq1 : r1 < q1) (hrq2 : r2 < q2)
    (hord : f1 < f2 ∨ (f1 = f2 ∧ r1 * q2 ≤ r2 * q1)) :
    pctCore vs q1 f1 r1 * (q2 : Int) ≤ pctCore vs q2 f2 r2 * (q1 : Int) := by
  have hq1 : (0 : Int) ≤ (q1 : Int) := Int.natCast_nonneg _
  have hq2 : (0 : Int) ≤ (q2 : Int) := Int.natCast_nonneg _
  rcases hord with hlt | ⟨rfl, hrr⟩
  · have hu := pctCore_upper vs hs q1 f1 r1 hr1 hrq1
    have hl := pctCore_lower vs hs q2 f2 r2 hf2 hr2 hrq2
    have hmid : vs.getD (if r1 = 0 then f1 else f1 + 1) 0 ≤ vs.getD f2 0 := by
      apply sorted_getD_le vs hs _ _ _ hf2
      split <;> omega
    have a1 := mul_le_mul_of_nonneg_right hu hq2
    have a2 := mul_le_mul_of_nonneg_right hl hq1
    have a3 := mul_le_mul_of_nonneg_right (mul_le_mul_of_nonneg_right hmid hq1) hq2
    nlinarith
  · by_cases h0 : r1 = 0
    · have hl := pctCore_lower vs hs q2 f1 r2 hf2 hr2 hrq2
      have a2 := mul_le_mul_of_nonneg_right hl hq1
      have e : pctCore vs q1 f1 r1 = vs.getD f1 0 * (q1 : Int) := by simp [pctCore, h0]
      rw [e]
      nlinarith
    · have h0' : r2 ≠ 0 := by
        intro h; subst h
        have : 0 < r1 * q2 := Nat.mul_pos (Nat.pos_of_ne_zero h0) (by omega)
        omega
      have hx := sorted_getD_le vs hs f1 (f1 + 1) (by omega) (hr1 h0)
      have hrr' : (r1 : Int) * (q2 : Int) ≤ (r2 : Int) * (q1 : Int) := by exact_mod_cast hrr
      simp only [pctCore, h0, h0', if_false]
      nlinarith [mul_nonneg (sub_nonneg.mpr hx) (sub_nonneg.mpr hrr')]

/-! ### the model's aggregate satisfies the per-entry demands -/

theorem zip_map_mem {α β : Type} (l : List α) (g : α → β) (pv : α × β) (h : pv ∈ l.zip (l.map g)) :
    pv.1 ∈ l ∧ pv.2 = g pv.1 := by
  induction l with
  | nil => simp at h
  | cons x xs ih =>
    simp only [List.map_cons, List.zip_cons_cons, List.mem_cons] at h
    rcases h with rfl | h
    · simp
    · have := ih h
      exact ⟨List.mem_cons_of_mem _ this.1, this.2⟩

theorem pctNum_witness (vs : List Int) (hs : vs.Pairwise (· ≤ ·)) (hne : vs ≠ []) (p q : Nat)
    (hq : 0 < q) (hp : p ≤ q) :
    (∃ x ∈ vs, x * (q : Int) ≤ pctNum vs p q) ∧ (∃ x ∈ vs, pctNum vs p q ≤ x * (q : Int)) := by
  have hn : 1 ≤ vs.length := by
    cases vs with
    | nil => exact absurd rfl hne
    | cons _ _ => simp
  obtain ⟨hf, hr, hrq⟩ := pct_index vs.length p q hn hq hp
  rw [pctNum_eq vs p q hne]
  refine ⟨⟨_, getD_mem vs _ hf, pctCore_lower vs hs q _ _ hf hr hrq⟩,
          ⟨_, ?_, pctCore_upper vs hs q _ _ hr hrq⟩⟩
  split
  · exact getD_mem vs _ hf
  · rename_i h0; exact getD_mem vs _ (hr h0)

theorem pctNum_mono (vs : List Int) (hs : vs.Pairwise (· ≤ ·)) (hne : vs ≠ []) (p1 q1 p2 q2 : Nat)
    (hq1 : 0 < q1) (hp1 : p1 ≤ q1) (hq2 : 0 < q2) (hp2 : p2 ≤ q2) (h : p1 * q2 ≤ p2 * q1) :
    pctNum vs p1 q1 * (q2 : Int) ≤ pctNum vs p2 q2 * (q1 : Int) := by
  have hn : 1 ≤ vs.length := by
    cases vs with
    | nil => exact absurd rfl hne
    | cons _ _ => simp
  obtain ⟨_, hr1, hrq1⟩ := pct_index vs.length p1 q1 hn hq1 hp1
  obtain ⟨hf2, hr2, hrq2⟩ := pct_index vs.length p2 q2 hn hq2 hp2
  rw [pctNum_eq vs p1 q1 hne, pctNum_eq vs p2 q2 hne]
  apply pctCore_mono vs hs _ _ _ _ _ _ hf2 hr1 hr2 hrq1 hrq2
  apply div_mod_order _ _ _ _ hq1 hq2
  calc (vs.length - 1) * p1 * q2 = (vs.length - 1) * (p1 * q2) := by ring
    _ ≤ (vs.length - 1) * (p2 * q1) := Nat.mul_le_mul_left _ h
    _ = (vs.length - 1) * p2 * q1 := by ring

theorem pctsOk_model (pcts : List (Nat × Nat)) (hv : pcts.all pctValid = true) (xs : List Int) :
    pctsOk pcts (isort xs) (pcts.map (fun pq => pctNum (isort xs) pq.1 pq.2)) = true := by
  unfold pctsOk
  by_cases he : (isort xs).isEmpty = true
  · simp [he]
  · have hne : isort xs ≠ [] := by simpa using he
    have hs := isort_sorted xs
    have valid : ∀ pq ∈ pcts, 0 < pq.2 ∧ pq.1 ≤ pq.2 := by
      intro pq hpq
      have := (List.all_eq_true.mp hv) pq hpq
      simpa [pctValid] using this
    simp only [he, Bool.false_or, List.length_map, decide_true, Bool.true_and, Bool.and_eq_true,
      List.all_eq_true]
    constructor
    · intro pv hpv
      obtain ⟨hmem, hval⟩ := zip_map_mem pcts _ pv hpv
      obtain ⟨hq, hp⟩ := valid _ hmem
      obtain ⟨⟨x, hx, hxl⟩, ⟨y, hy, hyu⟩⟩ := pctNum_witness _ hs hne pv.1.1 pv.1.2 hq hp
      rw [hval]
      simp only [List.any_eq_true, decide_eq_true_eq]
      exact ⟨⟨x, hx, hxl⟩, ⟨y, hy, hyu⟩⟩
    · intro a ha b hb
      obtain ⟨hma, hva⟩ := zip_map_mem pcts _ a ha
      obtain ⟨hmb, hvb⟩ := zip_map_mem pcts _ b hb
      obtain ⟨hqa, hpa⟩ := valid _ hma
      obtain ⟨hqb, hpb⟩ := valid _ hmb
      by_cases hord : a.1.1 * b.1.2 ≤ b.1.1 * a.1.2
      · have := pctNum_mono _ hs hne a.1.1 a.1.2 b.1.1 b.1.2 hqa hpa hqb hpb hord
        rw [hva, hvb]
        simp [hord, this]
      · simp [hord]

theorem withKey_map_fst (K : Key) (ser : List (Source × Cell)) :
    (withKey K ser).map (·.1) = (ser.map (·.1)).filter (fun s => s.key = K) := by
  induction ser with
  | nil => simp [withKey]
  | cons e rest ih =>
    obtain ⟨s, c⟩ := e
    rw [withKey_cons]
    by_cases h : s.key = K <;> simp [h, ih, List.filter_cons]

/-- a key that a single recorded source rolls up to: its sub-list of the series is that
    source's entry -/
theorem single_source_withKey (cfg : Cfg) (m : Nat) (h : List Op)
    (hacc : h.all (accepts cfg) = true) (K : Key) (s : Source)
    (hone : (distinctSrcs m h).filter (fun s => s.key = K) = [s]) :
    ∃ c, withKey K (seriesOf m (replay cfg h)) = [(s, c)] ∧ lookup (m, s) (replay cfg h) = some c := by
  have hk := srcKeys_replay cfg m h hacc
  have hmap := withKey_map_fst K (seriesOf m (replay cfg h))
  rw [srcKeys_eq, hk, hone] at hmap
  have hsmem : s ∈ (distinctSrcs m h).filter (fun s => s.key = K) := by rw [hone]; simp
  rw [List.mem_filter] at hsmem
  obtain ⟨c, hc⟩ := mem_srcKeys_lookup m s (replay cfg h) (by rw [hk]; exact hsmem.1)
  have hin := lookup_some_mem m s c _ hc
  have hin2 : (s, c) ∈ withKey K (seriesOf m (replay cfg h)) := by
    simp only [withKey, List.mem_filter]; exact ⟨hin, hsmem.2⟩
  have hlen : (withKey K (seriesOf m (replay cfg h))).length = 1 := by
    have := congrArg List.length hmap; simpa using this
  match hw : withKey K (seriesOf m (replay cfg h)), hlen with
  | [e0], _ =>
    rw [hw] at hin2
    simp only [List.mem_singleton] at hin2
    subst hin2
    exact ⟨c, rfl, hc⟩

theorem gauge_entry (cfg : Cfg) (m : Nat) (ht : typeOf cfg m = some .gauge) (h : List Op)
    (hacc : h.all (accepts cfg) = true) (K : Key) (s : Source)
    (hone : (distinctSrcs m h).filter (fun s => s.key = K) = [s]) :
    some (aggTotal K (seriesOf m (replay cfg h))) = lastSet m s h := by
  obtain ⟨c, hw, hc⟩ := single_source_withKey cfg m h hacc K s hone
  have hl := lookup_replay_gauge cfg m s ht h
  rw [hc] at hl
  cases hls : lastSet m s h with
  | none => rw [hls] at hl; simp at hl
  | some v =>
    rw [hls] at hl
    simp only [Option.map_some, Option.some.injEq] at hl
    subst hl
    simp [aggTotal, hw, sumCells, cellNum]

/-! ### reservoirs: `last_update` is the time of the last retained sample -/

/-- what the store holds for (`m`, `s`) of a percentile metric, against the history -/
def ResInv (cap : Nat) (m : Nat) (s : Source) (h : List Op) : Option Cell → Prop
  | none => sampleCount m s h = 0 ∧ lastRetain cap m s h = none
  | some (.res _ n l) => n = sampleCount m s h ∧ ∀ t, lastRetain cap m s h = some t → l = t
  | some (.num _) => False

theorem lookup_replay_pct (cfg : Cfg) (m : Nat) (s : Source) (t : VType) (ht : typeOf cfg m = some t)
    (hp : t.isPct = true) (h : List Op) :
    ResInv cfg.cap m s h (lookup (m, s) (replay cfg h)) := by
  induction h with
  | nil => simp [replay, lookup, ResInv, sampleCount, lastRetain]
  | cons op h ih =>
    simp only [replay, stepSt]
    cases op with
    | sample m' s' v keep now =>
      by_cases hk : m' = m ∧ s' = s
      · obtain ⟨rfl, rfl⟩ := hk
        simp only [accepts, ht, hp, if_true, lookup_upd]
        cases hl : lookup (m', s') (replay cfg h) with
        | none =>
          rw [hl] at ih
          obtain ⟨h0, hn⟩ := ih
          simp only [sampleCell, sampleInto]
          split
          · rename_i hc0; simp [ResInv, sampleCount, lastRetain, h0, hc0]
          · split
            · rename_i hk; simp [ResInv, sampleCount, lastRetain, h0, hk]
            · rename_i hc hk
              simp [ResInv, sampleCount, lastRetain, h0, hk, hn, hc]
        | some c =>
          rw [hl] at ih
          cases c with
          | num v' => exact absurd ih id
          | res d n l =>
            obtain ⟨hn, hlast⟩ := ih
            simp only [sampleCell, sampleInto]
            split
            · rename_i hc
              have : sampleCount m' s' h < cfg.cap := by omega
              simp only [ResInv, sampleCount, lastRetain, and_self, if_true, this, true_or]
              exact ⟨by omega, fun t ht => by simpa using ht⟩
            · split
              · rename_i hk
                simp only [ResInv, sampleCount, lastRetain, and_self, if_true, hk, or_true]
                exact ⟨by omega, fun t ht => by simpa using ht⟩
              · rename_i hc hk
                have h1 : ¬ sampleCount m' s' h < cfg.cap := by omega
                simp only [ResInv, sampleCount, lastRetain, and_self, if_true, h1, hk, false_or,
                  Bool.false_eq_true, if_false]
                exact ⟨by omega, hlast⟩
      · have hk' : (m', s') ≠ (m, s) := by
          intro hh; apply hk; exact ⟨(Prod.mk.inj hh).1, (Prod.mk.inj hh).2⟩
        have e1 : sampleCount m s (.sample m' s' v keep now :: h) = sampleCount m s h := by
          simp [sampleCount, hk]
        have e2 : lastRetain cfg.cap m s (.sample m' s' v keep now :: h) = lastRetain cfg.cap m s h := by
          simp [lastRetain, hk]
        have : ∀ c, ResInv cfg.cap m s h c → ResInv cfg.cap m s (.sample m' s' v keep now :: h) c := by
          intro c hc
          cases c with
          | none => simpa [ResInv, e1, e2] using hc
          | some c => cases c <;> simpa [ResInv, e1, e2] using hc
        split
        · rw [lookup_upd]; simp only [hk', if_false]; exact this _ ih
        · exact this _ ih
    | inc m' s' a =>
      have : ∀ c, ResInv cfg.cap m s h c → ResInv cfg.cap m s (.inc m' s' a :: h) c := by
        intro c hc
        cases c with
        | none => simpa [ResInv, sampleCount, lastRetain] using hc
        | some c => cases c <;> simpa [ResInv, sampleCount, lastRetain] using hc
      split
      · rename_i hacc
        have hm : m' ≠ m := by
          intro hm; subst hm
          simp only [accepts, ht] at hacc
          cases t <;> simp [VType.isCounterLike, VType.isPct] at hp hacc
        have hk' : (m', s') ≠ (m, s) := fun hh => hm (Prod.mk.inj hh).1
        rw [lookup_upd]; simp only [hk', if_false]; exact this _ ih
      · exact this _ ih
    | set m' s' v =>
      have : ∀ c, ResInv cfg.cap m s h c → ResInv cfg.cap m s (.set m' s' v :: h) c := by
        intro c hc
        cases c with
        | none => simpa [ResInv, sampleCount, lastRetain] using hc
        | some c => cases c <;> simpa [ResInv, sampleCount, lastRetain] using hc
      split
      · rename_i hacc
        have hm : m' ≠ m := by
          intro hm; subst hm
          simp only [accepts, ht, decide_eq_true_eq] at hacc
          subst hacc; simp [VType.isPct] at hp
        have hk' : (m', s') ≠ (m, s) := fun hh => hm (Prod.mk.inj hh).1
        rw [lookup_upd]; simp only [hk', if_false]; exact this _ ih
      · exact this _ ih
    | get m' s' =>
      have : ∀ c, ResInv cfg.cap m s h c → ResInv cfg.cap m s (.get m' s' :: h) c := by
        intro c hc
        cases c with
        | none => simpa [ResInv, sampleCount, lastRetain] using hc
        | some c => cases c <;> simpa [ResInv, sampleCount, lastRetain] using hc
      split <;> exact this _ ih
    | agg ms now =>
      have : ∀ c, ResInv cfg.cap m s h c → ResInv cfg.cap m s (.agg ms now :: h) c := by
        intro c hc
        cases c with
        | none => simpa [ResInv, sampleCount, lastRetain] using hc
        | some c => cases c <;> simpa [ResInv, sampleCount, lastRetain] using hc
      split <;> exact this _ ih

/-- a single source that retained a sample within MAX_AGG_AGE: the aggregate uses exactly its
    reservoir, and reports the percentiles of its retained samples -/
theorem pct_entry (cfg : Cfg) (hwf : cfgWF cfg = true) (m : Nat) (t : VType) (ht : typeOf cfg m = some t)
    (hp : t.isPct = true) (h : List Op) (hacc : h.all (accepts cfg) = true) (K : Key) (s : Source)
    (now : Nat) (hone : (distinctSrcs m h).filter (fun s => s.key = K) = [s])
    (hrec : retainedRecently cfg.cap m s now h = true) :
    pctCount now K (seriesOf m (replay cfg h)) = 1 ∧
    pctsOk cfg.pcts (isort (mergedData K (seriesOf m (replay cfg h))))
      (aggPcts cfg.pcts now K (seriesOf m (replay cfg h))) = true ∧
    aggPcts cfg.pcts now K (seriesOf m (replay cfg h)) =
      cfg.pcts.map (fun pq => pctNum (isort (mergedData K (seriesOf m (replay cfg h)))) pq.1 pq.2) := by
  obtain ⟨c, hw, hc⟩ := single_source_withKey cfg m h hacc K s hone
  have hinv := lookup_replay_pct cfg m s t ht hp h
  rw [hc] at hinv
  unfold retainedRecently at hrec
  cases hlr : lastRetain cfg.cap m s h with
  | none => rw [hlr] at hrec; cases hrec
  | some tr =>
    rw [hlr] at hrec
    simp only [decide_eq_true_eq] at hrec
    cases c with
    | num v => exact absurd hinv id
    | res d n l =>
      have hl : l = tr := hinv.2 tr hlr
      subst hl
      have hfresh : freshOf now K (seriesOf m (replay cfg h)) = [(s, .res d n l)] := by
        simp [freshOf, hw, cellFresh, hrec]
      have hcount : pctCount now K (seriesOf m (replay cfg h)) = 1 := by simp [pctCount, hfresh]
      refine ⟨hcount, ?_, ?_⟩ <;>
      have hdata : freshData now K (seriesOf m (replay cfg h)) = mergedData K (seriesOf m (replay cfg h)) := by
        simp [freshData, mergedData, hfresh, hw]
      · simp only [aggPcts, hcount, if_true, hdata]
        exact pctsOk_model cfg.pcts hwf _
      · simp only [aggPcts, hcount, if_true, hdata]

theorem entryOk_model (cfg : Cfg) (hwf : cfgWF cfg = true) (h : List Op)
    (hacc : h.all (accepts cfg) = true) (now : Nat) (m : Nat) (t : VType) (ht : typeOf cfg m = some t)
    (e : Entry) (he : e ∈ entriesOf cfg now t (seriesOf m (replay cfg h))) :
    entryOk cfg h now m t e = true := by
  simp only [entriesOf, List.mem_map] at he
  obtain ⟨K, _, rfl⟩ := he
  by_cases hp : t.isPct = true
  · simp only [hp, if_true, entryOk]
    split
    · rename_i s hone
      split
      · rename_i hrec
        exact (pct_entry cfg hwf m t ht hp h hacc K s now hone hrec).2.1
      · rfl
    · rfl
  · simp only [hp, Bool.false_eq_true, if_false]
    cases t with
    | rate =>
      simp only [entryOk, decide_eq_true_eq]
      exact aggTotal_replay cfg m .rate K ht rfl h
    | counter =>
      simp only [entryOk, decide_eq_true_eq]
      exact aggTotal_replay cfg m .counter K ht rfl h
    | gauge =>
      simp only [entryOk]
      split
      · rename_i s hone
        simp only [decide_eq_true_eq]
        exact gauge_entry cfg m ht h hacc K s hone
      · rfl
    | aggTimer => simp [entryOk]
    | avgTimer => simp [VType.isPct] at hp
    | avgRate => simp [VType.isPct] at hp

/-! ### the whole aggregate observation, and the trace -/

theorem mem_aggOut (cfg : Cfg) (ms : List Nat) (now : Nat) (st : Store) (m : Nat) (es : List Entry)
    (h : (m, es) ∈ aggOut cfg ms now st) :
    ∃ t, typeOf cfg m = some t ∧ es = entriesOf cfg now t (seriesOf m st) := by
  simp only [aggOut, List.mem_filterMap] at h
  obtain ⟨m', _, hg⟩ := h
  split at hg
  · split at hg
    · rename_i t ht
      simp only [Option.some.injEq, Prod.mk.injEq] at hg
      obtain ⟨rfl, rfl⟩ := hg
      exact ⟨t, ht, rfl⟩
    · cases hg
  · cases hg

theorem firstBadEntry_none (cfg : Cfg) (h : List Op) (now : Nat) (l : List (Nat × List Entry))
    (hl : ∀ m es, (m, es) ∈ l → ∀ t, typeOf cfg m = some t → ∀ e ∈ es, entryOk cfg h now m t e = true) :
    firstBadEntry cfg h now l = none := by
  induction l with
  | nil => rfl
  | cons x xs ih =>
    obtain ⟨m, es⟩ := x
    have ih := ih (fun m' es' hm => hl m' es' (List.mem_cons_of_mem _ hm))
    simp only [firstBadEntry]
    split
    · exact ih
    · rename_i t ht
      have : es.find? (fun e => !entryOk cfg h now m t e) = none := by
        rw [List.find?_eq_none]
        intro e he
        simp [hl m es List.mem_cons_self t ht e he]
      rw [this]
      exact ih

theorem find_filterMap {β : Type} (l : List Nat) (g : Nat → Option (Nat × β))
    (hg : ∀ x y, g x = some y → y.1 = x) (m : Nat) (hm : m ∈ l) (E : β) (hgm : g m = some (m, E)) :
    (l.filterMap g).find? (fun me => me.1 = m) = some (m, E) := by
  induction l with
  | nil => simp at hm
  | cons x xs ih =>
    by_cases hx : x = m
    · subst hx
      simp [List.filterMap_cons, hgm]
    · have hm' : m ∈ xs := by
        rcases List.mem_cons.mp hm with h | h
        · exact absurd h.symm hx
        · exact h
      rw [List.filterMap_cons]
      cases hgx : g x with
      | none => simpa using ih hm'
      | some y =>
        have hy := hg x y hgx
        have : ¬ y.1 = m := by rw [hy]; exact hx
        simp only [List.find?_cons, this, decide_false]
        exact ih hm'

theorem mem_metricsOf (m : Nat) (s : Source) (st : Store) (h : s ∈ srcKeys m st) :
    m ∈ metricsOf st := by
  unfold metricsOf
  rw [mem_firstOcc]
  induction st with
  | nil => simp [srcKeys] at h
  | cons e rest ih =>
    obtain ⟨⟨me, se⟩, c⟩ := e
    simp only [srcKeys] at h
    by_cases hm : me = m
    · simp [hm]
    · simp only [hm, if_false] at h
      simp only [List.map_cons, List.mem_cons]
      right; exact ih h

theorem findEntries_aggOut (cfg : Cfg) (ms : List Nat) (now : Nat) (st : Store) (m : Nat) (t : VType)
    (hm : m ∈ metricsOf st) (hms : m ∈ ms) (ht : typeOf cfg m = some t) :
    findEntries (aggOut cfg ms now st) m = entriesOf cfg now t (seriesOf m st) := by
  unfold findEntries aggOut
  rw [find_filterMap (metricsOf st) _ ?_ m hm (entriesOf cfg now t (seriesOf m st)) ?_]
  · intro x y hxy
    split at hxy
    · split at hxy
      · simp only [Option.some.injEq] at hxy; subst hxy; rfl
      · cases hxy
    · cases hxy
  · simp [hms, ht]

theorem entry_key_any (cfg : Cfg) (now : Nat) (t : VType) (ser : List (Source × Cell)) (s : Source)
    (hs : s ∈ ser.map (·.1)) :
    (entriesOf cfg now t ser).any (fun e => e.key = s.key) = true := by
  simp only [entriesOf, List.any_map, List.any_eq_true, Function.comp]
  refine ⟨s.key, ?_, ?_⟩
  · unfold aggKeys
    rw [mem_firstOcc]
    simp only [List.mem_map] at hs ⊢
    obtain ⟨e, he, rfl⟩ := hs
    exact ⟨e, he, rfl⟩
  · split <;> simp [Entry.key]

theorem covered_model (cfg : Cfg) (h : List Op) (hacc : h.all (accepts cfg) = true) (ms : List Nat)
    (now : Nat) : covered cfg h ms (aggOut cfg ms now (replay cfg h)) = true := by
  unfold covered
  rw [List.all_eq_true]
  intro m hm
  have hk := srcKeys_replay cfg m h hacc
  have main : ∀ t, typeOf cfg m = some t →
      ((distinctSrcs m h).all fun s =>
        (findEntries (aggOut cfg ms now (replay cfg h)) m).any fun e => e.key = s.key) = true := by
    intro t ht
    rw [List.all_eq_true]
    intro s hs
    have hsk : s ∈ srcKeys m (replay cfg h) := by rw [hk]; exact hs
    rw [findEntries_aggOut cfg ms now _ m t (mem_metricsOf m s _ hsk) hm ht]
    apply entry_key_any
    rw [srcKeys_eq]; exact hsk
  split
  · rename_i ht; exact main _ ht
  · rename_i ht; exact main _ ht
  · rfl

theorem Verdict_and_ok' (v : Verdict) (f : Unit → Verdict) (h1 : v = .ok) (h2 : f () = .ok) :
    v.and f = .ok := by
  subst h1; exact h2

/-- one step: the model's observation of an accepted operation satisfies the specification -/
theorem specObs_model (cfg : Cfg) (hwf : cfgWF cfg = true) (h : List Op)
    (hacc : h.all (accepts cfg) = true) (op : Op) (ha : accepts cfg op = true) (idx : Nat) :
    specObs cfg (op :: h) idx op (obsOf cfg (replay cfg (op :: h)) op) = .ok := by
  have hacc' : (op :: h).all (accepts cfg) = true := by simp [ha, hacc]
  have hser : ∀ m, nSeries m (replay cfg (op :: h)) ≤ (distinctSrcs m (op :: h)).length := by
    intro m
    rw [nSeries_eq, srcKeys_replay cfg m _ hacc']
  cases op with
  | inc m s a => simp [obsOf, ha, specObs, metricOf, hser m]
  | set m s v => simp [obsOf, ha, specObs, metricOf, hser m]
  | sample m s v keep now => simp [obsOf, ha, specObs, metricOf, hser m]
  | get m s =>
    simp only [specObs]
    split
    · rename_i hg
      have hl := lookup_replay_gauge cfg m s hg (.get m s :: h)
      simp only [obsOf, ha, if_true, hl]
      cases hls : lastSet m s (.get m s :: h) <;> simp
    · rfl
  | agg ms now =>
    simp only [obsOf, ha, if_true, specObs]
    have hb : firstBadEntry cfg (.agg ms now :: h) now
        (aggOut cfg ms now (replay cfg (.agg ms now :: h))) = none := by
      apply firstBadEntry_none
      intro m es hmem t ht e he
      obtain ⟨t', ht', rfl⟩ := mem_aggOut cfg ms now _ m es hmem
      have := typeOf_unique cfg m t t' ht ht'
      subst this
      exact entryOk_model cfg hwf _ hacc' now m t ht e he
    rw [hb]
    simp [covered_model cfg _ hacc' ms now]

theorem specGo_model (cfg : Cfg) (hwf : cfgWF cfg = true) :
    ∀ (ops : List Op) (h : List Op) (idx : Nat), h.all (accepts cfg) = true →
      ops.all (accepts cfg) = true →
      specGo cfg h idx (comp.trace cfg (replay cfg h) ops) = .ok := by
  intro ops
  induction ops with
  | nil => intros; rfl
  | cons op ops ih =>
    intro h idx hacc hops
    simp only [List.all_cons, Bool.and_eq_true] at hops
    obtain ⟨ha, hrest⟩ := hops
    simp only [TComp.trace, comp, step, specGo]
    apply Verdict_and_ok'
    · exact specObs_model cfg hwf h hacc op ha idx
    · exact ih (op :: h) (idx + 1) (by simp [ha, hacc]) hrest

end Scales.Varz
