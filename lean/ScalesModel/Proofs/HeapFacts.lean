import ScalesModel.Proofs.HeapGet
import ScalesModel.Proofs.HeapPut

/-! Field-level descriptions of what each operation changes (what the abstract state `A0` of the
    specification tracks), and the choice made by `get`. -/
namespace Scales.Heap

/-! ### join -/

theorem join_old (s : HS) (ep : Nat) (h : ep ∈ s.servers) : s.join ep = s := by
  unfold HS.join
  have : s.servers.contains ep = true := by simpa using h
  rw [if_pos this]

theorem join_facts (s : HS) (h : Inv s) (ep : Nat) (hnew : ep ∉ s.servers) :
    (s.join ep).nodes.length = s.nodes.length + 1 ∧ (s.join ep).reqs = s.reqs ∧
    (∀ id, InHeap (s.join ep) id ↔ InHeap s id ∨ id = s.nodes.length) ∧
    (∀ id, ((s.join ep).node id).load = (if id = s.nodes.length then Idle else (s.node id).load) ∧
      ((s.join ep).node id).ep = (if id = s.nodes.length then ep else (s.node id).ep) ∧
      ((s.join ep).node id).chan = (if id = s.nodes.length then 1 else (s.node id).chan) ∧
      ((s.join ep).node id).closed = (if id = s.nodes.length then 0 else (s.node id).closed)) := by
  unfold HS.join
  have : ¬ s.servers.contains ep = true := by simpa using hnew
  rw [if_neg this]
  have e : SameStore s ({ s with servers := s.servers ++ [ep] } : HS) := ⟨rfl, rfl⟩
  have hr : ({ s with servers := s.servers ++ [ep] } : HS).reqs = s.reqs := rfl
  generalize ({ s with servers := s.servers ++ [ep] } : HS) = t at *
  have heq : t.addSink ep = (t.push ⟨Idle, (t.size + 1 : Nat), ep, 1, 0⟩).fixUp (t.size + 1) := rfl
  rw [heq]
  have hwt := e.wf h.wf
  obtain ⟨w, f, o⟩ := push_spec t hwt (by rw [e.L_eq, e.size]; exact h.ord) ⟨Idle, (t.size + 1 : Nat), ep, 1, 0⟩ rfl
  refine ⟨by rw [f.len, push_len, e.len], by rw [f.reqs, push_reqs, hr], ?_, ?_⟩
  · intro id
    rw [f.inHeap, push_inHeap t hwt, e.inHeap, e.len]
  · intro id
    obtain ⟨a, b, c, d⟩ := f.fields id
    rw [a, b, c, d, push_node, e.len, e.node]
    by_cases e' : id = s.nodes.length
    · simp [e']
    · simp [e']

/-! ### leave -/

theorem leave_none (s : HS) (ep : Nat) (hf : s.findByEp ep = none) :
    SameStore s (s.leave ep) ∧ (s.leave ep).reqs = s.reqs := by
  unfold HS.leave HS.removeSink
  have : ({ s with servers := s.servers.filter (· ≠ ep) } : HS).findByEp ep = none := hf
  rw [this]
  exact ⟨⟨rfl, rfl⟩, rfl⟩

theorem leave_some (s : HS) (h : Inv s) (ep nid : Nat) (hf : s.findByEp ep = some nid) :
    InHeap s nid ∧ (s.node nid).ep = ep ∧
    (s.leave ep).nodes.length = s.nodes.length ∧ (s.leave ep).reqs = s.reqs ∧
    (∀ id, InHeap (s.leave ep) id ↔ InHeap s id ∧ id ≠ nid) ∧
    (∀ id, ((s.leave ep).node id).load = (s.node id).load ∧ ((s.leave ep).node id).ep = (s.node id).ep ∧
      ((s.leave ep).node id).chan = (s.node id).chan ∧
      ((s.leave ep).node id).closed = (if id = nid then
        (if (s.node nid).load = Idle ∨ (s.node nid).load ≥ 0 then 1 else 0) else (s.node id).closed)) := by
  have hf0 := hf
  unfold HS.findByEp at hf
  have hmem := List.mem_of_find?_eq_some hf
  have hep : (s.node nid).ep = ep := by simpa using List.find?_some hf
  have hin : InHeap s nid := (mem_heap_iff s nid).mp hmem
  refine ⟨hin, hep, ?_⟩
  unfold HS.leave
  have e : SameStore s ({ s with servers := s.servers.filter (· ≠ ep) } : HS) := ⟨rfl, rfl⟩
  have hr : ({ s with servers := s.servers.filter (· ≠ ep) } : HS).reqs = s.reqs := rfl
  have hf' : ({ s with servers := s.servers.filter (· ≠ ep) } : HS).findByEp ep = some nid := hf0
  generalize ({ s with servers := s.servers.filter (· ≠ ep) } : HS) = t at *
  have hwt := e.wf h.wf
  have hot : Ord (L t) t.size := by rw [e.L_eq, e.size]; exact h.ord
  have hint : InHeap t nid := (e.inHeap nid).mpr hin
  have hidx := index_of_inHeap t hwt nid hint
  have hneg : ¬ (t.node nid).index < 0 := by omega
  rw [removeSink_some t ep nid hf' hneg]
  obtain ⟨p1, p2, p3, _, hl⟩ := pos_spec t hwt nid hint
  obtain ⟨wu, fu, hidu, ou⟩ := delAt_spec t hwt (pos t nid) p1 p2
    (fun k a b _ _ => hot k a (by omega)) (GP_mono _ _ _ _ (Ord_to_up (L t) t.size (pos t nid) hot).2 (by omega))
  have hlast : (t.delAt (pos t nid)).idAt (t.delAt (pos t nid)).size = nid := by
    rw [fu.size]; exact hidu.trans p3
  have heq : ∀ (c : Nat),
      (({ t.delAt (pos t nid) with heap := (t.delAt (pos t nid)).heap.dropLast } : HS).setNode nid
        { (t.delAt (pos t nid)).node nid with index := -1, closed := c }) = (t.delAt (pos t nid)).pop c := by
    intro c; unfold HS.pop; simp only [hlast]; rfl
  dsimp only
  rw [heq]
  have hcl : ((t.delAt (pos t nid)).node nid).closed = 0 := by
    rw [(fu.fields nid).2.2.2, e.node]; exact h.book.closedIn nid hin
  have hld : ((t.delAt (pos t nid)).node nid).load = (s.node nid).load := by
    rw [(fu.fields nid).1, e.node]
  rw [hcl, hld, Nat.zero_add]
  generalize t.delAt (pos t nid) = u at *
  have hn1 : 1 ≤ u.size := by rw [fu.size]; omega
  refine ⟨by rw [pop_len, fu.len, e.len], by rw [pop_reqs, fu.reqs, hr], ?_, ?_⟩
  · intro id
    rw [pop_inHeap u wu hn1, hlast, fu.inHeap, e.inHeap]
  · intro id
    rw [pop_node, hlast]
    have hlu : nid < u.nodes.length := by rw [fu.len]; exact hl
    obtain ⟨a, b, c, d⟩ := fu.fields id
    by_cases e' : id = nid
    · subst e'
      rw [if_pos ⟨rfl, hlu⟩, if_pos rfl]
      exact ⟨a.trans (by rw [e.node]), b.trans (by rw [e.node]), c.trans (by rw [e.node]), rfl⟩
    · have e2 : ¬ (id = nid ∧ nid < u.nodes.length) := fun x => e' x.1
      rw [if_neg e2, if_neg e']
      exact ⟨a.trans (by rw [e.node]), b.trans (by rw [e.node]), c.trans (by rw [e.node]), d.trans (by rw [e.node])⟩

/-! ### chan -/

theorem setChan_facts (s : HS) (nid st : Nat) :
    (s.setChan nid st).nodes.length = s.nodes.length ∧ (s.setChan nid st).reqs = s.reqs ∧
    (∀ id, InHeap (s.setChan nid st) id ↔ InHeap s id) ∧
    (∀ id, ((s.setChan nid st).node id).load = (s.node id).load ∧ ((s.setChan nid st).node id).ep = (s.node id).ep ∧
      ((s.setChan nid st).node id).chan = (if id = nid ∧ nid < s.nodes.length then st else (s.node id).chan) ∧
      ((s.setChan nid st).node id).closed = (s.node id).closed) := by
  unfold HS.setChan
  split
  · rename_i hl
    refine ⟨by simp, by simp, by simp, ?_⟩
    intro id
    rw [node_setNode]
    by_cases e : id = nid
    · subst e; simp [hl]
    · simp [e]
  · rename_i hl
    refine ⟨rfl, rfl, fun _ => Iff.rfl, ?_⟩
    intro id
    simp [hl]

/-! ### get -/

/-- the root after the last scan is a least-loaded Open member, if any member is Open -/
theorem choice_spec (s s1 : HS) (nid : Nat) (gk : GetOk s s1 nid) (hsz : 1 ≤ s.size) :
    InHeap s nid ∧
    ((∃ m, InHeap s m ∧ (s.node m).chan = chOpen) →
      (s.node nid).chan = chOpen ∧ ∀ m, InHeap s m → (s.node m).chan = chOpen → outOf s nid ≤ outOf s m) := by
  have i := gk.inv
  have g := gk.frame
  have hsz1 : 1 ≤ s1.size := by rw [g.size]; exact hsz
  have hin1 : InHeap s1 nid := by rw [gk.top]; exact ⟨1, by omega, hsz1, rfl⟩
  have hopen : ∀ m, InHeap s1 m → (s1.node m).chan = chOpen → (s1.node m).load < 0 := by
    intro m hm ho
    by_contra hge
    exact gk.scanned m (i.down.all m hm (by omega)) ho
  have hroot : ∀ m, InHeap s1 m → (s1.node nid).load ≤ (s1.node m).load := by
    intro m hm
    obtain ⟨p1, p2, p3, _, _⟩ := pos_spec s1 i.wf m hm
    have := Ord_root (L s1) s1.size i.ord (pos s1 m) p1 p2
    unfold L HS.at at this
    rw [p3, ← gk.top] at this
    exact this
  refine ⟨(g.inHeap nid).mp hin1, ?_⟩
  rintro ⟨m0, hm0, ho0⟩
  have hm0' := (g.inHeap m0).mpr hm0
  have ho0' : (s1.node m0).chan = chOpen := by rw [(g.fields m0).2.1]; exact ho0
  have hneg : (s1.node nid).load < 0 := by
    have := hopen m0 hm0' ho0'
    have := hroot m0 hm0'
    omega
  have hch : (s1.node nid).chan = chOpen := by
    rcases gk.ok with x | x
    · exact x
    · omega
  refine ⟨by rw [← (g.fields nid).2.1]; exact hch, ?_⟩
  intro m hm ho
  have hm' := (g.inHeap m).mpr hm
  have ho' : (s1.node m).chan = chOpen := by rw [(g.fields m).2.1]; exact ho
  have h1 := hopen m hm' ho'
  have h2 := hroot m hm'
  have a := (i.book.pen_iff nid (inHeap_lt s1 i.wf nid hin1)).2.1.mp hneg
  have b := (i.book.pen_iff m (inHeap_lt s1 i.wf m hm')).2.1.mp h1
  rw [g.outOf] at a b
  omega

theorem get_facts (s : HS) (h : Inv s) (hsz : ¬ s.size = 0) :
    ∃ nid, (s.get noHook).2 = .node nid (s.node nid).ep s.reqs.length ∧ InHeap s nid ∧
      (s.get noHook).1.reqs = s.reqs ++ [(nid, false)] ∧
      (s.get noHook).1.nodes.length = s.nodes.length ∧
      (∀ id, InHeap (s.get noHook).1 id ↔ InHeap s id) ∧
      (∀ id, ((s.get noHook).1.node id).ep = (s.node id).ep ∧ ((s.get noHook).1.node id).chan = (s.node id).chan ∧
        ((s.get noHook).1.node id).closed = (s.node id).closed) ∧
      ((∃ m, InHeap s m ∧ (s.node m).chan = chOpen) →
        (s.node nid).chan = chOpen ∧ ∀ m, InHeap s m → (s.node m).chan = chOpen → outOf s nid ≤ outOf s m) := by
  have gk := getLoop_ok s h (by omega)
  obtain ⟨c1, c2⟩ := choice_spec s _ _ gk (by omega)
  rw [get_nonempty s hsz]
  refine ⟨(s.getLoop noHook (s.nodes.length + 1)).2, ?_, c1, ?_, ?_, ?_, ?_, c2⟩
  all_goals
    have hin1 : InHeap (s.getLoop noHook (s.nodes.length + 1)).1 (s.getLoop noHook (s.nodes.length + 1)).2 :=
      (gk.frame.inHeap _).mpr c1
    have hl := inHeap_lt _ gk.inv.wf _ hin1
    obtain ⟨w, f, o⟩ := grow_spec _ gk.inv.wf gk.inv.ord _ hin1
      (((s.getLoop noHook (s.nodes.length + 1)).1.node (s.getLoop noHook (s.nodes.length + 1)).2).load + 1) (by omega)
    have g := gk.frame.trans ((GFrame.ofSetLoad _ _
      (((s.getLoop noHook (s.nodes.length + 1)).1.node (s.getLoop noHook (s.nodes.length + 1)).2).load + 1) hin1).trans f.toG)
    rw [setLoad_pos]
  · dsimp only
    rw [g.reqs, (gk.frame.fields _).1]
  · dsimp only
    rw [g.reqs]
  · exact g.len
  · intro id
    exact ((⟨rfl, rfl⟩ : SameStore _ _).inHeap id).trans (g.inHeap id)
  · intro id
    exact g.fields id

end Scales.Heap
