import ScalesModel.Adapter.Shared

/-!
  Proofs/SharedProvLemmas.lean — C16: lemmas about guarded components (outcomes instead of
  observations) and about the SharedSinkProvider model with real-enough underlying sinks.
-/
namespace Scales.Shared

/-! ### guarded components -/

section guard
variable {Cfg σ Op Obs : Type}

/-- a history of observations as a history of (normal) outcomes -/
def liftH (h : List (Op × Obs)) : List (Op × Res Obs) := h.map (fun p => (p.1, .val p.2))

theorem valPrefix_lift (h : List (Op × Obs)) : valPrefix (liftH h) = h := by
  induction h with
  | nil => rfl
  | cons x xs ih =>
    obtain ⟨op, o⟩ := x
    simp only [liftH, List.map_cons, valPrefix] at ih ⊢
    rw [ih]

theorem firstRaised_lift (h : List (Op × Obs)) (i : Nat) : firstRaised i (liftH h) = none := by
  induction h generalizing i with
  | nil => rfl
  | cons x xs ih =>
    obtain ⟨op, o⟩ := x
    simp only [liftH, List.map_cons, firstRaised] at ih ⊢
    exact ih (i + 1)

theorem guarded_trace (c : TComp Cfg σ Op Obs) (cfg : Cfg) (s : σ) (ops : List Op) :
    (guarded c).trace cfg s ops = liftH (c.trace cfg s ops) := by
  induction ops generalizing s with
  | nil => rfl
  | cons op ops ih =>
    simp only [TComp.trace, liftH, List.map_cons]
    show (op, Res.val (c.step cfg s op).2) :: (guarded c).trace cfg (c.step cfg s op).1 ops = _
    rw [ih]
    rfl

theorem guardSpec_lift (spec : List (Op × Obs) → Verdict) (h : List (Op × Obs)) :
    guardSpec spec (liftH h) = spec h := by
  unfold guardSpec
  rw [valPrefix_lift, firstRaised_lift]
  cases spec h <;> rfl

/-- on the model's own history the guarded specification is the specification -/
theorem guarded_model_spec (c : TComp Cfg σ Op Obs) (cfg : Cfg) (ops : List Op) :
    (guarded c).spec cfg ((guarded c).modelTrace cfg ops) = c.spec cfg (c.modelTrace cfg ops) := by
  show guardSpec (c.spec cfg) ((guarded c).trace cfg (c.init cfg) ops) = _
  rw [guarded_trace, guardSpec_lift]
  rfl

theorem firstRaised_of_mem (h : List (Op × Res Obs)) (i : Nat) (op : Op) (w : String)
    (hm : (op, Res.raised w) ∈ h) : ∃ x, firstRaised i h = some x := by
  induction h generalizing i with
  | nil => cases hm
  | cons y ys ih =>
    obtain ⟨op', r⟩ := y
    cases r with
    | raised w' => exact ⟨_, rfl⟩
    | val o =>
      simp only [firstRaised]
      rcases List.mem_cons.1 hm with h1 | h1
      · cases h1
      · exact ih (i + 1) h1

/-- a history containing an escaped exception is never accepted -/
theorem guardSpec_raised (spec : List (Op × Obs) → Verdict) (h : List (Op × Res Obs)) (op : Op)
    (w : String) (hm : (op, Res.raised w) ∈ h) : guardSpec spec h ≠ .ok := by
  obtain ⟨x, hx⟩ := firstRaised_of_mem h 0 op w hm
  unfold guardSpec
  rw [hx]
  cases spec (valPrefix h) <;> simp [Verdict.and]

end guard

/-! ### underlying sinks and wrappers -/

theorem sinkAt_zero (l : List PSink) : sinkAt l 0 = {} := rfl

theorem sinkAt_out (l : List PSink) (s : Nat) (h : l.length < s) : sinkAt l s = {} := by
  cases s with
  | zero => rfl
  | succ k =>
    simp only [sinkAt]
    rw [List.getD_eq_getElem?_getD, List.getElem?_eq_none (by omega)]
    rfl

theorem modAt_length (l : List PSink) (s : Nat) (f : PSink → PSink) : (modAt l s f).length = l.length := by
  cases s <;> simp [modAt]

theorem sinkAt_modAt (l : List PSink) (s s' : Nat) (f : PSink → PSink) :
    sinkAt (modAt l s f) s' =
      if s = s' ∧ 1 ≤ s ∧ s ≤ l.length then f (sinkAt l s) else sinkAt l s' := by
  cases s with
  | zero => simp [modAt]
  | succ k =>
    cases s' with
    | zero => simp [sinkAt]
    | succ k' =>
      simp only [modAt, sinkAt, List.getD_eq_getElem?_getD, List.getElem?_modify]
      by_cases hk : k = k'
      · subst hk
        by_cases hl : k < l.length
        · simp [hl]
          omega
        · have : ¬ (k + 1 ≤ l.length) := by omega
          simp [this, List.getElem?_eq_none (Nat.le_of_not_lt hl)]
      · simp [hk]

theorem sinkAt_modAt_ne (l : List PSink) (s s' : Nat) (f : PSink → PSink) (h : s ≠ s') :
    sinkAt (modAt l s f) s' = sinkAt l s' := by
  rw [sinkAt_modAt]; simp [h]

theorem sinkAt_append (l : List PSink) (x : PSink) (s : Nat) :
    sinkAt (l ++ [x]) s = if s = l.length + 1 then x else sinkAt l s := by
  cases s with
  | zero => simp [sinkAt]
  | succ k =>
    simp only [sinkAt, List.getD_eq_getElem?_getD]
    by_cases hk : k < l.length
    · rw [List.getElem?_append_left hk]
      have : ¬ (k = l.length) := by omega
      simp [this]
    · by_cases he : k = l.length
      · subst he; simp
      · rw [List.getElem?_eq_none (by simp; omega), List.getElem?_eq_none (by omega)]
        simp [he]

theorem seenAt_map (l : List PSink) (s : Nat) :
    seenAt (l.map pview) s = ((sinkAt l s).opens, (sinkAt l s).closes) := by
  cases s with
  | zero => rfl
  | succ k =>
    simp only [seenAt, sinkAt, List.getD_eq_getElem?_getD, List.getElem?_map]
    cases l[k]? <;> rfl

theorem hopen_shared (s : PSink) : s.hopen.shared = s.shared := by
  unfold PSink.hopen PSink.uopen; split <;> (try split) <;> rfl

theorem hclose_shared (s : PSink) : s.hclose.shared = s.shared := by
  unfold PSink.hclose PSink.uclose; split <;> (try split) <;> (try split) <;> rfl

theorem ufault_shared (s : PSink) : s.ufault.shared = s.shared := rfl

/-- `RefCountedSink.Open`: the underlying `Open()` exactly at 0 → 1, never `Close()` -/
theorem hopen_of_shared (s : PSink) (h : s.shared = true) :
    s.hopen.opens = s.opens + (if s.rc = 0 then 1 else 0) ∧ s.hopen.closes = s.closes ∧
    s.hopen.rc = s.rc + 1 := by
  unfold PSink.hopen PSink.uopen
  by_cases h0 : s.rc = 0 <;> simp [h, h0]

/-- `RefCountedSink.Close`: the underlying `Close()` exactly at 1 → 0, never `Open()`; a surplus
    close changes nothing -/
theorem hclose_of_shared (s : PSink) (h : s.shared = true) :
    s.hclose.opens = s.opens ∧ s.hclose.closes = s.closes + (if s.rc = 1 then 1 else 0) ∧
    s.hclose.rc = s.rc - 1 := by
  unfold PSink.hclose PSink.uclose
  by_cases h0 : s.rc = 0
  · simp [h, h0]
  · by_cases h1 : s.rc = 1 <;> simp [h, h0, h1]

theorem hopen_of_plain (s : PSink) (h : s.shared = false) : s.hopen.rc = s.rc := by
  unfold PSink.hopen PSink.uopen; simp [h]

theorem hclose_of_plain (s : PSink) (h : s.shared = false) : s.hclose.rc = s.rc := by
  unfold PSink.hclose PSink.uclose; simp [h]

/-! ### the weak cache -/

theorem lookup_append_of_some {c : List (Nat × Nat)} {k s : Nat} (d : List (Nat × Nat))
    (h : lookup c k = some s) : lookup (c ++ d) k = some s := by
  induction c with
  | nil => simp [lookup] at h
  | cons e c ih =>
    obtain ⟨k', s'⟩ := e
    simp only [List.cons_append, lookup] at h ⊢
    split
    · rename_i hk; simpa [hk] using h
    · rename_i hk; simp only [hk, if_false] at h; exact ih h

theorem lookup_append_of_none {c : List (Nat × Nat)} {k : Nat} (s : Nat)
    (h : lookup c k = none) : lookup (c ++ [(k, s)]) k = some s := by
  induction c with
  | nil => simp [lookup]
  | cons e c ih =>
    obtain ⟨k', s'⟩ := e
    simp only [List.cons_append, lookup] at h ⊢
    split
    · rename_i hk; simp [hk] at h
    · rename_i hk; simp only [hk, if_false] at h; exact ih h

theorem lookup_filter {c : List (Nat × Nat)} {k s : Nat} (P : Nat × Nat → Bool)
    (h : lookup c k = some s) (hP : P (k, s) = true) : lookup (c.filter P) k = some s := by
  induction c with
  | nil => simp [lookup] at h
  | cons e c ih =>
    obtain ⟨k', s'⟩ := e
    simp only [lookup] at h
    by_cases hk : k' = k
    · simp only [hk, if_true] at h
      cases h
      subst hk
      simp [hP, lookup]
    · simp only [hk, if_false] at h
      rw [List.filter_cons]
      split
      · simp only [lookup, hk, if_false]; exact ih h
      · exact ih h

theorem lookup_mem {c : List (Nat × Nat)} {k s : Nat} (h : lookup c k = some s) : (k, s) ∈ c := by
  induction c with
  | nil => simp [lookup] at h
  | cons e c ih =>
    obtain ⟨k', s'⟩ := e
    simp only [lookup] at h
    by_cases hk : k' = k
    · simp only [hk, if_true] at h; cases h; subst hk; simp
    · simp only [hk, if_false] at h; exact List.mem_cons_of_mem _ (ih h)

theorem alive_of_mem {held : List Hold} {x : Hold} (h : x ∈ held) : alive held x.2.2 = true := by
  unfold alive
  rw [List.any_eq_true]
  exact ⟨x, h, by simp⟩

theorem heldBy_mem {held : List Hold} {h : Nat} {x : Hold} (hx : heldBy held h = some x) : x ∈ held :=
  List.mem_of_find?_eq_some hx

/-! ### the three cases of CreateSink, and the other operations, spelled out -/

def holdsAfter (p : Prov) (h key s : Nat) : List Hold := p.held.filter (fun x => x.1 != h) ++ [(h, key, s)]

theorem step_create_plain (p : Prov) (h : Nat) :
    p.step (.create h 0) =
      (⟨p.sinks ++ [({} : PSink)], collect (holdsAfter p h 0 (p.sinks.length + 1)) p.cache,
        holdsAfter p h 0 (p.sinks.length + 1)⟩, p.sinks.length + 1) := by
  simp [Prov.step, holdsAfter]

theorem step_create_hit (p : Prov) (h key s : Nat) (hk : key ≠ 0) (hl : lookup p.cache key = some s) :
    p.step (.create h key) =
      (⟨p.sinks, collect (holdsAfter p h key s) p.cache, holdsAfter p h key s⟩, s) := by
  simp [Prov.step, holdsAfter, hk, hl]

theorem step_create_miss (p : Prov) (h key : Nat) (hk : key ≠ 0) (hl : lookup p.cache key = none) :
    p.step (.create h key) =
      (⟨p.sinks ++ [{ shared := true }],
        collect (holdsAfter p h key (p.sinks.length + 1)) (p.cache ++ [(key, p.sinks.length + 1)]),
        holdsAfter p h key (p.sinks.length + 1)⟩, p.sinks.length + 1) := by
  simp [Prov.step, holdsAfter, hk, hl]

/-- an operation that only touches one underlying sink / wrapper -/
def touches (p : Prov) (op : POp) : Option (Nat × (PSink → PSink)) :=
  match op with
  | .hopen h => (heldBy p.held h).map (fun x => (x.2.2, PSink.hopen))
  | .hclose h => (heldBy p.held h).map (fun x => (x.2.2, PSink.hclose))
  | .fault s => some (s, PSink.ufault)
  | _ => none

/-! ### the invariant -/

structure PInvP (p : Prov) : Prop where
  /-- every key under which somebody holds a shared sink still maps to that sink -/
  look : ∀ x ∈ p.held, x.2.1 ≠ 0 → lookup p.cache x.2.1 = some x.2.2
  /-- what is held exists, and is a wrapper iff it was obtained under a sharing key -/
  hold : ∀ x ∈ p.held, 1 ≤ x.2.2 ∧ x.2.2 ≤ p.sinks.length ∧ (sinkAt p.sinks x.2.2).shared = (x.2.1 != 0)
  /-- what is cached exists and is a wrapper -/
  cach : ∀ e ∈ p.cache, 1 ≤ e.2 ∧ e.2 ≤ p.sinks.length ∧ (sinkAt p.sinks e.2).shared = true
  /-- a shared underlying sink has been opened once more than closed iff somebody has it open -/
  bal : ∀ s, (sinkAt p.sinks s).shared = true →
    (sinkAt p.sinks s).opens = (sinkAt p.sinks s).closes + (if 0 < (sinkAt p.sinks s).rc then 1 else 0)

theorem PInvP.init : PInvP {} := by
  refine ⟨?_, ?_, ?_, ?_⟩
  · intro x hx; simp at hx
  · intro x hx; simp at hx
  · intro e he; simp at he
  · intro s hs
    have : sinkAt ([] : List PSink) s = {} := by cases s <;> rfl
    rw [show ({} : Prov).sinks = [] from rfl, this] at hs
    cases hs

theorem sinkAt_append_old (l : List PSink) (x : PSink) (s : Nat) (h : s ≤ l.length) :
    sinkAt (l ++ [x]) s = sinkAt l s := by
  rw [sinkAt_append]; have : ¬ (s = l.length + 1) := by omega
  simp [this]

/-- an operation that rewrites one underlying sink / wrapper, keeping what kind of sink it is
    and the open/close balance, keeps the invariant -/
theorem PInvP.touch {p : Prov} (hi : PInvP p) (s : Nat) (f : PSink → PSink)
    (hsh : ∀ x, (f x).shared = x.shared)
    (hbal : ∀ x, x.shared = true → x.opens = x.closes + (if 0 < x.rc then 1 else 0) →
      (f x).opens = (f x).closes + (if 0 < (f x).rc then 1 else 0)) :
    PInvP { p with sinks := modAt p.sinks s f } := by
  refine ⟨hi.look, ?_, ?_, ?_⟩
  · intro x hx
    obtain ⟨h1, h2, h3⟩ := hi.hold x hx
    refine ⟨h1, by simpa [modAt_length] using h2, ?_⟩
    simp only [sinkAt_modAt]
    split
    · rename_i hc; rw [hsh, hc.1]; exact h3
    · exact h3
  · intro e he
    obtain ⟨h1, h2, h3⟩ := hi.cach e he
    refine ⟨h1, by simpa [modAt_length] using h2, ?_⟩
    simp only [sinkAt_modAt]
    split
    · rename_i hc; rw [hsh, hc.1]; exact h3
    · exact h3
  · intro s' hs'
    simp only [sinkAt_modAt] at hs' ⊢
    split
    · rename_i hc
      rw [if_pos hc, hsh] at hs'
      exact hbal _ hs' (hi.bal s hs')
    · rename_i hc
      rw [if_neg hc] at hs'
      exact hi.bal s' hs'

theorem hopen_bal (x : PSink) (h : x.shared = true)
    (hb : x.opens = x.closes + (if 0 < x.rc then 1 else 0)) :
    x.hopen.opens = x.hopen.closes + (if 0 < x.hopen.rc then 1 else 0) := by
  obtain ⟨h1, h2, h3⟩ := hopen_of_shared x h
  rw [h1, h2, h3, hb]
  by_cases h0 : x.rc = 0
  · simp [h0]
  · have : 0 < x.rc := Nat.pos_of_ne_zero h0
    simp [h0, this]

theorem hclose_bal (x : PSink) (h : x.shared = true)
    (hb : x.opens = x.closes + (if 0 < x.rc then 1 else 0)) :
    x.hclose.opens = x.hclose.closes + (if 0 < x.hclose.rc then 1 else 0) := by
  obtain ⟨h1, h2, h3⟩ := hclose_of_shared x h
  rw [h1, h2, h3, hb]
  by_cases h0 : x.rc = 0
  · simp [h0]
  · by_cases h1' : x.rc = 1
    · simp [h1']
    · have : 0 < x.rc := Nat.pos_of_ne_zero h0
      have : 0 < x.rc - 1 := by omega
      simp [*]

theorem mem_holdsAfter {p : Prov} {h key s : Nat} {x : Hold} (hx : x ∈ holdsAfter p h key s) :
    x ∈ p.held ∨ x = (h, key, s) := by
  simp only [holdsAfter, List.mem_append, List.mem_singleton] at hx
  rcases hx with hx | hx
  · exact Or.inl (List.mem_filter.1 hx).1
  · exact Or.inr hx

theorem mem_collect {held : List Hold} {c : List (Nat × Nat)} {e : Nat × Nat} (he : e ∈ collect held c) :
    e ∈ c := (List.mem_filter.1 he).1

theorem PInvP.step {p : Prov} (hi : PInvP p) (op : POp) : PInvP (p.step op).1 := by
  cases op with
  | hopen h =>
    simp only [Prov.step]
    split
    · exact hi.touch _ _ hopen_shared hopen_bal
    · exact hi
  | hclose h =>
    simp only [Prov.step]
    split
    · exact hi.touch _ _ hclose_shared hclose_bal
    · exact hi
  | fault s =>
    exact hi.touch _ _ ufault_shared (fun x _ hb => hb)
  | drop h =>
    simp only [Prov.step]
    refine ⟨?_, ?_, ?_, hi.bal⟩
    · intro x hx hk
      have hx0 : x ∈ p.held := (List.mem_filter.1 hx).1
      exact lookup_filter _ (hi.look x hx0 hk) (alive_of_mem hx)
    · intro x hx
      exact hi.hold x (List.mem_filter.1 hx).1
    · intro e he
      exact hi.cach e (mem_collect he)
  | create h key =>
    by_cases hkey : key = 0
    · subst hkey
      rw [step_create_plain]
      refine ⟨?_, ?_, ?_, ?_⟩
      · intro x hx hk
        rcases mem_holdsAfter hx with hx0 | hx0
        · exact lookup_filter _ (hi.look x hx0 hk) (alive_of_mem hx)
        · subst hx0; simp at hk
      · intro x hx
        rcases mem_holdsAfter hx with hx0 | hx0
        · obtain ⟨h1, h2, h3⟩ := hi.hold x hx0
          refine ⟨h1, by simp; omega, ?_⟩
          simp only
          rw [sinkAt_append_old _ _ _ h2]; exact h3
        · subst hx0
          refine ⟨by simp, by simp, ?_⟩
          simp only
          rw [sinkAt_append]; simp
      · intro e he
        obtain ⟨h1, h2, h3⟩ := hi.cach e (mem_collect he)
        refine ⟨h1, by simp; omega, ?_⟩
        simp only
        rw [sinkAt_append_old _ _ _ h2]; exact h3
      · intro s hs
        simp only [sinkAt_append] at hs ⊢
        split
        · rename_i hc; rw [if_pos hc] at hs; cases hs
        · rename_i hc; rw [if_neg hc] at hs; exact hi.bal s hs
    · cases hl : lookup p.cache key with
      | some s =>
        rw [step_create_hit p h key s hkey hl]
        have hc := hi.cach _ (lookup_mem hl)
        refine ⟨?_, ?_, ?_, hi.bal⟩
        · intro x hx hk
          rcases mem_holdsAfter hx with hx0 | hx0
          · exact lookup_filter _ (hi.look x hx0 hk) (alive_of_mem hx)
          · subst hx0
            exact lookup_filter _ hl (alive_of_mem (x := (h, key, s)) hx)
        · intro x hx
          rcases mem_holdsAfter hx with hx0 | hx0
          · exact hi.hold x hx0
          · subst hx0
            refine ⟨hc.1, hc.2.1, ?_⟩
            simp only
            rw [hc.2.2]; simp [hkey]
        · intro e he
          exact hi.cach e (mem_collect he)
      | none =>
        rw [step_create_miss p h key hkey hl]
        refine ⟨?_, ?_, ?_, ?_⟩
        · intro x hx hk
          rcases mem_holdsAfter hx with hx0 | hx0
          · exact lookup_filter _ (lookup_append_of_some _ (hi.look x hx0 hk)) (alive_of_mem hx)
          · subst hx0
            exact lookup_filter _ (lookup_append_of_none _ hl)
              (alive_of_mem (x := (h, key, p.sinks.length + 1)) hx)
        · intro x hx
          rcases mem_holdsAfter hx with hx0 | hx0
          · obtain ⟨h1, h2, h3⟩ := hi.hold x hx0
            refine ⟨h1, by simp; omega, ?_⟩
            simp only
            rw [sinkAt_append_old _ _ _ h2]; exact h3
          · subst hx0
            refine ⟨by simp, by simp, ?_⟩
            simp only
            rw [sinkAt_append]; simp [hkey]
        · intro e he
          have he' := mem_collect he
          simp only [List.mem_append, List.mem_singleton] at he'
          rcases he' with he' | he'
          · obtain ⟨h1, h2, h3⟩ := hi.cach e he'
            refine ⟨h1, by simp; omega, ?_⟩
            simp only
            rw [sinkAt_append_old _ _ _ h2]; exact h3
          · subst he'
            refine ⟨by simp, by simp, ?_⟩
            simp only
            rw [sinkAt_append]; simp
        · intro s hs
          simp only [sinkAt_append] at hs ⊢
          split
          · rfl
          · rename_i hc; rw [if_neg hc] at hs; exact hi.bal s hs

theorem Prov.run_inv (ops : List POp) : ∀ {p : Prov}, PInvP p → PInvP (p.run ops) := by
  induction ops with
  | nil => intro p h; exact h
  | cons op ops ih => intro p h; exact ih (h.step op)

/-- asking with a key under which somebody holds a sink yields that sink -/
theorem create_same {p : Prov} (hi : PInvP p) {x : Hold} (hx : x ∈ p.held) (hk : x.2.1 ≠ 0) (h2 : Nat) :
    p.step (.create h2 x.2.1) =
      (⟨p.sinks, collect (holdsAfter p h2 x.2.1 x.2.2) p.cache, holdsAfter p h2 x.2.1 x.2.2⟩, x.2.2) :=
  step_create_hit p h2 x.2.1 x.2.2 hk (hi.look x hx hk)

/-! ### the model's observations satisfy the provider specification -/

structure PRel (a : PAcc) (p : Prov) : Prop where
  holds : a.holds = p.held
  created : a.created = p.created
  views : a.views = p.sinks.map pview
  cnt : ∀ s, cntAt a.cnt s = (sinkAt p.sinks s).rc

theorem PRel.init : PRel {} {} := by
  refine ⟨rfl, rfl, rfl, ?_⟩
  intro s
  have : sinkAt ([] : List PSink) s = {} := by cases s <;> rfl
  rw [show ({} : Prov).sinks = [] from rfl, this]; rfl

theorem cntAt_cons (c : List (Nat × Nat)) (k n s : Nat) :
    cntAt ((k, n) :: c) s = if k = s then n else cntAt c s := rfl

/-- the spec's counts after an operation that rewrites sink `s` with `f` -/
theorem PRel.touch {a : PAcc} {p : Prov} (hr : PRel a p) (s : Nat) (f : PSink → PSink) (cnt' : List (Nat × Nat))
    (hc : ∀ s', cntAt cnt' s' =
      if s = s' ∧ 1 ≤ s ∧ s ≤ p.sinks.length then (f (sinkAt p.sinks s)).rc else cntAt a.cnt s') :
    ∀ s', cntAt cnt' s' = (sinkAt (modAt p.sinks s f) s').rc := by
  intro s'
  rw [hc, sinkAt_modAt]
  split
  · rfl
  · exact hr.cnt s'

/-- … when the rewrite leaves the wrapper's count alone -/
theorem PRel.touch_same {a : PAcc} {p : Prov} (hr : PRel a p) (s : Nat) (f : PSink → PSink)
    (hf : (f (sinkAt p.sinks s)).rc = (sinkAt p.sinks s).rc) :
    ∀ s', cntAt a.cnt s' = (sinkAt (modAt p.sinks s f) s').rc := by
  refine hr.touch s f a.cnt (fun s' => ?_)
  split
  · rename_i hc; rw [hf, ← hc.1]; exact hr.cnt s
  · rfl

theorem spec_step_sharedprov {p : Prov} {a : PAcc} (hi : PInvP p) (hr : PRel a p) (idx : Nat) (op : POp) :
    specPObs a idx op (pstep () p op).2 = .ok ∧ PRel (a.after op (pstep () p op).2) (p.step op).1 := by
  cases op with
  | drop h =>
    refine ⟨rfl, ?_, rfl, rfl, ?_⟩
    · simp [PAcc.after, Prov.step, hr.holds]
    · exact hr.cnt
  | fault s =>
    exact ⟨rfl, hr.holds, rfl, rfl, hr.touch_same s PSink.ufault rfl⟩
  | hopen h =>
    cases hh : heldBy p.held h with
    | none =>
      have hh' : heldBy a.holds h = none := by rw [hr.holds]; exact hh
      have hs : p.step (.hopen h) = (p, 0) := by simp [Prov.step, hh]
      simp only [specPObs, PAcc.after, pstep, hh', hs]
      exact ⟨trivial, hr.holds, rfl, rfl, hr.cnt⟩
    | some x =>
      have hh' : heldBy a.holds h = some x := by rw [hr.holds]; exact hh
      have hs : p.step (.hopen h) = ({ p with sinks := modAt p.sinks x.2.2 PSink.hopen }, x.2.2) := by
        simp [Prov.step, hh]
      obtain ⟨h1, h2, h3⟩ := hi.hold x (heldBy_mem hh)
      simp only [specPObs, PAcc.after, pstep, hh', hs]
      by_cases hk : x.2.1 = 0
      · simp only [hk, if_true]
        refine ⟨trivial, hr.holds, rfl, rfl, hr.touch_same _ _ (hopen_of_plain _ ?_)⟩
        rw [h3]; simp [hk]
      · have hsh : (sinkAt p.sinks x.2.2).shared = true := by rw [h3]; simp [hk]
        obtain ⟨e1, e2, e3⟩ := hopen_of_shared _ hsh
        simp only [hk, if_false]
        constructor
        · simp only [hr.views, seenAt_map, sinkAt_modAt, h1, h2, and_self, if_true, hr.cnt, e1, e2]
          by_cases h0 : (sinkAt p.sinks x.2.2).rc = 0 <;> simp [h0]
        · refine ⟨hr.holds, rfl, rfl, hr.touch _ _ _ (fun s' => ?_)⟩
          rw [cntAt_cons, hr.cnt, e3]
          by_cases hc : x.2.2 = s'
          · subst hc; simp [h1, h2]
          · simp [hc]
  | hclose h =>
    cases hh : heldBy p.held h with
    | none =>
      have hh' : heldBy a.holds h = none := by rw [hr.holds]; exact hh
      have hs : p.step (.hclose h) = (p, 0) := by simp [Prov.step, hh]
      simp only [specPObs, PAcc.after, pstep, hh', hs]
      exact ⟨trivial, hr.holds, rfl, rfl, hr.cnt⟩
    | some x =>
      have hh' : heldBy a.holds h = some x := by rw [hr.holds]; exact hh
      have hs : p.step (.hclose h) = ({ p with sinks := modAt p.sinks x.2.2 PSink.hclose }, x.2.2) := by
        simp [Prov.step, hh]
      obtain ⟨h1, h2, h3⟩ := hi.hold x (heldBy_mem hh)
      simp only [specPObs, PAcc.after, pstep, hh', hs]
      by_cases hk : x.2.1 = 0
      · simp only [hk, if_true]
        refine ⟨trivial, hr.holds, rfl, rfl, hr.touch_same _ _ (hclose_of_plain _ ?_)⟩
        rw [h3]; simp [hk]
      · have hsh : (sinkAt p.sinks x.2.2).shared = true := by rw [h3]; simp [hk]
        obtain ⟨e1, e2, e3⟩ := hclose_of_shared _ hsh
        simp only [hk, if_false]
        constructor
        · simp only [hr.views, seenAt_map, sinkAt_modAt, h1, h2, and_self, if_true, hr.cnt, e1, e2]
          by_cases h0 : (sinkAt p.sinks x.2.2).rc = 0
          · simp [h0]
          · by_cases h1' : (sinkAt p.sinks x.2.2).rc = 1
            · simp [h1']
            · have : 1 < (sinkAt p.sinks x.2.2).rc := by omega
              simp [h0, h1', this]
        · refine ⟨hr.holds, rfl, rfl, hr.touch _ _ _ (fun s' => ?_)⟩
          rw [cntAt_cons, hr.cnt, e3]
          by_cases hc : x.2.2 = s'
          · subst hc; simp [h1, h2]
          · simp [hc]
  | create h key =>
    by_cases hkey : key = 0
    · subst hkey
      have hs := step_create_plain p h
      simp only [specPObs, PAcc.after, pstep, hs, if_true]
      refine ⟨trivial, ?_, rfl, rfl, ?_⟩
      · simp only [holdsAfter, hr.holds]
      · intro s
        simp only [sinkAt_append]
        split
        · rename_i hc; subst hc
          rw [hr.cnt, sinkAt_out _ _ (by omega)]
        · exact hr.cnt s
    · cases hl : lookup p.cache key with
      | some s =>
        have hs := step_create_hit p h key s hkey hl
        simp only [specPObs, PAcc.after, pstep, hs, hkey, if_false]
        have hf : a.holds.find? (fun x => x.2.1 == key &&
            (x.2.2 != s || decide (p.created < (⟨p.sinks, collect (holdsAfter p h key s) p.cache,
              holdsAfter p h key s⟩ : Prov).created))) = none := by
          rw [List.find?_eq_none]
          intro x hx
          rw [hr.holds] at hx
          simp only [Prov.created, Nat.lt_irrefl, decide_false, Bool.or_false, Bool.and_eq_true, beq_iff_eq,
            bne_iff_ne, ne_eq, not_and, Decidable.not_not]
          intro hxk
          have := hi.look x hx (by rw [hxk]; exact hkey)
          rw [hxk, hl] at this
          exact (Option.some.inj this).symm
        rw [hf]
        refine ⟨?_, ?_, rfl, rfl, hr.cnt⟩
        · simp [Prov.created, hr.created]
        · simp only [holdsAfter, hr.holds]
      | none =>
        have hs := step_create_miss p h key hkey hl
        simp only [specPObs, PAcc.after, pstep, hs, hkey, if_false]
        have hno : ∀ x ∈ a.holds, ¬ (x.2.1 = key) := by
          intro x hx hxk
          rw [hr.holds] at hx
          have := hi.look x hx (by rw [hxk]; exact hkey)
          rw [hxk, hl] at this
          cases this
        have hf : ∀ (b : Hold → Bool), a.holds.find? (fun x => x.2.1 == key && b x) = none := by
          intro b
          rw [List.find?_eq_none]
          intro x hx
          simp [hno x hx]
        have ha : a.holds.any (fun x => x.2.1 == key) = false := by
          rw [List.any_eq_false]
          intro x hx
          simp [hno x hx]
        rw [hf, ha]
        refine ⟨rfl, ?_, rfl, rfl, ?_⟩
        · simp only [holdsAfter, hr.holds]
        · intro s
          simp only [sinkAt_append]
          split
          · rename_i hc; subst hc
            rw [hr.cnt, sinkAt_out _ _ (by omega)]
          · exact hr.cnt s

theorem spec_sharedprov_go (ops : List POp) :
    ∀ (p : Prov) (a : PAcc) (idx : Nat), PInvP p → PRel a p →
      specPGo a idx (sharedprovCore.trace () p ops) = .ok := by
  induction ops with
  | nil => intros; rfl
  | cons op ops ih =>
    intro p a idx hi hr
    obtain ⟨h1, h2⟩ := spec_step_sharedprov hi hr idx op
    simp only [TComp.trace, sharedprovCore, specPGo]
    rw [h1]
    exact ih _ _ _ (hi.step op) h2

end Scales.Shared
