/-
  Proofs/ResMuxFacts.lean — consequences of the invariant and the coupling of the ThriftMux chain
  model for reachable states: the clauses of C09, stated on the model.
-/
import ScalesModel.Proofs.ResMuxSpec
set_option linter.unusedSimpArgs false
set_option linter.unusedVariables false
namespace Scales.ResMux
open Scales.Transport
open Scales.MuxT
open Scales.Res (Par nextWait Grows)

theorem ph_of_cfg (c : Cfg) (h : cfgWF c = true) : PH c.par := by
  simp only [cfgWF, Bool.and_eq_true] at h
  exact ⟨Res.cfg_init_pos c.res h.1, Res.cfg_init_le c.res h.1, Res.cfg_grows c.res h.1⟩

theorem cpl_init (p : P) : Cpl p {} {} := by
  refine ⟨rfl, rfl, rfl, rfl, rfl, by rw [connOf_init], ?_, ?_, ?_, ?_⟩
  · intro hx; exact absurd rfl hx
  · intro hx; exact absurd connOf_init hx
  · intro wk w hx; cases hx
  · intro w hx; cases hx

theorem model_satisfies_spec (cfg : Cfg) (ops : List Op) (h : comp.wf cfg ops = true) :
    comp.spec cfg (comp.modelTrace cfg ops) = .ok := by
  have h' : cfgWF cfg = true ∧ wfGo cfg.par {} false false [] ops = true := by
    simpa [comp, Bool.and_eq_true] using h
  exact spec_trace cfg (ph_of_cfg cfg h'.1) ops {} {} false false [] 0 (ginv_init cfg.par)
    (fun _ => cpl_init cfg.par) (fun hx => by cases hx) h'.2

/-- the invariant in every state an admissible history reaches -/
theorem reach_inv (cfg : Cfg) (ops : List Op) (h : comp.wf cfg ops = true) :
    CInv cfg.par true (runOps cfg.par {} ops) := by
  have h' : cfgWF cfg = true ∧ wfGo cfg.par {} false false [] ops = true := by
    simpa [comp, Bool.and_eq_true] using h
  obtain ⟨o, c, hg⟩ := run_ginv cfg.par (ph_of_cfg cfg h'.1) ops {} false false [] (ginv_init cfg.par) h'.2
  exact hg.inv

/-- a step of a transport to which nothing is subscribed and which no retry greenlet is opening
    changes nothing in the resurrector -/
theorem absorb_idle (p : P) (s : St) (t' : MuxT.St) (o : MuxT.Out) (hsub : s.sub = false)
    (hrg : ∀ w, s.rg ≠ .opening w) :
    (absorb p s t' o).1.rg = s.rg ∧ (absorb p s t' o).1.down = s.down ∧ (absorb p s t' o).1.sub = s.sub ∧
    (absorb p s t' o).1.inst = s.inst ∧ (absorb p s t' o).1.reach = s.reach ∧
    (absorb p s t' o).1.now = s.now ∧ (absorb p s t' o).1.made = s.made ∧ (absorb p s t' o).1.ups = s.ups := by
  have e : (settle p s t').1.sub = s.sub ∧ (settle p s t').1.rg = s.rg := ⟨rfl, rfl⟩
  have hr : react p (settle p s t').1 o.eff.faults = (settle p s t').1 := by simp [react, e.1, hsub]
  have hrs : resume p (settle p s t').1 t'.openRes = (settle p s t').1 := by
    unfold resume; rw [e.2]
    cases hx : s.rg with
    | opening w => exact absurd hx (hrg w)
    | none => rfl
    | sleep wk w => rfl
  simp only [absorb, hr, hrs]
  exact ⟨rfl, rfl, rfl, rfl, rfl, rfl, rfl, rfl⟩

/-! ### the transport through an answered handshake -/

/-- the Tping is on the wire -/
def tOk1 : MuxT.St := { tOk with sl := .waitQ }
/-- the header of the peer's first frame has been read -/
def tOk2 : MuxT.St := { tOk1 with rl := .body }
/-- that frame was the Rping: open -/
def tUp : MuxT.St :=
  { cstate := .opened, hasOpenResult := true, opening := false, openRes := .ok, tagMap := [], sendQ := [],
    sl := .waitQ, rl := .hdr, pingLoop := true, pingWait := false, pending := [] }

theorem tOk_wr : tOk.wr .ok = (tOk1, { sent := [.ping] }) := rfl
theorem tOk1_hdr : tOk1.burst [(.ok, .junk)] = (tOk2, {}) := rfl
theorem tOk2_rping : tOk2.burst [(.ok, .rping)] = (tUp, {}) := rfl

/-- the clock reaches the retry greenlet's wake instant while the endpoint accepts connections -/
theorem doTick_wake (p : P) (hp : PH p) (s : St) (wk w : Nat) (h : CInv p true s)
    (hrg : s.rg = .sleep wk w) (hr : s.reach = true) :
    (doTick p s (wk - s.now)).1.tr = tOk ∧ (doTick p s (wk - s.now)).1.rg = .opening w ∧
    (doTick p s (wk - s.now)).1.down = true ∧ (doTick p s (wk - s.now)).1.sub = false ∧
    (doTick p s (wk - s.now)).1.inst = false ∧ (doTick p s (wk - s.now)).1.now = wk ∧
    (doTick p s (wk - s.now)).2.conns = 1 := by
  obtain ⟨_, s1, _, _, _, s5⟩ := h.sl wk w hrg
  have hlt := s1 rfl
  have hdn : s.down = true := by
    cases hd : s.down with
    | true => rfl
    | false => have := h.up hd; rw [hrg] at this; cases this
  obtain ⟨hin, hsub, _⟩ := h.dn hdn
  have hno : ∀ w', RG.sleep wk w ≠ RG.opening w' := by intro w' hx; cases hx
  -- the ping helper and the ping loop of the dead transport, if anything of them is left
  have e1 : (tickPing p { s with now := s.now + (wk - s.now) }).1.rg = .sleep wk w ∧
      (tickPing p { s with now := s.now + (wk - s.now) }).1.down = true ∧
      (tickPing p { s with now := s.now + (wk - s.now) }).1.sub = false ∧
      (tickPing p { s with now := s.now + (wk - s.now) }).1.inst = false ∧
      (tickPing p { s with now := s.now + (wk - s.now) }).1.reach = true ∧
      (tickPing p { s with now := s.now + (wk - s.now) }).1.now = wk ∧
      (tickPing p { s with now := s.now + (wk - s.now) }).2.conns = 0 := by
    unfold tickPing
    split
    · obtain ⟨a1, a2, a3, a4, a5, a6, _, _⟩ := absorb_idle p ({ s with now := s.now + (wk - s.now) } : St)
        s.tr.pingSilence.1 s.tr.pingSilence.2 hsub (by intro w' hx; rw [show ({ s with now := s.now + (wk - s.now) } : St).rg = s.rg from rfl, hrg] at hx; exact hno w' hx)
      refine ⟨by rw [a1]; exact hrg, by rw [a2]; exact hdn, by rw [a3]; exact hsub, by rw [a4]; exact hin,
        by rw [a5]; exact hr, by rw [a6]; show s.now + (wk - s.now) = wk; omega, ?_⟩
      rw [absorb_conns]
      exact (tstep_pingSilence h.tr).1.conns
    · exact ⟨hrg, hdn, hsub, hin, hr, by show s.now + (wk - s.now) = wk; omega, rfl⟩
  have t1 : TInv (tickPing p { s with now := s.now + (wk - s.now) }).1.tr := by
    have h0 : CInv p false ({ s with now := s.now + (wk - s.now) } : St) := by
      refine ⟨h.tr, h.dn, h.up, h.sb, ?_, h.og⟩
      intro wk' w' hx
      obtain ⟨x1, x2, x3, x4⟩ := h.sl wk' w' hx
      have : wk' = wk := by rw [hrg] at hx; injection hx with h1 _; exact h1.symm
      subst this
      exact ⟨by show s.now + (wk' - s.now) ≤ wk'; omega, (fun hf => by cases hf),
        (by show wk' ≤ s.now + (wk' - s.now) + p.r.maxW; omega), x4⟩
    exact (tickPing_inv p hp _ h0).1.tr
  unfold doTick
  simp only
  generalize (tickPing p { s with now := s.now + (wk - s.now) }) = r1 at e1 t1 ⊢
  have e2 : (tickLoop p r1.1).1.rg = .sleep wk w ∧ (tickLoop p r1.1).1.down = true ∧
      (tickLoop p r1.1).1.sub = false ∧ (tickLoop p r1.1).1.inst = false ∧
      (tickLoop p r1.1).1.reach = true ∧ (tickLoop p r1.1).1.now = wk ∧ (tickLoop p r1.1).2.conns = 0 := by
    unfold tickLoop
    split
    · obtain ⟨a1, a2, a3, a4, a5, a6, _, _⟩ := absorb_idle p r1.1 r1.1.tr.pingDue.1 r1.1.tr.pingDue.2 e1.2.2.1
        (by intro w' hx; rw [e1.1] at hx; exact hno w' hx)
      refine ⟨by show (absorb p r1.1 _ _).1.rg = _; rw [a1]; exact e1.1,
        by show (absorb p r1.1 _ _).1.down = _; rw [a2]; exact e1.2.1,
        by show (absorb p r1.1 _ _).1.sub = _; rw [a3]; exact e1.2.2.1,
        by show (absorb p r1.1 _ _).1.inst = _; rw [a4]; exact e1.2.2.2.1,
        by show (absorb p r1.1 _ _).1.reach = _; rw [a5]; exact e1.2.2.2.2.1,
        by show (absorb p r1.1 _ _).1.now = _; rw [a6]; exact e1.2.2.2.2.2.1, ?_⟩
      show (absorb p r1.1 _ _).2.conns = 0
      rw [absorb_conns]
      exact (tstep_pingDue t1).1.conns
    · exact ⟨e1.1, e1.2.1, e1.2.2.1, e1.2.2.2.1, e1.2.2.2.2.1, e1.2.2.2.2.2.1, rfl⟩
  generalize (tickLoop p r1.1) = r2 at e2 ⊢
  obtain ⟨g1, g2, g3, g4, g5, g6, g7⟩ := e2
  have hw : tickWake p r2.1 = resWake p r2.1 w := by
    unfold tickWake; rw [g1]; simp [g6]
  rw [hw, resWake_up p r2.1 w g5]
  refine ⟨rfl, rfl, g2, g3, g4, g6, ?_⟩
  show r1.2.conns + r2.2.conns + 1 = 1
  rw [e1.2.2.2.2.2.2, g7]

/-- a step of the transport a retry greenlet is opening, while its open result stays pending -/
theorem absorb_pending (p : P) (s : St) (t' : MuxT.St) (o : MuxT.Out) (w : Nat) (hrg : s.rg = .opening w)
    (hsub : s.sub = false) (h1 : s.tr.openRes = .pending) (h2 : t'.openRes = .pending) :
    (absorb p s t' o).1.tr = t' ∧ (absorb p s t' o).1.rg = .opening w ∧ (absorb p s t' o).1.down = s.down ∧
    (absorb p s t' o).1.sub = false ∧ (absorb p s t' o).1.inst = s.inst ∧ (absorb p s t' o).1.now = s.now := by
  have e : (settle p s t').1.sub = s.sub ∧ (settle p s t').1.rg = s.rg ∧ (settle p s t').1.tr = t' := by
    refine ⟨rfl, rfl, ?_⟩
    simp [settle, h1, h2]
  have hr : react p (settle p s t').1 o.eff.faults = (settle p s t').1 := by simp [react, e.1, hsub]
  have hrs : resume p (settle p s t').1 t'.openRes = (settle p s t').1 := by
    unfold resume; rw [e.2.1, hrg]; simp [h2]
  simp only [absorb, hr, hrs]
  exact ⟨e.2.2, by rw [e.2.1]; exact hrg, rfl, hsub, rfl, rfl⟩

/-- the step that answers the handshake of the transport a retry greenlet is opening -/
theorem absorb_answered (p : P) (s : St) (t' : MuxT.St) (o : MuxT.Out) (w : Nat) (hrg : s.rg = .opening w)
    (hsub : s.sub = false) (hdn : s.down = true) (h2 : t'.openRes = .ok) :
    (absorb p s t' o).1.rg = .none ∧ (absorb p s t' o).1.down = false ∧ (absorb p s t' o).1.sub = true ∧
    (absorb p s t' o).1.inst = true := by
  have e : (settle p s t').1.sub = s.sub ∧ (settle p s t').1.rg = s.rg ∧ (settle p s t').1.down = s.down :=
    ⟨rfl, rfl, rfl⟩
  have hr : react p (settle p s t').1 o.eff.faults = (settle p s t').1 := by simp [react, e.1, hsub]
  simp only [absorb, hr]
  unfold resume
  rw [e.2.1, hrg]
  simp [h2, resSuccess, e.2.2, hdn]

/-- the failure of the transport a retry greenlet is opening -/
theorem absorb_failed (p : P) (s : St) (t' : MuxT.St) (o : MuxT.Out) (w : Nat) (hrg : s.rg = .opening w)
    (hsub : s.sub = false) (h2 : t'.openRes = .failed) :
    (absorb p s t' o).1.rg = .sleep (s.now + nextWait p.r w) (nextWait p.r w) ∧
    (absorb p s t' o).1.down = s.down ∧ (absorb p s t' o).1.inst = s.inst ∧ (absorb p s t' o).1.sub = false := by
  have e : (settle p s t').1.sub = s.sub ∧ (settle p s t').1.rg = s.rg ∧ (settle p s t').1.now = s.now :=
    ⟨rfl, rfl, rfl⟩
  have hr : react p (settle p s t').1 o.eff.faults = (settle p s t').1 := by simp [react, e.1, hsub]
  simp only [absorb, hr]
  unfold resume
  rw [e.2.1, hrg]
  simp [h2, resFailure, e.2.2, hsub]
  exact ⟨rfl, rfl, hsub⟩

/-- the fault signal of the installed, subscribed transport -/
theorem absorb_fault (p : P) (s : St) (t' : MuxT.St) (o : MuxT.Out) (hsub : s.sub = true) (hdn : s.down = false)
    (hrg : s.rg = .none) (hf : 0 < o.eff.faults) :
    (absorb p s t' o).1.down = true ∧ (absorb p s t' o).1.inst = false ∧ (absorb p s t' o).1.sub = false ∧
    (absorb p s t' o).1.rg = .sleep (s.now + p.r.init) p.r.init ∧ (absorb p s t' o).1.ups = s.ups + 1 ∧
    ∀ d ∈ o.eff.dels, (d.1, cvt d.2) ∈ (absorb p s t' o).2.dels := by
  have e : (settle p s t').1.sub = s.sub ∧ (settle p s t').1.rg = s.rg ∧ (settle p s t').1.now = s.now ∧
      (settle p s t').1.down = s.down ∧ (settle p s t').1.ups = s.ups := ⟨rfl, rfl, rfl, rfl, rfl⟩
  have hd : ∀ d ∈ o.eff.dels, (d.1, cvt d.2) ∈ (absorb p s t' o).2.dels := by
    intro d hd
    simp only [absorb, cvtDels, List.mem_map]
    exact ⟨d, List.mem_append_left _ hd, rfl⟩
  refine ⟨?_, ?_, ?_, ?_, ?_, hd⟩ <;>
    simp only [absorb] <;> generalize (settle p s t').1 = x at e <;>
    simp [react, hf, e.1, hsub, onFault, e.2.2.2.1, hdn, resume, e.2.2.1, e.2.2.2.2]

/-! ### recovery -/

theorem settle_tr_nopend (p : P) (s : St) (t' : MuxT.St) (h : s.tr.openRes ≠ .pending) :
    (settle p s t').1.tr = t' := by
  simp [settle, h]

theorem tinv_tUp : TInv tUp := by
  refine ⟨by simp [Inv0, tUp], rfl, ?_⟩
  constructor <;> simp [tUp]

/-- In a reachable fail-fast state whose retry greenlet is asleep: the wake instant is at most one
    maximum interval ahead; if the endpoint accepts connections then, the greenlet connects at
    that instant; and if the peer then takes the Tping and answers it, the resurrector installs
    the new transport, leaves fail-fast mode and reports Open, and the next request is accepted,
    entered in the tag map and queued for transmission. -/
theorem recovers (p : P) (hp : PH p) (s : St) (h : CInv p true s) (wk w : Nat) (hrg : s.rg = .sleep wk w) :
    s.now < wk ∧ wk ≤ s.now + p.r.maxW ∧
    (s.reach = true →
      (doTick p s (wk - s.now)).2.conns = 1 ∧
      (doBurst p (doBurst p (doWr p (doTick p s (wk - s.now)).1 .ok).1 [(.ok, .junk)]).1 [(.ok, .rping)]).1.down = false ∧
      (doBurst p (doBurst p (doWr p (doTick p s (wk - s.now)).1 .ok).1 [(.ok, .junk)]).1 [(.ok, .rping)]).1.inst = true ∧
      stateOf (doBurst p (doBurst p (doWr p (doTick p s (wk - s.now)).1 .ok).1 [(.ok, .junk)]).1 [(.ok, .rping)]).1 = .opened ∧
      ∀ id,
        (doReq p (doBurst p (doBurst p (doWr p (doTick p s (wk - s.now)).1 .ok).1 [(.ok, .junk)]).1 [(.ok, .rping)]).1 id).2.dels = [] ∧
        (tagOf id, id) ∈ (doReq p (doBurst p (doBurst p (doWr p (doTick p s (wk - s.now)).1 .ok).1 [(.ok, .junk)]).1 [(.ok, .rping)]).1 id).1.tr.tagMap ∧
        Item.req (tagOf id) id ∈ qItems (doReq p (doBurst p (doBurst p (doWr p (doTick p s (wk - s.now)).1 .ok).1 [(.ok, .junk)]).1 [(.ok, .rping)]).1 id).1.tr) := by
  obtain ⟨_, s1, s2, _, _, _⟩ := h.sl wk w hrg
  refine ⟨s1 rfl, s2, ?_⟩
  intro hr
  obtain ⟨a1, a2, a3, a4, a5, a6, a7⟩ := doTick_wake p hp s wk w h hrg hr
  generalize (doTick p s (wk - s.now)) = r1 at *
  -- the Tping is written
  have b := absorb_pending p r1.1 (r1.1.tr.wr .ok).1 (r1.1.tr.wr .ok).2 w a2 a4 (by rw [a1]; rfl)
    (by rw [a1, tOk_wr]; rfl)
  rw [a1, tOk_wr] at b
  have e2 : doWr p r1.1 .ok = absorb p r1.1 tOk1 { sent := [.ping] } := by
    simp only [doWr, a1, tOk_wr]
  obtain ⟨b1, b2, b3, b4, b5, b6⟩ := b
  rw [← e2] at b1 b2 b3 b4 b5 b6
  generalize (doWr p r1.1 .ok) = r2 at *
  -- the header of the peer's frame
  have c := absorb_pending p r2.1 (r2.1.tr.burst [(.ok, .junk)]).1 (r2.1.tr.burst [(.ok, .junk)]).2 w b2 b4
    (by rw [b1]; rfl) (by rw [b1, tOk1_hdr]; rfl)
  rw [b1, tOk1_hdr] at c
  have e3 : doBurst p r2.1 [(.ok, .junk)] = absorb p r2.1 tOk2 {} := by
    simp only [doBurst, b1, tOk1_hdr]
  obtain ⟨c1, c2, c3, c4, c5, c6⟩ := c
  rw [← e3] at c1 c2 c3 c4 c5 c6
  generalize (doBurst p r2.1 [(.ok, .junk)]) = r3 at *
  -- the Rping
  have e4 : doBurst p r3.1 [(.ok, .rping)] = absorb p r3.1 tUp {} := by
    simp only [doBurst, c1, tOk2_rping]
  have d := absorb_answered p r3.1 tUp {} w c2 c4 (by rw [c3, b3]; exact a3) rfl
  obtain ⟨f1, f2, f3, f4, _⟩ := settle_facts p r3.1 tUp tinv_tUp
  have dtr : (absorb p r3.1 tUp {}).1.tr = (settle p r3.1 tUp).1.tr := absorb_tr p r3.1 tUp {}
  rw [← e4] at d dtr
  obtain ⟨d1, d2, d3, d4⟩ := d
  generalize (doBurst p r3.1 [(.ok, .rping)]) = r4 at *
  have hcs : r4.1.tr.cstate = .opened := by rw [dtr, f2]; rfl
  have hop : r4.1.tr.opening = false := by rw [dtr, f3]; rfl
  refine ⟨a7, d2, d4, by simp [stateOf, d2, d4, hcs], ?_⟩
  intro id
  have hnp : r4.1.tr.openRes ≠ .pending := by
    rw [dtr]
    intro hx
    have := (f1.core.orp hx)
    rw [f3] at this; cases this
  obtain ⟨g1, g2, g3, _, _⟩ := open_carries r4.1.tr id (tagOf id) hcs hop
  have e5 : doReq p r4.1 id = absorb p r4.1 (r4.1.tr.request id (tagOf id)).1 (r4.1.tr.request id (tagOf id)).2 := by
    simp [doReq, d4, hop]
  rw [e5]
  have htr : (absorb p r4.1 (r4.1.tr.request id (tagOf id)).1 (r4.1.tr.request id (tagOf id)).2).1.tr =
      (r4.1.tr.request id (tagOf id)).1 := by
    rw [absorb_tr, settle_tr_nopend p r4.1 _ hnp]
  refine ⟨?_, by rw [htr]; exact g2, by rw [htr]; exact g3⟩
  show cvtDels ((r4.1.tr.request id (tagOf id)).2.eff.dels ++ (settle p r4.1 (r4.1.tr.request id (tagOf id)).1).2) = []
  rw [g1, settle_dels_nopend p r4.1 _ hnp]
  rfl

/-! ### after `Close()` -/

theorem trace_conns_closed (cfg : Cfg) (hp : PH cfg.par) : ∀ (ops : List Op) (s : St) (opened : Bool)
    (seen : List Nat), GInv cfg.par s opened true → wfGo cfg.par s opened true seen ops = true →
    ∀ x ∈ comp.trace cfg s ops, x.2.conns = 0 := by
  intro ops
  induction ops with
  | nil => intro s o seen _ _ x hx; simp [TComp.trace] at hx
  | cons op rest ih =>
    intro s o seen hg hw x hx
    simp only [wfGo, Bool.and_eq_true] at hw
    simp only [TComp.trace, comp, List.mem_cons] at hx
    rcases hx with e | e
    · rw [e]; exact step_conns_closed cfg.par hp s o seen op hg hw.1
    · have hg' := step_ginv cfg.par hp s o true seen op hg hw.1
      simp only [Bool.true_or] at hg'
      exact ih _ _ _ hg' hw.2 x e

theorem closed_stops_connects (cfg : Cfg) (hp : PH cfg.par) (ops2 : List Op) : ∀ (ops1 : List Op) (s : St)
    (opened closed : Bool) (seen : List Nat), GInv cfg.par s opened closed →
    wfGo cfg.par s opened closed seen (ops1 ++ Op.close :: ops2) = true →
    ∀ x ∈ comp.trace cfg (runOps cfg.par s (ops1 ++ [Op.close])) ops2, x.2.conns = 0 := by
  intro ops1
  induction ops1 with
  | nil =>
    intro s o c seen hg hw x hx
    simp only [List.nil_append, wfGo, Bool.and_eq_true] at hw
    have hg' := step_ginv cfg.par hp s o c seen .close hg hw.1
    have hcl : (c || isClose Op.close) = true := by simp [isClose]
    rw [hcl] at hg'
    have hw2 := hw.2
    rw [hcl] at hw2
    exact trace_conns_closed cfg hp ops2 _ _ _ hg' hw2 x hx
  | cons op rest ih =>
    intro s o c seen hg hw x hx
    simp only [List.cons_append, wfGo, Bool.and_eq_true] at hw
    exact ih _ _ _ _ (step_ginv cfg.par hp s o c seen op hg hw.1) hw.2 x hx

end Scales.ResMux
