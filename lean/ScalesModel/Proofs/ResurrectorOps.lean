/-
  Proofs/ResurrectorOps.lean — every admissible operation keeps the model coupled with the
  specification automaton, and the automaton accepts the model's observation.
-/
import ScalesModel.Proofs.ResurrectorInv
namespace Scales.Res

@[simp] theorem clearEv_fields (s : St) :
    (clearEv s).down = s.down ∧ (clearEv s).next = s.next ∧ (clearEv s).subs = s.subs ∧
    (clearEv s).res = s.res ∧ (clearEv s).now = s.now ∧ (clearEv s).sinks = s.sinks ∧
    (clearEv s).reach = s.reach ∧ (clearEv s).ev = [] ∧ (clearEv s).ups = s.ups ∧
    (clearEv s).tasks = s.tasks := ⟨rfl, rfl, rfl, rfl, rfl, rfl, rfl, rfl, rfl, rfl⟩

theorem sleeping_congr (p : Par) (s s' : St) (le : Nat) (ld : Option Nat) (hz : Sleeping p s le ld)
    (e4 : s'.res = s.res) (e5 : s'.now = s.now) (e6 : ∀ x, x ∈ s.tasks → x ∈ s'.tasks) :
    Sleeping p s' le ld := by
  rcases hz with ⟨h1, h2, h3, h4⟩ | ⟨wk, w, h1, h2⟩
  · exact Or.inl ⟨by rw [e4, h1], e6 _ h2, by rw [e5]; exact h3, h4⟩
  · exact Or.inr ⟨wk, w, by rw [e4, h1], by rw [e5]; exact h2⟩

/-- the coupling only looks at `down next subs res now tasks` of the model and at
    `known pend pendOk raised inst lastEnd lastDelay` of the specification state -/
theorem live_congr (p : Par) (s s' : St) (a a' : SS) (h : Live p s a)
    (e1 : s'.down = s.down) (e2 : s'.next = s.next) (e3 : s'.subs = s.subs) (e4 : s'.res = s.res)
    (e5 : s'.now = s.now) (e6 : s'.tasks = s.tasks)
    (f1 : a'.known = a.known) (f2 : a'.pend = a.pend) (f3 : a'.pendOk = a.pendOk) (f4 : a'.raised = a.raised)
    (f5 : a'.inst = a.inst) (f6 : a'.lastEnd = a.lastEnd) (f7 : a'.lastDelay = a.lastDelay) :
    Live p s' a' := by
  have dc : DownCore s → DownCore s' := by
    intro ⟨x, y, z⟩; exact ⟨by rw [e1, x], by rw [e2, y], by rw [e3, z]⟩
  cases h with
  | up h1 h2 h3 hd hn hs hr hk hi =>
    exact .up (f1 ▸ h1) (f2 ▸ h2) (f3 ▸ h3) (by rw [e1, hd]) (by rw [e2, hn, f5]) (by rw [e3, hs, f5])
      (by rw [e4, hr]) (by rw [f5, f4, e6]; exact hk) (by rw [f5, f4]; exact hi)
  | upDown h1 h2 h3 h4 hc hz =>
    exact .upDown (f1 ▸ h1) (f2 ▸ h2) (f3 ▸ h3) (f4 ▸ h4) (dc hc)
      (e5 ▸ sleeping_congr p s s' _ _ hz e4 e5 (fun x hx => e6 ▸ hx))
  | resumingR k w h1 h2 h3 h4 h5 hc hr htt =>
    exact .resumingR k w (f1 ▸ h1) (f2 ▸ h2) (f3 ▸ h3) (f4 ▸ h4) (f5 ▸ h5) (dc hc) (by rw [e4, hr]) (e6 ▸ htt)
  | sleeping h1 h2 h3 h4 h5 hc hz =>
    exact .sleeping (f1 ▸ h1) (f2 ▸ h2) (f3 ▸ h3) (f4 ▸ h4) (f5 ▸ h5) (dc hc)
      (f6 ▸ f7 ▸ sleeping_congr p s s' _ _ hz e4 e5 (fun x hx => e6 ▸ hx))
  | failing k w h1 h2 h3 h4 h5 hc hr htt hl hw =>
    exact .failing k w (f1 ▸ h1) (f2 ▸ h2) (f3 ▸ h3) (f4 ▸ h4) (f5 ▸ h5) (dc hc) (by rw [e4, hr]) (e6 ▸ htt)
      (by rw [f6, e5, hl]) (f7 ▸ hw)
  | pending k w h1 h2 h3 h4 h5 hc hr hnk hw =>
    exact .pending k w (f1 ▸ h1) (f2 ▸ h2) (f3 ▸ h3) (f4 ▸ h4) (f5 ▸ h5) (dc hc) (by rw [e4, hr]) (e6 ▸ hnk) (f7 ▸ hw)
  | resuming k w h1 h2 h3 h4 h5 hc hr htt hnk =>
    exact .resuming k w (f1 ▸ h1) (f2 ▸ h2) (f3 ▸ h3) (f4 ▸ h4) (f5 ▸ h5) (dc hc) (by rw [e4, hr]) (e6 ▸ htt) (e6 ▸ hnk)
  | resumed k h1 h2 h3 h4 h5 hd hn hs hr hnk =>
    exact .resumed k (f1 ▸ h1) (f2 ▸ h2) (f3 ▸ h3) (f4 ▸ h4) (f5 ▸ h5) (by rw [e1, hd]) (by rw [e2, hn])
      (by rw [e3, hs]) (by rw [e4, hr]) (e6 ▸ hnk)

/-- the coupling at operation boundaries -/
structure Cpl (p : Par) (s : St) (a : SS) (opened closed : Bool) : Prop where
  hclosed : a.closed = closed
  hq : QInv s closed
  hlive : closed = false → Live p s a ∧ a.now = s.now ∧ a.reach = s.reach
  hshut : closed = true → Shut s
  /-- a delivered fault is known to the specification at the end of the operation -/
  hst : closed = false → a.known = false → a.raised = true → s.down = true →
    ∃ k w, s.res = .opening k w .ok
  hidle : opened = false → closed = false → a.inst = none ∧ a.known = false ∧ a.raised = false ∧ s.sinks = []




theorem step_reach (cfg : Cfg) (s : St) (a : SS) (o c : Bool) (idx : Nat) (r : Reach)
    (hC : Cpl cfg.par s a o c) :
    ∃ a', specStep cfg a idx (.reach r)
        (obsOf (stepSt cfg.par (clearEv s) (.reach r)).1 (stepSt cfg.par (clearEv s) (.reach r)).2) = (.ok, a') ∧
      Cpl cfg.par (stepSt cfg.par (clearEv s) (.reach r)).1 a' o c := by
  have hs' : (stepSt cfg.par (clearEv s) (.reach r)).1 = { clearEv s with reach := r } := rfl
  rw [hs']
  cases c with
  | true =>
    have hcl : a.closed = true := hC.hclosed
    refine ⟨a, by simp [specStep, hcl, obsOf, firstCreate], ?_⟩
    exact ⟨hcl, ⟨hC.hq.bound, (by intro h; cases h)⟩, (by intro h; cases h), fun _ => hC.hshut rfl,
      (by intro h; cases h), (by intro _ h; cases h)⟩
  | false =>
    have hcl : a.closed = false := hC.hclosed
    obtain ⟨hl, hn, hr⟩ := hC.hlive rfl
    refine ⟨{ a with reach := r, reachSince := a.now }, by simp [specStep, hcl], ?_⟩
    refine ⟨hcl, ⟨hC.hq.bound, hC.hq.nokill⟩, fun _ => ⟨?_, hn, rfl⟩, (by intro h; cases h), hC.hst, hC.hidle⟩
    exact live_congr _ s _ a _ hl rfl rfl rfl rfl rfl rfl rfl rfl rfl rfl rfl rfl rfl




/-- appending a task the current form is not sensitive to -/
theorem live_push (p : Par) (s s' : St) (a : SS) (x : Task) (h : Live p s a)
    (hsafe : ∀ j, x = .notify j → a.inst ≠ some j ∧ a.pend ≠ some j ∧ a.pendOk ≠ some j)
    (e1 : s'.down = s.down) (e2 : s'.next = s.next) (e3 : s'.subs = s.subs) (e4 : s'.res = s.res)
    (e5 : s'.now = s.now) (e6 : s'.tasks = s.tasks ++ [x]) : Live p s' a := by
  have dc : DownCore s → DownCore s' := by
    intro ⟨x, y, z⟩; exact ⟨by rw [e1, x], by rw [e2, y], by rw [e3, z]⟩
  have mono : ∀ y, y ∈ s.tasks → y ∈ s'.tasks := by
    intro y hy; rw [e6]; exact List.mem_append_left _ hy
  have nn : ∀ k, (a.inst = some k ∨ a.pend = some k ∨ a.pendOk = some k) → Task.notify k ∉ s.tasks →
      Task.notify k ∉ s'.tasks := by
    intro k hk hn hm
    rw [e6] at hm
    rcases List.mem_append.mp hm with hm | hm
    · exact hn hm
    · have : x = .notify k := (List.mem_singleton.mp hm).symm
      obtain ⟨c1, c2, c3⟩ := hsafe k this
      rcases hk with hk | hk | hk
      · exact c1 hk
      · exact c2 hk
      · exact c3 hk
  cases h with
  | up h1 h2 h3 hd hn hs hr hk hi =>
    refine .up h1 h2 h3 (by rw [e1, hd]) (by rw [e2, hn]) (by rw [e3, hs]) (by rw [e4, hr]) ?_ hi
    intro k hk'
    rw [hk k hk']
    constructor
    · exact mono _
    · intro hm
      by_cases hc : Task.notify k ∈ s.tasks
      · exact hc
      · exact (nn k (Or.inl hk') hc hm).elim
  | upDown h1 h2 h3 h4 hc hz =>
    exact .upDown h1 h2 h3 h4 (dc hc) (e5 ▸ sleeping_congr p s s' _ _ hz e4 e5 mono)
  | resumingR k w h1 h2 h3 h4 h5 hc hr htt =>
    obtain ⟨pre, post, he, hp, hq⟩ := htt
    exact .resumingR k w h1 h2 h3 h4 h5 (dc hc) (by rw [e4, hr])
      ⟨pre, post ++ [x], by rw [e6, he]; simp, hp, List.mem_append_left _ hq⟩
  | sleeping h1 h2 h3 h4 h5 hc hz =>
    exact .sleeping h1 h2 h3 h4 h5 (dc hc) (sleeping_congr p s s' _ _ hz e4 e5 mono)
  | failing k w h1 h2 h3 h4 h5 hc hr htt hl hw =>
    exact .failing k w h1 h2 h3 h4 h5 (dc hc) (by rw [e4, hr]) (mono _ htt) (by rw [e5, hl]) hw
  | pending k w h1 h2 h3 h4 h5 hc hr hnk hw =>
    exact .pending k w h1 h2 h3 h4 h5 (dc hc) (by rw [e4, hr]) (nn k (Or.inr (Or.inl h2)) hnk) hw
  | resuming k w h1 h2 h3 h4 h5 hc hr htt hnk =>
    exact .resuming k w h1 h2 h3 h4 h5 (dc hc) (by rw [e4, hr]) (mono _ htt) (nn k (Or.inr (Or.inr h3)) hnk)
  | resumed k h1 h2 h3 h4 h5 hd hn hs hr hnk =>
    exact .resumed k h1 h2 h3 h4 h5 (by rw [e1, hd]) (by rw [e2, hn]) (by rw [e3, hs]) (by rw [e4, hr])
      (nn k (Or.inr (Or.inr h3)) hnk)

theorem doFault_fields (s : St) (k : Nat) :
    (doFault s k).down = s.down ∧ (doFault s k).next = s.next ∧ (doFault s k).subs = s.subs ∧
    (doFault s k).res = s.res ∧ (doFault s k).now = s.now ∧ (doFault s k).reach = s.reach ∧
    (doFault s k).tasks = s.tasks ++ [.notify k] ∧ (doFault s k).sinks.length = s.sinks.length ∧
    (doFault s k).ev = s.ev := by
  simp [doFault, push, updSink]

theorem step_fault (cfg : Cfg) (s : St) (a : SS) (o c : Bool) (idx : Nat) (k : Nat)
    (hC : Cpl cfg.par s a o c) (hop : opOk s o c (.fault k) = true) :
    ∃ a', specStep cfg a idx (.fault k)
        (obsOf (stepSt cfg.par (clearEv s) (.fault k)).1 (stepSt cfg.par (clearEv s) (.fault k)).2) = (.ok, a') ∧
      Cpl cfg.par (stepSt cfg.par (clearEv s) (.fault k)).1 a' o c := by
  have hs' : (stepSt cfg.par (clearEv s) (.fault k)).1 = doFault (clearEv s) k := rfl
  rw [hs']
  obtain ⟨g1, g2, g3, g4, g5, g6, g7, g8, g9⟩ := doFault_fields (clearEv s) k
  simp only [clearEv_fields] at g1 g2 g3 g4 g5 g6 g7 g8 g9
  generalize doFault (clearEv s) k = s1 at *
  simp only [opOk, Bool.and_eq_true, decide_eq_true_eq] at hop
  obtain ⟨⟨hk, _⟩, hwf⟩ := hop
  have hq1 : ∀ cl, QInv s cl → QInv s1 cl := by
    intro cl hq
    constructor
    · intro j hj
      rw [g7] at hj
      rw [g8]
      rcases List.mem_append.mp hj with hj | hj
      · exact hq.bound j hj
      · have : j = k := by simpa using hj
        rw [this]; exact hk
    · intro hc hj
      rw [g7] at hj
      rcases List.mem_append.mp hj with hj | hj
      · exact hq.nokill hc hj
      · simp at hj
  cases c with
  | true =>
    have hcl : a.closed = true := hC.hclosed
    refine ⟨a, by simp [specStep, hcl, obsOf, firstCreate, g9], ?_⟩
    obtain ⟨x1, x2, x3, x4⟩ := hC.hshut rfl
    refine ⟨hcl, hq1 _ hC.hq, (by intro h; cases h), fun _ => ⟨by rw [g1, x1], by rw [g3, x2], by rw [g4]; exact x3, ?_⟩,
      (by intro h; cases h), (by intro _ h; cases h)⟩
    intro hr; rw [g4] at hr; rw [g7]; exact List.mem_append_left _ (x4 hr)
  | false =>
    have hcl : a.closed = false := hC.hclosed
    obtain ⟨hl, hn, hr⟩ := hC.hlive rfl
    have hnotidle : o = true := by
      cases o with
      | true => rfl
      | false =>
        have := (hC.hidle rfl rfl).2.2.2
        rw [this] at hk; simp at hk
    by_cases hpo : a.pendOk = some k
    · -- the reconnected sink faults before the greenlet has resumed
      refine ⟨{ a.recovered k with raised := true }, by simp [specStep, hcl, hpo], ?_⟩
      refine ⟨hcl, hq1 _ hC.hq, fun _ => ⟨?_, hn.trans g5.symm, hr.trans g6.symm⟩, (by intro h; cases h), ?_, ?_⟩
      · cases hl with
        | resuming k' w h1 h2 h3 h4 h5 hc hr' htt hnk =>
          rw [hpo] at h3; cases h3
          obtain ⟨pre, post, he⟩ := List.append_of_mem htt
          refine .resumingR k w rfl rfl rfl rfl rfl ⟨by rw [g1, hc.1], by rw [g2, hc.2.1], by rw [g3, hc.2.2]⟩
            (by rw [g4, hr']) ⟨pre, post ++ [.notify k], by rw [g7, he]; simp, ?_, by simp⟩
          intro hm; apply hnk; rw [he]; exact List.mem_append_left _ hm
        | resumed k' h1 h2 h3 h4 h5 hd hn' hs hr' hnk =>
          rw [hpo] at h3; cases h3
          refine .up rfl rfl rfl (by rw [g1, hd]) (by rw [g2, hn']; rfl) (by rw [g3, hs]; rfl) (by rw [g4, hr']) ?_ (by simp [SS.recovered])
          intro j hj
          simp only [SS.recovered, Option.some.injEq] at hj
          subst hj
          simp [g7]
        | up h1 h2 h3 => rw [hpo] at h3; cases h3
        | upDown h1 h2 h3 => rw [hpo] at h3; cases h3
        | resumingR k' w h1 h2 h3 => rw [hpo] at h3; cases h3
        | sleeping h1 h2 h3 => rw [hpo] at h3; cases h3
        | failing k' w h1 h2 h3 => rw [hpo] at h3; cases h3
        | pending k' w h1 h2 h3 => rw [hpo] at h3; cases h3
      · intro _ _ _ hd
        cases hl with
        | resuming k' w h1 h2 h3 h4 h5 hc hr' htt hnk =>
          rw [hpo] at h3; cases h3
          exact ⟨k, w, by rw [g4, hr']⟩
        | resumed k' h1 h2 h3 h4 h5 hd' hn' hs hr' hnk => rw [g1, hd'] at hd; cases hd
        | up h1 h2 h3 => rw [hpo] at h3; cases h3
        | upDown h1 h2 h3 => rw [hpo] at h3; cases h3
        | resumingR k' w h1 h2 h3 => rw [hpo] at h3; cases h3
        | sleeping h1 h2 h3 => rw [hpo] at h3; cases h3
        | failing k' w h1 h2 h3 => rw [hpo] at h3; cases h3
        | pending k' w h1 h2 h3 => rw [hpo] at h3; cases h3
      · intro ho; rw [hnotidle] at ho; cases ho
    · by_cases hin : a.inst = some k ∧ a.known = false
      · -- the sink in use faults
        refine ⟨{ a with raised := true }, by simp [specStep, hcl, hpo, hin], ?_⟩
        refine ⟨hcl, hq1 _ hC.hq, fun _ => ⟨?_, hn.trans g5.symm, hr.trans g6.symm⟩, (by intro h; cases h), ?_, ?_⟩
        · cases hl with
          | up h1 h2 h3 hd hn' hs hr' hk' hi =>
            refine .up h1 h2 h3 (by rw [g1, hd]) (by rw [g2, hn']) (by rw [g3, hs]) (by rw [g4, hr']) ?_ (by simp [hin.1])
            intro j hj
            simp only at hj
            rw [hin.1] at hj; cases hj
            simp [g7]
          | resumingR k' w h1 h2 h3 h4 h5 hc hr' htt =>
            obtain ⟨pre, post, he, hp, hq⟩ := htt
            exact .resumingR k' w h1 h2 h3 rfl h5 ⟨by rw [g1, hc.1], by rw [g2, hc.2.1], by rw [g3, hc.2.2]⟩
              (by rw [g4, hr']) ⟨pre, post ++ [.notify k], by rw [g7, he]; simp, hp, List.mem_append_left _ hq⟩
          | upDown h1 h2 h3 h4 hc hz =>
            obtain ⟨k', w', hres⟩ := hC.hst rfl h1 h4 hc.1
            rcases hz with ⟨hx, _⟩ | ⟨_, _, hx, _⟩ <;> (rw [hres] at hx; cases hx)
          | sleeping h1 => rw [hin.2] at h1; cases h1
          | failing k' w h1 => rw [hin.2] at h1; cases h1
          | pending k' w h1 => rw [hin.2] at h1; cases h1
          | resuming k' w h1 => rw [hin.2] at h1; cases h1
          | resumed k' h1 => rw [hin.2] at h1; cases h1
        · intro _ hkn _ hd
          rw [g1] at hd; rw [g4]
          cases hl with
          | up h1 h2 h3 hd' => rw [hd'] at hd; cases hd
          | resumingR k' w h1 h2 h3 h4 h5 hc hr' htt => exact ⟨k', w, hr'⟩
          | upDown h1 h2 h3 h4 hc hz => exact hC.hst rfl h1 h4 hc.1
          | sleeping h1 => rw [hin.2] at h1; cases h1
          | failing k' w h1 => rw [hin.2] at h1; cases h1
          | pending k' w h1 => rw [hin.2] at h1; cases h1
          | resuming k' w h1 => rw [hin.2] at h1; cases h1
          | resumed k' h1 => rw [hin.2] at h1; cases h1
        · intro ho; rw [hnotidle] at ho; cases ho
      · -- a stale sink faults: nobody is subscribed
        refine ⟨a, by simp [specStep, hcl, hpo, hin], ?_⟩
        refine ⟨hcl, hq1 _ hC.hq, fun _ => ⟨?_, hn.trans g5.symm, hr.trans g6.symm⟩, (by intro h; cases h), ?_, ?_⟩
        · refine live_push cfg.par s s1 a (.notify k) hl ?_ g1 g2 g3 g4 g5 g7
          intro j hj
          simp only [Task.notify.injEq] at hj
          subst hj
          refine ⟨?_, ?_, hpo⟩
          · intro hi
            have hkn : a.known = true := by
              cases hkk : a.known with
              | true => rfl
              | false => exact (hin ⟨hi, hkk⟩).elim
            cases hl with
            | up h1 => rw [hkn] at h1; cases h1
            | upDown h1 => rw [hkn] at h1; cases h1
            | resumingR k' w h1 => rw [hkn] at h1; cases h1
            | sleeping h1 h2 h3 h4 h5 => rw [hi] at h5; cases h5
            | failing k' w h1 h2 h3 h4 h5 => rw [hi] at h5; cases h5
            | pending k' w h1 h2 h3 h4 h5 => rw [hi] at h5; cases h5
            | resuming k' w h1 h2 h3 h4 h5 => rw [hi] at h5; cases h5
            | resumed k' h1 h2 h3 h4 h5 => rw [hi] at h5; cases h5
          · intro hp
            cases hl with
            | pending k' w h1 h2 h3 h4 h5 hc hr' hnk hw =>
              rw [hp] at h2; cases h2
              rw [hr'] at hwf; simp at hwf
            | up h1 h2 => rw [hp] at h2; cases h2
            | upDown h1 h2 => rw [hp] at h2; cases h2
            | resumingR k' w h1 h2 => rw [hp] at h2; cases h2
            | sleeping h1 h2 => rw [hp] at h2; cases h2
            | failing k' w h1 h2 => rw [hp] at h2; cases h2
            | resuming k' w h1 h2 => rw [hp] at h2; cases h2
            | resumed k' h1 h2 => rw [hp] at h2; cases h2
        · intro _ h1 h2 hd
          rw [g1] at hd; rw [g4]
          exact hC.hst rfl h1 h2 hd
        · intro ho; rw [hnotidle] at ho; cases ho




theorem doDone_fields (s : St) (k : Nat) (ok : Bool) :
    (doDone s k ok).down = s.down ∧ (doDone s k ok).next = s.next ∧ (doDone s k ok).subs = s.subs ∧
    (doDone s k ok).now = s.now ∧ (doDone s k ok).reach = s.reach ∧
    (doDone s k ok).sinks.length = s.sinks.length ∧ (doDone s k ok).ev = s.ev ∧
    ((∃ w r, s.res = .opening k w r ∧ (doDone s k ok).res = .opening k w (if ok then .ok else .fail) ∧
        (doDone s k ok).tasks = s.tasks ++ [.resume]) ∨
     ((∀ w r, s.res ≠ .opening k w r) ∧ (doDone s k ok).res = s.res ∧ (doDone s k ok).tasks = s.tasks)) := by
  unfold doDone
  cases hr : s.res with
  | none => simp [updSink, hr]
  | start => simp [updSink, hr]
  | sleep a b => simp [updSink, hr]
  | opening sid w r =>
    by_cases hs : sid = k
    · subst hs; simp [updSink, hr, push]
    · simp [updSink, hr, hs]

theorem step_done (cfg : Cfg) (s : St) (a : SS) (o c : Bool) (idx : Nat) (k : Nat) (ok : Bool)
    (hC : Cpl cfg.par s a o c) (hop : opOk s o c (.done k ok) = true) :
    ∃ a', specStep cfg a idx (.done k ok)
        (obsOf (stepSt cfg.par (clearEv s) (.done k ok)).1 (stepSt cfg.par (clearEv s) (.done k ok)).2) = (.ok, a') ∧
      Cpl cfg.par (stepSt cfg.par (clearEv s) (.done k ok)).1 a' o c := by
  have hs' : (stepSt cfg.par (clearEv s) (.done k ok)).1 = doDone (clearEv s) k ok := rfl
  rw [hs']
  obtain ⟨g1, g2, g3, g5, g6, g8, g9, gx⟩ := doDone_fields (clearEv s) k ok
  simp only [clearEv_fields] at g1 g2 g3 g5 g6 g8 g9 gx
  generalize doDone (clearEv s) k ok = s1 at *
  simp only [opOk, Bool.and_eq_true, decide_eq_true_eq, Bool.or_eq_true] at hop
  obtain ⟨⟨_, hk⟩, hwf⟩ := hop
  have hmono : ∀ x, x ∈ s.tasks → x ∈ s1.tasks := by
    intro x hx
    rcases gx with ⟨_, _, _, _, ht⟩ | ⟨_, _, ht⟩ <;> rw [ht]
    · exact List.mem_append_left _ hx
    · exact hx
  have hsub : ∀ x, x ∈ s1.tasks → x ∈ s.tasks ∨ x = .resume := by
    intro x hx
    rcases gx with ⟨_, _, _, _, ht⟩ | ⟨_, _, ht⟩ <;> rw [ht] at hx
    · rcases List.mem_append.mp hx with h | h
      · exact Or.inl h
      · exact Or.inr (by simpa using h)
    · exact Or.inl hx
  have hq1 : ∀ cl, QInv s cl → QInv s1 cl := by
    intro cl hq
    constructor
    · intro j hj
      rw [g8]
      rcases hsub _ hj with h | h
      · exact hq.bound j h
      · cases h
    · intro hc hj
      rcases hsub _ hj with h | h
      · exact hq.nokill hc h
      · cases h
  cases c with
  | true =>
    have hcl : a.closed = true := hC.hclosed
    refine ⟨a, by simp [specStep, hcl, obsOf, firstCreate, g9], ?_⟩
    obtain ⟨x1, x2, x3, x4⟩ := hC.hshut rfl
    refine ⟨hcl, hq1 _ hC.hq, (by intro h; cases h), fun _ => ⟨by rw [g1, x1], by rw [g3, x2], ?_, ?_⟩,
      (by intro h; cases h), (by intro _ h; cases h)⟩
    · rcases gx with ⟨w, r, _, h2, _⟩ | ⟨_, h2, _⟩
      · rw [h2]; simp
      · rw [h2]; exact x3
    · intro _
      rcases gx with ⟨w, r, h1, _, _⟩ | ⟨_, h2, _⟩
      · exact hmono _ (x4 (by rw [h1]; simp))
      · exact hmono _ (x4 (by rw [← h2]; assumption))
  | false =>
    have hcl : a.closed = false := hC.hclosed
    obtain ⟨hl, hn, hr⟩ := hC.hlive rfl
    have hnotidle : o = true := by
      cases o with
      | true => rfl
      | false =>
        have := (hC.hidle rfl rfl).2.2.2
        rw [this] at hk; simp at hk
    -- outside the `pending` form nothing the coupling looks at changes
    have other : a.pend ≠ some k → (∀ w r, s.res = .opening k w r → r ≠ .pending → False) →
        (∀ w, s.res ≠ .opening k w .pending) →
        ∃ a', specStep cfg a idx (.done k ok) (obsOf s1 Resp.none) = (.ok, a') ∧ Cpl cfg.par s1 a' o false := by
      intro hp hnp hnp2
      have hres : s1.res = s.res ∧ s1.tasks = s.tasks := by
        rcases gx with ⟨w, r, h1, _, _⟩ | ⟨_, h2, h3⟩
        · cases r with
          | pending => exact (hnp2 w h1).elim
          | none => exact (hnp w _ h1 (by simp)).elim
          | ok => exact (hnp w _ h1 (by simp)).elim
          | fail => exact (hnp w _ h1 (by simp)).elim
        · exact ⟨h2, h3⟩
      by_cases hio : a.inst = some k ∧ ok = true
      · refine ⟨{ a with instOk := true }, by simp [specStep, hcl, hp, hio], ?_⟩
        refine ⟨hcl, hq1 _ hC.hq, fun _ => ⟨?_, hn.trans g5.symm, hr.trans g6.symm⟩, (by intro h; cases h), ?_, ?_⟩
        · exact live_congr _ s s1 a _ hl g1 g2 g3 hres.1 g5 hres.2 rfl rfl rfl rfl rfl rfl rfl
        · intro _ h1 h2 hd; rw [g1] at hd; rw [hres.1]; exact hC.hst rfl h1 h2 hd
        · intro ho; rw [hnotidle] at ho; cases ho
      · refine ⟨a, by simp [specStep, hcl, hp, hio], ?_⟩
        refine ⟨hcl, hq1 _ hC.hq, fun _ => ⟨?_, hn.trans g5.symm, hr.trans g6.symm⟩, (by intro h; cases h), ?_, ?_⟩
        · exact live_congr _ s s1 a _ hl g1 g2 g3 hres.1 g5 hres.2 rfl rfl rfl rfl rfl rfl rfl
        · intro _ h1 h2 hd; rw [g1] at hd; rw [hres.1]; exact hC.hst rfl h1 h2 hd
        · intro ho; rw [hnotidle] at ho; cases ho
    have wfk : ∀ w r, s.res = .opening k w r → r = .pending := by
      intro w r hres
      rw [hres] at hwf
      simpa using hwf
    have hstep2 : (stepSt cfg.par (clearEv s) (.done k ok)).2 = Resp.none := rfl
    rw [hstep2]
    cases hl with
    | pending kp w h1 h2 h3 h4 h5 hc hr' hnk hw =>
      by_cases hkk : kp = k
      · subst hkk
        have hres : s1.res = .opening kp w (if ok then .ok else .fail) ∧ s1.tasks = s.tasks ++ [.resume] := by
          rcases gx with ⟨w', r, q1, q2, q3⟩ | ⟨q1, _, _⟩
          · rw [hr'] at q1; cases q1; exact ⟨q2, q3⟩
          · exact (q1 w .pending hr').elim
        have hdc : DownCore s1 := ⟨by rw [g1, hc.1], by rw [g2, hc.2.1], by rw [g3, hc.2.2]⟩
        cases ok with
        | true =>
          refine ⟨{ a with pend := none, pendOk := some kp }, by simp [specStep, hcl, h2], ?_⟩
          refine ⟨hcl, hq1 _ hC.hq, fun _ => ⟨?_, hn.trans g5.symm, hr.trans g6.symm⟩, (by intro h; cases h), ?_, ?_⟩
          · refine .resuming kp w h1 rfl rfl h4 h5 hdc (by simpa using hres.1) (by rw [hres.2]; simp) ?_
            rw [hres.2]; simp [hnk]
          · intro _ hk'; simp [h1] at hk'
          · intro ho; rw [hnotidle] at ho; cases ho
        | false =>
          refine ⟨{ a with pend := none, lastEnd := a.now }, by simp [specStep, hcl, h2], ?_⟩
          refine ⟨hcl, hq1 _ hC.hq, fun _ => ⟨?_, hn.trans g5.symm, hr.trans g6.symm⟩, (by intro h; cases h), ?_, ?_⟩
          · exact .failing kp w h1 rfl h3 h4 h5 hdc (by simpa using hres.1) (by rw [hres.2]; simp)
              (by simp [hn, g5]) hw
          · intro _ hk'; simp [h1] at hk'
          · intro ho; rw [hnotidle] at ho; cases ho
      · exact other (by rw [h2]; simpa using hkk)
          (fun w' r hres hne => by rw [hr'] at hres; cases hres; exact hkk rfl)
          (fun w' hres => by rw [hr'] at hres; cases hres; exact hkk rfl)
    | up h1 h2 h3 hd hn' hs hr' hk' hi =>
      exact other (by rw [h2]; simp) (fun w r hres _ => by rw [hr'] at hres; cases hres)
        (fun w hres => by rw [hr'] at hres; cases hres)
    | upDown h1 h2 h3 h4 hc hz =>
      obtain ⟨k', w', hres⟩ := hC.hst rfl h1 h4 hc.1
      rcases hz with ⟨hx, _⟩ | ⟨_, _, hx, _⟩ <;> (rw [hres] at hx; cases hx)
    | resumingR k' w h1 h2 h3 h4 h5 hc hr' htt =>
      exact other (by rw [h2]; simp) (fun w' r hres hne => hne (wfk w' r hres))
        (fun w' hres => by rw [hr'] at hres; cases hres)
    | sleeping h1 h2 h3 h4 h5 hc hz =>
      exact other (by rw [h2]; simp) (fun w' r hres hne => hne (wfk w' r hres))
        (fun w' hres => by rcases hz with ⟨hx, _⟩ | ⟨_, _, hx, _⟩ <;> (rw [hres] at hx; cases hx))
    | failing k' w h1 h2 h3 h4 h5 hc hr' htt hl' hw =>
      exact other (by rw [h2]; simp) (fun w' r hres hne => hne (wfk w' r hres))
        (fun w' hres => by rw [hr'] at hres; cases hres)
    | resuming k' w h1 h2 h3 h4 h5 hc hr' htt hnk =>
      exact other (by rw [h2]; simp) (fun w' r hres hne => hne (wfk w' r hres))
        (fun w' hres => by rw [hr'] at hres; cases hres)
    | resumed k' h1 h2 h3 h4 h5 hd hn' hs hr' hnk =>
      exact other (by rw [h2]; simp) (fun w r hres _ => by rw [hr'] at hres; cases hres)
        (fun w hres => by rw [hr'] at hres; cases hres)




/-- a whole turn preserves the coupling (for a fixed specification state) and the queue facts -/
theorem live_turn (p : Par) (hf : Grows p) (hip : 0 < p.init) (hil : p.init ≤ p.maxW)
    (s : St) (a : SS) (h : Live p s a) (hq : QInv s false) :
    Live p (runTurn p s) a ∧ QInv (runTurn p s) false :=
  runN_inv p (fun s' => Live p s' a ∧ QInv s' false)
    (fun s' t rest ⟨h1, h2⟩ ht => ⟨live_task p hf hip hil s' a t rest ht h2 h1, qinv_task p s' false t rest ht h2⟩)
    _ s ⟨h, hq⟩

theorem shut_turn (p : Par) (s : St) (h : Shut s) (hq : QInv s true) :
    Shut (runTurn p s) ∧ QInv (runTurn p s) true :=
  runN_inv p (fun s' => Shut s' ∧ QInv s' true)
    (fun s' t rest ⟨h1, h2⟩ ht => ⟨shut_task p s' t rest ht h1, qinv_task p s' true t rest ht h2⟩)
    _ s ⟨h, hq⟩

theorem runTurn_env (p : Par) (s : St) :
    (runTurn p s).now = s.now ∧ (runTurn p s).reach = s.reach ∧
    (runTurn p s).sinks.length = s.sinks.length ∧
    ((∀ e ∈ s.ev, benign e = true) → ∀ e ∈ (runTurn p s).ev, benign e = true) := runN_env p _ s

theorem no_task_after_turn (p : Par) (s : St) (x : Task) (h1 : x ≠ .notifyUp) (h2 : x ≠ .resStart) :
    x ∉ (runTurn p s).tasks := by
  intro hm
  rcases runTurn_after p s x hm with h | h
  · exact h1 h
  · exact h2 h

/-- the specification state after a `turn` -/
def afterTurn (a : SS) : SS :=
  let a0 := a.settle
  if a0.raised = true ∧ a0.known = false then a0.learn else a0

/-- what a turn leaves of the coupling once the specification has been told -/
theorem settle_after_turn (p : Par) (T : St) (a : SS) (hl : Live p T a) (hn : a.now = T.now)
    (hres : Task.resume ∉ T.tasks) (hnot : ∀ k, Task.notify k ∉ T.tasks) :
    Live p T (afterTurn a) ∧ (afterTurn a).now = T.now ∧ (afterTurn a).reach = a.reach ∧
      (afterTurn a).closed = a.closed ∧
      ((afterTurn a).known = false → (afterTurn a).raised = true → T.down = true → False) ∧
      (a.inst = none → a.known = false → a.raised = false →
        (afterTurn a).inst = none ∧ (afterTurn a).known = false ∧ (afterTurn a).raised = false) := by
  cases hl with
  | up h1 h2 h3 hd hn' hs hr hk hi =>
    have hrz : a.raised = false := by
      cases hin : a.inst with
      | none => exact hi hin
      | some k =>
        cases hrr : a.raised with
        | false => rfl
        | true => exact (hnot k ((hk k hin).mp hrr)).elim
    have e : afterTurn a = a := by simp [afterTurn, SS.settle, h3, hrz]
    rw [e]
    exact ⟨.up h1 h2 h3 hd hn' hs hr hk hi, hn, rfl, rfl, (by intro _ h; rw [hrz] at h; cases h),
      fun h _ _ => ⟨h, h1, hrz⟩⟩
  | upDown h1 h2 h3 h4 hc hz =>
    have e : afterTurn a = a.learn := by simp [afterTurn, SS.settle, h3, h4, h1]
    rw [e]
    refine ⟨.sleeping rfl h2 h3 rfl rfl hc (by simpa [SS.learn, hn] using hz), hn, rfl, rfl, (by intro h; cases h), ?_⟩
    intro _ _ h; rw [h4] at h; cases h
  | resumingR k w h1 h2 h3 h4 h5 hc hr htt =>
    obtain ⟨pre, post, he, _, _⟩ := htt
    exact (hres (by rw [he]; simp)).elim
  | sleeping h1 h2 h3 h4 h5 hc hz =>
    have e : afterTurn a = a := by simp [afterTurn, SS.settle, h3, h4]
    rw [e]
    exact ⟨.sleeping h1 h2 h3 h4 h5 hc hz, hn, rfl, rfl, (by intro h; rw [h1] at h; cases h),
      fun _ h => by rw [h1] at h; cases h⟩
  | failing k w h1 h2 h3 h4 h5 hc hr htt hl' hw => exact (hres htt).elim
  | pending k w h1 h2 h3 h4 h5 hc hr hnk hw =>
    have e : afterTurn a = a := by simp [afterTurn, SS.settle, h3, h4]
    rw [e]
    exact ⟨.pending k w h1 h2 h3 h4 h5 hc hr hnk hw, hn, rfl, rfl, (by intro h; rw [h1] at h; cases h),
      fun _ h => by rw [h1] at h; cases h⟩
  | resuming k w h1 h2 h3 h4 h5 hc hr htt hnk => exact (hres htt).elim
  | resumed k h1 h2 h3 h4 h5 hd hn' hs hr hnk =>
    have e : afterTurn a = a.recovered k := by simp [afterTurn, SS.settle, h3, SS.recovered]
    rw [e]
    refine ⟨?_, hn, rfl, rfl, (by intro _ h; simp [SS.recovered] at h), fun _ h => by rw [h1] at h; cases h⟩
    refine .up rfl rfl rfl hd (by rw [hn']; rfl) (by rw [hs]; rfl) hr ?_ (by simp [SS.recovered])
    intro j hj
    simp only [SS.recovered, Option.some.injEq] at hj
    subst hj
    simp [hnk, SS.recovered]




theorem specStep_turn (cfg : Cfg) (a : SS) (idx : Nat) (o : Obs) (hcl : a.closed = false) :
    specStep cfg a idx .turn o = (.ok, afterTurn a) := by
  unfold afterTurn
  by_cases h : a.settle.raised = true ∧ a.settle.known = false
  · simp [specStep, hcl, h]
  · simp only [specStep, hcl]
    simp [h]

theorem shut_no_create (s : St) (h : ∀ e ∈ s.ev, benign e = true) (a : SS) (cfg : Cfg) (idx : Nat) (op : Op)
    (r : Resp) (hcl : a.closed = true) : specStep cfg a idx op (obsOf s r) = (.ok, a) := by
  have := (benign_spec s.ev h).1
  simp [specStep, hcl, obsOf, this]

theorem step_turn (cfg : Cfg) (hc : cfgWF cfg = true) (s : St) (a : SS) (o c : Bool) (idx : Nat)
    (hC : Cpl cfg.par s a o c) :
    ∃ a', specStep cfg a idx .turn
        (obsOf (stepSt cfg.par (clearEv s) .turn).1 (stepSt cfg.par (clearEv s) .turn).2) = (.ok, a') ∧
      Cpl cfg.par (stepSt cfg.par (clearEv s) .turn).1 a' o c := by
  have hs' : (stepSt cfg.par (clearEv s) .turn).1 = runTurn cfg.par (clearEv s) := rfl
  rw [hs']
  obtain ⟨e1, e2, e3, e4⟩ := runTurn_env cfg.par (clearEv s)
  have hben := e4 (by simp)
  have hnores := no_task_after_turn cfg.par (clearEv s) .resume (by simp) (by simp)
  have hnonot := fun k => no_task_after_turn cfg.par (clearEv s) (.notify k) (by simp) (by simp)
  cases c with
  | true =>
    have hcl : a.closed = true := hC.hclosed
    obtain ⟨h1, h2⟩ := shut_turn cfg.par (clearEv s) (hC.hshut rfl) ⟨hC.hq.bound, hC.hq.nokill⟩
    exact ⟨a, shut_no_create _ hben a cfg idx _ _ hcl,
      ⟨hcl, h2, (by intro h; cases h), fun _ => h1, (by intro h; cases h), (by intro _ h; cases h)⟩⟩
  | false =>
    have hcl : a.closed = false := hC.hclosed
    obtain ⟨hl, hn, hr⟩ := hC.hlive rfl
    obtain ⟨h1, h2⟩ := live_turn cfg.par (cfg_grows cfg hc) (cfg_init_pos cfg hc) (cfg_init_le cfg hc)
      (clearEv s) a (live_congr _ s _ a a hl rfl rfl rfl rfl rfl rfl rfl rfl rfl rfl rfl rfl rfl)
      ⟨hC.hq.bound, hC.hq.nokill⟩
    generalize runTurn cfg.par (clearEv s) = T at *
    simp only [clearEv_fields] at e1 e2 e3
    obtain ⟨q1, q2, q3, q4, q5, q6⟩ := settle_after_turn cfg.par T a h1 (hn.trans e1.symm) hnores hnonot
    refine ⟨afterTurn a, specStep_turn cfg a idx _ hcl, ?_⟩
    refine ⟨q4.trans hcl, h2, fun _ => ⟨q1, q2, q3.trans (hr.trans e2.symm)⟩, (by intro h; cases h),
      fun _ x y z => (q5 x y z).elim, ?_⟩
    intro ho _
    obtain ⟨i1, i2, i3, i4⟩ := hC.hidle ho rfl
    obtain ⟨j1, j2, j3⟩ := q6 i1 i2 i3
    refine ⟨j1, j2, j3, ?_⟩
    have : T.sinks.length = 0 := by rw [e3, i4]; rfl
    exact List.eq_nil_of_length_eq_zero this




theorem step_req (cfg : Cfg) (hc : cfgWF cfg = true) (s : St) (a : SS) (o c : Bool) (idx : Nat)
    (hC : Cpl cfg.par s a o c) :
    ∃ a', specStep cfg a idx .req
        (obsOf (stepSt cfg.par (clearEv s) .req).1 (stepSt cfg.par (clearEv s) .req).2) = (.ok, a') ∧
      Cpl cfg.par (stepSt cfg.par (clearEv s) .req).1 a' o c := by
  have hstep : stepSt cfg.par (clearEv s) .req = doReq cfg.par (clearEv s) := rfl
  rw [hstep]
  -- the two ways a request goes
  have hnone : s.next = none → doReq cfg.par (clearEv s) = (runTurn cfg.par (clearEv s), .ff) := by
    intro h; simp [doReq, h]
  have hsome : ∀ n, s.next = some n → doReq cfg.par (clearEv s) = (emit (clearEv s) (.fwd n), .fwd n) := by
    intro n h; simp [doReq, h]
  obtain ⟨e1, e2, e3, e4⟩ := runTurn_env cfg.par (clearEv s)
  have hben := e4 (by simp)
  have hnores := no_task_after_turn cfg.par (clearEv s) .resume (by simp) (by simp)
  have hnonot := fun k => no_task_after_turn cfg.par (clearEv s) (.notify k) (by simp) (by simp)
  cases c with
  | true =>
    have hcl : a.closed = true := hC.hclosed
    cases hnx : s.next with
    | none =>
      rw [hnone hnx]
      obtain ⟨h1, h2⟩ := shut_turn cfg.par (clearEv s) (hC.hshut rfl) ⟨hC.hq.bound, hC.hq.nokill⟩
      exact ⟨a, shut_no_create _ hben a cfg idx _ _ hcl,
        ⟨hcl, h2, (by intro h; cases h), fun _ => h1, (by intro h; cases h), (by intro _ h; cases h)⟩⟩
    | some n =>
      rw [hsome n hnx]
      refine ⟨a, by simp [specStep, hcl, obsOf, emit, firstCreate], ?_⟩
      exact ⟨hcl, ⟨hC.hq.bound, hC.hq.nokill⟩, (by intro h; cases h), fun _ => hC.hshut rfl,
        (by intro h; cases h), (by intro _ h; cases h)⟩
  | false =>
    have hcl : a.closed = false := hC.hclosed
    obtain ⟨hl, hn, hr⟩ := hC.hlive rfl
    have hturn := live_turn cfg.par (cfg_grows cfg hc) (cfg_init_pos cfg hc) (cfg_init_le cfg hc)
      (clearEv s) a (live_congr _ s _ a a hl rfl rfl rfl rfl rfl rfl rfl rfl rfl rfl rfl rfl rfl)
      ⟨hC.hq.bound, hC.hq.nokill⟩
    have hipos := cfg_init_pos cfg hc
    have hile := cfg_init_le cfg hc
    have hmw : cfg.par.maxW = cfg.maxW := rfl
    have hin : cfg.par.init = cfg.init := rfl
    -- a request failed fast during a down period that is not overdue
    have down_case : s.next = none → a.known = true → a.pendOk = none →
        ¬ (a.reach = .up ∧ a.pend = none ∧ max a.reachSince a.lastEnd + cfg.maxW ≤ a.now) →
        ∃ a', specStep cfg a idx .req (obsOf (doReq cfg.par (clearEv s)).1 (doReq cfg.par (clearEv s)).2) = (.ok, a') ∧
          Cpl cfg.par (doReq cfg.par (clearEv s)).1 a' o false := by
      intro hnx hk hpo hover
      rw [hnone hnx]
      obtain ⟨h1, h2⟩ := hturn
      generalize runTurn cfg.par (clearEv s) = T at *
      simp only [clearEv_fields] at e1 e2 e3
      have hev := benign_spec T.ev hben
      refine ⟨a, ?_, ?_⟩
      · simp only [specStep, hcl, hk, hpo]
        simp [obsOf, hev.2, hover]
      · refine ⟨hcl, h2, fun _ => ⟨h1, hn.trans e1.symm, hr.trans e2.symm⟩, (by intro h; cases h),
          (by intro _ x; rw [hk] at x; cases x), ?_⟩
        intro ho _
        have := (hC.hidle ho rfl).2.1
        rw [hk] at this; cases this
    cases hl with
    | up h1 h2 h3 hd hn' hs hr' hk hi =>
      cases hin' : a.inst with
      | some k =>
        have hnx : s.next = some k := by rw [hn', hin']
        rw [hsome k hnx]
        refine ⟨a, ?_, ?_⟩
        · simp only [specStep, hcl, h1]
          cases hrz : a.raised <;> simp [obsOf, hin']
        · refine ⟨hcl, ⟨hC.hq.bound, hC.hq.nokill⟩, fun _ => ⟨?_, hn, hr⟩, (by intro h; cases h), ?_, ?_⟩
          · exact live_congr _ s _ a a (.up h1 h2 h3 hd hn' hs hr' hk hi) rfl rfl rfl rfl rfl rfl rfl rfl rfl rfl rfl rfl rfl
          · intro _ _ _ hd'; simp [emit, hd] at hd'
          · intro ho _; have := (hC.hidle ho rfl).1; rw [hin'] at this; cases this
      | none =>
        have hnx : s.next = none := by rw [hn', hin']
        have hrz := hi hin'
        rw [hnone hnx]
        obtain ⟨q1, q2⟩ := hturn
        generalize runTurn cfg.par (clearEv s) = T at *
        simp only [clearEv_fields] at e1 e2 e3
        refine ⟨a, ?_, ?_⟩
        · simp [specStep, hcl, h1, hrz, hin']
        · refine ⟨hcl, q2, fun _ => ⟨q1, hn.trans e1.symm, hr.trans e2.symm⟩, (by intro h; cases h),
            (by intro _ _ x; rw [hrz] at x; cases x), ?_⟩
          intro ho _
          obtain ⟨i1, i2, i3, i4⟩ := hC.hidle ho rfl
          refine ⟨i1, i2, i3, ?_⟩
          have : T.sinks.length = 0 := by rw [e3, i4]; rfl
          exact List.eq_nil_of_length_eq_zero this
    | upDown h1 h2 h3 h4 hc' hz =>
      obtain ⟨k', w', hres⟩ := hC.hst rfl h1 h4 hc'.1
      rcases hz with ⟨hx, _⟩ | ⟨_, _, hx, _⟩ <;> (rw [hres] at hx; cases hx)
    | resumingR k w h1 h2 h3 h4 h5 hc' hr' htt =>
      rw [hnone hc'.2.1]
      obtain ⟨q1, q2⟩ := hturn
      generalize runTurn cfg.par (clearEv s) = T at *
      simp only [clearEv_fields] at e1 e2 e3
      obtain ⟨p1, p2, p3, p4, p5, p6⟩ := settle_after_turn cfg.par T a q1 (hn.trans e1.symm) hnores hnonot
      have e : afterTurn a = a.learn := by simp [afterTurn, SS.settle, h3, h4, h1]
      rw [e] at p1 p2 p3 p4 p5
      refine ⟨a.learn, by simp [specStep, hcl, h1, h4, obsOf], ?_⟩
      refine ⟨p4.trans hcl, q2, fun _ => ⟨p1, p2, p3.trans (hr.trans e2.symm)⟩, (by intro h; cases h),
        fun _ x y z => (p5 x y z).elim, ?_⟩
      intro ho _
      have := (hC.hidle ho rfl).1
      rw [h5] at this; cases this
    | sleeping h1 h2 h3 h4 h5 hc' hz =>
      refine down_case hc'.2.1 h1 h3 ?_
      rintro ⟨_, _, hov⟩
      rcases hz with ⟨_, _, hle, _⟩ | ⟨wk, w, _, h6, h7, h8, h9, _⟩ <;> omega
    | failing k w h1 h2 h3 h4 h5 hc' hr' htt hl' hw =>
      refine down_case hc'.2.1 h1 h3 ?_
      rintro ⟨_, _, hov⟩
      omega
    | pending k w h1 h2 h3 h4 h5 hc' hr' hnk hw =>
      refine down_case hc'.2.1 h1 h3 ?_
      rintro ⟨_, hp, _⟩
      rw [h2] at hp; cases hp
    | resuming k w h1 h2 h3 h4 h5 hc' hr' htt hnk =>
      rw [hnone hc'.2.1]
      obtain ⟨q1, q2⟩ := hturn
      generalize runTurn cfg.par (clearEv s) = T at *
      simp only [clearEv_fields] at e1 e2 e3
      refine ⟨a, by simp [specStep, hcl, h1, h3, obsOf], ?_⟩
      refine ⟨hcl, q2, fun _ => ⟨q1, hn.trans e1.symm, hr.trans e2.symm⟩, (by intro h; cases h),
        (by intro _ x; rw [h1] at x; cases x), ?_⟩
      intro ho _
      have := (hC.hidle ho rfl).2.1
      rw [h1] at this; cases this
    | resumed k h1 h2 h3 h4 h5 hd hn' hs hr' hnk =>
      rw [hsome k hn']
      refine ⟨a.recovered k, by simp [specStep, hcl, h1, h3, obsOf], ?_⟩
      refine ⟨hcl, ⟨hC.hq.bound, hC.hq.nokill⟩, fun _ => ⟨?_, hn, hr⟩, (by intro h; cases h), ?_, ?_⟩
      · refine .up rfl rfl rfl hd (by simp [emit, hn', SS.recovered]) (by simp [emit, hs, SS.recovered]) hr' ?_
          (by simp [SS.recovered])
        intro j hj
        simp only [SS.recovered, Option.some.injEq] at hj
        subst hj
        simp [hnk, SS.recovered, emit]
      · intro _ _ x; simp [SS.recovered] at x
      · intro ho _
        have := (hC.hidle ho rfl).2.1
        rw [h1] at this; cases this




@[simp] theorem advance_fields (s : St) (d : Nat) :
    (advance s d).down = s.down ∧ (advance s d).next = s.next ∧ (advance s d).subs = s.subs ∧
    (advance s d).res = s.res ∧ (advance s d).now = s.now + d ∧ (advance s d).sinks = s.sinks ∧
    (advance s d).reach = s.reach ∧ (advance s d).ev = s.ev ∧ (advance s d).ups = s.ups ∧
    (advance s d).tasks = s.tasks := ⟨rfl, rfl, rfl, rfl, rfl, rfl, rfl, rfl, rfl, rfl⟩

/-- time passes while nothing is queued and no wake instant is reached -/
theorem live_advance (p : Par) (s : St) (a a' : SS) (d : Nat) (h : Live p s a) (ht : s.tasks = [])
    (hw : ∀ wk w, s.res = .sleep wk w → s.now + d < wk)
    (hup : a.known = false → a.raised = true → s.down = true → False)
    (f1 : a'.known = a.known) (f2 : a'.pend = a.pend) (f3 : a'.pendOk = a.pendOk) (f4 : a'.raised = a.raised)
    (f5 : a'.inst = a.inst) (f6 : a'.lastEnd = a.lastEnd) (f7 : a'.lastDelay = a.lastDelay) :
    Live p (advance s d) a' := by
  cases h with
  | up h1 h2 h3 hd hn hs hr hk hi =>
    exact .up (f1 ▸ h1) (f2 ▸ h2) (f3 ▸ h3) hd (by rw [f5]; exact hn) (by rw [f5]; exact hs) hr
      (by rw [f5, f4]; exact hk) (by rw [f5, f4]; exact hi)
  | upDown h1 h2 h3 h4 hc hz => exact (hup h1 h4 hc.1).elim
  | resumingR k w h1 h2 h3 h4 h5 hc hr htt =>
    obtain ⟨pre, post, he, _⟩ := htt
    rw [ht] at he; simp at he
  | sleeping h1 h2 h3 h4 h5 hc hz =>
    refine .sleeping (f1 ▸ h1) (f2 ▸ h2) (f3 ▸ h3) (f4 ▸ h4) (f5 ▸ h5) hc ?_
    rw [f6, f7]
    rcases hz with ⟨_, hm, _⟩ | ⟨wk, w, e1, e2, e3, e4, e5, e6⟩
    · rw [ht] at hm; cases hm
    · exact Or.inr ⟨wk, w, e1, e2, e3, e4, by simpa using hw wk w e1, e6⟩
  | failing k w h1 h2 h3 h4 h5 hc hr htt hl hw' => rw [ht] at htt; cases htt
  | pending k w h1 h2 h3 h4 h5 hc hr hnk hw' =>
    exact .pending k w (f1 ▸ h1) (f2 ▸ h2) (f3 ▸ h3) (f4 ▸ h4) (f5 ▸ h5) hc hr hnk (f7 ▸ hw')
  | resuming k w h1 h2 h3 h4 h5 hc hr htt hnk => rw [ht] at htt; cases htt
  | resumed k h1 h2 h3 h4 h5 hd hn hs hr hnk =>
    exact .resumed k (f1 ▸ h1) (f2 ▸ h2) (f3 ▸ h3) (f4 ▸ h4) (f5 ▸ h5) hd hn hs hr hnk

/-- the retry greenlet's attempt, by reachability -/
theorem resWake_fields (p : Par) (s : St) (w : Nat) (hd : s.down = true) (hs : s.subs = []) (hev : s.ev = []) :
    (resWake p s w).now = s.now ∧ (resWake p s w).reach = s.reach ∧ (resWake p s w).tasks = s.tasks ∧
    (resWake p s w).sinks.length = s.sinks.length + 1 ∧
    firstCreate (resWake p s w).ev = some s.sinks.length ∧
    (match s.reach with
     | .up => (resWake p s w).down = false ∧ (resWake p s w).next = some s.sinks.length ∧
              (resWake p s w).subs = [s.sinks.length] ∧ (resWake p s w).res = .none
     | .down => (resWake p s w).down = true ∧ (resWake p s w).next = s.next ∧ (resWake p s w).subs = [] ∧
              (resWake p s w).res = .sleep (s.now + nextWait p w) (nextWait p w)
     | .hang => (resWake p s w).down = true ∧ (resWake p s w).next = s.next ∧ (resWake p s w).subs = [] ∧
              (resWake p s w).res = .opening s.sinks.length w .pending) := by
  cases hr : s.reach <;>
    simp [resWake, createSink, openSink, resSuccess, resFailure, closeSink, emit, updSink, hr, hd, hs, hev, firstCreate]




theorem step_tick (cfg : Cfg) (hc : cfgWF cfg = true) (s : St) (a : SS) (o c : Bool) (idx : Nat) (d : Nat)
    (hC : Cpl cfg.par s a o c) (hop : opOk s o c (.tick d) = true) :
    ∃ a', specStep cfg a idx (.tick d)
        (obsOf (stepSt cfg.par (clearEv s) (.tick d)).1 (stepSt cfg.par (clearEv s) (.tick d)).2) = (.ok, a') ∧
      Cpl cfg.par (stepSt cfg.par (clearEv s) (.tick d)).1 a' o c := by
  have hstep : stepSt cfg.par (clearEv s) (.tick d) = (doTick cfg.par (clearEv s) d, Resp.none) := rfl
  rw [hstep]
  simp only [opOk, Bool.and_eq_true, decide_eq_true_eq, List.isEmpty_iff] at hop
  obtain ⟨⟨hd, htk⟩, hwf⟩ := hop
  have hq0 : ∀ s1 : St, s1.tasks = [] → ∀ cl, QInv s1 cl := by
    intro s1 h cl
    exact ⟨(by intro k hk; rw [h] at hk; cases hk), (by intro _ hk; rw [h] at hk; cases hk)⟩
  -- without a wake the model only advances its clock
  have nowake : (∀ wk w, s.res = .sleep wk w → ¬ wk ≤ s.now + d) →
      doTick cfg.par (clearEv s) d = advance (clearEv s) d := by
    intro h
    simp only [doTick]
    cases hr : s.res with
    | sleep wk w => simp [hr, h wk w hr]
    | none => simp [hr]
    | start => simp [hr]
    | opening a b c => simp [hr]
  cases c with
  | true =>
    have hcl : a.closed = true := hC.hclosed
    obtain ⟨x1, x2, x3, x4⟩ := hC.hshut rfl
    have hrn : s.res = .none := by
      cases hr : s.res with
      | none => rfl
      | start => exact (x3 hr).elim
      | sleep _ _ => have := x4 (by simp [hr]); rw [htk] at this; cases this
      | opening _ _ _ => have := x4 (by simp [hr]); rw [htk] at this; cases this
    rw [nowake (by intro wk w h; rw [hrn] at h; cases h)]
    refine ⟨a, by simp [specStep, hcl, obsOf, firstCreate], ?_⟩
    exact ⟨hcl, hq0 _ (by simp [htk]) _, (by intro h; cases h), fun _ => ⟨x1, x2, x3, by simpa using x4⟩,
      (by intro h; cases h), (by intro _ h; cases h)⟩
  | false =>
    have hcl : a.closed = false := hC.hclosed
    obtain ⟨hl, hn, hr⟩ := hC.hlive rfl
    have hf := cfg_grows cfg hc
    have hmw : cfg.par.maxW = cfg.maxW := rfl
    by_cases hwake : ∃ wk w, s.res = .sleep wk w ∧ wk ≤ s.now + d
    · -- the retry greenlet wakes and tries to connect
      obtain ⟨wk, w, hres, hle⟩ := hwake
      have hwk : s.now + d = wk := by
        rw [hres] at hwf; simp at hwf; omega
      cases hl with
      | sleeping h1 h2 h3 h4 h5 hc' hz =>
        rcases hz with ⟨hx, _⟩ | ⟨wk', w', e1, e2, e3, e4, e5, e6⟩
        · rw [hres] at hx; cases hx
        · rw [hres] at e1; cases e1
          have hdt : doTick cfg.par (clearEv s) d = resWake cfg.par (advance (clearEv s) d) w := by
            simp [doTick, hres, hle]
          rw [hdt]
          obtain ⟨r1, r2, r3, r4, r5, r6⟩ := resWake_fields cfg.par (advance (clearEv s) d) w
            (by simpa using hc'.1) (by simpa using hc'.2.2) (by simp)
          simp only [advance_fields, clearEv_fields] at r1 r2 r3 r4 r5 r6
          generalize resWake cfg.par (advance (clearEv s) d) w = s1 at *
          have hset : a.settle = a := by simp [SS.settle, h3]
          have hdelay1 : ¬ (cfg.maxW < a.now + d - a.lastEnd) := by omega
          have hdelay2 : (match a.lastDelay with
              | some p => decide (a.now + d - a.lastEnd < p) ||
                  (decide (a.now + d - a.lastEnd = p) && decide (p < cfg.maxW))
              | none => false) = false := by
            cases hld : a.lastDelay with
            | none => rfl
            | some p0 =>
              obtain ⟨x1, x2, x3⟩ := e6 p0 hld
              have hdl : a.now + d - a.lastEnd = w := by omega
              rw [hdl]
              simp only [Bool.or_eq_false_iff, Bool.and_eq_false_iff, decide_eq_false_iff_not]
              refine ⟨by omega, ?_⟩
              by_cases hpw : p0 = w
              · right; rcases x3 with x3 | x3 <;> omega
              · left; omega
          have hq1 : QInv s1 false := hq0 s1 (by rw [r3, htk]) _
          cases hrch : s.reach with
          | up =>
            rw [hrch] at r6
            obtain ⟨t1, t2, t3, t4⟩ := r6
            refine ⟨({ a with now := a.now + d, lastDelay := some (a.now + d - a.lastEnd) } : SS).recovered s.sinks.length, ?_, ?_⟩
            · simp only [specStep, hcl, hset]
              simp [obsOf, r5, h1, hdelay1, hr, hrch]
              exact hdelay2
            · refine ⟨hcl, hq1, fun _ => ⟨?_, by simp [SS.recovered, r1, hn], by simp [SS.recovered, r2, hr]⟩,
                (by intro h; cases h), (by intro _ _ x; simp [SS.recovered] at x), ?_⟩
              · refine .up rfl rfl rfl t1 (by simp [SS.recovered, t2]) (by simp [SS.recovered, t3]) t4 ?_ (by simp [SS.recovered])
                intro j hj
                simp [SS.recovered, r3, htk]
              · intro ho _
                have := (hC.hidle ho rfl).2.1
                rw [h1] at this; cases this
          | down =>
            rw [hrch] at r6
            obtain ⟨t1, t2, t3, t4⟩ := r6
            refine ⟨{ a with now := a.now + d, lastDelay := some (a.now + d - a.lastEnd), lastEnd := a.now + d }, ?_, ?_⟩
            · simp only [specStep, hcl, hset]
              simp [obsOf, r5, h1, hdelay1, hr, hrch]
              exact hdelay2
            · refine ⟨hcl, hq1, fun _ => ⟨?_, by simp [r1, hn], by simp [r2, hr]⟩,
                (by intro h; cases h), (by intro _ x; simp [h1] at x), ?_⟩
              · refine .sleeping h1 h2 h3 h4 h5 ⟨t1, by rw [t2, hc'.2.1], t3⟩ ?_
                right
                have hge := le_nextWait cfg.par hf w e3
                have hmx := nextWait_le_max cfg.par w
                refine ⟨_, _, t4, by simp [hn], hmx, by omega, by rw [r1]; omega, ?_⟩
                intro d0 hd0
                simp at hd0
                refine ⟨by simp [hn], by omega, ?_⟩
                rcases nextWait_strict cfg.par hf w e3 with hs | hs
                · left; omega
                · right; exact hs
              · intro ho _
                have := (hC.hidle ho rfl).2.1
                rw [h1] at this; cases this
          | hang =>
            rw [hrch] at r6
            obtain ⟨t1, t2, t3, t4⟩ := r6
            refine ⟨{ a with now := a.now + d, lastDelay := some (a.now + d - a.lastEnd), pend := some s.sinks.length }, ?_, ?_⟩
            · simp only [specStep, hcl, hset]
              simp [obsOf, r5, h1, hdelay1, hr, hrch]
              exact hdelay2
            · refine ⟨hcl, hq1, fun _ => ⟨?_, by simp [r1, hn], by simp [r2, hr]⟩,
                (by intro h; cases h), (by intro _ x; simp [h1] at x), ?_⟩
              · refine .pending s.sinks.length w h1 rfl h3 h4 h5 ⟨t1, by rw [t2, hc'.2.1], t3⟩ t4
                  (by rw [r3, htk]; simp) ⟨e3, e4, ?_⟩
                intro d0 hd0
                simp at hd0
                omega
              · intro ho _
                have := (hC.hidle ho rfl).2.1
                rw [h1] at this; cases this
      | upDown h1 h2 h3 h4 hc' hz =>
        obtain ⟨k', w', hres'⟩ := hC.hst rfl h1 h4 hc'.1
        rw [hres] at hres'; cases hres'
      | up h1 h2 h3 hd' hn' hs hr' => rw [hres] at hr'; cases hr'
      | resumingR k w' h1 h2 h3 h4 h5 hc' hr' => rw [hres] at hr'; cases hr'
      | failing k w' h1 h2 h3 h4 h5 hc' hr' => rw [hres] at hr'; cases hr'
      | pending k w' h1 h2 h3 h4 h5 hc' hr' => rw [hres] at hr'; cases hr'
      | resuming k w' h1 h2 h3 h4 h5 hc' hr' => rw [hres] at hr'; cases hr'
      | resumed k h1 h2 h3 h4 h5 hd' hn' hs hr' => rw [hres] at hr'; cases hr'
    · -- no wake
      have hno : ∀ wk w, s.res = .sleep wk w → ¬ wk ≤ s.now + d := by
        intro wk w h1 h2; exact hwake ⟨wk, w, h1, h2⟩
      rw [nowake hno]
      have hlt : ∀ wk w, s.res = .sleep wk w → s.now + d < wk := by
        intro wk w h; have := hno wk w h; omega
      have hup : a.known = false → a.raised = true → s.down = true → False := by
        intro x y z
        obtain ⟨k', w', hres'⟩ := hC.hst rfl x y z
        cases hl with
        | upDown h1 h2 h3 h4 hc' hz =>
          rcases hz with ⟨hx, _⟩ | ⟨_, _, hx, _⟩ <;> (rw [hres'] at hx; cases hx)
        | resumingR k w h1 h2 h3 h4 h5 hc' hr' htt =>
          obtain ⟨pre, post, he, _⟩ := htt; rw [htk] at he; simp at he
        | up h1 h2 h3 hd' => rw [hd'] at z; cases z
        | sleeping h1 => rw [h1] at x; cases x
        | failing k w h1 => rw [h1] at x; cases x
        | pending k w h1 => rw [h1] at x; cases x
        | resuming k w h1 => rw [h1] at x; cases x
        | resumed k h1 => rw [h1] at x; cases x
      have hev : (obsOf (advance (clearEv s) d) Resp.none).ev = [] := by simp [obsOf]
      cases hpo : a.pendOk with
      | none =>
        have hset : a.settle = a := by simp [SS.settle, hpo]
        refine ⟨{ a with now := a.now + d }, ?_, ?_⟩
        · simp only [specStep, hcl, hset, hev]
          simp [firstCreate]
        · refine ⟨hcl, hq0 _ (by simp [htk]) _, fun _ => ⟨?_, by simp [hn], by simp [hr]⟩, (by intro h; cases h), ?_, ?_⟩
          · exact live_advance cfg.par (clearEv s) a _ d
              (live_congr _ s _ a a hl rfl rfl rfl rfl rfl rfl rfl rfl rfl rfl rfl rfl rfl) (by simp [htk])
              (by simpa using hlt) (by simpa using hup) rfl rfl rfl rfl rfl rfl rfl
          · intro _ x y z; exact (hup x y (by simpa using z)).elim
          · intro ho _
            obtain ⟨i1, i2, i3, i4⟩ := hC.hidle ho rfl
            exact ⟨i1, i2, i3, by simpa using i4⟩
      | some k =>
        have hset : a.settle = a.recovered k := by simp [SS.settle, hpo]
        refine ⟨{ a.recovered k with now := a.now + d }, ?_, ?_⟩
        · simp only [specStep, hcl, hset, hev]
          simp [firstCreate, SS.recovered]
        · refine ⟨hcl, hq0 _ (by simp [htk]) _, fun _ => ⟨?_, by simp [SS.recovered, hn], by simp [SS.recovered, hr]⟩,
            (by intro h; cases h), (by intro _ _ x; simp [SS.recovered] at x), ?_⟩
          · cases hl with
            | resumed k' h1 h2 h3 h4 h5 hd' hn' hs hr' hnk =>
              rw [hpo] at h3; cases h3
              refine .up rfl rfl rfl (by simpa using hd') (by simp [SS.recovered, hn']) (by simp [SS.recovered, hs])
                (by simpa using hr') ?_ (by simp [SS.recovered])
              intro j hj
              simp [SS.recovered, htk]
            | resuming k' w h1 h2 h3 h4 h5 hc' hr' htt hnk => rw [htk] at htt; cases htt
            | up h1 h2 h3 => rw [hpo] at h3; cases h3
            | upDown h1 h2 h3 => rw [hpo] at h3; cases h3
            | resumingR k' w h1 h2 h3 => rw [hpo] at h3; cases h3
            | sleeping h1 h2 h3 => rw [hpo] at h3; cases h3
            | failing k' w h1 h2 h3 => rw [hpo] at h3; cases h3
            | pending k' w h1 h2 h3 => rw [hpo] at h3; cases h3
          · intro ho _
            have hk := (hC.hidle ho rfl).2.1
            cases hl with
            | resumed k' h1 => rw [h1] at hk; cases hk
            | resuming k' w h1 => rw [h1] at hk; cases hk
            | up h1 h2 h3 => rw [hpo] at h3; cases h3
            | upDown h1 h2 h3 => rw [hpo] at h3; cases h3
            | resumingR k' w h1 h2 h3 => rw [hpo] at h3; cases h3
            | sleeping h1 h2 h3 => rw [hpo] at h3; cases h3
            | failing k' w h1 h2 h3 => rw [hpo] at h3; cases h3
            | pending k' w h1 h2 h3 => rw [hpo] at h3; cases h3




theorem step_opn (cfg : Cfg) (s : St) (a : SS) (o c : Bool) (idx : Nat)
    (hC : Cpl cfg.par s a o c) (hop : opOk s o c .opn = true) :
    ∃ a', specStep cfg a idx .opn
        (obsOf (stepSt cfg.par (clearEv s) .opn).1 (stepSt cfg.par (clearEv s) .opn).2) = (.ok, a') ∧
      Cpl cfg.par (stepSt cfg.par (clearEv s) .opn).1 a' true c := by
  have hstep : stepSt cfg.par (clearEv s) .opn = (doOpen (clearEv s), Resp.none) := rfl
  rw [hstep]
  simp only [opOk, Bool.and_eq_true, Bool.not_eq_true'] at hop
  obtain ⟨ho, hc'⟩ := hop
  subst ho; subst hc'
  have hcl : a.closed = false := hC.hclosed
  obtain ⟨hl, hn, hr⟩ := hC.hlive rfl
  obtain ⟨i1, i2, i3, i4⟩ := hC.hidle rfl rfl
  cases hl with
  | up h1 h2 h3 hd hn' hs hr' hk hi =>
    have hnx : s.next = none := by rw [hn', i1]
    have hsb : s.subs = [] := by rw [hs, i1]; rfl
    have e : doOpen (clearEv s) =
        openSink { (createSink (clearEv s)).1 with subs := [0], next := some 0 } 0 := by
      simp [doOpen, hnx, createSink, hsb, i4]
    rw [e]
    have hfc : firstCreate (openSink { (createSink (clearEv s)).1 with subs := [0], next := some 0 } 0).ev = some 0 := by
      cases hrc : s.reach <;> simp [openSink, createSink, emit, updSink, firstCreate, i4, hrc]
    have hf : ∀ s1 : St, s1 = openSink { (createSink (clearEv s)).1 with subs := [0], next := some 0 } 0 →
        s1.down = false ∧ s1.next = some 0 ∧ s1.subs = [0] ∧ s1.res = .none ∧ s1.now = s.now ∧
        s1.reach = s.reach ∧ s1.tasks = s.tasks ∧ s1.sinks.length = 1 := by
      intro s1 h1'
      subst h1'
      cases hrc : s.reach <;> simp [openSink, createSink, emit, updSink, hd, hr', i4, hrc]
    obtain ⟨f1, f2, f3, f4, f5, f6, f7, f8⟩ := hf _ rfl
    generalize openSink { (createSink (clearEv s)).1 with subs := [0], next := some 0 } 0 = s1 at *
    have hnn : Task.notify 0 ∉ s.tasks := by
      intro hm
      have := hC.hq.bound 0 hm
      rw [i4] at this; cases this
    refine ⟨{ a with inst := some 0, instOk := decide (a.reach = .up) }, by simp [specStep, hcl, obsOf, hfc], ?_⟩
    refine ⟨hcl, ⟨?_, ?_⟩, fun _ => ⟨?_, hn.trans f5.symm, hr.trans f6.symm⟩, (by intro h; cases h),
      (by intro _ _ _ x; rw [f1] at x; cases x), (by intro h; cases h)⟩
    · intro k hk'
      rw [f7] at hk'
      have := hC.hq.bound k hk'
      rw [i4] at this; cases this
    · intro _ hk'
      rw [f7] at hk'
      exact hC.hq.nokill rfl hk'
    · refine .up h1 h2 h3 f1 (by simp [f2]) (by simp [f3]) f4 ?_ (by simp)
      intro j hj
      simp only [Option.some.injEq] at hj
      subst hj
      simp [i3, f7, hnn]
  | upDown h1 h2 h3 h4 => rw [i3] at h4; cases h4
  | resumingR k w h1 h2 h3 h4 => rw [i3] at h4; cases h4
  | sleeping h1 => rw [i2] at h1; cases h1
  | failing k w h1 => rw [i2] at h1; cases h1
  | pending k w h1 => rw [i2] at h1; cases h1
  | resuming k w h1 => rw [i2] at h1; cases h1
  | resumed k h1 => rw [i2] at h1; cases h1

theorem step_close (cfg : Cfg) (s : St) (a : SS) (o c : Bool) (idx : Nat)
    (hC : Cpl cfg.par s a o c) (hop : opOk s o c .close = true) :
    ∃ a', specStep cfg a idx .close
        (obsOf (stepSt cfg.par (clearEv s) .close).1 (stepSt cfg.par (clearEv s) .close).2) = (.ok, a') ∧
      Cpl cfg.par (stepSt cfg.par (clearEv s) .close).1 a' o true := by
  have hstep : stepSt cfg.par (clearEv s) .close = (doClose (clearEv s), Resp.none) := rfl
  rw [hstep]
  simp only [opOk, Bool.not_eq_true'] at hop
  subst hop
  have hcl : a.closed = false := hC.hclosed
  obtain ⟨hl, hn, hr⟩ := hC.hlive rfl
  refine ⟨{ a with closed := true }, by simp [specStep, hcl], ?_⟩
  -- the subscription, if any, is to the next sink
  have hsubs : (s.next = none ∧ s.subs = []) ∨ (∃ k, s.next = some k ∧ s.subs = [k]) := by
    cases hl with
    | up h1 h2 h3 hd hn' hs hr' hk hi =>
      cases hin : a.inst with
      | none => left; exact ⟨by rw [hn', hin], by rw [hs, hin]; rfl⟩
      | some k => right; exact ⟨k, by rw [hn', hin], by rw [hs, hin]; rfl⟩
    | upDown h1 h2 h3 h4 hc' => left; exact ⟨hc'.2.1, hc'.2.2⟩
    | resumingR k w h1 h2 h3 h4 h5 hc' => left; exact ⟨hc'.2.1, hc'.2.2⟩
    | sleeping h1 h2 h3 h4 h5 hc' => left; exact ⟨hc'.2.1, hc'.2.2⟩
    | failing k w h1 h2 h3 h4 h5 hc' => left; exact ⟨hc'.2.1, hc'.2.2⟩
    | pending k w h1 h2 h3 h4 h5 hc' => left; exact ⟨hc'.2.1, hc'.2.2⟩
    | resuming k w h1 h2 h3 h4 h5 hc' => left; exact ⟨hc'.2.1, hc'.2.2⟩
    | resumed k h1 h2 h3 h4 h5 hd hn' hs => right; exact ⟨k, hn', hs⟩
  have key : Shut (doClose (clearEv s)) ∧
      (∀ x, x ∈ (doClose (clearEv s)).tasks → x ∈ s.tasks ∨ x = .kill) ∧
      (doClose (clearEv s)).sinks.length = s.sinks.length := by
    rcases hsubs with ⟨h1, h2⟩ | ⟨k, h1, h2⟩
    · cases hres : s.res <;>
        simp [doClose, Shut, h1, h2, hres, push, List.mem_filter]
      all_goals (intro x hx; first | exact Or.inl hx | (intro _; exact Or.inl hx))
    · cases hres : s.res <;>
        simp [doClose, Shut, h1, h2, hres, push, closeSink, emit, updSink, List.mem_filter]
      all_goals (intro x hx; first | exact Or.inl hx | (intro _; exact Or.inl hx))
  obtain ⟨k1, k2, k3⟩ := key
  refine ⟨rfl, ⟨?_, (by intro h; cases h)⟩, (by intro h; cases h), fun _ => k1, (by intro h; cases h),
    (by intro _ h; cases h)⟩
  intro j hj
  rw [k3]
  rcases k2 _ hj with h | h
  · exact hC.hq.bound j h
  · cases h


/-! ### all operations; whole histories -/

theorem step_ok (cfg : Cfg) (hc : cfgWF cfg = true) (s : St) (a : SS) (o c : Bool) (idx : Nat) (op : Op)
    (hC : Cpl cfg.par s a o c) (hop : opOk s o c op = true) :
    ∃ a', specStep cfg a idx op
        (obsOf (stepSt cfg.par (clearEv s) op).1 (stepSt cfg.par (clearEv s) op).2) = (.ok, a') ∧
      Cpl cfg.par (stepSt cfg.par (clearEv s) op).1 a' (o || isOpn op) (c || isClose op) := by
  cases op with
  | opn => simpa [isOpn, isClose] using step_opn cfg s a o c idx hC hop
  | req => simpa [isOpn, isClose] using step_req cfg hc s a o c idx hC
  | fault k => simpa [isOpn, isClose] using step_fault cfg s a o c idx k hC hop
  | done k ok => simpa [isOpn, isClose] using step_done cfg s a o c idx k ok hC hop
  | turn => simpa [isOpn, isClose] using step_turn cfg hc s a o c idx hC
  | reach r => simpa [isOpn, isClose] using step_reach cfg s a o c idx r hC
  | tick d => simpa [isOpn, isClose] using step_tick cfg hc s a o c idx d hC hop
  | close => simpa [isOpn, isClose] using step_close cfg s a o c idx hC hop

theorem spec_trace (cfg : Cfg) (hc : cfgWF cfg = true) (ops : List Op) :
    ∀ (s : St) (a : SS) (o c : Bool) (idx : Nat), Cpl cfg.par s a o c →
      wfGo cfg.par s o c ops = true → specGo cfg a idx (comp.trace cfg s ops) = .ok := by
  induction ops with
  | nil => intro s a o c idx _ _; rfl
  | cons op ops ih =>
    intro s a o c idx hC hwf
    simp only [wfGo, Bool.and_eq_true] at hwf
    obtain ⟨a', hs, hC'⟩ := step_ok cfg hc s a o c idx op hC hwf.1
    have htr : comp.trace cfg s (op :: ops) =
        (op, obsOf (stepSt cfg.par (clearEv s) op).1 (stepSt cfg.par (clearEv s) op).2) ::
          comp.trace cfg (stepSt cfg.par (clearEv s) op).1 ops := by
      simp [TComp.trace, comp, step]
    rw [htr]
    simp only [specGo, hs]
    exact ih _ a' _ _ _ hC' hwf.2

theorem cpl_init (p : Par) : Cpl p {} {} false false := by
  refine ⟨rfl, ⟨(by intro k h; cases h), (by intro _ h; cases h)⟩, fun _ => ⟨?_, rfl, rfl⟩, (by intro h; cases h),
    (by intro _ _ h; cases h), fun _ _ => ⟨rfl, rfl, rfl, rfl⟩⟩
  exact .up rfl rfl rfl rfl rfl rfl rfl (by intro k h; cases h) (fun _ => rfl)

end Scales.Res
