import ScalesModel.Proofs.LBTotal

/-!
  C06 "the smoothed load is this balancer's own": the Ema of the model (`AS.ema`) moves only in
  `_AdjustAperture`, which appends one record to the log of the operation: the record's `prev` is the value
  held before, its `avg` the value held afterwards.  So the records of an operation, in call order, form a
  chain from the value held when the operation began to the value held when it ended.
-/
namespace Scales.LB
open Scales.Heap Scales.Aperture Scales.LBBase

/-- the chain of `c06Own`, as a Boolean -/
def chainB : Option Rat → List AdjRec → Bool
  | _, [] => true
  | held, r :: rs => decide (r.prev = held) && chainB (some r.avg) rs

theorem chainB_append (l1 : List AdjRec) : ∀ (h : Option Rat) (l2 : List AdjRec),
    chainB h (l1 ++ l2) = (chainB h l1 && chainB (heldAfter h l1) l2) := by
  induction l1 with
  | nil => intro h l2; simp [chainB, heldAfter]
  | cons r rs ih => intro h l2; simp only [List.cons_append, chainB, heldAfter, ih, Bool.and_assoc]

theorem heldAfter_append (l1 : List AdjRec) : ∀ (h : Option Rat) (l2 : List AdjRec),
    heldAfter h (l1 ++ l2) = heldAfter (heldAfter h l1) l2 := by
  induction l1 with
  | nil => intro h l2; rfl
  | cons r rs ih => intro h l2; simp only [List.cons_append, heldAfter, ih]

theorem c06Own_ok (idx : Nat) (l : List AdjRec) : ∀ (h : Option Rat), chainB h l = true → c06Own idx h l = .ok := by
  induction l with
  | nil => intro h _; rfl
  | cons r rs ih =>
    intro h hc
    simp only [chainB, Bool.and_eq_true, decide_eq_true_eq] at hc
    simp only [c06Own, if_pos hc.1]
    exact ih _ hc.2

/-- the log grew by a chain that leads from the Ema value of `a` to the Ema value of `a'` -/
def Ext (a a' : AS) : Prop :=
  ∃ l, a'.adjLog = a.adjLog ++ l ∧ chainB a.ema l = true ∧ a'.ema = heldAfter a.ema l

/-- neither the Ema nor the log moved -/
def Still (a a' : AS) : Prop := a'.ema = a.ema ∧ a'.adjLog = a.adjLog

theorem Still.refl (a : AS) : Still a a := ⟨rfl, rfl⟩
theorem Still.trans {a b c : AS} (h1 : Still a b) (h2 : Still b c) : Still a c :=
  ⟨h2.1.trans h1.1, h2.2.trans h1.2⟩

theorem Still.ext {a a' : AS} (h : Still a a') : Ext a a' :=
  ⟨[], by rw [h.2, List.append_nil], rfl, h.1⟩

theorem Ext.refl (a : AS) : Ext a a := (Still.refl a).ext

theorem Ext.trans {a b c : AS} (h1 : Ext a b) (h2 : Ext b c) : Ext a c := by
  obtain ⟨l1, e1, c1, v1⟩ := h1
  obtain ⟨l2, e2, c2, v2⟩ := h2
  refine ⟨l1 ++ l2, by rw [e2, e1, List.append_assoc], ?_, ?_⟩
  · rw [chainB_append, c1, ← v1, c2]; rfl
  · rw [heldAfter_append, ← v1, v2]

theorem choose_still (a : AS) : Still a (a.choose).1 := by
  unfold AS.choose
  split
  · exact Still.refl a
  · split
    · exact ⟨rfl, rfl⟩
    · split <;> exact ⟨rfl, rfl⟩

theorem tryExpand_still (cfg : Cfg) (a : AS) (lp : Bool) : Still a (a.tryExpand cfg lp).1 := by
  have hc := choose_still a
  unfold AS.tryExpand
  split
  · rename_i a0 he; rw [he] at hc; exact ⟨hc.1, hc.2⟩
  · rename_i a0 c he; rw [he] at hc
    simp only
    split
    · exact ⟨hc.1, hc.2⟩
    · exact ⟨hc.1, hc.2⟩

theorem contract_still (cfg : Cfg) (a : AS) (f : Bool) : Still a (a.contract cfg f) := by
  unfold AS.contract
  split
  · exact Still.refl a
  · split
    · split <;> exact ⟨rfl, rfl⟩
    · exact Still.refl a

theorem onNodeDown_still (cfg : Cfg) (a : AS) (nid : Nat) : Still a (a.onNodeDown cfg nid).1 := by
  unfold AS.onNodeDown
  split
  · exact tryExpand_still cfg a false
  · exact Still.refl a

/-- one `_AdjustAperture` call: one record, from the value held to the value returned -/
theorem adjustWith_ext (cfg : Cfg) (a : AS) (amount : Int) (i : AdjIn) (rest : List AdjIn) (m : Bool) :
    ∃ r : AdjRec, (a.adjustWith cfg amount i rest m).adjLog = a.adjLog ++ [r] ∧ r.prev = a.ema ∧
      (a.adjustWith cfg amount i rest m).ema = some r.avg := by
  unfold AS.adjustWith
  simp only
  split
  · have h := tryExpand_still cfg
      { a with total := a.total + amount, ema := some i.avg, clock := MonoClock.sample a.clock i.now,
               adjIn := rest, bad := a.bad || m } false
    exact ⟨_, by rw [h.2], rfl, h.1⟩
  · have h := contract_still cfg
      { a with total := a.total + amount, ema := some i.avg, clock := MonoClock.sample a.clock i.now,
               adjIn := rest, bad := a.bad || m } false
    exact ⟨_, by rw [h.2], rfl, h.1⟩
  · exact ⟨_, rfl, rfl, rfl⟩

theorem adjust_ext (cfg : Cfg) (a : AS) (amount : Int) : Ext a (a.adjust cfg amount) := by
  have key : ∀ i rest m, Ext a (a.adjustWith cfg amount i rest m) := by
    intro i rest m
    obtain ⟨r, h1, h2, h3⟩ := adjustWith_ext cfg a amount i rest m
    exact ⟨[r], h1, by simp [chainB, h2], by simp [heldAfter, h3]⟩
  unfold AS.adjust
  split <;> exact key _ _ _

theorem getLoop_still (cfg : Cfg) (fuel : Nat) : ∀ (a : AS), Still a (a.getLoop cfg fuel).1 := by
  induction fuel with
  | zero => intro a; exact Still.refl a
  | succ n ih =>
    intro a
    unfold AS.getLoop
    simp only
    split
    · exact ⟨rfl, rfl⟩
    · refine Still.trans ?_ (ih _)
      exact ⟨(onNodeDown_still cfg _ _).1, (onNodeDown_still cfg _ _).2⟩

theorem get_ext (cfg : Cfg) (a : AS) : Ext a (a.get cfg).1 := by
  unfold AS.get
  by_cases h0 : a.hs.size = 0
  · simp only [h0, if_true]; exact Ext.refl a
  · simp only [h0, if_false]
    have hq := getLoop_still cfg (a.hs.nodes.length + a.idle.length + 1) a
    have h1 : ∀ hs' : HS, Still a { (a.getLoop cfg (a.hs.nodes.length + a.idle.length + 1)).1 with hs := hs' } :=
      fun _ => ⟨hq.1, hq.2⟩
    split
    · exact (h1 _).ext.trans (adjust_ext cfg _ 1)
    · exact (h1 _).ext

theorem put_ext (cfg : Cfg) (a : AS) (r j : Nat) : Ext a (a.put cfg r j) := by
  unfold AS.put
  split
  · exact Still.ext ⟨rfl, rfl⟩
  · exact Ext.refl a
  · rename_i nid _
    simp only
    have h1 : Still a { (if putLegal a.hs nid j = true then a else { a with bad := true }) with
        hs := a.hs.put r (putDraw a.hs nid j) } := by
      split <;> exact ⟨rfl, rfl⟩
    split
    · exact h1.ext.trans (adjust_ext cfg _ (-1))
    · exact h1.ext

theorem setChan_still (a : AS) (nid st : Nat) : Still a (a.setChan nid st) := by
  unfold AS.setChan
  split <;> exact ⟨rfl, rfl⟩

theorem opened_still (cfg : Cfg) (a : AS) (nid : Nat) (ok : Bool) : Still a (a.opened cfg nid ok) := by
  unfold AS.opened
  split
  · exact ⟨rfl, rfl⟩
  · split
    · exact ⟨rfl, rfl⟩
    · have h := onNodeDown_still cfg a nid
      exact ⟨h.1, h.2⟩

theorem jitterEnd_still (cfg : Cfg) (a : AS) (nid : Nat) : Still a (a.jitterEnd cfg nid) := by
  unfold AS.jitterEnd
  have h := contract_still cfg a true
  exact ⟨h.1, h.2⟩

theorem jitterStart_still (cfg : Cfg) (a : AS) : Still a (a.jitterStart cfg) := by
  unfold AS.jitterStart
  split
  · exact ⟨rfl, rfl⟩
  · have h1 := tryExpand_still cfg a true
    simp only
    split
    · exact h1
    · split
      · exact h1.trans (Still.trans (b := { (a.tryExpand cfg true).1 with on := _ }) ⟨rfl, rfl⟩ (jitterEnd_still cfg _ _))
      · exact ⟨h1.1, h1.2⟩

theorem fire_still (a : AS) (nid : Nat) : Still a (a.fire nid) := by
  unfold AS.fire; simp only; split <;> exact ⟨rfl, rfl⟩

theorem foldl_fire_still (ids : List Nat) : ∀ (a : AS), Still a (ids.foldl AS.fire a) := by
  induction ids with
  | nil => intro a; exact Still.refl a
  | cons x xs ih => intro a; exact (fire_still a x).trans (ih _)

theorem settleRound_still (cfg : Cfg) (a : AS) : Still a (a.settleRound cfg).1 := by
  unfold AS.settleRound
  simp only
  set ids := (List.range a.on.length).filter (fun i => !(a.onOf i).done && a.arReady i) with hids
  set a1 := ids.foldl AS.fire a with ha1
  have h1 : Still a a1 := foldl_fire_still ids a
  have h2 : Still a1 (if (!a1.openAr && ids.any (fun i => a1.initialNodes.contains i)) = true
      then { a1 with openAr := true } else a1) := by
    split <;> exact ⟨rfl, rfl⟩
  have h3 : ∀ b : AS, Still b (match b.jitterWait with
      | some nid => if ids.contains nid then b.jitterEnd cfg nid else b
      | none => b) := by
    intro b
    cases b.jitterWait with
    | none => exact Still.refl b
    | some nid =>
      simp only
      split
      · exact jitterEnd_still cfg b nid
      · exact Still.refl b
  exact h1.trans (h2.trans (h3 _))

theorem settleN_still (cfg : Cfg) (fuel : Nat) : ∀ (a : AS), Still a (a.settleN cfg fuel) := by
  induction fuel with
  | zero => intro a; exact Still.refl a
  | succ n ih =>
    intro a
    unfold AS.settleN
    simp only
    split
    · exact (settleRound_still cfg a).trans (ih _)
    · exact settleRound_still cfg a

theorem settle_still (cfg : Cfg) (a : AS) : Still a (a.settle cfg) := settleN_still cfg _ a

theorem addSink_still (cfg : Cfg) (a : AS) (ep : Nat) : Still a (a.addSink cfg ep) := by
  unfold AS.addSink
  split
  · split <;> exact ⟨rfl, rfl⟩
  · exact ⟨rfl, rfl⟩

theorem removeSink_still (cfg : Cfg) (a : AS) (ep : Nat) : Still a (a.removeSink cfg ep) := by
  unfold AS.removeSink
  split
  · simp only
    have h1 : Still a { a with hs := (a.hs.removeSink ep).1 } := ⟨rfl, rfl⟩
    split
    · have h2 := h1.trans (tryExpand_still cfg _ false)
      exact ⟨h2.1, h2.2⟩
    · exact ⟨rfl, rfl⟩
  · exact ⟨rfl, rfl⟩

theorem applyNotif_still (cfg : Cfg) (a : AS) (n : Notif) : Still a (applyNotif (sub cfg) a n) := by
  cases n with
  | join ep =>
    unfold applyNotif addServer
    simp only [sub_servers, sub_onAdd, sub_setServers]
    by_cases hm : ep ∈ a.hs.servers
    · simp only [hm, if_true]; exact Still.refl a
    · simp only [hm, if_false]
      exact Still.trans (b := withServers a (a.hs.servers ++ [ep])) ⟨rfl, rfl⟩ (addSink_still cfg _ ep)
  | leave ep =>
    unfold applyNotif removeServer
    simp only [sub_servers, sub_onRemove, sub_setServers]
    exact Still.trans (b := withServers a (a.hs.servers.filter (· ≠ ep))) ⟨rfl, rfl⟩ (removeSink_still cfg _ ep)

theorem foldl_applyNotif_still (cfg : Cfg) (ns : List Notif) : ∀ (a : AS),
    Still a (ns.foldl (applyNotif (sub cfg)) a) := by
  induction ns with
  | nil => intro a; exact Still.refl a
  | cons n ns ih => intro a; exact (applyNotif_still cfg a n).trans (ih _)

theorem foldl_addServer_still (cfg : Cfg) (l : List Nat) : ∀ (a : AS),
    Still a (l.foldl (addServer (sub cfg)) a) := by
  induction l with
  | nil => intro a; exact Still.refl a
  | cons n ns ih => intro a; exact (applyNotif_still cfg a (.join n)).trans (ih _)

theorem load_still (cfg : Cfg) (lb : St) (l : List Nat) : Still lb.sub (lb.load (sub cfg) l).sub := by
  unfold LB.load loadInitial
  simp only [sub_setServers, sub_openInitial]
  exact Still.trans (b := withServers lb.sub []) ⟨rfl, rfl⟩
    ((foldl_addServer_still cfg l _).trans (Still.trans (b := AS.openInitial cfg _) ⟨rfl, rfl⟩
      (foldl_applyNotif_still cfg _ _)))

theorem notify_still (cfg : Cfg) (lb : St) (n : Notif) : Still lb.sub (lb.notify (sub cfg) n).sub := by
  unfold LB.notify
  split
  · exact applyNotif_still cfg _ n
  · exact Still.refl _

theorem flush_ext (cfg : Cfg) (q : List (Option Bool)) : ∀ (a : AS), Ext a (flush (sub cfg) q a).1 := by
  induction q with
  | nil => intro a; exact Ext.refl a
  | cons e q ih =>
    intro a
    unfold flush
    by_cases hl : live e = true
    · simp only [hl, if_true, sub_request]
      exact (get_ext cfg a).trans (ih _)
    · have hl' : live e = false := by simpa using hl
      simp only [hl', Bool.false_eq_true, if_false]
      exact ih a

theorem finish_ext (cfg : Cfg) (lb : St) : Ext lb.sub (lb.finish (sub cfg)).1.sub := by
  unfold LB.finish
  by_cases h0 : (sub cfg).openReady lb.sub = true ∧ lb.queued ≠ []
  · simp only [if_pos h0]
    simp only [sub_settle]
    exact (flush_ext cfg lb.queued lb.sub).trans (settle_still cfg _).ext
  · simp only [if_neg h0]
    have q1 := (settle_still cfg lb.sub).ext
    by_cases hc : (sub cfg).openReady ((sub cfg).settle lb.sub) = true ∧ lb.queued ≠ []
    · simp only [if_pos hc]
      simp only [sub_settle]
      exact q1.trans ((flush_ext cfg lb.queued _).trans (settle_still cfg _).ext)
    · simp only [if_neg hc]
      simp only [sub_settle]
      exact q1

/-- the log of the operation so far is a chain from `e` to the Ema value of `a` -/
def Own (e : Option Rat) (a : AS) : Prop := chainB e a.adjLog = true ∧ a.ema = heldAfter e a.adjLog

theorem Own.ext {e : Option Rat} {a a' : AS} (h : Own e a) (x : Ext a a') : Own e a' := by
  obtain ⟨l, e1, c1, v1⟩ := x
  unfold Own
  rw [e1, chainB_append, heldAfter_append, h.1, ← h.2, c1, v1]
  exact ⟨rfl, rfl⟩

theorem feed_own (lb : St) (e : Env) : Own lb.sub.ema (feed lb e).sub := ⟨rfl, rfl⟩

/-- the operation proper (every operation, `Open()` included, starts with an empty log) -/
theorem act_own (cfg : Cfg) (lb : St) (op : Op) :
    Own lb.sub.ema (act cfg lb op).1.sub := by
  cases op with
  | opn => exact feed_own lb ⟨[], []⟩
  | loaded l e => exact (feed_own lb e).ext (load_still cfg _ l).ext
  | join ep e => exact (feed_own lb e).ext (notify_still cfg _ _).ext
  | leave ep e => exact (feed_own lb e).ext (notify_still cfg _ _).ext
  | get e =>
    simp only [act]
    unfold LB.request
    by_cases hr : (sub cfg).openReady (feed lb e).sub = true
    · simp only [if_pos hr, sub_request]
      exact (feed_own lb e).ext (get_ext cfg _)
    · simp only [if_neg hr]
      exact feed_own lb e
  | getd e =>
    simp only [act]
    unfold LB.request
    by_cases hr : (sub cfg).openReady (feed lb e).sub = true
    · simp only [if_pos hr, sub_request]
      exact (feed_own lb e).ext (get_ext cfg _)
    · simp only [if_neg hr]
      exact feed_own lb e
  | expire k =>
    simp only [act]
    cases hx : (feed lb ⟨[], []⟩).expire k with
    | none => exact ⟨rfl, rfl⟩
    | some lb2 =>
      unfold LB.expire at hx
      split at hx
      · injection hx with hx; subst hx
        exact ⟨rfl, rfl⟩
      · cases hx
  | chan nid s => exact (feed_own lb _).ext (setChan_still _ nid s).ext
  | opened nid ok e => exact (feed_own lb e).ext (opened_still cfg _ nid ok).ext
  | jitter e => exact (feed_own lb e).ext (jitterStart_still cfg _).ext
  | put r j e => exact (feed_own lb e).ext (put_ext cfg _ r j)

theorem tapesRead_still (lb : St) : Still lb.sub (tapesRead lb).sub := by
  unfold tapesRead; split <;> exact ⟨rfl, rfl⟩

/-- one operation of the balancer: the `_AdjustAperture` records it reports form a chain from the smoothed
    load held before the operation to the smoothed load held after it -/
theorem own_step (cfg : Cfg) (lb : St) (op : Op) :
    chainB lb.sub.ema (stepSt cfg lb op).1.sub.adjLog = true ∧
    (stepSt cfg lb op).1.sub.ema = heldAfter lb.sub.ema (stepSt cfg lb op).1.sub.adjLog := by
  have h := ((act_own cfg lb op).ext (finish_ext cfg (act cfg lb op).1)).ext
    (tapesRead_still ((act cfg lb op).1.finish (sub cfg)).1).ext
  exact h

end Scales.LB
