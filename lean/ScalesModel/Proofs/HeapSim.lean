import ScalesModel.Proofs.HeapFacts

/-! The abstract state `A0` that the specifications rebuild from the history simulates the model
    state; under `Inv` and the simulation every `get` passes `c03Get` and every observation
    passes `c04Obs`. -/
namespace Scales.Heap

/-! ### list helpers -/

theorem getD_set' (l : List Nat) (i j x d : Nat) :
    (l.set i x).getD j d = if j = i ∧ i < l.length then x else l.getD j d := by
  simp only [List.getD_eq_getElem?_getD, List.getElem?_set]
  by_cases h : i = j
  · subst h
    by_cases hl : i < l.length
    · simp [hl]
    · simp [hl]
  · have : ¬ j = i := fun e => h e.symm
    simp [h, this]

theorem getD_bump (l : List Nat) (i j : Nat) (f : Nat → Nat) :
    (bump l i f).getD j 0 = if j = i ∧ i < l.length then f (l.getD i 0) else l.getD j 0 := by
  unfold bump; exact getD_set' l i j _ 0

@[simp] theorem bump_length (l : List Nat) (i : Nat) (f : Nat → Nat) : (bump l i f).length = l.length := by
  unfold bump; simp

theorem getD_append_one (l : List Nat) (x d j : Nat) :
    (l ++ [x]).getD j d = if j < l.length then l.getD j d else if j = l.length then x else d := by
  simp only [List.getD_eq_getElem?_getD, List.getElem?_append]
  by_cases h : j < l.length
  · simp [h]
  · by_cases h2 : j = l.length
    · simp [h2]
    · have : ¬ j - l.length = 0 := by omega
      simp only [h, if_false, h2]
      rw [List.getElem?_eq_none (by simp; omega)]
      rfl

theorem any_eq_and (l : List Nat) (id : Nat) (q : Nat → Bool) :
    l.any (fun x => x == id && q x) = (decide (id ∈ l) && q id) := by
  induction l with
  | nil => simp
  | cons a l ih =>
    rw [List.any_cons, ih]
    by_cases e : a = id
    · subst e; simp
    · have e' : ¬ id = a := fun x => e x.symm
      simp [e, e']

/-! ### the simulation relation (without the `prev` component) -/

structure Sim0 (a : A0) (s : HS) : Prop where
  nextId : a.nextId = s.nodes.length
  outLen : a.out.length = s.nodes.length
  chanLen : a.chan.length = s.nodes.length
  wcLen : a.wantClosed.length = s.nodes.length
  mem : ∀ id ep, (id, ep) ∈ a.members ↔ (InHeap s id ∧ (s.node id).ep = ep)
  out : ∀ id, id < s.nodes.length → a.out.getD id 0 = outOf s id
  chan : ∀ id, id < s.nodes.length → a.chan.getD id 4 = (s.node id).chan
  reqs : a.reqs = s.reqs
  wc : ∀ id, id < s.nodes.length → a.wantClosed.getD id 0 = (s.node id).closed

/-- the previous observation tells which nodes are marked down -/
def PrevOk (a : A0) (s : HS) : Prop :=
  ∀ id, id < s.nodes.length → ∃ p, a.prev = some p ∧ penalisedIn p id = decide ((s.node id).load ≥ 0)

theorem Sim0.setPrev {a : A0} {s : HS} (h : Sim0 a s) (o : Option Obs) : Sim0 { a with prev := o } s :=
  ⟨h.nextId, h.outLen, h.chanLen, h.wcLen, h.mem, h.out, h.chan, h.reqs, h.wc⟩

theorem Sim0.isMember {a : A0} {s : HS} (h : Sim0 a s) (id : Nat) : a.isMember id = true ↔ InHeap s id := by
  unfold A0.isMember
  rw [List.any_eq_true]
  constructor
  · rintro ⟨⟨i, e⟩, hm, he⟩
    have : i = id := by simpa using he
    subst this
    exact ((h.mem i e).mp hm).1
  · intro hi
    exact ⟨(id, (s.node id).ep), (h.mem _ _).mpr ⟨hi, rfl⟩, by simp⟩

theorem penalisedIn_obsOf (s : HS) (res : Option GetRes) (id : Nat) (hl : id < s.nodes.length) :
    penalisedIn (obsOf s res) id = decide ((s.node id).load ≥ 0) := by
  unfold penalisedIn obsOf
  simp only [List.any_append, List.any_map]
  have h1 : ∀ l : List Nat, l.any ((fun v => v.id == id && decide (v.load ≥ 0)) ∘ viewOf s) =
      (decide (id ∈ l) && decide ((s.node id).load ≥ 0)) := by
    intro l
    exact any_eq_and l id (fun x => decide ((s.node x).load ≥ 0))
  rw [h1, h1]
  by_cases hm : id ∈ s.heap
  · simp [hm]
  · simp [hl, hm]

theorem PrevOk_obsOf (a : A0) (s : HS) (res : Option GetRes) : PrevOk { a with prev := some (obsOf s res) } s :=
  fun id hl => ⟨_, rfl, penalisedIn_obsOf s res id hl⟩

/-! ### the verdicts -/

theorem view_mem (s : HS) (hw : WF s) (res : Option GetRes) (v : NodeView)
    (hv : v ∈ (obsOf s res).heap ++ (obsOf s res).off) : ∃ id, id < s.nodes.length ∧ v = viewOf s id := by
  unfold obsOf at hv
  simp only [List.mem_append, List.mem_map, List.mem_filter, List.mem_range] at hv
  rcases hv with ⟨id, hm, rfl⟩ | ⟨id, ⟨hl, _⟩, rfl⟩
  · exact ⟨id, inHeap_lt s hw id ((mem_heap_iff s id).mp hm), rfl⟩
  · exact ⟨id, hl, rfl⟩

theorem c04_ok (a : A0) (s : HS) (h : Inv s) (hs : Sim0 a s) (idx : Nat) (res : Option GetRes) :
    c04Obs a idx (obsOf s res) = .ok := by
  unfold c04Obs
  have h1 : ((obsOf s res).heap ++ (obsOf s res).off).all
      (fun v => decide (relLoad v = (a.outOf v.id : Int)) && decide (v.load ≥ Idle)) = true := by
    rw [List.all_eq_true]
    intro v hv
    obtain ⟨id, hl, rfl⟩ := view_mem s h.wf res v hv
    obtain ⟨a1, a2, a3, a4⟩ := h.book.pen_iff id hl
    have ho : a.outOf id = outOf s id := hs.out id hl
    simp only [Bool.and_eq_true, decide_eq_true_eq]
    refine ⟨?_, a3⟩
    show relLoad (viewOf s id) = (a.outOf id : Int)
    unfold relLoad
    show (if (s.node id).load ≥ 0 then (s.node id).load else (s.node id).load - Idle) = _
    rw [ho]
    split
    · rename_i hp; exact a1.mp hp
    · rename_i hp; have := a2.mp (by omega); omega
  have h2 : ((obsOf s res).heap ++ (obsOf s res).off).all
      (fun v => v.closed == a.wantClosed.getD v.id 0) = true := by
    rw [List.all_eq_true]
    intro v hv
    obtain ⟨id, hl, rfl⟩ := view_mem s h.wf res v hv
    have := hs.wc id hl
    show ((s.node id).closed == a.wantClosed.getD id 0) = true
    rw [this]; simp
  simp only [h1, h2]
  rfl

theorem c03_ok (a : A0) (s : HS) (h : Inv s) (hs : Sim0 a s) (idx : Nat) :
    c03Get a idx (some (s.get noHook).2) = .ok := by
  by_cases hsz : s.size = 0
  · rw [get_empty s hsz]
    have : a.members = [] := by
      rw [List.eq_nil_iff_forall_not_mem]
      rintro ⟨id, ep⟩ hm
      obtain ⟨⟨p, h1, h2, _⟩, _⟩ := (hs.mem id ep).mp hm
      omega
    simp [c03Get, this]
  · obtain ⟨nid, hres, hin, _, _, _, _, hch⟩ := get_facts s h hsz
    rw [hres]
    have hmem : (nid, (s.node nid).ep) ∈ a.members := (hs.mem _ _).mpr ⟨hin, rfl⟩
    have hne : a.members.isEmpty = false := by
      cases hm : a.members with
      | nil => rw [hm] at hmem; simp at hmem
      | cons _ _ => rfl
    have hism : a.isMember nid = true := (hs.isMember nid).mpr hin
    unfold c03Get
    simp only [hne, hism, Bool.false_eq_true, if_false, Bool.not_true]
    by_cases hop : a.openMembers.isEmpty = true
    · simp [hop]
    · simp only [hop, if_false]
      have hopen : ∀ m, m ∈ a.openMembers → InHeap s m ∧ (s.node m).chan = chOpen := by
        intro m hm
        unfold A0.openMembers at hm
        simp only [List.mem_filter, List.mem_map, beq_iff_eq] at hm
        obtain ⟨⟨⟨i, e⟩, hme, rfl⟩, hc⟩ := hm
        have hi := ((hs.mem i e).mp hme).1
        refine ⟨hi, ?_⟩
        rw [← hs.chan i (inHeap_lt s h.wf i hi)]
        exact hc
      have hex : ∃ m, InHeap s m ∧ (s.node m).chan = chOpen := by
        cases hm : a.openMembers with
        | nil => rw [hm] at hop; simp at hop
        | cons m _ => exact ⟨m, hopen m (by rw [hm]; simp)⟩
      obtain ⟨c1, c2⟩ := hch hex
      have hl := inHeap_lt s h.wf nid hin
      have hc1 : (a.chanOf nid != chOpen) = false := by
        unfold A0.chanOf
        rw [hs.chan nid hl, c1]; simp
      simp only [hc1, Bool.false_eq_true, if_false]
      have hall : a.openMembers.all (fun m => decide (a.outOf nid ≤ a.outOf m)) = true := by
        rw [List.all_eq_true]
        intro m hm
        obtain ⟨x1, x2⟩ := hopen m hm
        have := c2 m x1 x2
        unfold A0.outOf
        rw [hs.out nid hl, hs.out m (inHeap_lt s h.wf m x1)]
        simpa using this
      simp [hall]

end Scales.Heap
