import ScalesModel.Proofs.HeapScan

/-! `Inv` is preserved by `put` (`PutWrapper` / `__Put`), for every legal draw `j`. -/
namespace Scales.Heap

theorem putNode_eq (s : HS) (nid j : Nat) : s.putNode nid j =
    (if ((s.setLoad nid (if (s.node nid).load - 1 < Idle then Idle else (s.node nid).load - 1)).node nid).index < 0 ∧
        ((s.setLoad nid (if (s.node nid).load - 1 < Idle then Idle else (s.node nid).load - 1)).node nid).load > Idle
     then s.setLoad nid (if (s.node nid).load - 1 < Idle then Idle else (s.node nid).load - 1)
     else if ((s.setLoad nid (if (s.node nid).load - 1 < Idle then Idle else (s.node nid).load - 1)).node nid).index < 0 ∧
        ((s.setLoad nid (if (s.node nid).load - 1 < Idle then Idle else (s.node nid).load - 1)).node nid).load = Idle
     then (s.setLoad nid (if (s.node nid).load - 1 < Idle then Idle else (s.node nid).load - 1)).setNode nid
        { (s.setLoad nid (if (s.node nid).load - 1 < Idle then Idle else (s.node nid).load - 1)).node nid with
          closed := ((s.setLoad nid (if (s.node nid).load - 1 < Idle then Idle else (s.node nid).load - 1)).node nid).closed + 1 }
     else if ((s.setLoad nid (if (s.node nid).load - 1 < Idle then Idle else (s.node nid).load - 1)).node nid).load = Idle ∧
        (s.setLoad nid (if (s.node nid).load - 1 < Idle then Idle else (s.node nid).load - 1)).size > 1
     then
       ((((s.setLoad nid (if (s.node nid).load - 1 < Idle then Idle else (s.node nid).load - 1)).delAt
            (pos (s.setLoad nid (if (s.node nid).load - 1 < Idle then Idle else (s.node nid).load - 1)) nid)).swap j
          ((s.setLoad nid (if (s.node nid).load - 1 < Idle then Idle else (s.node nid).load - 1)).delAt
            (pos (s.setLoad nid (if (s.node nid).load - 1 < Idle then Idle else (s.node nid).load - 1)) nid)).size).fixUp j).fixUp
        ((((s.setLoad nid (if (s.node nid).load - 1 < Idle then Idle else (s.node nid).load - 1)).delAt
            (pos (s.setLoad nid (if (s.node nid).load - 1 < Idle then Idle else (s.node nid).load - 1)) nid)).swap j
          ((s.setLoad nid (if (s.node nid).load - 1 < Idle then Idle else (s.node nid).load - 1)).delAt
            (pos (s.setLoad nid (if (s.node nid).load - 1 < Idle then Idle else (s.node nid).load - 1)) nid)).size).fixUp j).size
     else (s.setLoad nid (if (s.node nid).load - 1 < Idle then Idle else (s.node nid).load - 1)).fixUp
        (pos (s.setLoad nid (if (s.node nid).load - 1 < Idle then Idle else (s.node nid).load - 1)) nid)) := rfl

theorem setLoad_L_off (s : HS) (id : Nat) (v : Int) (hn : ¬ InHeap s id) (p : Nat) (h1 : 1 ≤ p) (h2 : p ≤ s.size) :
    L (s.setLoad id v) p = L s p := by
  unfold L HS.at
  rw [(setLoad_node s id _ v).1, setLoad_idAt]
  have : ¬ s.idAt p = id := fun e => hn ⟨p, h1, h2, e⟩
  simp [this]

theorem OrdExUp_hole (f : Nat → Int) (n m x : Nat) (h : OrdExUp f n x) (hm : m ≤ n) : OrdHole f m x :=
  fun k a b c _ => h k a (by omega) c

/-- what a completion changes, field by field -/
structure PutEff (s s' : HS) (r nid : Nat) : Prop where
  len : s'.nodes.length = s.nodes.length
  reqs : s'.reqs = s.reqs.set r (nid, true)
  inHeap : ∀ id, InHeap s' id ↔ InHeap s id
  fields : ∀ id, (s'.node id).ep = (s.node id).ep ∧ (s'.node id).chan = (s.node id).chan
  closed : ∀ id, (s'.node id).closed = (s.node id).closed +
    (if id = nid ∧ (s.node nid).index < 0 ∧ (s.node nid).load - 1 = Idle then 1 else 0)

/-- the result of a `put` on dispatch `r` (not yet completed) of node `nid` -/
theorem putNode_spec (s : HS) (h : Inv s) (r nid j : Nat) (hreq : s.reqs[r]? = some (nid, false))
    (hj : s.putDraws nid = true → 1 ≤ j ∧ j ≤ s.size) :
    Inv (({ s with reqs := s.reqs.set r (nid, true) } : HS).putNode nid j) ∧
    PutEff s (({ s with reqs := s.reqs.set r (nid, true) } : HS).putNode nid j) r nid := by
  have e : SameStore s ({ s with reqs := s.reqs.set r (nid, true) } : HS) := ⟨rfl, rfl⟩
  have hdraw : ({ s with reqs := s.reqs.set r (nid, true) } : HS).putDraws nid = s.putDraws nid := rfl
  have hsrv0 : ({ s with reqs := s.reqs.set r (nid, true) } : HS).servers = s.servers := rfl
  have hdown0 : ({ s with reqs := s.reqs.set r (nid, true) } : HS).down = s.down := rfl
  have hout : ∀ id, outOf ({ s with reqs := s.reqs.set r (nid, true) } : HS) id + (if nid = id then 1 else 0)
      = outOf s id := fun id => outL_set s.reqs r nid id hreq
  have hreqs0 : ({ s with reqs := s.reqs.set r (nid, true) } : HS).reqs = s.reqs.set r (nid, true) := rfl
  generalize ({ s with reqs := s.reqs.set r (nid, true) } : HS) = t at *
  have hmem : (nid, false) ∈ s.reqs := List.mem_of_getElem? hreq
  have hl : nid < s.nodes.length := h.book.reqsOk _ hmem
  have hlt : nid < t.nodes.length := by rw [e.len]; exact hl
  have hout1 : outOf t nid + 1 = outOf s nid := by have := hout nid; simpa using this
  obtain ⟨a1, a2, a3, a4⟩ := h.book.pen_iff nid hl
  have hacc := h.book.acct nid hl
  have hn0 : (t.node nid).load = (s.node nid).load := by rw [e.node]
  have hne : ¬ ((s.node nid).load - 1 < Idle) := by
    rcases hacc with q | q <;> (unfold Idle at *; omega)
  have hwt : WF t := e.wf h.wf
  have hot : Ord (L t) t.size := by rw [e.L_eq, e.size]; exact h.ord
  rw [putNode_eq, hn0, if_neg hne]
  -- the state after the decrement
  have hf1 := setLoad_node t nid
  have hload1 : ((t.setLoad nid ((s.node nid).load - 1)).node nid).load = (s.node nid).load - 1 := by
    rw [(hf1 nid _).1]; simp [hlt]
  have hidx1 : ((t.setLoad nid ((s.node nid).load - 1)).node nid).index = (s.node nid).index := by
    rw [(hf1 nid _).2.2.2.2, e.node]
  have hcl1 : ((t.setLoad nid ((s.node nid).load - 1)).node nid).closed = (s.node nid).closed := by
    rw [(hf1 nid _).2.2.2.1, e.node]
  have hin1 : ∀ id, InHeap (t.setLoad nid ((s.node nid).load - 1)) id ↔ InHeap s id := by
    intro id; rw [setLoad_inHeap, e.inHeap]
  have hep1 : ∀ id, ((t.setLoad nid ((s.node nid).load - 1)).node id).ep = (s.node id).ep := by
    intro id; rw [(hf1 id _).2.1, e.node]
  have hoth1 : ∀ id, id ≠ nid → ((t.setLoad nid ((s.node nid).load - 1)).node id).load = (s.node id).load ∧
      ((t.setLoad nid ((s.node nid).load - 1)).node id).closed = (s.node id).closed ∧
      outOf (t.setLoad nid ((s.node nid).load - 1)) id = outOf s id := by
    intro id hne'
    refine ⟨?_, ?_, ?_⟩
    · rw [(hf1 id _).1, e.node]; simp [hne']
    · rw [(hf1 id _).2.2.2.1, e.node]
    · have := hout id
      have e' : ¬ nid = id := fun x => hne' x.symm
      simp only [e', if_false, Nat.add_zero] at this
      exact this
  have hout1' : outOf (t.setLoad nid ((s.node nid).load - 1)) nid + 1 = outOf s nid := hout1
  have hacct1 : ((t.setLoad nid ((s.node nid).load - 1)).node nid).load =
        (outOf (t.setLoad nid ((s.node nid).load - 1)) nid : Int) ∨
      ((t.setLoad nid ((s.node nid).load - 1)).node nid).load =
        Idle + (outOf (t.setLoad nid ((s.node nid).load - 1)) nid : Int) := by
    rw [hload1]
    rcases hacc with q | q
    · left; omega
    · right; omega
  have hbound1 : (t.setLoad nid ((s.node nid).load - 1)).reqs.length < maxReqs := by
    rw [setLoad_reqs, hreqs0, List.length_set]; exact h.book.bound
  have hreqs1 : ∀ q ∈ (t.setLoad nid ((s.node nid).load - 1)).reqs, q.1 < s.nodes.length := by
    intro q hq
    rw [setLoad_reqs, hreqs0] at hq
    rcases List.mem_or_eq_of_mem_set hq with hq | hq
    · exact h.book.reqsOk q hq
    · rw [hq]; exact hl
  have hge1 : ∀ id, (((t.setLoad nid ((s.node nid).load - 1)).node id).load ≥ 0 ↔ (s.node id).load ≥ 0) := by
    intro id
    by_cases e' : id = nid
    · subst e'
      rw [hload1]
      have := h.book.out_lt id
      unfold Idle at *
      rcases hacc with q | q <;> omega
    · rw [(hoth1 id e').1]
  have hlen1 : (t.setLoad nid ((s.node nid).load - 1)).nodes.length = s.nodes.length := by
    rw [setLoad_len, e.len]
  have hw1 : WF (t.setLoad nid ((s.node nid).load - 1)) := setLoad_WF t hwt nid _
  have hd1 : DownOk (t.setLoad nid ((s.node nid).load - 1)) s.down := h.down.update hlen1 hin1 hge1
  have hs1 : SrvOk (t.setLoad nid ((s.node nid).load - 1)) := h.srv.update hin1 hep1 (by rw [setLoad_servers, hsrv0])
  have hdn1 : (t.setLoad nid ((s.node nid).load - 1)).down = s.down := by rw [setLoad_down, hdown0]
  have hsz1t : (t.setLoad nid ((s.node nid).load - 1)).size = t.size := setLoad_size _ _ _
  have hch1 : ∀ id, ((t.setLoad nid ((s.node nid).load - 1)).node id).chan = (s.node id).chan := by
    intro id; rw [(hf1 id _).2.2.1, e.node]
  have hcla1 : ∀ id, ((t.setLoad nid ((s.node nid).load - 1)).node id).closed = (s.node id).closed := by
    intro id; rw [(hf1 id _).2.2.2.1, e.node]
  have hrq1 : (t.setLoad nid ((s.node nid).load - 1)).reqs = s.reqs.set r (nid, true) := by
    rw [setLoad_reqs, hreqs0]
  have mkEff : ∀ s', GFrame (t.setLoad nid ((s.node nid).load - 1)) s' →
      ¬ ((s.node nid).index < 0 ∧ (s.node nid).load - 1 = Idle) → PutEff s s' r nid := by
    intro s' g hfalse
    refine ⟨g.len.trans hlen1, g.reqs.trans hrq1, fun id => (g.inHeap id).trans (hin1 id), ?_, ?_⟩
    · intro id
      exact ⟨(g.fields id).1.trans (hep1 id), (g.fields id).2.1.trans (hch1 id)⟩
    · intro id
      have : ¬ (id = nid ∧ (s.node nid).index < 0 ∧ (s.node nid).load - 1 = Idle) := fun x => hfalse x.2
      rw [if_neg this, (g.fields id).2.2, hcla1 id]; rfl
  generalize hs1def : t.setLoad nid ((s.node nid).load - 1) = s1 at *
  by_cases hih : InHeap s nid
  · -- the node is in the heap
    have hidx := index_of_inHeap s h.wf nid hih
    have c1 : ¬ ((s1.node nid).index < 0 ∧ (s1.node nid).load > Idle) := by rw [hidx1]; omega
    have c2 : ¬ ((s1.node nid).index < 0 ∧ (s1.node nid).load = Idle) := by rw [hidx1]; omega
    rw [if_neg c1, if_neg c2]
    have hb1 : Book s1 := h.book.update nid hlen1 hin1 hep1 hoth1 hacct1 hbound1 hreqs1
      (fun _ => by rw [hcl1]; exact h.book.closedIn nid hih) (fun hn => absurd hih hn)
    have hih1 : InHeap s1 nid := (hin1 nid).mpr hih
    have hiht : InHeap t nid := (e.inHeap nid).mpr hih
    have hpos : pos s1 nid = pos t nid := by rw [← hs1def]; exact setLoad_pos t nid nid _
    obtain ⟨p1, p2, p3, _, _⟩ := pos_spec s1 hw1 nid hih1
    by_cases c3 : (s1.node nid).load = Idle ∧ s1.size > 1
    · rw [if_pos c3]
      -- idle: delete, re-insert at the drawn slot
      have hdr : s.putDraws nid = true := by
        show (decide (0 ≤ (s.node nid).index) &&
          decide ((if (s.node nid).load - 1 < Idle then Idle else (s.node nid).load - 1) = Idle) &&
          decide (s.size > 1)) = true
        rw [if_neg hne]
        have x1 : (0 : Int) ≤ (s.node nid).index := by omega
        have x2 : (s.node nid).load - 1 = Idle := by rw [← hload1]; exact c3.1
        have x3 : s.size > 1 := by
          have : s1.size = s.size := by rw [← hs1def, setLoad_size, e.size]
          rw [← this]; exact c3.2
        simp [x1, x2, x3]
      obtain ⟨hj1, hj2⟩ := hj hdr
      have hsz1 : s1.size = s.size := by rw [← hs1def, setLoad_size, e.size]
      have hL1 : L s1 = upd (L t) (pos t nid) Idle := by
        have x2 : (s.node nid).load - 1 = Idle := by rw [← hload1]; exact c3.1
        rw [← hs1def, setLoad_L t hwt nid _ hiht, x2]
      have hu := upd_shrink (L t) t.size (pos t nid) Idle hot (by rw [← hpos, e.size, ← hsz1]; exact p2)
        (by rw [L_pos t hwt nid hiht, hn0]; exact a3)
      rw [← hL1] at hu
      have hszt : t.size = s1.size := by rw [hsz1, e.size]
      rw [hszt, ← hpos] at hu
      obtain ⟨wu, fu, hidu, ou⟩ := delAt_spec s1 hw1 (pos s1 nid) p1 p2
        (OrdExUp_hole _ _ _ _ hu.1 (by omega)) (GP_mono _ _ _ _ hu.2 (by omega))
      have hbu : Book (s1.delAt (pos s1 nid)) := hb1.frame fu
      generalize s1.delAt (pos s1 nid) = u at *
      have hlastid : u.idAt u.size = nid := by rw [fu.size]; exact hidu.trans p3
      have hmin : ∀ p, 1 ≤ p → p ≤ u.size → L u u.size ≤ L u p := by
        intro p q1 q2
        have : L u u.size = Idle := by
          unfold L HS.at; rw [hlastid, (fu.fields nid).1]; exact c3.1
        rw [this]; exact hbu.L_ge wu p q1 q2
      obtain ⟨w6, f6, o6⟩ := reinsert_spec u wu j hj1 (by rw [fu.size, hsz1]; exact hj2)
        (by rw [fu.size]; exact ou) hmin
      have hsz5 : ((u.swap j u.size).fixUp j).size = u.size := by
        rw [(fixUp_spec (u.swap j u.size) j (swap_WF u wu j u.size hj1 (by rw [fu.size, hsz1]; exact hj2)
          (by rw [fu.size]; omega) (by omega)) (by rw [swap_size, fu.size, hsz1]; exact hj2)).2.1.size, swap_size]
      rw [hsz5]
      have ff := fu.trans f6
      refine ⟨⟨w6, by rw [f6.size]; exact o6, hb1.frame ff, ?_, hs1.frame ff⟩, mkEff _ ff.toG (fun x => by omega)⟩
      rw [ff.down, hdn1]; exact hd1.frame ff
    · rw [if_neg c3]
      obtain ⟨w, f, o⟩ := shrink_spec t hwt hot nid hiht ((s.node nid).load - 1) (by rw [hn0]; omega)
      rw [hs1def, ← hpos] at w f o
      refine ⟨⟨w, by rw [f.size, hsz1t]; exact o, hb1.frame f, ?_, hs1.frame f⟩, mkEff _ f.toG (fun x => by omega)⟩
      rw [f.down, hdn1]; exact hd1.frame f
  · -- the node has been removed from the heap
    have hidx := h.wf.off nid hl hih
    have hclo := h.book.closedOff nid hl hih
    have hord1 : Ord (L s1) s1.size := by
      have hsz1 : s1.size = s.size := by rw [← hs1def, setLoad_size, e.size]
      intro k hk2 hkn
      rw [← hs1def, setLoad_L_off t nid _ (fun x => hih ((e.inHeap nid).mp x)) k (by omega)
        (by rw [e.size, ← hsz1]; exact hkn),
        setLoad_L_off t nid _ (fun x => hih ((e.inHeap nid).mp x)) (k / 2) (by omega)
        (by rw [e.size, ← hsz1]; omega), e.L_eq]
      exact h.ord k hk2 (by rw [← hsz1]; exact hkn)
    by_cases c1 : (s1.node nid).index < 0 ∧ (s1.node nid).load > Idle
    · rw [if_pos c1]
      have hb1 : Book s1 := h.book.update nid hlen1 hin1 hep1 hoth1 hacct1 hbound1 hreqs1
        (fun x => absurd x hih) (fun _ => by
          rw [hcl1, hclo, hload1]
          have := c1.2; rw [hload1] at this
          have := h.book.out_lt nid
          unfold Idle at *
          rcases hacc with q | q
          · have x1 : (s.node nid).load ≥ 0 := by omega
            have x2 : (s.node nid).load - 1 ≥ 0 := by omega
            rw [if_pos (Or.inr x1), if_pos (Or.inr x2)]
          · have x1 : ¬ (outOf s nid = 0 ∨ (s.node nid).load ≥ 0) := by omega
            have x2 : ¬ (outOf s1 nid = 0 ∨ (s.node nid).load - 1 ≥ 0) := by omega
            rw [if_neg x1, if_neg x2])
      refine ⟨⟨hw1, hord1, hb1, by rw [hdn1]; exact hd1, hs1⟩, mkEff _ (GFrame.refl _) ?_⟩
      rintro ⟨_, x⟩
      have := c1.2; rw [hload1] at this
      omega
    · rw [if_neg c1]
      have c2 : (s1.node nid).index < 0 ∧ (s1.node nid).load = Idle := by
        rw [hidx1, hload1] at *
        omega
      rw [if_pos c2]
      have hf2 : ∀ id, ((s1.setNode nid { s1.node nid with closed := (s1.node nid).closed + 1 }).node id).load
            = (s1.node id).load ∧
          ((s1.setNode nid { s1.node nid with closed := (s1.node nid).closed + 1 }).node id).ep = (s1.node id).ep ∧
          ((s1.setNode nid { s1.node nid with closed := (s1.node nid).closed + 1 }).node id).closed =
            (if id = nid then (s1.node nid).closed + 1 else (s1.node id).closed) := by
        intro id
        rw [node_setNode]
        by_cases e' : id = nid
        · subst e'; simp [hlen1, hl]
        · simp [e']
      have hw2 : WF (s1.setNode nid { s1.node nid with closed := (s1.node nid).closed + 1 }) :=
        setNode_WF s1 hw1 nid _ rfl
      have hL2 : L (s1.setNode nid { s1.node nid with closed := (s1.node nid).closed + 1 }) = L s1 := by
        funext p; unfold L HS.at; rw [setNode_idAt]; exact (hf2 _).1
      refine ⟨⟨hw2, by rw [hL2]; exact hord1, ?_, ?_, ?_⟩, ?_⟩
      rotate_left 3
      · have hchan2 : ∀ id, ((s1.setNode nid { s1.node nid with closed := (s1.node nid).closed + 1 }).node id).chan
            = (s1.node id).chan := by
          intro id
          rw [node_setNode]
          split
          · rename_i e'; rw [e'.1]
          · rfl
        refine ⟨by rw [setNode_len]; exact hlen1, by rw [setNode_reqs]; exact hrq1,
          by intro id; rw [setNode_inHeap]; exact hin1 id, ?_, ?_⟩
        · intro id
          exact ⟨(hf2 id).2.1.trans (hep1 id), (hchan2 id).trans (hch1 id)⟩
        · intro id
          rw [(hf2 id).2.2]
          have hx : (s.node nid).load - 1 = Idle := by rw [← hload1]; exact c2.2
          by_cases e' : id = nid
          · subst e'
            rw [if_pos rfl, if_pos ⟨rfl, by omega, hx⟩, hcla1]
          · have : ¬ (id = nid ∧ (s.node nid).index < 0 ∧ (s.node nid).load - 1 = Idle) := fun x => e' x.1
            rw [if_neg e', if_neg this, hcla1]; rfl
      · apply h.book.update nid (by rw [setNode_len]; exact hlen1) (by intro id; rw [setNode_inHeap]; exact hin1 id)
          (by intro id; rw [(hf2 id).2.1]; exact hep1 id)
        · intro id hne'
          obtain ⟨x1, x2, x3⟩ := hoth1 id hne'
          refine ⟨by rw [(hf2 id).1]; exact x1, by rw [(hf2 id).2.2]; simp only [hne', if_false]; exact x2, x3⟩
        · rw [(hf2 nid).1]; exact hacct1
        · exact hbound1
        · exact hreqs1
        · intro x; exact absurd x hih
        · intro _
          have hz : outOf s1 nid = 0 := by
            have := c2.2; rw [hload1] at this
            have := h.book.out_lt nid
            unfold Idle at *
            rcases hacc with q | q <;> omega
          have x1 : ¬ (outOf s nid = 0 ∨ (s.node nid).load ≥ 0) := by
            have := c2.2; rw [hload1] at this
            unfold Idle at *
            omega
          have hz' : outOf (s1.setNode nid { s1.node nid with closed := (s1.node nid).closed + 1 }) nid = 0 := hz
          rw [(hf2 nid).2.2, (hf2 nid).1, if_pos rfl, if_pos (Or.inl hz'), hcl1, hclo, if_neg x1]
      · rw [setNode_down, hdn1]
        exact hd1.update (by rw [setNode_len]) (by intro id; rw [setNode_inHeap]) (by intro id; rw [(hf2 id).1])
      · exact hs1.update (by intro id; rw [setNode_inHeap]) (fun id => (hf2 id).2.1) (by rw [setNode_servers])

theorem Inv_put (s : HS) (h : Inv s) (r j : Nat)
    (hj : ∀ nid, s.reqs[r]? = some (nid, false) → s.putDraws nid = true → 1 ≤ j ∧ j ≤ s.size) :
    Inv (s.put r j) := by
  unfold HS.put
  split
  · exact h
  · exact h
  · rename_i nid hreq
    exact (putNode_spec s h r nid j hreq (hj nid hreq)).1

end Scales.Heap
