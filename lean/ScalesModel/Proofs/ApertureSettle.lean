import ScalesModel.Model.Aperture
import Mathlib.Algebra.Order.Field.Rat
import Mathlib.Algebra.Order.Field.Basic
import Mathlib.Logic.Function.Iterate
import Mathlib.Tactic.Ring
import Mathlib.Tactic.Linarith
import Mathlib.Tactic.FieldSimp
import Mathlib.Tactic.NormNum

/-!
  The size dynamics of repeated `_AdjustAperture` calls under a constant smoothed number of
  outstanding requests `n`, every active member healthy and no open pending: a state is
  (active size, number of idle endpoints).
-/
namespace Scales.Aperture

def expandCond (cfg : Cfg) (n : Rat) (s : Nat × Nat) : Prop :=
  cfg.maxLoad ≤ apLoad cfg s.1 n ∧ 0 < s.2 ∧ s.1 < cfg.maxSize

def contractCond (cfg : Cfg) (n : Rat) (s : Nat × Nat) : Prop :=
  apLoad cfg s.1 n ≤ cfg.minLoad ∧ cfg.minSize < s.1

instance (cfg : Cfg) (n : Rat) (s : Nat × Nat) : Decidable (expandCond cfg n s) := by
  unfold expandCond; infer_instance
instance (cfg : Cfg) (n : Rat) (s : Nat × Nat) : Decidable (contractCond cfg n s) := by
  unfold contractCond; infer_instance

def sizeStep (cfg : Cfg) (n : Rat) (s : Nat × Nat) : Nat × Nat :=
  if expandCond cfg n s then (s.1 + 1, s.2 - 1)
  else if contractCond cfg n s then (s.1 - 1, s.2 + 1)
  else s

theorem sizeStep_fix (cfg : Cfg) (n : Rat) (s : Nat × Nat) (h1 : ¬ expandCond cfg n s)
    (h2 : ¬ contractCond cfg n s) : sizeStep cfg n s = s := by
  unfold sizeStep; rw [if_neg h1, if_neg h2]

/-- after growing under load the aperture does not shrink at once -/
theorem no_contract_after_expand (cfg : Cfg) (n : Rat) (hm : 1 ≤ cfg.minSize) (h0 : 0 ≤ cfg.minLoad)
    (hb : 2 * cfg.minLoad < cfg.maxLoad) (s : Nat × Nat) (he : expandCond cfg n s) :
    ¬ contractCond cfg n (s.1 + 1, s.2 - 1) := by
  obtain ⟨e1, _, _⟩ := he
  rintro ⟨c1, c2⟩
  simp only at c1 c2
  unfold apLoad at e1 c1
  rw [if_neg (by omega)] at c1
  by_cases hk : s.1 = 0
  · omega
  · rw [if_neg hk] at e1
    have hkpos : (0 : Rat) < (s.1 : Rat) := by exact_mod_cast Nat.pos_of_ne_zero hk
    have hk1 : (0 : Rat) < ((s.1 + 1 : Nat) : Rat) := by exact_mod_cast Nat.succ_pos _
    rw [le_div_iff₀ hkpos] at e1
    rw [div_le_iff₀ hk1] at c1
    push_cast at c1
    have : (1 : Rat) ≤ (s.1 : Rat) := by exact_mod_cast Nat.one_le_iff_ne_zero.2 hk
    nlinarith

/-- after shrinking when underloaded the aperture does not grow at once -/
theorem no_expand_after_contract (cfg : Cfg) (n : Rat) (hm : 1 ≤ cfg.minSize) (h0 : 0 ≤ cfg.minLoad)
    (hb : 2 * cfg.minLoad < cfg.maxLoad) (s : Nat × Nat) (hc : contractCond cfg n s) :
    ¬ expandCond cfg n (s.1 - 1, s.2 + 1) := by
  obtain ⟨c1, c2⟩ := hc
  rintro ⟨e1, _, _⟩
  simp only at e1
  unfold apLoad at e1 c1
  have hk : ¬ s.1 = 0 := by omega
  have hk' : ¬ s.1 - 1 = 0 := by omega
  rw [if_neg hk] at c1
  rw [if_neg hk'] at e1
  have hkpos : (0 : Rat) < (s.1 : Rat) := by exact_mod_cast Nat.pos_of_ne_zero hk
  have hk1 : (0 : Rat) < ((s.1 - 1 : Nat) : Rat) := by exact_mod_cast Nat.pos_of_ne_zero hk'
  rw [div_le_iff₀ hkpos] at c1
  rw [le_div_iff₀ hk1] at e1
  have h2 : (2 : Rat) ≤ (s.1 : Rat) := by exact_mod_cast (by omega : 2 ≤ s.1)
  have hcast : ((s.1 - 1 : Nat) : Rat) = (s.1 : Rat) - 1 := by
    rw [Nat.cast_sub (by omega)]; simp
  rw [hcast] at e1
  nlinarith

theorem settle_expand (cfg : Cfg) (n : Rat) (hm : 1 ≤ cfg.minSize) (h0 : 0 ≤ cfg.minLoad)
    (hb : 2 * cfg.minLoad < cfg.maxLoad) : ∀ (i : Nat) (s : Nat × Nat), s.2 = i → expandCond cfg n s →
    ∃ k, k ≤ i ∧ sizeStep cfg n ((sizeStep cfg n)^[k] s) = (sizeStep cfg n)^[k] s := by
  intro i
  induction i with
  | zero => intro s hs he; obtain ⟨_, h, _⟩ := he; omega
  | succ i ih =>
    intro s hs he
    have hstep : sizeStep cfg n s = (s.1 + 1, s.2 - 1) := by unfold sizeStep; rw [if_pos he]
    have hnc := no_contract_after_expand cfg n hm h0 hb s he
    by_cases he' : expandCond cfg n (s.1 + 1, s.2 - 1)
    · obtain ⟨k, hk, hfix⟩ := ih (s.1 + 1, s.2 - 1) (by simp; omega) he'
      refine ⟨k + 1, by omega, ?_⟩
      rw [Function.iterate_succ_apply, hstep]; exact hfix
    · refine ⟨1, by omega, ?_⟩
      rw [Function.iterate_one, hstep]
      exact sizeStep_fix cfg n _ he' hnc

theorem settle_contract (cfg : Cfg) (n : Rat) (hm : 1 ≤ cfg.minSize) (h0 : 0 ≤ cfg.minLoad)
    (hb : 2 * cfg.minLoad < cfg.maxLoad) : ∀ (i : Nat) (s : Nat × Nat), s.1 = i → ¬ expandCond cfg n s →
    contractCond cfg n s →
    ∃ k, k ≤ i ∧ sizeStep cfg n ((sizeStep cfg n)^[k] s) = (sizeStep cfg n)^[k] s := by
  intro i
  induction i with
  | zero => intro s hs _ hc; obtain ⟨_, h⟩ := hc; omega
  | succ i ih =>
    intro s hs hne hc
    have hstep : sizeStep cfg n s = (s.1 - 1, s.2 + 1) := by unfold sizeStep; rw [if_neg hne, if_pos hc]
    have hnx := no_expand_after_contract cfg n hm h0 hb s hc
    by_cases hc' : contractCond cfg n (s.1 - 1, s.2 + 1)
    · obtain ⟨k, hk, hfix⟩ := ih (s.1 - 1, s.2 + 1) (by simp; omega) hnx hc'
      refine ⟨k + 1, by omega, ?_⟩
      rw [Function.iterate_succ_apply, hstep]; exact hfix
    · refine ⟨1, by omega, ?_⟩
      rw [Function.iterate_one, hstep]
      exact sizeStep_fix cfg n _ hnx hc'

/-- where a fixpoint of the size dynamics sits -/
theorem fix_pinned (cfg : Cfg) (n : Rat) (t : Nat × Nat) (h : sizeStep cfg n t = t) :
    (cfg.minLoad < apLoad cfg t.1 n ∧ apLoad cfg t.1 n < cfg.maxLoad) ∨
    t.1 ≤ cfg.minSize ∨ cfg.maxSize ≤ t.1 ∨ t.2 = 0 := by
  unfold sizeStep at h
  by_cases he : expandCond cfg n t
  · rw [if_pos he] at h
    have := congrArg Prod.fst h; simp at this
  · rw [if_neg he] at h
    by_cases hc : contractCond cfg n t
    · rw [if_pos hc] at h
      have := congrArg Prod.snd h; simp at this
    · unfold expandCond at he; unfold contractCond at hc
      by_cases h1 : cfg.maxLoad ≤ apLoad cfg t.1 n
      · have : ¬ (0 < t.2 ∧ t.1 < cfg.maxSize) := fun hh => he ⟨h1, hh⟩
        by_cases h2 : 0 < t.2
        · right; right; left; exact Nat.le_of_not_lt (fun h3 => this ⟨h2, h3⟩)
        · right; right; right; omega
      · by_cases h2 : apLoad cfg t.1 n ≤ cfg.minLoad
        · right; left; exact Nat.le_of_not_lt (fun h3 => hc ⟨h2, h3⟩)
        · left; exact ⟨lt_of_not_ge h2, lt_of_not_ge h1⟩

theorem settles (cfg : Cfg) (n : Rat) (hm : 1 ≤ cfg.minSize) (h0 : 0 ≤ cfg.minLoad)
    (hb : 2 * cfg.minLoad < cfg.maxLoad) (s : Nat × Nat) :
    ∃ k, k ≤ s.1 + s.2 ∧ sizeStep cfg n ((sizeStep cfg n)^[k] s) = (sizeStep cfg n)^[k] s := by
  by_cases he : expandCond cfg n s
  · obtain ⟨k, hk, h⟩ := settle_expand cfg n hm h0 hb s.2 s rfl he
    exact ⟨k, by omega, h⟩
  · by_cases hc : contractCond cfg n s
    · obtain ⟨k, hk, h⟩ := settle_contract cfg n hm h0 hb s.1 s rfl he hc
      exact ⟨k, by omega, h⟩
    · exact ⟨0, by omega, sizeStep_fix cfg n s he hc⟩

end Scales.Aperture
