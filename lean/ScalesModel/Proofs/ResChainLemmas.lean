/-
  Proofs/ResChainLemmas.lean — schedules of Model/ResChain.lean: FIFO is one of them, `explore`
  really covers all of them, and — while the pool counts at most `sizeBound` transports — every
  pair of watermarks behaves like its clamped pair (`clampWM`), so that exploring the nine
  clamped pairs covers every configuration.
-/
import ScalesModel.Adapter.ResPool
namespace Scales.Chain

theorem run_quiet (w : WM) (c : C) (h : c.tasks.length = 0) (ks : List Nat) : run w c ks = c := by
  cases ks with
  | nil => rfl
  | cons k ks => simp [run, h]

theorem run_append (w : WM) (c : C) (a b : List Nat) : run w (run w c a) b = run w c (a ++ b) := by
  induction a generalizing c with
  | nil => rfl
  | cons k ks ih =>
    by_cases h : c.tasks.length = 0
    · simp [run, h, run_quiet w c h]
    · simp [run, h, ih]

theorem runFIFO_eq_run (w : WM) (c : C) (n : Nat) : runFIFO w c n = run w c (List.replicate n 0) := by
  induction n generalizing c with
  | zero => rfl
  | succ n ih =>
    by_cases h : c.tasks.length = 0
    · simp [runFIFO, List.replicate_succ, run, h]
    · simp [runFIFO, List.replicate_succ, run, h, ih]

/-! ### watermarks beyond the pool's size do not matter -/

theorem clamp_lo (w : WM) (n : Nat) (h : n ≤ sizeBound) : n ≤ (clampWM w).lo ↔ n ≤ w.lo := by
  simp only [clampWM, sizeBound] at *
  omega

theorem clamp_hi (w : WM) (n : Nat) (h : n ≤ sizeBound) : n < (clampWM w).hi ↔ n < w.hi := by
  simp only [clampWM, sizeBound] at *
  omega

theorem poolRelease_clamp (w : WM) (c : C) (h : c.pSize ≤ sizeBound) :
    poolRelease (clampWM w) c = poolRelease w c := by
  simp only [poolRelease, clamp_lo w _ h]

@[simp] theorem trFault_pSize (c : C) : (trFault c).pSize = c.pSize := by
  unfold trFault push; split <;> rfl

theorem runTask_clamp (w : WM) (c : C) (t : Task) (h : c.pSize ≤ sizeBound) :
    runTask (clampWM w) c t = runTask w c t := by
  cases t <;> simp only [runTask]
  case poolOpen =>
    rw [poolRelease_clamp w _ (by simpa using h)]
    simp only [clamp_hi w _ h]
  case wakeGet =>
    split
    · rw [poolRelease_clamp w _ (by split <;> simpa using h)]
    · rfl
  case reqStart eof => simp only [clamp_hi w _ h]
  case tx eof =>
    rw [poolRelease_clamp w _ (by simpa using h), poolRelease_clamp w _ h]
  case reply => rw [poolRelease_clamp w _ h]

theorem fire_clamp (w : WM) (c : C) (i : Nat) (h : c.pSize ≤ sizeBound) :
    fire (clampWM w) c i = fire w c i := by
  unfold fire
  split
  · exact runTask_clamp w _ _ (by simpa using h)
  · rfl

/-- the inner fold of `explore` -/
def exploreAll (w : WM) (fuel : Nat) (c : C) (l : List Nat) : Option (List C) :=
  l.foldr (fun i acc => do
    let a ← acc
    let b ← explore w fuel (fire w c i)
    pure (b ++ a)) (some [])

theorem exploreAll_mem (w : WM) (fuel : Nat) (c : C) (l : List Nat) (fs : List C)
    (h : exploreAll w fuel c l = some fs) (i : Nat) (hi : i ∈ l) :
    ∃ b, explore w fuel (fire w c i) = some b ∧ ∀ x ∈ b, x ∈ fs := by
  induction l generalizing fs with
  | nil => cases hi
  | cons j l ih =>
    simp only [exploreAll, List.foldr_cons] at h
    change (do let a ← exploreAll w fuel c l; let b ← explore w fuel (fire w c j); pure (b ++ a)) = some fs at h
    cases ha : exploreAll w fuel c l with
    | none => simp [ha] at h
    | some a =>
      cases hb : explore w fuel (fire w c j) with
      | none => simp [ha, hb] at h
      | some b =>
        simp [ha, hb] at h
        subst h
        rcases List.mem_cons.mp hi with rfl | hi'
        · exact ⟨b, hb, fun x hx => List.mem_append_left _ hx⟩
        · obtain ⟨b', hb', hsub⟩ := ih a ha hi'
          exact ⟨b', hb', fun x hx => List.mem_append_right _ (hsub x hx)⟩

/-- every schedule at least as long as the exploration depth ends, quiescent, in one of the
    final states explored **for the clamped watermarks** — and runs identically under the
    watermarks themselves -/
theorem explore_sound (w : WM) (n : Nat) (c : C) (fs : List C) (h : explore (clampWM w) n c = some fs)
    (picks : List Nat) (hl : n ≤ picks.length) :
    run w c picks ∈ fs ∧ (run w c picks).tasks.length = 0 ∧ run w c picks = run (clampWM w) c picks := by
  induction n generalizing c fs picks with
  | zero =>
    simp only [explore] at h
    by_cases hq : c.tasks.length = 0 ∧ c.pSize ≤ sizeBound
    · rw [if_pos hq] at h
      simp only [Option.some.injEq] at h
      subst h; simp [run_quiet _ c hq.1, hq.1]
    · rw [if_neg hq] at h; cases h
  | succ n ih =>
    simp only [explore] at h
    by_cases hb : sizeBound < c.pSize
    · simp [hb] at h
    · simp only [hb, if_false] at h
      by_cases hq : c.tasks.length = 0
      · simp [hq] at h; subst h; simp [run_quiet _ c hq, hq]
      · simp only [hq, if_false] at h
        cases picks with
        | nil => simp at hl
        | cons k ks =>
          have hpos : 0 < c.tasks.length := Nat.pos_of_ne_zero hq
          have hi : k % c.tasks.length ∈ List.range c.tasks.length :=
            List.mem_range.mpr (Nat.mod_lt _ hpos)
          obtain ⟨b, hb', hsub⟩ := exploreAll_mem (clampWM w) n c _ fs h _ hi
          have hl' : n ≤ ks.length := by simpa using hl
          have hf := fire_clamp w c (k % c.tasks.length) (by omega)
          rw [hf] at hb'
          obtain ⟨hm, hquiet, heq⟩ := ih (fire w c (k % c.tasks.length)) b hb' ks hl'
          simp only [run, hq, if_false, hf]
          exact ⟨hsub _ hm, hquiet, heq⟩

end Scales.Chain

namespace Scales.Pool
open Scales.Chain

/-- `drain` is a schedule of length ≥ `fuel` -/
theorem drain_eq_run (w : WM) (c : C) (sched : List Nat) :
    drain w c sched = run w c (sched ++ List.replicate fuel 0) := by
  unfold drain; rw [runFIFO_eq_run, run_append]

theorem drain_mem (w : WM) (c : C) (fs : List C) (h : explore (clampWM w) fuel c = some fs) (sched : List Nat) :
    drain w c sched ∈ fs := by
  rw [drain_eq_run]
  exact (explore_sound w fuel c fs h _ (by simp)).1

end Scales.Pool
