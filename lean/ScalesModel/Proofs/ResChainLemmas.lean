/-
  Proofs/ResChainLemmas.lean — schedules of Model/ResChain.lean: FIFO is one of them, and
  `explore` really covers all of them.
-/
import ScalesModel.Adapter.ResPool
namespace Scales.Chain

theorem run_quiet (c : C) (h : c.tasks.length = 0) (ks : List Nat) : run c ks = c := by
  cases ks with
  | nil => rfl
  | cons k ks => simp [run, h]

theorem run_append (c : C) (a b : List Nat) : run (run c a) b = run c (a ++ b) := by
  induction a generalizing c with
  | nil => rfl
  | cons k ks ih =>
    by_cases h : c.tasks.length = 0
    · simp [run, h, run_quiet c h]
    · simp [run, h, ih]

theorem runFIFO_eq_run (c : C) (n : Nat) : runFIFO c n = run c (List.replicate n 0) := by
  induction n generalizing c with
  | zero => rfl
  | succ n ih =>
    by_cases h : c.tasks.length = 0
    · simp [runFIFO, List.replicate_succ, run, h]
    · simp [runFIFO, List.replicate_succ, run, h, ih]

/-- the inner fold of `explore` -/
def exploreAll (fuel : Nat) (c : C) (l : List Nat) : Option (List C) :=
  l.foldr (fun i acc => do
    let a ← acc
    let b ← explore fuel (fire c i)
    pure (b ++ a)) (some [])

theorem exploreAll_mem (fuel : Nat) (c : C) (l : List Nat) (fs : List C)
    (h : exploreAll fuel c l = some fs) (i : Nat) (hi : i ∈ l) :
    ∃ b, explore fuel (fire c i) = some b ∧ ∀ x ∈ b, x ∈ fs := by
  induction l generalizing fs with
  | nil => cases hi
  | cons j l ih =>
    simp only [exploreAll, List.foldr_cons] at h
    change (do let a ← exploreAll fuel c l; let b ← explore fuel (fire c j); pure (b ++ a)) = some fs at h
    cases ha : exploreAll fuel c l with
    | none => simp [ha] at h
    | some a =>
      cases hb : explore fuel (fire c j) with
      | none => simp [ha, hb] at h
      | some b =>
        simp [ha, hb] at h
        subst h
        rcases List.mem_cons.mp hi with rfl | hi'
        · exact ⟨b, hb, fun x hx => List.mem_append_left _ hx⟩
        · obtain ⟨b', hb', hsub⟩ := ih a ha hi'
          exact ⟨b', hb', fun x hx => List.mem_append_right _ (hsub x hx)⟩

/-- every schedule at least as long as the exploration depth ends, quiescent, in one of the
    explored final states -/
theorem explore_sound (n : Nat) (c : C) (fs : List C) (h : explore n c = some fs)
    (picks : List Nat) (hl : n ≤ picks.length) :
    run c picks ∈ fs ∧ (run c picks).tasks.length = 0 := by
  induction n generalizing c fs picks with
  | zero =>
    simp only [explore] at h
    by_cases hq : c.tasks.length = 0
    · simp [hq] at h; subst h; simp [run_quiet c hq, hq]
    · simp [hq] at h
  | succ n ih =>
    simp only [explore] at h
    by_cases hq : c.tasks.length = 0
    · simp [hq] at h; subst h; simp [run_quiet c hq, hq]
    · simp only [hq, if_false] at h
      cases picks with
      | nil => simp at hl
      | cons k ks =>
        have hpos : 0 < c.tasks.length := Nat.pos_of_ne_zero hq
        have hi : k % c.tasks.length ∈ List.range c.tasks.length :=
          List.mem_range.mpr (Nat.mod_lt _ hpos)
        obtain ⟨b, hb, hsub⟩ := exploreAll_mem n c _ fs h _ hi
        have hl' : n ≤ ks.length := by simpa using hl
        obtain ⟨hm, hquiet⟩ := ih (fire c (k % c.tasks.length)) b hb ks hl'
        simp only [run, hq, if_false]
        exact ⟨hsub _ hm, hquiet⟩

end Scales.Chain

namespace Scales.Pool
open Scales.Chain

/-- `drain` is a schedule of length ≥ `fuel` -/
theorem drain_eq_run (c : C) (sched : List Nat) :
    drain c sched = run c (sched ++ List.replicate fuel 0) := by
  unfold drain; rw [runFIFO_eq_run, run_append]

theorem drain_mem (c : C) (fs : List C) (h : explore fuel c = some fs) (sched : List Nat) :
    drain c sched ∈ fs := by
  rw [drain_eq_run]
  exact (explore_sound fuel c fs h _ (by simp)).1

end Scales.Pool
