/-
  Proofs/ResurrectorFacts.lean — consequences of the coupling for reachable states, the bound on
  the wake instant, and the bookkeeping of the specification automaton after `Close()`.
-/
import ScalesModel.Proofs.ResurrectorOps
namespace Scales.Res

/-- the automaton never dates the begin of a down period in the future -/
theorem specStep_le (c : Cfg) (a : SS) (idx : Nat) (op : Op) (o : Obs) (h : a.lastEnd ≤ a.now) :
    (specStep c a idx op o).2.lastEnd ≤ (specStep c a idx op o).2.now := by
  unfold specStep
  split
  · split <;> exact h
  · cases op with
    | opn => simp only; split <;> exact h
    | fault k =>
      simp only
      split
      · simpa [SS.recovered] using h
      · split <;> exact h
    | done k ok =>
      simp only
      split
      · split
        · exact h
        · simp
      · split <;> exact h
    | turn =>
      simp only
      have hs : a.settle.lastEnd ≤ a.settle.now := by
        unfold SS.settle; split <;> simpa [SS.recovered] using h
      split
      · simp [SS.learn]
      · exact hs
    | req =>
      simp only
      split
      · split
        · split
          · simpa [SS.recovered] using h
          · split <;> exact h
        · split
          · exact h
          · split <;> exact h
      · split
        · split
          · simp [SS.learn]
          · exact h
        · split
          · split <;> exact h
          · exact h
    | tick d =>
      simp only
      have hs : a.settle.lastEnd ≤ a.settle.now := by
        unfold SS.settle; split <;> simpa [SS.recovered] using h
      have hs' : a.settle.lastEnd ≤ a.now + d := by
        have : a.settle.now = a.now := by unfold SS.settle; split <;> simp [SS.recovered]
        omega
      repeat' split
      all_goals first | exact hs' | simpa [SS.recovered] using hs' | simp
    | reach r => exact h
    | close => exact h

/-- the model state after a list of operations -/
def runOps (cfg : Cfg) (s : St) : List Op → St
  | [] => s
  | op :: ops => runOps cfg (stepSt cfg.par (clearEv s) op).1 ops

theorem cpl_run (cfg : Cfg) (hc : cfgWF cfg = true) (ops : List Op) :
    ∀ (s : St) (a : SS) (o c : Bool), Cpl cfg.par s a o c → a.lastEnd ≤ a.now →
      wfGo cfg.par s o c ops = true →
      ∃ a' o' c', Cpl cfg.par (runOps cfg s ops) a' o' c' ∧ a'.lastEnd ≤ a'.now := by
  induction ops with
  | nil => intro s a o c h hle _; exact ⟨a, o, c, h, hle⟩
  | cons op ops ih =>
    intro s a o c hC hle hwf
    simp only [wfGo, Bool.and_eq_true] at hwf
    obtain ⟨a', hs, hC'⟩ := step_ok cfg hc s a o c 0 op hC hwf.1
    have := specStep_le cfg a 0 op (obsOf (stepSt cfg.par (clearEv s) op).1 (stepSt cfg.par (clearEv s) op).2) hle
    rw [hs] at this
    exact ih _ a' _ _ hC' this hwf.2

/-- in a reachable state, fail-fast mode means there is no next sink -/
theorem down_no_next (p : Par) (s : St) (a : SS) (o c : Bool) (hC : Cpl p s a o c) (hd : s.down = true) :
    s.next = none ∧ s.subs = [] ∧ c = false := by
  cases c with
  | true => have := (hC.hshut rfl).1; rw [hd] at this; cases this
  | false =>
    obtain ⟨hl, _, _⟩ := hC.hlive rfl
    cases hl with
    | up h1 h2 h3 hd' => rw [hd] at hd'; cases hd'
    | resumed k h1 h2 h3 h4 h5 hd' => rw [hd] at hd'; cases hd'
    | upDown h1 h2 h3 h4 hc' => exact ⟨hc'.2.1, hc'.2.2, rfl⟩
    | resumingR k w h1 h2 h3 h4 h5 hc' => exact ⟨hc'.2.1, hc'.2.2, rfl⟩
    | sleeping h1 h2 h3 h4 h5 hc' => exact ⟨hc'.2.1, hc'.2.2, rfl⟩
    | failing k w h1 h2 h3 h4 h5 hc' => exact ⟨hc'.2.1, hc'.2.2, rfl⟩
    | pending k w h1 h2 h3 h4 h5 hc' => exact ⟨hc'.2.1, hc'.2.2, rfl⟩
    | resuming k w h1 h2 h3 h4 h5 hc' => exact ⟨hc'.2.1, hc'.2.2, rfl⟩

/-- a request in a state without next sink is failed fast and reaches no sink -/
theorem req_failfast (p : Par) (s : St) (h : s.next = none) :
    (doReq p (clearEv s)).2 = .ff ∧ ∀ e ∈ (doReq p (clearEv s)).1.ev, isFwd e = false := by
  have e : doReq p (clearEv s) = (runTurn p (clearEv s), .ff) := by simp [doReq, h]
  rw [e]
  refine ⟨rfl, ?_⟩
  intro ev hev
  have hb := (runTurn_env p (clearEv s)).2.2.2 (by simp) ev hev
  cases ev <;> simp_all [benign, isFwd]

/-- in a reachable fail-fast state with the retry greenlet asleep, its wake instant lies ahead, at
    most one maximum interval away -/
theorem sleep_bound (p : Par) (s : St) (a : SS) (o c : Bool) (hC : Cpl p s a o c) (hle : a.lastEnd ≤ a.now)
    (hd : s.down = true) (wk w : Nat) (hr : s.res = .sleep wk w) :
    s.now < wk ∧ wk ≤ s.now + p.maxW := by
  obtain ⟨_, _, hc⟩ := down_no_next p s a o c hC hd
  subst hc
  obtain ⟨hl, hn, _⟩ := hC.hlive rfl
  cases hl with
  | up h1 h2 h3 hd' => rw [hd] at hd'; cases hd'
  | resumed k h1 h2 h3 h4 h5 hd' => rw [hd] at hd'; cases hd'
  | upDown h1 h2 h3 h4 hc' hz =>
    rcases hz with ⟨hx, _⟩ | ⟨wk', w', e1, e2, e3, e4, e5, e6⟩
    · rw [hr] at hx; cases hx
    · rw [hr] at e1; cases e1; exact ⟨e5, by omega⟩
  | sleeping h1 h2 h3 h4 h5 hc' hz =>
    rcases hz with ⟨hx, _⟩ | ⟨wk', w', e1, e2, e3, e4, e5, e6⟩
    · rw [hr] at hx; cases hx
    · rw [hr] at e1; cases e1; exact ⟨e5, by omega⟩
  | resumingR k w' h1 h2 h3 h4 h5 hc' hr' => rw [hr] at hr'; cases hr'
  | failing k w' h1 h2 h3 h4 h5 hc' hr' => rw [hr] at hr'; cases hr'
  | pending k w' h1 h2 h3 h4 h5 hc' hr' => rw [hr] at hr'; cases hr'
  | resuming k w' h1 h2 h3 h4 h5 hc' hr' => rw [hr] at hr'; cases hr'

/-! ### the specification automaton after `Close()` -/

theorem specGo_closed (c : Cfg) (a : SS) (ha : a.closed = true) (h : List (Op × Obs)) (idx : Nat)
    (hok : specGo c a idx h = .ok) : ∀ x ∈ h, firstCreate x.2.ev = none := by
  induction h generalizing idx with
  | nil => intro x hx; cases hx
  | cons y rest ih =>
    obtain ⟨op, o⟩ := y
    simp only [specGo, specStep, ha, if_true] at hok
    cases hfc : firstCreate o.ev with
    | some k => simp [hfc] at hok
    | none =>
      simp only [hfc] at hok
      intro x hx
      rcases List.mem_cons.mp hx with rfl | hx
      · exact hfc
      · exact ih _ hok x hx

/-- the automaton's state after an accepted history -/
def specState (c : Cfg) (a : SS) (idx : Nat) : List (Op × Obs) → SS
  | [] => a
  | (op, o) :: rest => specState c (specStep c a idx op o).2 (idx + 1) rest

theorem specGo_append (c : Cfg) (h1 h2 : List (Op × Obs)) : ∀ (a : SS) (idx : Nat),
    specGo c a idx (h1 ++ h2) = .ok →
      specGo c (specState c a idx h1) (idx + h1.length) h2 = .ok := by
  induction h1 with
  | nil => intro a idx h; simpa [specState] using h
  | cons y rest ih =>
    intro a idx h
    obtain ⟨op, o⟩ := y
    simp only [List.cons_append, specGo] at h
    cases hs : specStep c a idx op o with
    | mk v a' =>
      rw [hs] at h
      cases v with
      | ok =>
        have := ih a' (idx + 1) h
        simp only [specState, hs, List.length_cons]
        rw [show idx + (rest.length + 1) = idx + 1 + rest.length by omega]
        exact this
      | fail cl ps => simp at h

theorem specStep_close_closed (c : Cfg) (a : SS) (idx : Nat) (o : Obs) :
    (specStep c a idx .close o).2.closed = true := by
  cases hcl : a.closed with
  | true =>
    simp only [specStep, hcl, if_true]
    cases firstCreate o.ev <;> simp [hcl]
  | false => simp [specStep, hcl]

theorem trace_append (cfg : Cfg) (ops1 ops2 : List Op) : ∀ s,
    comp.trace cfg s (ops1 ++ ops2) = comp.trace cfg s ops1 ++ comp.trace cfg (runOps cfg s ops1) ops2 := by
  induction ops1 with
  | nil => intro s; rfl
  | cons op ops ih =>
    intro s
    simp only [List.cons_append, TComp.trace, runOps]
    have : (comp.step cfg s op).1 = (stepSt cfg.par (clearEv s) op).1 := rfl
    rw [this, ih]

end Scales.Res
