/-
  Proofs/ServerSetKeys.lean — C19, the membership as a consumer sees it that identifies members by
  `Member.__eq__` (key `k n` of znode `n`) rather than by znode name.

  As long as no two member znodes with equal Members exist at the same time, every child list the
  ServerSet is handed is key-distinct (`KD`), hence so are `_members`, the queued lists and the
  list being processed (`KInv`).  Because one update delivers its leaves before its joins, the
  names the consumer holds at any moment of an update all lie in one key-distinct list (the old
  `_members` during the leaves, the new child list during the joins), so mapping names to keys
  commutes with folding the notifications (`keyed_fold`): the Member-equality consumer holds
  exactly `_members.map k`, is never told of a join of a Member it holds nor of a leave of one it
  does not hold.
-/
import ScalesModel.Proofs.ServerSetAlt
namespace Scales.ServerSet

/-- key-distinct: no two names of the list carry equal Members -/
def KD (k : Nat → Nat) (l : List Nat) : Prop := (l.map k).Nodup

theorem distinctB_iff (l : List Nat) : distinctB l = true ↔ l.Nodup := by
  induction l with
  | nil => simp [distinctB]
  | cons x xs ih => simp [distinctB, ih, List.nodup_cons]

theorem KD_nil (k : Nat → Nat) : KD k [] := by simp [KD]

theorem KD_inj {k : Nat → Nat} {l : List Nat} (h : KD k l) :
    ∀ x ∈ l, ∀ y ∈ l, k x = k y → x = y :=
  fun _ hx _ hy hxy => List.inj_on_of_nodup_map h hx hy hxy

theorem KD_sub {k : Nat → Nat} {L l : List Nat} (hL : KD k L) (hl : l.Nodup)
    (hs : ∀ x ∈ l, x ∈ L) : KD k l :=
  List.Nodup.map_on (fun x hx y hy h => KD_inj hL x (hs x hx) y (hs y hy) h) hl

theorem keyDistinct_KD {cfg : Cfg} {t : Tree} (h : keyDistinct cfg t = true) :
    KD cfg.keyOf (t.kids.filter cfg.memberOk) :=
  (distinctB_iff _).mp h

/-! ### mapping names to keys commutes with the fold, on a key-distinct set of names -/

theorem keyed_fold (k : Nat → Nat) (S : List Nat)
    (hinj : ∀ x ∈ S, ∀ y ∈ S, k x = k y → x = y) :
    ∀ (ns : List Note) (v : List Nat), (∀ x ∈ v, x ∈ S) → (∀ e ∈ ns, e.2 ∈ S) →
      altOk v ns = true →
      altOk (v.map k) (ns.map (keyNote k)) = true ∧
      viewOf (v.map k) (ns.map (keyNote k)) = (viewOf v ns).map k := by
  intro ns
  induction ns with
  | nil => intro v _ _ _; simp [altOk, viewOf]
  | cons e es ih =>
    intro v hv hes ha
    obtain ⟨b, n⟩ := e
    simp only [altOk, Bool.and_eq_true] at ha
    have hn : n ∈ S := hes (b, n) List.mem_cons_self
    have hstep : applyNote (v.map k) (keyNote k (b, n)) = (applyNote v (b, n)).map k := by
      cases b with
      | true => simp [applyNote, keyNote]
      | false =>
        simp only [applyNote, keyNote, Bool.false_eq_true, if_false, List.filter_map]
        congr 1
        apply List.filter_congr
        intro x hx
        by_cases hxn : x = n
        · show (k x != k n) = (x != n)
          simp [hxn]
        · have : k x ≠ k n := fun h => hxn (hinj x (hv x hx) n hn h)
          show (k x != k n) = (x != n)
          rw [bne_iff_ne.mpr this, bne_iff_ne.mpr hxn]
    have hv' : ∀ x ∈ applyNote v (b, n), x ∈ S := by
      intro x hx
      rw [mem_applyNote] at hx
      rcases hx with ⟨_, h | h⟩ | ⟨_, h, _⟩
      · exact hv x h
      · simp only at h; subst h; exact hn
      · exact hv x h
    obtain ⟨i1, i2⟩ := ih (applyNote v (b, n)) hv'
      (fun e he => hes e (List.mem_cons_of_mem _ he)) ha.2
    constructor
    · simp only [List.map_cons, altOk, Bool.and_eq_true]
      refine ⟨?_, by rw [hstep]; exact i1⟩
      cases b with
      | true =>
        have h1 : n ∉ v := by simpa using ha.1
        simp only [keyNote, if_true, Bool.not_eq_true', List.contains_eq_mem, decide_eq_false_iff_not,
          List.mem_map, not_exists, not_and]
        intro x hx hxn
        exact h1 (hinj x (hv x hx) n hn hxn ▸ hx)
      | false =>
        have h1 : n ∈ v := by simpa using ha.1
        simp only [keyNote, Bool.false_eq_true, if_false, List.contains_eq_mem, decide_eq_true_eq,
          List.mem_map]
        exact ⟨n, h1, rfl⟩
    · simp only [List.map_cons, viewOf, List.foldl_cons]
      rw [hstep]
      exact i2

/-! ### one update -/

theorem finishJob_keys (k : Nat → Nat) (members listing got : List Nat) (hm : members.Nodup)
    (hg : got.Nodup) (hgm : ∀ n ∈ got, n ∉ members) (hgl : ∀ n ∈ got, n ∈ listing)
    (hkm : KD k members) (hkl : KD k listing) :
    KD k (finishJob members listing got).1 ∧
    altOk (members.map k) ((finishJob members listing got).2.map (keyNote k)) = true ∧
    viewOf (members.map k) ((finishJob members listing got).2.map (keyNote k)) =
      (finishJob members listing got).1.map k := by
  obtain ⟨hnd, _, _⟩ := finishJob_spec members listing got hm hg hgm
  have hsubL : ∀ x ∈ (finishJob members listing got).1, x ∈ listing := by
    intro x hx
    simp only [finishJob, List.mem_append, List.mem_filter, List.contains_iff_mem] at hx
    rcases hx with ⟨_, h⟩ | h
    · exact h
    · exact hgl x h
  have hkd : KD k (finishJob members listing got).1 := KD_sub hkl hnd hsubL
  refine ⟨hkd, ?_⟩
  simp only [finishJob] at hkd ⊢
  have hR := leaves_spec (members.filter (fun n => !listing.contains n)) members
    (hm.filter _) (fun r hr => (List.mem_filter.mp hr).1)
  have hview : members.filter (fun x => !(members.filter (fun n => !listing.contains n)).contains x)
      = members.filter (fun n => listing.contains n) := by
    apply List.filter_congr
    intro x hx
    by_cases hl : x ∈ listing <;> simp [hl, hx]
  rw [hview] at hR
  have hG := joins_spec got (members.filter (fun n => listing.contains n)) hg
    (fun g hg' h => hgm g hg' (List.mem_filter.mp h).1)
  -- the leaves: all names involved are old members
  obtain ⟨l1, l2⟩ := keyed_fold k members (KD_inj hkm)
    ((members.filter (fun n => !listing.contains n)).map (fun n => (false, n))) members
    (fun _ h => h)
    (by
      intro e he
      simp only [List.mem_map, List.mem_filter] at he
      obtain ⟨a, ⟨ha, _⟩, rfl⟩ := he
      exact ha)
    hR.1
  -- the joins: all names involved are in the new child list
  obtain ⟨j1, j2⟩ := keyed_fold k (members.filter (fun n => listing.contains n) ++ got) (KD_inj hkd)
    (got.map (fun n => (true, n))) (members.filter (fun n => listing.contains n))
    (fun x hx => List.mem_append_left _ hx)
    (by
      intro e he
      simp only [List.mem_map] at he
      obtain ⟨a, ha, rfl⟩ := he
      exact List.mem_append_right _ ha)
    hG.1
  rw [hR.2] at l2
  rw [hG.2] at j2
  constructor
  · rw [List.map_append, altOk_append, l1, l2, j1]; rfl
  · rw [List.map_append, viewOf_append, l2, j2]

/-! ### the worker loop -/

theorem pump_keys (k : Nat → Nat) (queue : List (List Nat)) :
    ∀ (members : List Nat) (nxt : Option Nat) (w : WSt),
    members.Nodup → (∀ l ∈ queue, l.Nodup) → KD k members → (∀ l ∈ queue, KD k l) →
    pump members queue nxt = some w →
    KD k w.members ∧ (∀ l ∈ w.queue, KD k l) ∧ (∀ j, w.job = some j → KD k j.listing) ∧
    altOk (members.map k) (w.notes.map (keyNote k)) = true ∧
    viewOf (members.map k) (w.notes.map (keyNote k)) = w.members.map k := by
  induction queue with
  | nil =>
    intro members nxt w _ _ hkm _ hp
    simp only [pump] at hp
    split at hp
    · injection hp with hp; subst hp
      exact ⟨hkm, by simp, by simp, by simp [altOk], by simp [viewOf]⟩
    · cases hp
  | cons q qs ih =>
    intro members nxt w hm hq hkm hkq hp
    have hqn : q.Nodup := hq q List.mem_cons_self
    have hqs : ∀ l ∈ qs, l.Nodup := fun l hl => hq l (List.mem_cons_of_mem _ hl)
    have hkq0 : KD k q := hkq q List.mem_cons_self
    have hkqs : ∀ l ∈ qs, KD k l := fun l hl => hkq l (List.mem_cons_of_mem _ hl)
    simp only [pump] at hp
    split at hp
    · obtain ⟨hnd, _, _⟩ := finishJob_spec members q [] hm List.nodup_nil (by simp)
      obtain ⟨f1, f2, f3⟩ := finishJob_keys k members q [] hm List.nodup_nil (by simp) (by simp)
        hkm hkq0
      cases hw0 : pump (finishJob members q []).1 qs nxt with
      | none => rw [hw0] at hp; cases hp
      | some w0 =>
        rw [hw0] at hp
        simp only [Option.map_some] at hp
        injection hp with hp; subst hp
        obtain ⟨g1, g2, g3, g4, g5⟩ := ih _ nxt w0 hnd hqs f1 hkqs hw0
        refine ⟨g1, g2, g3, ?_, ?_⟩
        · rw [List.map_append, altOk_append, f2, f3, g4]; rfl
        · rw [List.map_append, viewOf_append, f3, g5]
    · cases nxt with
      | none => cases hp
      | some n =>
        simp only at hp
        split at hp
        · injection hp with hp; subst hp
          refine ⟨hkm, hkqs, ?_, by simp [altOk], by simp [viewOf]⟩
          intro j hj
          simp only [Option.some.injEq] at hj
          subst hj
          exact hkq0
        · cases hp

theorem pumpB_keys (k : Nat → Nat) (free : Bool) (queue : List (List Nat)) (members : List Nat)
    (nxt : Option Nat) (w : WSt) (hm : members.Nodup) (hq : ∀ l ∈ queue, l.Nodup) (hkm : KD k members)
    (hkq : ∀ l ∈ queue, KD k l) (hp : pumpB free members queue nxt = some w) :
    KD k w.members ∧ (∀ l ∈ w.queue, KD k l) ∧ (∀ j, w.job = some j → KD k j.listing) ∧
    altOk (members.map k) (w.notes.map (keyNote k)) = true ∧
    viewOf (members.map k) (w.notes.map (keyNote k)) = w.members.map k := by
  cases free with
  | true =>
    simp only [pumpB, if_true] at hp
    exact pump_keys k queue members nxt w hm hq hkm hkq hp
  | false =>
    simp only [pumpB, Bool.false_eq_true, if_false] at hp
    split at hp
    · injection hp with hp; subst hp
      exact ⟨hkm, hkq, by simp, by simp [altOk], by simp [viewOf]⟩
    · cases hp

/-! ### a state -/

structure KInv (k : Nat → Nat) (s : St) : Prop where
  km : KD k s.members
  kq : ∀ l ∈ s.queue, KD k l
  kj : ∀ j, s.job = some j → KD k j.listing

theorem KInv_init (k : Nat → Nat) : KInv k St.init :=
  ⟨KD_nil k, by simp [St.init], by simp [St.init]⟩

/-- what one operation does to the Member-equality consumer -/
def KStep (k : Nat → Nat) (s s' : St) (ns : List Note) : Prop :=
  KInv k s' ∧ altOk (s.members.map k) (ns.map (keyNote k)) = true ∧
  viewOf (s.members.map k) (ns.map (keyNote k)) = s'.members.map k

theorem listChildren_shapeK (cfg : Cfg) (s0 : St) (g : Nat) :
    (listChildren cfg s0 g).members = s0.members ∧ (listChildren cfg s0 g).job = s0.job ∧
    ((listChildren cfg s0 g).queue = s0.queue ∨
      (listChildren cfg s0 g).queue = s0.queue ++ [s0.tree.kids.filter cfg.memberOk]) := by
  unfold listChildren
  split
  · exact ⟨rfl, rfl, Or.inr rfl⟩
  · exact ⟨rfl, rfl, Or.inl rfl⟩

theorem dataDeliver_shapeK (cfg : Cfg) (s0 : St) :
    (dataDeliver cfg s0).members = s0.members ∧ (dataDeliver cfg s0).job = s0.job ∧
    ((dataDeliver cfg s0).queue = s0.queue ∨ (dataDeliver cfg s0).queue = s0.queue ++ [[]] ∨
      (dataDeliver cfg s0).queue = s0.queue ++ [s0.tree.kids.filter cfg.memberOk]) := by
  unfold dataDeliver
  simp only
  split
  · split
    · exact ⟨by trivial, by trivial, Or.inl (by trivial)⟩
    · cases hp : s0.tree.parent with
      | none =>
        simp only [onSet, filter_nil_memberOk]
        exact ⟨by trivial, by trivial, Or.inr (Or.inl (by trivial))⟩
      | some g =>
        obtain ⟨h1, h2, h3⟩ := listChildren_shapeK cfg
          { s0 with dw := true, seen := some g, everCalled := true, watched := some g } g
        refine ⟨h1, h2, ?_⟩
        rcases h3 with h3 | h3
        · exact Or.inl h3
        · exact Or.inr (Or.inr h3)
  · exact ⟨by trivial, by trivial, Or.inl (by trivial)⟩

theorem childDeliver_shapeK (cfg : Cfg) (s0 : St) (tag : Option Nat) :
    (childDeliver cfg s0 tag).members = s0.members ∧ (childDeliver cfg s0 tag).job = s0.job ∧
    ((childDeliver cfg s0 tag).queue = s0.queue ∨
      (childDeliver cfg s0 tag).queue = s0.queue ++ [s0.tree.kids.filter cfg.memberOk]) := by
  cases tag with
  | none => exact ⟨rfl, rfl, Or.inl rfl⟩
  | some g =>
    simp only [childDeliver]
    split
    · exact listChildren_shapeK cfg s0 g
    · exact ⟨rfl, rfl, Or.inl rfl⟩

theorem wake_keys {k : Nat → Nat} {s1 s2 : St} {nxt : Option Nat} {ns : List Note}
    (hm : s1.members.Nodup) (hq : ∀ l ∈ s1.queue, l.Nodup) (hk : KInv k s1)
    (h : wake s1 nxt = some (s2, ns)) :
    KInv k s2 ∧ altOk (s1.members.map k) (ns.map (keyNote k)) = true ∧
    viewOf (s1.members.map k) (ns.map (keyNote k)) = s2.members.map k := by
  unfold wake at h
  cases hjob : s1.job with
  | some j =>
    rw [hjob] at h
    simp only at h
    split at h
    · injection h with h; injection h with h1 h2; subst h1; subst h2
      exact ⟨hk, by simp [altOk], by simp [viewOf]⟩
    · cases h
  | none =>
    rw [hjob] at h
    simp only at h
    cases hp : pumpB s1.lists.isEmpty s1.members s1.queue nxt with
    | none => rw [hp] at h; cases h
    | some w =>
      rw [hp] at h
      simp only [Option.map_some] at h
      injection h with h; injection h with h1 h2; subst h1; subst h2
      obtain ⟨g1, g2, g3, g4, g5⟩ := pumpB_keys k _ s1.queue s1.members nxt w hm hq hk.km hk.kq hp
      exact ⟨⟨g1, g2, g3⟩, g4, g5⟩

/-- after a recipe callback that queued at most one child list, key-distinct -/
theorem after_callback_keys {k : Nat → Nat} {s s1 s2 : St} {nxt : Option Nat} {ns : List Note}
    (h0 : Inv0 s) (hk : KInv k s) (hm : s1.members = s.members) (hj : s1.job = s.job)
    (hq : s1.queue = s.queue ∨ ∃ l, s1.queue = s.queue ++ [l] ∧ l.Nodup ∧ KD k l)
    (hw : wake s1 nxt = some (s2, ns)) : KStep k s s2 ns := by
  have hqnd : ∀ l ∈ s1.queue, l.Nodup := by
    rcases hq with h | ⟨l, h, hl, _⟩
    · rw [h]; exact h0.wok.qnd
    · rw [h]
      intro x hx
      rcases List.mem_append.mp hx with hx | hx
      · exact h0.wok.qnd x hx
      · simp only [List.mem_singleton] at hx; subst hx; exact hl
  have hk1 : KInv k s1 := by
    refine ⟨by rw [hm]; exact hk.km, ?_, by rw [hj]; exact hk.kj⟩
    rcases hq with h | ⟨l, h, _, hl⟩
    · rw [h]; exact hk.kq
    · rw [h]
      intro x hx
      rcases List.mem_append.mp hx with hx | hx
      · exact hk.kq x hx
      · simp only [List.mem_singleton] at hx; subst hx; exact hl
  have := wake_keys (by rw [hm]; exact h0.wok.mnd) hqnd hk1 hw
  rw [hm] at this
  exact this

theorem ret_keys {k : Nat → Nat} {s s' : St} {nxt : Option Nat} {ns : List Note} (h0 : Inv0 s)
    (hk : KInv k s) (hn : retStep s nxt = some (s', ns)) : KStep k s s' ns := by
  unfold retStep at hn
  cases hjob : s.job with
  | none => rw [hjob] at hn; cases hn
  | some j =>
    rw [hjob] at hn
    simp only at hn
    cases hcur : j.cur with
    | requested n => rw [hcur] at hn; cases hn
    | served n found =>
      rw [hcur] at hn
      simp only at hn
      have hjk := h0.wok.jok j hjob
      have hname : j.cur.name = n := by rw [hcur]; rfl
      obtain ⟨g1, g2, g3, g4, _, _⟩ := got_ok hjk found
      rw [hname] at g1 g2 g3 g4
      have hkl : KD k j.listing := hk.kj j hjob
      split at hn
      · obtain ⟨f1, _, _⟩ := finishJob_spec s.members j.listing _ h0.wok.mnd g1 g2
        obtain ⟨k1, k2, k3⟩ := finishJob_keys k s.members j.listing _ h0.wok.mnd g1 g2 g3 hk.km hkl
        cases hp : pumpB s.lists.isEmpty (finishJob s.members j.listing (if found then j.got ++ [n] else j.got)).1
            s.queue nxt with
        | none => rw [hp] at hn; cases hn
        | some w =>
          rw [hp] at hn
          simp only [Option.map_some, Option.some.injEq, Prod.mk.injEq] at hn
          obtain ⟨hn1, hn2⟩ := hn
          subst hn1; subst hn2
          obtain ⟨p1, p2, p3, p4, p5⟩ := pumpB_keys k _ s.queue _ nxt w f1 h0.wok.qnd k1 hk.kq hp
          refine ⟨⟨p1, p2, p3⟩, ?_, ?_⟩
          · rw [List.map_append, altOk_append, k2, k3, p4]; rfl
          · rw [List.map_append, viewOf_append, k3, p5]
      · cases nxt with
        | none => cases hn
        | some m =>
          simp only at hn
          split at hn
          · simp only [Option.some.injEq, Prod.mk.injEq] at hn
            obtain ⟨hn1, hn2⟩ := hn
            subst hn1; subst hn2
            refine ⟨⟨hk.km, hk.kq, ?_⟩, by simp [altOk], by simp [viewOf]⟩
            intro j' hj'
            simp only [Option.some.injEq] at hj'
            subst hj'
            exact hkl
          · cases hn

/-- a step that touched only the listings, as the Member-equality consumer sees it: nothing -/
theorem lists_only_keys {k : Nat → Nat} {s s' : St} (hk : KInv k s) (lo : ListsOnly s s') :
    KStep k s s' [] :=
  ⟨⟨by rw [lo.members]; exact hk.km, by rw [lo.queue]; exact hk.kq, by rw [lo.job]; exact hk.kj⟩,
    by simp [altOk], by simp [viewOf, lo.members]⟩

/-- one operation, as the Member-equality consumer sees it — provided no two member znodes
    carry equal Members in the tree the operation starts from -/
theorem next_keys {cfg : Cfg} {s s' : St} {op : Op} {ns : List Note} (h0 : Inv0 s)
    (hk : KInv cfg.keyOf s) (hd : KD cfg.keyOf (s.tree.kids.filter cfg.memberOk))
    (hn : next cfg s op = some (s', ns)) : KStep cfg.keyOf s s' ns := by
  have hfnd : (s.tree.kids.filter cfg.memberOk).Nodup := h0.knd.filter _
  cases op with
  | tree o =>
    simp only [next] at hn
    split at hn
    · simp only [Option.some.injEq, Prod.mk.injEq] at hn
      obtain ⟨h1, h2⟩ := hn
      subst h1; subst h2
      obtain ⟨hmem, hque, hjob, _, _, _, _, _⟩ := treeStep_fields s o
      refine ⟨⟨by rw [hmem]; exact hk.km, by rw [hque]; exact hk.kq, by rw [hjob]; exact hk.kj⟩,
        by simp [altOk], by simp [viewOf, hmem]⟩
    · cases hn
  | start nxt =>
    simp only [next] at hn
    split at hn
    · cases hn
    · obtain ⟨hm, hj, hq⟩ := dataDeliver_shapeK cfg { s with started := true }
      refine after_callback_keys h0 hk hm hj ?_ hn
      rcases hq with h | h | h
      · exact Or.inl h
      · exact Or.inr ⟨[], h, List.nodup_nil, KD_nil _⟩
      · exact Or.inr ⟨_, h, hfnd, hd⟩
  | deliver nxt =>
    simp only [next] at hn
    split at hn
    · split at hn
      · cases hn
      · rename_i rest _
        obtain ⟨hm, hj, hq⟩ := dataDeliver_shapeK cfg { s with pending := rest }
        refine after_callback_keys h0 hk hm hj ?_ hn
        rcases hq with h | h | h
        · exact Or.inl h
        · exact Or.inr ⟨[], h, List.nodup_nil, KD_nil _⟩
        · exact Or.inr ⟨_, h, hfnd, hd⟩
      · rename_i tag rest _
        obtain ⟨hm, hj, hq⟩ := childDeliver_shapeK cfg { s with pending := rest } tag
        refine after_callback_keys h0 hk hm hj ?_ hn
        rcases hq with h | h
        · exact Or.inl h
        · exact Or.inr ⟨_, h, hfnd, hd⟩
    · cases hn
  | serve =>
    simp only [next] at hn
    cases hsv : serveStep s with
    | none => rw [hsv] at hn; cases hn
    | some s1 =>
      rw [hsv] at hn
      simp only [Option.map_some, Option.some.injEq, Prod.mk.injEq] at hn
      obtain ⟨h1, h2⟩ := hn
      subst h1; subst h2
      unfold serveStep at hsv
      cases hjob : s.job with
      | none => rw [hjob] at hsv; cases hsv
      | some j =>
        rw [hjob] at hsv
        simp only at hsv
        cases hcur : j.cur with
        | served n f => rw [hcur] at hsv; cases hsv
        | requested n =>
          rw [hcur] at hsv
          simp only [Option.some.injEq] at hsv
          subst hsv
          refine ⟨⟨hk.km, hk.kq, ?_⟩, by simp [altOk], by simp [viewOf]⟩
          intro j' hj'
          simp only [Option.some.injEq] at hj'
          subst hj'
          exact hk.kj j hjob
  | ret nxt =>
    simp only [next] at hn
    exact ret_keys h0 hk hn
  | list nxt =>
    simp only [next] at hn
    split at hn
    · cases hl : listStep cfg s nxt with
      | none => rw [hl] at hn; cases hn
      | some s1 =>
        rw [hl] at hn
        simp only [Option.map_some, Option.some.injEq, Prod.mk.injEq] at hn
        obtain ⟨h1, h2⟩ := hn
        subst h1; subst h2
        exact lists_only_keys hk (listStep_shape hl).1
    · cases hn
  | lserve i =>
    simp only [next] at hn
    split at hn
    · cases hl : lserveStep s i with
      | none => rw [hl] at hn; cases hn
      | some s1 =>
        rw [hl] at hn
        simp only [Option.map_some, Option.some.injEq, Prod.mk.injEq] at hn
        obtain ⟨h1, h2⟩ := hn
        subst h1; subst h2
        exact lists_only_keys hk (lserveStep_shape hl).1
    · cases hn
  | lret i nxt =>
    simp only [next] at hn
    split at hn
    · rcases lretStep_cases hn with ⟨lo, _, hns⟩ | ⟨s1, lo, hw⟩
      · subst hns
        exact lists_only_keys hk lo
      · exact after_callback_keys h0 hk lo.members lo.job (Or.inl lo.queue) hw
    · cases hn

/-! ### operation lists -/

theorem exec_keys {cfg : Cfg} (ops : List Op) : ∀ (s : St), Inv cfg s → wfGo cfg s ops = true →
    KInv cfg.keyOf s → keyDistinct cfg s.tree = true → distinctAlong cfg s.tree ops = true →
    KInv cfg.keyOf (exec cfg s ops).1 ∧
    altOk (s.members.map cfg.keyOf) ((exec cfg s ops).2.map (keyNote cfg.keyOf)) = true ∧
    viewOf (s.members.map cfg.keyOf) ((exec cfg s ops).2.map (keyNote cfg.keyOf)) =
      (exec cfg s ops).1.members.map cfg.keyOf := by
  induction ops with
  | nil => intro s _ _ hk _ _; exact ⟨hk, by simp [exec, altOk], by simp [exec, viewOf]⟩
  | cons op ops ih =>
    intro s hi hwf hk hd hda
    simp only [wfGo] at hwf
    simp only [distinctAlong, Bool.and_eq_true] at hda
    cases hn : next cfg s op with
    | none => rw [hn] at hwf; cases hwf
    | some p =>
      obtain ⟨s', ns⟩ := p
      rw [hn] at hwf
      simp only at hwf
      obtain ⟨hinv, _, _, ht⟩ := next_inv hi hn
      obtain ⟨k1, k2, k3⟩ := next_keys hi.i0 hk (keyDistinct_KD hd) hn
      rw [← ht] at hda
      obtain ⟨i1, i2, i3⟩ := ih s' hinv hwf k1 hda.1 hda.2
      simp only [exec, hn]
      refine ⟨i1, ?_, ?_⟩
      · rw [List.map_append, altOk_append, k2, k3, i2]; rfl
      · rw [List.map_append, viewOf_append, k3, i3]

/-! ### the model's history satisfies the executable specification -/

theorem keyedNotes_obsOf (cfg : Cfg) (bad : Bool) (ns : List Note) (s : St) :
    keyedNotes (obsOf cfg bad ns s) = ns.map (keyNote cfg.keyOf) := by
  simp only [keyedNotes, obsOf]
  induction ns with
  | nil => rfl
  | cons e es ih => simp [keyNote, ih]

theorem viewVerdictK_ok {idx : Nat} {kview present : List Nat}
    (h : ∀ n, n ∈ kview ↔ n ∈ present) : viewVerdictK idx kview present = .ok := by
  simp only [viewVerdictK, firstNotIn_none (fun n hn => (h n).mpr hn),
    firstNotIn_none (fun n hn => (h n).mp hn)]

theorem mem_map_iff {k : Nat → Nat} {a b : List Nat} (h : ∀ n, n ∈ a ↔ n ∈ b) :
    ∀ m, m ∈ a.map k ↔ m ∈ b.map k := by
  intro m
  simp only [List.mem_map]
  constructor
  · rintro ⟨x, hx, rfl⟩; exact ⟨x, (h x).mp hx, rfl⟩
  · rintro ⟨x, hx, rfl⟩; exact ⟨x, (h x).mpr hx, rfl⟩

theorem spec_trace (cfg : Cfg) (ops : List Op) : ∀ (s : St) (kview : List Nat) (dist : Bool)
    (idx : Nat), Inv cfg s → wfGo cfg s ops = true →
    (dist = true → KInv cfg.keyOf s ∧ kview = s.members.map cfg.keyOf ∧
      keyDistinct cfg s.tree = true) →
    specGo cfg s.tree s.members kview dist idx (comp.trace cfg s ops) = .ok := by
  induction ops with
  | nil => intro s kview dist idx _ _ _; rfl
  | cons op ops ih =>
    intro s kview dist idx hi hwf hkd
    simp only [wfGo] at hwf
    cases hn : next cfg s op with
    | none => rw [hn] at hwf; cases hwf
    | some p =>
      obtain ⟨s', ns⟩ := p
      rw [hn] at hwf
      simp only at hwf
      obtain ⟨hinv, ha, hv, ht⟩ := next_inv hi hn
      have hstep : comp.step cfg s op = (s', obsOf cfg false ns s') := by
        simp only [comp, step, hn]
      simp only [TComp.trace, hstep, specGo]
      have hobs : (obsOf cfg false ns s').notes = ns := rfl
      have hquiet : (obsOf cfg false ns s').quiet = s'.quiet := rfl
      rw [hobs, firstBad_none ha, hquiet, hv, ← ht, keyedNotes_obsOf]
      simp only
      -- the Member-equality clauses
      have hK : (dist && keyDistinct cfg s'.tree) = true →
          KInv cfg.keyOf s' ∧ altOk kview (ns.map (keyNote cfg.keyOf)) = true ∧
          viewOf kview (ns.map (keyNote cfg.keyOf)) = s'.members.map cfg.keyOf ∧
          keyDistinct cfg s'.tree = true := by
        intro hd
        simp only [Bool.and_eq_true] at hd
        obtain ⟨h1, h2, h3⟩ := hkd hd.1
        obtain ⟨k1, k2, k3⟩ := next_keys hi.i0 h1 (keyDistinct_KD h3) hn
        rw [h2]
        exact ⟨k1, k2, k3, hd.2⟩
      have hbad : (if (dist && keyDistinct cfg s'.tree) = true then
            firstBad kview (ns.map (keyNote cfg.keyOf)) else none) = none := by
        cases hd : (dist && keyDistinct cfg s'.tree) with
        | false => rfl
        | true => simp only [if_true]; exact firstBad_none (hK hd).2.1
      rw [hbad]
      simp only
      have hcond : (if s'.quiet = true then viewVerdict idx s'.members (s'.tree.present cfg.lim) else .ok)
          = Verdict.ok := by
        cases hq : s'.quiet with
        | false => rfl
        | true => simp only [if_true]; exact viewVerdict_ok (quiet_members hinv hq)
      rw [hcond]
      simp only
      have hcondK : (if (s'.quiet && (dist && keyDistinct cfg s'.tree)) = true then
            viewVerdictK idx (viewOf kview (ns.map (keyNote cfg.keyOf)))
              ((s'.tree.present cfg.lim).map cfg.keyOf) else .ok) = Verdict.ok := by
        cases hq : s'.quiet with
        | false => rfl
        | true =>
          cases hd : (dist && keyDistinct cfg s'.tree) with
          | false => rfl
          | true =>
            simp only [Bool.and_self, if_true]
            rw [(hK hd).2.2.1]
            exact viewVerdictK_ok (mem_map_iff (quiet_members hinv hq))
      rw [hcondK]
      simp only
      refine ih s' _ _ (idx + 1) hinv hwf ?_
      intro hd
      obtain ⟨k1, _, k3, k4⟩ := hK hd
      exact ⟨k1, k3, k4⟩

end Scales.ServerSet
