import ScalesModel.Proofs.LBInv

/-!
  C12, balancer hop: the gate in front of the open result (`LoadBalancerSink.AsyncProcessRequest`,
  `_on_open_done`).  `flush` drops exactly the waiting requests whose deadline event is set and
  forwards the others once each, in arrival order; every history of the model satisfies `specGate`.
  None of this depends on the heap or aperture invariants.
-/
namespace Scales.LB
open Scales.Heap Scales.Aperture Scales.LBBase

/-! ### the dispatch table only ever grows at its end -/

theorem fixUp_reqs (s : HS) (i : Nat) : (s.fixUp i).reqs = s.reqs := by
  fun_induction HS.fixUp s i with
  | case1 s i hc ih => rw [ih]; rfl
  | case2 s i hc => rfl

theorem fixDown_reqs (s : HS) (i j : Nat) : (s.fixDown i j).reqs = s.reqs := by
  fun_induction HS.fixDown s i j with
  | case1 s i hc m hlt ih => rw [ih]; rfl
  | case2 s i hc m hlt => rfl
  | case3 s i hc => rfl

theorem scan_reqs (l : List Nat) : ∀ (s : HS), (s.scan l).1.reqs = s.reqs := by
  induction l with
  | nil => intro s; rfl
  | cons nid rest ih =>
    intro s
    unfold HS.scan
    simp only
    split
    · exact ih s
    · split
      · rw [ih, fixUp_reqs]; rfl
      · exact ih s

theorem addSink_reqs (s : HS) (ep : Nat) : (s.addSink ep).reqs = s.reqs := by
  unfold HS.addSink; simp only; rw [fixUp_reqs]

theorem removeSink_reqs (s : HS) (ep : Nat) : (s.removeSink ep).1.reqs = s.reqs := by
  unfold HS.removeSink
  split
  · rfl
  · simp only
    split
    · rfl
    · simp only [setNode_reqs]
      split
      · show (((s.swap _ _).fixDown _ _).fixUp _).reqs = _
        rw [fixUp_reqs, fixDown_reqs]; rfl
      · show ((s.swap _ _).fixDown _ _).reqs = _
        rw [fixDown_reqs]; rfl

theorem choose_reqs (a : AS) : (a.choose).1.hs = a.hs := (choose_spec a).1

theorem tryExpand_reqs (cfg : Cfg) (a : AS) (lp : Bool) : (a.tryExpand cfg lp).1.hs.reqs = a.hs.reqs := by
  have hc := choose_reqs a
  unfold AS.tryExpand
  split
  · rename_i a0 he; rw [he] at hc; simp only at hc; simp [hc]
  · rename_i a0 c he; rw [he] at hc; simp only at hc
    simp only
    split <;> simp [AS.heapAdd, addSink_reqs, hc]

theorem contract_reqs (cfg : Cfg) (a : AS) (f : Bool) : (a.contract cfg f).hs.reqs = a.hs.reqs := by
  unfold AS.contract
  split
  · rfl
  · split
    · split
      · rfl
      · simp [removeSink_reqs]
    · rfl

theorem onNodeDown_reqs (cfg : Cfg) (a : AS) (nid : Nat) : (a.onNodeDown cfg nid).1.hs.reqs = a.hs.reqs := by
  unfold AS.onNodeDown
  split
  · exact tryExpand_reqs cfg a false
  · rfl

theorem adjust_reqs (cfg : Cfg) (a : AS) (amount : Int) : (a.adjust cfg amount).hs.reqs = a.hs.reqs := by
  have key : ∀ i rest m, (a.adjustWith cfg amount i rest m).hs.reqs = a.hs.reqs := by
    intro i rest m
    unfold AS.adjustWith
    simp only
    split
    · rw [tryExpand_reqs]
    · rw [contract_reqs]
    · rfl
  unfold AS.adjust
  split <;> exact key _ _ _

theorem getLoop_reqs (cfg : Cfg) (fuel : Nat) : ∀ (a : AS), (a.getLoop cfg fuel).1.hs.reqs = a.hs.reqs := by
  induction fuel with
  | zero => intro a; rfl
  | succ n ih =>
    intro a
    unfold AS.getLoop
    simp only
    split
    · exact scan_reqs _ _
    · rw [ih, onNodeDown_reqs]
      simp only [fixDown_reqs, setNode_reqs]
      exact scan_reqs _ _

/-- a dispatch gets the next number; a no-members answer gets none -/
theorem get_reqs (cfg : Cfg) (a : AS) :
    (match (a.get cfg).2 with
     | .noMembers => (a.get cfg).1.hs.reqs.length = a.hs.reqs.length
     | .node _ _ r => r = a.hs.reqs.length ∧ (a.get cfg).1.hs.reqs.length = a.hs.reqs.length + 1) := by
  unfold AS.get
  by_cases h0 : a.hs.size = 0
  · simp only [h0, if_true]
  · simp only [h0, if_false]
    have h1 := getLoop_reqs cfg (a.hs.nodes.length + a.idle.length + 1) a
    have h2 : ∀ (x : HS) (nid : Nat) (n : Node) (i j : Nat), ((x.setNode nid n).fixDown i j).reqs = x.reqs := by
      intro x nid n i j; rw [fixDown_reqs, setNode_reqs]
    split
    · simp only [adjust_reqs, h2, h1, List.length_append, List.length_cons, List.length_nil, and_self]
    · simp only [h2, h1, List.length_append, List.length_cons, List.length_nil, and_self]

/-! ### `flush` -/

/-- the list starts at or above `n` and grows -/
def IncFrom : Nat → List Nat → Prop
  | _, [] => True
  | n, a :: l => n ≤ a ∧ IncFrom (a + 1) l

theorem IncFrom.mono {n m : Nat} (h : m ≤ n) : ∀ {l : List Nat}, IncFrom n l → IncFrom m l
  | [], _ => trivial
  | _ :: _, ⟨h1, h2⟩ => ⟨le_trans h h1, h2⟩

theorem IncFrom.increasing : ∀ {n : Nat} {l : List Nat}, IncFrom n l → increasing l = true
  | _, [], _ => rfl
  | _, [_], _ => rfl
  | n, a :: b :: rest, ⟨_, h2⟩ => by
    have h3 : IncFrom (a + 1) (b :: rest) := h2
    have h4 : a < b := h3.1
    have h5 := IncFrom.increasing h3
    unfold LB.increasing
    simp [h4, h5]

/-- **what `flush` does**: one result per waiting request; a request whose deadline event is set is
    dropped, any other is forwarded; the forwarded ones get growing dispatch numbers -/
theorem flush_gate (cfg : Cfg) (q : List (Option Bool)) : ∀ (a : AS),
    dropOk q ((flush (sub cfg) q a).2.map ResV.ofFlush) = true ∧
    liveOk q ((flush (sub cfg) q a).2.map ResV.ofFlush) = true ∧
    IncFrom a.hs.reqs.length (dispatchIds ((flush (sub cfg) q a).2.map ResV.ofFlush)) ∧
    a.hs.reqs.length ≤ (flush (sub cfg) q a).1.hs.reqs.length := by
  induction q with
  | nil => intro a; exact ⟨rfl, rfl, trivial, le_refl _⟩
  | cons e q ih =>
    intro a
    unfold flush
    by_cases hl : live e = true
    · simp only [hl, if_true, sub_request, List.map_cons]
      obtain ⟨i1, i2, i3, i4⟩ := ih (a.get cfg).1
      have hg := get_reqs cfg a
      cases hr : (a.get cfg).2 with
      | noMembers =>
        rw [hr] at hg; simp only at hg
        refine ⟨by simp [dropOk, hl, i1], by simp [liveOk, hl, ResV.ofFlush, ResV.ofGet, i2], ?_, by omega⟩
        simp only [dispatchIds, ResV.ofFlush, ResV.ofGet, List.filterMap_cons]
        rw [← hg]; exact i3
      | node nid ep r =>
        rw [hr] at hg; simp only at hg
        refine ⟨by simp [dropOk, hl, i1], by simp [liveOk, hl, ResV.ofFlush, ResV.ofGet, i2], ?_, by omega⟩
        simp only [dispatchIds, ResV.ofFlush, ResV.ofGet, List.filterMap_cons]
        refine ⟨by omega, ?_⟩
        rw [hg.1, ← hg.2]; exact i3
    · have hl' : live e = false := by simpa using hl
      simp only [hl', Bool.false_eq_true, if_false, List.map_cons]
      obtain ⟨i1, i2, i3, i4⟩ := ih a
      refine ⟨by simp [dropOk, hl', ResV.ofFlush, i1], by simp [liveOk, hl', i2], ?_, i4⟩
      simp only [dispatchIds, ResV.ofFlush, List.filterMap_cons]
      exact i3

/-! ### one operation -/

/-- nothing waits once the open result is complete -/
def GInv (lb : St) : Prop := lb.sub.openAr = true → lb.queued = []

theorem ofFlush_ne_queued (g : Option GetRes) : ResV.ofFlush g ≠ .queued := by
  cases g with
  | none => simp [ResV.ofFlush]
  | some g => cases g <;> simp [ResV.ofFlush, ResV.ofGet]

theorem ofGet_ne_queued (g : GetRes) : ResV.ofGet g ≠ .queued := by
  cases g <;> simp [ResV.ofGet]

/-- the operation proper: the queue the spec rebuilds is the model's queue; a request served on
    the spot means nothing was waiting -/
theorem act_gate (cfg : Cfg) (lb : St) (op : Op) (hg : GInv lb) :
    (act cfg lb op).1.queued = gateArriveB lb.queued op ((act cfg lb op).2.contains .queued) ∧
    ((act cfg lb op).2.filter (· ≠ .queued) ≠ [] → (act cfg lb op).1.queued = []) ∧
    ((act cfg lb op).2 = [] ∨ (act cfg lb op).2 = [.queued] ∨ ∃ g, (act cfg lb op).2 = [ResV.ofGet g]) := by
  have req : ∀ (e : Env) (evt : Option Bool),
      let r := (feed lb e).request (sub cfg) evt
      let res : List ResV := match r.2 with | some g => [ResV.ofGet g] | none => [.queued]
      r.1.queued = (if res.contains .queued then lb.queued ++ [evt] else lb.queued) ∧
      (res.filter (· ≠ .queued) ≠ [] → r.1.queued = []) ∧
      (res = [] ∨ res = [.queued] ∨ ∃ g, res = [ResV.ofGet g]) := by
    intro e evt
    unfold LB.request
    by_cases hr : (sub cfg).openReady (feed lb e).sub = true
    · have hq : lb.queued = [] := hg hr
      simp only [if_pos hr]
      refine ⟨?_, fun _ => hq, Or.inr (Or.inr ⟨_, rfl⟩)⟩
      have : ([ResV.ofGet ((sub cfg).request (feed lb e).sub).2] : List ResV).contains .queued = false := by
        have := ofGet_ne_queued ((sub cfg).request (feed lb e).sub).2
        simp only [List.contains_cons, List.contains_nil, Bool.or_false, beq_eq_false_iff_ne, ne_eq]
        exact fun h => this h.symm
      simp only [this]; rfl
    · simp only [if_neg hr]
      refine ⟨by simp; rfl, by simp, Or.inr (Or.inl trivial)⟩
  cases op with
  | get e => exact req e none
  | getd e => exact req e (some false)
  | expire k =>
    clear req
    have hq : (feed lb ⟨[], []⟩).queued = lb.queued := rfl
    simp only [act, gateArriveB]
    refine ⟨?_, by simp, Or.inl trivial⟩
    unfold LB.expire
    rw [hq]
    cases h1 : lb.queued[k]? with
    | none => rfl
    | some v =>
      cases v with
      | none => rfl
      | some b => rfl
  | opn => exact ⟨rfl, by simp [act], Or.inl rfl⟩
  | loaded l e => exact ⟨rfl, by simp [act], Or.inl rfl⟩
  | join ep e =>
    refine ⟨?_, by simp [act], Or.inl rfl⟩
    simp only [act, gateArriveB, LB.notify]; split <;> rfl
  | leave ep e =>
    refine ⟨?_, by simp [act], Or.inl rfl⟩
    simp only [act, gateArriveB, LB.notify]; split <;> rfl
  | put r j e => exact ⟨rfl, by simp [act], Or.inl rfl⟩
  | chan nid s => exact ⟨rfl, by simp [act], Or.inl rfl⟩
  | opened nid ok e => exact ⟨rfl, by simp [act], Or.inl rfl⟩
  | jitter e => exact ⟨rfl, by simp [act], Or.inl rfl⟩

theorem finish_gate (cfg : Cfg) (lb : St) :
    GInv (lb.finish (sub cfg)).1 ∧
    (((lb.finish (sub cfg)).1.queued = [] ∧ lb.queued ≠ [] ∧
        ∃ a : AS, (lb.finish (sub cfg)).2 = (flush (sub cfg) lb.queued a).2) ∨
     ((lb.finish (sub cfg)).1.queued = lb.queued ∧ (lb.finish (sub cfg)).2 = [])) := by
  unfold LB.finish
  by_cases h0 : (sub cfg).openReady lb.sub = true ∧ lb.queued ≠ []
  · simp only [if_pos h0]
    exact ⟨fun _ => rfl, Or.inl ⟨trivial, h0.2, _, rfl⟩⟩
  · simp only [if_neg h0]
    by_cases hc : (sub cfg).openReady ((sub cfg).settle lb.sub) = true ∧ lb.queued ≠ []
    · simp only [if_pos hc]
      exact ⟨fun _ => rfl, Or.inl ⟨trivial, hc.2, _, rfl⟩⟩
    · simp only [if_neg hc]
      refine ⟨?_, Or.inr ⟨trivial, trivial⟩⟩
      intro h
      by_contra hq
      exact hc ⟨h, hq⟩

theorem tapesRead_gate (lb : St) : (tapesRead lb).queued = lb.queued ∧ (tapesRead lb).sub.openAr = lb.sub.openAr := by
  unfold tapesRead; split <;> exact ⟨rfl, rfl⟩

theorem filter_ne_queued_map (fr : List (Option GetRes)) :
    (fr.map ResV.ofFlush).filter (· ≠ .queued) = fr.map ResV.ofFlush := by
  rw [List.filter_eq_self]
  intro x hx
  obtain ⟨g, _, rfl⟩ := List.mem_map.1 hx
  simpa using ofFlush_ne_queued g

theorem filter_eq_queued_map (fr : List (Option GetRes)) :
    (fr.map ResV.ofFlush).filter (· = .queued) = [] := by
  rw [List.filter_eq_nil_iff]
  intro x hx
  obtain ⟨g, _, rfl⟩ := List.mem_map.1 hx
  simpa using ofFlush_ne_queued g

theorem contains_app (l1 l2 : List ResV) (x : ResV) : (l1 ++ l2).contains x = (l1.contains x || l2.contains x) := by
  rw [Bool.eq_iff_iff]; simp [List.contains_eq_mem]

theorem gate_step (cfg : Cfg) (lb : St) (op : Op) (which idx : Nat) (hg : GInv lb) :
    GInv (stepSt cfg lb op).1 ∧
    gateAt which idx (gateArrive lb.queued op (obsOf (stepSt cfg lb op).1 (stepSt cfg lb op).2))
      (obsOf (stepSt cfg lb op).1 (stepSt cfg lb op).2) = .ok ∧
    gateNext (gateArrive lb.queued op (obsOf (stepSt cfg lb op).1 (stepSt cfg lb op).2))
      (obsOf (stepSt cfg lb op).1 (stepSt cfg lb op).2) = (stepSt cfg lb op).1.queued := by
  obtain ⟨a1, a2, a3⟩ := act_gate cfg lb op hg
  obtain ⟨f1, f2⟩ := finish_gate cfg (act cfg lb op).1
  obtain ⟨t1, t2⟩ := tapesRead_gate ((act cfg lb op).1.finish (sub cfg)).1
  set r := act cfg lb op with hr
  set f := r.1.finish (sub cfg) with hf
  have hst : stepSt cfg lb op = (tapesRead f.1,
      (r.2.filter (· ≠ .queued)) ++ f.2.map ResV.ofFlush ++ (r.2.filter (· = .queued))) := rfl
  rw [hst]
  simp only
  set res := (r.2.filter (· ≠ .queued)) ++ f.2.map ResV.ofFlush ++ (r.2.filter (· = .queued)) with hres
  have hoq : (obsOf (tapesRead f.1) res).queued = f.1.queued.length := by simp [obsOf, t1]
  have hor : (obsOf (tapesRead f.1) res).res = res := rfl
  -- was the request reported queued?
  have hmid : (f.2.map ResV.ofFlush).contains .queued = false := by
    rw [List.contains_eq_mem, decide_eq_false_iff_not]
    intro hx
    obtain ⟨g, _, hg'⟩ := List.mem_map.1 hx
    exact ofFlush_ne_queued g hg'
  have hcont : res.contains .queued = r.2.contains .queued := by
    have e1 : ∀ l : List ResV, (l.filter (· ≠ .queued)).contains .queued = false := by
      intro l
      rw [List.contains_eq_mem, decide_eq_false_iff_not]
      intro hx
      have := (List.mem_filter.1 hx).2
      simp at this
    have e2 : ∀ l : List ResV, (l.filter (· = .queued)).contains .queued = l.contains .queued := by
      intro l
      rw [List.contains_eq_mem, List.contains_eq_mem]
      congr 1
      apply propext
      rw [List.mem_filter]
      simp
    rw [hres, contains_app, contains_app, e1, e2, hmid]; rfl
  have harr : gateArrive lb.queued op (obsOf (tapesRead f.1) res) = r.1.queued := by
    unfold gateArrive; rw [hor, hcont, ← a1]
  rw [harr]
  refine ⟨?_, ?_, ?_⟩
  · intro h; rw [t1]; exact f1 (t2 ▸ h)
  · unfold gateAt
    rcases f2 with ⟨q0, qne, a, hfl⟩ | ⟨qs, hfl⟩
    · -- the open result completed in this operation
      have hdirect : r.2.filter (· ≠ .queued) = [] := by
        by_contra hc; exact qne (a2 hc)
      have hflushed : (obsOf (tapesRead f.1) res).flushed = (flush (sub cfg) r.1.queued a).2.map ResV.ofFlush := by
        unfold Obs.flushed
        rw [hor, hres, List.filter_append, List.filter_append, hdirect, List.filter_nil, List.nil_append, hfl,
          filter_ne_queued_map]
        have : (r.2.filter (· = .queued)).filter (· ≠ .queued) = [] := by
          rw [List.filter_eq_nil_iff]; intro x hx
          have := (List.mem_filter.1 hx).2
          simpa using this
        rw [this, List.append_nil]
      obtain ⟨g1, g2, g3, _⟩ := flush_gate cfg r.1.queued a
      rw [hflushed, g1, g2, g3.increasing]
      simp
    · have : ((obsOf (tapesRead f.1) res).queued == 0 && !r.1.queued.isEmpty) = false := by
        rw [hoq, qs]
        cases r.1.queued <;> simp
      rw [this]; rfl
  · unfold gateNext
    rw [hoq, t1]
    rcases f2 with ⟨q0, _, _, _⟩ | ⟨qs, _⟩
    · rw [q0]; rfl
    · rw [qs]
      cases hq : r.1.queued <;> simp


/-! ### every history -/

theorem specGate_trace (cfg : Cfg) (which : Nat) (ops : List Op) : ∀ (lb : St) (idx : Nat), GInv lb →
    specGateGo which idx lb.queued (compGate.trace cfg lb ops) = .ok := by
  induction ops with
  | nil => intro lb idx _; rfl
  | cons op ops ih =>
    intro lb idx hg
    obtain ⟨g1, g2, g3⟩ := gate_step cfg lb op which idx hg
    simp only [TComp.trace]
    show specGateGo which idx lb.queued ((op, (step cfg lb op).2) :: compGate.trace cfg (step cfg lb op).1 ops) = .ok
    simp only [specGateGo, step]
    rw [g2]; simp only [Verdict.and]; rw [g3]
    exact ih _ (idx + 1) g1

theorem GInv.init (cfg : Cfg) : GInv (init cfg) := fun _ => rfl

end Scales.LB
