/-
  Proofs/MuxTRaceTheorems.lean — C08, ThriftMux transport: what an event of the environment that
  lands in the middle of a drain (`race`) leaves behind.  Finding F16 at the level of the
  transport: a connection failure between the dispatch of the handshake's Rping and the
  resumption of `_OpenImpl` leaves the transport closed, its fault signal raised once and the
  open failed.
-/
import ScalesModel.Proofs.MuxTTheorems
set_option linter.unusedSimpArgs false
set_option linter.unusedVariables false
namespace Scales.MuxT
open Scales.Transport

/-! ### while `_OpenImpl` waits for the handshake's ping -/

/-- while `_OpenImpl` is blocked on the handshake's ping the open result is pending, the transport
    reports `idle` and the ping is outstanding -/
def InvO (s : St) : Prop :=
  s.opening = true → s.openRes = .pending ∧ s.cstate = .idle ∧ s.pingWait = true

theorem invO_init : InvO St.init := by intro h; cases h

theorem invO_of_not_opening (s : St) (h : s.opening = false) : InvO s := by
  intro e; rw [h] at e; cases e

theorem shutdown_opening (s : St) (b : Bool) (h : InvO s) : InvO (s.shutdown b).1 := by
  by_cases hc : s.cstate = .closed
  · rw [shutdown_closed s b hc]; exact h
  · rw [shutdown_eq s b hc]; exact invO_of_not_opening _ rfl

@[simp] theorem opening_pump (s : St) : s.pump.opening = s.opening := by
  unfold St.pump; split <;> rfl

theorem invO_pump (s : St) (h : InvO s) : InvO s.pump := by
  intro e
  simp only [opening_pump, pump_openRes, pump_cstate, pump_pingWait] at e ⊢
  exact h e

theorem invO_process (s : St) (f : Frame) (h : InvO s) : InvO (s.process f).1 := by
  cases f with
  | junk => exact h
  | rping =>
    simp only [St.process]
    by_cases hp : s.pingWait = true
    · by_cases ho : s.opening = true
      · simp only [hp, ho, if_true]; exact invO_of_not_opening _ rfl
      · simp only [hp, ho, if_true]
        exact invO_of_not_opening _ (by simpa using ho)
    · simp only [hp]; exact h
  | reply tag =>
    simp only [St.process]
    cases hl : s.tagMap.lookup tag with
    | some id => exact h
    | none => exact h

theorem invO_processQ (s : St) (f : Frame) (h : InvO s) : InvO (s.processQ f).1 := by
  simp only [St.processQ]
  split
  · exact invO_of_not_opening _ rfl
  · exact invO_process s f h

theorem invO_dispatchGo : ∀ (fs : List Frame) (s : St), InvO s → InvO (dispatchGo fs s).1 := by
  intro fs
  induction fs with
  | nil => intro s h; exact h
  | cons f fs ih => intro s h; simp only [dispatchGo]; exact ih _ (invO_process s f h)

theorem invO_dispatchQGo : ∀ (fs : List Frame) (s : St) (w : Bool), InvO s →
    InvO (dispatchQGo fs s w).1 := by
  intro fs
  induction fs with
  | nil => intro s w h; exact h
  | cons f fs ih => intro s w h; simp only [dispatchQGo]; exact ih _ _ (invO_processQ s f h)

theorem invO_rdRaw (s : St) (o : IOOut) (f : Frame) (h : InvO s) : InvO (s.rdRaw o f).1 := by
  simp only [St.rdRaw]
  cases s.rl with
  | dead => exact h
  | hdr => cases o <;> first | exact h | exact shutdown_opening s true h
  | body => cases o <;> first | exact h | exact shutdown_opening s true h

theorem invO_rdMany : ∀ (rs : List (IOOut × Frame)) (s : St), InvO s → InvO (s.rdMany rs).1 := by
  intro rs
  induction rs with
  | nil => intro s h; exact h
  | cons r rest ih =>
    intro s h
    obtain ⟨o, f⟩ := r
    rw [rdMany_cons]
    exact ih _ (invO_rdRaw s o f h)

theorem invO_burst (s : St) (rs : List (IOOut × Frame)) (h : InvO s) : InvO (s.burst rs).1 := by
  simp only [St.burst, St.dispatch]
  exact invO_dispatchGo _ _ (invO_rdMany rs s h)

theorem invO_hit (s : St) (x : Hit) (h : InvO s) : InvO (s.hit x).1 := by
  cases x with
  | rdRaise => simp only [St.hit]; split; exact h; exact shutdown_opening s true h
  | rdEof => simp only [St.hit]; split; exact h; exact shutdown_opening s true h
  | wr => simp only [St.hit]; split; exact shutdown_opening s true h; exact h
  | close => exact shutdown_opening s false h

theorem invO_resumeIf (s : St) (w : Bool) (h : InvO s) : InvO (s.resumeIf w) := by
  cases w with
  | false => exact h
  | true =>
    simp only [St.resumeIf, St.resumeOpen]
    split
    · exact h
    · exact invO_of_not_opening _ rfl

theorem invO_race (s : St) (rs : List (IOOut × Frame)) (pos : Pos) (x : Hit) (h : InvO s) :
    InvO (s.race rs pos x).1 := by
  cases pos with
  | first => exact invO_burst _ rs (invO_hit s x h)
  | pre =>
    simp only [St.race, St.dispatch]
    exact invO_dispatchGo _ _ (invO_hit _ x (invO_rdMany rs s h))
  | mid =>
    simp only [St.race, St.dispatchQ]
    exact invO_resumeIf _ _ (invO_hit _ x (invO_dispatchQGo _ _ _ (invO_rdMany rs s h)))

theorem invO_openT (s : St) (r : Conn) (h : InvO s) : InvO (s.openT r).1 := by
  simp only [St.openT]
  split
  · exact h
  · split
    · exact h
    · rename_i h1 h2
      have hidle : s.cstate = .idle := by simpa using h2
      cases r with
      | refuse => exact shutdown_opening _ true (fun e => ⟨rfl, hidle, (h e).2.2⟩)
      | ok => exact invO_pump _ (fun _ => ⟨rfl, hidle, rfl⟩)

theorem invO_step (s : St) (op : Op) (h : InvO s) : InvO (stepOut s op).1 := by
  cases op with
  | look => exact h
  | openBurst rs => exact invO_burst _ rs (invO_openT s .ok h)
  | close => exact shutdown_opening s false h
  | pingSilence =>
    simp only [stepOut, St.pingSilence]
    split
    · exact shutdown_opening s true h
    · exact h
  | pingDue =>
    simp only [stepOut, St.pingDue]
    split
    · rename_i hc
      simp only [Bool.and_eq_true, decide_eq_true_eq] at hc
      apply invO_pump
      intro e
      have := (h e).2.1
      rw [hc.2] at this; cases this
    · exact h
  | openT r =>
    simp only [stepOut, St.openT]
    split
    · exact h
    · split
      · exact h
      · rename_i h1 h2
        have hidle : s.cstate = .idle := by simpa using h2
        cases r with
        | refuse => exact shutdown_opening _ true (fun e => ⟨rfl, hidle, (h e).2.2⟩)
        | ok => exact invO_pump _ (fun _ => ⟨rfl, hidle, rfl⟩)
  | req id tag =>
    simp only [stepOut, St.request]
    split
    · exact h
    · rename_i hno
      split
      · exact invO_pump _ (fun e => absurd e hno)
      · exact h
  | wr o =>
    simp only [stepOut, St.wr]
    split
    · cases o with
      | ok => exact invO_pump _ h
      | raise => exact shutdown_opening s true h
      | eof => exact shutdown_opening s true h
    · exact h
  | rd o f => exact invO_burst s _ h
  | burst rs => exact invO_burst s rs h
  | race rs pos x => exact invO_race s rs pos x h

theorem invO_reachable (ops : List Op) : InvO (runOps St.init ops) := by
  have : ∀ s, InvO s → InvO (runOps s ops) := by
    induction ops with
    | nil => intro s h; exact h
    | cons op ops ih => intro s h; exact ih _ (invO_step s op h)
  exact this _ invO_init

/-! ### after a race -/

/-- **after an enabled race the transport is closed**, whatever the reads, the position and the
    event: both loops, the ping loop and the ping helper are gone, no `_ProcessReply` greenlet is
    left behind, `_OpenImpl` is not waiting any more; the fault signal was raised exactly once
    if the race contained a connection failure (a failing read or write) and not at all if its
    only event was a `Close()`; an open that was pending has failed, one that had succeeded stays
    as it was.  In particular the `_OpenImpl` greenlet that the handshake's Rping woke just
    before the failure does not declare the transport Open (repair F16). -/
theorem race_closed_and_signalled (s : St) (rs : List (IOOut × Frame)) (pos : Pos) (x : Hit)
    (hinv : Inv s) (hrl : s.rl ≠ .dead) (hok : hitOk s rs pos x = true) :
    (stepOut s (.race rs pos x)).1.cstate = .closed ∧
    (stepOut s (.race rs pos x)).2.eff.faults = (if raceFails rs pos x then 1 else 0) ∧
    (stepOut s (.race rs pos x)).1.sl = .dead ∧ (stepOut s (.race rs pos x)).1.rl = .dead ∧
    (stepOut s (.race rs pos x)).1.pingLoop = false ∧ (stepOut s (.race rs pos x)).1.pingWait = false ∧
    (stepOut s (.race rs pos x)).1.opening = false ∧ (stepOut s (.race rs pos x)).1.hasOpenResult = false ∧
    (stepOut s (.race rs pos x)).1.tagMap = [] ∧ (stepOut s (.race rs pos x)).1.sendQ = [] ∧
    (stepOut s (.race rs pos x)).1.pending = [] ∧
    (stepOut s (.race rs pos x)).1.openRes = (if s.openRes = .pending then .failed else s.openRes) := by
  obtain ⟨s1, d, heq, _, hp1, hcs, hor, _, _, _⟩ := race_shape s rs pos x hinv.1 hrl hok
  have hc : s.cstate ≠ .closed := fun e => hrl (hinv.1.1 e).2.1
  have hc1 : s1.cstate ≠ .closed := by rw [hcs]; exact hc
  show (s.race rs pos x).1.cstate = _ ∧ (s.race rs pos x).2.eff.faults = _ ∧ (s.race rs pos x).1.sl = _ ∧
    (s.race rs pos x).1.rl = _ ∧ (s.race rs pos x).1.pingLoop = _ ∧ (s.race rs pos x).1.pingWait = _ ∧
    (s.race rs pos x).1.opening = _ ∧ (s.race rs pos x).1.hasOpenResult = _ ∧
    (s.race rs pos x).1.tagMap = _ ∧ (s.race rs pos x).1.sendQ = _ ∧ (s.race rs pos x).1.pending = _ ∧
    (s.race rs pos x).1.openRes = _
  rw [heq, shutdown_eq s1 _ hc1]
  refine ⟨rfl, rfl, rfl, rfl, rfl, rfl, rfl, rfl, rfl, rfl, hp1, ?_⟩
  simp only [hor]

/-- a closed transport rejects the next request on the spot and stays as it is -/
theorem closed_rejects (s : St) (hc : s.cstate = .closed) (ho : s.opening = false) (id tag : Nat) :
    s.request id tag = (s, { eff := { dels := [(id, .other)] } }) := by
  simp [St.request, ho, hc]

/-- **F16 at the level of the transport.**  In every reachable state in which `_OpenImpl` waits
    for the handshake's Rping: whatever frames the receive loop reads in a drain (the Rping among
    them or not), and wherever in that drain a failing read, a failing write or a `Close()`
    lands — before the reads, before the `_ProcessReply` greenlets, or after the Rping was
    dispatched and before `_OpenImpl` resumes —, the transport ends up closed, `Open()` has
    failed, the fault signal was raised once (not for a lone `Close()`), and the next request is
    rejected on the spot.  The transport never reports Open. -/
theorem race_during_handshake_fails_open (ops : List Op) (rs : List (IOOut × Frame)) (pos : Pos)
    (x : Hit) (hop : (runOps St.init ops).opening = true)
    (hrl : (runOps St.init ops).rl ≠ .dead) (hok : hitOk (runOps St.init ops) rs pos x = true) :
    (stepOut (runOps St.init ops) (.race rs pos x)).1.cstate = .closed ∧
    (stepOut (runOps St.init ops) (.race rs pos x)).1.openRes = .failed ∧
    (stepOut (runOps St.init ops) (.race rs pos x)).2.eff.faults = (if raceFails rs pos x then 1 else 0) ∧
    (stepOut (runOps St.init ops) (.race rs pos x)).2.eff.dels = [] ∧
    ∀ id tag, (stepOut (runOps St.init ops) (.race rs pos x)).1.request id tag =
      ((stepOut (runOps St.init ops) (.race rs pos x)).1, { eff := { dels := [(id, .other)] } }) := by
  have hinv := inv_reachable ops
  have hO := invO_reachable ops hop
  obtain ⟨c1, c2, _, _, _, _, c7, _, _, _, _, c12⟩ :=
    race_closed_and_signalled _ rs pos x hinv hrl hok
  refine ⟨c1, by rw [c12, hO.1]; rfl, c2, ?_, fun id tag => closed_rejects _ c1 c7 id tag⟩
  -- nothing is in flight while the transport is still opening
  obtain ⟨s1, d, heq, _, _, _, _, hF, _, _⟩ := race_shape _ rs pos x hinv.1 hrl hok
  have hidle : (runOps St.init ops).cstate ≠ .opened := by rw [hO.2.1]; simp
  have htm := hinv.1.2 hidle
  have F := hF (by rw [htm]; simp) (by rw [htm]; simp)
  have hs1 : s1.tagMap = [] := by
    have := F.tmSub; rw [htm] at this; exact List.sublist_nil.mp this
  have hd : d = [] := by
    cases d with
    | nil => rfl
    | cons p rest =>
      have := F.settle []
      rw [htm] at this
      obtain ⟨i, r⟩ := p
      simp [settle] at this
  show (St.race _ rs pos x).2.eff.dels = []
  rw [heq, hd, hs1]
  rfl

/-! ### where the position matters, and where it does not -/

theorem process_not_opening (s : St) (f : Frame) (h : s.opening = false) :
    (s.process f).1.opening = false := by
  cases f with
  | junk => exact h
  | rping =>
    simp only [St.process]
    split
    · split <;> first | rfl | exact h
    · exact h
  | reply tag =>
    simp only [St.process]
    cases hl : s.tagMap.lookup tag with
    | some id => exact h
    | none => exact h

/-- unless `_OpenImpl` is waiting, `_ProcessReply` greenlets wake nothing that matters -/
theorem dispatchQGo_not_opening : ∀ (fs : List Frame) (s : St) (w : Bool), s.opening = false →
    dispatchQGo fs s w = ((dispatchGo fs s).1, (dispatchGo fs s).2, w) := by
  intro fs
  induction fs with
  | nil => intros; rfl
  | cons f fs ih =>
    intro s w h
    have hw : s.wakes f = false := by simp [St.wakes, h]
    have hq : s.processQ f = s.process f := by simp [St.processQ, hw]
    simp only [dispatchQGo, dispatchGo, hq, hw, Bool.or_false]
    rw [ih _ w (process_not_opening s f h)]

theorem rdRaw_not_opening (s : St) (o : IOOut) (f : Frame) (h : s.opening = false) :
    (s.rdRaw o f).1.opening = false := by
  simp only [St.rdRaw]
  cases s.rl with
  | dead => exact h
  | hdr => cases o <;> first | exact h | (simp only [St.shutdown]; split <;> first | exact h | rfl)
  | body => cases o <;> first | exact h | (simp only [St.shutdown]; split <;> first | exact h | rfl)

theorem rdMany_not_opening : ∀ (rs : List (IOOut × Frame)) (s : St), s.opening = false →
    (s.rdMany rs).1.opening = false := by
  intro rs
  induction rs with
  | nil => intro s h; exact h
  | cons r rest ih =>
    intro s h
    obtain ⟨o, f⟩ := r
    rw [rdMany_cons]
    exact ih _ (rdRaw_not_opening s o f h)

/-- **outside the opening handshake the position `mid` is nothing new**: the reads, the dispatch of
    their frames and then the event — a race at `mid` is the `burst` followed by the event, as two
    operations one after the other would have it (a periodic Rping only wakes the ping helper, which
    finds its ping answered and goes away). -/
theorem race_mid_sequential (s : St) (rs : List (IOOut × Frame)) (x : Hit) (hno : s.opening = false) :
    (s.race rs .mid x).1 = ((s.burst rs).1.hit x).1 ∧
    (s.race rs .mid x).2.eff = effApp (s.burst rs).2.eff ((s.burst rs).1.hit x).2 := by
  have h1 := rdMany_not_opening rs s hno
  have hq : (s.rdMany rs).1.dispatchQ = ((s.rdMany rs).1.dispatch.1, (s.rdMany rs).1.dispatch.2, false) := by
    simp only [St.dispatchQ, St.dispatch]
    exact dispatchQGo_not_opening _ _ false h1
  simp only [St.race, St.burst, hq, St.resumeIf]
  refine ⟨trivial, ?_⟩
  cases (s.rdMany rs).2
  simp [effApp]

/-- **during the opening handshake the position of the event does not matter** (after repair F16):
    whether the failing read, the failing write or the `Close()` runs before the `_ProcessReply`
    greenlet of the handshake's Rping or between it and the resumption of `_OpenImpl`, the
    operation ends in the same state with the same effects.  (As found, `mid` ended Open:
    `race_as_found_counterexample`.) -/
theorem race_handshake_position_irrelevant (s : St) (rs : List (IOOut × Frame)) (x : Hit)
    (hinv : Inv s) (hO : InvO s) (hop : s.opening = true) (hrl : s.rl ≠ .dead)
    (hok : hitOk s rs .mid x = true) : s.race rs .mid x = s.race rs .pre x := by
  have hok' : hitOk s rs .pre x = true := by cases x <;> simpa [hitOk] using hok
  have hidle : s.cstate ≠ .opened := by rw [(hO hop).2.1]; simp
  have htm := hinv.1.2 hidle
  have hc : s.cstate ≠ .closed := fun e => hrl (hinv.1.1 e).2.1
  have hb : raceFails rs .mid x = raceFails rs .pre x := by cases x <;> rfl
  -- both are one shutdown of a state with the open result of `s`, nothing in flight, nothing pending
  have key : ∀ pos, hitOk s rs pos x = true →
      s.race rs pos x =
        ((({ s with pending := [] } : St).shutdown (raceFails rs pos x)).1,
         { eff := { faults := if raceFails rs pos x then 1 else 0, dels := [] } }) := by
    intro pos hk
    obtain ⟨s1, d, heq, _, hp1, hcs, hor, hF, _, _⟩ := race_shape s rs pos x hinv.1 hrl hk
    have F := hF (by rw [htm]; simp) (by rw [htm]; simp)
    have hs1 : s1.tagMap = [] := by
      have := F.tmSub; rw [htm] at this; exact List.sublist_nil.mp this
    have hd : d = [] := by
      cases d with
      | nil => rfl
      | cons p rest =>
        have := F.settle []
        rw [htm] at this
        obtain ⟨i, r⟩ := p
        simp [settle] at this
    have hc1 : s1.cstate ≠ .closed := by rw [hcs]; exact hc
    have hc2 : ({ s with pending := [] } : St).cstate ≠ .closed := hc
    rw [heq, hd, hs1, shutdown_eq s1 _ hc1, shutdown_eq _ _ hc2]
    simp [hor, hp1, htm]
  rw [key .mid hok, key .pre hok', hb]

/-! ### over whole histories -/

/-- the simulation relation holds after every prefix of an admissible operation list -/
theorem rel_split : ∀ (pre post : List Op) (s : St) (a : Acc) (seen : List Nat), Rel s a seen →
    opsOk s seen (pre ++ post) = true →
    ∃ a' seen', Rel (runOps s pre) a' seen' ∧ opsOk (runOps s pre) seen' post = true := by
  intro pre
  induction pre with
  | nil => intro post s a seen hrel hok; exact ⟨a, seen, hrel, hok⟩
  | cons op pre ih =>
    intro post s a seen hrel hok
    simp only [List.cons_append, opsOk, Bool.and_eq_true] at hok
    obtain ⟨hen, hrest⟩ := hok
    obtain ⟨_, hrel'⟩ := step_ok s a seen op hrel hen
    exact ih post _ _ _ hrel' hrest

/-- a response handed out in the operation after `pre` counts in the whole history -/
theorem responsesTo_ge_of_mem (pre : List Op) (op : Op) (post : List Op) (id : Nat) (r : Resp)
    (hmem : (id, r) ∈ (stepOut (runOps St.init pre) op).2.eff.dels) :
    1 ≤ responsesTo id (comp.modelTrace () (pre ++ op :: post)) := by
  have hpos : 0 < (stepOut (runOps St.init pre) op).2.eff.dels.countP (fun d => d.1 == id) :=
    List.countP_pos_iff.mpr ⟨_, hmem, by simp⟩
  have htr : comp.modelTrace () (pre ++ op :: post) =
      comp.trace () St.init pre ++ comp.trace () (runOps St.init pre) (op :: post) :=
    trace_append pre St.init (op :: post)
  rw [htr, responsesTo_append]
  have : responsesTo id (comp.trace () (runOps St.init pre) (op :: post)) =
      (stepOut (runOps St.init pre) op).2.eff.dels.countP (fun d => d.1 == id) +
        responsesTo id (comp.trace () (stepOut (runOps St.init pre) op).1 post) := by
    simp [TComp.trace, comp, step, responsesTo, obsOf]
  omega

/-- **each in-flight request is completed exactly once by a race, over whole histories.**  Whatever
    happened before and whatever happens afterwards: a request that is in the tag map when a drain
    begins in which the receive loop reads frames and a failing read, a failing write or a
    `Close()` lands at any position, is handed a response in that very operation — its reply, if
    that was among the frames and was dispatched before the event (position `mid`), otherwise a
    `ClientError` — and that is the only response it is handed in the whole history. -/
theorem race_inflight_answered_exactly_once (pre : List Op) (rs : List (IOOut × Frame)) (pos : Pos)
    (x : Hit) (post : List Op) (h : comp.wf () (pre ++ .race rs pos x :: post) = true) (tag id : Nat)
    (hin : (tag, id) ∈ (runOps St.init pre).tagMap) :
    (∃ r, (id, r) ∈ (stepOut (runOps St.init pre) (.race rs pos x)).2.eff.dels ∧
        (r = Resp.stream ∨ r = Resp.cerr)) ∧
    responsesTo id (comp.modelTrace () (pre ++ .race rs pos x :: post)) = 1 := by
  obtain ⟨a, seen, hrel, hok⟩ := rel_split pre (.race rs pos x :: post) St.init {} [] rel_init h
  simp only [opsOk, Bool.and_eq_true] at hok
  have hen := hok.1
  simp only [enabled, Bool.and_eq_true, decide_eq_true_eq] at hen
  obtain ⟨hrl, hitok⟩ := hen
  have hrl : (runOps St.init pre).rl ≠ .dead := by simpa using hrl
  obtain ⟨s1, d, heq, _, _, _, _, hF, _, hS⟩ := race_shape _ rs pos x hrel.inv hrl hitok
  have F := hF hrel.tags hrel.ids
  have hid : id ∈ (runOps St.init pre).tagMap.map (·.2) := List.mem_map.mpr ⟨(tag, id), hin, rfl⟩
  have hex : ∃ r, (id, r) ∈ (stepOut (runOps St.init pre) (.race rs pos x)).2.eff.dels ∧
      (r = Resp.stream ∨ r = Resp.cerr) := by
    show ∃ r, (id, r) ∈ (St.race _ rs pos x).2.eff.dels ∧ _
    rw [heq]
    rcases settle_covers d _ _ _ _ (F.settle []) id hid with h1 | h1
    · obtain ⟨p, hp, he⟩ := List.mem_map.mp h1
      refine ⟨Resp.cerr, List.mem_append_right _ (List.mem_map.mpr ⟨p, hp, ?_⟩), Or.inr rfl⟩
      rw [he]
    · obtain ⟨p, hp, he⟩ := List.any_eq_true.mp h1
      have he' : p.1 = id := by simpa using he
      refine ⟨p.2, List.mem_append_left _ ?_, Or.inl (hS p hp)⟩
      rw [← he']; exact hp
  refine ⟨hex, ?_⟩
  obtain ⟨r, hmem, _⟩ := hex
  have hle := responses_at_most_once _ h id
  have hge := responsesTo_ge_of_mem pre (.race rs pos x) post id r hmem
  omega

end Scales.MuxT
