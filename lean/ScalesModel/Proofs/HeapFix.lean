import ScalesModel.Proofs.HeapOrder

/-! `fixUp` / `fixDown` on the model state: they only permute the heap (frame), keep H1, and
    restore the order under the usual preconditions. -/
namespace Scales.Heap

/-- `s'` differs from `s` only by a rearrangement of the heap -/
structure Frame (s s' : HS) : Prop where
  size : s'.size = s.size
  len : s'.nodes.length = s.nodes.length
  fields : ∀ id, (s'.node id).load = (s.node id).load ∧ (s'.node id).ep = (s.node id).ep ∧
    (s'.node id).chan = (s.node id).chan ∧ (s'.node id).closed = (s.node id).closed
  inHeap : ∀ id, InHeap s' id ↔ InHeap s id
  down : s'.down = s.down
  reqs : s'.reqs = s.reqs
  servers : s'.servers = s.servers
  offIndex : ∀ id, ¬ InHeap s id → (s'.node id).index = (s.node id).index

theorem Frame.refl (s : HS) : Frame s s :=
  ⟨rfl, rfl, fun _ => ⟨rfl, rfl, rfl, rfl⟩, fun _ => Iff.rfl, rfl, rfl, rfl, fun _ _ => rfl⟩

theorem Frame.trans {a b c : HS} (h1 : Frame a b) (h2 : Frame b c) : Frame a c := by
  refine ⟨h2.size.trans h1.size, h2.len.trans h1.len, ?_, fun id => (h2.inHeap id).trans (h1.inHeap id),
    h2.down.trans h1.down, h2.reqs.trans h1.reqs, h2.servers.trans h1.servers, ?_⟩
  · intro id
    obtain ⟨a1, a2, a3, a4⟩ := h1.fields id
    obtain ⟨b1, b2, b3, b4⟩ := h2.fields id
    exact ⟨b1.trans a1, b2.trans a2, b3.trans a3, b4.trans a4⟩
  · intro id hn
    rw [h2.offIndex id (fun h => hn ((h1.inHeap id).mp h)), h1.offIndex id hn]

theorem swap_Frame (s : HS) (hw : WF s) (i j : Nat) (hi1 : 1 ≤ i) (hi2 : i ≤ s.size)
    (hj1 : 1 ≤ j) (hj2 : j ≤ s.size) : Frame s (s.swap i j) := by
  refine ⟨swap_size s i j, swap_len s i j, swap_node_fields s i j,
    swap_inHeap s i j hi1 hi2 hj1 hj2, rfl, rfl, rfl, ?_⟩
  intro id hn
  rw [swap_node_index s hw i j id hi1 hi2 hj1 hj2]
  have n1 : ¬ id = s.idAt i := fun h => hn ⟨i, hi1, hi2, h.symm⟩
  have n2 : ¬ id = s.idAt j := fun h => hn ⟨j, hj1, hj2, h.symm⟩
  simp [n1, n2]

theorem swap_L_fsw (s : HS) (i j : Nat) (hi1 : 1 ≤ i) (hi2 : i ≤ s.size)
    (hj1 : 1 ≤ j) (hj2 : j ≤ s.size) : L (s.swap i j) = fsw (L s) i j := by
  funext k; rw [swap_L s i j k hi1 hi2 hj1 hj2]; rfl

/-- under H1 the (load, index) comparison of two heap slots is a comparison of loads with
    the position as tie-break -/
theorem lt_iff (s : HS) (hw : WF s) (p q : Nat) (hp1 : 1 ≤ p) (hp2 : p ≤ s.size)
    (hq1 : 1 ≤ q) (hq2 : q ≤ s.size) :
    (s.at p).lt (s.at q) = true ↔ (L s p < L s q ∨ (L s p = L s q ∧ p < q)) := by
  unfold Node.lt L
  rw [hw.idx p hp1 hp2, hw.idx q hq1 hq2]
  by_cases h1 : (s.at p).load > (s.at q).load
  · simp [h1]; omega
  · by_cases h2 : (s.at p).load < (s.at q).load
    · simp [h2]; omega
    · have : (s.at p).load = (s.at q).load := by omega
      simp [this]

/-! ### fixUp -/

theorem fixUp_spec (s : HS) (i : Nat) (hw : WF s) (hi : i ≤ s.size) :
    WF (s.fixUp i) ∧ Frame s (s.fixUp i) ∧
    (∀ n, n ≤ s.size → i ≤ n → OrdExUp (L s) n i → GP (L s) n i → Ord (L (s.fixUp i)) n) := by
  fun_induction HS.fixUp s i with
  | case1 s i hc ih =>
    obtain ⟨hi1, hlt⟩ := hc
    have h2a : 1 ≤ i / 2 := by omega
    have h2b : i / 2 ≤ s.size := by omega
    have hw' := swap_WF s hw i (i / 2) (by omega) hi h2a h2b
    have hf' := swap_Frame s hw i (i / 2) (by omega) hi h2a h2b
    obtain ⟨w, f, o⟩ := ih hw' (by rw [swap_size]; omega)
    refine ⟨w, hf'.trans f, ?_⟩
    intro n hn hin hO hG
    have hlt' : L s i < L s (i / 2) := by
      have := (lt_iff s hw i (i / 2) (by omega) hi h2a h2b).mp hlt
      rcases this with h | ⟨_, h⟩
      · exact h
      · omega
    have := up_step (L s) n i hi1 hlt' hin hO hG
    rw [← swap_L_fsw s i (i / 2) (by omega) hi h2a h2b] at this
    exact o n (by rw [swap_size]; exact hn) (by omega) this.1 this.2
  | case2 s i hc =>
    refine ⟨hw, Frame.refl s, ?_⟩
    intro n hn hin hO _
    apply up_done (L s) n i _ hO
    rintro ⟨h1, h2⟩
    apply hc
    refine ⟨h1, ?_⟩
    exact (lt_iff s hw i (i / 2) (by omega) hi (by omega) (by omega)).mpr (Or.inl h2)

/-- `fixUp` does nothing when the slot is not smaller than its parent -/
theorem fixUp_noop (s : HS) (i : Nat) (hw : WF s) (hi : i ≤ s.size)
    (h : i ≤ 1 ∨ L s (i / 2) ≤ L s i) : s.fixUp i = s := by
  unfold HS.fixUp
  have : ¬ (1 < i ∧ (s.at i).lt (s.at (i / 2)) = true) := by
    rintro ⟨h1, h2⟩
    have := (lt_iff s hw i (i / 2) (by omega) hi (by omega) (by omega)).mp h2
    rcases h with h | h
    · omega
    · rcases this with h3 | ⟨_, h3⟩ <;> omega
  simp [this]

/-! ### fixDown -/

theorem pick_eq (s : HS) (hw : WF s) (i j : Nat) (hi : 1 ≤ i) (h2 : 2 * i ≤ j) (hj : j ≤ s.size) :
    (if j = 2 * i ∨ (s.at (2 * i)).lt (s.at (2 * i + 1)) = true then 2 * i else 2 * i + 1) = pick (L s) i j := by
  unfold pick
  by_cases hj2 : j = 2 * i
  · simp [hj2]
  · have hlt := lt_iff s hw (2 * i) (2 * i + 1) (by omega) (by omega) (by omega) (by omega)
    have : ((s.at (2 * i)).lt (s.at (2 * i + 1)) = true) ↔ L s (2 * i) ≤ L s (2 * i + 1) := by
      rw [hlt]; constructor
      · rintro (h | ⟨h, _⟩) <;> omega
      · intro h; by_cases e : L s (2 * i) = L s (2 * i + 1)
        · exact Or.inr ⟨e, by omega⟩
        · exact Or.inl (by omega)
    simp only [hj2, false_or, this]

theorem fixDown_spec (s : HS) (i j : Nat) (hw : WF s) (hj : j ≤ s.size) :
    WF (s.fixDown i j) ∧ Frame s (s.fixDown i j) ∧
    (1 ≤ i → OrdExDown (L s) j i → GP (L s) j i → Ord (L (s.fixDown i j)) j) := by
  fun_induction HS.fixDown s i j with
  | case1 s i hc m hlt ih =>
    obtain ⟨hi1, h2⟩ := hc
    have hm : m = pick (L s) i j := pick_eq s hw i j hi1 h2 hj
    have hm' : pick (L s) i j = 2 * i ∨ pick (L s) i j = 2 * i + 1 := by unfold pick; split <;> simp
    have hmj : pick (L s) i j ≤ j := by
      unfold pick; split
      · omega
      · rename_i hcnd; push Not at hcnd; omega
    rw [hm] at ih hlt ⊢
    have hm1 : 1 ≤ pick (L s) i j := by omega
    have hm2 : pick (L s) i j ≤ s.size := by omega
    have hw' := swap_WF s hw i _ hi1 (by omega) hm1 hm2
    have hf' := swap_Frame s hw i _ hi1 (by omega) hm1 hm2
    obtain ⟨w, f, o⟩ := ih hw' (by rw [swap_size]; exact hj)
    refine ⟨w, hf'.trans f, ?_⟩
    intro _ hO hG
    have hlt' : L s (pick (L s) i j) < L s i := by
      have := (lt_iff s hw _ i hm1 hm2 hi1 (by omega)).mp hlt
      rcases this with h | ⟨_, h⟩
      · exact h
      · omega
    have := down_step (L s) j i hi1 h2 hlt' hO hG
    rw [← swap_L_fsw s i _ hi1 (by omega) hm1 hm2] at this
    exact o hm1 this.1 this.2
  | case2 s i hc m hlt =>
    obtain ⟨hi1, h2⟩ := hc
    have hm : m = pick (L s) i j := pick_eq s hw i j hi1 h2 hj
    refine ⟨hw, Frame.refl s, ?_⟩
    intro _ hO _
    apply down_done (L s) j i hi1 _ hO
    right
    intro hc
    apply hlt
    rw [hm]
    have hm' : pick (L s) i j = 2 * i ∨ pick (L s) i j = 2 * i + 1 := by unfold pick; split <;> simp
    have hmj : pick (L s) i j ≤ j := by
      unfold pick; split
      · omega
      · rename_i hcnd; push Not at hcnd; omega
    exact (lt_iff s hw _ i (by omega) (by omega) hi1 (by omega)).mpr (Or.inl hc)
  | case3 s i hc =>
    refine ⟨hw, Frame.refl s, ?_⟩
    intro hi1 hO _
    apply down_done (L s) j i hi1 _ hO
    left; intro h; exact hc ⟨hi1, h⟩

/-- `fixDown` does nothing when the slot is not larger than its children -/
theorem fixDown_noop (s : HS) (i j : Nat) (hw : WF s) (hj : j ≤ s.size) (hi : 1 ≤ i)
    (h : ∀ c, c ≤ j → c / 2 = i → 2 ≤ c → L s i ≤ L s c) : s.fixDown i j = s := by
  unfold HS.fixDown
  by_cases hc : 1 ≤ i ∧ 2 * i ≤ j
  · simp only [hc, and_self, dite_true]
    have hm := pick_eq s hw i j hc.1 hc.2 hj
    rw [hm]
    have hm' : pick (L s) i j = 2 * i ∨ pick (L s) i j = 2 * i + 1 := by unfold pick; split <;> simp
    have hmj : pick (L s) i j ≤ j := by
      unfold pick; split
      · omega
      · rename_i hcnd; push Not at hcnd; omega
    have : ¬ ((s.at (pick (L s) i j)).lt (s.at i) = true) := by
      intro hlt
      have := (lt_iff s hw _ i (by omega) (by omega) hi (by omega)).mp hlt
      have hge := h (pick (L s) i j) hmj (by omega) (by omega)
      rcases this with h3 | ⟨_, h3⟩ <;> omega
    simp [this]
  · simp [hc]

/-- delete-style repair of slot `i`: sift down, then up -/
theorem hole_repair (s : HS) (i n : Nat) (hw : WF s) (hn : n ≤ s.size) (hi1 : 1 ≤ i) (hin : i ≤ n)
    (hH : OrdHole (L s) n i) (hG : GP (L s) n i) :
    WF ((s.fixDown i n).fixUp i) ∧ Frame s ((s.fixDown i n).fixUp i) ∧
    Ord (L ((s.fixDown i n).fixUp i)) n := by
  by_cases hcase : 2 ≤ i ∧ L s i < L s (i / 2)
  · -- smaller than the parent: the children are fine, only sift up
    obtain ⟨hi2, hlt⟩ := hcase
    have hnoop : s.fixDown i n = s := by
      apply fixDown_noop s i n hw hn hi1
      intro c hc hci hc2
      have := hG c hc hci hi2
      omega
    rw [hnoop]
    obtain ⟨w, f, o⟩ := fixUp_spec s i hw (by omega)
    refine ⟨w, f, o n hn hin ?_ hG⟩
    intro k hk2 hkn hki
    by_cases hk : k / 2 = i
    · have := hG k hkn hk hi2
      rw [hk]; omega
    · exact hH k hk2 hkn hki hk
  · -- not smaller than the parent: sift down, after which sifting up is a no-op
    obtain ⟨w, f, o⟩ := fixDown_spec s i n hw hn
    have hO : OrdExDown (L s) n i := by
      intro k hk2 hkn hk
      by_cases hki : k = i
      · subst hki
        have : ¬ (L s k < L s (k / 2)) := fun h => hcase ⟨hk2, h⟩
        omega
      · exact hH k hk2 hkn hki hk
    have hord := o hi1 hO hG
    have hnoop : (s.fixDown i n).fixUp i = s.fixDown i n := by
      apply fixUp_noop _ i w (by rw [f.size]; omega)
      by_cases h1 : i ≤ 1
      · exact Or.inl h1
      · exact Or.inr (hord i (by omega) hin)
    rw [hnoop]
    exact ⟨w, f, hord⟩

end Scales.Heap
