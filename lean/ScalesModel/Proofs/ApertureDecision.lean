import ScalesModel.Proofs.ApertureInv
import ScalesModel.Proofs.ApertureSettle

/-! The decision table of `_AdjustAperture` on the model, its tie to the size dynamics `sizeStep`,
    and a configuration in which the dynamics never settle. -/
namespace Scales.Aperture
open Scales.Heap

/-- the decision table of `_AdjustAperture`, on the model -/
theorem adjustWith_decision (cfg : Cfg) {a : AS} (inv : PInv cfg a) (hap : cfg.aperture = true) (amount : Int)
    (i : AdjIn) (rest : List AdjIn) (missing : Bool) :
    let a' := a.adjustWith cfg amount i rest missing
    let load := apLoad cfg a.hs.size i.avg
    let grow := cfg.maxLoad ≤ load ∧ a.idle ≠ [] ∧ a.hs.size < cfg.maxSize
    let shrink := load ≤ cfg.minLoad ∧ cfg.minSize < a.hs.size ∧ a.pending = [] ∧ cfg.minSize < a.numHealthy
    (grow → a'.hs.size = a.hs.size + 1 ∧ a'.idle.length + 1 = a.idle.length) ∧
    (¬ grow → shrink → a'.hs.size + 1 = a.hs.size ∧ a'.idle.length = a.idle.length + 1) ∧
    (¬ grow → ¬ shrink → a'.hs.size = a.hs.size ∧ a'.idle.length = a.idle.length) := by
  intro a' load grow shrink
  simp only [a', AS.adjustWith]
  set a1 : AS := { a with total := a.total + amount,
                          ema := some i.avg, clock := MonoClock.sample a.clock i.now,
                          adjIn := rest, bad := a.bad || missing } with ha1
  have s1 : Stable cfg a a1 := Stable.of_same inv rfl rfl rfl rfl
  have hE := decision_expand_iff cfg a1 i.avg
  have hC := decision_contract_iff cfg a1 i.avg
  have e1 : a1.hs = a.hs := rfl
  have e2 : a1.idle = a.idle := rfl
  have e3 : a1.pending = a.pending := rfl
  have e4 : a1.numHealthy = a.numHealthy := rfl
  rw [e1, e2] at hE hC
  cases hd : a1.decision cfg i.avg with
  | expand =>
    have hg : grow := hE.1 hd
    obtain ⟨_, _, _, h1⟩ := tryExpand_spec cfg s1.inv false
    have := h1 (by rw [e2]; exact hg.2.1)
    rw [e1, e2] at this
    exact ⟨fun _ => this, fun h => absurd hg h, fun h => absurd hg h⟩
  | contract =>
    have hc := hC.1 hd
    obtain ⟨_, _, h1, h2⟩ := contract_spec cfg s1.inv hap false
    rw [e1, e2, e3, e4] at h1 h2
    refine ⟨fun h => absurd h hc.1, ?_, ?_⟩
    · rintro _ ⟨_, hsz, hp, hh⟩
      exact h1 (Or.inl hp) hh (contractPick_some (by rw [e3]; exact hp) (by rw [e1]; omega))
    · intro _ hns
      have : (a.pending ≠ [] ∧ false = false) ∨ a.numHealthy ≤ cfg.minSize := by
        by_cases hp : a.pending = []
        · right; exact Nat.le_of_not_lt (fun hh => hns ⟨hc.2.1, hc.2.2, hp, hh⟩)
        · left; exact ⟨hp, rfl⟩
      obtain ⟨x, y⟩ := h2 this
      exact ⟨x, by rw [y]⟩
  | stay =>
    refine ⟨fun h => ?_, fun hn hs => ?_, fun _ _ => ⟨rfl, rfl⟩⟩
    · have := hE.2 h; rw [hd] at this; cases this
    · have := hC.2 ⟨hn, hs.1, hs.2.1⟩; rw [hd] at this; cases this

/-- with every active member healthy and no open pending, one `_AdjustAperture` call is one step of
    the size dynamics `sizeStep` -/
theorem adjustWith_sizeStep (cfg : Cfg) {a : AS} (inv : PInv cfg a) (hap : cfg.aperture = true) (amount : Int)
    (i : AdjIn) (rest : List AdjIn) (missing : Bool) (hp : a.pending = []) (hh : a.numHealthy = a.hs.size) :
    ((a.adjustWith cfg amount i rest missing).hs.size, (a.adjustWith cfg amount i rest missing).idle.length)
      = sizeStep cfg i.avg (a.hs.size, a.idle.length) := by
  obtain ⟨d1, d2, d3⟩ := adjustWith_decision cfg inv hap amount i rest missing
  have hidle : a.idle ≠ [] ↔ 0 < a.idle.length := by rw [List.length_pos_iff]
  unfold sizeStep
  by_cases he : expandCond cfg i.avg (a.hs.size, a.idle.length)
  · rw [if_pos he]
    obtain ⟨x, y⟩ := d1 ⟨he.1, hidle.2 he.2.1, he.2.2⟩
    simp only [Prod.mk.injEq]; omega
  · rw [if_neg he]
    have hng : ¬ (cfg.maxLoad ≤ apLoad cfg a.hs.size i.avg ∧ a.idle ≠ [] ∧ a.hs.size < cfg.maxSize) :=
      fun h => he ⟨h.1, hidle.1 h.2.1, h.2.2⟩
    by_cases hc : contractCond cfg i.avg (a.hs.size, a.idle.length)
    · rw [if_pos hc]
      obtain ⟨x, y⟩ := d2 hng ⟨hc.1, hc.2, hp, by rw [hh]; exact hc.2⟩
      simp only [Prod.mk.injEq]; omega
    · rw [if_neg hc]
      obtain ⟨x, y⟩ := d3 hng (fun h => hc ⟨h.1, h.2.1⟩)
      simp only [Prod.mk.injEq]; omega

/-- `min_load = max_load`: two members under a constant load of two requests make the aperture
    grow and shrink for ever -/
def oscCfg : Cfg := ⟨true, 1, 4, 1, 1, false, []⟩

theorem osc_step1 : sizeStep oscCfg 2 (2, 1) = (3, 0) := by
  unfold sizeStep
  have : expandCond oscCfg 2 (2, 1) := by
    unfold expandCond apLoad oscCfg; norm_num
  rw [if_pos this]; rfl

theorem osc_step2 : sizeStep oscCfg 2 (3, 0) = (2, 1) := by
  unfold sizeStep
  have h1 : ¬ expandCond oscCfg 2 (3, 0) := by
    unfold expandCond; simp
  have h2 : contractCond oscCfg 2 (3, 0) := by
    unfold contractCond apLoad oscCfg; norm_num
  rw [if_neg h1, if_pos h2]; rfl

theorem osc_never_settles : ∀ k, sizeStep oscCfg 2 ((sizeStep oscCfg 2)^[k] (2, 1)) ≠ (sizeStep oscCfg 2)^[k] (2, 1) := by
  have key : ∀ k, ((sizeStep oscCfg 2)^[k] (2, 1) = (2, 1) ∨ (sizeStep oscCfg 2)^[k] (2, 1) = (3, 0)) := by
    intro k
    induction k with
    | zero => left; rfl
    | succ k ih =>
      rw [Function.iterate_succ_apply']
      rcases ih with h | h
      · right; rw [h]; exact osc_step1
      · left; rw [h]; exact osc_step2
  intro k
  rcases key k with h | h
  · rw [h, osc_step1]; decide
  · rw [h, osc_step2]; decide

/-- `min_size = 0` with no traffic: the dynamics alternate between no active member and one -/
def oscCfg0 : Cfg := ⟨true, 0, 4, 1 / 2, 2, false, []⟩

theorem osc0_step1 : sizeStep oscCfg0 0 (0, 1) = (1, 0) := by
  unfold sizeStep
  have : expandCond oscCfg0 0 (0, 1) := by
    unfold expandCond apLoad oscCfg0; norm_num
  rw [if_pos this]; rfl

theorem osc0_step2 : sizeStep oscCfg0 0 (1, 0) = (0, 1) := by
  unfold sizeStep
  have h1 : ¬ expandCond oscCfg0 0 (1, 0) := by
    unfold expandCond; simp
  have h2 : contractCond oscCfg0 0 (1, 0) := by
    unfold contractCond apLoad oscCfg0; norm_num
  rw [if_neg h1, if_pos h2]; rfl

theorem osc0_never_settles :
    ∀ k, sizeStep oscCfg0 0 ((sizeStep oscCfg0 0)^[k] (0, 1)) ≠ (sizeStep oscCfg0 0)^[k] (0, 1) := by
  have key : ∀ k, ((sizeStep oscCfg0 0)^[k] (0, 1) = (0, 1) ∨ (sizeStep oscCfg0 0)^[k] (0, 1) = (1, 0)) := by
    intro k
    induction k with
    | zero => left; rfl
    | succ k ih =>
      rw [Function.iterate_succ_apply']
      rcases ih with h | h
      · right; rw [h]; exact osc0_step1
      · left; rw [h]; exact osc0_step2
  intro k
  rcases key k with h | h
  · rw [h, osc0_step1]; decide
  · rw [h, osc0_step2]; decide

/-! ### the clock: only `_AdjustAperture` samples it -/

theorem choose_clock (a : AS) : (a.choose).1.clock = a.clock := by
  unfold AS.choose
  split
  · rfl
  · split
    · rfl
    · split <;> rfl

theorem tryExpand_clock (cfg : Cfg) (a : AS) (lp : Bool) : (a.tryExpand cfg lp).1.clock = a.clock := by
  have h := choose_clock a
  unfold AS.tryExpand
  split
  · rename_i a0 heq; rw [heq] at h; exact h
  · rename_i a0 c heq; rw [heq] at h
    simp only
    split <;> exact h

theorem contract_clock (cfg : Cfg) (a : AS) (force : Bool) : (a.contract cfg force).clock = a.clock := by
  unfold AS.contract
  split
  · rfl
  · split
    · split <;> rfl
    · rfl

/-- `_AdjustAperture` leaves the clock at `MonoClock.Sample()` of its previous value and the reading -/
theorem adjustWith_clock (cfg : Cfg) (a : AS) (amount : Int) (i : AdjIn) (rest : List AdjIn) (missing : Bool) :
    (a.adjustWith cfg amount i rest missing).clock = MonoClock.sample a.clock i.now := by
  unfold AS.adjustWith
  simp only
  split
  · exact tryExpand_clock cfg _ false
  · exact contract_clock cfg _ false
  · rfl

end Scales.Aperture
