import ScalesModel.Model.Ema
import Mathlib.Algebra.Order.Field.Rat
import Mathlib.Algebra.Order.AbsoluteValue.Basic
import Mathlib.Tactic.Ring
import Mathlib.Tactic.Linarith

/-! Facts about the rational EMA and the clock of Model/Ema.lean (scales/varz.py `Ema`, `MonoClock`). -/
namespace Scales.MonoClock

/-- `Sample()` is `max(_last, now)` -/
theorem sample_eq_max (last now : Rat) : sample last now = max last now := by
  unfold sample
  split
  · rename_i h; rw [max_eq_right (le_of_lt (sub_pos.1 h))]
  · rename_i h; rw [max_eq_left (sub_nonpos.1 (not_lt.1 h))]

/-- the sampled time never decreases, whatever the wall clock reads -/
theorem le_sample (last now : Rat) : last ≤ sample last now := by
  rw [sample_eq_max]; exact le_max_left _ _

theorem now_le_sample (last now : Rat) : now ≤ sample last now := by
  rw [sample_eq_max]; exact le_max_right _ _

/-- successive sampled times: each is at least `last`, and they never decrease -/
theorem samples_sorted (readings : List Rat) : ∀ last : Rat,
    (∀ t ∈ samples last readings, last ≤ t) ∧ (samples last readings).Pairwise (· ≤ ·) := by
  induction readings with
  | nil => intro last; simp [samples]
  | cons now rest ih =>
    intro last
    obtain ⟨h1, h2⟩ := ih (sample last now)
    simp only [samples, List.mem_cons, forall_eq_or_imp, List.pairwise_cons]
    exact ⟨⟨le_sample _ _, fun t ht => le_trans (le_sample _ _) (h1 t ht)⟩, h1, h2⟩

end Scales.MonoClock

namespace Scales.Ema

/-- a weight `exp` can return for a time delta that is not negative is a weight: it lies in [0, 1] -/
theorem weightLegal_unit {dt w : Rat} (h : weightLegal dt w = true) (hdt : 0 ≤ dt) : 0 ≤ w ∧ w ≤ 1 := by
  unfold weightLegal at h
  simp only [Bool.and_eq_true, Bool.or_eq_true, Bool.not_eq_true', decide_eq_true_eq, decide_eq_false_iff_not] at h
  exact ⟨h.1.1, h.1.2.resolve_left (fun hn => hn hdt)⟩

/-- the distance to the sample shrinks by the factor `w` -/
theorem step_sub (w v x : Rat) : step w v x - x = (v - x) * w := by
  unfold step; ring

theorem step_between (w v x : Rat) (h0 : 0 ≤ w) (h1 : w ≤ 1) :
    min v x ≤ step w v x ∧ step w v x ≤ max v x := by
  unfold step
  constructor
  · rcases le_total v x with h | h
    · rw [min_eq_left h]; nlinarith
    · rw [min_eq_right h]; nlinarith
  · rcases le_total v x with h | h
    · rw [max_eq_right h]; nlinarith
    · rw [max_eq_left h]; nlinarith

theorem iter_sub (ws : List Rat) : ∀ (v x : Rat), iter v x ws - x = (v - x) * ws.prod := by
  induction ws with
  | nil => intro v x; simp [iter]
  | cons w ws ih =>
    intro v x
    simp only [iter, List.prod_cons]
    rw [ih, step_sub]; ring

theorem prod_bound (ws : List Rat) (w : Rat) (h : ∀ u ∈ ws, 0 ≤ u ∧ u ≤ w) :
    0 ≤ ws.prod ∧ ws.prod ≤ w ^ ws.length := by
  induction ws with
  | nil => simp
  | cons u us ih =>
    obtain ⟨hu0, huw⟩ := h u List.mem_cons_self
    obtain ⟨i0, i1⟩ := ih (fun t ht => h t (List.mem_cons_of_mem _ ht))
    simp only [List.prod_cons, List.length_cons, pow_succ]
    refine ⟨mul_nonneg hu0 i0, ?_⟩
    calc u * us.prod ≤ w * w ^ us.length := mul_le_mul huw i1 i0 (le_trans hu0 huw)
      _ = w ^ us.length * w := by ring

theorem iter_converges (ws : List Rat) (w v x : Rat) (h : ∀ u ∈ ws, 0 ≤ u ∧ u ≤ w) :
    |iter v x ws - x| ≤ w ^ ws.length * |v - x| := by
  obtain ⟨p0, p1⟩ := prod_bound ws w h
  rw [iter_sub, abs_mul, abs_of_nonneg p0, mul_comm]
  exact mul_le_mul_of_nonneg_right p1 (abs_nonneg _)

end Scales.Ema
