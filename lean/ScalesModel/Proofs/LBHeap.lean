import ScalesModel.Proofs.ApertureHeap
import ScalesModel.Proofs.LBSpec
import ScalesModel.Adapter.ApertureHeap

/-!
  C03/C04 on the balancers behind base.py's gate (components `aperture3`, `aperture4`,
  Adapter/ApertureHeap.lean): the heap invariant `HInv` holds after every operation of every legal
  operation list with fewer than 2^31−1 dispatches; the judge's state (`A3`) is the state of the model; the
  executable specifications `specC03A`, `specC04A` hold on every history of the model.
-/
namespace Scales.LB
open Scales.Heap Scales.Aperture Scales.LBBase

/-! ### the dispatch table, entry by entry (no invariant needed) -/

theorem newReqs_append (a b : List ResV) : newReqs (a ++ b) = newReqs a ++ newReqs b := by
  unfold newReqs; exact List.filterMap_append

theorem get_reqsF (cfg : Cfg) (a : AS) :
    (a.get cfg).1.hs.reqs = a.hs.reqs ++ newReqs [ResV.ofGet (a.get cfg).2] := by
  unfold AS.get
  by_cases h0 : a.hs.size = 0
  · simp only [h0, if_true]; simp [newReqs, ResV.ofGet]
  · simp only [h0, if_false]
    have h1 := getLoop_reqs cfg (a.hs.nodes.length + a.idle.length + 1) a
    have h2 : ∀ (x : HS) (nid : Nat) (n : Node) (i j : Nat), ((x.setNode nid n).fixDown i j).reqs = x.reqs := by
      intro x nid n i j; rw [fixDown_reqs, setNode_reqs]
    split
    · simp only [adjust_reqs, h2, h1]; simp [newReqs, ResV.ofGet]
    · simp only [h2, h1]; simp [newReqs, ResV.ofGet]

theorem get_len (cfg : Cfg) (a : AS) (h0 : a.hs.size ≠ 0) :
    (a.get cfg).1.hs.reqs.length = a.hs.reqs.length + 1 := by
  unfold AS.get
  simp only [h0, if_false]
  have h1 := getLoop_reqs cfg (a.hs.nodes.length + a.idle.length + 1) a
  have h2 : ∀ (x : HS) (nid : Nat) (n : Node) (i j : Nat), ((x.setNode nid n).fixDown i j).reqs = x.reqs := by
    intro x nid n i j; rw [fixDown_reqs, setNode_reqs]
  split
  · simp only [adjust_reqs, h2, h1, List.length_append, List.length_cons, List.length_nil]
  · simp only [h2, h1, List.length_append, List.length_cons, List.length_nil]

theorem put_reqsF (cfg : Cfg) (a : AS) (r j : Nat) (e : Env) :
    (a.put cfg r j).hs.reqs = reqsPut a.hs.reqs (.put r j e) := by
  have hR : reqsPut a.hs.reqs (.put r j e) =
      (match a.hs.reqs[r]? with
       | some (id, false) => a.hs.reqs.set r (id, true)
       | _ => a.hs.reqs) := rfl
  rw [hR]
  unfold AS.put
  cases hr : a.hs.reqs[r]? with
  | none => rfl
  | some p =>
    obtain ⟨nid, b⟩ := p
    cases b with
    | true => rfl
    | false =>
      simp only
      have hput : (a.hs.put r (putDraw a.hs nid j)).reqs = a.hs.reqs.set r (nid, true) := by
        unfold HS.put
        rw [hr]
        simp only [LB.putNode_reqs]
      split
      · rw [adjust_reqs]; exact hput
      · exact hput

theorem flush_reqsF (cfg : Cfg) (q : List (Option Bool)) : ∀ (a : AS),
    (flush (sub cfg) q a).1.hs.reqs = a.hs.reqs ++ newReqs ((flush (sub cfg) q a).2.map ResV.ofFlush) := by
  induction q with
  | nil => intro a; simp [flush, newReqs]
  | cons e q ih =>
    intro a
    unfold flush
    by_cases hl : live e = true
    · simp only [hl, if_true, sub_request, List.map_cons]
      rw [ih (a.get cfg).1, get_reqsF cfg a, List.append_assoc, ← newReqs_append]
      rfl
    · have hl' : live e = false := by simpa using hl
      simp only [hl', Bool.false_eq_true, if_false, List.map_cons]
      rw [ih a]
      congr 1

theorem finish_reqsF (cfg : Cfg) (lb : St) :
    (lb.finish (sub cfg)).1.sub.hs.reqs =
      lb.sub.hs.reqs ++ newReqs ((lb.finish (sub cfg)).2.map ResV.ofFlush) := by
  unfold LB.finish
  by_cases h0 : (sub cfg).openReady lb.sub = true ∧ lb.queued ≠ []
  · simp only [if_pos h0]
    simp only [sub_settle]
    rw [(settle_quiet cfg _).2]
    exact flush_reqsF cfg lb.queued lb.sub
  · simp only [if_neg h0]
    have q1 := settle_quiet cfg lb.sub
    by_cases hc : (sub cfg).openReady ((sub cfg).settle lb.sub) = true ∧ lb.queued ≠ []
    · simp only [if_pos hc]
      simp only [sub_settle]
      rw [(settle_quiet cfg _).2, flush_reqsF cfg lb.queued (lb.sub.settle cfg), q1.2]
    · simp only [if_neg hc]
      simp only [sub_settle]
      rw [q1.2]; simp [newReqs]

theorem act_reqsF (cfg : Cfg) (lb : St) (op : Op) :
    (act cfg lb op).1.sub.hs.reqs = reqsPut lb.sub.hs.reqs op ++ newReqs (act cfg lb op).2 := by
  have quiet : ∀ (lb' : St), Quiet lb.sub lb'.sub → lb'.sub.hs.reqs = lb.sub.hs.reqs ++ newReqs [] := by
    intro lb' q
    rw [q.2]; simp [newReqs]
  have req : ∀ (e : Env) (evt : Option Bool),
      ((feed lb e).request (sub cfg) evt).1.sub.hs.reqs = lb.sub.hs.reqs ++
        newReqs (match ((feed lb e).request (sub cfg) evt).2 with | some g => [ResV.ofGet g] | none => [.queued]) := by
    intro e evt
    unfold LB.request
    by_cases hr : (sub cfg).openReady (feed lb e).sub = true
    · simp only [if_pos hr, sub_request]
      exact get_reqsF cfg (feed lb e).sub
    · simp only [if_neg hr]
      simp [newReqs, feed]
  cases op with
  | opn => exact quiet _ (Quiet.refl _)
  | loaded l e => exact quiet _ ((feed_quiet lb e).trans (load_quiet cfg _ l))
  | join ep e => exact quiet _ ((feed_quiet lb e).trans (notify_quiet cfg _ _))
  | leave ep e => exact quiet _ ((feed_quiet lb e).trans (notify_quiet cfg _ _))
  | get e => exact req e none
  | getd e => exact req e (some false)
  | expire k =>
    simp only [act]
    cases hx : (feed lb ⟨[], []⟩).expire k with
    | none => exact quiet _ ⟨rfl, rfl⟩
    | some lb2 =>
      unfold LB.expire at hx
      split at hx
      · injection hx with hx; subst hx
        exact quiet _ ⟨rfl, rfl⟩
      · cases hx
  | chan nid s => exact quiet _ ((feed_quiet lb _).trans (setChan_quiet _ nid s))
  | opened nid ok e => exact quiet _ ((feed_quiet lb e).trans (opened_quiet cfg _ nid ok))
  | jitter e => exact quiet _ ((feed_quiet lb e).trans (jitterStart_quiet cfg _))
  | put r j e =>
    simp only [act, newReqs, List.filterMap_nil, List.append_nil]
    exact put_reqsF cfg (feed lb e).sub r j e

theorem newReqs_filter_ne (l : List ResV) : newReqs (l.filter (· ≠ .queued)) = newReqs l := by
  induction l with
  | nil => rfl
  | cons x xs ih =>
    cases x with
    | queued => simp [newReqs] at ih ⊢; exact ih
    | dropped => simp [newReqs] at ih ⊢; exact ih
    | noMembers => simp [newReqs] at ih ⊢; exact ih
    | node a b c => simp [newReqs] at ih ⊢; exact ih

theorem newReqs_filter_eq (l : List ResV) : newReqs (l.filter (· = .queued)) = [] := by
  induction l with
  | nil => rfl
  | cons x xs ih =>
    cases x with
    | queued => simp [newReqs] at ih ⊢; exact ih
    | dropped => simp [newReqs] at ih ⊢; exact ih
    | noMembers => simp [newReqs] at ih ⊢; exact ih
    | node a b c => simp [newReqs] at ih ⊢; exact ih

/-- one operation of the balancer: the dispatch table the judges rebuild from the history is the model's -/
theorem step_reqsF (cfg : Cfg) (lb : St) (op : Op) :
    (stepSt cfg lb op).1.sub.hs.reqs = reqsPut lb.sub.hs.reqs op ++ newReqs (stepSt cfg lb op).2 := by
  have a1 := act_reqsF cfg lb op
  have f1 := finish_reqsF cfg (act cfg lb op).1
  have q := tapesRead_quiet ((act cfg lb op).1.finish (sub cfg)).1
  unfold stepSt
  simp only
  rw [newReqs_append, newReqs_append, newReqs_filter_ne, newReqs_filter_eq, List.append_nil,
    ← List.append_assoc, ← a1, ← f1, q.2]

/-! ### requests that timed out while they waited for the open result

  `flush` drops them (C12's gate clause, Proofs/LBGate.lean), so on a history of the model no dispatch is
  entered as completed: the table the judges rebuild (`newReqsQ`) is `newReqs` of the results. -/

theorem lateReqs_of_dropOk : ∀ (q : List (Option Bool)) (rs : List ResV), dropOk q rs = true →
    lateReqs q rs = newReqs rs
  | [], rs, _ => by unfold lateReqs; rfl
  | _ :: _, [], _ => by unfold lateReqs; rfl
  | e :: q, r :: rs, h => by
    simp only [dropOk, Bool.and_eq_true, Bool.or_eq_true, decide_eq_true_eq] at h
    have ih := lateReqs_of_dropOk q rs h.2
    unfold lateReqs
    rw [ih]
    have hc : newReqs (r :: rs) = newReqs [r] ++ newReqs rs := newReqs_append [r] rs
    rw [hc]
    congr 1
    rcases h.1 with hl | hd
    · cases r <;> simp [newReqs, hl]
    · subst hd; rfl

theorem newReqsQ_of_gate (idx : Nat) (q : List (Option Bool)) (o : Obs) (h : gateAt 1 idx q o = .ok) :
    newReqsQ q o = newReqs o.res := by
  unfold newReqsQ
  by_cases hc : (o.queued == 0 && !q.isEmpty) = true
  · rw [if_pos hc]
    unfold gateAt at h
    rw [if_pos hc] at h
    have hd : dropOk q o.flushed = true := by
      cases hd : dropOk q o.flushed with
      | true => rfl
      | false => simp [hd] at h
    rw [lateReqs_of_dropOk _ _ hd]
    exact newReqs_filter_ne o.res
  · rw [if_neg hc]

/-- one operation of the model, as the judges see it: the waiting requests they rebuild are the model's, and
    no dispatch of the observation is entered as completed -/
theorem step_queue (cfg : Cfg) (lb : St) (op : Op) (hg : GInv lb) :
    GInv (stepSt cfg lb op).1 ∧
    newReqsQ (gateArrive lb.queued op (step cfg lb op).2) (step cfg lb op).2 = newReqs (stepSt cfg lb op).2 ∧
    gateNext (gateArrive lb.queued op (step cfg lb op).2) (step cfg lb op).2 = (stepSt cfg lb op).1.queued := by
  obtain ⟨g1, g2, g3⟩ := gate_step cfg lb op 1 0 hg
  exact ⟨g1, newReqsQ_of_gate 0 _ _ g2, g3⟩

theorem lateIds_newReqs (rs : List ResV) : lateIds (newReqs rs) = [] := by
  unfold lateIds newReqs
  induction rs with
  | nil => rfl
  | cons r rs ih => cases r <;> simpa using ih

theorem reqsPut_length (reqs : List (Nat × Bool)) (op : Op) : (reqsPut reqs op).length = reqs.length := by
  unfold reqsPut
  cases op <;> try rfl
  rename_i r j e
  simp only
  split <;> simp

theorem step_reqs_mono (cfg : Cfg) (lb : St) (op : Op) :
    lb.sub.hs.reqs.length ≤ (stepSt cfg lb op).1.sub.hs.reqs.length := by
  rw [step_reqsF, List.length_append, reqsPut_length]; omega

theorem run_reqs_mono (cfg : Cfg) (ops : List Op) : ∀ (lb : St),
    lb.sub.hs.reqs.length ≤ (runSt cfg lb ops).sub.hs.reqs.length := by
  induction ops with
  | nil => intro lb; exact le_refl _
  | cons op ops ih => intro lb; exact le_trans (step_reqs_mono cfg lb op) (ih _)

/-! ### `HInv` through base.py -/

theorem withServers_keep {a : AS} (h : HInv a.hs) (l : List Nat) : Keep a (withServers a l) := by
  have e : SameStore a.hs (withServers a l).hs := ⟨rfl, rfl⟩
  exact ⟨⟨e.wf h.wf, by rw [e.L_eq, e.size]; exact h.ord, h.book.sameStore e rfl, h.down.sameStore e⟩,
    ChExt.of_eq rfl⟩

theorem addServer_keep {cfg : Cfg} {a : AS} (f : Full cfg a) (h : HInv a.hs) (ep : Nat) :
    Keep a (addServer (sub cfg) a ep) := by
  unfold addServer
  simp only [sub_servers, sub_onAdd, sub_setServers]
  by_cases hm : ep ∈ a.hs.servers
  · simp only [hm, if_true]; exact Keep.refl h
  · simp only [hm, if_false]
    have k1 := withServers_keep h (a.hs.servers ++ [ep])
    have hep : ep ∉ heapEps (withServers a (a.hs.servers ++ [ep])).hs := by
      intro hc
      apply hm
      rw [← f.part]
      unfold E
      exact List.mem_append_left _ hc
    exact k1.trans (addSink_keep cfg k1.hinv ep hep)

theorem removeServer_keep {cfg : Cfg} {a : AS} (f : Full cfg a) (h : HInv a.hs) (ep : Nat) :
    Keep a (removeServer (sub cfg) a ep) := by
  unfold removeServer
  simp only [sub_servers, sub_onRemove, sub_setServers]
  have k1 := withServers_keep h (a.hs.servers.filter (· ≠ ep))
  have hd : Disj (withServers a (a.hs.servers.filter (· ≠ ep))) := f.inv.disj
  exact k1.trans (removeSink_keep cfg k1.hinv hd ep)

theorem applyNotif_keep {cfg : Cfg} {a : AS} (f : Full cfg a) (h : HInv a.hs) (n : Notif) :
    Keep a (applyNotif (sub cfg) a n) := by
  cases n with
  | join ep => exact addServer_keep f h ep
  | leave ep => exact removeServer_keep f h ep

theorem foldl_applyNotif_keep {cfg : Cfg} (ns : List Notif) : ∀ {a : AS}, Full cfg a → HInv a.hs →
    Keep a (ns.foldl (applyNotif (sub cfg)) a) := by
  induction ns with
  | nil => intro a _ h; exact Keep.refl h
  | cons n ns ih =>
    intro a f h
    have k := applyNotif_keep f h n
    exact k.trans (ih (applyNotif_full f n) k.hinv)

theorem foldl_addServer_keep {cfg : Cfg} (l : List Nat) : ∀ {a : AS}, Full cfg a → HInv a.hs →
    Keep a (l.foldl (addServer (sub cfg)) a) := by
  induction l with
  | nil => intro a _ h; exact Keep.refl h
  | cons n ns ih =>
    intro a f h
    have k := addServer_keep f h n
    exact k.trans (ih (addServer_full f n).1 k.hinv)

theorem load_keep (cfg : Cfg) (lb : St) (f : Full cfg lb.sub) (hs : lb.sub.hs.servers = []) (h : HInv lb.sub.hs)
    (l : List Nat) : Keep lb.sub (lb.load (sub cfg) l).sub := by
  unfold LB.load loadInitial
  simp only [sub_setServers, sub_openInitial]
  have f0 := f.withServers_nil hs
  have k0 := withServers_keep h []
  have f1 := foldl_addServer_full (cfg := cfg) l f0
  have k1 := foldl_addServer_keep (cfg := cfg) l f0 k0.hinv
  have s2 := openInitial_spec cfg f1.inv
  have f2 := f1.stable s2
  have k2 := openInitial_keep cfg k1.hinv
  have k3 := foldl_applyNotif_keep (cfg := cfg) lb.blocked f2 k2.hinv
  exact ((k0.trans k1).trans k2).trans k3

theorem notify_keep (cfg : Cfg) (lb : St) (f : Full cfg lb.sub) (h : HInv lb.sub.hs) (n : Notif) :
    Keep lb.sub (lb.notify (sub cfg) n).sub := by
  unfold LB.notify
  cases hi : lb.initDone
  · simp only [Bool.false_eq_true, if_false]; exact Keep.refl h
  · simp only [if_true]; exact applyNotif_keep f h n

theorem get_keep (cfg : Cfg) {a : AS} (inv : PInv cfg a) (h : HInv a.hs)
    (hb : (a.get cfg).1.hs.reqs.length < maxReqs) : Keep a (a.get cfg).1 := by
  obtain ⟨i, c, _, _⟩ := get_ok cfg inv h (fun hsz => by rw [← get_len cfg a hsz]; exact hb)
  exact ⟨i, c⟩

theorem flush_keep (cfg : Cfg) (q : List (Option Bool)) : ∀ {a : AS}, PInv cfg a → HInv a.hs →
    (flush (sub cfg) q a).1.hs.reqs.length < maxReqs → Keep a (flush (sub cfg) q a).1 := by
  induction q with
  | nil => intro a _ h _; exact Keep.refl h
  | cons e q ih =>
    intro a inv h hb
    unfold flush at hb ⊢
    split
    · simp only [sub_request] at hb ⊢
      rename_i hl
      simp only [hl, if_true] at hb
      have hb1 : (a.get cfg).1.hs.reqs.length < maxReqs := by
        have := flush_reqsF cfg q (a.get cfg).1
        rw [this, List.length_append] at hb
        omega
      have k1 := get_keep cfg inv h hb1
      obtain ⟨s1, _⟩ := get_spec cfg inv
      exact k1.trans (ih s1.inv k1.hinv hb)
    · rename_i hl
      simp only [hl, if_false] at hb
      exact ih inv h hb

theorem finish_keep (cfg : Cfg) (lb : St) (inv : PInv cfg lb.sub) (h : HInv lb.sub.hs)
    (hb : (lb.finish (sub cfg)).1.sub.hs.reqs.length < maxReqs) : Keep lb.sub (lb.finish (sub cfg)).1.sub := by
  unfold LB.finish at hb ⊢
  by_cases h0 : (sub cfg).openReady lb.sub = true ∧ lb.queued ≠ []
  · simp only [if_pos h0] at hb ⊢
    simp only [sub_settle] at hb ⊢
    rw [(settle_quiet cfg _).2] at hb
    have k1 := flush_keep cfg lb.queued inv h hb
    exact k1.trans (settle_keep cfg k1.hinv)
  · simp only [if_neg h0] at hb ⊢
    have k1 := settle_keep cfg h
    have s1 := settle_spec cfg inv
    by_cases hc : (sub cfg).openReady ((sub cfg).settle lb.sub) = true ∧ lb.queued ≠ []
    · simp only [if_pos hc] at hb ⊢
      simp only [sub_settle] at hb ⊢
      rw [(settle_quiet cfg _).2] at hb
      have k2 := flush_keep cfg lb.queued s1.inv k1.hinv hb
      exact (k1.trans k2).trans (settle_keep cfg k2.hinv)
    · simp only [if_neg hc]
      exact k1

/-! ### the judge's state is the model's state -/

structure Sim3 (a3 : A3) (s : HS) : Prop where
  heap : a3.heap = s.heap
  known : ∀ id, id ∈ a3.known ↔ id < s.nodes.length
  reqs : a3.reqs = s.reqs
  chan : ∀ id, a3.chanOf id = (chans s).getD id 1

theorem Sim3.init : Sim3 {} HS.init :=
  ⟨rfl, fun id => by simp [HS.init], rfl, fun id => by simp [A3.chanOf, chans, HS.init]⟩

theorem outCnt_eq (reqs : List (Nat × Bool)) (id : Nat) : outCnt reqs id = outL reqs id := rfl

/-- the verdict on a dispatch that `_AsyncProcessRequestImpl` made in state `s` -/
theorem c03Dispatch_ok {a3 : A3} {s : HS} (sim : Sim3 a3 s) (h : HInv s) (idx : Nat) (g : GetRes)
    (h0 : g = .noMembers ↔ s.size = 0)
    (h1 : ∀ nid ep r, g = .node nid ep r →
      s.size ≠ 0 ∧ (InHeap s nid ∨ s.nodes.length ≤ nid) ∧
      ((∃ m, InHeap s m ∧ (s.node m).chan = chOpen) →
        InHeap s nid ∧ (s.node nid).chan = chOpen ∧
        ∀ m, InHeap s m → (s.node m).chan = chOpen → outOf s nid ≤ outOf s m)) :
    c03Dispatch a3 idx (ResV.ofGet g) = .ok := by
  have hopen : ∀ m, InHeap s m → (a3.isOpen m = true ↔ (s.node m).chan = chOpen) := by
    intro m hm
    unfold A3.isOpen
    rw [sim.chan m, ← node_chan s m (inHeap_lt s h.wf m hm)]
    simp
  cases g with
  | noMembers =>
    have hz := h0.1 rfl
    simp only [ResV.ofGet, c03Dispatch]
    have : a3.heap.isEmpty = true := by
      rw [sim.heap]
      unfold HS.size at hz
      simpa using hz
    simp [this]
  | node nid ep r =>
    obtain ⟨_, hmem, hch⟩ := h1 nid ep r rfl
    simp only [ResV.ofGet, c03Dispatch]
    have hm1 : (!a3.heap.contains nid && a3.known.contains nid) = false := by
      rcases hmem with hin | hnew
      · have : nid ∈ a3.heap := by rw [sim.heap]; exact (mem_heap_iff s nid).2 hin
        simp [this]
      · have : nid ∉ a3.known := by rw [sim.known]; omega
        simp [this]
    rw [hm1]
    simp only [Bool.false_eq_true, if_false]
    by_cases he : a3.opens.isEmpty = true
    · simp [he]
    · simp only [he, if_false]
      have hex : ∃ m, InHeap s m ∧ (s.node m).chan = chOpen := by
        have : a3.opens ≠ [] := by simpa using he
        obtain ⟨m, hm⟩ := List.exists_mem_of_ne_nil _ this
        unfold A3.opens at hm
        rw [List.mem_filter, sim.heap] at hm
        have hin := (mem_heap_iff s m).1 hm.1
        exact ⟨m, hin, (hopen m hin).1 hm.2⟩
      obtain ⟨hin, hop, hmin⟩ := hch hex
      have c1 : (a3.heap.contains nid && a3.isOpen nid) = true := by
        have : nid ∈ a3.heap := by rw [sim.heap]; exact (mem_heap_iff s nid).2 hin
        simp [this, (hopen nid hin).2 hop]
      rw [c1]
      simp only [Bool.not_true, Bool.false_eq_true, if_false]
      have c2 : a3.opens.all (fun m => decide (outCnt a3.reqs nid ≤ outCnt a3.reqs m)) = true := by
        rw [List.all_eq_true]
        intro m hm
        unfold A3.opens at hm
        rw [List.mem_filter, sim.heap] at hm
        have hinm := (mem_heap_iff s m).1 hm.1
        have := hmin m hinm ((hopen m hinm).1 hm.2)
        rw [sim.reqs, decide_eq_true_eq]
        exact this
      rw [c2]
      simp

/-! ### one operation -/

/-- what an operation does to the channel states, before the hub runs -/
def chansAct (c : List Nat) : Op → List Nat
  | .chan nid st => if nid < c.length ∧ 1 ≤ st ∧ st ≤ 4 then c.set nid st else c
  | _ => c

theorem chext_act {s s' : HS} {op : Op} (h : ChExt s s') (hop : ∀ nid st, op ≠ .chan nid st) :
    ∃ k, chans s' = chansAct (chans s) op ++ List.replicate k 1 := by
  obtain ⟨k, e⟩ := h
  refine ⟨k, ?_⟩
  rw [e]
  cases op <;> first | rfl | exact absurd rfl (hop _ _)

theorem _root_.Scales.Aperture.Keep.left {a b a' : AS} (k : Keep b a') (e : b.hs = a.hs) : Keep a a' :=
  ⟨k.hinv, by rw [← e]; exact k.ch⟩

theorem keep_fin {lb : St} {op : Op} (lb' : St) (k : Keep lb.sub lb'.sub) (hop : ∀ nid st, op ≠ .chan nid st) :
    HInv lb'.sub.hs ∧ (∃ k, chans lb'.sub.hs = chansAct (chans lb.sub.hs) op ++ List.replicate k 1) :=
  ⟨k.hinv, chext_act k.ch hop⟩

theorem act_expire_hs (cfg : Cfg) (lb : St) (k : Nat) : (act cfg lb (.expire k)).1.sub.hs = lb.sub.hs := by
  simp only [act]
  cases hx : (feed lb ⟨[], []⟩).expire k with
  | none => rfl
  | some lb2 =>
    unfold LB.expire at hx
    split at hx
    · injection hx with hx; subst hx; rfl
    · cases hx

theorem act_keep (cfg : Cfg) (lb : St) (op : Op) (f : Full cfg lb.sub)
    (hpre : lb.initDone = false → lb.sub.hs.servers = [])
    (hload : ∀ l e, op = .loaded l e → lb.initDone = false) (h : HInv lb.sub.hs)
    (hb : (act cfg lb op).1.sub.hs.reqs.length < maxReqs) :
    HInv (act cfg lb op).1.sub.hs ∧
    (∃ k, chans (act cfg lb op).1.sub.hs = chansAct (chans lb.sub.hs) op ++ List.replicate k 1) := by
  have req : ∀ (e : Env) (evt : Option Bool),
      ((feed lb e).request (sub cfg) evt).1.sub.hs.reqs.length < maxReqs →
      Keep lb.sub ((feed lb e).request (sub cfg) evt).1.sub := by
    intro e evt hb
    unfold LB.request at hb ⊢
    by_cases hr : (sub cfg).openReady (feed lb e).sub = true
    · simp only [if_pos hr, sub_request] at hb ⊢
      exact (get_keep cfg (f.feed e).inv (a := (feed lb e).sub) h hb).left rfl
    · simp only [if_neg hr]
      exact Keep.of_same h rfl
  cases op with
  | opn => exact keep_fin lb.start (Keep.refl h) (by intro _ _ hc; cases hc)
  | loaded l e =>
    have hi := hload l e rfl
    exact keep_fin _ ((load_keep cfg (feed lb e) (f.feed e) (hpre hi) h l).left rfl) (by intro _ _ hc; cases hc)
  | join ep e =>
    exact keep_fin _ ((notify_keep cfg (feed lb e) (f.feed e) h (.join ep)).left rfl) (by intro _ _ hc; cases hc)
  | leave ep e =>
    exact keep_fin _ ((notify_keep cfg (feed lb e) (f.feed e) h (.leave ep)).left rfl) (by intro _ _ hc; cases hc)
  | get e => exact keep_fin _ (req e none hb) (by intro _ _ hc; cases hc)
  | getd e => exact keep_fin _ (req e (some false) hb) (by intro _ _ hc; cases hc)
  | expire k => exact keep_fin _ (Keep.of_same h (act_expire_hs cfg lb k)) (by intro _ _ hc; cases hc)
  | put r j e =>
    obtain ⟨i, c⟩ := put_hinv cfg (f.feed e).inv (a := (feed lb e).sub) h r j
    exact keep_fin (lb := lb) { feed lb e with sub := (feed lb e).sub.put cfg r j } ⟨i, c⟩ (by intro _ _ hc; cases hc)
  | opened nid ok e =>
    exact keep_fin (lb := lb) { feed lb e with sub := (feed lb e).sub.opened cfg nid ok }
      ((opened_keep cfg (a := (feed lb e).sub) h (f.feed e).inv.disj nid ok).left rfl) (by intro _ _ hc; cases hc)
  | jitter e =>
    exact keep_fin (lb := lb) { feed lb e with sub := (feed lb e).sub.jitterStart cfg }
      ((jitterStart_keep cfg (a := (feed lb e).sub) h (f.feed e).inv.disj).left rfl) (by intro _ _ hc; cases hc)
  | chan nid st =>
    simp only [act, chansAct]
    refine ⟨setChan_hinv (a := (feed lb ⟨[], []⟩).sub) h nid st, 0, ?_⟩
    simp only [List.replicate_zero, List.append_nil]
    show chans ((feed lb ⟨[], []⟩).sub.setChan nid st).hs = _
    unfold AS.setChan
    rw [chans_len]
    have e0 : (feed lb ⟨[], []⟩).sub.hs = lb.sub.hs := rfl
    rw [e0]
    split
    · exact chans_setChan lb.sub.hs nid st
    · rfl

/-- one operation: the heap invariant again, the channel states as the judge tracks them, and C03's verdict on
    the request of the operation -/
theorem step_keep (cfg : Cfg) (lb : St) (op : Op) (f : Full cfg lb.sub)
    (hpre : lb.initDone = false → lb.sub.hs.servers = [])
    (hload : ∀ l e, op = .loaded l e → lb.initDone = false) (h : HInv lb.sub.hs)
    (hb : (stepSt cfg lb op).1.sub.hs.reqs.length < maxReqs) :
    HInv (stepSt cfg lb op).1.sub.hs ∧
    (∃ k, chans (stepSt cfg lb op).1.sub.hs = chansAct (chans lb.sub.hs) op ++ List.replicate k 1) := by
  have q := tapesRead_quiet ((act cfg lb op).1.finish (sub cfg)).1
  have hbF : ((act cfg lb op).1.finish (sub cfg)).1.sub.hs.reqs.length < maxReqs := by
    rw [← q.2]; exact hb
  have hbA : (act cfg lb op).1.sub.hs.reqs.length < maxReqs := by
    have := finish_reqsF cfg (act cfg lb op).1
    rw [this, List.length_append] at hbF
    omega
  obtain ⟨i1, k1, c1⟩ := act_keep cfg lb op f hpre hload h hbA
  obtain ⟨f1, _, _⟩ := act_spec cfg lb op f hpre hload
  have k2 := finish_keep cfg (act cfg lb op).1 f1.inv i1 hbF
  have e3 := (tapesRead_sub ((act cfg lb op).1.finish (sub cfg)).1).1
  unfold stepSt
  simp only
  rw [e3]
  refine ⟨k2.hinv, ?_⟩
  obtain ⟨k', c2⟩ := k2.ch
  exact ⟨k1 + k', by rw [c2, c1, List.append_assoc, List.replicate_add]⟩

theorem c03Step_ok (cfg : Cfg) (lb : St) (op : Op) (f : Full cfg lb.sub) (h : HInv lb.sub.hs)
    (hb : (stepSt cfg lb op).1.sub.hs.reqs.length < maxReqs) (a3 : A3) (idx : Nat) (sim : Sim3 a3 lb.sub.hs) :
    c03Step a3 idx op (step cfg lb op).2 = .ok := by
  have q := tapesRead_quiet ((act cfg lb op).1.finish (sub cfg)).1
  have hbF : ((act cfg lb op).1.finish (sub cfg)).1.sub.hs.reqs.length < maxReqs := by
    rw [← q.2]; exact hb
  have hbA : (act cfg lb op).1.sub.hs.reqs.length < maxReqs := by
    have := finish_reqsF cfg (act cfg lb op).1
    rw [this, List.length_append] at hbF
    omega
  have hres : (step cfg lb op).2.res = (act cfg lb op).2.filter (· ≠ .queued) ++
      ((act cfg lb op).1.finish (sub cfg)).2.map ResV.ofFlush ++ (act cfg lb op).2.filter (· = .queued) := rfl
  have req : ∀ (e : Env) (evt : Option Bool), (op = .get e ∧ evt = none) ∨ (op = .getd e ∧ evt = some false) →
      (act cfg lb op).2 = (match ((feed lb e).request (sub cfg) evt).2 with | some g => [ResV.ofGet g] | none => [.queued]) →
      (act cfg lb op).1 = ((feed lb e).request (sub cfg) evt).1 →
      (if (step cfg lb op).2.res.contains .queued then none else (step cfg lb op).2.res.head?) = none ∨
      ∃ r, (if (step cfg lb op).2.res.contains .queued then none else (step cfg lb op).2.res.head?) = some r ∧
        c03Dispatch a3 idx r = .ok := by
    intro e evt _ h2 h1
    rw [hres, h2]
    rw [h1] at hbA
    unfold LB.request at hbA ⊢
    by_cases hr : (sub cfg).openReady (feed lb e).sub = true
    · simp only [if_pos hr, sub_request] at hbA ⊢
      obtain ⟨_, _, g0, g1⟩ := get_ok cfg (f.feed e).inv (a := (feed lb e).sub) h
        (fun hsz => by rw [← get_len cfg _ hsz]; exact hbA)
      have hd := c03Dispatch_ok (a3 := a3) (s := (feed lb e).sub.hs) sim h idx ((feed lb e).sub.get cfg).2 g0 g1
      have hne := ofGet_ne_queued ((feed lb e).sub.get cfg).2
      have hfl : [ResV.ofGet ((feed lb e).sub.get cfg).2].filter (· ≠ .queued) = [ResV.ofGet ((feed lb e).sub.get cfg).2] := by
        simp [hne]
      rw [hfl]
      split
      · exact Or.inl rfl
      · exact Or.inr ⟨_, rfl, hd⟩
    · simp only [if_neg hr]
      left
      have : (([ResV.queued].filter (· ≠ .queued)) ++
          ((act cfg lb op).1.finish (sub cfg)).2.map ResV.ofFlush ++ [ResV.queued].filter (· = .queued)).contains .queued = true := by
        simp
      rw [this]; rfl
  unfold c03Step judged
  cases op with
  | get e =>
    simp only
    rcases req e none (Or.inl ⟨rfl, rfl⟩) rfl rfl with hn | ⟨r, hs, hv⟩
    · rw [hn]
    · rw [hs]; exact hv
  | getd e =>
    simp only
    rcases req e (some false) (Or.inr ⟨rfl, rfl⟩) rfl rfl with hn | ⟨r, hs, hv⟩
    · rw [hn]
    · rw [hs]; exact hv
  | _ => rfl

/-! ### the judge's state after an operation -/

theorem getD_ext (c : List Nat) (k id : Nat) : (c ++ List.replicate k 1).getD id 1 = c.getD id 1 := by
  simp only [List.getD_eq_getElem?_getD, List.getElem?_append]
  split
  · rfl
  · rename_i hl
    have hr : c[id]? = none := List.getElem?_eq_none (by omega)
    rw [hr, List.getElem?_replicate]
    split <;> rfl

theorem chanOf_cons (a3 : A3) (nid st id : Nat) :
    ({ a3 with chans := (nid, st) :: a3.chans } : A3).chanOf id = if nid = id then st else a3.chanOf id := by
  unfold A3.chanOf
  simp only [List.find?_cons]
  by_cases e : nid = id
  · simp [e]
  · have : (nid == id) = false := by simpa using e
    simp [this, e]

theorem sim_step (cfg : Cfg) (lb : St) (op : Op) (a3 : A3) (sim : Sim3 a3 lb.sub.hs)
    (hq : a3.q = lb.queued) (hg : GInv lb)
    (hw : WF (stepSt cfg lb op).1.sub.hs)
    (hc : ∃ k, chans (stepSt cfg lb op).1.sub.hs = chansAct (chans lb.sub.hs) op ++ List.replicate k 1) :
    Sim3 (a3.after op (step cfg lb op).2) (stepSt cfg lb op).1.sub.hs := by
  set st := (stepSt cfg lb op).1 with hst
  have hheap : (step cfg lb op).2.heap.map (·.id) = st.sub.hs.heap := by
    show (st.sub.hs.heap.map (viewOf st.sub)).map (·.id) = _
    rw [List.map_map]
    exact List.map_id' _
  have hoff : (step cfg lb op).2.off.map (·.id) =
      (List.range st.sub.hs.nodes.length).filter (fun id => !st.sub.hs.heap.contains id) := by
    show (((List.range st.sub.hs.nodes.length).filter (fun id => !st.sub.hs.heap.contains id)).map (viewOf st.sub)).map
      (·.id) = _
    rw [List.map_map]
    exact List.map_id' _
  refine ⟨hheap, ?_, ?_, ?_⟩
  · intro id
    show id ∈ (step cfg lb op).2.heap.map (·.id) ++ (step cfg lb op).2.off.map (·.id) ↔ _
    rw [hheap, hoff, List.mem_append, List.mem_filter, List.mem_range]
    constructor
    · rintro (hm | ⟨hl, _⟩)
      · exact inHeap_lt _ hw id ((mem_heap_iff _ id).1 hm)
      · exact hl
    · intro hl
      by_cases hm : id ∈ st.sub.hs.heap
      · exact Or.inl hm
      · exact Or.inr ⟨hl, by simpa using hm⟩
  · show reqsPut a3.reqs op ++ newReqsQ (gateArrive a3.q op (step cfg lb op).2) (step cfg lb op).2 = _
    rw [sim.reqs, hq, (step_queue cfg lb op hg).2.1]
    exact (step_reqsF cfg lb op).symm
  · intro id
    obtain ⟨k, e⟩ := hc
    rw [e, getD_ext]
    show ({ heap := _, known := _, reqs := _, chans := chansAfter a3 op, q := _ } : A3).chanOf id = _
    cases op with
    | chan nid s =>
      simp only [chansAfter, chansAct]
      have hk : a3.known.contains nid = true ↔ nid < (chans lb.sub.hs).length := by
        rw [chans_len, ← sim.known]; simp
      by_cases hv : nid < (chans lb.sub.hs).length ∧ 1 ≤ s ∧ s ≤ 4
      · have hcond : (a3.known.contains nid && decide (1 ≤ s ∧ s ≤ 4)) = true := by
          rw [hk.2 hv.1]; simp [hv.2.1, hv.2.2]
        rw [if_pos hv, if_pos hcond]
        have := chanOf_cons a3 nid s id
        unfold A3.chanOf at this ⊢
        simp only at this ⊢
        rw [this]
        simp only [List.getD_eq_getElem?_getD, List.getElem?_set]
        by_cases e' : nid = id
        · subst e'
          simp [hv.1]
        · simp only [e', if_false]
          have := sim.chan id
          unfold A3.chanOf at this
          simpa [List.getD_eq_getElem?_getD] using this
      · have hcond : ¬ (a3.known.contains nid && decide (1 ≤ s ∧ s ≤ 4)) = true := by
          intro hc'
          simp only [Bool.and_eq_true, decide_eq_true_eq] at hc'
          exact hv ⟨hk.1 hc'.1, hc'.2⟩
        rw [if_neg hv, if_neg hcond]
        exact sim.chan id
    | _ => exact sim.chan id

theorem after_q (cfg : Cfg) (lb : St) (op : Op) (a3 : A3) (hq : a3.q = lb.queued) (hg : GInv lb) :
    (a3.after op (step cfg lb op).2).q = (stepSt cfg lb op).1.queued := by
  show gateNext (gateArrive a3.q op (step cfg lb op).2) (step cfg lb op).2 = _
  rw [hq]
  exact (step_queue cfg lb op hg).2.2

/-! ### every history of the model satisfies `specC03A` -/

theorem specC03A_trace (cfg : Cfg) (ops : List Op) : ∀ (p : Proto) (lb : St) (a3 : A3) (idx : Nat),
    RInv cfg p lb → HInv lb.sub.hs → Sim3 a3 lb.sub.hs → a3.q = lb.queued → GInv lb → protoOk p ops = true →
    (runSt cfg lb ops).sub.hs.reqs.length < maxReqs →
    specC03AGo a3 idx (comp3A.trace cfg lb ops) = .ok := by
  induction ops with
  | nil => intro p lb a3 idx _ _ _ _ _ _ _; rfl
  | cons op ops ih =>
    intro p lb a3 idx h hi sim hq hg hp hb
    simp only [protoOk] at hp
    cases hps : protoStep p op with
    | none => rw [hps] at hp; cases hp
    | some p' =>
      rw [hps] at hp
      have hload : ∀ l e, op = .loaded l e → lb.initDone = false := by
        rintro l e rfl
        simp only [protoStep] at hps
        split at hps
        · rename_i hc; exact (h.p1 hc.1).1
        · cases hps
      obtain ⟨h', _, _⟩ := h.step op hps
      have hb1 : (stepSt cfg lb op).1.sub.hs.reqs.length < maxReqs :=
        lt_of_le_of_lt (run_reqs_mono cfg ops _) hb
      obtain ⟨i1, c1⟩ := step_keep cfg lb op h.full h.pre hload hi hb1
      have v1 := c03Step_ok cfg lb op h.full hi hb1 a3 idx sim
      have s1 := sim_step cfg lb op a3 sim hq hg i1.wf c1
      simp only [TComp.trace]
      show specC03AGo a3 idx ((op, (step cfg lb op).2) :: comp3A.trace cfg (step cfg lb op).1 ops) = .ok
      simp only [specC03AGo]
      rw [v1, Verdict.ok_and]
      exact ih p' _ _ (idx + 1) h' i1 s1 (after_q cfg lb op a3 hq hg) (step_queue cfg lb op hg).1 hp hb

theorem run_HInv (cfg : Cfg) (ops : List Op) : ∀ (p : Proto) (lb : St), RInv cfg p lb → HInv lb.sub.hs →
    protoOk p ops = true → (runSt cfg lb ops).sub.hs.reqs.length < maxReqs →
    HInv (runSt cfg lb ops).sub.hs ∧ ∃ p', RInv cfg p' (runSt cfg lb ops) := by
  induction ops with
  | nil => intro p lb h hi _ _; exact ⟨hi, p, h⟩
  | cons op ops ih =>
    intro p lb h hi hp hb
    simp only [protoOk] at hp
    cases hps : protoStep p op with
    | none => rw [hps] at hp; cases hp
    | some p' =>
      rw [hps] at hp
      have hload : ∀ l e, op = .loaded l e → lb.initDone = false := by
        rintro l e rfl
        simp only [protoStep] at hps
        split at hps
        · rename_i hc; exact (h.p1 hc.1).1
        · cases hps
      obtain ⟨h', _, _⟩ := h.step op hps
      have hb1 : (stepSt cfg lb op).1.sub.hs.reqs.length < maxReqs :=
        lt_of_le_of_lt (run_reqs_mono cfg ops _) hb
      obtain ⟨i1, _⟩ := step_keep cfg lb op h.full h.pre hload hi hb1
      exact ih p' _ h' i1 hp hb

theorem HInv_init : HInv HS.init := HInv.of_inv' Inv_init

theorem wfH_iff (cfg : Cfg) (ops : List Op) :
    wfH cfg ops = true ↔ wf cfg ops = true ∧ (runSt cfg (init cfg) ops).sub.hs.reqs.length < maxReqs := by
  unfold wfH maxReqs
  simp

/-! ### C04 on the same balancers -/

theorem c04View_ok {s : HS} (h : HInv s) (a : AS) (ha : a.hs = s) (id : Nat) (hl : id < s.nodes.length)
    (b : Bool) (hb : b = true ↔ InHeap s id) :
    c04View s.reqs b (viewOf a id) = true := by
  obtain ⟨a1, a2, a3, _⟩ := h.book.pen_iff id hl
  have hload : (viewOf a id).load = (s.node id).load := by unfold viewOf; rw [ha]
  have hclosed : (viewOf a id).closed = (s.node id).closed := by unfold viewOf; rw [ha]
  have hid : (viewOf a id).id = id := rfl
  unfold c04View relLoadNV
  rw [hload, hclosed, hid, outCnt_eq]
  have e1 : (if (s.node id).load ≥ 0 then (s.node id).load else (s.node id).load - Idle) = (outL s.reqs id : Int) := by
    by_cases hp : (s.node id).load ≥ 0
    · rw [if_pos hp]; exact a1.mp hp
    · rw [if_neg hp]
      have := a2.mp (by omega)
      unfold outOf at this
      omega
  rw [e1]
  have e2 : decide ((s.node id).load ≥ Idle) = true := by rw [decide_eq_true_eq]; exact a3
  rw [e2]
  simp only [decide_true, Bool.true_and]
  cases b with
  | true =>
    have hin := hb.1 rfl
    simp only [if_true]
    rw [h.book.closedIn id hin]; rfl
  | false =>
    have hin : ¬ InHeap s id := fun hc => by have := hb.2 hc; cases this
    simp only [Bool.false_eq_true, if_false]
    rw [h.book.closedOff id hl hin]
    unfold outOf
    simp

theorem c04AAt_ok (lb : St) (res : List ResV) (h : HInv lb.sub.hs) (late : List Nat) (idx : Nat) :
    c04AAt late lb.sub.hs.reqs idx (obsOf lb res) = .ok := by
  unfold c04AAt
  have h1 : (obsOf lb res).heap.find? (fun v => !c04View lb.sub.hs.reqs true v) = none := by
    rw [List.find?_eq_none]
    intro v hv
    have hv' : v ∈ lb.sub.hs.heap.map (viewOf lb.sub) := hv
    obtain ⟨id, hid, rfl⟩ := List.mem_map.1 hv'
    have hin := (mem_heap_iff _ id).1 hid
    have := c04View_ok h lb.sub rfl id (inHeap_lt _ h.wf id hin) true ⟨fun _ => hin, fun _ => rfl⟩
    rw [this]; simp
  rw [h1]
  simp only
  have h2 : (obsOf lb res).off.find? (fun v => !c04View lb.sub.hs.reqs false v) = none := by
    rw [List.find?_eq_none]
    intro v hv
    have hv' : v ∈ ((List.range lb.sub.hs.nodes.length).filter (fun id => !lb.sub.hs.heap.contains id)).map
        (viewOf lb.sub) := hv
    obtain ⟨id, hid, rfl⟩ := List.mem_map.1 hv'
    rw [List.mem_filter, List.mem_range] at hid
    have hnin : ¬ InHeap lb.sub.hs id := by
      intro hc
      have := (mem_heap_iff _ id).2 hc
      simp [this] at hid
    have := c04View_ok h lb.sub rfl id hid.1 false ⟨(fun hc => by cases hc), fun hc => absurd hc hnin⟩
    rw [this]; simp
  rw [h2]

theorem specC04A_trace (cfg : Cfg) (ops : List Op) : ∀ (p : Proto) (lb : St) (idx : Nat),
    RInv cfg p lb → HInv lb.sub.hs → GInv lb → protoOk p ops = true →
    (runSt cfg lb ops).sub.hs.reqs.length < maxReqs →
    specC04AGo lb.sub.hs.reqs lb.queued idx (comp4A.trace cfg lb ops) = .ok := by
  induction ops with
  | nil => intro p lb idx _ _ _ _ _; rfl
  | cons op ops ih =>
    intro p lb idx h hi hg hp hb
    simp only [protoOk] at hp
    cases hps : protoStep p op with
    | none => rw [hps] at hp; cases hp
    | some p' =>
      rw [hps] at hp
      have hload : ∀ l e, op = .loaded l e → lb.initDone = false := by
        rintro l e rfl
        simp only [protoStep] at hps
        split at hps
        · rename_i hc; exact (h.p1 hc.1).1
        · cases hps
      obtain ⟨h', _, _⟩ := h.step op hps
      have hb1 : (stepSt cfg lb op).1.sub.hs.reqs.length < maxReqs :=
        lt_of_le_of_lt (run_reqs_mono cfg ops _) hb
      obtain ⟨i1, _⟩ := step_keep cfg lb op h.full h.pre hload hi hb1
      simp only [TComp.trace]
      show specC04AGo lb.sub.hs.reqs lb.queued idx
        ((op, (step cfg lb op).2) :: comp4A.trace cfg (step cfg lb op).1 ops) = .ok
      simp only [specC04AGo]
      obtain ⟨g1, g2, g3⟩ := step_queue cfg lb op hg
      rw [g2, g3]
      have hr : reqsPut lb.sub.hs.reqs op ++ newReqs (stepSt cfg lb op).2 = (stepSt cfg lb op).1.sub.hs.reqs :=
        (step_reqsF cfg lb op).symm
      rw [hr]
      have hv : c04AAt (lateIds (newReqs (stepSt cfg lb op).2)) (stepSt cfg lb op).1.sub.hs.reqs idx
          (step cfg lb op).2 = .ok :=
        c04AAt_ok (stepSt cfg lb op).1 (stepSt cfg lb op).2 i1 _ idx
      rw [hv, Verdict.ok_and]
      exact ih p' _ (idx + 1) h' i1 g1 hp hb

end Scales.LB
